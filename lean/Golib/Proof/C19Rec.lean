/-
C19 — helper lemmas about the cleanup loop of `Recover` (`runCleanups`).
-/
import Golib.Model.C19Rec

namespace Golib.C19

/-- Index (from `i`) of the first panicking cleanup, if any. -/
def firstPanic : Nat → List Outcome → Option (Int × Nat)
  | _, [] => none
  | i, .ok :: rest => firstPanic (i + 1) rest
  | i, .panic v :: _ => some (v, i)
  | _, .panicNil :: _ => none      -- ends the loop, but the inner `recover()` returns nil
  | _, .goexit :: _ => none        -- ends the goroutine

theorem runCleanups_snd (i : Nat) (cl : List Outcome) : (runCleanups i cl).2 = firstPanic i cl := by
  induction cl generalizing i with
  | nil => rfl
  | cons c rest ih => cases c <;> simp [runCleanups, firstPanic, ih]

/-- No cleanup panics: every cleanup is called, in order. -/
theorem runCleanups_all_ok (i : Nat) (cl : List Outcome) (h : ∀ c ∈ cl, c = .ok) :
    runCleanups i cl = ((List.range cl.length).map (· + i), none) := by
  induction cl generalizing i with
  | nil => rfl
  | cons c rest ih =>
    have hc : c = .ok := h c (by simp)
    subst hc
    have ih' := ih (i + 1) (fun c hc => h c (by simp [hc]))
    simp only [runCleanups, ih', List.length_cons, List.range_succ_eq_map, List.map_cons,
      List.map_map, Nat.zero_add]
    refine Prod.ext ?_ rfl
    simp only [List.cons.injEq, true_and]
    apply List.map_congr_left
    intro a _
    simp only [Function.comp]
    omega

/-- The cleanups before the first panicking one (all `ok`), then the panicking one: exactly
these `pre.length + 1` cleanups are called, the rest is skipped. -/
theorem runCleanups_split (i : Nat) (pre : List Outcome) (v : Int) (post : List Outcome)
    (h : ∀ c ∈ pre, c = .ok) :
    runCleanups i (pre ++ .panic v :: post) =
      ((List.range (pre.length + 1)).map (· + i), some (v, i + pre.length)) := by
  induction pre generalizing i with
  | nil => simp [runCleanups]
  | cons c rest ih =>
    have hc : c = .ok := h c (by simp)
    subst hc
    have ih' := ih (i + 1) (fun c hc => h c (by simp [hc]))
    simp only [List.cons_append, runCleanups, ih', List.length_cons]
    refine Prod.ext ?_ ?_
    · simp only
      rw [List.range_succ_eq_map (n := rest.length + 1)]
      simp only [List.map_cons, List.map_map, Nat.zero_add, List.cons.injEq, true_and]
      apply List.map_congr_left
      intro a _
      simp only [Function.comp]
      omega
    · simp only [Option.some.injEq, Prod.mk.injEq, true_and]
      omega

/-- The cleanups before the first one that ends SILENTLY (`panic(nil)` under `panicnil=1`, or
`Goexit`): exactly these `pre.length + 1` cleanups are called, the rest is skipped, and the
inner deferred function has nothing to report. -/
theorem runCleanups_split_silent (i : Nat) (pre : List Outcome) (c : Outcome) (post : List Outcome)
    (h : ∀ c ∈ pre, c = .ok) (hc : c = .panicNil ∨ c = .goexit) :
    runCleanups i (pre ++ c :: post) = ((List.range (pre.length + 1)).map (· + i), none) := by
  induction pre generalizing i with
  | nil => rcases hc with rfl | rfl <;> simp [runCleanups]
  | cons c0 rest ih =>
    have hc0 : c0 = .ok := h c0 (by simp)
    subst hc0
    have ih' := ih (i + 1) (fun c hc => h c (by simp [hc]))
    simp only [List.cons_append, runCleanups, ih', List.length_cons]
    refine Prod.ext ?_ rfl
    simp only
    rw [List.range_succ_eq_map (n := rest.length + 1)]
    simp only [List.map_cons, List.map_map, Nat.zero_add, List.cons.injEq, true_and]
    apply List.map_congr_left
    intro a _
    simp only [Function.comp]
    omega

/-- No cleanup calls `Goexit`: the goroutine is not ended by the cleanups. -/
theorem cleanupsGoexit_false (cl : List Outcome) (h : ∀ c ∈ cl, c ≠ .goexit) :
    cleanupsGoexit cl = false := by
  induction cl with
  | nil => rfl
  | cons c rest ih =>
    have hc := h c (by simp)
    cases c with
    | ok => simpa [cleanupsGoexit] using ih (fun c hc => h c (by simp [hc]))
    | panic v => rfl
    | panicNil => rfl
    | goexit => exact absurd rfl hc

/-- The first cleanup that does not return is a `Goexit` (the earlier ones return). -/
theorem cleanupsGoexit_split (pre post : List Outcome) (h : ∀ c ∈ pre, c = .ok) :
    cleanupsGoexit (pre ++ .goexit :: post) = true := by
  induction pre with
  | nil => rfl
  | cons c rest ih =>
    have hc : c = .ok := h c (by simp)
    subst hc
    simpa [cleanupsGoexit] using ih (fun c hc => h c (by simp [hc]))

end Golib.C19
