/-
C05 helper lemmas for histories (Insert…, Build, Insert…, Build): `BuildFailureLinks` run on a
trie that still carries the failure table `F0` of an earlier build never reads a stale
entry — it writes exactly the entries of a first build, on top of `F0` — and all queries
depend on the trie only through its pattern list and `failOf`.
-/
import Golib.Proof.C05Build
import Golib.Model.C06Replace

set_option linter.unusedSimpArgs false
set_option linter.unusedVariables false
set_option linter.unusedSectionVars false

namespace Golib.C05
open Golib

theorem lookup_append_some {F F0 : FailTab} {n f : Label} (h : F.lookup n = some f) :
    (F ++ F0).lookup n = some f := by
  induction F with
  | nil => simp at h
  | cons e F ih =>
    obtain ⟨k, v⟩ := e
    by_cases hk : n = k
    · subst hk
      rw [List.cons_append, List.lookup_cons_self]
      rw [List.lookup_cons_self] at h; exact h
    · rw [List.cons_append, lookup_cons_ne hk]
      rw [lookup_cons_ne hk] at h
      exact ih h

theorem lookup_append_none {F F0 : FailTab} {n : Label} (h : F.lookup n = none) :
    (F ++ F0).lookup n = F0.lookup n := by
  induction F with
  | nil => rfl
  | cons e F ih =>
    obtain ⟨k, v⟩ := e
    by_cases hk : n = k
    · subst hk; rw [List.lookup_cons_self] at h; cases h
    · rw [List.cons_append, lookup_cons_ne hk]
      rw [lookup_cons_ne hk] at h
      exact ih h

/-- The outer loop started on `F ++ F0` (stale table underneath) does what it does on `F`. -/
theorem bfsLoop_stale (ps : List (List Step)) (F0 : FailTab) (h0 : F0.lookup [] = none) :
    ∀ (fuel : Nat) (P : List Label) (q q' : Queue) (F : FailTab), q.Inv → q'.Inv →
      q'.content = q.content → BInv ps P q.content F → nodeBound ps + 1 ≤ fuel + P.length →
      ∃ P' s' s'', bfsLoop ps fuel ⟨q, F⟩ = some s' ∧ bfsLoop ps fuel ⟨q', F ++ F0⟩ = some s'' ∧
        s''.F = s'.F ++ F0 ∧ BInv ps P' [] s'.F := by
  intro fuel
  induction fuel with
  | zero =>
    intro P q q' F hq hq' hcq h hf
    have := h.card
    simp only [List.length_append] at this
    omega
  | succ fuel ih =>
    intro P q q' F hq hq' hcq h hf
    cases hQ : q.content with
    | nil =>
      have he : q.isEmpty = true := (Queue.isEmpty_spec q hq).2 hQ
      have he' : q'.isEmpty = true := (Queue.isEmpty_spec q' hq').2 (by rw [hcq, hQ])
      refine ⟨P, ⟨q, F⟩, ⟨q', F ++ F0⟩, ?_, ?_, rfl, ?_⟩
      · simp only [bfsLoop, he, if_true]
      · simp only [bfsLoop, he', if_true]
      · rw [hQ] at h; exact h
    | cons curr rest =>
      have he : q.isEmpty = false := by
        cases hb : q.isEmpty with
        | false => rfl
        | true => rw [(Queue.isEmpty_spec q hq).1 hb] at hQ; cases hQ
      have hQ' : q'.content = curr :: rest := by rw [hcq, hQ]
      have he' : q'.isEmpty = false := by
        cases hb : q'.isEmpty with
        | false => rfl
        | true => rw [(Queue.isEmpty_spec q' hq').1 hb] at hQ'; cases hQ'
      rw [hQ] at h
      obtain ⟨q1, hp1, hq1, hc1⟩ := Queue.pop_spec q hq curr rest hQ
      obtain ⟨q1', hp1', hq1', hc1'⟩ := Queue.pop_spec q' hq' curr rest hQ'
      obtain ⟨cs, hc⟩ := children_exists ps curr
      obtain ⟨hcn, hcne, _⟩ := h.right (show curr ∈ P ++ curr :: rest by simp)
      obtain ⟨q2, hp2, hq2, hc2⟩ :=
        processChildren_spec ps curr hcn hcne cs q1 F hq1 h.root h.right_below
      obtain ⟨q2', hp2', hq2', hc2'⟩ :=
        processChildren_spec ps curr hcn hcne cs q1' (F ++ F0) hq1'
          (by rw [lookup_append_none h.root]; exact h0)
          (fun n hn hne hle => lookup_append_some (h.right_below n hn hne hle))
      have hstep := h.step hc
      have hcard := h.card
      simp only [List.length_append, List.length_cons] at hcard
      simp only [bfsLoop, he, he', hp1, hp1', hc, hp2, hp2', Bool.false_eq_true, if_false]
      rw [← List.append_assoc]
      apply ih (P ++ [curr]) q2 q2' _ hq2 hq2'
      · rw [hc2', hc2, hc1, hc1']
      · rw [hc2, hc1]
        exact hstep
      · simp only [List.length_append, List.length_cons, List.length_nil]
        omega

/-- `BuildFailureLinks` on top of an old table `F0` (without a root entry): never panics and
writes exactly the table of a first build, leaving `F0` underneath. -/
theorem buildFailFrom_spec (ps : List (List Step)) (F0 : FailTab) (h0 : F0.lookup [] = none) :
    ∃ F, buildFail ps = some F ∧ buildFailFrom ps F0 = some (F ++ F0) := by
  obtain ⟨cs, hc⟩ := children_exists ps []
  obtain ⟨hqi, hci⟩ := Queue.init_spec 10 (by decide)
  obtain ⟨q0, hs0, hq0, hc0⟩ := seedRoot_spec ps cs (Queue.init 10) [] hqi
  obtain ⟨q0', hs0', hq0', hc0'⟩ := seedRoot_spec ps cs (Queue.init 10) F0 hqi
  have hB := BInv.init hc
  obtain ⟨P', s', s'', hl, hl', hF, _⟩ := bfsLoop_stale ps F0 h0 (nodeBound ps + 1) [] q0 q0'
    (entries ps [] cs ++ []) hq0 hq0' (by rw [hc0', hc0])
    (by rw [hc0, hci]; exact hB) (by simp)
  refine ⟨s'.F, ?_, ?_⟩
  · simp only [buildFail, hc, hs0, hl, Option.map_some]
  · have e : entries ps [] cs ++ F0 = (entries ps [] cs ++ []) ++ F0 := by simp
    simp only [buildFailFrom, hc, hs0', e, hl', Option.map_some, hF]

/-! ### the queries see only the pattern list and `failOf` -/

section congr
variable {ps : List (List Step)} {F F' : FailTab} (hf : ∀ n, F.lookup n = F'.lookup n)
include hf

theorem fallLoop_congr (v : Int) : ∀ (fuel : Nat) (node : Label) (idx : Option Nat),
    fallLoop ⟨ps, F⟩ v fuel node idx = fallLoop ⟨ps, F'⟩ v fuel node idx := by
  intro fuel
  induction fuel with
  | zero => intros; rfl
  | succ fuel ih => intro node idx; simp only [fallLoop, Trie.failOf, Trie.children, hf, ih]

theorem fallback_congr (node : Label) (v : Int) :
    fallback ⟨ps, F⟩ node v = fallback ⟨ps, F'⟩ node v := by
  simp only [fallback, Trie.children, fallLoop_congr hf]

theorem childAt_congr (node : Label) (idx : Nat) : childAt ⟨ps, F⟩ node idx = childAt ⟨ps, F'⟩ node idx := rfl

theorem outWalk_congr (i : Nat) : ∀ (fuel : Nat) (temp : Label),
    outWalk ⟨ps, F⟩ i fuel temp = outWalk ⟨ps, F'⟩ i fuel temp := by
  intro fuel
  induction fuel with
  | zero => intros; rfl
  | succ fuel ih => intro temp; simp only [outWalk, Trie.failOf, hf, ih]

theorem anyEndWalk_congr : ∀ (fuel : Nat) (temp : Label),
    anyEndWalk ⟨ps, F⟩ fuel temp = anyEndWalk ⟨ps, F'⟩ fuel temp := by
  intro fuel
  induction fuel with
  | zero => intros; rfl
  | succ fuel ih => intro temp; simp only [anyEndWalk, Trie.failOf, hf, ih]

theorem findLoop_congr : ∀ (steps : List Step) (node : Label) (i : Nat) (acc : List Scope),
    findLoop ⟨ps, F⟩ steps node i acc = findLoop ⟨ps, F'⟩ steps node i acc := by
  intro steps
  induction steps with
  | nil => intros; rfl
  | cons st rest ih =>
    intro node i acc
    obtain ⟨r, sz⟩ := st
    simp only [findLoop, fallback_congr hf, childAt_congr hf, outWalk_congr hf, ih]

theorem matchLoop_congr : ∀ (steps : List Step) (node : Label),
    matchLoop ⟨ps, F⟩ steps node = matchLoop ⟨ps, F'⟩ steps node := by
  intro steps
  induction steps with
  | nil => intros; rfl
  | cons st rest ih =>
    intro node
    obtain ⟨r, sz⟩ := st
    simp only [matchLoop, fallback_congr hf, childAt_congr hf, anyEndWalk_congr hf, ih]

theorem dfsLoop_congr (w : Int → Int) (enc : Int → List Nat) : ∀ (fuel : Nat) (stack : List Frame)
    (buf : List Nat) (ret : List (List Nat)),
    dfsLoop ⟨ps, F⟩ w enc fuel stack buf ret = dfsLoop ⟨ps, F'⟩ w enc fuel stack buf ret := by
  intro fuel
  induction fuel with
  | zero => intros; rfl
  | succ fuel ih =>
    intro stack buf ret
    cases stack with
    | nil => rfl
    | cons cur stack => simp only [dfsLoop, Trie.children, ih]

theorem descend_congr : ∀ (steps : List Step) (node : Label),
    descend ⟨ps, F⟩ steps node = descend ⟨ps, F'⟩ steps node := by
  intro steps
  induction steps with
  | nil => intros; rfl
  | cons st rest ih =>
    intro node
    obtain ⟨r, sz⟩ := st
    simp only [descend, Trie.children, ih]

theorem fuzzyDescend_congr : ∀ (steps : List Step) (node : Label),
    fuzzyDescend ⟨ps, F⟩ steps node = fuzzyDescend ⟨ps, F'⟩ steps node := by
  intro steps
  induction steps with
  | nil => intros; rfl
  | cons st rest ih =>
    intro node
    obtain ⟨r, sz⟩ := st
    simp only [fuzzyDescend, fallback_congr hf, childAt_congr hf, ih]

theorem fuzzyOuter_congr (w : Int → Int) (enc : Int → List Nat) (key : List Nat) : ∀ (fuel : Nat)
    (node : Label) (ret : List (List Nat)),
    fuzzyOuter ⟨ps, F⟩ w enc key fuel node ret = fuzzyOuter ⟨ps, F'⟩ w enc key fuel node ret := by
  intro fuel
  induction fuel with
  | zero => intros; rfl
  | succ fuel ih =>
    intro node ret
    simp only [fuzzyOuter, Trie.children, Trie.failOf, dfsLoop_congr hf, hf, ih]

/-- Every query of the API depends on the trie only through its pattern list and `failOf`. -/
theorem queries_congr :
    (∀ text, (⟨ps, F⟩ : Trie).match text = (⟨ps, F'⟩ : Trie).match text) ∧
    (∀ text, (⟨ps, F⟩ : Trie).find text = (⟨ps, F'⟩ : Trie).find text) ∧
    (∀ text, (⟨ps, F⟩ : Trie).findAll text = (⟨ps, F'⟩ : Trie).findAll text) ∧
    (∀ key, (⟨ps, F⟩ : Trie).prefixSearch key = (⟨ps, F'⟩ : Trie).prefixSearch key) ∧
    (∀ key, (⟨ps, F⟩ : Trie).fuzzySearch key = (⟨ps, F'⟩ : Trie).fuzzySearch key) ∧
    (∀ text repl, C06.replace ⟨ps, F⟩ text repl = C06.replace ⟨ps, F'⟩ text repl) ∧
    (∀ text mask, C06.replaceWithMask ⟨ps, F⟩ text mask = C06.replaceWithMask ⟨ps, F'⟩ text mask) := by
  have hfind : ∀ text, (⟨ps, F⟩ : Trie).find text = (⟨ps, F'⟩ : Trie).find text := by
    intro text; simp only [Trie.find, findSteps, findLoop_congr hf]
  refine ⟨?_, hfind, ?_, ?_, ?_, ?_, ?_⟩
  · intro text; simp only [Trie.match, matchWith, matchSteps, matchLoop_congr hf]
  · intro text
    have := hfind text
    simp only [Trie.find, decodeAll] at this
    simp only [Trie.findAll, findAllWith, this]
  · intro key
    simp only [Trie.prefixSearch, prefixSearchWith, descend_congr hf, Trie.children, dfsLoop_congr hf]
  · intro key
    simp only [Trie.fuzzySearch, fuzzySearchWith, prefixSearchWith, descend_congr hf, Trie.children,
      Trie.failOf, dfsLoop_congr hf, fuzzyDescend_congr hf, fuzzyOuter_congr hf, hf]
  · intro text repl; simp only [C06.replace, C06.replaceWith, hfind]
  · intro text mask; simp only [C06.replaceWithMask, C06.replaceWithMaskWith, hfind]

end congr

/-! ### Insert…, Build, Insert…, Build -/

/-- The table of a trie built by `ofPatterns` has no root entry and only entries of nodes. -/
theorem ofPatterns_table (pats : List (List Nat)) (t : Trie) (hb : Trie.ofPatterns pats = some t) :
    t.pats = decodedPats pats ∧ buildFail (decodedPats pats) = some t.fail ∧ t.fail.lookup [] = none ∧
    (∀ n, IsNode t.pats n → n ≠ [] → t.fail.lookup n = some (lps t.pats n)) ∧
    (∀ n f, t.fail.lookup n = some f → IsNode t.pats n ∧ n ≠ []) := by
  obtain ⟨F, hF, hroot, hok, hsound⟩ := buildFail_spec (decodedPats pats)
  have hfold := foldl_insert (pats.map decodeAll) Trie.empty
  have hpats : (pats.foldl (fun t p => t.insert (decodeAllWith decodeStep p)) Trie.empty)
      = (pats.map decodeAll).foldl (fun t p => t.insert p) Trie.empty := by
    rw [List.foldl_map]; rfl
  have h1 : ((pats.map decodeAll).foldl (fun t p => t.insert p) Trie.empty).pats = decodedPats pats := by
    rw [hfold.1]; simp [Trie.empty, decodedPats]
  have ht : t = ⟨decodedPats pats, F⟩ := by
    simp only [Trie.ofPatterns, Trie.ofPatternsWith, hpats, Trie.build, h1, hF, Option.map_some,
      Option.some.injEq] at hb
    rw [← hb]
  subst ht
  exact ⟨rfl, hF, hroot, hok, fun n f h => ⟨(hsound n f h).1, (hsound n f h).2.1⟩⟩

theorem decodedPats_append (a b : List (List Nat)) :
    decodedPats (a ++ b) = decodedPats a ++ decodedPats b := by
  simp [decodedPats]

theorem isNode_mono {ps qs : List (List Step)} {n : Label} (h : IsNode ps n) : IsNode (ps ++ qs) n := by
  rcases (isNode_iff ps n).1 h with h | ⟨p, hp, hpre⟩
  · exact (isNode_iff _ n).2 (Or.inl h)
  · exact (isNode_iff _ n).2 (Or.inr ⟨p, by simp [hp], hpre⟩)

/-- `t` is what some history of `Insert`s and `BuildFailureLinks` calls over the patterns
`pats` (in this order), ending with a build, leaves behind: the decoded patterns, a table
without root entry whose entries belong to nodes, and the `failOf` function of the trie built
from `pats` in one go (older, shadowed entries may lie underneath). -/
def Built (pats : List (List Nat)) (t : Trie) : Prop :=
  t.pats = decodedPats pats ∧ t.fail.lookup [] = none ∧
  (∀ n f, t.fail.lookup n = some f → IsNode t.pats n ∧ n ≠ []) ∧
  ∃ t0, Trie.ofPatterns pats = some t0 ∧ ∀ n, t.failOf n = t0.failOf n

theorem built_first (pats : List (List Nat)) (t : Trie) (hb : Trie.ofPatterns pats = some t) :
    Built pats t := by
  obtain ⟨h1, _, h3, _, h5⟩ := ofPatterns_table pats t hb
  exact ⟨h1, h3, h5, t, hb, fun _ => rfl⟩

/-- A later `BuildFailureLinks` is worth a first build over everything inserted so far:
inserting `pats2` into a built trie and building again never panics, never reads a stale
failure link, and yields a trie that is `Built` for `pats1 ++ pats2`. -/
theorem rebuild_spec (pats1 pats2 : List (List Nat)) (t1 : Trie) (hb : Built pats1 t1) :
    ∃ t2, (pats2.foldl (fun t p => t.insert (decodeAll p)) t1).rebuild = some t2 ∧
      Built (pats1 ++ pats2) t2 := by
  obtain ⟨hp1, hroot1, hsound1, _⟩ := hb
  obtain ⟨t, hbt, _, _⟩ := ofPatterns_spec (pats1 ++ pats2)
  obtain ⟨hpt, hFt, hroott, hokt, hsoundt⟩ := ofPatterns_table (pats1 ++ pats2) t hbt
  have hfold := foldl_insert (pats2.map decodeAll) t1
  have hpats : (pats2.foldl (fun t p => t.insert (decodeAll p)) t1)
      = (pats2.map decodeAll).foldl (fun t p => t.insert p) t1 := by
    rw [List.foldl_map]
  have hP : ((pats2.map decodeAll).foldl (fun t p => t.insert p) t1).pats = decodedPats (pats1 ++ pats2) := by
    rw [hfold.1, hp1, decodedPats_append]; rfl
  obtain ⟨F, hF, hFrom⟩ := buildFailFrom_spec (decodedPats (pats1 ++ pats2)) t1.fail hroot1
  have hFe : F = t.fail := by rw [hFt] at hF; exact (Option.some.inj hF).symm
  subst hFe
  have hmono : ∀ n, IsNode t1.pats n → IsNode (decodedPats (pats1 ++ pats2)) n := by
    intro n hn
    rw [decodedPats_append, ← hp1]; exact isNode_mono hn
  refine ⟨⟨decodedPats (pats1 ++ pats2), t.fail ++ t1.fail⟩, ?_, rfl, ?_, ?_, t, hbt, ?_⟩
  · simp only [Trie.rebuild, hpats, hP, hfold.2, hFrom, Option.map_some]
  · simp only []
    rw [lookup_append_none hroott]; exact hroot1
  · intro n f h
    simp only [] at h ⊢
    cases hl : t.fail.lookup n with
    | some g =>
      obtain ⟨a, b⟩ := hsoundt n g hl
      rw [hpt] at a; exact ⟨a, b⟩
    | none =>
      rw [lookup_append_none hl] at h
      obtain ⟨a, b⟩ := hsound1 n f h
      exact ⟨hmono n a, b⟩
  · intro n
    simp only [Trie.failOf]
    cases hl : t.fail.lookup n with
    | some f => exact lookup_append_some hl
    | none =>
      rw [lookup_append_none hl]
      cases hl1 : t1.fail.lookup n with
      | none => rfl
      | some f =>
        exfalso
        obtain ⟨hn, hne⟩ := hsound1 n f hl1
        have hn' : IsNode t.pats n := by rw [hpt]; exact hmono n hn
        rw [hokt n hn' hne] at hl
        cases hl

/-- A `Built` trie answers every query like the trie built in one go. -/
theorem built_queries (pats : List (List Nat)) (t : Trie) (hb : Built pats t) :
    ∃ t0, Trie.ofPatterns pats = some t0 ∧
      (∀ text, t.match text = t0.match text) ∧ (∀ text, t.find text = t0.find text) ∧
      (∀ text, t.findAll text = t0.findAll text) ∧ (∀ key, t.prefixSearch key = t0.prefixSearch key) ∧
      (∀ key, t.fuzzySearch key = t0.fuzzySearch key) ∧
      (∀ text repl, C06.replace t text repl = C06.replace t0 text repl) ∧
      (∀ text mask, C06.replaceWithMask t text mask = C06.replaceWithMask t0 text mask) := by
  obtain ⟨hp, _, _, t0, hb0, hf⟩ := hb
  obtain ⟨hp0, _⟩ := ofPatterns_table pats t0 hb0
  obtain ⟨ps, F⟩ := t
  obtain ⟨ps0, F0⟩ := t0
  simp only [] at hp hp0
  subst hp; subst hp0
  exact ⟨_, hb0, queries_congr (fun n => hf n)⟩

end Golib.C05
