/-
C14 helper lemmas, part 4: the clamping readers (`SubSlice`, `Copy`, `Remove`, `Index`,
`Equal`, `Values`) never panic for any `Int` arguments and return what their doc says.
-/
import Golib.Proof.C14Ip

namespace Golib.C14

/-! ### SubSlice -/

/-- Documented clamping of `SubSlice(s, start, end)`: start below 0 counts as 0, a negative
or oversized end counts as `len(s)`; an empty range is `nil`. -/
def subRange (n : Nat) (a b : Int) : Option (Nat × Nat) :=
  let a' := if a < 0 then 0 else a
  let b' := if b < 0 ∨ b > n then (n : Int) else b
  if a' < b' then some (a'.toNat, b'.toNat - a'.toNat) else none

theorem subSlice_spec (n : Nat) (a b : Int) :
    subSlice n a b = some (match subRange n a b with
      | some (st, l) => .view st l
      | none => .nil) ∧
    (∀ st l, subRange n a b = some (st, l) → 0 < l ∧ st + l ≤ n) := by
  constructor
  · unfold subSlice sliceView subRange
    simp only []
    repeat' split
    all_goals first | omega | rfl | simp_all
    all_goals first | omega | (simp_all; omega)
  · intro st l h
    unfold subRange at h
    simp only [] at h
    repeat' split at h
    all_goals first | omega | (simp only [Option.some.injEq, Prod.mk.injEq] at h; omega) | simp at h

/-! ### Copy -/

def copyRange (n : Nat) (a len : Int) : Option (Nat × Nat) :=
  if n = 0 ∨ a ≥ n ∨ len = 0 then none
  else
    let a' := if a < 0 then 0 else a
    let maxn := (n : Int) - a'
    let l := if len < 0 ∨ len > maxn then maxn else len
    some (a'.toNat, l.toNat)

theorem sliceView_ok (n : Nat) (lo hi : Int) (h : 0 ≤ lo ∧ lo ≤ hi ∧ hi ≤ (n : Int)) :
    sliceView n lo hi = some (.view lo.toNat (hi.toNat - lo.toNat)) := by
  simp [sliceView, h]

theorem copy_spec (s : List Int) (a len : Int) :
    copy s a len = some (match copyRange s.length a len with
      | some (st, l) => .fresh ((s.drop st).take l)
      | none => .nil) ∧
    (∀ st l, copyRange s.length a len = some (st, l) → 0 < l ∧ st + l ≤ s.length) := by
  constructor
  · unfold copy copyRange
    simp only []
    by_cases h : (s.length : Int) = 0 ∨ a ≥ s.length ∨ len = 0
    · have h' : s.length = 0 ∨ a ≥ s.length ∨ len = 0 := by omega
      simp only [h, h', if_true]
    · have h' : ¬ (s.length = 0 ∨ a ≥ s.length ∨ len = 0) := by omega
      simp only [h, h', if_false]
      rw [sliceView_ok _ _ _ (by (repeat' split) <;> omega)]
      simp only [View.content]
      congr 3
      all_goals first | rfl | ((repeat' split) <;> omega)
  · intro st l h
    unfold copyRange at h
    simp only [] at h
    repeat' split at h
    all_goals first | omega | (simp only [Option.some.injEq, Prod.mk.injEq] at h; omega) | simp at h

/-! ### Remove -/

theorem copyWithin_erase (s : List Int) (i : Nat) (h : i + 1 < s.length) :
    copyWithin s i (i + 1) = s.eraseIdx i ++ [s[s.length - 1]'(by omega)] := by
  unfold copyWithin
  apply List.ext_getElem?; intro k
  simp only [List.getElem?_append, List.getElem?_take, List.getElem?_drop, List.length_take,
    List.length_drop, List.length_append, List.getElem?_eraseIdx, List.length_eraseIdx]
  grind

theorem set_last (l : List Int) (x : Int) (n : Nat) (h : n = l.length) :
    (l ++ [x]).set n 0 = l ++ [0] := by subst h; simp

theorem take_append_len (l : List Int) (x : Int) (n : Nat) (h : n = l.length) :
    (l ++ [x]).take n = l := by subst h; simp

theorem remove_spec (n1 : Bool) (s : List Int) (index : Int) :
    (index < 0 ∨ index ≥ s.length → remove n1 s index = some (s, ⟨n1, s⟩, 0, false)) ∧
    (∀ i : Nat, index = i → (hi : i < s.length) →
      remove n1 s index = some (s.eraseIdx i ++ [0], ⟨false, s.eraseIdx i⟩, s[i], true)) := by
  constructor
  · intro h; simp [remove, h]
  · intro i hidx hi
    subst hidx
    have hn : ¬ ((i : Int) < 0 ∨ (i : Int) ≥ s.length) := by omega
    simp only [remove, hn, if_false, Int.toNat_natCast, List.getElem?_eq_getElem hi]
    by_cases hl : i < s.length - 1
    · simp only [hl, if_true]
      rw [copyWithin_erase s i (by omega)]
      have : s.length - 1 < (s.eraseIdx i ++ [s[s.length - 1]'(by omega)]).length := by
        simp [List.length_eraseIdx, hi]
      simp only [this, if_true]
      have hlen : (s.eraseIdx i).length = s.length - 1 := by simp [List.length_eraseIdx, hi]
      rw [set_last _ _ _ hlen.symm, take_append_len _ _ _ hlen.symm]
    · simp only [hl, if_false]
      have hil : i = s.length - 1 := by omega
      have : s.length - 1 < s.length := by omega
      simp only [this, if_true]
      have he : s.eraseIdx i = s.take (s.length - 1) := by
        rw [hil]; exact List.eraseIdx_eq_take_drop_succ _ _ |>.trans (by
          rw [List.drop_eq_nil_of_le (by omega)]; simp)
      have h1 : s.set (s.length - 1) 0 = s.eraseIdx i ++ [0] := by
        rw [he]
        apply List.ext_getElem?; intro k
        simp only [List.getElem?_set, List.getElem?_append, List.getElem?_take, List.length_take]
        grind
      rw [h1]
      have hlen : (s.eraseIdx i).length = s.length - 1 := by simp [List.length_eraseIdx, hi]
      rw [take_append_len _ _ _ hlen.symm]

/-! ### Index / Equal -/

theorem indexFuncFrom_spec (fn : Int → Bool) (s : List Int) (i : Nat) :
    indexFuncFrom fn s i = match s.findIdx? fn with
      | some k => ((i + k : Nat) : Int)
      | none => -1 := by
  induction s generalizing i with
  | nil => simp [indexFuncFrom]
  | cons x xs ih =>
    simp only [indexFuncFrom, List.findIdx?_cons]
    by_cases hx : fn x
    · simp [hx]
    · simp only [hx, Bool.false_eq_true, if_false, ih]
      cases List.findIdx? fn xs with
      | none => simp
      | some k => simp only [Option.map_some]; congr 1; omega

/-- `IndexFunc` is the index of the first element satisfying `fn`, else `-1`. -/
theorem indexFunc_spec (fn : Int → Bool) (s : List Int) :
    indexFunc s fn = match s.findIdx? fn with
      | some k => (k : Int)
      | none => -1 := by
  have := indexFuncFrom_spec fn s 0
  simpa [indexFunc] using this

theorem equalLoop_spec (s1 s2 : List Int) (h : s1.length = s2.length) :
    equalLoop s1 s2 = some (decide (s1 = s2)) := by
  induction s1 generalizing s2 with
  | nil => cases s2 with
    | nil => simp [equalLoop]
    | cons => simp at h
  | cons a as ih =>
    cases s2 with
    | nil => simp at h
    | cons b bs =>
      simp only [equalLoop]
      by_cases hab : a = b
      · subst hab; simp [ih bs (by simpa using h)]
      · simp [hab]

/-- `Equal` never panics and decides equality of the contents (nil = empty). -/
theorem equal_spec (s1 s2 : List Int) : equal s1 s2 = some (decide (s1 = s2)) := by
  unfold equal
  by_cases h : s1.length = s2.length
  · simp only [h, bne_self_eq_false, Bool.false_eq_true, if_false]
    exact equalLoop_spec s1 s2 h
  · have : s1 ≠ s2 := fun e => h (by rw [e])
    simp [h, this]

end Golib.C14
