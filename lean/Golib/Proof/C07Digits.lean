/-
C07: `appendUint` (digits of `strconv.AppendUint`, right-aligned, zero padded) followed by
`parseUint` gives the number back, also after `toUpper`.
-/
import Golib.Proof.C07ParseUint

namespace Golib.C07
open Golib

def foldVal (base : Nat) (ds : List Nat) (n : Nat) : Nat := ds.foldl (fun a d => a * base + d) n

theorem toDigitsAux_spec {base : Nat} (hb : 2 ≤ base) :
    ∀ (fuel v : Nat), v < base ^ (fuel + 1) →
      foldVal base (toDigitsAux base fuel v) 0 = v ∧ ∀ d ∈ toDigitsAux base fuel v, d < base
  | 0, v, h => by
    have : v < base := by simpa using h
    simp [toDigitsAux, foldVal, Nat.mod_eq_of_lt this, this]
  | fuel + 1, v, h => by
    unfold toDigitsAux
    by_cases hv : v < base
    · simp [hv, foldVal]
    · simp only [hv, if_false]
      have hdiv : v / base < base ^ (fuel + 1) := by
        apply (Nat.div_lt_iff_lt_mul (by omega)).mpr
        rw [← Nat.pow_succ]; exact h
      obtain ⟨ih1, ih2⟩ := toDigitsAux_spec hb fuel (v / base) hdiv
      constructor
      · unfold foldVal at ih1 ⊢
        rw [List.foldl_append, ih1]
        simp only [List.foldl_cons, List.foldl_nil]
        exact Nat.div_add_mod' v base
      · intro d hd
        rcases List.mem_append.mp hd with h1 | h1
        · exact ih2 d h1
        · simp only [List.mem_singleton] at h1
          rw [h1]; exact Nat.mod_lt _ (by omega)

theorem toDigitsAux_length {base : Nat} (hb : 2 ≤ base) :
    ∀ (fuel v k : Nat), 1 ≤ k → v < base ^ k → (toDigitsAux base fuel v).length ≤ k
  | 0, v, k, hk, _ => by simp [toDigitsAux]; omega
  | fuel + 1, v, k, hk, h => by
    unfold toDigitsAux
    by_cases hv : v < base
    · simp [hv]; omega
    · simp only [hv, if_false, List.length_append, List.length_singleton]
      have hk2 : 2 ≤ k := by
        rcases Nat.lt_or_ge k 2 with h1 | h1
        · have : k = 1 := by omega
          subst this; simp at h; omega
        · exact h1
      have hdiv : v / base < base ^ (k - 1) := by
        apply (Nat.div_lt_iff_lt_mul (by omega)).mpr
        rw [← Nat.pow_succ]
        have : (k - 1).succ = k := by omega
        rw [this]; exact h
      have := toDigitsAux_length hb fuel (v / base) (k - 1) (by omega) hdiv
      omega

theorem toDigitsAux_ne_nil (base : Nat) : ∀ (fuel v : Nat), toDigitsAux base fuel v ≠ []
  | 0, v => by simp [toDigitsAux]
  | fuel + 1, v => by unfold toDigitsAux; split <;> simp

theorem accVal_append (base : Nat) : ∀ (a b : Bytes) (n : Nat),
    accVal base (a ++ b) n = accVal base b (accVal base a n)
  | [], b, n => rfl
  | c :: a, b, n => by simp only [List.cons_append, accVal]; exact accVal_append base a b _

theorem accVal_zeros (base : Nat) : ∀ x, accVal base (List.replicate x 48) 0 = 0
  | 0 => rfl
  | x + 1 => by
    simp only [List.replicate_succ, accVal]
    have : (digitVal 48).getD 0 = 0 := by decide
    rw [this]; simpa using accVal_zeros base x

theorem accVal_map {base : Nat} (f : Nat → Nat) : ∀ (ds : List Nat) (n : Nat),
    (∀ d ∈ ds, digitVal (f d) = some d) → accVal base (ds.map f) n = foldVal base ds n
  | [], n, _ => rfl
  | d :: ds, n, h => by
    simp only [List.map_cons, accVal, foldVal, List.foldl_cons]
    rw [h d (by simp)]
    exact accVal_map f ds _ (fun d' hd' => h d' (by simp [hd']))

theorem digitVal_digitChar : ∀ d, d < 36 → digitVal (digitChar d) = some d := by decide
theorem digitVal_upper_digitChar : ∀ d, d < 36 → digitVal (upper (digitChar d)) = some d := by decide
theorem upper_48 : upper 48 = 48 := by decide

theorem toUpper_pad (x : Nat) (ds : List Nat) :
    toUpper (List.replicate x 48 ++ ds.map digitChar) =
      List.replicate x 48 ++ ds.map (fun d => upper (digitChar d)) := by
  simp [toUpper, upper_48, Function.comp_def]

/-- `parseUint` of a zero-padded digit string written with digit characters `f d`. -/
theorem parseUint_pad {base bits : Nat} (hb1 : 2 ≤ base) (hb2 : base ≤ 36) (hbits : bits ≤ 64)
    (f : Nat → Nat) (hf : ∀ d, d < 36 → digitVal (f d) = some d)
    (x : Nat) (ds : List Nat) (hds : ∀ d ∈ ds, d < base) (hv : foldVal base ds 0 ≤ 2 ^ bits - 1) :
    parseUint (List.replicate x 48 ++ ds.map f) base bits =
      (foldVal base ds 0, x + ds.length, true) := by
  rw [parseUint_eq_spec hb1 hb2 hbits]
  have hacc : accVal base (List.replicate x 48 ++ ds.map f) 0 = foldVal base ds 0 := by
    rw [accVal_append, accVal_zeros, accVal_map f ds 0 (fun d hd => hf d (by have := hds d hd; omega))]
  have hdig : ∀ c ∈ List.replicate x 48 ++ ds.map f, isDigit base c = true := by
    intro c hc
    rcases List.mem_append.mp hc with h | h
    · have := (List.mem_replicate.mp h).2
      subst this
      have : digitVal 48 = some 0 := by decide
      simp [isDigit, this]; omega
    · obtain ⟨d, hd, rfl⟩ := List.mem_map.mp h
      have hlt := hds d hd
      simp [isDigit, hf d (by omega), hlt]
  rw [specLoop_ok (by omega) _ 0 0 hdig (by rw [hacc]; exact hv), hacc]
  simp

/-- `appendUint` produces `width` characters that `parseUint` reads back, with or without
`toUpper`. -/
theorem appendUint_parse {base bits width v : Nat} (hb1 : 2 ≤ base) (hb2 : base ≤ 36)
    (hbits : bits ≤ 64) (hw1 : 1 ≤ width) (hw : width ≤ 8) (hv : v < base ^ width)
    (hvb : v ≤ 2 ^ bits - 1) :
    ∃ d, appendUint width v base = some d ∧ d.length = width ∧
      parseUint d base bits = (v, width, true) ∧ parseUint (toUpper d) base bits = (v, width, true) := by
  have h64 : v < base ^ (64 + 1) := by
    have : base ^ width ≤ base ^ (64 + 1) := Nat.pow_le_pow_right (by omega) (by omega)
    omega
  obtain ⟨hval, hdig⟩ := toDigitsAux_spec hb1 64 v h64
  have hlen := toDigitsAux_length hb1 64 v width hw1 hv
  change foldVal base (toDigits base v) 0 = v at hval
  change ∀ d ∈ toDigits base v, d < base at hdig
  change (toDigits base v).length ≤ width at hlen
  have hmaplen : ((toDigits base v).map digitChar).length = (toDigits base v).length := List.length_map _
  have hx : width - (toDigits base v).length ≤ 8 := by omega
  refine ⟨List.replicate (width - (toDigits base v).length) 48 ++ (toDigits base v).map digitChar, ?_, ?_, ?_, ?_⟩
  · unfold appendUint
    simp only [hmaplen]
    have : (toDigits base v).length ≤ width := hlen
    simp [this, hx]
  · simp only [List.length_append, List.length_replicate, List.length_map]
    have : (toDigits base v).length ≤ width := hlen
    omega
  · rw [parseUint_pad hb1 hb2 hbits digitChar digitVal_digitChar _ _ hdig (by rw [hval]; exact hvb), hval]
    have : (toDigits base v).length ≤ width := hlen
    congr 2; omega
  · rw [toUpper_pad,
      parseUint_pad hb1 hb2 hbits (fun d => upper (digitChar d)) digitVal_upper_digitChar _ _ hdig
        (by rw [hval]; exact hvb), hval]
    have : (toDigits base v).length ≤ width := hlen
    congr 2; omega

end Golib.C07
