/-
C03 helper lemmas, part 11: whole call sequences on the RoaringBitmap model against the
specification "a strictly ascending list of naturals" (= a finite set of uint32).
-/
import Golib.Proof.C03RB
import Golib.Proof.C03Enum
import Golib.Proof.C03Iter

set_option linter.unusedSimpArgs false

namespace Golib.C03

/-- The exported methods (`k` = the callback / `yield` answers false on its `k`-th call, 0 = never). -/
inductive ROp where
  | add (x : Nat)
  | remove (x : Nat)
  | contains (x : Nat)
  | len
  | range (k : Nat)
  | all (k : Nat)
  | iter                     -- `it := Iter(); for it.Next() { it.Value() }`, then one more `Next()`

/-- Observable results. -/
inductive ROut where
  | bool (b : Bool)
  | int (n : Int)
  | list (xs : List Nat)
  | iter (xs : List Nat) (nextAfter : Bool)   -- the values, and what `Next()` answers afterwards
deriving DecidableEq, Repr

/-- The arguments are `uint32`. -/
def ROp.ArgOk : ROp → Prop
  | .add x => x < 4294967296
  | .remove x => x < 4294967296
  | .contains x => x < 4294967296
  | _ => True

/-- One method call on the model (`none` = panic). -/
def RB.stepOp (r : RB) : ROp → Option (RB × ROut)
  | .add x => (r.add x).map fun (r', ok) => (r', .bool ok)
  | .remove x => (r.remove x).map fun (r', ok) => (r', .bool ok)
  | .contains x => (r.contains x).map fun b => (r, .bool b)
  | .len => some (r, .int r.len)
  | .range k => some (r, .list (r.range k))
  | .all k => some (r, .list (r.all k))
  | .iter => (r.iterAll true).map fun (xs, it) => (r, .iter xs (it.next true).2)

/-- A sequence of calls: final state and outputs (`none` = some call panicked). -/
def RB.runOps : RB → List ROp → Option (RB × List ROut)
  | r, [] => some (r, [])
  | r, op :: ops =>
    match r.stepOp op with
    | none => none
    | some (r', out) => (RB.runOps r' ops).map fun (r'', outs) => (r'', out :: outs)

/-! ### the specification: a strictly ascending list -/

def specInsert (x : Nat) (s : List Nat) : List Nat :=
  s.filter (fun y => decide (y < x)) ++ x :: s.filter (fun y => decide (x < y))

def specErase (x : Nat) (s : List Nat) : List Nat := s.filter (fun y => !decide (y = x))

/-- What a callback that answers `false` on its `k`-th call (0: never) has received. -/
def specStop (k : Nat) (s : List Nat) : List Nat := if k = 0 then s else s.take k

def specStep (s : List Nat) : ROp → List Nat × ROut
  | .add x => (specInsert x s, .bool (!decide (x ∈ s)))
  | .remove x => (specErase x s, .bool (decide (x ∈ s)))
  | .contains x => (s, .bool (decide (x ∈ s)))
  | .len => (s, .int s.length)
  | .range k => (s, .list (specStop k s))
  | .all k => (s, .list (specStop k s))
  | .iter => (s, .iter s false)

def specRun : List Nat → List ROp → List Nat × List ROut
  | s, [] => (s, [])
  | s, op :: ops =>
    let (s', out) := specStep s op
    let (s'', outs) := specRun s' ops
    (s'', out :: outs)

theorem mem_specInsert (x : Nat) (s : List Nat) (y : Nat) : y ∈ specInsert x s ↔ (y = x ∨ y ∈ s) := by
  simp only [specInsert, List.mem_append, List.mem_cons, List.mem_filter, decide_eq_true_eq]
  constructor
  · rintro (⟨h, _⟩ | rfl | ⟨h, _⟩)
    · exact Or.inr h
    · exact Or.inl rfl
    · exact Or.inr h
  · rintro (rfl | h)
    · exact Or.inr (Or.inl rfl)
    · rcases Nat.lt_trichotomy y x with h1 | h1 | h1
      · exact Or.inl ⟨h, h1⟩
      · exact Or.inr (Or.inl h1)
      · exact Or.inr (Or.inr ⟨h, h1⟩)

theorem specInsert_sorted (x : Nat) {s : List Nat} (hs : s.Pairwise (· < ·)) :
    (specInsert x s).Pairwise (· < ·) := by
  unfold specInsert
  rw [List.pairwise_append]
  refine ⟨hs.sublist List.filter_sublist, ?_, ?_⟩
  · rw [List.pairwise_cons]
    refine ⟨?_, hs.sublist List.filter_sublist⟩
    intro b hb
    simpa using (List.mem_filter.mp hb).2
  · intro a ha b hb
    have ha' : a < x := by simpa using (List.mem_filter.mp ha).2
    rcases List.mem_cons.mp hb with rfl | hb
    · exact ha'
    · have : x < b := by simpa using (List.mem_filter.mp hb).2
      omega

theorem mem_specErase (x : Nat) (s : List Nat) (y : Nat) : y ∈ specErase x s ↔ (y ≠ x ∧ y ∈ s) := by
  simp only [specErase, List.mem_filter, Bool.not_eq_true', decide_eq_false_iff_not]
  exact And.comm

theorem specErase_sorted (x : Nat) {s : List Nat} (hs : s.Pairwise (· < ·)) :
    (specErase x s).Pairwise (· < ·) := hs.sublist List.filter_sublist

/-- A strictly ascending list is determined by its members. -/
theorem sorted_ext : ∀ {l1 l2 : List Nat}, l1.Pairwise (· < ·) → l2.Pairwise (· < ·) →
    (∀ y, y ∈ l1 ↔ y ∈ l2) → l1 = l2 := by
  intro l1
  induction l1 with
  | nil =>
    intro l2 _ _ h
    cases l2 with
    | nil => rfl
    | cons b l2 => exact absurd ((h b).mpr (by simp)) (by simp)
  | cons a l1 ih =>
    intro l2 h1 h2 h
    cases l2 with
    | nil => exact absurd ((h a).mp (by simp)) (by simp)
    | cons b l2 =>
      obtain ⟨ha, h1'⟩ := List.pairwise_cons.mp h1
      obtain ⟨hb, h2'⟩ := List.pairwise_cons.mp h2
      have hab : a = b := by
        have m1 := (h a).mp (by simp)
        have m2 := (h b).mpr (by simp)
        rcases List.mem_cons.mp m1 with e | e
        · exact e
        · rcases List.mem_cons.mp m2 with e' | e'
          · exact e'.symm
          · have := hb a e; have := ha b e'; omega
      subst hab
      congr 1
      apply ih h1' h2'
      intro y
      constructor
      · intro hy
        have := (h y).mp (by simp [hy])
        rcases List.mem_cons.mp this with e | e
        · have := ha y hy; omega
        · exact e
      · intro hy
        have := (h y).mpr (by simp [hy])
        rcases List.mem_cons.mp this with e | e
        · have := hb y hy; omega
        · exact e

/-- One call: no panic, the invariant is kept, output and abstract state follow the specification. -/
theorem stepOp_spec (r : RB) (h : r.Inv) (op : ROp) (hop : op.ArgOk) :
    ∃ r' out, r.stepOp op = some (r', out) ∧ r'.Inv ∧ specStep r.toList op = (r'.toList, out) := by
  cases op with
  | add x =>
    obtain ⟨r', ok, h1, h2, h3, h4⟩ := RB.add_spec r h x hop
    refine ⟨r', .bool ok, by simp only [RB.stepOp, h1, Option.map_some], h2, ?_⟩
    simp only [specStep, h3]
    rw [sorted_ext (specInsert_sorted x h.sorted) h2.sorted
      (fun y => by rw [mem_specInsert, h4 y])]
  | remove x =>
    obtain ⟨r', ok, h1, h2, h3, h4⟩ := RB.remove_spec r h x hop
    refine ⟨r', .bool ok, by simp only [RB.stepOp, h1, Option.map_some], h2, ?_⟩
    simp only [specStep, h3]
    rw [sorted_ext (specErase_sorted x h.sorted) h2.sorted
      (fun y => by rw [mem_specErase, h4 y])]
  | contains x =>
    exact ⟨r, _, by simp only [RB.stepOp, RB.contains_spec r h x, Option.map_some], h, rfl⟩
  | len =>
    exact ⟨r, _, rfl, h, by simp only [specStep, h.len]⟩
  | range k =>
    refine ⟨r, _, rfl, h, ?_⟩
    simp only [specStep, specStop]
    by_cases hk : k = 0
    · subst hk; simp only [if_true]
      rw [toList_eq_enumAll, range_zero_eq r h.inv0]
    · simp only [hk, if_false]
      rw [toList_eq_enumAll, range_take r h.inv0 k (by omega)]
  | all k =>
    refine ⟨r, _, rfl, h, ?_⟩
    simp only [specStep, specStop]
    by_cases hk : k = 0
    · subst hk; simp only [if_true]
      rw [toList_eq_enumAll, all_zero_eq r h.inv0]
    · simp only [hk, if_false]
      rw [toList_eq_enumAll, all_take r h.inv0 k (by omega)]
  | iter =>
    obtain ⟨it, h1, h2⟩ := iterAll_true_spec r h.inv0 (by rw [← toList_eq_enumAll]; exact h.len)
    refine ⟨r, .iter (enumAll r.cs) false, by simp only [RB.stepOp, h1, Option.map_some, h2], h, ?_⟩
    simp only [specStep, toList_eq_enumAll]

theorem runOps_spec : ∀ (ops : List ROp) (r : RB), r.Inv → (∀ op ∈ ops, op.ArgOk) →
    ∃ r' outs, r.runOps ops = some (r', outs) ∧ r'.Inv ∧ specRun r.toList ops = (r'.toList, outs) := by
  intro ops
  induction ops with
  | nil => intro r h _; exact ⟨r, [], rfl, h, rfl⟩
  | cons op ops ih =>
    intro r h hx
    obtain ⟨r1, out, h1, h2, h3⟩ := stepOp_spec r h op (hx op (by simp))
    obtain ⟨r2, outs, h4, h5, h6⟩ := ih r1 h2 (fun o ho => hx o (by simp [ho]))
    refine ⟨r2, out :: outs, ?_, h5, ?_⟩
    · simp only [RB.runOps, h1, h4, Option.map_some]
    · simp only [specRun, h3, h6]

end Golib.C03
