/-
C10: histories with `Init` on the existing ring (any number of times, any capacities) and
histories that start from the never-initialised zero value.
-/
import Golib.Proof.C10Refine

set_option linter.unusedSimpArgs false
set_option linter.unusedVariables false

namespace Golib.C10
open Golib.Proto

/-- an operation, or `r.Init(c)` on the existing ring -/
inductive HOp where
  | op (o : Op)
  | init (c : Int)
deriving Repr, DecidableEq

/-- model: `Init(c)` panics for `c ≤ 0`, otherwise replaces the ring by a fresh one -/
def Ring.hrun (r : Ring) : List HOp → Option (Ring × List String)
  | [] => some (r, [])
  | .op o :: hs =>
    match r.step o with
    | none => none
    | some (r1, out) =>
      match Ring.hrun r1 hs with
      | none => none
      | some (r2, outs) => some (r2, out :: outs)
  | .init c :: hs =>
    match Ring.init? c with
    | none => none
    | some r1 =>
      match Ring.hrun r1 hs with
      | none => none
      | some (r2, outs) => some (r2, "ok" :: outs)

/-- spec: `Init(c)` = the empty bounded FIFO of capacity `c` -/
def BQ.hrun (s : BQ) : List HOp → BQ × List String
  | [] => (s, [])
  | .op o :: hs =>
    let (s1, out) := s.step o
    let (s2, outs) := BQ.hrun s1 hs
    (s2, out :: outs)
  | .init c :: hs =>
    let (s2, outs) := BQ.hrun ⟨[], c⟩ hs
    (s2, "ok" :: outs)

def HOp.initsPositive : List HOp → Prop
  | [] => True
  | .op _ :: hs => HOp.initsPositive hs
  | .init c :: hs => 0 < c ∧ HOp.initsPositive hs

theorem init_inv (c : Int) (h : 0 < c) :
    ∃ r, Ring.init? c = some r ∧ r.Inv ∧ r.abs = ⟨[], c⟩ := by
  have hc : ¬ c ≤ 0 := by omega
  refine ⟨⟨List.replicate c.toNat 0, -1, -1, c⟩, by simp only [Ring.init?, hc, if_false],
    ⟨h, ?_, Or.inl ⟨rfl, rfl⟩⟩, ?_⟩
  · simp; omega
  · simp [Ring.abs, Ring.content]

theorem hrun_refines (hs : List HOp) :
    ∀ (r : Ring), r.Inv → HOp.initsPositive hs →
      ∃ r', r.hrun hs = some (r', (r.abs.hrun hs).2) ∧ r'.Inv ∧ r'.abs = (r.abs.hrun hs).1 := by
  induction hs with
  | nil => intro r hi _; exact ⟨r, rfl, hi, rfl⟩
  | cons h hs ih =>
    intro r hi hp
    cases h with
    | op o =>
      obtain ⟨r1, h1, hi1, ha1⟩ := step_refines r hi o
      obtain ⟨r2, h2, hi2, ha2⟩ := ih r1 hi1 hp
      refine ⟨r2, ?_, hi2, ?_⟩
      · simp only [Ring.hrun, h1, h2, BQ.hrun, ha1]
      · simp only [BQ.hrun, ha2, ha1]
    | init c =>
      obtain ⟨hc, hp'⟩ := hp
      obtain ⟨r1, h1, hi1, ha1⟩ := init_inv c hc
      obtain ⟨r2, h2, hi2, ha2⟩ := ih r1 hi1 hp'
      refine ⟨r2, ?_, hi2, ?_⟩
      · simp only [Ring.hrun, h1, h2, BQ.hrun, ha1]
      · simp only [BQ.hrun, ha2, ha1]

/-- a non-positive `Init` panics, whatever came before did what the spec says -/
theorem hrun_init_nonpos (r : Ring) (c : Int) (hc : c ≤ 0) (hs : List HOp) :
    r.hrun (.init c :: hs) = none := by
  simp only [Ring.hrun, Ring.init?, hc, if_true]

/-! ### the zero value -/

/-- what the never-initialised ring answers; `none` = it panics -/
def zeroOut : Op → Option String
  | .len => some "1"
  | .cap => some "0"
  | .isEmpty => some "false"
  | .recap c => if c ≤ 0 then some "false" else none
  | _ => none

theorem zero_step (o : Op) :
    Ring.zero.step o = (zeroOut o).map fun s => (Ring.zero, s) := by
  cases o with
  | push v => rfl
  | pushx v => rfl
  | pop => rfl
  | peek => rfl
  | len => rfl
  | cap => rfl
  | isEmpty => rfl
  | isFull => rfl
  | recap c =>
    simp only [Ring.step, zeroOut]
    by_cases hc : c ≤ 0
    · have : c ≤ 0 ∨ c = Ring.zero.cap := Or.inl hc
      simp only [hc, if_true, Option.map_some]
      unfold Ring.recap
      rw [if_pos this]
      rfl
    · have h1 : ¬ (c ≤ 0 ∨ c = Ring.zero.cap) := by
        have : Ring.zero.cap = 0 := rfl
        omega
      have h2 : ¬ (c < Ring.zero.len) := by
        have : Ring.zero.len = 1 := by decide
        omega
      simp only [hc, if_false, Option.map_none]
      unfold Ring.recap
      rw [if_neg h1]
      simp only [h2, if_false]
      simp [Ring.zero, Ring.isEmpty, slice]

/-- Every history from the zero value: as long as only `Len`/`Cap`/`IsEmpty`/`Recap(c≤0)`
are called it stays the zero value and answers 1 / 0 / false / false; any other operation
panics; the first `Init(c)`, `c > 0`, makes it an ordinary ring and the rest of the history
is a bounded-FIFO history. -/
theorem zero_hrun (pre : List Op) (hpre : ∀ o ∈ pre, (zeroOut o).isSome) :
    (∀ (c : Int) (rest : List HOp), 0 < c → HOp.initsPositive rest →
      ∃ r', Ring.zero.hrun (pre.map HOp.op ++ .init c :: rest) =
        some (r', pre.map (fun o => (zeroOut o).getD "") ++ "ok" :: ((⟨[], c⟩ : BQ).hrun rest).2)) ∧
    (∀ (o : Op) (rest : List HOp), zeroOut o = none →
      Ring.zero.hrun (pre.map HOp.op ++ .op o :: rest) = none) := by
  induction pre with
  | nil =>
    constructor
    · intro c rest hc hp
      obtain ⟨r1, h1, hi1, ha1⟩ := init_inv c hc
      obtain ⟨r2, h2, _, _⟩ := hrun_refines rest r1 hi1 hp
      refine ⟨r2, ?_⟩
      simp only [List.map_nil, List.nil_append, Ring.hrun, h1, h2, ha1]
    · intro o rest ho
      simp only [List.map_nil, List.nil_append, Ring.hrun, zero_step, ho, Option.map_none]
  | cons p ps ih =>
    have hp : (zeroOut p).isSome := hpre p (List.mem_cons_self ..)
    obtain ⟨s, hs⟩ := Option.isSome_iff_exists.mp hp
    obtain ⟨ih1, ih2⟩ := ih (fun o ho => hpre o (List.mem_cons_of_mem _ ho))
    constructor
    · intro c rest hc hpos
      obtain ⟨r', hr⟩ := ih1 c rest hc hpos
      refine ⟨r', ?_⟩
      simp only [List.map_cons, List.cons_append, Ring.hrun, zero_step, hs, Option.map_some, hr,
        Option.getD_some]
    · intro o rest ho
      simp only [List.map_cons, List.cons_append, Ring.hrun, zero_step, hs, Option.map_some,
        ih2 o rest ho]

end Golib.C10
