/-
C17: the two-cursor swap loop of `Rev` computes `List.reverse`.
-/
import Golib.Proof.C17Strs

namespace Golib.C17
open Golib.Utf8

theorem idxI_nat (rs : List Int) (k : Nat) : idxI rs (k : Int) = rs[k]? := by
  simp [idxI]

theorem setI_nat (rs : List Int) (k : Nat) (v : Int) (h : k < rs.length) :
    setI rs (k : Int) v = some (rs.set k v) := by
  simp [setI, h]

theorem revLoop_reverse :
    ∀ (fuel : Nat) (a m b : List Int) (j : Int), m.length < fuel → j = (a.length : Int) + m.length - 1 →
      revLoop fuel (a ++ m ++ b) (a.length : Int) j = some (a ++ m.reverse ++ b) := by
  intro fuel
  induction fuel with
  | zero => intro a m b j h; omega
  | succ fuel ih =>
    intro a m b j hf hj
    rw [revLoop]
    cases m with
    | nil => rw [if_neg (by simp only [List.length_nil] at hj; omega)]; simp
    | cons x t =>
      rcases List.eq_nil_or_concat t with rfl | ⟨m', y, ht⟩
      · rw [if_neg (by simp only [List.length_cons, List.length_nil] at hj; omega)]; simp
      · rw [List.concat_eq_append] at ht
        subst ht
        have hlen : (x :: (m' ++ [y])).length = m'.length + 2 := by simp
        rw [hlen] at hj
        have hj' : j = ((a.length + m'.length + 1 : Nat) : Int) := by omega
        subst hj'
        rw [if_pos (by omega)]
        have gi : (a ++ x :: (m' ++ [y]) ++ b)[a.length]? = some x := by
          simp [List.append_assoc]
        have gj : (a ++ x :: (m' ++ [y]) ++ b)[a.length + m'.length + 1]? = some y := by
          rw [List.append_assoc, List.getElem?_append_right (by omega)]
          rw [show a.length + m'.length + 1 - a.length = m'.length + 1 by omega]
          simp [List.append_assoc]
        rw [idxI_nat, idxI_nat, gi, gj]
        simp only []
        rw [setI_nat _ _ _ (by simp <;> omega)]
        simp only []
        rw [setI_nat _ _ _ (by simp <;> omega)]
        simp only []
        have hset : ((a ++ x :: (m' ++ [y]) ++ b).set a.length y).set (a.length + m'.length + 1) x
            = (a ++ [y]) ++ m' ++ ([x] ++ b) := by
          apply List.ext_getElem?
          intro i
          simp only [List.getElem?_set, List.getElem?_append, List.length_append, List.length_cons,
            List.length_set, List.length_nil, List.getElem?_cons]
          grind
        rw [hset]
        have e1 : (a.length : Int) + 1 = ((a ++ [y]).length : Int) := by simp
        rw [e1, ih (a ++ [y]) m' ([x] ++ b) _ (by simp at hf; omega) (by simp; omega)]
        simp [List.append_assoc]

theorem rev_encode (rs : List Int) (hv : ∀ r ∈ rs, validRune r = true) :
    rev (encode rs) = some (encode rs.reverse) := by
  unfold rev
  simp only [runes_encode rs hv]
  have := revLoop_reverse (rs.length + 1) [] rs [] ((rs.length : Int) - 1) (by omega) (by simp)
  simp only [List.nil_append, List.append_nil, List.length_nil, Int.natCast_zero] at this
  rw [this]; rfl

end Golib.C17
