/-
The in-place `append(R, v)` of `BronKerbosch` is harmless: the heap-level recursion `bkH`
emits exactly the cliques of the value-level recursion `bk`, for every initial heap, every
capacity of R's array and every reallocation policy; and a call changes nothing of the heap
that existed before it except cells at index `≥ len(R)` of R's own array (`Frame`).
-/
import Golib.Model.C18GraphR

namespace Golib.C18

variable {V : Type}

theorem take_set_succ (a : List V) (n : Nat) (v : V) (h : n < a.length) :
    (a.set n v).take (n + 1) = a.take n ++ [v] := by
  rw [List.take_add_one]
  have h1 : (a.set n v)[n]? = some v := by simp [h]
  rw [h1]
  congr 1
  apply List.ext_getElem?; intro j
  simp only [List.getElem?_take, List.getElem?_set]
  split
  · next hj =>
    have : ¬ n = j := by omega
    simp [this]
  · rfl

/-- What a call with slice `r` may change of the heap `h`: nothing but the cells `≥ r.len` of
array `r.id`; arrays keep their capacity. -/
def Frame (h h' : RHeap V) (r : RSlice) : Prop :=
  ∀ id, id < h.length → ∃ a a', h[id]? = some a ∧ h'[id]? = some a' ∧ a'.length = a.length ∧
    (if id = r.id then a'.take r.len = a.take r.len else a' = a)

theorem Frame.refl (h : RHeap V) (r : RSlice) : Frame h h r := by
  intro id hid
  refine ⟨h[id], h[id], List.getElem?_eq_getElem hid, List.getElem?_eq_getElem hid, rfl, ?_⟩
  split <;> rfl

theorem Frame.trans {h h1 h2 : RHeap V} {r : RSlice} (f1 : Frame h h1 r) (f2 : Frame h1 h2 r)
    (hl : h.length ≤ h1.length) : Frame h h2 r := by
  intro id hid
  obtain ⟨a, a1, ha, ha1, hlen1, hc1⟩ := f1 id hid
  obtain ⟨b1, a2, hb1, ha2, hlen2, hc2⟩ := f2 id (by omega)
  rw [ha1] at hb1; cases hb1
  refine ⟨a, a2, ha, ha2, by omega, ?_⟩
  split
  · next he => rw [if_pos he] at hc1 hc2; rw [hc2, hc1]
  · next he => rw [if_neg he] at hc1 hc2; rw [hc2, hc1]

/-- A frame for the longer slice of the same array is a frame for the shorter one. -/
theorem Frame.shorter {h h' : RHeap V} {id len : Nat} (f : Frame h h' ⟨id, len + 1⟩) :
    Frame h h' ⟨id, len⟩ := by
  intro i hi
  obtain ⟨a, a', ha, ha', hl, hc⟩ := f i hi
  refine ⟨a, a', ha, ha', hl, ?_⟩
  simp only [] at hc ⊢
  split
  · next he =>
    rw [if_pos he] at hc
    have := congrArg (List.take len) hc
    simpa [List.take_take] using this
  · next he => rw [if_neg he] at hc; exact hc

/-- A frame for a slice of an array allocated later leaves every earlier array untouched. -/
theorem Frame.of_new {h h' : RHeap V} {new : List V} {r r1 : RSlice}
    (f : Frame (h ++ [new]) h' r1) (hid : r1.id = h.length) : Frame h h' r := by
  intro i hi
  obtain ⟨a, a', ha, ha', hl, hc⟩ := f i (by simp; omega)
  rw [List.getElem?_append_left hi] at ha
  have hne : ¬ i = r1.id := by omega
  rw [if_neg hne] at hc
  refine ⟨a, a', ha, ha', hl, ?_⟩
  subst hc
  split <;> rfl

theorem readR_frame {h h' : RHeap V} {r : RSlice} {R : List V} (f : Frame h h' r)
    (hr : readR h r = some R) : readR h' r = some R := by
  unfold readR at hr ⊢
  cases ha : h[r.id]? with
  | none => rw [ha] at hr; cases hr
  | some a =>
    rw [ha] at hr
    have hid : r.id < h.length := by
      rcases Nat.lt_or_ge r.id h.length with hlt | hge
      · exact hlt
      · rw [List.getElem?_eq_none hge] at ha; cases ha
    obtain ⟨b, a', hb, ha', hl, hc⟩ := f r.id hid
    rw [ha] at hb; cases hb
    rw [if_pos rfl] at hc
    rw [ha']
    simp only [] at hr ⊢
    split at hr
    · next hle =>
      rw [if_pos (by omega)]
      cases hr; rw [hc]
    · cases hr

/-- `append(R, v)` on a valid slice: succeeds, the new slice reads `R ++ [v]`, the old heap is
changed at most in cell `len(R)` of R's array, and a child frame lifts to a frame for `R`. -/
theorem appendR_spec (grow : Nat → Nat) (h : RHeap V) (r : RSlice) (v : V) (R : List V)
    (hr : readR h r = some R) :
    ∃ h1 r1, appendR grow h r v = some (h1, r1) ∧ readR h1 r1 = some (R ++ [v]) ∧
      Frame h h1 r ∧ h.length ≤ h1.length ∧
      (∀ h2, Frame h1 h2 r1 → h1.length ≤ h2.length → Frame h h2 r) := by
  unfold readR at hr
  cases ha : h[r.id]? with
  | none => rw [ha] at hr; cases hr
  | some a =>
    rw [ha] at hr
    have hid : r.id < h.length := by
      rcases Nat.lt_or_ge r.id h.length with hlt | hge
      · exact hlt
      · rw [List.getElem?_eq_none hge] at ha; cases ha
    simp only [] at hr
    split at hr
    case isFalse => cases hr
    case isTrue hle =>
    cases hr
    unfold appendR
    rw [ha]
    simp only []
    by_cases hlt : r.len < a.length
    · -- in place
      rw [if_pos hlt]
      have hframe : Frame h (h.set r.id (a.set r.len v)) r := by
        intro i hi
        by_cases he : i = r.id
        · subst he
          refine ⟨a, a.set r.len v, ha, by simp [List.getElem?_set, hi], by simp, ?_⟩
          rw [if_pos rfl]
          apply List.ext_getElem?; intro j
          simp only [List.getElem?_take, List.getElem?_set]
          split
          · next hj =>
            have : ¬ r.len = j := by omega
            simp [this]
          · rfl
        · refine ⟨h[i], h[i], List.getElem?_eq_getElem hi, ?_, rfl, ?_⟩
          · rw [List.getElem?_set]
            have : ¬ r.id = i := fun e => he e.symm
            simp [this, List.getElem?_eq_getElem hi]
          · rw [if_neg he]
      refine ⟨_, _, rfl, ?_, hframe, by simp, ?_⟩
      · unfold readR
        have hg : (h.set r.id (a.set r.len v))[r.id]? = some (a.set r.len v) := by
          simp [hid]
        simp only [hg, List.length_set]
        rw [if_pos (by omega), take_set_succ a r.len v hlt]
      · intro h2 f2 hl2
        exact Frame.trans hframe (Frame.shorter f2) (by simp)
    · -- reallocation
      have heq : r.len = a.length := by omega
      rw [if_neg hlt, if_pos heq]
      have hframe : Frame h (h ++ [a ++ v :: List.replicate (grow a.length) v]) r := by
        intro i hi
        refine ⟨h[i], h[i], List.getElem?_eq_getElem hi, ?_, rfl, ?_⟩
        · rw [List.getElem?_append_left hi]; exact List.getElem?_eq_getElem hi
        · split <;> rfl
      refine ⟨_, _, rfl, ?_, hframe, by simp, ?_⟩
      · unfold readR
        simp only [List.getElem?_append_right (Nat.le_refl _), Nat.sub_self, List.getElem?_cons_zero,
          List.length_append, List.length_cons, List.length_replicate]
        rw [if_pos (by omega)]
        congr 1
        rw [heq, List.take_of_length_le (Nat.le_refl _)]
        rw [show a.length + 1 = (a ++ [v]).length by simp]
        rw [show a ++ v :: List.replicate (grow a.length) v = (a ++ [v]) ++ List.replicate (grow a.length) v by simp]
        rw [List.take_left']
        rfl
      · intro h2 f2 _
        exact Frame.of_new f2 rfl

section
variable (nb : V → V → Bool) (grow : Nat → Nat)

/-- Refinement statement for one (recursive) procedure. -/
def RefinesR (recV : List V → List V → List V → Option (List (List V)))
    (recH : RHeap V → RSlice → List V → List V → Option (RHeap V × List (List V))) : Prop :=
  ∀ (h : RHeap V) (r : RSlice) (R P X : List V), readR h r = some R →
    match recV R P X with
    | none => recH h r P X = none
    | some out => ∃ h', recH h r P X = some (h', out) ∧ Frame h h' r ∧ h.length ≤ h'.length

theorem bkLoopH_refines (recV : List V → List V → List V → Option (List (List V)))
    (recH : RHeap V → RSlice → List V → List V → Option (RHeap V × List (List V)))
    (hrec : RefinesR recV recH) (r : RSlice) (R : List V) :
    ∀ (P X : List V) (h : RHeap V), readR h r = some R →
      match bkLoop nb recV R P X with
      | none => bkLoopH nb grow recH r P X h = none
      | some out => ∃ h', bkLoopH nb grow recH r P X h = some (h', out) ∧ Frame h h' r ∧
          h.length ≤ h'.length := by
  intro P
  induction P with
  | nil =>
    intro X h _
    simp only [bkLoop, bkLoopH]
    exact ⟨h, rfl, Frame.refl h r, Nat.le_refl _⟩
  | cons v P' ih =>
    intro X h hr
    obtain ⟨h1, r1, happ, hr1, _, hl1, lift⟩ := appendR_spec grow h r v R hr
    have hchild := hrec h1 r1 (R ++ [v]) (isect nb (v :: P') v) (isect nb X v) hr1
    simp only [bkLoop, bkLoopH, happ]
    cases hv : recV (R ++ [v]) (isect nb (v :: P') v) (isect nb X v) with
    | none =>
      rw [hv] at hchild
      simp only [] at hchild ⊢
      rw [hchild]
    | some a =>
      rw [hv] at hchild
      obtain ⟨h2, hc, f2, hl2⟩ := hchild
      simp only [] at hc ⊢
      rw [hc]
      simp only []
      have fr2 : Frame h h2 r := lift h2 f2 hl2
      have hr2 : readR h2 r = some R := readR_frame fr2 hr
      have hrest := ih (X ++ [v]) h2 hr2
      cases hb : bkLoop nb recV R P' (X ++ [v]) with
      | none =>
        rw [hb] at hrest
        simp only [] at hrest ⊢
        rw [hrest]
      | some b =>
        rw [hb] at hrest
        obtain ⟨h3, hc3, f3, hl3⟩ := hrest
        simp only [] at hc3 ⊢
        rw [hc3]
        exact ⟨h3, rfl, Frame.trans fr2 f3 (by omega), by omega⟩

theorem bkH_refines : ∀ fuel, RefinesR (bk nb fuel) (bkH nb grow fuel) := by
  intro fuel
  induction fuel with
  | zero => intro h r R P X _; simp [bk, bkH]
  | succ fuel ih =>
    intro h r R P X hr
    simp only [bk, bkH]
    by_cases he : (P.isEmpty && X.isEmpty) = true
    · rw [if_pos he, if_pos he]
      simp only [hr, Option.map_some]
      exact ⟨h, rfl, Frame.refl h r, Nat.le_refl _⟩
    · rw [if_neg he, if_neg he]
      exact bkLoopH_refines nb grow (bk nb fuel) (bkH nb grow fuel) ih r R P X h hr

end
end Golib.C18
