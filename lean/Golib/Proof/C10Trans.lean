/-
C10 — tie between the definition `go2lean` regenerates from `ringz/sync.go` on every run
(`Golib/Gen/TransC10.lean`) and the hand-written model (`Golib/Model/C10Sync.lean`).
The scripts only use the loop invariant "the translated loop computes `bitLenLoop`" and
`simp`/`omega`, so that harmless rewrites of the Go function keep them passing.
-/
import Golib.Gen.TransC10
import Golib.Model.C10Sync

set_option linter.unusedSimpArgs false

namespace Golib.C10
open Golib.GoSem Golib.Gen.Trans.C10

/-- The translated loop `for i := x; i != 0; pos++ { i >>= 1 }` computes `bitLenLoop`, given
fuel beyond the value of `i`. -/
theorem trans_loop_eq (fuel : Nat) (i : BitVec 32) (pos : Nat) (h : i.toNat < fuel) :
    roundupPowOfTwo_loop1 fuel (pos : Int) i = .ok (((bitLenLoop i.toNat pos : Nat) : Int), 0#32) := by
  induction fuel generalizing i pos with
  | zero => omega
  | succ n ih =>
    unfold roundupPowOfTwo_loop1
    by_cases hi : i = 0#32
    · subst hi
      unfold bitLenLoop
      simp
    · have hne : i.toNat ≠ 0 := fun h0 => hi (BitVec.eq_of_toNat_eq (by simpa using h0))
      have hlt : (i >>> 1).toNat < n := by
        simp only [BitVec.toNat_ushiftRight, Nat.shiftRight_eq_div_pow, Nat.pow_one]; omega
      have := ih (i >>> 1) (pos + 1) hlt
      rw [bitLenLoop]
      simp only [hne, dite_false]
      simpa [hi, BitVec.toNat_ushiftRight] using this

/-- The regenerated `roundupPowOfTwo` IS the hand-written model, on every `uint32`: it never
panics (the shift count `pos` is non-negative) and never runs out of fuel. -/
theorem trans_roundupPowOfTwo_eq (x : BitVec 32) :
    Golib.Gen.Trans.C10.roundupPowOfTwo x = .ok (BitVec.ofNat 32 (Golib.C10.roundupPowOfTwo x.toNat)) := by
  unfold Golib.Gen.Trans.C10.roundupPowOfTwo
  have h := trans_loop_eq (x.toNat + 1) x 0 (by omega)
  simp only [Int.ofNat_eq_natCast, Int.natCast_zero] at h
  simp only [bind, pure, h, Res.bind_ok', shiftCount_ofNat]
  congr 1
  apply BitVec.eq_of_toNat_eq
  simp [Golib.C10.roundupPowOfTwo, two32, BitVec.toNat_shiftLeft, Nat.shiftLeft_eq]

end Golib.C10
