/-
C02 helper lemmas, part 9: operations as data, the simulation between the model and
the sorted-map specification.
-/
import Golib.Proof.C02Read

set_option linter.unusedSectionVars false
set_option linter.unusedSimpArgs false

namespace Golib.C02

variable {K V : Type} [DecidableEq K]

/-- The exported methods (`r` = the word the random source returns during the call;
`stop` = the callback answers false on its `stop`-th call, 0 = never). -/
inductive Op (K V : Type) where
  | set (k : K) (v : V) (r : Nat)
  | setNx (k : K) (v : V) (r : Nat)
  | setX (k : K) (v : V) (r : Nat)
  | remove (k : K)
  | clear
  | get (k : K)
  | getNode (k : K)
  | setNodeValue (k : K) (v : V)       -- `GetNode(k)`, then `SetValue(v)` on the node if found
  | len
  | head
  | keys
  | values
  | range (stop : Nat)
  | all (stop : Nat)
  | rangeWithStart (start : K) (stop : Nat)
  | rangeWithRange (start end_ : K) (stop : Nat)

/-- Observable results. -/
inductive Out (K V : Type) where
  | unit
  | bool (b : Bool)
  | valBool (v : V) (b : Bool)
  | node (n : Option K)
  | int (n : Int)
  | keys (ks : List K)
  | vals (vs : List V)
  | kvs (xs : List (K × V))

/-- One method call on the model (`none` = panic). -/
def SL.step (cfg : Cfg K V) (s : SL K V) : Op K V → Option (SL K V × Out K V)
  | .set k v r => (s.set cfg k v 0 r).map fun (s', _) => (s', .unit)
  | .setX k v r => (s.set cfg k v 1 r).map fun (s', b) => (s', .bool b)
  | .setNx k v r => (s.set cfg k v 2 r).map fun (s', b) => (s', .bool b)
  | .remove k => (s.remove cfg k).map fun (s', v, b) => (s', .valBool v b)
  | .clear => some (s.clear cfg, .unit)
  | .get k => (s.get cfg k).map fun (v, b) => (s, .valBool v b)
  | .getNode k => (s.getNode cfg k).map fun n => (s, .node n)
  | .setNodeValue k v => (s.getNode cfg k).map fun n =>
      match n with
      | none => (s, .node none)
      | some n => (s.setNodeValue n v, .node (some n))
  | .len => some (s, .int s.len)
  | .head => s.head.map fun n => (s, .node n)
  | .keys => (s.keys cfg).map fun ks => (s, .keys ks)
  | .values => (s.values cfg).map fun vs => (s, .vals vs)
  | .range stop => (s.range cfg stop).map fun xs => (s, .kvs xs)
  | .all stop => (s.range cfg stop).map fun xs => (s, .kvs xs)
  | .rangeWithStart st stop => (s.rangeFrom cfg st none stop).map fun xs => (s, .kvs xs)
  | .rangeWithRange st e stop => (s.rangeFrom cfg st (some e) stop).map fun xs => (s, .kvs xs)

/-- The same call on the specification: a key-ascending association list. -/
def OMap.step (cfg : Cfg K V) (m : List (K × V)) : Op K V → List (K × V) × Out K V
  | .set k v _ => (OMap.set cfg.cmp m k v, .unit)
  | .setX k v _ => if (OMap.get m k).isSome then (OMap.set cfg.cmp m k v, .bool true) else (m, .bool false)
  | .setNx k v _ => if (OMap.get m k).isSome then (m, .bool false) else (OMap.set cfg.cmp m k v, .bool true)
  | .remove k => match OMap.get m k with
      | some v => (OMap.erase cfg.cmp m k, .valBool v true)
      | none => (m, .valBool cfg.zeroV false)
  | .clear => ([], .unit)
  | .get k => match OMap.get m k with
      | some v => (m, .valBool v true)
      | none => (m, .valBool cfg.zeroV false)
  | .getNode k => (m, .node (if (OMap.get m k).isSome then some k else none))
  | .setNodeValue k v =>
      if (OMap.get m k).isSome then (OMap.set cfg.cmp m k v, .node (some k)) else (m, .node none)
  | .len => (m, .int m.length)
  | .head => (m, .node (m.head?.map Prod.fst))
  | .keys => (m, .keys (m.map Prod.fst))
  | .values => (m, .vals (m.map Prod.snd))
  | .range stop => (m, .kvs (stopAfter stop m))
  | .all stop => (m, .kvs (stopAfter stop m))
  | .rangeWithStart st stop => (m, .kvs (stopAfter stop (OMap.from cfg.cmp m st)))
  | .rangeWithRange st e stop => (m, .kvs (stopAfter stop (OMap.between cfg.cmp m st e)))

/-- The same call on the specification for a weak-order comparator: a key addresses the binding
whose stored key is equivalent to it; `GetNode`/`node.SetValue` answer and act on the STORED
key; a replacing `Set` keeps the stored key. -/
def OMap.stepW (cfg : Cfg K V) (m : List (K × V)) : Op K V → List (K × V) × Out K V
  | .set k v _ => (OMap.setW cfg.cmp m k v, .unit)
  | .setX k v _ =>
      if (OMap.getW cfg.cmp m k).isSome then (OMap.setW cfg.cmp m k v, .bool true) else (m, .bool false)
  | .setNx k v _ =>
      if (OMap.getW cfg.cmp m k).isSome then (m, .bool false) else (OMap.setW cfg.cmp m k v, .bool true)
  | .remove k => match OMap.getW cfg.cmp m k with
      | some v => (OMap.erase cfg.cmp m k, .valBool v true)
      | none => (m, .valBool cfg.zeroV false)
  | .clear => ([], .unit)
  | .get k => match OMap.getW cfg.cmp m k with
      | some v => (m, .valBool v true)
      | none => (m, .valBool cfg.zeroV false)
  | .getNode k => (m, .node (OMap.keyW cfg.cmp m k))
  | .setNodeValue k v => match OMap.keyW cfg.cmp m k with
      | some n => (OMap.setW cfg.cmp m k v, .node (some n))
      | none => (m, .node none)
  | .len => (m, .int m.length)
  | .head => (m, .node (m.head?.map Prod.fst))
  | .keys => (m, .keys (m.map Prod.fst))
  | .values => (m, .vals (m.map Prod.snd))
  | .range stop => (m, .kvs (stopAfter stop m))
  | .all stop => (m, .kvs (stopAfter stop m))
  | .rangeWithStart st stop => (m, .kvs (stopAfter stop (OMap.from cfg.cmp m st)))
  | .rangeWithRange st e stop => (m, .kvs (stopAfter stop (OMap.between cfg.cmp m st e)))

/-- Reachable states: an initialised list satisfying the invariant, or (for `SkipList`) the
untouched zero value. -/
def Good (cfg : Cfg K V) (s : SL K V) : Prop := Inv cfg.cmp s ∨ (cfg.lazy = true ∧ s = SL.zero)

theorem randomLevel_range (r : Nat) : 1 ≤ randomLevel r ∧ randomLevel r ≤ maxLevel := by
  unfold randomLevel
  have : (maxLevel - len64 (r &&& (2 ^ maxLevel - 1))) &&& (maxLevel - 1) ≤ maxLevel - 1 := Nat.and_le_right
  simp only [maxLevel] at this ⊢
  omega

theorem Inv.isSome_get {cmp : K → K → Int} {s : SL K V} (h : Inv cmp s) (k : K) :
    (OMap.get (toMap s) k).isSome = decide (k ∈ chain0 s) := by
  rw [toMap_eq, omap_get_filterMap]
  by_cases hk : k ∈ chain0 s
  · obtain ⟨v, hv⟩ := h.valOf_some hk
    simp [hk, hv]
  · simp [hk]

theorem Inv.isSome_getW {cmp : K → K → Int} {s : SL K V} (h : Inv cmp s) (k : K) :
    (OMap.getW cmp (toMap s) k).isSome = (findEq cmp k (chain0 s)).isSome := by
  rw [h.getW_toMap]
  cases hf : findEq cmp k (chain0 s) with
  | none => rfl
  | some n =>
    obtain ⟨v, hv⟩ := h.valOf_some (findEq_some hf).1
    simp [hv]

theorem toMap_zero : toMap (SL.zero : SL K V) = [] := rfl
theorem toMap_init : toMap (SL.init : SL K V) = [] := by simp [toMap, chain0, SL.init, maxLevel]

/-- `set` on an initialised list. -/
theorem set_sim_weak (cfg : Cfg K V) (hc : WeakCmp cfg.cmp) {s : SL K V} (h : Inv cfg.cmp s)
    (k : K) (v : V) (mode r : Nat) (hmode : mode ≤ 2) :
    ∃ s' b, s.set cfg k v mode r = some (s', b) ∧ Inv cfg.cmp s' ∧ s'.level ≤ s.level + 1 ∧
      (toMap s', b) =
        (if mode = 0 then (OMap.setW cfg.cmp (toMap s) k v, true)
         else if mode = 1 then
           (if (OMap.getW cfg.cmp (toMap s) k).isSome then (OMap.setW cfg.cmp (toMap s) k v, true)
            else (toMap s, false))
         else
           (if (OMap.getW cfg.cmp (toMap s) k).isSome then (toMap s, false)
            else (OMap.setW cfg.cmp (toMap s) k v, true))) := by
  obtain ⟨hr1, hr2⟩ := randomLevel_range r
  unfold SL.set
  rw [h.isSome_getW]
  cases hf : findEq cfg.cmp k (chain0 s) with
  | some n =>
    obtain ⟨hk, hnk⟩ := findEq_some hf
    rw [setH_found cfg hc h hf]
    obtain ⟨hi, _, hm⟩ := Inv.of_setVal hc h hk v
    have hset : OMap.setW cfg.cmp (toMap s) k v = OMap.set cfg.cmp (toMap s) n v :=
      omap_setW_of_some hc (by rw [h.keyW_toMap, hf]) v
    rw [hset]
    by_cases h2 : mode = 2
    · subst h2; exact ⟨s, false, by simp, h, by omega, by simp⟩
    · refine ⟨_, true, by simp [h2], hi, by simp, ?_⟩
      rw [hm]
      by_cases h0 : mode = 0
      · simp [h0]
      · have : mode = 1 := by omega
        simp [this]
  | none =>
    have hkw := findEq_none.mp hf
    rw [setH_absent cfg hc h hf v mode _ hr2]
    obtain ⟨hi, _, hm⟩ := Inv.of_inserted hc h hkw v hr1 hr2
    have hset : OMap.setW cfg.cmp (toMap s) k v = OMap.set cfg.cmp (toMap s) k v :=
      omap_setW_of_none (by rw [h.keyW_toMap, hf]) v
    rw [hset]
    by_cases h1 : mode = 1
    · subst h1; exact ⟨s, false, by simp, h, by omega, by simp⟩
    · refine ⟨_, true, by simp [h1], hi, ?_, ?_⟩
      · simp only [inserted]; split <;> omega
      · rw [hm]
        by_cases h0 : mode = 0
        · simp [h0]
        · have : mode = 2 := by omega
          simp [this]

theorem zero_set (cfg : Cfg K V) (hl : cfg.lazy = true) (k : K) (v : V) (mode r : Nat) :
    (SL.zero : SL K V).set cfg k v mode r = (SL.init : SL K V).set cfg k v mode r := by
  simp [SL.set, SL.setH, SL.zero, hl, SL.init, maxLevel]

/-- One step of the simulation (weak-order comparator): no panic, reachable states stay
reachable, the abstraction commutes with the step, outputs agree, the level grows by at most one. -/
theorem step_sim_weak (cfg : Cfg K V) (hc : WeakCmp cfg.cmp) (hf : cfg.fixed = true) {s : SL K V}
    (hg : Good cfg s) (op : Op K V) :
    ∃ s' out, s.step cfg op = some (s', out) ∧ Good cfg s' ∧
      OMap.stepW cfg (toMap s) op = (toMap s', out) ∧ s'.level ≤ max s.level 1 + 1 := by
  rcases hg with h | ⟨hl, rfl⟩
  · -- initialised
    cases op with
    | set k v r =>
      obtain ⟨s', b, h1, h2, h3, h4⟩ := set_sim_weak cfg hc h k v 0 r (by omega)
      simp only [if_true, Prod.mk.injEq] at h4
      exact ⟨s', .unit, by simp [SL.step, h1], Or.inl h2, by simp [OMap.stepW, h4.1], by omega⟩
    | setX k v r =>
      obtain ⟨s', b, h1, h2, h3, h4⟩ := set_sim_weak cfg hc h k v 1 r (by omega)
      refine ⟨s', .bool b, by simp [SL.step, h1], Or.inl h2, ?_, by omega⟩
      simp only [OMap.stepW]
      simp only [show (1 : Nat) ≠ 0 by decide, if_false, if_true] at h4
      by_cases hs : (OMap.getW cfg.cmp (toMap s) k).isSome = true
      · simp only [hs, if_true] at h4 ⊢
        obtain ⟨e1, e2⟩ := Prod.mk.inj h4; rw [e1, e2]
      · simp only [hs, if_false] at h4 ⊢
        obtain ⟨e1, e2⟩ := Prod.mk.inj h4; rw [e1, e2]; simp
    | setNx k v r =>
      obtain ⟨s', b, h1, h2, h3, h4⟩ := set_sim_weak cfg hc h k v 2 r (by omega)
      refine ⟨s', .bool b, by simp [SL.step, h1], Or.inl h2, ?_, by omega⟩
      simp only [OMap.stepW]
      simp only [show (2 : Nat) ≠ 0 by decide, show (2 : Nat) ≠ 1 by decide, if_false] at h4
      by_cases hs : (OMap.getW cfg.cmp (toMap s) k).isSome = true
      · simp only [hs, if_true] at h4 ⊢
        obtain ⟨e1, e2⟩ := Prod.mk.inj h4; rw [e1, e2]
      · simp only [hs, if_false] at h4 ⊢
        obtain ⟨e1, e2⟩ := Prod.mk.inj h4; rw [e1, e2]; simp
    | remove k =>
      cases hfk : findEq cfg.cmp k (chain0 s) with
      | some n =>
        obtain ⟨hk, hnk⟩ := findEq_some hfk
        obtain ⟨val, lvl, h1, h2, h3⟩ := remove_found cfg hc h hfk
        obtain ⟨hi, _, hm⟩ := Inv.of_removed hc h hk h2
        have hget : OMap.getW cfg.cmp (toMap s) k = some val := by
          rw [h.getW_toMap, hfk]; exact h1
        rw [← omap_erase_congr hc hnk] at hm
        refine ⟨_, .valBool val true, by simp [SL.step, h3], Or.inl hi, by simp [OMap.stepW, hget, hm], ?_⟩
        have := hi.lvl; have := h.lvl
        -- the level never grows on removal
        unfold levelAfter at h2
        simp only [removed]
        split at h2
        · obtain ⟨m', hm', _, hle, _⟩ := shrink_spec (delTop cfg.cmp n (heightOf s n) s.lv) s.level
            (by rw [length_delTop, h.len32]; exact h.lvl.2) h.lvl.1
          rw [hm'] at h2; cases h2; omega
        · cases h2; omega
      | none =>
        have hget : OMap.getW cfg.cmp (toMap s) k = none := by
          rw [h.getW_toMap, hfk]; rfl
        exact ⟨s, .valBool cfg.zeroV false, by simp [SL.step, remove_absent cfg hc h hfk], Or.inl h,
          by simp [OMap.stepW, hget], by omega⟩
    | clear =>
      obtain ⟨rest, hr⟩ := h.lv_cons
      have : s.clear cfg = { s with lv := List.replicate maxLevel [], vals := [], level := 1, len := 0 } := by
        simp [SL.clear, hr]
      refine ⟨s.clear cfg, .unit, by simp [SL.step], Or.inl ?_, ?_, ?_⟩
      · rw [this]
        have hi := Inv.init (K := K) (V := V) cfg.cmp
        exact ⟨hi.len32, hi.tower, hi.lvl, hi.above, hi.top, hi.len, hi.vals, hi.valsNodup, h.rand⟩
      · rw [this]; simp [OMap.stepW, toMap, chain0, maxLevel]
      · rw [this]; have := h.lvl; simp only []; omega
    | get k =>
      cases hg : OMap.getW cfg.cmp (toMap s) k with
      | none =>
        exact ⟨s, .valBool cfg.zeroV false, by simp [SL.step, get_spec cfg hc h, hg], Or.inl h,
          by simp [OMap.stepW, hg], by omega⟩
      | some v0 =>
        exact ⟨s, .valBool v0 true, by simp [SL.step, get_spec cfg hc h, hg], Or.inl h,
          by simp [OMap.stepW, hg], by omega⟩
    | getNode k =>
      exact ⟨s, .node (findEq cfg.cmp k (chain0 s)), by simp [SL.step, getNode_spec cfg hc h], Or.inl h,
        by simp [OMap.stepW, h.keyW_toMap], by omega⟩
    | setNodeValue k v =>
      cases hfk : findEq cfg.cmp k (chain0 s) with
      | some n =>
        obtain ⟨hk, hnk⟩ := findEq_some hfk
        obtain ⟨hi, _, hm⟩ := Inv.of_setVal hc h hk v
        have hkw : OMap.keyW cfg.cmp (toMap s) k = some n := by rw [h.keyW_toMap, hfk]
        exact ⟨_, .node (some n), by simp [SL.step, getNode_spec cfg hc h, hfk, SL.setNodeValue], Or.inl hi,
          by simp [OMap.stepW, hkw, omap_setW_of_some hc hkw, hm], by simp only []; omega⟩
      | none =>
        have hkw : OMap.keyW cfg.cmp (toMap s) k = none := by rw [h.keyW_toMap, hfk]
        exact ⟨s, .node none, by simp [SL.step, getNode_spec cfg hc h, hfk], Or.inl h,
          by simp [OMap.stepW, hkw], by omega⟩
    | len => exact ⟨s, .int s.len, by simp [SL.step], Or.inl h, by simp [OMap.stepW, h.len_eq], by omega⟩
    | head =>
      exact ⟨s, .node ((toMap s).head?.map Prod.fst), by simp [SL.step, head_spec h], Or.inl h,
        by simp [OMap.stepW], by omega⟩
    | keys =>
      exact ⟨s, .keys ((toMap s).map Prod.fst), by simp [SL.step, keys_spec cfg h], Or.inl h,
        by simp [OMap.stepW], by omega⟩
    | values =>
      exact ⟨s, .vals ((toMap s).map Prod.snd), by simp [SL.step, values_spec cfg h], Or.inl h,
        by simp [OMap.stepW], by omega⟩
    | range stop =>
      exact ⟨s, .kvs (stopAfter stop (toMap s)), by simp [SL.step, range_spec cfg h], Or.inl h,
        by simp [OMap.stepW], by omega⟩
    | all stop =>
      exact ⟨s, .kvs (stopAfter stop (toMap s)), by simp [SL.step, range_spec cfg h], Or.inl h,
        by simp [OMap.stepW], by omega⟩
    | rangeWithStart st stop =>
      exact ⟨s, .kvs (stopAfter stop (OMap.from cfg.cmp (toMap s) st)),
        by simp [SL.step, rangeFrom_spec cfg hc h, bounded], Or.inl h, by simp [OMap.stepW], by omega⟩
    | rangeWithRange st e stop =>
      exact ⟨s, .kvs (stopAfter stop (OMap.between cfg.cmp (toMap s) st e)),
        by simp [SL.step, rangeFrom_spec cfg hc h, bounded_from_eq_between hc h], Or.inl h,
        by simp [OMap.stepW], by omega⟩
  · -- the zero value of `SkipList`
    have hinit : Inv cfg.cmp (SL.init : SL K V) := Inv.init cfg.cmp
    have hz : Good cfg (SL.zero : SL K V) := Or.inr ⟨hl, rfl⟩
    cases op with
    | set k v r =>
      obtain ⟨s', b, h1, h2, h3, h4⟩ := set_sim_weak cfg hc hinit k v 0 r (by omega)
      simp only [if_true, Prod.mk.injEq] at h4
      refine ⟨s', .unit, by simp [SL.step, zero_set cfg hl, h1], Or.inl h2, ?_, ?_⟩
      · rw [toMap_init] at h4; simp [OMap.stepW, toMap_zero, h4.1]
      · have := h2.lvl; simp [SL.init] at h3; simp [SL.zero]; omega
    | setX k v r =>
      obtain ⟨s', b, h1, h2, h3, h4⟩ := set_sim_weak cfg hc hinit k v 1 r (by omega)
      rw [toMap_init] at h4
      simp [OMap.getW] at h4
      refine ⟨s', .bool b, by simp [SL.step, zero_set cfg hl, h1], ?_, ?_, ?_⟩
      · exact Or.inl h2
      · simp [OMap.stepW, toMap_zero, OMap.getW, h4.1, h4.2]
      · have := h2.lvl; simp [SL.init] at h3; simp [SL.zero]; omega
    | setNx k v r =>
      obtain ⟨s', b, h1, h2, h3, h4⟩ := set_sim_weak cfg hc hinit k v 2 r (by omega)
      rw [toMap_init] at h4
      simp [OMap.getW] at h4
      refine ⟨s', .bool b, by simp [SL.step, zero_set cfg hl, h1], Or.inl h2, ?_, ?_⟩
      · simp [OMap.stepW, toMap_zero, OMap.getW, h4.1, h4.2]
      · have := h2.lvl; simp [SL.init] at h3; simp [SL.zero]; omega
    | remove k =>
      exact ⟨SL.zero, .valBool cfg.zeroV false,
        by simp [SL.step, SL.remove, SL.levelsDown, SL.zero, removeLoop], hz,
        by simp [OMap.stepW, toMap_zero, OMap.getW], by omega⟩
    | clear =>
      exact ⟨SL.zero, .unit, by simp [SL.step, SL.clear, hf, hl, SL.zero], hz,
        by simp [OMap.stepW, toMap_zero], by omega⟩
    | get k =>
      exact ⟨SL.zero, .valBool cfg.zeroV false,
        by simp [SL.step, SL.get, SL.getNode, SL.levelsDown, SL.zero, findLoop], hz,
        by simp [OMap.stepW, toMap_zero, OMap.getW], by omega⟩
    | getNode k =>
      exact ⟨SL.zero, .node none, by simp [SL.step, SL.getNode, SL.levelsDown, SL.zero, findLoop], hz,
        by simp [OMap.stepW, toMap_zero, OMap.keyW], by omega⟩
    | setNodeValue k v =>
      exact ⟨SL.zero, .node none, by simp [SL.step, SL.getNode, SL.levelsDown, SL.zero, findLoop], hz,
        by simp [OMap.stepW, toMap_zero, OMap.keyW], by omega⟩
    | len => exact ⟨SL.zero, .int 0, by simp [SL.step, SL.zero], hz, by simp [OMap.stepW, toMap_zero], by omega⟩
    | head => exact ⟨SL.zero, .node none, by simp [SL.step, SL.head, SL.zero], hz, by simp [OMap.stepW, toMap_zero], by omega⟩
    | keys => exact ⟨SL.zero, .keys [], by simp [SL.step, SL.keys, SL.zero], hz, by simp [OMap.stepW, toMap_zero], by omega⟩
    | values => exact ⟨SL.zero, .vals [], by simp [SL.step, SL.values, SL.zero], hz, by simp [OMap.stepW, toMap_zero], by omega⟩
    | range stop =>
      exact ⟨SL.zero, .kvs [], by simp [SL.step, SL.range, SL.zero], hz, by simp [OMap.stepW, toMap_zero, stopAfter], by omega⟩
    | all stop =>
      exact ⟨SL.zero, .kvs [], by simp [SL.step, SL.range, SL.zero], hz, by simp [OMap.stepW, toMap_zero, stopAfter], by omega⟩
    | rangeWithStart st stop =>
      exact ⟨SL.zero, .kvs [], by simp [SL.step, SL.rangeFrom, SL.zero, hf, hl], hz,
        by simp [OMap.stepW, toMap_zero, stopAfter, OMap.from], by omega⟩
    | rangeWithRange st e stop =>
      exact ⟨SL.zero, .kvs [], by simp [SL.step, SL.rangeFrom, SL.zero, hf, hl], hz,
        by simp [OMap.stepW, toMap_zero, stopAfter, OMap.between], by omega⟩

/-! ### under a total-order comparator the weak-order specification is the plain one -/

theorem eqv_pred_total {cmp : K → K → Int} (hc : TotalCmp cmp) (k : K) :
    (fun p : K × V => cmp p.1 k == 0) = (fun p => decide (p.1 = k)) := by
  funext p
  rw [Bool.eq_iff_iff]
  simp [hc.eq_iff]

theorem OMap.getW_eq_get {cmp : K → K → Int} (hc : TotalCmp cmp) (m : List (K × V)) (k : K) :
    OMap.getW cmp m k = OMap.get m k := by
  unfold OMap.getW OMap.get; rw [eqv_pred_total hc]

theorem OMap.keyW_eq {cmp : K → K → Int} (hc : TotalCmp cmp) (m : List (K × V)) (k : K) :
    OMap.keyW cmp m k = if (OMap.get m k).isSome then some k else none := by
  unfold OMap.keyW OMap.get; rw [eqv_pred_total hc]
  cases hf : m.find? (fun p => decide (p.1 = k)) with
  | none => rfl
  | some p =>
    have := List.find?_some hf
    simp only [decide_eq_true_eq] at this
    simp [this]

theorem OMap.setW_eq_set {cmp : K → K → Int} (hc : TotalCmp cmp) (m : List (K × V)) (k : K) (v : V) :
    OMap.setW cmp m k v = OMap.set cmp m k v := by
  unfold OMap.setW OMap.set
  rw [OMap.keyW_eq hc]
  split <;> rfl

/-- For a total-order comparator the weak-order specification step is the plain one (on every
association list, sorted or not). -/
theorem OMap.stepW_eq_step (cfg : Cfg K V) (hc : TotalCmp cfg.cmp) (m : List (K × V)) (op : Op K V) :
    OMap.stepW cfg m op = OMap.step cfg m op := by
  cases op <;>
    simp only [OMap.stepW, OMap.step, OMap.getW_eq_get hc, OMap.setW_eq_set hc, OMap.keyW_eq hc]
  -- `setNodeValue`
  rename_i k v
  by_cases h : (OMap.get m k).isSome = true <;> simp [h]

/-- `set` on an initialised list (total-order comparator). -/
theorem set_sim (cfg : Cfg K V) (hc : TotalCmp cfg.cmp) {s : SL K V} (h : Inv cfg.cmp s)
    (k : K) (v : V) (mode r : Nat) (hmode : mode ≤ 2) :
    ∃ s' b, s.set cfg k v mode r = some (s', b) ∧ Inv cfg.cmp s' ∧ s'.level ≤ s.level + 1 ∧
      (toMap s', b) =
        (if mode = 0 then (OMap.set cfg.cmp (toMap s) k v, true)
         else if mode = 1 then
           (if (OMap.get (toMap s) k).isSome then (OMap.set cfg.cmp (toMap s) k v, true) else (toMap s, false))
         else
           (if (OMap.get (toMap s) k).isSome then (toMap s, false) else (OMap.set cfg.cmp (toMap s) k v, true))) := by
  have := set_sim_weak cfg hc.toWeak h k v mode r hmode
  rw [OMap.getW_eq_get hc, OMap.setW_eq_set hc] at this
  exact this

/-- One step of the simulation: no panic, reachable states stay reachable, the abstraction
commutes with the step, outputs agree, the level grows by at most one. -/
theorem step_sim (cfg : Cfg K V) (hc : TotalCmp cfg.cmp) (hf : cfg.fixed = true) {s : SL K V}
    (hg : Good cfg s) (op : Op K V) :
    ∃ s' out, s.step cfg op = some (s', out) ∧ Good cfg s' ∧
      OMap.step cfg (toMap s) op = (toMap s', out) ∧ s'.level ≤ max s.level 1 + 1 := by
  obtain ⟨s', out, h1, h2, h3, h4⟩ := step_sim_weak cfg hc.toWeak hf hg op
  rw [OMap.stepW_eq_step cfg hc] at h3
  exact ⟨s', out, h1, h2, h3, h4⟩

/-- Run a sequence of calls on the model: final state and outputs (`none` = some call panicked). -/
def SL.run (cfg : Cfg K V) : SL K V → List (Op K V) → Option (SL K V × List (Out K V))
  | s, [] => some (s, [])
  | s, op :: ops =>
    match s.step cfg op with
    | none => none
    | some (s', out) => (SL.run cfg s' ops).map fun (s'', outs) => (s'', out :: outs)

/-- The same sequence on the specification. -/
def OMap.run (cfg : Cfg K V) : List (K × V) → List (Op K V) → List (K × V) × List (Out K V)
  | m, [] => (m, [])
  | m, op :: ops =>
    let (m', out) := OMap.step cfg m op
    let (m'', outs) := OMap.run cfg m' ops
    (m'', out :: outs)

/-- The same sequence on the weak-order specification. -/
def OMap.runW (cfg : Cfg K V) : List (K × V) → List (Op K V) → List (K × V) × List (Out K V)
  | m, [] => (m, [])
  | m, op :: ops =>
    let (m', out) := OMap.stepW cfg m op
    let (m'', outs) := OMap.runW cfg m' ops
    (m'', out :: outs)

theorem run_sim_weak (cfg : Cfg K V) (hc : WeakCmp cfg.cmp) (hf : cfg.fixed = true) :
    ∀ (ops : List (Op K V)) {s : SL K V}, Good cfg s →
      ∃ s' outs, SL.run cfg s ops = some (s', outs) ∧ Good cfg s' ∧
        OMap.runW cfg (toMap s) ops = (toMap s', outs) := by
  intro ops
  induction ops with
  | nil => intro s hg; exact ⟨s, [], rfl, hg, rfl⟩
  | cons op ops ih =>
    intro s hg
    obtain ⟨s1, out, h1, h2, h3, _⟩ := step_sim_weak cfg hc hf hg op
    obtain ⟨s2, outs, h4, h5, h6⟩ := ih h2
    refine ⟨s2, out :: outs, ?_, h5, ?_⟩
    · simp [SL.run, h1, h4]
    · simp [OMap.runW, h3, h6]

theorem OMap.runW_eq_run (cfg : Cfg K V) (hc : TotalCmp cfg.cmp) :
    ∀ (ops : List (Op K V)) (m : List (K × V)), OMap.runW cfg m ops = OMap.run cfg m ops := by
  intro ops
  induction ops with
  | nil => intro m; rfl
  | cons op ops ih =>
    intro m
    simp only [OMap.runW, OMap.run, OMap.stepW_eq_step cfg hc, ih]

theorem run_sim (cfg : Cfg K V) (hc : TotalCmp cfg.cmp) (hf : cfg.fixed = true) :
    ∀ (ops : List (Op K V)) {s : SL K V}, Good cfg s →
      ∃ s' outs, SL.run cfg s ops = some (s', outs) ∧ Good cfg s' ∧
        OMap.run cfg (toMap s) ops = (toMap s', outs) := by
  intro ops s hg
  obtain ⟨s', outs, h1, h2, h3⟩ := run_sim_weak cfg hc.toWeak hf ops hg
  rw [OMap.runW_eq_run cfg hc] at h3
  exact ⟨s', outs, h1, h2, h3⟩

/-- Forget the random words. -/
def Op.eraseR : Op K V → Op K V
  | .set k v _ => .set k v 0
  | .setX k v _ => .setX k v 0
  | .setNx k v _ => .setNx k v 0
  | op => op

theorem omap_step_eraseR (cfg : Cfg K V) (m : List (K × V)) (op : Op K V) :
    OMap.step cfg m op.eraseR = OMap.step cfg m op := by
  cases op <;> rfl

theorem omap_run_eraseR (cfg : Cfg K V) : ∀ (ops : List (Op K V)) (m : List (K × V)),
    OMap.run cfg m (ops.map Op.eraseR) = OMap.run cfg m ops := by
  intro ops
  induction ops with
  | nil => intro m; rfl
  | cons op ops ih =>
    intro m
    simp only [List.map_cons, OMap.run, omap_step_eraseR, ih]

theorem omap_stepW_eraseR (cfg : Cfg K V) (m : List (K × V)) (op : Op K V) :
    OMap.stepW cfg m op.eraseR = OMap.stepW cfg m op := by
  cases op <;> rfl

theorem omap_runW_eraseR (cfg : Cfg K V) : ∀ (ops : List (Op K V)) (m : List (K × V)),
    OMap.runW cfg m (ops.map Op.eraseR) = OMap.runW cfg m ops := by
  intro ops
  induction ops with
  | nil => intro m; rfl
  | cons op ops ih =>
    intro m
    simp only [List.map_cons, OMap.runW, omap_stepW_eraseR, ih]

end Golib.C02
