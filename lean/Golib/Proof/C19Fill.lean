/-
C19 — constructive lemmas: schedules compose, every non-blocked task can step
(progress), and free slots can be filled with running tasks.
-/
import Golib.Proof.C19Inv

namespace Golib.C19

theorem run_append (s : St) (a b : List Label) :
    s.run (a ++ b) = (s.run a).bind (fun s' => s'.run b) := by
  induction a generalizing s with
  | nil => simp [St.run]
  | cons l ls ih =>
    simp only [List.cons_append, St.run]
    cases s.step l with
    | none => simp
    | some s1 => simpa using ih s1

theorem Reachable.extend {limit : Int} {s s' : St} (h : Reachable limit s) {ls : List Label}
    (h2 : s.run ls = some s') : Reachable limit s' := by
  obtain ⟨l0, hl0⟩ := h
  exact ⟨l0 ++ ls, by rw [run_append, hl0]; simpa using h2⟩

/-- Progress: a task that has not exited can always take its next step, except a
submission waiting for a token while the channel is full. (A task inside `fn` can
step too: when it does is `fn`'s business.) -/
theorem Inv.progress {n₀ : Nat} {s : St} (hi : Inv n₀ s) {i : Nat} {t : Task}
    (ht : s.tasks[i]? = some t) (hne : t.pc ≠ .exited) (hnew : t.pc = .new → s.k < s.n) :
    (s.adv i).isSome = true := by
  have hok := hi.htasks t (List.mem_of_getElem? ht)
  have hcp := hok.noCleanupPanic
  unfold St.adv
  simp only [ht]
  obtain ⟨pc, outcome, starts, handled⟩ := t
  simp only [] at hne hnew hcp
  cases pc <;> simp only []
  · simp [hnew rfl]
  · rfl
  · rfl
  · rfl
  · rfl
  · cases outcome.recovered <;> rfl
  · split <;> rfl
  · have := holds_pos hi ht (by simp [Pc.holdsToken])
    simp [this]
  · exact absurd rfl hne
  · exact absurd rfl hcp

/-- One more function can be brought inside whenever a token is free. -/
theorem start_one (s : St) (hk : s.k < s.n) :
    ∃ s', s.run [.submit .ok, .adv s.tasks.length, .adv s.tasks.length, .adv s.tasks.length,
                 .adv s.tasks.length] = some s' ∧
      s'.running = s.running + 1 ∧ s'.k = s.k + 1 ∧ s'.n = s.n := by
  let t1 : Task := { pc := .running, outcome := .ok, starts := 1, hid := s.cur }
  let s1 : St := { s with k := s.k + 1, wg := s.wg + 1, tasks := s.tasks ++ [t1] }
  refine ⟨s1, ?_, ?_, rfl, rfl⟩
  · simp [St.run, St.step, St.adv, hk, s1, t1]
  · simp [St.running, List.countP_append, s1, t1]

theorem fill_slots (m : Nat) : ∀ (s : St), s.k + m ≤ s.n →
    ∃ ls s', s.run ls = some s' ∧ s'.running = s.running + m ∧ s'.k = s.k + m ∧ s'.n = s.n := by
  induction m with
  | zero => intro s _; exact ⟨[], s, rfl, rfl, rfl, rfl⟩
  | succ m ih =>
    intro s h
    obtain ⟨s1, hr1, hrun1, hk1, hn1⟩ := start_one s (by omega)
    obtain ⟨ls, s2, hr2, hrun2, hk2, hn2⟩ := ih s1 (by omega)
    refine ⟨[.submit .ok, .adv s.tasks.length, .adv s.tasks.length, .adv s.tasks.length,
                 .adv s.tasks.length] ++ ls, s2, ?_, by omega, by omega, by omega⟩
    rw [run_append, hr1]
    simpa using hr2

end Golib.C19
