/-
C12 — atomicity: with one critical section per body, every concurrent execution equals
the sequential execution of the calls in critical-section-entry order.
One call per goroutine (a goroutine issuing several calls is the special case of
several goroutines that happen to run one after the other; the entry order respects
any real-time order because the entry lies inside the call).
-/
import Golib.Proof.C12Race

namespace Golib.C12

variable {σ μ : Type}

def noAcq (es : List Ev) : Prop := ∀ e ∈ es, e.isAcquire = false

theorem noAcq_cons {e : Ev} {es : List Ev} (h : noAcq (e :: es)) : e.isAcquire = false ∧ noAcq es :=
  ⟨h e (by simp), fun x hx => h x (by simp [hx])⟩

theorem oneSection_cons_acq {e : Ev} {es : List Ev} (h : oneSection (e :: es) = true)
    (he : e.isAcquire = true) : noAcq es := by
  intro x hx
  cases hxa : x.isAcquire
  · rfl
  · exfalso
    simp only [oneSection, List.filter_cons, he, if_true, List.length_cons, decide_eq_true_eq] at h
    have : 0 < (es.filter Ev.isAcquire).length :=
      List.length_pos_of_mem (List.mem_filter.2 ⟨hx, hxa⟩)
    omega

theorem oneSection_cons_nacq {e : Ev} {es : List Ev} (h : oneSection (e :: es) = true)
    (he : e.isAcquire = false) : oneSection es = true := by
  simpa [oneSection, List.filter_cons, he] using h

theorem check_ne_w {m m' : Mode} {e : Ev} (h : m.check e = some m') (hm : m ≠ .w)
    (he : e.isAcquire = false) : m' ≠ .w := by
  intro hw
  subst hw
  cases m <;> cases e <;> simp_all [Mode.check, Ev.isAcquire]

theorem check_not_writes {m m' : Mode} {e : Ev} (h : m.check e = some m') (hm : m ≠ .w) :
    e.writes = false := by
  cases m <;> cases e <;> simp_all [Mode.check, Ev.writes]

theorem check_free_nacq {m' : Mode} {e : Ev} (h : Mode.free.check e = some m')
    (he : e.isAcquire = false) : e = .callFn ∧ m' = .free := by
  cases e <;> simp_all [Mode.check, Ev.isAcquire]

theorem check_w_nacq {m' : Mode} {e : Ev} (h : Mode.w.check e = some m') :
    m' = .w ∨ (e = .unlock ∧ m' = .free) := by
  cases e <;> simp_all [Mode.check]

theorem check_to_w {m : Mode} {e : Ev} (h : m.check e = some .w) (he : e.isAcquire = false) :
    m = .w := by
  cases m <;> cases e <;> simp_all [Mode.check, Ev.isAcquire]

theorem acquire_apply (a : Act σ μ) (s : σ) (l : μ) (h : a.ev.isAcquire = true) :
    a.apply s l = (s, l) := by
  unfold Act.apply
  cases he : a.ev <;> simp_all [Ev.isAcquire]

theorem apply_fst_of_not_writes (a : Act σ μ) (s : σ) (l : μ) (h : a.ev.writes = false) :
    (a.apply s l).1 = s := by
  unfold Act.apply
  cases he : a.ev <;> simp_all [Ev.writes]

theorem runActs_cons (a : Act σ μ) (as : List (Act σ μ)) (s : σ) (l : μ) :
    runActs (a :: as) s l = runActs as (a.apply s l).1 (a.apply s l).2 := rfl

/-- Outside a write section and with no acquire ahead, a goroutine neither changes the
shared state nor — once it holds nothing — looks at it. -/
theorem runActs_quiet {m : Mode} {as : List (Act σ μ)}
    (hw : wellLockedFrom m (evs as) = true) (hn : noAcq (evs as)) (hm : m ≠ .w) (s : σ) (l : μ) :
    (runActs as s l).1 = s ∧ (m = .free → ∀ s', (runActs as s' l).2 = (runActs as s l).2) := by
  induction as generalizing m s l with
  | nil => exact ⟨rfl, fun _ _ => rfl⟩
  | cons a as ih =>
    simp only [evs, List.map_cons] at hw hn
    obtain ⟨m', hck, hw'⟩ := wellLockedFrom_cons hw
    obtain ⟨hna, hn'⟩ := noAcq_cons hn
    have hm' : m' ≠ .w := check_ne_w hck hm hna
    have happ : (a.apply s l).1 = s := apply_fst_of_not_writes _ _ _ (check_not_writes hck hm)
    have ih1 := ih hw' hn' hm'
    refine ⟨?_, ?_⟩
    · rw [runActs_cons, (ih1 _ _).1, happ]
    · intro hfree s'
      subst hfree
      -- holding nothing: only `callFn` is possible, which does not see the shared state
      obtain ⟨hev, hm'f⟩ := check_free_nacq hck hna
      have e1 : ∀ x, a.apply x l = (x, a.g l) := fun x => by simp [Act.apply, hev]
      rw [runActs_cons, runActs_cons, e1, e1]
      exact (ih hw' hn' hm' _ _).2 hm'f _

theorem seqExec_append (prog : Nat → List (Act σ μ)) (init : Nat → μ) (xs ys : List Nat) (s : σ) :
    seqExec prog init (xs ++ ys) s =
      ((seqExec prog init ys (seqExec prog init xs s).1).1,
       (seqExec prog init xs s).2 ++ (seqExec prog init ys (seqExec prog init xs s).1).2) := by
  induction xs generalizing s with
  | nil => simp [seqExec]
  | cons x xs ih => simp [seqExec, ih]

theorem seqExec_keys (prog : Nat → List (Act σ μ)) (init : Nat → μ) (o : List Nat) (s : σ) :
    (seqExec prog init o s).2.map Prod.fst = o := by
  induction o generalizing s with
  | nil => rfl
  | cons x xs ih => simp [seqExec, ih]

theorem lookup_none_of_not_mem {l : List (Nat × μ)} {t : Nat} (h : t ∉ l.map Prod.fst) :
    List.lookup t l = none := by
  rw [List.lookup_eq_none_iff]
  intro p hp
  have : t ≠ p.1 := fun heq => h (heq ▸ List.mem_map.2 ⟨p, hp, rfl⟩)
  simpa using this

section
variable (prog : Nat → List (Act σ μ)) (init : Nat → μ) (s₀ : σ)

/-- The simulation invariant. `seqExec … c.order s₀` is the sequential history so far. -/
structure AInv (c : Conf σ μ) : Prop where
  lock : LockInv c
  nodup : c.order.Nodup
  pre : ∀ t, t ∉ c.order → (c.th t).mode = .free ∧ oneSection (evs (c.th t).rest) = true ∧
          ∀ s, runActs (c.th t).rest s (c.th t).loc = runActs (prog t) s (init t)
  post : ∀ t, t ∈ c.order → noAcq (evs (c.th t).rest) ∧
          List.lookup t (seqExec prog init c.order s₀).2
            = some (runActs (c.th t).rest c.sh (c.th t).loc).2
  shFree : (∀ t, (c.th t).mode ≠ .w) → c.sh = (seqExec prog init c.order s₀).1
  shW : ∀ t, (c.th t).mode = .w →
          (runActs (c.th t).rest c.sh (c.th t).loc).1 = (seqExec prog init c.order s₀).1

theorem AInv.initial (h : ∀ t, bodyOK (evs (prog t)) = true) : AInv prog init s₀ (Conf.init s₀ prog init) := by
  have hb : ∀ t, wellLocked (evs (prog t)) = true ∧ oneSection (evs (prog t)) = true := fun t => by
    simpa [bodyOK] using h t
  exact
    { lock := LockInv.init s₀ prog init fun t => (hb t).1
      nodup := List.nodup_nil
      pre := fun t _ => ⟨rfl, (hb t).2, fun _ => rfl⟩
      post := fun t ht => by simp [Conf.init] at ht
      shFree := fun _ => rfl
      shW := fun t ht => by simp [Conf.init] at ht }

theorem after_th_self (c : Conf σ μ) (t : Nat) (a : Act σ μ) (as : List (Act σ μ)) :
    (c.after t a as).th t = ⟨(c.th t).mode.next a.ev, as, (a.apply c.sh (c.th t).loc).2⟩ := by
  simp [Conf.after, upd]

theorem after_th_other (c : Conf σ μ) {t u : Nat} (a : Act σ μ) (as : List (Act σ μ)) (h : u ≠ t) :
    (c.after t a as).th u = c.th u := by
  simp [Conf.after, upd, h]

theorem AInv.step {c c' : Conf σ μ} (hi : AInv prog init s₀ c) (hs : Step c c') :
    AInv prog init s₀ c' := by
  have hlock' : LockInv c' := hi.lock.step hs
  cases hs with | mk t a as hrest hen =>
  have hwt := hi.lock.wl t
  rw [hrest] at hwt
  simp only [evs, List.map_cons] at hwt
  obtain ⟨m', hck, hwl'⟩ := wellLockedFrom_cons hwt
  have hnext := check_next hck
  have hself := after_th_self c t a as
  have hother : ∀ u, u ≠ t → (c.after t a as).th u = c.th u := fun u h => after_th_other c a as h
  have hsh : (c.after t a as).sh = (a.apply c.sh (c.th t).loc).1 := rfl
  have hK : runActs (c.th t).rest c.sh (c.th t).loc
      = runActs as (a.apply c.sh (c.th t).loc).1 (a.apply c.sh (c.th t).loc).2 := by
    rw [hrest, runActs_cons]
  by_cases hacq : a.ev.isAcquire = true
  · ------------------------------------------------------------ the call enters its section
    have hord : (c.after t a as).order = c.order ++ [t] := by simp [Conf.after, hacq]
    have htno : t ∉ c.order := by
      intro hmem
      have := (hi.post t hmem).1
      rw [hrest] at this
      have := (noAcq_cons (by simpa [evs] using this)).1
      simp [hacq] at this
    obtain ⟨hmode, hone, hrun⟩ := hi.pre t htno
    rw [hrest] at hone hrun
    have hnoacq : noAcq (evs as) := oneSection_cons_acq (by simpa [evs] using hone) hacq
    have happ : a.apply c.sh (c.th t).loc = (c.sh, (c.th t).loc) := acquire_apply a _ _ hacq
    have hnow : ∀ u, (c.th u).mode ≠ .w := by
      intro u
      cases he : a.ev <;> simp_all [Ev.isAcquire, enabled]
    have hshq : c.sh = (seqExec prog init c.order s₀).1 := hi.shFree hnow
    have hsh' : (c.after t a as).sh = c.sh := by rw [hsh, happ]
    -- the sequential history grows by this call, run on the current shared state
    have hp : runActs (prog t) (seqExec prog init c.order s₀).1 (init t)
        = runActs as c.sh (c.th t).loc := by
      rw [← hrun, runActs_cons, ← hshq, happ]
    have hq1 : (seqExec prog init (c.order ++ [t]) s₀).1 = (runActs as c.sh (c.th t).loc).1 := by
      rw [seqExec_append]; simp [seqExec, hp]
    have hq2 : (seqExec prog init (c.order ++ [t]) s₀).2
        = (seqExec prog init c.order s₀).2 ++ [(t, (runActs as c.sh (c.th t).loc).2)] := by
      rw [seqExec_append]; simp [seqExec, hp]
    refine { lock := hlock', nodup := ?_, pre := ?_, post := ?_, shFree := ?_, shW := ?_ }
    · rw [hord, List.nodup_append]
      refine ⟨hi.nodup, by simp, ?_⟩
      intro x hx y hy
      simp only [List.mem_singleton] at hy
      subst hy
      exact fun h => htno (h ▸ hx)
    · intro u hu
      rw [hord] at hu
      have hut : u ≠ t := fun h => hu (by simp [h])
      have huo : u ∉ c.order := fun h => hu (by simp [h])
      rw [hother u hut]
      exact hi.pre u huo
    · intro u hu
      rw [hord] at hu ⊢
      rw [hq2, List.lookup_append, hsh']
      by_cases hut : u = t
      · subst hut
        rw [hself]
        refine ⟨hnoacq, ?_⟩
        rw [lookup_none_of_not_mem (by rw [seqExec_keys]; exact htno)]
        simp [List.lookup, happ]
      · have huo : u ∈ c.order := by
          rcases List.mem_append.1 hu with h | h
          · exact h
          · exact absurd (by simpa using h) hut
        rw [hother u hut]
        obtain ⟨h1, h2⟩ := hi.post u huo
        exact ⟨h1, by rw [h2]; rfl⟩
    · intro hall
      rw [hord, hq1, hsh']
      -- nobody holds w afterwards: the acquire was `rlock`; a read section leaves the state alone
      have hm'w : m' ≠ .w := by
        have := hall t
        rw [hself] at this
        simpa [hnext] using this
      exact ((runActs_quiet hwl' hnoacq hm'w c.sh (c.th t).loc).1).symm
    · intro u hu
      rw [hord, hq1]
      by_cases hut : u = t
      · subst hut
        rw [hself, hsh']
        simp [happ]
      · rw [hother u hut] at hu
        exact absurd hu (hnow u)
  · ------------------------------------------------------------ any other action
    have hacq' : a.ev.isAcquire = false := by simpa using hacq
    have hord : (c.after t a as).order = c.order := by simp [Conf.after, hacq']
    by_cases hmem : t ∈ c.order
    · ---------------------------------------- inside or after its section
      obtain ⟨hna, hpost⟩ := hi.post t hmem
      rw [hrest] at hna
      have hnoacq : noAcq (evs as) := (noAcq_cons (by simpa [evs] using hna)).2
      -- if the shared state changes, `t` holds the write lock and everybody else nothing
      have hchg : (a.apply c.sh (c.th t).loc).1 ≠ c.sh → (c.th t).mode = .w := by
        intro hne
        have hw : a.ev.writes = true := by
          cases hb : a.ev.writes
          · exact absurd (apply_fst_of_not_writes a _ _ hb) hne
          · rfl
        have hacc : a.ev.isAccess = true := by
          cases he : a.ev <;> simp_all [Ev.writes, Ev.isAccess]
        exact (hi.lock.access_mode hrest hacc).2 hw
      refine { lock := hlock', nodup := by rw [hord]; exact hi.nodup, pre := ?_, post := ?_,
               shFree := ?_, shW := ?_ }
      · intro u hu
        rw [hord] at hu
        have hut : u ≠ t := fun h => hu (h ▸ hmem)
        rw [hother u hut]
        exact hi.pre u hu
      · intro u hu
        rw [hord] at hu ⊢
        by_cases hut : u = t
        · subst hut
          rw [hself, hsh]
          exact ⟨hnoacq, by rw [hpost, hK]⟩
        · rw [hother u hut, hsh]
          obtain ⟨h1, h2⟩ := hi.post u hu
          refine ⟨h1, ?_⟩
          rw [h2]
          by_cases hsame : (a.apply c.sh (c.th t).loc).1 = c.sh
          · rw [hsame]
          · have hfree := hi.lock.excl t u (Ne.symm hut) (hchg hsame)
            have hwu := hi.lock.wl u
            rw [hfree] at hwu
            exact congrArg some ((runActs_quiet hwu h1 (by simp) c.sh (c.th u).loc).2 rfl _).symm
      · intro hall
        rw [hord, hsh]
        by_cases hmw : (c.th t).mode = .w
        · -- leaving the write section: the action is `unlock`
          have hm'f : m' ≠ .w := by
            have := hall t
            rw [hself] at this
            simpa [hnext] using this
          have hev : a.ev = .unlock := by
            rw [hmw] at hck
            cases he : a.ev <;> simp_all [Mode.check]
          have hm'free : m' = .free := by
            rw [hmw, hev] at hck; simpa [Mode.check] using hck.symm
          have happ : a.apply c.sh (c.th t).loc = (c.sh, (c.th t).loc) := by
            simp [Act.apply, hev]
          have h1 := hi.shW t hmw
          rw [hK, happ] at h1
          rw [happ, ← h1]
          rw [hm'free] at hwl'
          exact ((runActs_quiet hwl' hnoacq (by simp) c.sh (c.th t).loc).1).symm
        · have hall0 : ∀ u, (c.th u).mode ≠ .w := by
            intro u
            by_cases hut : u = t
            · exact hut ▸ hmw
            · have := hall u
              rwa [hother u hut] at this
          have hsame : (a.apply c.sh (c.th t).loc).1 = c.sh := by
            apply Classical.byContradiction
            intro hne
            exact hmw (hchg hne)
          rw [hsame]
          exact hi.shFree hall0
      · intro u hu
        rw [hord]
        by_cases hut : u = t
        · subst hut
          rw [hself] at hu ⊢
          rw [hsh]
          have hmw : (c.th u).mode = .w := by
            simp only [hnext] at hu
            subst hu
            cases hm : (c.th u).mode <;> cases he : a.ev <;> simp_all [Mode.check, Ev.isAcquire]
          have := hi.shW u hmw
          rw [hK] at this
          exact this
        · rw [hother u hut] at hu ⊢
          have htfree := hi.lock.excl u t hut hu
          have hsame : (a.apply c.sh (c.th t).loc).1 = c.sh := by
            apply Classical.byContradiction
            intro hne
            have := hchg hne
            rw [htfree] at this
            cases this
          rw [hsh, hsame]
          exact hi.shW u hu
    · ---------------------------------------- before its section: goroutine-local computation only
      obtain ⟨hmode, hone, hrun⟩ := hi.pre t hmem
      rw [hrest] at hone hrun
      have hev : a.ev = .callFn := by
        rw [hmode] at hck
        cases he : a.ev <;> simp_all [Mode.check, Ev.isAcquire]
      have happ : ∀ x, a.apply x (c.th t).loc = (x, a.g (c.th t).loc) := fun x => by
        simp [Act.apply, hev]
      have hsame : (c.after t a as).sh = c.sh := by rw [hsh, happ]
      have hmode' : ((c.after t a as).th t).mode = .free := by
        rw [hself]; simp [hmode, hev, Mode.next]
      refine { lock := hlock', nodup := by rw [hord]; exact hi.nodup, pre := ?_, post := ?_,
               shFree := ?_, shW := ?_ }
      · intro u hu
        rw [hord] at hu
        by_cases hut : u = t
        · subst hut
          refine ⟨hmode', ?_, ?_⟩
          · rw [hself]
            exact oneSection_cons_nacq (by simpa [evs] using hone) hacq'
          · intro s
            rw [hself]
            simp only []
            rw [← hrun s, runActs_cons, happ, happ]
        · rw [hother u hut]
          exact hi.pre u hu
      · intro u hu
        rw [hord] at hu ⊢
        have hut : u ≠ t := fun h => hmem (h ▸ hu)
        rw [hother u hut, hsame]
        exact hi.post u hu
      · intro hall
        rw [hord, hsame]
        apply hi.shFree
        intro u
        by_cases hut : u = t
        · rw [hut, hmode]; simp
        · have := hall u
          rwa [hother u hut] at this
      · intro u hu
        rw [hord, hsame]
        by_cases hut : u = t
        · rw [hut, hmode'] at hu; cases hu
        · rw [hother u hut] at hu ⊢
          exact hi.shW u hu

theorem AInv.reach {c : Conf σ μ} (h : ∀ t, bodyOK (evs (prog t)) = true)
    (hr : Reach (Conf.init s₀ prog init) c) : AInv prog init s₀ c := by
  induction hr with
  | refl => exact AInv.initial prog init s₀ h
  | step _ hs ih => exact ih.step prog init s₀ hs

end

end Golib.C12
