/-
C10 copy stream: frame and freshness lemmas for the heap-of-buffers model.
-/
import Golib.Model.C10Copy

set_option linter.unusedSimpArgs false
set_option linter.unusedVariables false

namespace Golib.C10

variable {σ β : Type}

/-- every object's buffer id points into the heap -/
def MS.WF (m : MS σ β) : Prop := ∀ e ∈ m.objs, e.1 < m.heap.length

/-- Frame: writing object `i` back (in place or into a fresh buffer) does not change what
any other object `j` reads, provided `j` does not share `i`'s buffer. -/
theorem load_store_other (getV : σ → List β) (setV : σ → List β → σ) (m : MS σ β) (hwf : m.WF)
    (i j : Nat) (o' : σ) (alloc : Bool) (bi bj : Nat) (oi oj : σ)
    (hi : m.objs[i]? = some (bi, oi)) (hj : m.objs[j]? = some (bj, oj)) (hij : i ≠ j)
    (hb : bi ≠ bj) :
    (m.store getV i o' alloc).load setV j = m.load setV j := by
  have hbj : bj < m.heap.length := hwf _ (List.mem_of_getElem? hj)
  simp only [MS.store, hi, MS.load]
  cases alloc with
  | true =>
    simp only [if_true, List.getElem?_set_ne hij, hj, List.getElem?_append_left hbj]
  | false =>
    simp only [Bool.false_eq_true, if_false, List.getElem?_set_ne hij, hj, List.getElem?_set_ne hb]

/-- Freshness: after an allocating write-back (Init, successful Recap, expanding
PushWithExpand) object `i` owns a buffer no other object refers to, and reads back what
was stored. -/
theorem store_alloc_fresh (getV : σ → List β) (setV : σ → List β → σ) (m : MS σ β) (hwf : m.WF)
    (i : Nat) (o' : σ) (bi : Nat) (oi : σ) (hi : m.objs[i]? = some (bi, oi))
    (hgs : setV o' (getV o') = o') :
    (m.store getV i o' true).load setV i = some o' ∧
    (m.store getV i o' true).WF ∧
    ∀ j bj oj, j ≠ i → (m.store getV i o' true).objs[j]? = some (bj, oj) → bj ≠ m.heap.length := by
  have hil : i < m.objs.length := (List.getElem?_eq_some_iff.mp hi).1
  refine ⟨?_, ?_, ?_⟩
  · simp only [MS.store, hi, if_true, MS.load, List.getElem?_set_self hil,
      List.getElem?_append_right (Nat.le_refl _), Nat.sub_self, List.getElem?_cons_zero,
      Option.map_some, hgs]
  · intro e he
    simp only [MS.store, hi, if_true] at he ⊢
    simp only [List.length_append, List.length_singleton]
    rcases List.mem_or_eq_of_mem_set he with h | h
    · have := hwf e h; omega
    · subst h; simp
  · intro j bj oj hji hj
    simp only [MS.store, hi, if_true, List.getElem?_set_ne (Ne.symm hji)] at hj
    have := hwf _ (List.mem_of_getElem? hj)
    simp only at this
    omega

/-- A struct copy shares the buffer: `j` reads exactly what `i` reads (up to the struct's
own fields, which are copied too). -/
theorem load_copy (setV : σ → List β → σ) (m : MS σ β) (i j : Nat) (hj : j < m.objs.length)
    (e : Nat × σ) (hi : m.objs[i]? = some e) :
    (m.copy i j).load setV j = m.load setV i := by
  simp only [MS.copy, hi, MS.load, List.getElem?_set_self hj]

end Golib.C10
