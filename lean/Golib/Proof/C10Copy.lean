/-
C10 copy stream: frame and freshness lemmas for the heap-of-buffers model.
-/
import Golib.Model.C10Copy

set_option linter.unusedSimpArgs false
set_option linter.unusedVariables false

namespace Golib.C10

variable {σ β : Type}

/-- every object's buffer id points into the heap -/
def MS.WF (m : MS σ β) : Prop := ∀ e ∈ m.objs, e.1 < m.heap.length

/-- Frame: writing object `i` back (in place or into a fresh buffer) does not change what
any other object `j` reads, provided `j` does not share `i`'s buffer. -/
theorem load_store_other (getV : σ → List β) (setV : σ → List β → σ) (m : MS σ β) (hwf : m.WF)
    (i j : Nat) (o' : σ) (alloc : Bool) (bi bj : Nat) (oi oj : σ)
    (hi : m.objs[i]? = some (bi, oi)) (hj : m.objs[j]? = some (bj, oj)) (hij : i ≠ j)
    (hb : bi ≠ bj) :
    (m.store getV i o' alloc).load setV j = m.load setV j := by
  have hbj : bj < m.heap.length := hwf _ (List.mem_of_getElem? hj)
  simp only [MS.store, hi, MS.load]
  cases alloc with
  | true =>
    simp only [if_true, List.getElem?_set_ne hij, hj, List.getElem?_append_left hbj]
  | false =>
    simp only [Bool.false_eq_true, if_false, List.getElem?_set_ne hij, hj, List.getElem?_set_ne hb]

/-- Freshness: after an allocating write-back (Init, successful Recap, expanding
PushWithExpand) object `i` owns a buffer no other object refers to, and reads back what
was stored. -/
theorem store_alloc_fresh (getV : σ → List β) (setV : σ → List β → σ) (m : MS σ β) (hwf : m.WF)
    (i : Nat) (o' : σ) (bi : Nat) (oi : σ) (hi : m.objs[i]? = some (bi, oi))
    (hgs : setV o' (getV o') = o') :
    (m.store getV i o' true).load setV i = some o' ∧
    (m.store getV i o' true).WF ∧
    ∀ j bj oj, j ≠ i → (m.store getV i o' true).objs[j]? = some (bj, oj) → bj ≠ m.heap.length := by
  have hil : i < m.objs.length := (List.getElem?_eq_some_iff.mp hi).1
  refine ⟨?_, ?_, ?_⟩
  · simp only [MS.store, hi, if_true, MS.load, List.getElem?_set_self hil,
      List.getElem?_append_right (Nat.le_refl _), Nat.sub_self, List.getElem?_cons_zero,
      Option.map_some, hgs]
  · intro e he
    simp only [MS.store, hi, if_true] at he ⊢
    simp only [List.length_append, List.length_singleton]
    rcases List.mem_or_eq_of_mem_set he with h | h
    · have := hwf e h; omega
    · subst h; simp
  · intro j bj oj hji hj
    simp only [MS.store, hi, if_true, List.getElem?_set_ne (Ne.symm hji)] at hj
    have := hwf _ (List.mem_of_getElem? hj)
    simp only at this
    omega

/-- A struct copy shares the buffer: `j` reads exactly what `i` reads (up to the struct's
own fields, which are copied too). -/
theorem load_copy (setV : σ → List β → σ) (m : MS σ β) (i j : Nat) (hj : j < m.objs.length)
    (e : Nat × σ) (hi : m.objs[i]? = some e) :
    (m.copy i j).load setV j = m.load setV i := by
  simp only [MS.copy, hi, MS.load, List.getElem?_set_self hj]

/-! ### independent objects (separate `New` calls, no struct copies) -/

/-- no two objects refer to the same buffer -/
def MS.Distinct (m : MS σ β) : Prop :=
  ∀ (i j bi : Nat) (oi : σ) (bj : Nat) (oj : σ),
    m.objs[i]? = some (bi, oi) → m.objs[j]? = some (bj, oj) → i ≠ j → bi ≠ bj

/-- The state after `New(c0)`, `New(c1)`, …: object `k` owns buffer `k`. -/
def MS.ofNew (getV : σ → List β) (rs : List σ) : MS σ β :=
  { heap := rs.map getV, objs := (List.range rs.length).zip rs }

theorem ofNew_get (getV : σ → List β) (rs : List σ) (i b : Nat) (o : σ)
    (h : (MS.ofNew getV rs).objs[i]? = some (b, o)) : b = i ∧ i < rs.length := by
  simp only [MS.ofNew, List.getElem?_zip_eq_some, List.getElem?_range] at h
  obtain ⟨h1, h2⟩ := h
  have hi : i < rs.length := (List.getElem?_eq_some_iff.mp h2).1
  rw [List.getElem?_range hi] at h1
  exact ⟨(Option.some.inj h1).symm, hi⟩

theorem ofNew_wf_distinct (getV : σ → List β) (rs : List σ) :
    (MS.ofNew getV rs).WF ∧ (MS.ofNew getV rs).Distinct := by
  constructor
  · intro e he
    obtain ⟨i, hi, hget⟩ := List.getElem_of_mem he
    obtain ⟨b, o⟩ := e
    have := ofNew_get getV rs i b o (by rw [List.getElem?_eq_getElem hi, hget])
    simp only [MS.ofNew, List.length_map]
    omega
  · unfold MS.Distinct
    intro i j bi oi bj oj hi hj hij
    have h1 := (ofNew_get getV rs i bi oi hi).1
    have h2 := (ofNew_get getV rs j bj oj hj).1
    omega

/-- Every operation on object `i` (in place or allocating) keeps the objects' buffers
pairwise distinct and inside the heap, and leaves what every OTHER object reads unchanged. -/
theorem store_independent (getV : σ → List β) (setV : σ → List β → σ) (m : MS σ β)
    (hwf : m.WF) (hd : m.Distinct) (i : Nat) (o' : σ) (alloc : Bool) (bi : Nat) (oi : σ)
    (hi : m.objs[i]? = some (bi, oi)) :
    (m.store getV i o' alloc).WF ∧ (m.store getV i o' alloc).Distinct ∧
    ∀ j, j ≠ i → (m.store getV i o' alloc).load setV j = m.load setV j := by
  have hil : i < m.objs.length := (List.getElem?_eq_some_iff.mp hi).1
  have hbi : bi < m.heap.length := hwf _ (List.mem_of_getElem? hi)
  refine ⟨?_, ?_, ?_⟩
  · intro e he
    simp only [MS.store, hi] at he ⊢
    cases alloc with
    | true =>
      simp only [if_true] at he ⊢
      simp only [List.length_append, List.length_singleton]
      rcases List.mem_or_eq_of_mem_set he with h | h
      · have := hwf e h; omega
      · subst h; simp
    | false =>
      simp only [Bool.false_eq_true, if_false] at he ⊢
      simp only [List.length_set]
      rcases List.mem_or_eq_of_mem_set he with h | h
      · exact hwf e h
      · subst h; exact hbi
  · unfold MS.Distinct
    intro a b ba oa bb ob ha hb hab
    simp only [MS.store, hi] at ha hb
    cases alloc with
    | true =>
      simp only [if_true] at ha hb
      by_cases hai : a = i
      · subst hai
        rw [List.getElem?_set_self hil] at ha
        rw [List.getElem?_set_ne hab] at hb
        have := hwf _ (List.mem_of_getElem? hb)
        simp only [Option.some.injEq, Prod.mk.injEq] at ha
        simp only at this
        omega
      · rw [List.getElem?_set_ne (Ne.symm hai)] at ha
        by_cases hbi' : b = i
        · subst hbi'
          rw [List.getElem?_set_self hil] at hb
          have := hwf _ (List.mem_of_getElem? ha)
          simp only [Option.some.injEq, Prod.mk.injEq] at hb
          simp only at this
          omega
        · rw [List.getElem?_set_ne (Ne.symm hbi')] at hb
          exact hd a b ba oa bb ob ha hb hab
    | false =>
      simp only [Bool.false_eq_true, if_false] at ha hb
      by_cases hai : a = i
      · subst hai
        rw [List.getElem?_set_self hil] at ha
        rw [List.getElem?_set_ne hab] at hb
        simp only [Option.some.injEq, Prod.mk.injEq] at ha
        rw [← ha.1]
        exact hd a b bi oi bb ob hi hb hab
      · rw [List.getElem?_set_ne (Ne.symm hai)] at ha
        by_cases hbi' : b = i
        · subst hbi'
          rw [List.getElem?_set_self hil] at hb
          simp only [Option.some.injEq, Prod.mk.injEq] at hb
          rw [← hb.1]
          exact hd a b ba oa bi oi ha hi hab
        · rw [List.getElem?_set_ne (Ne.symm hbi')] at hb
          exact hd a b ba oa bb ob ha hb hab
  · intro j hji
    cases hj : m.objs[j]? with
    | none =>
      simp only [MS.load, MS.store, hi]
      cases alloc <;> simp [List.getElem?_set_ne (Ne.symm hji), hj]
    | some e =>
      obtain ⟨bj, oj⟩ := e
      exact load_store_other getV setV m hwf i j o' alloc bi bj oi oj hi hj (Ne.symm hji)
        (hd i j bi oi bj oj hi hj (Ne.symm hji))

end Golib.C10
