/-
`Best` / `BestAllowMinOverflow`: the loops compute the nearest key, for every visiting order.
-/
import Golib.Proof.C18AList

namespace Golib.C18

variable {β : Type}

/-- Fold characterisation for `Best`. -/
theorem bestStep_fold (m : Int) : ∀ (L : List (Int × β)) (acc : Option β × Int),
    let acc' := L.foldl (bestStep m) acc
    acc'.2 ≤ acc.2 ∧ (∀ e ∈ L, 0 ≤ m - e.1 → acc'.2 ≤ m - e.1) ∧
      (acc' = acc ∨ ∃ e ∈ L, acc' = (some e.2, m - e.1) ∧ 0 ≤ m - e.1)
  | [], acc => by simp
  | e :: L, acc => by
    have ih := bestStep_fold m L (bestStep m acc e)
    simp only [List.foldl_cons] at ih ⊢
    obtain ⟨h1, h2, h3⟩ := ih
    have hs : (bestStep m acc e = acc ∧ ¬ (m - e.1 ≥ 0 ∧ m - e.1 < acc.2)) ∨
        (bestStep m acc e = (some e.2, m - e.1) ∧ (m - e.1 ≥ 0 ∧ m - e.1 < acc.2)) := by
      by_cases h : m - e.1 ≥ 0 ∧ m - e.1 < acc.2
      · right; exact ⟨by simp only [bestStep]; rw [if_pos h], h⟩
      · left; exact ⟨by simp only [bestStep]; rw [if_neg h], h⟩
    rcases hs with ⟨hs, hc⟩ | ⟨hs, hc⟩
    · rw [hs] at h1 h2 h3 ⊢
      refine ⟨h1, ?_, ?_⟩
      · intro e' he' hd
        rcases List.mem_cons.mp he' with rfl | he'
        · omega
        · exact h2 e' he' hd
      · rcases h3 with h3 | ⟨e', he', h3⟩
        · exact Or.inl h3
        · exact Or.inr ⟨e', List.mem_cons_of_mem _ he', h3⟩
    · rw [hs] at h1 h2 h3 ⊢
      simp only [] at h1
      refine ⟨by omega, ?_, ?_⟩
      · intro e' he' hd
        rcases List.mem_cons.mp he' with rfl | he'
        · omega
        · exact h2 e' he' hd
      · rcases h3 with h3 | ⟨e', he', h3⟩
        · exact Or.inr ⟨e, by simp, h3, hc.1⟩
        · exact Or.inr ⟨e', List.mem_cons_of_mem _ he', h3⟩

theorem best_spec (ord : List Int → List Int) (s : List (Int × β)) (m : Int)
    (hn : (keys s).Nodup) (hp : (ord (keys s)).Perm (keys s))
    (hb : ∀ k ∈ keys s, m - k < maxInt) :
    match best ord s m with
    | none => ∀ e ∈ s, m < e.1
    | some v => ∃ k, (k, v) ∈ s ∧ k ≤ m ∧ ∀ e ∈ s, e.1 ≤ m → e.1 ≤ k := by
  unfold best
  cases hl : alLookup m s with
  | some b =>
    simp only []
    exact ⟨m, alLookup_some_mem hl, Int.le_refl _, fun e _ h => h⟩
  | none =>
    simp only []
    have hmem := mem_entriesIn hn hp
    obtain ⟨_, h2, h3⟩ := bestStep_fold m (entriesIn s (ord (keys s))) ((none : Option β), maxInt)
    simp only [keys] at hmem h2 h3
    generalize (entriesIn s (ord (s.map (·.1)))).foldl (bestStep m) ((none : Option β), maxInt) = r at h2 h3
    obtain ⟨r1, r2⟩ := r
    cases r1 with
    | none =>
      simp only []
      intro e he
      rcases h3 with h3 | ⟨e', _, h3, _⟩
      · have hr : r2 = maxInt := by cases h3; rfl
        have := h2 e ((hmem e).mpr he)
        have := hb e.1 (List.mem_map.mpr ⟨e, he, rfl⟩)
        simp only [] at *
        omega
      · cases h3
    | some v =>
      simp only []
      rcases h3 with h3 | ⟨e', he', h3, hd⟩
      · cases h3
      · cases h3
        refine ⟨e'.1, (hmem e').mp he', by omega, ?_⟩
        intro e he hle
        have := h2 e ((hmem e).mpr he) (by omega)
        simp only [] at this
        omega

/-- Fold characterisation for `BestAllowMinOverflow` (no entry has the exact key). -/
theorem bestOStep_fold (m : Int) : ∀ (L : List (Int × β)) (acc : Option β × Int),
    (∀ e ∈ L, m - e.1 ≠ 0) → acc.2 ≠ 0 →
    let acc' := L.foldl (bestOStep m) acc
    acc'.2 ≠ 0 ∧
    (acc.2 < 0 → acc'.2 < 0 ∧ acc.2 ≤ acc'.2) ∧ (acc.2 > 0 → acc'.2 < 0 ∨ acc'.2 ≤ acc.2) ∧
    (∀ e ∈ L, m - e.1 < 0 → acc'.2 < 0 ∧ m - e.1 ≤ acc'.2) ∧
    (∀ e ∈ L, m - e.1 > 0 → acc'.2 < 0 ∨ acc'.2 ≤ m - e.1) ∧
    (acc' = acc ∨ ∃ e ∈ L, acc' = (some e.2, m - e.1))
  | [], acc, _, h0 => by
    simp only [List.foldl_nil, List.not_mem_nil, false_imp_iff, implies_true, true_or, and_true]
    exact ⟨h0, fun h => ⟨h, Int.le_refl _⟩, fun _ => Or.inr (Int.le_refl _)⟩
  | e :: L, acc, hne, h0 => by
    have hne' : ∀ e' ∈ L, m - e'.1 ≠ 0 := fun e' he' => hne e' (List.mem_cons_of_mem _ he')
    have he0 := hne e (by simp)
    have hs : (bestOStep m acc e = acc ∧
          ((m - e.1 < 0 ∧ ¬ (acc.2 > 0 ∨ m - e.1 > acc.2)) ∨ (m - e.1 > 0 ∧ ¬ m - e.1 < acc.2))) ∨
        (bestOStep m acc e = (some e.2, m - e.1) ∧
          ((m - e.1 < 0 ∧ (acc.2 > 0 ∨ m - e.1 > acc.2)) ∨ (m - e.1 > 0 ∧ m - e.1 < acc.2))) := by
      by_cases hd : m - e.1 < 0
      · by_cases h : acc.2 > 0 ∨ m - e.1 > acc.2
        · right; exact ⟨by simp only [bestOStep]; rw [if_pos hd, if_pos h], Or.inl ⟨hd, h⟩⟩
        · left; exact ⟨by simp only [bestOStep]; rw [if_pos hd, if_neg h], Or.inl ⟨hd, h⟩⟩
      · by_cases h : m - e.1 < acc.2
        · right; exact ⟨by simp only [bestOStep]; rw [if_neg hd, if_pos h], Or.inr ⟨by omega, h⟩⟩
        · left; exact ⟨by simp only [bestOStep]; rw [if_neg hd, if_neg h], Or.inr ⟨by omega, h⟩⟩
    rcases hs with ⟨hs, hc⟩ | ⟨hs, hc⟩
    · have ih := bestOStep_fold m L (bestOStep m acc e) hne' (by rw [hs]; exact h0)
      simp only [List.foldl_cons] at ih ⊢
      rw [hs] at ih ⊢
      obtain ⟨i0, i1, i2, i3, i4, i5⟩ := ih
      refine ⟨i0, i1, i2, ?_, ?_, ?_⟩
      · intro e' he' hd
        rcases List.mem_cons.mp he' with rfl | he'
        · have := i1; have := i2; omega
        · exact i3 e' he' hd
      · intro e' he' hd
        rcases List.mem_cons.mp he' with rfl | he'
        · have := i1; have := i2; omega
        · exact i4 e' he' hd
      · rcases i5 with i5 | ⟨e', he', i5⟩
        · exact Or.inl i5
        · exact Or.inr ⟨e', List.mem_cons_of_mem _ he', i5⟩
    · have ih := bestOStep_fold m L (bestOStep m acc e) hne' (by rw [hs]; exact he0)
      simp only [List.foldl_cons] at ih ⊢
      rw [hs] at ih ⊢
      simp only [] at ih
      obtain ⟨i0, i1, i2, i3, i4, i5⟩ := ih
      refine ⟨i0, ?_, ?_, ?_, ?_, ?_⟩
      · intro h; omega
      · intro h; omega
      · intro e' he' hd
        rcases List.mem_cons.mp he' with rfl | he'
        · omega
        · exact i3 e' he' hd
      · intro e' he' hd
        rcases List.mem_cons.mp he' with rfl | he'
        · omega
        · exact i4 e' he' hd
      · rcases i5 with i5 | ⟨e', he', i5⟩
        · exact Or.inr ⟨e, by simp, i5⟩
        · exact Or.inr ⟨e', List.mem_cons_of_mem _ he', i5⟩

theorem bestO_spec (ord : List Int → List Int) (s : List (Int × β)) (m : Int)
    (hn : (keys s).Nodup) (hp : (ord (keys s)).Perm (keys s))
    (hb : ∀ k ∈ keys s, m - k < maxInt) :
    match bestO ord s m with
    | none => s = []
    | some v => ∃ k, (k, v) ∈ s ∧
        (k = m ∨
         (m ∉ keys s ∧ m < k ∧ ∀ e ∈ s, m < e.1 → k ≤ e.1) ∨
         (m ∉ keys s ∧ (∀ e ∈ s, e.1 < m) ∧ ∀ e ∈ s, e.1 ≤ k)) := by
  unfold bestO
  cases hl : alLookup m s with
  | some b =>
    simp only []
    exact ⟨m, alLookup_some_mem hl, Or.inl rfl⟩
  | none =>
    simp only []
    have hm : m ∉ keys s := alLookup_none_iff.mp hl
    have hmem := mem_entriesIn hn hp
    have hne : ∀ e ∈ entriesIn s (ord (keys s)), m - e.1 ≠ 0 := by
      intro e he h
      have : e.1 ∈ keys s := List.mem_map.mpr ⟨e, (hmem e).mp he, rfl⟩
      have : e.1 = m := by omega
      simp_all
    obtain ⟨_, _, _, h3, h4, h5⟩ :=
      bestOStep_fold m (entriesIn s (ord (keys s))) ((none : Option β), maxInt) hne (by simp [maxInt])
    simp only [keys] at hmem h3 h4 h5
    generalize (entriesIn s (ord (s.map (·.1)))).foldl (bestOStep m) ((none : Option β), maxInt) = r at h3 h4 h5
    obtain ⟨r1, r2⟩ := r
    have hkne : ∀ e ∈ s, e.1 ≠ m := by
      intro e he h; exact hm (List.mem_map.mpr ⟨e, he, h⟩)
    cases r1 with
    | none =>
      simp only []
      rcases h5 with h5 | ⟨e', _, h5⟩
      · have hr : r2 = maxInt := by cases h5; rfl
        cases s with
        | nil => rfl
        | cons e s' =>
          exfalso
          have he : e ∈ e :: s' := by simp
          have hk := hkne e he
          have hbb := hb e.1 (List.mem_map.mpr ⟨e, he, rfl⟩)
          have a := h3 e ((hmem e).mpr he)
          have b := h4 e ((hmem e).mpr he)
          simp only [maxInt] at *
          omega
      · cases h5
    | some v =>
      simp only []
      rcases h5 with h5 | ⟨e', he', h5⟩
      · cases h5
      · cases h5
        refine ⟨e'.1, (hmem e').mp he', Or.inr ?_⟩
        have hk' := hkne e' ((hmem e').mp he')
        by_cases hd : m < e'.1
        · left
          refine ⟨hm, hd, ?_⟩
          intro e he hlt
          have := h3 e ((hmem e).mpr he) (by omega)
          simp only [] at this; omega
        · right
          refine ⟨hm, ?_, ?_⟩
          · intro e he
            have hk := hkne e he
            have a := h3 e ((hmem e).mpr he)
            simp only [] at a; omega
          · intro e he
            have hk := hkne e he
            have a := h3 e ((hmem e).mpr he)
            have b := h4 e ((hmem e).mpr he)
            simp only [] at a b; omega

end Golib.C18
