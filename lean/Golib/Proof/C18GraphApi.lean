/-
The construction API of `Graph`: what the adjacency relation is after ANY sequence of
`AddNode` / `AddEdge` / `AddUndirectedEdge` calls — a function of the set of calls, not of
their order or multiplicity.
-/
import Golib.Model.C18GraphApi

namespace Golib.C18

/-- The arcs a call contributes. -/
def GOp.arc : GOp → Nat → Nat → Prop
  | .addNode _, _, _ => False
  | .addEdge a b, v, u => a = v ∧ b = u
  | .addUndirected a b, v, u => (a = v ∧ b = u) ∨ (b = v ∧ a = u)

/-- The nodes a call creates. -/
def GOp.node : GOp → Nat → Prop
  | .addNode x, v => x = v
  | .addEdge a _, v => a = v
  | .addUndirected a b, v => a = v ∨ b = v

theorem gLookup_append_single (g : GMap) (k v : Nat) (ns : List Nat) :
    gLookup (g ++ [(k, ns)]) v =
      match gLookup g v with
      | some x => some x
      | none => if k = v then some ns else none := by
  induction g with
  | nil => simp [gLookup]
  | cons e r ih =>
    obtain ⟨k', ns'⟩ := e
    simp only [List.cons_append, gLookup]
    split
    · rfl
    · exact ih

theorem gLookup_addNode (g : GMap) (x v : Nat) :
    gLookup (gAddNode g x) v =
      match gLookup g v with
      | some ns => some ns
      | none => if x = v then some [] else none := by
  unfold gAddNode
  cases h : gLookup g x with
  | some ns0 =>
    simp only []
    cases h2 : gLookup g v with
    | some _ => rfl
    | none =>
      simp only []
      by_cases hx : x = v
      · subst hx; rw [h] at h2; cases h2
      · simp [hx]
  | none =>
    simp only []
    exact gLookup_append_single g x v []

theorem gLookup_setAdd (g : GMap) (a b v : Nat) :
    gLookup (gSetAdd g a b) v =
      match gLookup g v with
      | none => none
      | some ns => if a = v then some (if ns.contains b then ns else b :: ns) else some ns := by
  induction g with
  | nil => simp [gSetAdd, gLookup]
  | cons e r ih =>
    obtain ⟨k, ns⟩ := e
    simp only [gSetAdd]
    by_cases hka : k = a
    · subst hka
      simp only [if_true, gLookup]
      by_cases hkv : k = v
      · subst hkv; simp
      · simp only [hkv, if_false]
        cases gLookup r v <;> simp
    · simp only [hka, if_false, gLookup]
      by_cases hkv : k = v
      · subst hkv
        have : ¬ a = k := fun h => hka h.symm
        simp [this]
      · simp only [hkv, if_false]
        exact ih

/-- The neighbour set of `v` after `AddEdge(a, b)`. -/
theorem gLookup_addEdge (g : GMap) (a b v : Nat) :
    gLookup (gAddEdge g a b) v =
      if a = v then
        some (if ((gLookup g v).getD []).contains b then (gLookup g v).getD []
              else b :: (gLookup g v).getD [])
      else gLookup g v := by
  unfold gAddEdge
  rw [gLookup_setAdd, gLookup_addNode]
  by_cases hav : a = v
  · subst hav
    cases h : gLookup g a with
    | some ns => simp
    | none => simp
  · cases h : gLookup g v with
    | some ns => simp [hav]
    | none => simp [hav]

theorem gNb_addNode (g : GMap) (x v u : Nat) : gNb (gAddNode g x) v u = gNb g v u := by
  simp only [gNb, gLookup_addNode]
  cases h : gLookup g v with
  | some _ => rfl
  | none =>
    simp only []
    by_cases hx : x = v <;> simp [hx]

theorem gIsNode_addNode (g : GMap) (x v : Nat) :
    gIsNode (gAddNode g x) v = (gIsNode g v || decide (x = v)) := by
  simp only [gIsNode, gLookup_addNode]
  cases h : gLookup g v with
  | some _ => simp
  | none =>
    simp only []
    by_cases hx : x = v <;> simp [hx]

theorem gNb_addEdge (g : GMap) (a b v u : Nat) :
    gNb (gAddEdge g a b) v u = (gNb g v u || (decide (a = v) && decide (b = u))) := by
  simp only [gNb, gLookup_addEdge]
  by_cases hav : a = v
  · subst hav
    simp only [if_true, decide_true, Bool.true_and]
    cases h : gLookup g a with
    | none =>
      simp only [Option.getD_none, List.contains_nil, Bool.false_eq_true, if_false,
        List.contains_cons, Bool.false_or, Bool.or_false]
      by_cases hbu : b = u
      · subst hbu; simp
      · have : (u == b) = false := by rw [beq_eq_false_iff_ne]; exact fun h => hbu h.symm
        simp [this, hbu]
    | some ns =>
      simp only [Option.getD_some]
      by_cases hc : ns.contains b = true
      · simp only [hc, if_true]
        by_cases hbu : b = u
        · subst hbu; rw [hc]; simp
        · simp [hbu]
      · simp only [hc, Bool.false_eq_true, if_false, List.contains_cons]
        by_cases hbu : b = u
        · subst hbu; simp
        · have : (u == b) = false := by rw [beq_eq_false_iff_ne]; exact fun h => hbu h.symm
          simp [this, hbu]
  · simp [hav]

theorem gIsNode_addEdge (g : GMap) (a b v : Nat) :
    gIsNode (gAddEdge g a b) v = (gIsNode g v || decide (a = v)) := by
  simp only [gIsNode, gLookup_addEdge]
  by_cases hav : a = v
  · simp [hav]
  · simp [hav]

theorem gNb_step (g : GMap) (op : GOp) (v u : Nat) :
    gNb (gStep g op) v u = true ↔ gNb g v u = true ∨ op.arc v u := by
  cases op with
  | addNode x => simp [gStep, gNb_addNode, GOp.arc]
  | addEdge a b => simp [gStep, gNb_addEdge, GOp.arc]
  | addUndirected a b =>
    simp only [gStep, gAddUndirectedEdge, gNb_addEdge, GOp.arc, Bool.or_eq_true, Bool.and_eq_true,
      decide_eq_true_eq]
    constructor
    · rintro ((h | h) | h)
      · exact Or.inl h
      · exact Or.inr (Or.inl h)
      · exact Or.inr (Or.inr h)
    · rintro (h | h | h)
      · exact Or.inl (Or.inl h)
      · exact Or.inl (Or.inr h)
      · exact Or.inr h

theorem gIsNode_step (g : GMap) (op : GOp) (v : Nat) :
    gIsNode (gStep g op) v = true ↔ gIsNode g v = true ∨ op.node v := by
  cases op with
  | addNode x => simp [gStep, gIsNode_addNode, GOp.node]
  | addEdge a b => simp [gStep, gIsNode_addEdge, GOp.node]
  | addUndirected a b =>
    simp only [gStep, gAddUndirectedEdge, gIsNode_addEdge, GOp.node, Bool.or_eq_true,
      decide_eq_true_eq]
    constructor
    · rintro ((h | h) | h)
      · exact Or.inl h
      · exact Or.inr (Or.inl h)
      · exact Or.inr (Or.inr h)
    · rintro (h | h | h)
      · exact Or.inl (Or.inl h)
      · exact Or.inl (Or.inr h)
      · exact Or.inr h

theorem gNb_foldl (ops : List GOp) : ∀ (g : GMap) (v u : Nat),
    gNb (ops.foldl gStep g) v u = true ↔ gNb g v u = true ∨ ∃ op ∈ ops, op.arc v u := by
  induction ops with
  | nil => intro g v u; simp
  | cons op r ih =>
    intro g v u
    rw [List.foldl_cons, ih, gNb_step]
    constructor
    · rintro ((h | h) | ⟨o, ho, h⟩)
      · exact Or.inl h
      · exact Or.inr ⟨op, by simp, h⟩
      · exact Or.inr ⟨o, List.mem_cons_of_mem _ ho, h⟩
    · rintro (h | ⟨o, ho, h⟩)
      · exact Or.inl (Or.inl h)
      · rcases List.mem_cons.mp ho with rfl | ho
        · exact Or.inl (Or.inr h)
        · exact Or.inr ⟨o, ho, h⟩

theorem gIsNode_foldl (ops : List GOp) : ∀ (g : GMap) (v : Nat),
    gIsNode (ops.foldl gStep g) v = true ↔ gIsNode g v = true ∨ ∃ op ∈ ops, op.node v := by
  induction ops with
  | nil => intro g v; simp
  | cons op r ih =>
    intro g v
    rw [List.foldl_cons, ih, gIsNode_step]
    constructor
    · rintro ((h | h) | ⟨o, ho, h⟩)
      · exact Or.inl h
      · exact Or.inr ⟨op, by simp, h⟩
      · exact Or.inr ⟨o, List.mem_cons_of_mem _ ho, h⟩
    · rintro (h | ⟨o, ho, h⟩)
      · exact Or.inl (Or.inl h)
      · rcases List.mem_cons.mp ho with rfl | ho
        · exact Or.inl (Or.inr h)
        · exact Or.inr ⟨o, ho, h⟩

theorem gNb_nil (v u : Nat) : gNb [] v u = false := rfl
theorem gIsNode_nil (v : Nat) : gIsNode [] v = false := rfl

theorem gNb_build (ops : List GOp) (v u : Nat) :
    gNb (gBuild ops) v u = true ↔ ∃ op ∈ ops, op.arc v u := by
  unfold gBuild
  rw [gNb_foldl]; simp [gNb_nil]

theorem gIsNode_build (ops : List GOp) (v : Nat) :
    gIsNode (gBuild ops) v = true ↔ ∃ op ∈ ops, op.node v := by
  unfold gBuild
  rw [gIsNode_foldl]; simp [gIsNode_nil]


/-! ### direct deletes in the exported map (`gDelNode`) -/

theorem gLookup_delNode (g : GMap) (v a : Nat) :
    gLookup (gDelNode g v) a
      = if a = v then none else (gLookup g a).map fun ns => ns.filter fun u => u != v := by
  induction g with
  | nil => simp [gDelNode, gLookup]
  | cons e r ih =>
    obtain ⟨k, ns⟩ := e
    unfold gDelNode at ih ⊢
    by_cases hk : k = v
    · subst hk
      by_cases ha : a = k
      · subst ha
        simpa [List.filter, gLookup] using ih
      · have : ¬ k = a := fun h => ha h.symm
        simpa [List.filter, gLookup, ha, this] using ih
    · have hk' : (k != v) = true := by simpa using hk
      by_cases ha : k = a
      · subst ha
        simp [List.filter, hk', gLookup, hk]
      · simpa [List.filter, hk', gLookup, ha] using ih

theorem gNb_delNode (g : GMap) (v a b : Nat) :
    gNb (gDelNode g v) a b = (gNb g a b && (a != v) && (b != v)) := by
  unfold gNb
  rw [gLookup_delNode]
  by_cases ha : a = v
  · simp [ha]
  · cases h : gLookup g a with
    | none => simp [ha]
    | some ns =>
      simp only [ha, if_false, Option.map_some]
      by_cases hb : b = v
      · simp [hb]
      · have ha' : (a != v) = true := by simpa using ha
        have hb' : (b != v) = true := by simpa using hb
        simp [hb, ha', hb', List.contains_eq_mem, List.mem_filter]

theorem gIsNode_delNode (g : GMap) (v a : Nat) :
    gIsNode (gDelNode g v) a = (gIsNode g a && (a != v)) := by
  unfold gIsNode
  rw [gLookup_delNode]
  by_cases ha : a = v
  · simp [ha]
  · cases h : gLookup g a <;> simp [ha]

end Golib.C18
