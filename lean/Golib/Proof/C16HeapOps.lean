/-
C16 helper lemmas, part 6: every writing method of the one-memory model computes, on the view
of its receiver, exactly what the by-value model (`C16Bits.lean`) computes, never panics on a
well-formed header, and is framed (writes only inside the receiver's backing array or into
fresh cells).
-/
import Golib.Proof.C16Heap

namespace Golib.C16

theorem hGrow_spec (grow : Nat → Nat → Nat) (H : Heap) (h : Hdr) (n : Nat) (hw : Wf H h) :
    (hGrow grow H h n).2.view (hGrow grow H h n).1 = (Bitmap.grow ⟨h.view H⟩ n).set ∧
    Frame H h (hGrow grow H h n).1 (hGrow grow H h n).2 := by
  have hvl := view_length H h hw
  unfold hGrow Bitmap.grow
  simp only [hvl]
  by_cases hc : n >>> 6 ≥ h.len
  · simp only [hc, if_true]
    obtain ⟨hv1, hf1, _⟩ := happend_spec grow H h (List.replicate (n >>> 6 + 1 - h.len) 0#64) hw
    exact ⟨hv1, hf1⟩
  · simp only [hc, if_false]
    exact ⟨trivial, Frame.refl H h hw⟩

theorem hAdd_spec (grow : Nat → Nat → Nat) (H : Heap) (h : Hdr) (num : Nat) (hw : Wf H h) :
    ∃ H' h' ch, hAdd grow H h num = some (H', h', ch) ∧
      Bitmap.add ⟨h.view H⟩ num = some (⟨h'.view H'⟩, ch) ∧ Frame H h H' h' := by
  have hvl := view_length H h hw
  unfold hAdd Bitmap.add
  simp only [hvl]
  by_cases hc : num >>> 6 ≥ h.len
  · simp only [hc, if_true]
    obtain ⟨hv1, hf1, hl1⟩ := happend_spec grow H h (List.replicate (num >>> 6 + 1 - h.len) 0#64) hw
    generalize happend grow H h (List.replicate (num >>> 6 + 1 - h.len) 0#64) = r at hv1 hf1 hl1 ⊢
    obtain ⟨H1, h1⟩ := r
    simp only [List.length_replicate] at hv1 hf1 hl1 ⊢
    have hidx : num >>> 6 < h1.len := by omega
    have hlen : (h.view H ++ List.replicate (num >>> 6 + 1 - h.len) 0#64).length = h1.len := by
      simp [hvl]; omega
    obtain ⟨w, hwd⟩ : ∃ w, (h.view H ++ List.replicate (num >>> 6 + 1 - h.len) 0#64)[num >>> 6]? = some w :=
      ⟨_, List.getElem?_eq_getElem (by omega)⟩
    rw [hrd_eq, hv1, hwd]
    simp only [setIdx, hlen, hidx, if_true]
    rw [hwr_some H1 h1 _ _ hf1.wf hidx]
    refine ⟨_, _, _, rfl, ?_, Frame.trans hw hf1 (hwr_frame H1 h1 _ _ hf1.wf hidx)⟩
    rw [view_set_in H1 h1 _ _ hf1.wf hidx, hv1]
  · simp only [hc, if_false]
    have hidx : num >>> 6 < h.len := by omega
    obtain ⟨w, hwd⟩ : ∃ w, (h.view H)[num >>> 6]? = some w :=
      ⟨_, List.getElem?_eq_getElem (by omega)⟩
    rw [hrd_eq, hwd]
    simp only []
    by_cases hb : (w &&& bitMask (num &&& 63)) == 0#64
    · simp only [hb, if_true, setIdx, hvl, hidx]
      rw [hwr_some H h _ _ hw hidx]
      refine ⟨_, _, _, rfl, ?_, hwr_frame H h _ _ hw hidx⟩
      rw [view_set_in H h _ _ hw hidx]
    · simp only [hb, Bool.false_eq_true, if_false]
      exact ⟨_, _, _, rfl, rfl, Frame.refl H h hw⟩

theorem hRemove_spec (H : Heap) (h : Hdr) (num : Nat) (hw : Wf H h) :
    ∃ H' ch, hRemove H h num = some (H', ch) ∧
      Bitmap.remove ⟨h.view H⟩ num = some (⟨h.view H'⟩, ch) ∧ Frame H h H' h := by
  have hvl := view_length H h hw
  unfold hRemove Bitmap.remove
  simp only [hvl]
  by_cases hidx : num >>> 6 < h.len
  · simp only [hidx, if_true]
    obtain ⟨w, hwd⟩ : ∃ w, (h.view H)[num >>> 6]? = some w :=
      ⟨_, List.getElem?_eq_getElem (by omega)⟩
    rw [hrd_eq, hwd]
    simp only []
    by_cases hb : (w &&& bitMask (num &&& 63)) != 0#64
    · simp only [hb, if_true, setIdx, hvl, hidx]
      rw [hwr_some H h _ _ hw hidx]
      refine ⟨_, _, rfl, ?_, hwr_frame H h _ _ hw hidx⟩
      rw [view_set_in H h _ _ hw hidx]
    · simp only [hb, Bool.false_eq_true, if_false]
      exact ⟨_, _, rfl, rfl, Frame.refl H h hw⟩
  · simp only [hidx, if_false]
    exact ⟨_, _, rfl, rfl, Frame.refl H h hw⟩

theorem hClone_spec (H : Heap) (h : Hdr) (hw : Wf H h) :
    (hClone H h).2.view (hClone H h).1 = (Bitmap.clone ⟨h.view H⟩).set ∧
    (hClone H h).1.length = H.length + h.len ∧ H.length ≤ (hClone H h).2.base ∧
    Wf (hClone H h).1 (hClone H h).2 ∧
    (∀ p, p < H.length → (hClone H h).1[p]? = H[p]?) := by
  have hvl := view_length H h hw
  unfold hClone Bitmap.clone
  simp only [List.map_id]
  refine ⟨?_, by simp [hvl], Nat.le_refl _, by unfold Wf; simp [hvl], ?_⟩
  · apply List.ext_getElem?; intro k
    simp only [view_getElem?, List.getElem?_append]
    by_cases hk : k < h.len
    · simp [hk]; omega
    · simp only [hk, if_false, view_getElem?]
  · intro p hp
    rw [List.getElem?_append_left hp]

end Golib.C16
