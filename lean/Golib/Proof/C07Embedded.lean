/-
C07: a well-formed escape between backslash-free text is replaced by what it denotes and
the surrounding text is preserved (functional level); digit-string facts for `parseUint`.
-/
import Golib.Proof.C07Escape

namespace Golib.C07
open Golib

theorem parseUint_digits {X : Bytes} {base bits : Nat} (hb1 : 2 ≤ base) (hb2 : base ≤ 36)
    (hbits : bits ≤ 64) (hd : ∀ c ∈ X, isDigit base c = true) (hv : valOf base X ≤ 2 ^ bits - 1) :
    parseUint X base bits = (valOf base X, X.length, true) := by
  rw [parseUint_eq_spec hb1 hb2 hbits, specLoop_ok (by omega) X 0 0 hd hv]
  simp [valOf]

theorem accVal_lt {base : Nat} (hb : 1 ≤ base) : ∀ (X : Bytes) (n : Nat),
    (∀ c ∈ X, isDigit base c = true) → accVal base X n < (n + 1) * base ^ X.length
  | [], n, _ => by simp [accVal]
  | c :: r, n, hd => by
    have hc := hd c (by simp)
    unfold isDigit at hc
    cases hdv : digitVal c with
    | none => rw [hdv] at hc; simp at hc
    | some d =>
      rw [hdv] at hc
      simp only [decide_eq_true_eq] at hc
      have ih := accVal_lt hb r (n * base + d) (fun c' hc' => hd c' (by simp [hc']))
      simp only [accVal, hdv, Option.getD_some, List.length_cons]
      have h1 : n * base + d + 1 ≤ (n + 1) * base := by
        rw [Nat.add_mul, Nat.one_mul]; omega
      calc accVal base r (n * base + d) < (n * base + d + 1) * base ^ r.length := ih
        _ ≤ ((n + 1) * base) * base ^ r.length := Nat.mul_le_mul_right _ h1
        _ = (n + 1) * base ^ (r.length + 1) := by rw [Nat.mul_assoc, Nat.pow_succ, Nat.mul_comm base]

theorem valOf_lt {base : Nat} (hb : 1 ≤ base) (X : Bytes) (hd : ∀ c ∈ X, isDigit base c = true) :
    valOf base X < base ^ X.length := by
  have := accVal_lt hb X 0 hd
  simpa [valOf] using this

/-- pre ++ esc ++ post with backslash-free `pre`, `post`. -/
theorem embedded {dec : Bytes → Dec} {w : Nat} (hl : LitSpec dec w) (hh : HeadLit dec)
    {pre esc den post : Bytes} (hstep : ∀ r, parseFun dec (esc ++ r) = den ++ parseFun dec r)
    (h1 : 92 ∉ pre) (h2 : 92 ∉ post) :
    parseFun dec (pre ++ esc ++ post) = pre ++ den ++ post := by
  rw [List.append_assoc, parseFun_lit_prefix hl pre _ h1, hstep, parseFun_no_backslash hh post h2,
    List.append_assoc]

end Golib.C07
