/-
C10 — tie between the definitions `go2lean` regenerates from `ringz/ring.go` on every run
(`Golib/Gen/TransC10.lean`: `Ring T`, `Ring_IsEmpty`, `Ring_IsFull`, `Ring_Len`, `Ring_Cap`,
`Ring_Push`, `Ring_Pop`, `Ring_Peek`, `Ring_Init`, `Ring_Recap`, `Ring_PushWithExpand`, `New`, at\n`T := Int`) and the hand-written model
`Golib.C10.Ring` (`Golib/Model/C10Ring.lean`) all `c10_ring_*` theorems are about.

Abstraction: `toM`/`ofM` copy the four fields (the generated structure and the model's have the
same shape; element type `Int`, zero value `default = 0`); `ofOpt` reads the model's `none`
as a Go panic.  Every tie is UNCONDITIONAL (no well-formedness hypothesis): also on states that
violate the ring invariant (the zero value, cursors out of range) the translated code and the
model take the same branch, panic at the same index expression, and return the same state.

The scripts are written to survive harmless rewrites of the Go text: they never `split` along
the shape of the generated term; they case on the SEMANTIC conditions (`cap = 0`, `head = -1`,
full, `head = tail`), replace each Go-level slice operation by the model's through a bridge
lemma (`goIdx_eq`, `goSetIdx_eq`), generalise its outcome and let `simp` close every branch.
-/
import Golib.Gen.TransC10
import Golib.Model.C10Ring

set_option linter.unusedSimpArgs false
set_option linter.unusedVariables false

namespace Golib.C10
open Golib.GoSem

/-- `none` of the hand-written model = a Go panic. -/
def ofOpt {α : Type} : Option α → Res α
  | some a => .ok a
  | none => .panic

@[simp] theorem ofOpt_some {α : Type} (a : α) : ofOpt (some a) = .ok a := rfl
@[simp] theorem ofOpt_none {α : Type} : ofOpt (none : Option α) = .panic := rfl

/-- The generated structure (at `T := Int`). -/
abbrev GRing := Golib.Gen.Trans.C10.Ring Int

/-- abstraction: generated structure ↦ model structure, field by field. -/
def toM (r : GRing) : Ring := { values := r.values, head := r.head, tail := r.tail, cap := r.cap }
/-- and back. -/
def ofM (r : Ring) : GRing := { values := r.values, head := r.head, tail := r.tail, cap := r.cap }

@[simp] theorem toM_ofM (r : Ring) : toM (ofM r) = r := rfl
@[simp] theorem ofM_toM (r : GRing) : ofM (toM r) = r := rfl

/-! ### bridge lemmas: the Go-level slice operations of `GoSem` are the model's -/

theorem goIdx_eq (s : List Int) (i : Int) : GoSem.idx s i = ofOpt (Golib.C10.idx s i) := by
  unfold GoSem.idx Golib.C10.idx
  by_cases h : i < 0
  · have : ¬ 0 ≤ i := by omega
    simp [h, this]
  · have : 0 ≤ i := by omega
    simp only [h, this, if_true, if_false]
    cases s[i.toNat]? <;> rfl

theorem goSetIdx_eq (s : List Int) (i v : Int) :
    GoSem.setIdx s i v = ofOpt (Golib.C10.setIdx s i v) := by
  unfold GoSem.setIdx Golib.C10.setIdx
  by_cases h : i < 0
  · have : ¬ 0 ≤ i := by omega
    simp [h, this]
  · have : 0 ≤ i := by omega
    by_cases h2 : i.toNat < s.length <;> simp [h, this, h2]

theorem goSlice_eq (s : List Int) (a b : Int) :
    GoSem.slice s a b = ofOpt (Golib.C10.slice s a b) := by
  unfold GoSem.slice Golib.C10.slice
  by_cases h : a < 0 ∨ b < a ∨ (s.length : Int) < b
  · have : ¬ (0 ≤ a ∧ a ≤ b ∧ b.toNat ≤ s.length) := by omega
    simp only [h, this, if_true, if_false, ofOpt_none]
  · have : (0 ≤ a ∧ a ≤ b ∧ b.toNat ≤ s.length) := by omega
    simp only [h, this, and_self, if_true, if_false, ofOpt_some, List.drop_take]

theorem default_int : (default : Int) = 0 := rfl

/-! ### the ties

One script for all of them: unfold the generated definition(s) and the model's, replace the
Go-level slice operations by the model's (bridge lemmas), make `%` opaque (`tmod_tm`), and let
`grind` do the case analysis on the conditions of both sides (it closes branches by congruence
and linear arithmetic, so the order of tests, `a == b` vs `b == a`, `<` vs `!(>=)`, renamed or
extra locals and inlined helper calls do not matter). -/

/-- Go's `%` on `int` as an uninterpreted function for the case analysis (`grind` would
otherwise rewrite `Int.tmod` into `Int.emod` and a case split on signs). -/
def tm (a b : Int) : Int := Int.tmod a b
theorem tmod_tm (a b : Int) : Int.tmod a b = tm a b := rfl

open Golib.Gen.Trans.C10 in
theorem trans_Ring_IsEmpty (r : GRing) : Ring_IsEmpty r = .ok (toM r).isEmpty := by
  obtain ⟨vs, h, t, c⟩ := r
  simp only [Ring_IsEmpty, Ring.isEmpty, toM, bind, pure] <;>
    grind [ofOpt, Res.bind, ofM, toM]

open Golib.Gen.Trans.C10 in
theorem trans_Ring_IsFull (r : GRing) : Ring_IsFull r = ofOpt (toM r).isFull? := by
  obtain ⟨vs, h, t, c⟩ := r
  simp only [Ring_IsFull, Ring.isFull?, Ring.isFull, toM, intMod, tmod_tm, bind, pure] <;>
    grind [ofOpt, Res.bind, ofM, toM]

open Golib.Gen.Trans.C10 in
theorem trans_Ring_Cap (r : GRing) : Ring_Cap r = .ok (toM r).cap := by
  obtain ⟨vs, h, t, c⟩ := r
  simp only [Ring_Cap, toM, bind, pure]

open Golib.Gen.Trans.C10 in
theorem trans_Ring_Len (r : GRing) : Ring_Len r = .ok (toM r).len := by
  obtain ⟨vs, h, t, c⟩ := r
  simp only [Ring_Len, Ring_IsEmpty, Ring.len, Ring.isEmpty, toM, bind, pure] <;>
    grind [ofOpt, Res.bind, ofM, toM]

open Golib.Gen.Trans.C10 in
theorem trans_Ring_Push (r : GRing) (v : Int) :
    Ring_Push r v = ofOpt (((toM r).push v).map fun p => (p.2, ofM p.1)) := by
  obtain ⟨vs, h, t, c⟩ := r
  simp only [Ring_Push, Ring_IsFull, Ring_IsEmpty, Ring.push, Ring.isFull, Ring.isEmpty, toM, ofM,
    intMod, tmod_tm, goSetIdx_eq, bind, pure] <;>
    grind [ofOpt, Res.bind, ofM, toM]

open Golib.Gen.Trans.C10 in
theorem trans_Ring_Pop (r : GRing) :
    Ring_Pop r = ofOpt ((toM r).pop.map fun p => ((p.2.1, p.2.2), ofM p.1)) := by
  obtain ⟨vs, h, t, c⟩ := r
  simp only [Ring_Pop, Ring_IsEmpty, Ring.pop, Ring.isEmpty, toM, ofM, intMod, tmod_tm, goIdx_eq,
    goSetIdx_eq, default_int, bind, pure] <;>
    grind [ofOpt, Res.bind, ofM, toM]

open Golib.Gen.Trans.C10 in
theorem trans_Ring_Peek (r : GRing) : Ring_Peek r = ofOpt (toM r).peek := by
  obtain ⟨vs, h, t, c⟩ := r
  simp only [Ring_Peek, Ring_IsEmpty, Ring.peek, Ring.isEmpty, toM, goIdx_eq, default_int, bind, pure] <;>
    grind [ofOpt, Res.bind, ofM, toM]

open Golib.Gen.Trans.C10 in
/-- `Init` overwrites all four fields: the result does not depend on the receiver's old state. -/
theorem trans_Ring_Init (r : GRing) (cap : Int) :
    Ring_Init r cap = ofOpt ((Ring.init? cap).map ofM) := by
  obtain ⟨vs, h, t, c⟩ := r
  simp only [Ring_Init, Ring.init?, makeSlice, ofM, default_int, bind, pure] <;>
    grind [ofOpt, Res.bind, ofM, toM]

/-! ### `Recap` / `PushWithExpand`: the copy of the (possibly wrapped) region -/

/-- `GoSem.copySlice` (Go's `copy` on values) is the model's `copyInto`. -/
theorem goCopySlice_eq (dst src : List Int) :
    GoSem.copySlice dst src = ((copyInto dst src).1, ((copyInto dst src).2 : Int)) := by
  simp only [GoSem.copySlice, copyInto, Int.ofNat_eq_natCast]
  congr 2
  · by_cases h : dst.length ≤ src.length
    · rw [Nat.min_eq_left h]
    · rw [Nat.min_eq_right (by omega), List.take_of_length_le (by omega), List.take_of_length_le (by omega)]
  · by_cases h : dst.length ≤ src.length
    · rw [Nat.min_eq_left h, List.drop_of_length_le h, List.drop_of_length_le (Nat.le_refl _)]
    · rw [Nat.min_eq_right (by omega)]

theorem copyInto_fst_length (dst src : List Int) : (copyInto dst src).1.length = dst.length := by
  simp only [copyInto, List.length_append, List.length_take, List.length_drop]
  omega

theorem copyInto_snd (dst src : List Int) : (copyInto dst src).2 = min dst.length src.length := rfl

/-- `copy(dst[a:], src)` (write-through): panics like `dst[a:]`, otherwise the cells from `a` on
are overwritten as by the model's `take a ++ copyInto (drop a) src`. -/
theorem goCopyAt_eq (dst : List Int) (a : Nat) (src : List Int) :
    GoSem.copyAt dst (a : Int) (dst.length : Int) src =
      if dst.length < a then .panic
      else .ok (dst.take a ++ (copyInto (dst.drop a) src).1, ((copyInto (dst.drop a) src).2 : Int)) := by
  rw [GoSem.copyAt_natCast]
  by_cases h : dst.length < a
  · simp [h]
  · have h' : ¬ (dst.length < a ∨ dst.length < dst.length) := by omega
    have h'' : ¬ ((a : Int) > dst.length) := by omega
    simp [h, h', goCopySlice_eq]

/-- a `bind` distributes over an `if` (used to flatten the translated term before the case analysis). -/
theorem Res.bind_ite {α β : Type} (c : Prop) [Decidable c] (a b : Res α) (f : α → Res β) :
    (if c then a else b).bind f = if c then a.bind f else b.bind f := by
  split <;> rfl

open Golib.Gen.Trans.C10 in
theorem trans_Ring_Recap (r : GRing) (cap : Int) :
    Ring_Recap r cap = ofOpt (((toM r).recap cap).map fun p => (p.2, ofM p.1)) := by
  obtain ⟨vs, h, t, c⟩ := r
  simp only [Ring_Recap, Ring_Len, Ring_IsEmpty, Ring.recap, Ring.len, Ring.isEmpty, toM, ofM,
    makeSlice, goSlice_eq, goCopySlice_eq, goCopyAt_eq, default_int, Int.ofNat_eq_natCast, bind, pure, Res.bind_ok', Res.bind_panic',
    Res.bind_ite] <;>
    grind (splits := 20) [cases Option, ofOpt, Res.bind, ofM, toM, copyInto_fst_length, copyInto_snd]

/-! `PushWithExpand` is tied COMPOSITIONALLY: its callees `IsFull`, `Recap`, `Push` are replaced by
the model's through their own ties (so this script does not depend on how they are written), both
sides are brought into the same normal form (a chain of `bind`s) and compared. -/

theorem Res.bind_assoc' {α β γ : Type} (x : Res α) (f : α → Res β) (g : β → Res γ) :
    (x.bind f).bind g = x.bind fun a => (f a).bind g := by
  cases x <;> rfl

theorem ofOpt_map {α β : Type} (f : α → β) (o : Option α) :
    ofOpt (o.map f) = (ofOpt o).bind fun a => .ok (f a) := by
  cases o <;> rfl

theorem ofOpt_bind {α β : Type} (f : α → Option β) (o : Option α) :
    ofOpt (o.bind f) = (ofOpt o).bind fun a => ofOpt (f a) := by
  cases o <;> rfl

theorem ofOpt_ite {α : Type} (c : Prop) [Decidable c] (a b : Option α) :
    ofOpt (if c then a else b) = if c then ofOpt a else ofOpt b := by
  split <;> rfl

/-- the model's `pushWithExpand` as a chain of `bind`s (about the hand-written model only). -/
theorem pushWithExpand_eq (r : Ring) (v : Int) :
    r.pushWithExpand v =
      if r.cap = 0 then none
      else if r.isFull = true then
        (r.recap (r.cap * 2)).bind fun p => (p.1.push v).map fun q => q.1
      else (r.push v).map fun q => q.1 := by
  unfold Ring.pushWithExpand
  by_cases hc : r.cap = 0
  · simp [hc]
  by_cases hf : r.isFull = true
  · simp only [hc, hf, if_true, if_false]
    cases r.recap (r.cap * 2) <;> rfl
  · simp only [hc, hf, if_false]; rfl

open Golib.Gen.Trans.C10 in
theorem trans_Ring_PushWithExpand (r : GRing) (v : Int) :
    Ring_PushWithExpand r v = ofOpt (((toM r).pushWithExpand v).map ofM) := by
  simp only [Ring_PushWithExpand, trans_Ring_IsFull, trans_Ring_Recap, trans_Ring_Push,
    pushWithExpand_eq, Ring.isFull?, toM_ofM, bind, pure]
  simp only [toM_ofM, ofOpt_map, ofOpt_bind, ofOpt_ite, ofOpt_some, ofOpt_none, Res.bind_assoc',
    Res.bind_ite, Res.bind_ok', Res.bind_panic']
  obtain ⟨vs, h, t, c⟩ := r
  simp only [toM] <;>
    grind (splits := 20) [ofOpt, Res.bind, ofM, toM]

open Golib.Gen.Trans.C10 in
/-- `New(cap)` = `Init` on the zero value (compositional: through the tie of `Init`). -/
theorem trans_New (cap : Int) :
    New (T := Int) cap = ofOpt ((Ring.init? cap).map ofM) := by
  simp only [New, trans_Ring_Init, bind, pure, ofOpt_map, Res.bind_assoc', Res.bind_ok'] <;>
    grind [ofOpt, Res.bind, ofM, toM]

end Golib.C10
