/-
One specification function for `ParseUint` over ALL arguments (any string, any Go `int` base
and bit size), and the theorem that the code-mirroring model equals it everywhere.  It glues
`parseUint_total_explicit`, `parseUint_total_base0` and the argument checks, so that
"for every string, base and bit size" is a single statement.

The specification does not mention the digit loop, the cut-off or wrapped arithmetic: it is
phrased with the positional value `natValue` of the longest acceptable prefix.
-/
import Golib.Proof.C15Parse

namespace Golib.C15

/-- What `strconv.ParseUint(s, base, bitSize)` returns (value, error class):
1. empty string: syntax error; 2. base not 0 and not in 2..36: base error; 3. bit size not in
0..64: bit-size error; otherwise, with `maxVal = 2^bits - 1` (`bits = 64` for bit size 0), the
effective base `b` and the digits `body` (for base 0 after the `0x/0o/0b/0` prefix handling),
`pre` the longest prefix of `body` consisting of digits `< b` (and underscores under base 0):
4. the digits of `pre` exceed `maxVal`: `(maxVal, range)`; 5. a character remains after `pre`:
syntax error; 6. base 0 with underscores that are not digit separators: syntax error;
7. otherwise the value of the digits. -/
def parseUintSpec (s : List Nat) (base bitSize : Int) : Nat × PErr :=
  if s = [] then (0, .syntax)
  else if ¬ (base = 0 ∨ (2 ≤ base ∧ base ≤ 36)) then (0, .base)
  else if bitSize < 0 ∨ bitSize > 64 then (0, .bitSize)
  else
    let maxVal := 2 ^ effBits bitSize.toNat - 1
    if base = 0 then
      let b := (base0Prefix s).1
      let body := (base0Prefix s).2
      let pre := body.takeWhile (okChar0 b)
      if natValue b (stripUnderscores pre) ≤ maxVal then
        if pre.length < body.length then (0, .syntax)
        else if body.contains 95 = true ∧ underscoreOK s = false then (0, .syntax)
        else (natValue b (stripUnderscores body), .ok)
      else (maxVal, .range)
    else
      let b := base.toNat
      let pre := s.takeWhile (okDigit b)
      if natValue b pre ≤ maxVal then
        if pre.length < s.length then (0, .syntax)
        else (natValue b s, .ok)
      else (maxVal, .range)

theorem parseUint_eq_spec (s : List Nat) (base bitSize : Int) :
    parseUint s base bitSize = parseUintSpec s base bitSize := by
  unfold parseUintSpec
  by_cases hs : s = []
  · subst hs; simp [parseUint_empty]
  · rw [if_neg hs]
    by_cases hb : base = 0 ∨ (2 ≤ base ∧ base ≤ 36)
    · rw [if_neg (fun h => h hb)]
      by_cases hbits : bitSize < 0 ∨ bitSize > 64
      · rw [if_pos hbits]
        exact parseUint_bad_bitSize s base bitSize hs (hb.symm) hbits
      · rw [if_neg hbits]
        obtain ⟨n, rfl⟩ := Int.eq_ofNat_of_zero_le (show 0 ≤ bitSize by omega)
        have hn : n ≤ 64 := by omega
        simp only [Int.toNat_natCast]
        by_cases hb0 : base = 0
        · subst hb0
          rw [if_pos rfl]
          exact parseUint_total_base0 s n hn hs
        · rw [if_neg hb0]
          have hb' : 2 ≤ base ∧ base ≤ 36 := by rcases hb with h | h; exact absurd h hb0; exact h
          obtain ⟨b, rfl⟩ := Int.eq_ofNat_of_zero_le (show 0 ≤ base by omega)
          simp only [Int.toNat_natCast]
          exact parseUint_total_explicit s b n (by omega) (by omega) hn hs
    · rw [if_pos hb]
      exact parseUint_bad_base s base bitSize hs (fun h => hb (Or.inr h)) (fun h => hb (Or.inl h))

end Golib.C15
