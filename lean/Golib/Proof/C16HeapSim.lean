/-
C16 helper lemmas, part 8: the one-memory MACHINE (`hstep1`) refines the by-value specification
machine (`step`) step by step, under the invariant that all register headers are well-formed
and their backing arrays pairwise disjoint — an invariant that every step re-establishes.
-/
import Golib.Proof.C16HeapBulk

namespace Golib.C16
open Golib.Proto

/-- all headers inside the heap, backing arrays of different registers pairwise disjoint -/
structure HInv (s : HSt) : Prop where
  wf : ∀ (r : Nat) (o : HObj), s.regs[r]? = some o → Wf s.heap o.hdr
  disj : ∀ (i j : Nat) (oi oj : HObj), i ≠ j → s.regs[i]? = some oi → s.regs[j]? = some oj → Disj oi.hdr oj.hdr

theorem abs_congr (H H' : Heap) (o : HObj) (h : o.hdr.view H' = o.hdr.view H) : o.abs H' = o.abs H := by
  unfold HObj.abs; rw [h]

theorem abs_regs_get (s : HSt) (r : Nat) : s.abs.regs[r]? = (s.regs[r]?).map (HObj.abs s.heap) := by
  simp [HSt.abs]

/-- The register-update step shared by all writing operations: the receiver register `a`
(header `oa.hdr`) made a framed call and is replaced by `o'`.  Then the invariant holds again,
the by-value view of the machine is `setReg` on the old one, and every other register has the
same header, the same cached length and reads the same words as before. -/
theorem update_reg (s : HSt) (a : Nat) (oa o' : HObj) (H' : Heap) (hi : HInv s)
    (ha : s.regs[a]? = some oa) (hf : Frame s.heap oa.hdr H' o'.hdr) :
    let s' : HSt := { s with heap := H', regs := s.regs.set a o' }
    HInv s' ∧ s'.abs = setReg s.abs a (o'.abs H') ∧
    (∀ (r : Nat) (o : HObj), some a ≠ some r → s.regs[r]? = some o →
      s'.regs[r]? = some o ∧ o.hdr.view H' = o.hdr.view s.heap) := by
  have halt : a < s.regs.length := by
    rcases Nat.lt_or_ge a s.regs.length with h | h
    · exact h
    · rw [List.getElem?_eq_none h] at ha; cases ha
  have hother : ∀ r o, r ≠ a → s.regs[r]? = some o →
      o.hdr.view H' = o.hdr.view s.heap ∧ Wf H' o.hdr ∧ Disj o'.hdr o.hdr := fun r o hra hr =>
    hf.other (hi.wf r o hr) (hi.disj a r oa o (Ne.symm hra) ha hr)
  refine ⟨⟨?_, ?_⟩, ?_, ?_⟩
  · intro r o hr
    simp only [List.getElem?_set] at hr
    by_cases hra : a = r
    · subst hra; simp only [if_true, halt] at hr; cases hr; exact hf.wf
    · simp only [hra, if_false] at hr
      exact (hother r o (Ne.symm hra) hr).2.1
  · intro i j oi oj hij hri hrj
    simp only [List.getElem?_set] at hri hrj
    by_cases hai : a = i
    · subst hai
      have haj : ¬ a = j := hij
      simp only [if_true, halt] at hri; cases hri
      simp only [haj, if_false] at hrj
      exact (hother j oj (Ne.symm haj) hrj).2.2
    · simp only [hai, if_false] at hri
      by_cases haj : a = j
      · subst haj
        simp only [if_true, halt] at hrj; cases hrj
        exact (hother i oi (Ne.symm hai) hri).2.2.symm
      · simp only [haj, if_false] at hrj
        exact hi.disj i j oi oj hij hri hrj
  · simp only [HSt.abs, setReg, List.map_set]
    congr 1
    apply List.ext_getElem?; intro k
    simp only [List.getElem?_set, List.getElem?_map, List.length_map]
    by_cases hak : a = k
    · simp [hak]
    · simp only [hak, if_false]
      cases hk : s.regs[k]? with
      | none => rfl
      | some o => simp only [Option.map_some]; rw [abs_congr _ _ o (hother k o (Ne.symm hak) hk).1]
  · intro r o hra hr
    have hra : r ≠ a := fun h => hra (by rw [h])
    refine ⟨?_, (hother r o hra hr).1⟩
    simp only [List.getElem?_set, Ne.symm hra, if_false]; exact hr

/-- which register an operation may write -/
def Op.target : Op → Option Nat
  | .add r _ | .remove r _ | .grow r _ => some r
  | .clone d _ => some d
  | .diff a _ | .intersect a _ | .merge a _ => some a
  | .addn r _ _ _ | .removen r _ _ _ => some r
  | .reseq r _ _ _ => some r
  | _ => none

/-- how a result of the one-memory machine corresponds to a result of the by-value machine:
same verdict, same printed line, the by-value view of the new state is the new by-value
state, the invariant holds again, and every register other than the target `tgt` has the same
header and reads the same words as before -/
def Sim (tgt : Option Nat) (s : HSt) (hr : HRes) (r : Res) : Prop :=
  match hr, r with
  | .bad, .bad => True
  | .panic, .panic => True
  | .ok s' out, .ok t out' => out = out' ∧ s'.abs = t ∧ HInv s' ∧
      (∀ (r : Nat) (o : HObj), tgt ≠ some r → s.regs[r]? = some o →
        s'.regs[r]? = some o ∧ o.hdr.view s'.heap = o.hdr.view s.heap)
  | _, _ => False

theorem sim_add (grow : Nat → Nat → Nat) (s : HSt) (r n : Nat) (hi : HInv s) :
    Sim (some r) s (hstep1 grow s (.add r n)) (step1 s.abs (.add r n)) := by
  simp only [hstep1, step1, abs_regs_get]
  cases hr : s.regs[r]? with
  | none => simp [Sim]
  | some o =>
    obtain ⟨H', h', ch, hadd, hspec, hf⟩ := hAdd_spec grow s.heap o.hdr n (hi.wf r o hr)
    simp only [Option.map_some, hadd]
    obtain ⟨k, hd, len⟩ := o
    cases k
    · obtain ⟨hinv, habs, hoth⟩ := update_reg s r ⟨.bits, hd, len⟩ ⟨.bits, h', if ch then len + 1 else len⟩ H' hi hr hf
      simp only [HObj.abs, Bits.add, hspec] at habs ⊢
      cases ch <;> simp only [Bool.false_eq_true, if_false, if_true] at hinv habs <;>
        (simp [Sim, hinv, habs] <;> exact fun r1 o h1 h2 => hoth r1 o (by simpa using h1) h2)
    · obtain ⟨hinv, habs, hoth⟩ := update_reg s r ⟨.bitmap, hd, len⟩ ⟨.bitmap, h', len⟩ H' hi hr hf
      simp only [HObj.abs, hspec] at habs ⊢
      (simp [Sim, hinv, habs] <;> exact fun r1 o h1 h2 => hoth r1 o (by simpa using h1) h2)
    · obtain ⟨hinv, habs, hoth⟩ := update_reg s r ⟨.dsz, hd, len⟩ ⟨.dsz, h', if ch then len + 1 else len⟩ H' hi hr hf
      simp only [HObj.abs, DBits.add_eq, DBits.toBits, Bits.add, hspec] at habs ⊢
      cases ch <;> simp only [Bool.false_eq_true, if_false, if_true] at hinv habs <;>
        (simp [Sim, hinv, habs, Bits.toD] <;> exact fun r1 o h1 h2 => hoth r1 o (by simpa using h1) h2)

theorem sim_remove (grow : Nat → Nat → Nat) (s : HSt) (r n : Nat) (hi : HInv s) :
    Sim (some r) s (hstep1 grow s (.remove r n)) (step1 s.abs (.remove r n)) := by
  simp only [hstep1, step1, abs_regs_get]
  cases hr : s.regs[r]? with
  | none => simp [Sim]
  | some o =>
    obtain ⟨H', ch, hrem, hspec, hf⟩ := hRemove_spec s.heap o.hdr n (hi.wf r o hr)
    simp only [Option.map_some, hrem]
    obtain ⟨k, hd, len⟩ := o
    cases k
    · obtain ⟨hinv, habs, hoth⟩ := update_reg s r ⟨.bits, hd, len⟩ ⟨.bits, hd, if ch then len - 1 else len⟩ H' hi hr hf
      simp only [HObj.abs, Bits.remove, hspec] at habs ⊢
      cases ch <;> simp only [Bool.false_eq_true, if_false, if_true] at hinv habs <;>
        (simp [Sim, hinv, habs] <;> exact fun r1 o h1 h2 => hoth r1 o (by simpa using h1) h2)
    · obtain ⟨hinv, habs, hoth⟩ := update_reg s r ⟨.bitmap, hd, len⟩ ⟨.bitmap, hd, len⟩ H' hi hr hf
      simp only [HObj.abs, hspec] at habs ⊢
      (simp [Sim, hinv, habs] <;> exact fun r1 o h1 h2 => hoth r1 o (by simpa using h1) h2)
    · obtain ⟨hinv, habs, hoth⟩ := update_reg s r ⟨.dsz, hd, len⟩ ⟨.dsz, hd, if ch then len - 1 else len⟩ H' hi hr hf
      simp only [HObj.abs, DBits.remove_eq, DBits.toBits, Bits.remove, hspec] at habs ⊢
      cases ch <;> simp only [Bool.false_eq_true, if_false, if_true] at hinv habs <;>
        (simp [Sim, hinv, habs, Bits.toD] <;> exact fun r1 o h1 h2 => hoth r1 o (by simpa using h1) h2)

theorem DBits.grow_set (len : Int) (ws : List W) (n : Nat) :
    DBits.grow ⟨len, ws⟩ n = ⟨len, (Bitmap.grow ⟨ws⟩ n).set⟩ := by
  simp only [DBits.grow, Bitmap.grow]
  by_cases h : n >>> 6 ≥ ws.length <;> simp only [h, if_true, if_false]

theorem sim_grow (grow : Nat → Nat → Nat) (s : HSt) (r n : Nat) (hi : HInv s) :
    Sim (some r) s (hstep1 grow s (.grow r n)) (step1 s.abs (.grow r n)) := by
  simp only [hstep1, step1, abs_regs_get]
  cases hr : s.regs[r]? with
  | none => simp [Sim]
  | some o =>
    obtain ⟨hspec, hf⟩ := hGrow_spec grow s.heap o.hdr n (hi.wf r o hr)
    simp only [Option.map_some]
    obtain ⟨k, hd, len⟩ := o
    obtain ⟨hinv, habs, hoth⟩ := update_reg s r ⟨k, hd, len⟩ ⟨k, (hGrow grow s.heap hd n).2, len⟩ _ hi hr hf
    cases k <;> simp only [HObj.abs, hspec, DBits.grow_set] at habs ⊢ <;> (simp [Sim, hinv, habs] <;> exact fun r1 o h1 h2 => hoth r1 o (by simpa using h1) h2)

theorem sim_clone (grow : Nat → Nat → Nat) (s : HSt) (d src : Nat) (hi : HInv s) :
    Sim (some d) s (hstep1 grow s (.clone d src)) (step1 s.abs (.clone d src)) := by
  simp only [hstep1, step1, abs_regs_get]
  cases hd : s.regs[d]? with
  | none => simp [Sim]
  | some od =>
    cases hs : s.regs[src]? with
    | none =>
      obtain ⟨k, h, len⟩ := od
      cases k <;> simp [Sim, HObj.abs]
    | some os =>
      obtain ⟨hv, hlen, hbase, hwf, hkeep⟩ := hClone_spec s.heap os.hdr (hi.wf src os hs)
      have hf : Frame s.heap od.hdr (hClone s.heap os.hdr).1 (hClone s.heap os.hdr).2 :=
        ⟨by omega, fun p hp _ => hkeep p hp, .inr hbase, hwf⟩
      obtain ⟨kd, hdd, lend⟩ := od
      obtain ⟨ks, hds, lens⟩ := os
      obtain ⟨hinv, habs, hoth⟩ := update_reg s d ⟨kd, hdd, lend⟩ ⟨kd, (hClone s.heap hds).2, lend⟩ _ hi hd hf
      cases kd <;> cases ks <;>
        simp only [HObj.abs, Option.map_some, hv, Bitmap.clone, List.map_id] at habs ⊢ <;>
        (simp [Sim, hinv, habs] <;> exact fun r1 o h1 h2 => hoth r1 o (by simpa using h1) h2)

/-- the header copy passed as `other` is the receiver's own header or disjoint from it -/
theorem other_hdr (s : HSt) (a b : Nat) (oa ob : HObj) (hi : HInv s)
    (ha : s.regs[a]? = some oa) (hb : s.regs[b]? = some ob) :
    ob.hdr = oa.hdr ∨ Disj oa.hdr ob.hdr := by
  by_cases hab : a = b
  · subst hab; rw [ha] at hb; cases hb; exact .inl rfl
  · exact .inr (hi.disj a b oa ob hab ha hb)

/-- generic bulk step: `f` is `Diff`/`Intersect`/`Merge` on the heap, `fw` the word-list
function it computes -/
theorem sim_bulk (s : HSt) (a b : Nat) (hi : HInv s)
    (f : Heap → Hdr → Hdr → Option (Heap × Hdr)) (fw : List W → List W → List W)
    (fb : Bits → Bitmap → Bits) (fm : Bitmap → Bitmap → Bitmap)
    (hfb : ∀ x o, fb x o = ⟨Bitmap.len ⟨fw x.bm.set o.set⟩, ⟨fw x.bm.set o.set⟩⟩)
    (hfm : ∀ x o, fm x o = ⟨fw x.set o.set⟩)
    (hspec : ∀ H h o, Wf H h → Wf H o → (o = h ∨ Disj h o) →
      ∃ H' h', f H h o = some (H', h') ∧ h'.view H' = fw (h.view H) (o.view H) ∧ Frame H h H' h') :
    Sim (some a) s (hbulk s a b f) (bulk s.abs a b fb fm) := by
  simp only [hbulk, bulk, abs_regs_get]
  cases ha : s.regs[a]? with
  | none => simp [Sim]
  | some oa =>
    cases hb : s.regs[b]? with
    | none => simp [Sim]
    | some ob =>
      obtain ⟨H', h', hfe, hv, hf⟩ := hspec s.heap oa.hdr ob.hdr (hi.wf a oa ha) (hi.wf b ob hb)
        (other_hdr s a b oa ob hi ha hb)
      obtain ⟨ka, hda, lena⟩ := oa
      obtain ⟨kb, hdb, lenb⟩ := ob
      simp only [Option.map_some] at hfe ⊢
      obtain ⟨hinv, habs, hoth⟩ := update_reg s a ⟨ka, hda, lena⟩ ⟨ka, h', recount ka lena H' h'⟩ H' hi ha hf
      cases ka <;> cases kb <;>
        simp only [HObj.abs, hfe, recount, hv, hfb, hfm, reduceCtorEq, or_self, or_true, true_or,
          if_true, if_false] at habs hinv hoth ⊢ <;>
        (simp [Sim, hinv, habs] <;> exact fun r1 o h1 h2 => hoth r1 o (by simpa using h1) h2)

theorem sim_diff (grow : Nat → Nat → Nat) (s : HSt) (a b : Nat) (hi : HInv s) :
    Sim (some a) s (hstep1 grow s (.diff a b)) (step1 s.abs (.diff a b)) := by
  simp only [hstep1, step1]
  apply sim_bulk s a b hi _ diffWords Bits.diff Bitmap.diff (fun _ _ => rfl) (fun _ _ => rfl)
  intro H h o hw ho hs
  obtain ⟨H', hl, hv, hf⟩ := hDiff_spec H h o hw ho hs
  exact ⟨H', h, by simp [hl], hv, hf⟩

theorem sim_intersect (grow : Nat → Nat → Nat) (s : HSt) (a b : Nat) (hi : HInv s) :
    Sim (some a) s (hstep1 grow s (.intersect a b)) (step1 s.abs (.intersect a b)) := by
  simp only [hstep1, step1]
  apply sim_bulk s a b hi _ intersectWords Bits.intersect Bitmap.intersect (fun _ _ => rfl) (fun _ _ => rfl)
  intro H h o hw ho hs
  obtain ⟨H', hl, hv, hf⟩ := hIntersect_spec H h o hw ho hs
  exact ⟨H', h, by simp [hl], hv, hf⟩

theorem sim_merge (grow : Nat → Nat → Nat) (s : HSt) (a b : Nat) (hi : HInv s) :
    Sim (some a) s (hstep1 grow s (.merge a b)) (step1 s.abs (.merge a b)) := by
  simp only [hstep1, step1]
  exact sim_bulk s a b hi _ mergeWords Bits.merge Bitmap.merge (fun _ _ => rfl) (fun _ _ => rfl)
    (fun H h o hw ho hs => hMerge_spec grow H h o hw ho hs)

/-! ### `layout`: under the invariant no two registers overlap -/

theorem overlaps_false_of_disj (a b : Hdr) (h : Disj a b) : a.overlaps b = false := by
  unfold Disj at h
  simp only [Hdr.overlaps, decide_eq_false_iff_not]
  omega

theorem overlap_nil (s : HSt) (hi : HInv s) : overlapPairs (s.regs.map (·.hdr)) = [] := by
  unfold overlapPairs
  rw [List.flatMap_eq_nil_iff]
  intro i _
  rw [List.flatMap_eq_nil_iff]
  intro j _
  simp only [List.getElem?_map]
  cases hi' : s.regs[i]? with
  | none => rfl
  | some oi =>
    cases hj : s.regs[j]? with
    | none => rfl
    | some oj =>
      simp only [Option.map_some]
      by_cases hij : i < j
      · have := overlaps_false_of_disj _ _ (hi.disj i j oi oj (by omega) hi' hj)
        simp [this]
      · simp [hij]

theorem abs_words (H : Heap) (o : HObj) : (o.abs H).words = o.hdr.view H := by
  obtain ⟨k, h, l⟩ := o
  cases k <;> rfl

theorem sim_layout (grow : Nat → Nat → Nat) (s : HSt) (hi : HInv s) :
    Sim none s (hstep1 grow s .layout) (step1 s.abs .layout) := by
  simp only [hstep1, step1, Sim, overlap_nil s hi]
  refine ⟨?_, trivial, hi, fun r o _ h => ⟨h, trivial⟩⟩
  congr 1
  simp only [HSt.abs, List.map_map]
  apply List.map_congr_left
  intro o ho
  obtain ⟨r, hr⟩ := List.getElem?_of_mem ho
  simp only [Function.comp, abs_words]
  exact (view_length s.heap o.hdr (hi.wf r o hr)).symm

/-! ### operations that do not write word arrays -/

def Op.isRO : Op → Bool
  | .contains _ _ | .len _ | .blen _ | .cap _ | .iter _ _ | .next _ | .value _ | .iterall _
  | .range _ _ | .all _ _ | .str _ => true
  | _ => false

theorem step_ro_regs (S : St) (op : Op) (hro : op.isRO = true) (t : St) (out : String)
    (h : step1 S op = .ok t out) : t.regs = S.regs := by
  cases op <;> simp only [Op.isRO] at hro <;> (try cases hro) <;> simp only [step1] at h <;>
    (repeat' split at h) <;> simp only [Res.ok.injEq, reduceCtorEq] at h <;>
    obtain ⟨rfl, _⟩ := h <;> rfl

theorem hstep_ro (grow : Nat → Nat → Nat) (s : HSt) (op : Op) (hro : op.isRO = true) :
    hstep1 grow s op = match step1 s.abs op with
      | .bad => .bad
      | .panic => .panic
      | .ok t out => .ok { s with iters := t.iters } out := by
  cases op <;> simp only [Op.isRO] at hro <;> (try cases hro) <;> rfl

theorem sim_ro (grow : Nat → Nat → Nat) (s : HSt) (op : Op) (hro : op.isRO = true) (hi : HInv s) :
    Sim none s (hstep1 grow s op) (step1 s.abs op) := by
  rw [hstep_ro grow s op hro]
  cases h : step1 s.abs op with
  | bad => simp [Sim]
  | panic => simp [Sim]
  | ok t out =>
    have hr := step_ro_regs s.abs op hro t out h
    refine ⟨rfl, ?_, ⟨hi.wf, hi.disj⟩, fun r o _ h => ⟨h, rfl⟩⟩
    obtain ⟨tr, ti⟩ := t
    simp only [HSt.abs] at hr ⊢
    rw [hr]

/-- **Step refinement**: from every state satisfying the invariant, every operation of the
one-memory machine gives the verdict, the printed line and (through the views) the state of
the by-value machine, and re-establishes the invariant — for every growth function. -/
theorem hstep1_sim (grow : Nat → Nat → Nat) (s : HSt) (op : Op) (hi : HInv s) :
    Sim op.target s (hstep1 grow s op) (step1 s.abs op) := by
  cases op with
  | add r n => exact sim_add grow s r n hi
  | remove r n => exact sim_remove grow s r n hi
  | grow r n => exact sim_grow grow s r n hi
  | clone d src => exact sim_clone grow s d src hi
  | diff a b => exact sim_diff grow s a b hi
  | intersect a b => exact sim_intersect grow s a b hi
  | merge a b => exact sim_merge grow s a b hi
  | layout => exact sim_layout grow s hi
  | contains r n => exact sim_ro grow s _ rfl hi
  | len r => exact sim_ro grow s _ rfl hi
  | blen r => exact sim_ro grow s _ rfl hi
  | cap r => exact sim_ro grow s _ rfl hi
  | iter k r => exact sim_ro grow s _ rfl hi
  | next k => exact sim_ro grow s _ rfl hi
  | value k => exact sim_ro grow s _ rfl hi
  | iterall r => exact sim_ro grow s _ rfl hi
  | range r st => exact sim_ro grow s _ rfl hi
  | all r st => exact sim_ro grow s _ rfl hi
  | addn r a d c => simp [hstep1, step1, Sim]
  | removen r a d c => simp [hstep1, step1, Sim]
  | str r => exact sim_ro grow s _ rfl hi
  | reseq r a n b => simp [hstep1, step1, Sim]

theorem Sim.pre (tgt : Option Nat) (s s1 : HSt) (hr : HRes) (r : Res)
    (h1 : ∀ (q : Nat) (o : HObj), tgt ≠ some q → s.regs[q]? = some o →
      s1.regs[q]? = some o ∧ o.hdr.view s1.heap = o.hdr.view s.heap)
    (h : Sim tgt s1 hr r) : Sim tgt s hr r := by
  cases hr <;> cases r <;> simp only [Sim] at h ⊢
  obtain ⟨ho, ha, hi, hoth⟩ := h
  refine ⟨ho, ha, hi, fun q o hq hs => ?_⟩
  obtain ⟨a1, a2⟩ := h1 q o hq hs
  obtain ⟨b1, b2⟩ := hoth q o hq a1
  exact ⟨b1, b2.trans a2⟩

/-- the element-operation loops `addn` / `removen` refine their by-value twins -/
theorem sim_loopN (grow : Nat → Nat → Nat) (mk : Nat → Op) (r : Nat) (hmk : ∀ n, (mk n).target = some r) :
    ∀ (c : Nat) (s : HSt) (n d hits : Nat), HInv s →
      Sim (some r) s (hloopN grow mk c s n d hits) (loopN mk c s.abs n d hits) := by
  intro c
  induction c with
  | zero => intro s n d hits hi; exact ⟨rfl, rfl, hi, fun q o _ h => ⟨h, rfl⟩⟩
  | succ c ih =>
    intro s n d hits hi
    have hs := hstep1_sim grow s (mk n) hi
    rw [hmk n] at hs
    simp only [hloopN, loopN]
    cases h1 : hstep1 grow s (mk n) <;> cases h2 : step1 s.abs (mk n) <;> rw [h1, h2] at hs <;>
      simp only [Sim] at hs ⊢
    obtain ⟨ho, ha, hi', hoth⟩ := hs
    rw [← ha, ← ho]
    exact Sim.pre (some r) s _ _ _ hoth (ih _ _ _ _ hi')

theorem Sim.weaken (r : Nat) (s : HSt) (hr : HRes) (x : Res) (h : Sim none s hr x) : Sim (some r) s hr x := by
  cases hr <;> cases x <;> simp only [Sim] at h ⊢
  exact ⟨h.1, h.2.1, h.2.2.1, fun q o _ hs => h.2.2.2 q o (by simp) hs⟩

/-- three single steps in a row, each writing at most register `r` -/
theorem sim_seq3 (grow : Nat → Nat → Nat) (r : Nat) (o1 o2 o3 : Op)
    (h1 : o1.target = none ∨ o1.target = some r) (h2 : o2.target = none ∨ o2.target = some r)
    (h3 : o3.target = none ∨ o3.target = some r) (s : HSt) (hi : HInv s) :
    Sim (some r) s (hseq3 grow s o1 o2 o3) (seq3 s.abs o1 o2 o3) := by
  have one : ∀ (o : Op), (o.target = none ∨ o.target = some r) → ∀ (t : HSt), HInv t →
      Sim (some r) t (hstep1 grow t o) (step1 t.abs o) := by
    intro o ho t ht
    have := hstep1_sim grow t o ht
    rcases ho with ho | ho <;> rw [ho] at this
    · exact Sim.weaken r t _ _ this
    · exact this
  simp only [hseq3, seq3]
  have a1 := one o1 h1 s hi
  cases e1 : hstep1 grow s o1 <;> cases f1 : step1 s.abs o1 <;> rw [e1, f1] at a1 <;>
    simp only [Sim] at a1 ⊢
  obtain ⟨x1, ab1, hi1, ot1⟩ := a1
  rename_i s1 _ t1 _
  subst ab1
  have a2 := one o2 h2 s1 hi1
  cases e2 : hstep1 grow s1 o2 <;> cases f2 : step1 s1.abs o2 <;> rw [e2, f2] at a2 <;>
    simp only [Sim] at a2 ⊢
  obtain ⟨x2, ab2, hi2, ot2⟩ := a2
  rename_i s2 _ t2 _
  subst ab2
  have a3 := one o3 h3 s2 hi2
  cases e3 : hstep1 grow s2 o3 <;> cases f3 : step1 s2.abs o3 <;> rw [e3, f3] at a3 <;>
    simp only [Sim] at a3 ⊢
  obtain ⟨x3, ab3, hi3, ot3⟩ := a3
  refine ⟨by rw [x1, x2, x3], ab3, hi3, fun q o hq hs => ?_⟩
  obtain ⟨b1, c1⟩ := ot1 q o hq hs
  obtain ⟨b2, c2⟩ := ot2 q o hq b1
  obtain ⟨b3, c3⟩ := ot3 q o hq b2
  exact ⟨b3, c3.trans (c2.trans c1)⟩

/-- **Step refinement** for every operation, including the element-operation loops. -/
theorem hstep_sim (grow : Nat → Nat → Nat) (s : HSt) (op : Op) (hi : HInv s) :
    Sim op.target s (hstep grow s op) (step s.abs op) := by
  cases op with
  | addn r a d c =>
    simp only [hstep, step]
    by_cases hc : c = 0
    · simp [hc, Sim]
    · simp only [hc, if_false]; exact sim_loopN grow (.add r) r (fun _ => rfl) c s a d 0 hi
  | removen r a d c =>
    simp only [hstep, step]
    by_cases hc : c = 0
    · simp [hc, Sim]
    · simp only [hc, if_false]; exact sim_loopN grow (.remove r) r (fun _ => rfl) c s a d 0 hi
  | reseq r a n b =>
    exact sim_seq3 grow r _ _ _ (.inl rfl) (.inr rfl) (.inl rfl) s hi
  | _ => exact hstep1_sim grow s _ hi

theorem dead_eq (grow : Nat → Nat → Nat) (ls : List String) : hrunOps grow none ls = runOps none ls := by
  induction ls with
  | nil => rfl
  | cons _ _ ih => simp only [hrunOps, runOps, ih]

/-- **Run refinement**: on every list of op lines the two machines print the same lines. -/
theorem hrunOps_eq (grow : Nat → Nat → Nat) (ls : List String) :
    ∀ (s : HSt), HInv s → hrunOps grow (some s) ls = runOps (some s.abs) ls := by
  induction ls with
  | nil => intro s _; rfl
  | cons l ls ih =>
    intro s hi
    simp only [hrunOps, runOps]
    cases hp : parseOp (toks l) with
    | none => simp only []; rw [ih s hi]
    | some op =>
      simp only []
      have hs := hstep_sim grow s op hi
      cases h1 : hstep grow s op <;> cases h2 : step s.abs op <;> rw [h1, h2] at hs <;>
        simp only [Sim] at hs ⊢
      · rw [ih s hi]
      · rw [dead_eq]
      · obtain ⟨ho, ha, hi', _⟩ := hs
        rw [ho, ih _ hi', ha]

theorem hinv_init (kinds : List Kind) : HInv (HSt.init kinds) := by
  constructor
  · intro r o hr
    simp only [HSt.init, List.getElem?_map] at hr
    cases hk : kinds[r]? <;> simp only [hk, Option.map_none, Option.map_some, reduceCtorEq] at hr
    cases hr
    simp [Wf, Hdr.nil]
  · intro i j oi oj _ hri _
    simp only [HSt.init, List.getElem?_map] at hri
    cases hk : kinds[i]? <;> simp only [hk, Option.map_none, Option.map_some, reduceCtorEq] at hri
    cases hri
    simp [Disj, Hdr.nil]


/-- the states the one-memory machine can reach from zero-valued registers -/
inductive HReach (grow : Nat → Nat → Nat) (kinds : List Kind) : HSt → Prop
  | init : HReach grow kinds (HSt.init kinds)
  | step (s s' : HSt) (op : Op) (out : String) :
      HReach grow kinds s → hstep grow s op = .ok s' out → HReach grow kinds s'

/-- run parsed operations (for examples): the printed lines and the final state -/
def hrunList (grow : Nat → Nat → Nat) : HSt → List Op → List String × Option HSt
  | s, [] => ([], some s)
  | s, op :: ops =>
    match hstep grow s op with
    | .ok s' out => let r := hrunList grow s' ops; (out :: r.1, r.2)
    | _ => (["stop"], none)

/-- the driver loop with the `caps` observation is `hrunOps` on every input without `caps` lines -/
theorem hrunOpsC_eq (grow : Nat → Nat → Nat) (ls : List String) (h : ∀ l ∈ ls, toks l ≠ ["caps"]) :
    ∀ o : Option HSt, hrunOpsC grow o ls = hrunOps grow o ls := by
  induction ls with
  | nil => intro o; cases o <;> rfl
  | cons l ls ih =>
    have ih' := ih (fun x hx => h x (List.mem_cons_of_mem _ hx))
    have hl := h l (List.mem_cons_self ..)
    intro o
    cases o with
    | none => simp only [hrunOpsC, hrunOps, ih']
    | some s =>
      simp only [hrunOpsC, hrunOps, hl, if_false]
      cases parseOp (toks l) with
      | none => simp only [ih']
      | some op => cases hstep grow s op <;> simp only [ih']

end Golib.C16
