/-
C10 (SyncRing, one goroutine): the reachable states are exactly `mkSync c H q` —
capacity `c = 2^e`, GHOST unbounded head counter `H : Nat` (the real counters are
`H mod 2^32` and `(H + |q|) mod 2^32`), content `q` — where slot `i` holds
`(p+1) mod 2^32` (and the element) if its window position `p = winPos H c i` is below the
tail, else `p mod 2^32` (and the zero value).  Push/Pop/Len/IsEmpty/IsFull on such a
state are computed here for EVERY `H`, i.e. also after the 32-bit counters have wrapped
any number of times.
-/
import Golib.Proof.C10SyncArith

set_option linter.unusedSimpArgs false
set_option linter.unusedVariables false

namespace Golib.C10

/-- slot `i` of the canonical state -/
def slotOf (c H : Nat) (q : List Int) (i : Nat) : Slot :=
  if winPos H c i < H + q.length then
    { value := (q[winPos H c i - H]?).getD 0, pos := (winPos H c i + 1) % two32 }
  else { value := 0, pos := winPos H c i % two32 }

/-- canonical state: capacity `c`, ghost head counter `H`, content `q` -/
def mkSync (c H : Nat) (q : List Int) : SyncRing :=
  { values := (List.range c).map (slotOf c H q), cap := c, mask := c - 1,
    head := H % two32, tail := (H + q.length) % two32 }

theorem mk_get (c H : Nat) (q : List Int) (i : Nat) (hi : i < c) :
    (mkSync c H q).values[i]? = some (slotOf c H q i) := by
  simp only [mkSync, List.getElem?_map, List.getElem?_range hi, Option.map_some]

theorem set_map_range (c idx : Nat) (f g : Nat → Slot) (s : Slot)
    (h : ∀ i, i < c → (if i = idx then s else f i) = g i) :
    ((List.range c).map f).set idx s = (List.range c).map g := by
  apply List.ext_getElem?
  intro i
  simp only [List.getElem?_set, List.getElem?_map, List.length_map, List.length_range]
  by_cases hi : i < c
  · rw [List.getElem?_range hi]
    simp only [Option.map_some]
    by_cases he : idx = i
    · subst he; simp only [hi, if_true, ← h idx hi]
    · have he' : ¬ (i = idx) := fun h => he h.symm
      simp only [he, if_false, ← h i hi, he']
  · have : (List.range c)[i]? = none := by simp; omega
    simp only [this, Option.map_none]
    split <;> simp_all

structure Geom (c e : Nat) : Prop where
  pow : c = 2 ^ e
  e1  : 1 ≤ e
  e31 : e ≤ 31

theorem Geom.bounds {c e : Nat} (g : Geom c e) : 2 ≤ c ∧ c ≤ 2147483648 := by
  have h1 : 2 ^ 1 ≤ 2 ^ e := Nat.pow_le_pow_right (by decide) g.e1
  have h2 : 2 ^ e ≤ 2 ^ 31 := Nat.pow_le_pow_right (by decide) g.e31
  rw [g.pow]; omega

theorem idx_eq {c e : Nat} (g : Geom c e) (x : Nat) : (x % two32) &&& (c - 1) = x % c := by
  rw [g.pow]; exact land_mask x e (by have := g.e31; omega)

theorem push_mk {c e : Nat} (g : Geom c e) (H : Nat) (q : List Int) (v : Int) (hq : q.length ≤ c) :
    (mkSync c H q).push v =
      some (if q.length < c then (mkSync c H (q ++ [v]), true) else (mkSync c H q, false)) := by
  obtain ⟨hc2, hc31⟩ := g.bounds
  have hc : 0 < c := by omega
  have hidx : ((H + q.length) % two32) &&& (c - 1) = (H + q.length) % c := idx_eq g _
  have hlt : (H + q.length) % c < c := Nat.mod_lt _ hc
  simp only [SyncRing.push]
  have e1 : (mkSync c H q).tail = (H + q.length) % two32 := rfl
  have e2 : (mkSync c H q).mask = c - 1 := rfl
  rw [e1, e2, hidx, mk_get c H q _ hlt]
  simp only []
  by_cases hfull : q.length < c
  · -- free slot: its window position is the tail itself
    have hw : winPos H c ((H + q.length) % c) = H + q.length :=
      winPos_unique H c (H + q.length) hc (by omega) (by omega)
    have hs : slotOf c H q ((H + q.length) % c) = { value := 0, pos := (H + q.length) % two32 } := by
      simp only [slotOf, hw, Nat.lt_irrefl, if_false]
    simp only [hs, ne_eq, not_true_eq_false, if_false, hfull, if_true]
    congr 1
    simp only [mkSync, Prod.mk.injEq, and_true, SyncRing.mk.injEq, true_and, List.length_append,
      List.length_singleton]
    refine ⟨?_, by simp only [two32]; omega⟩
    apply set_map_range
    intro i hi
    by_cases he : i = (H + q.length) % c
    · subst he
      simp only [if_true, slotOf, hw, List.length_append, List.length_singleton]
      have : H + q.length < H + (q.length + 1) := by omega
      simp only [this, if_true, Nat.add_sub_cancel_left]
      have : (q ++ [v])[q.length]? = some v := by simp
      simp only [this, Option.getD_some, Slot.mk.injEq, true_and]
      simp only [two32]; omega
    · simp only [he, if_false, slotOf, List.length_append, List.length_singleton]
      obtain ⟨w1, w2, w3⟩ := winPos_spec H c i hc hi
      have hne : winPos H c i ≠ H + q.length := by
        intro h; rw [h] at w3; exact he w3.symm
      by_cases hocc : winPos H c i < H + q.length
      · have h2 : winPos H c i < H + (q.length + 1) := by omega
        simp only [hocc, h2, if_true]
        have : (q ++ [v])[winPos H c i - H]? = q[winPos H c i - H]? := by
          rw [List.getElem?_append_left (by omega)]
        rw [this]
      · have h2 : ¬ (winPos H c i < H + (q.length + 1)) := by omega
        simp only [hocc, h2, if_false]
  · -- full: the slot is still occupied by the oldest element
    have hlen : q.length = c := by omega
    have hmod : (H + q.length) % c = H % c := by rw [hlen, Nat.add_mod_right]
    have hw : winPos H c (H % c) = H := winPos_unique H c H hc (by omega) (by omega)
    have hs : (slotOf c H q ((H + q.length) % c)).pos = (H + 1) % two32 := by
      rw [hmod]
      have : H < H + q.length := by omega
      simp only [slotOf, hw, this, if_true]
    have hne : (H + q.length) % two32 ≠ (slotOf c H q ((H + q.length) % c)).pos := by
      rw [hs, hlen]; simp only [two32]; omega
    simp only [hne, ne_eq, not_false_eq_true, if_true, hfull, if_false]

theorem pop_mk_cons {c e : Nat} (g : Geom c e) (H : Nat) (x : Int) (q : List Int)
    (hq : (x :: q).length ≤ c) :
    (mkSync c H (x :: q)).pop = some (mkSync c (H + 1) q, x, true) := by
  obtain ⟨hc2, hc31⟩ := g.bounds
  have hc : 0 < c := by omega
  have hidx : (H % two32) &&& (c - 1) = H % c := idx_eq g _
  have hlt : H % c < c := Nat.mod_lt _ hc
  simp only [List.length_cons] at hq
  simp only [SyncRing.pop]
  have e1 : (mkSync c H (x :: q)).head = H % two32 := rfl
  have e2 : (mkSync c H (x :: q)).mask = c - 1 := rfl
  rw [e1, e2, hidx, mk_get c H _ _ hlt]
  simp only []
  have hw : winPos H c (H % c) = H := winPos_unique H c H hc (by omega) (by omega)
  have hs : slotOf c H (x :: q) (H % c) = { value := x, pos := (H + 1) % two32 } := by
    have : H < H + (x :: q).length := by simp only [List.length_cons]; omega
    simp only [slotOf, hw, this, if_true, Nat.sub_self, List.getElem?_cons_zero, Option.getD_some]
  simp only [hs]
  have hseq : (H % two32 + 1) % two32 = (H + 1) % two32 := by simp only [two32]; omega
  simp only [hseq, ne_eq, not_true_eq_false, if_false]
  congr 1
  simp only [mkSync, Prod.mk.injEq, and_true, SyncRing.mk.injEq, true_and, List.length_cons]
  refine ⟨?_, by simp only [two32]; omega⟩
  apply set_map_range
  intro i hi
  have hw' : winPos (H + 1) c (H % c) = H + c := by
    have := winPos_unique (H + 1) c (H + c) hc (by omega) (by omega)
    rwa [Nat.add_mod_right] at this
  by_cases he : i = H % c
  · subst he
    have hnocc : ¬ (H + c < H + 1 + q.length) := by omega
    simp only [if_true, slotOf, hw', hnocc, if_false, Slot.mk.injEq, true_and]
    simp only [two32]; omega
  · simp only [he, if_false, slotOf, List.length_cons]
    obtain ⟨w1, w2, w3⟩ := winPos_spec H c i hc hi
    have hne : winPos H c i ≠ H := by
      intro h; rw [h] at w3; exact he w3.symm
    have hsame : winPos (H + 1) c i = winPos H c i := by
      have := winPos_unique (H + 1) c (winPos H c i) hc (by omega) (by omega)
      rwa [w3] at this
    rw [hsame]
    by_cases hocc : winPos H c i < H + (q.length + 1)
    · have h2 : winPos H c i < H + 1 + q.length := by omega
      simp only [hocc, h2, if_true]
      have : winPos H c i - H = (winPos H c i - (H + 1)) + 1 := by omega
      rw [this, List.getElem?_cons_succ]
    · have h2 : ¬ (winPos H c i < H + 1 + q.length) := by omega
      simp only [hocc, h2, if_false]

theorem pop_mk_nil {c e : Nat} (g : Geom c e) (H : Nat) :
    (mkSync c H []).pop = some (mkSync c H [], 0, false) := by
  obtain ⟨hc2, hc31⟩ := g.bounds
  have hc : 0 < c := by omega
  have hidx : (H % two32) &&& (c - 1) = H % c := idx_eq g _
  have hlt : H % c < c := Nat.mod_lt _ hc
  simp only [SyncRing.pop]
  have e1 : (mkSync c H []).head = H % two32 := rfl
  have e2 : (mkSync c H []).mask = c - 1 := rfl
  rw [e1, e2, hidx, mk_get c H _ _ hlt]
  simp only []
  have hw : winPos H c (H % c) = H := winPos_unique H c H hc (by omega) (by omega)
  have hs : (slotOf c H [] (H % c)).pos = H % two32 := by
    simp only [slotOf, hw, List.length_nil, Nat.add_zero, Nat.lt_irrefl, if_false]
  have hne : (H % two32 + 1) % two32 ≠ (slotOf c H [] (H % c)).pos := by
    rw [hs]; simp only [two32]; omega
  simp only [hne, ne_eq, not_false_eq_true, if_true]

theorem len_mk {c e : Nat} (g : Geom c e) (H : Nat) (q : List Int) (hq : q.length ≤ c) :
    (mkSync c H q).len = q.length ∧
    ((mkSync c H q).isEmpty = true ↔ q = []) ∧
    ((mkSync c H q).isFull = true ↔ q.length = c) := by
  obtain ⟨hc2, hc31⟩ := g.bounds
  have hd : ((H + q.length) % two32 + two32 - H % two32) % two32 = q.length := by
    simp only [two32]; omega
  refine ⟨?_, ?_, ?_⟩
  · simp only [SyncRing.len, mkSync, hd]
    split <;> omega
  · simp only [SyncRing.isEmpty, mkSync, beq_iff_eq]
    constructor
    · intro h
      have : q.length = 0 := by simp only [two32] at h; omega
      exact List.eq_nil_of_length_eq_zero this
    · intro h; subst h; simp
  · simp only [SyncRing.isFull, mkSync, beq_iff_eq, hd]

/-! ### Init and warp -/

theorem init_mk (n : Int) (h1 : 1 ≤ n) (h2 : n ≤ 2147483648) :
    ∃ c e, Geom c e ∧ IsLeastPow2Ge c (max 2 n.toNat) ∧ SyncRing.init? n = some (mkSync c 0 []) := by
  obtain ⟨c, e, hcap, hpow, he1, he31, hleast⟩ := syncCap_spec n h1 h2
  have g : Geom c e := ⟨hpow, he1, he31⟩
  obtain ⟨hc2, hc31⟩ := g.bounds
  refine ⟨c, e, g, hleast, ?_⟩
  simp only [SyncRing.init?, hcap, mkSync, Option.some.injEq, SyncRing.mk.injEq, true_and,
    List.length_nil, Nat.add_zero]
  refine ⟨?_, by simp only [two32]; omega, by simp [two32]⟩
  apply List.map_congr_left
  intro i hi
  have hi' : i < c := List.mem_range.mp hi
  simp only [slotOf, winPos_zero c i (by omega) hi', List.length_nil, Nat.add_zero, Nat.not_lt_zero,
    if_false]

theorem freshFrom_map (f : Nat → Slot) :
    ∀ (n k : Nat), (∀ i, k ≤ i → i < k + n → f i = { value := 0, pos := i % two32 }) →
      freshFrom k ((List.range' k n).map f) = true := by
  intro n
  induction n with
  | zero => intro k _; rfl
  | succ n ih =>
    intro k hf
    simp only [List.range'_succ, List.map_cons, freshFrom, hf k (Nat.le_refl _) (by omega),
      beq_self_eq_true, Bool.true_and]
    exact ih (k + 1) (fun i h1 h2 => hf i (by omega) (by omega))

theorem fresh_mk (c : Nat) : (mkSync c 0 []).isFresh = true := by
  simp only [SyncRing.isFresh, mkSync, Nat.zero_mod, beq_self_eq_true, Bool.true_and,
    List.length_nil, Nat.add_zero, List.range_eq_range']
  apply freshFrom_map
  intro i _ hi
  simp only [slotOf, winPos_zero c i (by omega) (by omega), List.length_nil, Nat.add_zero,
    Nat.not_lt_zero, if_false]

theorem warp_mk (c k : Nat) (hc : 0 < c) : (mkSync c 0 []).warp k = mkSync c k [] := by
  simp only [SyncRing.warp, mkSync, List.length_map, List.length_range, List.length_nil,
    Nat.add_zero, SyncRing.mk.injEq, and_self, and_true]
  apply List.map_congr_left
  intro i hi
  simp only [slotOf, List.length_nil, Nat.add_zero]
  have : ¬ (winPos k c i < k) := by
    simp only [winPos]; have := Nat.mod_le k c; have := Nat.mod_lt k hc; split <;> omega
  simp only [this, if_false]

end Golib.C10
