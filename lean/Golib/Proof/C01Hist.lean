/-
C01 — "no value is invented": the history part of the ghost state.
  `cur`     per thread, the call in flight: set at the call's first step (the program
            counter `start call` the thread got from its program), cleared when it returns;
  `pushed`  all values appended to the abstract queue at linearization points, in order;
  `popped`  all values removed from it, in order.
Invariant: `pushed = popped ++ q` (the queue's history is the pushes in linearization order
minus the pops), and the call in flight of a thread that is inside `Push(v)` IS `push v`:
the value its tail-CAS appends is the argument of that very call.
-/
import Golib.Proof.C01LinStep

namespace Golib.C01
open Golib.C01.Util

/-- what the ghost knows about the call in flight of thread `i` -/
def CurOk (pend : List (Option Int)) (cur : List (Option Call)) (i : Nat) : Pc → Prop
  | .pushLoadSeq v _ => cur[i]? = some (some (.push v))
  | .pushCAS v _ _ => cur[i]? = some (some (.push v))
  | .pushWrite v _ _ => cur[i]? = some (some (.push v))
  | .pushStore _ _ => ∃ v, pend[i]? = some (some v) ∧ cur[i]? = some (some (.push v))
  | .popLoadSeq _ => cur[i]? = some (some .pop)
  | .popCAS _ _ => cur[i]? = some (some .pop)
  | .popRead _ _ => cur[i]? = some (some .pop)
  | .popClear _ _ _ => cur[i]? = some (some .pop)
  | .popStore _ _ _ => cur[i]? = some (some .pop)
  | .lenLoadHead _ => cur[i]? = some (some .len)
  | .emptyLoadTail _ => cur[i]? = some (some .isEmpty)
  | .fullLoadHead _ => cur[i]? = some (some .isFull)
  -- idle, or at the first access of the next call: no call in flight
  | _ => cur[i]? = some none

structure HInv (s : State) (g : LGhost) : Prop where
  cur_len : g.cur.length = s.threads.length
  /-- the queue's history: pushes in linearization order minus the pops -/
  hist : g.pushed = g.popped ++ g.q
  curs : ∀ i th, s.threads[i]? = some th → CurOk g.pend g.cur i th.pc

/-- the program counter a thread gets from its program determines the call -/
theorem start_push {call : Call} {v : Int} (h : start call = .pushLoadTail v) : call = .push v := by
  cases call <;> simp [start] at h
  subst h; rfl

theorem CurOk_finish (pend : List (Option Int)) (cur : List (Option Call)) (i : Nat) (th : Thread)
    (h : cur[i]? = some none) : CurOk pend cur i th.finish.pc := by
  rcases finish_pc_cases th with e | ⟨v, e⟩ | e | e | e | e <;> rw [e] <;> exact h

theorem CurOk.transfer {pend pend' : List (Option Int)} {cur cur' : List (Option Call)} {j : Nat} {pc : Pc}
    (h : CurOk pend cur j pc) (hp : pend'[j]? = pend[j]?) (hc : cur'[j]? = cur[j]?) :
    CurOk pend' cur' j pc := by
  cases pc <;> simp only [CurOk] at h ⊢ <;> first | (rw [hc]; exact h) | (rw [hp, hc]; exact h)

/-- assembling `HInv` after a step of thread `i` -/
theorem hinv_set {s s' : State} {gh g' : LGhost} (hH : HInv s gh) {i : Nat} {th' : Thread}
    (hthr : s'.threads = s.threads.set i th')
    (hc : g'.cur = gh.cur ∨ ∃ x, g'.cur = gh.cur.set i x)
    (hp : g'.pend = gh.pend ∨ ∃ y, g'.pend = gh.pend.set i y)
    (hhist : g'.pushed = g'.popped ++ g'.q)
    (hown : CurOk g'.pend g'.cur i th'.pc) : HInv s' g' := by
  have hclen : g'.cur.length = gh.cur.length := by
    rcases hc with e | ⟨x, e⟩ <;> rw [e] <;> simp
  have hco : ∀ j, j ≠ i → g'.cur[j]? = gh.cur[j]? := by
    intro j hj
    rcases hc with e | ⟨x, e⟩ <;> rw [e]
    exact List.getElem?_set_ne (fun e' => hj e'.symm)
  have hpo : ∀ j, j ≠ i → g'.pend[j]? = gh.pend[j]? := by
    intro j hj
    rcases hp with e | ⟨x, e⟩ <;> rw [e]
    exact List.getElem?_set_ne (fun e' => hj e'.symm)
  refine ⟨by rw [hclen, hthr, List.length_set]; exact hH.cur_len, hhist, ?_⟩
  intro j b hb
  rw [hthr] at hb
  by_cases e : j = i
  · subst e
    rw [List.getElem?_set] at hb
    simp only [if_true] at hb
    split at hb
    · obtain rfl := Option.some.inj hb; exact hown
    · simp at hb
  · rw [List.getElem?_set_ne (fun e' => e e'.symm)] at hb
    exact (hH.curs j b hb).transfer (hpo j e) (hco j e)

theorem head_tail_eq (q : List Int) : q.head?.toList ++ q.tail = q := by
  cases q <;> rfl

set_option maxHeartbeats 1000000 in
/-- Every step of every thread preserves the history invariant. -/
theorem hinv_step {c : Cfg} (g : Ghost c) {s : State} {gh : LGhost} (hG : GInv c s gh) (hH : HInv s gh)
    (i : Nat) : HInv (step c s i).1 (gfin (step c s i).2 (gstep s gh i)) := by
  have hI := hG.inv
  unfold step gstep
  cases hth : s.threads[i]? with
  | none => exact hH
  | some th =>
    have hcu := hH.curs i th hth
    have hgo := hG.locals i th hth
    have hilt : i < gh.cur.length := by
      rw [hH.cur_len]
      by_cases h : i < s.threads.length
      · exact h
      · rw [List.getElem?_eq_none (Nat.le_of_not_lt h)] at hth; simp at hth
    have hself : ∀ x, (gh.cur.set i x)[i]? = some x := fun x => List.getElem?_set_self hilt
    simp only []
    cases hpc : th.pc with
    | idle => exact hH
    | pushLoadTail v =>
      exact hinv_set hH rfl (Or.inr ⟨_, rfl⟩) (Or.inr ⟨_, rfl⟩) hH.hist (hself _)
    | pushLoadSeq v pos =>
      dsimp only
      obtain ⟨sl, hsl⟩ := slot_exists g hI pos
      rw [hsl]
      dsimp only
      simp only [hpc, CurOk] at hcu
      split
      · exact hinv_set hH rfl (Or.inr ⟨_, rfl⟩) (Or.inl rfl) hH.hist (CurOk_finish _ _ _ _ (hself _))
      · exact hinv_set hH rfl (Or.inl rfl) (Or.inl rfl) hH.hist hcu
    | pushCAS v pos seq =>
      dsimp only
      simp only [hpc, CurOk] at hcu
      split
      · refine hinv_set hH rfl (Or.inl rfl) (Or.inr ⟨_, rfl⟩) ?_ hcu
        show gh.pushed ++ [v] = gh.popped ++ (gh.q ++ [v])
        rw [hH.hist, List.append_assoc]
      · exact hinv_set hH rfl (Or.inr ⟨_, rfl⟩) (Or.inl rfl) hH.hist (CurOk_finish _ _ _ _ (hself _))
    | pushWrite v pos seq =>
      dsimp only
      obtain ⟨sl, hsl⟩ := slot_exists g hI pos
      rw [hsl]
      dsimp only
      simp only [hpc, CurOk] at hcu
      simp only [hpc, GOk] at hgo
      exact hinv_set hH rfl (Or.inl rfl) (Or.inl rfl) hH.hist ⟨v, hgo.2, hcu⟩
    | pushStore pos seq =>
      dsimp only
      obtain ⟨sl, hsl⟩ := slot_exists g hI pos
      rw [hsl]
      dsimp only
      exact hinv_set hH rfl (Or.inr ⟨_, rfl⟩) (Or.inl rfl) hH.hist (CurOk_finish _ _ _ _ (hself _))
    | popLoadHead =>
      exact hinv_set hH rfl (Or.inr ⟨_, rfl⟩) (Or.inr ⟨_, rfl⟩) hH.hist (hself _)
    | popLoadSeq pos =>
      dsimp only
      obtain ⟨sl, hsl⟩ := slot_exists g hI pos
      rw [hsl]
      dsimp only
      simp only [hpc, CurOk] at hcu
      split
      · exact hinv_set hH rfl (Or.inr ⟨_, rfl⟩) (Or.inl rfl) hH.hist (CurOk_finish _ _ _ _ (hself _))
      · exact hinv_set hH rfl (Or.inl rfl) (Or.inl rfl) hH.hist hcu
    | popCAS pos seq =>
      dsimp only
      simp only [hpc, CurOk] at hcu
      split
      · refine hinv_set hH rfl (Or.inl rfl) (Or.inr ⟨_, rfl⟩) ?_ hcu
        show gh.pushed = gh.popped ++ gh.q.head?.toList ++ gh.q.tail
        rw [hH.hist, List.append_assoc, head_tail_eq]
      · exact hinv_set hH rfl (Or.inr ⟨_, rfl⟩) (Or.inl rfl) hH.hist (CurOk_finish _ _ _ _ (hself _))
    | popRead pos seq =>
      dsimp only
      obtain ⟨sl, hsl⟩ := slot_exists g hI pos
      rw [hsl]
      dsimp only
      simp only [hpc, CurOk] at hcu
      exact hinv_set hH rfl (Or.inl rfl) (Or.inl rfl) hH.hist hcu
    | popClear pos seq v =>
      dsimp only
      obtain ⟨sl, hsl⟩ := slot_exists g hI pos
      rw [hsl]
      dsimp only
      simp only [hpc, CurOk] at hcu
      exact hinv_set hH rfl (Or.inl rfl) (Or.inl rfl) hH.hist hcu
    | popStore pos seq v =>
      dsimp only
      obtain ⟨sl, hsl⟩ := slot_exists g hI pos
      rw [hsl]
      dsimp only
      exact hinv_set hH rfl (Or.inr ⟨_, rfl⟩) (Or.inl rfl) hH.hist (CurOk_finish _ _ _ _ (hself _))
    | lenLoadTail =>
      exact hinv_set hH rfl (Or.inr ⟨_, rfl⟩) (Or.inl rfl) hH.hist (hself _)
    | lenLoadHead t =>
      exact hinv_set hH rfl (Or.inr ⟨_, rfl⟩) (Or.inl rfl) hH.hist (CurOk_finish _ _ _ _ (hself _))
    | emptyLoadHead =>
      exact hinv_set hH rfl (Or.inr ⟨_, rfl⟩) (Or.inl rfl) hH.hist (hself _)
    | emptyLoadTail h =>
      exact hinv_set hH rfl (Or.inr ⟨_, rfl⟩) (Or.inl rfl) hH.hist (CurOk_finish _ _ _ _ (hself _))
    | fullLoadTail =>
      exact hinv_set hH rfl (Or.inr ⟨_, rfl⟩) (Or.inl rfl) hH.hist (hself _)
    | fullLoadHead t =>
      exact hinv_set hH rfl (Or.inr ⟨_, rfl⟩) (Or.inl rfl) hH.hist (CurOk_finish _ _ _ _ (hself _))

theorem hinv_initAt (c : Cfg) (k : Nat) (progs : List (List Call)) :
    HInv (initAt c k progs) (ginit progs) := by
  refine ⟨by simp [initAt, ginit], rfl, ?_⟩
  intro i th hth
  simp only [initAt, List.getElem?_map] at hth
  cases hp : progs[i]? with
  | none => rw [hp] at hth; simp at hth
  | some pr =>
    rw [hp] at hth
    simp only [Option.map_some, Option.some.injEq] at hth
    subst hth
    refine CurOk_finish _ _ _ _ ?_
    simp [ginit, hp]

theorem hinv_lrun {c : Cfg} (g : Ghost c) {s : State} {gh : LGhost} (hG : GInv c s gh) (hH : HInv s gh)
    (σ : List Nat) : HInv (lrun c s gh σ).1 (lrun c s gh σ).2 := by
  induction σ generalizing s gh with
  | nil => exact hH
  | cons i σ ih =>
    simp only [lrun]
    exact ih ((ginv_step g hG i).congr (gfin_q _ _).1 (gfin_q _ _).2.1) (hinv_step g hG hH i)

/-- `pushed = popped ++ q`: every popped value was pushed, at most as often -/
theorem count_popped_le {g : LGhost} (h : g.pushed = g.popped ++ g.q) (x : Int) :
    g.popped.count x ≤ g.pushed.count x := by
  rw [h, List.count_append]; omega

/-- only the publication store of a `Push` returns `true` -/
theorem ret_push_true_pc {c : Cfg} {s : State} {i : Nat} (hr : (step c s i).2.ret = some (.push true)) :
    ∃ th pos seq, s.threads[i]? = some th ∧ th.pc = .pushStore pos seq := by
  unfold step at hr
  cases hth : s.threads[i]? with
  | none => rw [hth] at hr; simp at hr
  | some th =>
    rw [hth] at hr
    simp only [] at hr
    cases hpc : th.pc <;> rw [hpc] at hr <;> simp only [] at hr <;> (try split at hr) <;>
      (try split at hr) <;>
      first
      | exact ⟨th, _, _, rfl, hpc⟩
      | (simp at hr)

/-- A `Push` that returns true appended, at its linearization point, exactly the argument
of that very call. -/
theorem push_true_arg {c : Cfg} {s : State} {gh : LGhost} (hH : HInv s gh) {i : Nat}
    (hr : (step c s i).2.ret = some (.push true)) :
    ∃ v, gh.pend[i]? = some (some v) ∧ gh.cur[i]? = some (some (.push v)) := by
  obtain ⟨th, pos, seq, hth, hpc⟩ := ret_push_true_pc hr
  have := hH.curs i th hth
  simpa [hpc, CurOk] using this

/-- what the history fields do in one step: nothing, or the tail-CAS of a thread whose call
in flight is `Push(v)` appends that `v`, or a head-CAS moves the head of `q` to `popped` -/
theorem gstep_hist {c : Cfg} {s : State} {gh : LGhost} (hG : GInv c s gh) (hH : HInv s gh) (i : Nat) :
    ((gstep s gh i).pushed = gh.pushed ∧ (gstep s gh i).popped = gh.popped ∧ (gstep s gh i).q = gh.q) ∨
    (∃ v, gh.cur[i]? = some (some (.push v)) ∧ (gstep s gh i).pushed = gh.pushed ++ [v] ∧
      (gstep s gh i).q = gh.q ++ [v] ∧ (gstep s gh i).popped = gh.popped) ∨
    (∃ x, gh.cur[i]? = some (some .pop) ∧ (gstep s gh i).popped = gh.popped ++ [x] ∧
      gh.q = x :: (gstep s gh i).q ∧ (gstep s gh i).pushed = gh.pushed) := by
  unfold gstep
  cases hth : s.threads[i]? with
  | none => left; exact ⟨rfl, rfl, rfl⟩
  | some th =>
    have hcu := hH.curs i th hth
    simp only []
    cases hpc : th.pc with
    | pushCAS v pos seq =>
      dsimp only
      simp only [hpc, CurOk] at hcu
      split
      · right; left; exact ⟨v, hcu, rfl, rfl, rfl⟩
      · left; exact ⟨rfl, rfl, rfl⟩
    | popCAS pos seq =>
      dsimp only
      simp only [hpc, CurOk] at hcu
      split
      · rename_i hH'
        right; right
        have hql := hG.qlen
        have hI := hG.inv
        have hlt : 0 < s.tail - s.head := by
          have hloc := hI.locals th (List.mem_of_getElem? hth)
          simp only [hpc, PcOk] at hloc
          obtain ⟨_, _, q, hq, hle⟩ := hloc
          have hk : pos % c.cap < c.cap := Nat.mod_lt _ (by
            have := hI.slots_len
            rcases Nat.eq_zero_or_pos c.cap with h0 | h0
            · simp [sq, h0] at hq
              have : s.slots = [] := List.eq_nil_of_length_eq_zero (by omega)
              simp [this] at hq
            · exact h0)
          obtain ⟨q0, hq0, hph⟩ := hI.phases _ hk
          rw [hq] at hq0
          obtain rfl := Option.some.inj hq0
          have := phase_S_of hph hH' hI.tail_le hle
          omega
        cases hq : gh.q with
        | nil => rw [hq] at hql; simp at hql; omega
        | cons x rest => exact ⟨x, hcu, rfl, rfl, rfl⟩
      · left; exact ⟨rfl, rfl, rfl⟩
    | _ => left; exact ⟨rfl, rfl, rfl⟩

end Golib.C01
