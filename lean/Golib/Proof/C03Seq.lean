/-
C03 helper lemmas, part 12: held handles.  A held `iter.Seq` is a function of the CURRENT
state; the `Next/Value` state machine delivers prefixes (any number of steps, continuing from
where an iterator stands), so several iterators alive in the same bitmap are independent.
-/
import Golib.Proof.C03Run

set_option linter.unusedSimpArgs false
set_option linter.unusedVariables false

namespace Golib.C03

/-! ### held Seq values -/

theorem all_eq_toList (r : RB) (h : r.Inv) : r.all 0 = r.toList := by
  rw [toList_eq_enumAll]; exact all_zero_eq r h.inv0

theorem all_eq_take (r : RB) (h : r.Inv) {k : Nat} (hk : 0 < k) : r.all k = r.toList.take k := by
  rw [toList_eq_enumAll]; exact all_take r h.inv0 k hk

/-- Every way of ranging a held Seq, in a state satisfying the invariant. -/
theorem seq_spec (r : RB) (h : r.Inv) :
    r.seqRange 0 = r.toList ∧
    (∀ k, 0 < k → r.seqRange k = r.toList.take k) ∧
    (∀ j, 0 < j → r.seqTwice j = (r.toList.take j, r.toList)) ∧
    (∀ j, 0 < j → r.seqNest j =
      (r.toList.take j, List.replicate (min j r.toList.length) r.toList.length)) ∧
    (∀ a, r.pull2 a = (if a = 0 then r.toList else r.toList.take a, r.toList)) := by
  refine ⟨all_eq_toList r h, fun k hk => all_eq_take r h hk, ?_, ?_, ?_⟩
  · intro j hj
    simp only [RB.seqTwice, all_eq_toList r h, all_eq_take r h hj]
  · intro j hj
    simp only [RB.seqNest, all_eq_toList r h, all_eq_take r h hj, List.map_const', List.length_take]
  · intro a
    by_cases ha : a = 0
    · subst ha; simp only [RB.pull2, all_eq_toList r h, if_true]
    · simp only [RB.pull2, all_eq_toList r h, all_eq_take r h (Nat.pos_of_ne_zero ha), ha, if_false]

/-! ### the `Next/Value` state machine, any number of steps -/

/-- What the iterator will still deliver. -/
def It.rem (it : It) : List Nat := remaining it.node it.iter

/-- Reachable iterator states: exhausted (`node == nil`), or the invariant of `C03Iter`. -/
def It.Good (it : It) : Prop := it.node = [] ∨ ItOk it.node it.iter

theorem rem_of_node_nil {it : It} (h : it.node = []) : it.rem = [] := by
  unfold It.rem; rw [h]; rfl

theorem iter_good (r : RB) (h : r.Inv) : r.iter.Good ∧ r.iter.rem = r.toList := by
  refine ⟨Or.inr ⟨h.inv0, fun x hx => by simp [RB.iter] at hx⟩, ?_⟩
  rw [toList_eq_enumAll]; exact remaining_none r.cs

/-- One `Next` (+ `Value`) from a reachable state. -/
theorem next_good (it : It) (hg : it.Good) :
    (it.rem = [] → (it.next true).2 = false ∧ (it.next true).1.node = []) ∧
    (∀ m rest, it.rem = m :: rest →
      ∃ it', it.next true = (it', true) ∧ it'.value = some m ∧ it'.rem = rest ∧ it'.Good) := by
  rcases hg with hn | hok
  · have hr := rem_of_node_nil hn
    refine ⟨fun _ => ?_, fun m rest h => by rw [hr] at h; cases h⟩
    simp only [It.next, hn]
    exact ⟨rfl, rfl⟩
  · obtain ⟨s1, s2⟩ := itNext_spec it.node it.iter hok
    refine ⟨s1, ?_⟩
    intro m rest h
    obtain ⟨it', e1, e2, e3, e4⟩ := s2 m rest h
    exact ⟨it', e1, e2, e3, Or.inr e4⟩

/-- `n` steps deliver the next `n` values (or all that is left), leave the iterator standing
right after them, and report whether every `Next` answered true. -/
theorem steps_spec : ∀ (n : Nat) (it : It) (acc : List Nat), it.Good →
    ∃ it', It.steps n it acc = some (acc.reverse ++ it.rem.take n, it', decide (n ≤ it.rem.length)) ∧
      it'.Good ∧ it'.rem = it.rem.drop n := by
  intro n
  induction n with
  | zero => intro it acc hg; exact ⟨it, by simp [It.steps], hg, rfl⟩
  | succ n ih =>
    intro it acc hg
    obtain ⟨s1, s2⟩ := next_good it hg
    unfold It.steps
    cases hrem : it.rem with
    | nil =>
      obtain ⟨hf, hnode⟩ := s1 hrem
      have hnext : it.next true = ((it.next true).1, false) := by rw [← hf]
      rw [hnext]
      refine ⟨(it.next true).1, by simp, Or.inl hnode, ?_⟩
      rw [rem_of_node_nil hnode]; rfl
    | cons m rest =>
      obtain ⟨it', e1, e2, e3, e4⟩ := s2 m rest hrem
      rw [e1]
      simp only [e2]
      obtain ⟨it'', f1, f2, f3⟩ := ih it' (m :: acc) e4
      refine ⟨it'', ?_, f2, ?_⟩
      · rw [f1, e3]
        simp
      · rw [f3, e3]; rfl

/-! ### several iterators, any interleaving -/

/-- Run a schedule of step requests `(i, n)` = "iterator `i`: `n` steps" on four iterators;
the answers in schedule order (`none`: a `Value` panicked). -/
def runSched : (Fin 4 → It) → List (Fin 4 × Nat) → Option (List (List Nat × Bool))
  | _, [] => some []
  | its, (i, n) :: rest =>
    match It.steps n (its i) [] with
    | none => none
    | some (xs, it', more) =>
      (runSched (fun j => if j = i then it' else its j) rest).map ((xs, more) :: ·)

/-- What ONE iterator that still has `rem` to deliver answers to the requests `ns`, alone. -/
def specOne : List Nat → List Nat → List (List Nat × Bool)
  | _, [] => []
  | rem, n :: ns => (rem.take n, decide (n ≤ rem.length)) :: specOne (rem.drop n) ns

/-- The requests of iterator `i` in a schedule. -/
def ownReqs (i : Fin 4) (sched : List (Fin 4 × Nat)) : List Nat :=
  (sched.filter (fun q => decide (q.1 = i))).map (·.2)

/-- The answers iterator `i` got. -/
def ownAnswers (i : Fin 4) (sched : List (Fin 4 × Nat)) (outs : List (List Nat × Bool)) :
    List (List Nat × Bool) :=
  ((sched.zip outs).filter (fun q => decide (q.1.1 = i))).map (·.2)

/-- Independence: in ANY interleaving, every iterator answers its own requests exactly as it
would alone. -/
theorem sched_spec : ∀ (sched : List (Fin 4 × Nat)) (its : Fin 4 → It), (∀ i, (its i).Good) →
    ∃ outs, runSched its sched = some outs ∧ outs.length = sched.length ∧
      ∀ i, ownAnswers i sched outs = specOne (its i).rem (ownReqs i sched) := by
  intro sched
  induction sched with
  | nil => intro its _; exact ⟨[], rfl, rfl, fun i => rfl⟩
  | cons q rest ih =>
    intro its hg
    obtain ⟨i0, n⟩ := q
    obtain ⟨it', h1, h2, h3⟩ := steps_spec n (its i0) [] (hg i0)
    have hg' : ∀ i, (if i = i0 then it' else its i).Good := by
      intro i; by_cases hi : i = i0
      · simp only [hi, if_true]; exact h2
      · simp only [hi, if_false]; exact hg i
    obtain ⟨outs, g1, g2, g3⟩ := ih (fun j => if j = i0 then it' else its j) hg'
    simp only [List.reverse_nil, List.nil_append] at h1
    refine ⟨((its i0).rem.take n, decide (n ≤ (its i0).rem.length)) :: outs,
      by simp only [runSched, h1, g1, Option.map_some], by simp [g2], ?_⟩
    intro i
    have := g3 i
    by_cases hi : i = i0
    · subst hi
      simp only [if_true] at this
      simp only [ownAnswers, ownReqs, List.zip_cons_cons, List.filter_cons, decide_true, if_true,
        List.map_cons, specOne]
      simp only [ownAnswers, ownReqs] at this
      rw [this, h3]
    · have hne : ¬ i0 = i := fun e => hi e.symm
      simp only [hi, if_false] at this
      simp only [ownAnswers, ownReqs, List.zip_cons_cons, List.filter_cons, hne, decide_false,
        Bool.false_eq_true, if_false]
      simp only [ownAnswers, ownReqs] at this
      exact this

/-! ### two iterators alive in the same bitmap: `itPairs` -/

theorem itPairsLoop_spec (r : RB) (h : r.Inv) : ∀ (j : Nat) (a : It) (xs cs : List Nat), a.Good →
    itPairsLoop r j a xs cs =
      some (xs.reverse ++ a.rem.take j,
        cs.reverse ++ List.replicate (min j a.rem.length) r.toList.length) := by
  obtain ⟨itE, hall, _⟩ := iterAll_true_spec r h.inv0 (by rw [← toList_eq_enumAll]; exact h.len)
  rw [← toList_eq_enumAll] at hall
  intro j
  induction j with
  | zero => intro a xs cs _; simp [itPairsLoop]
  | succ j ih =>
    intro a xs cs hg
    obtain ⟨s1, s2⟩ := next_good a hg
    unfold itPairsLoop
    cases hrem : a.rem with
    | nil =>
      obtain ⟨hf, _⟩ := s1 hrem
      have hnext : a.next true = ((a.next true).1, false) := by rw [← hf]
      rw [hnext]
      simp
    | cons m rest =>
      obtain ⟨a', e1, e2, e3, e4⟩ := s2 m rest hrem
      rw [e1]
      simp only [e2, hall]
      rw [ih a' (m :: xs) (r.toList.length :: cs) e4, e3]
      simp only [List.reverse_cons, List.append_assoc, List.singleton_append, List.take_succ_cons,
        List.length_cons, Nat.add_min_add_right, List.replicate_succ]

theorem itPairs_spec (r : RB) (h : r.Inv) (j : Nat) :
    r.itPairs j = some (r.toList.take j, List.replicate (min j r.toList.length) r.toList.length) := by
  obtain ⟨hg, hrem⟩ := iter_good r h
  rw [RB.itPairs, itPairsLoop_spec r h j r.iter [] [] hg, hrem]
  simp

end Golib.C03
