/-
Helper lemmas for the IPv4 model (`Golib/Model/C15IP.lean`). Core only.
-/
import Golib.Model.C15IP

namespace Golib.C15

/-- Per-byte facts (256 cases, kernel evaluation): the decimal text of a byte contains no
dot and `strconv.ParseInt(text, 10, 32)` gives the byte back. -/
theorem ubtoa_table : ∀ b, b < 256 →
    (ubtoa b).contains 46 = false ∧ parseInt (ubtoa b) 10 32 = (b : Int) := by
  decide +kernel

theorem splitDot_ne_nil : ∀ s : List Nat, splitDot s ≠ []
  | [] => by simp [splitDot]
  | c :: rest => by
    have ih := splitDot_ne_nil rest
    simp only [splitDot]
    split
    · simp
    · split <;> simp

theorem splitDot_nodot : ∀ p : List Nat, p.contains 46 = false → splitDot p = [p]
  | [], _ => by simp [splitDot]
  | c :: p, h => by
    simp only [List.contains_cons, Bool.or_eq_false_iff, beq_eq_false_iff_ne, ne_eq] at h
    have hc : ¬ c = 46 := fun e => h.1 e.symm
    simp only [splitDot, hc, if_false, splitDot_nodot p h.2]

theorem splitDot_append : ∀ (p rest : List Nat), p.contains 46 = false →
    splitDot (p ++ 46 :: rest) = p :: splitDot rest
  | [], rest, _ => by simp [splitDot]
  | c :: p, rest, h => by
    simp only [List.contains_cons, Bool.or_eq_false_iff, beq_eq_false_iff_ne, ne_eq] at h
    have hc : ¬ c = 46 := fun e => h.1 e.symm
    simp only [List.cons_append, splitDot, hc, if_false, splitDot_append p rest h.2]

theorem ipStep_byte (long b : Nat) (hb : b < 256) :
    ipStep long (ubtoa b) = ((long <<< 8) % two32 + b) % two32 := by
  have h := (ubtoa_table b hb).2
  have e : ((b : Int) % (two32 : Int)).toNat = b := by
    unfold two32; omega
  simp only [ipStep, h, e]

theorem ipv4_roundtrip (x : Nat) (hx : x < 2 ^ 32) : ipv4ToLong (longToIPv4 x) = x := by
  have ha : (x >>> 24) % 256 < 256 := Nat.mod_lt _ (by omega)
  have hb : (x >>> 16) % 256 < 256 := Nat.mod_lt _ (by omega)
  have hc : (x >>> 8) % 256 < 256 := Nat.mod_lt _ (by omega)
  have hd : x % 256 < 256 := Nat.mod_lt _ (by omega)
  have hsplit : splitDot (longToIPv4 x) =
      [ubtoa ((x >>> 24) % 256), ubtoa ((x >>> 16) % 256), ubtoa ((x >>> 8) % 256), ubtoa (x % 256)] := by
    simp only [longToIPv4, List.append_assoc, List.cons_append, List.nil_append]
    rw [splitDot_append _ _ (ubtoa_table _ ha).1, splitDot_append _ _ (ubtoa_table _ hb).1,
      splitDot_append _ _ (ubtoa_table _ hc).1, splitDot_nodot _ (ubtoa_table _ hd).1]
  simp only [ipv4ToLong, hsplit, List.foldl_cons, List.foldl_nil, ipStep_byte _ _ ha,
    ipStep_byte _ _ hb, ipStep_byte _ _ hc, ipStep_byte _ _ hd]
  simp only [Nat.shiftLeft_eq, Nat.shiftRight_eq_div_pow, two32]
  omega

end Golib.C15
