/-
C14 helper lemmas, part 5: `Chunk` / `ChunkProcess` cut the input into consecutive pieces.
-/
import Golib.Proof.C14Read

namespace Golib.C14

/-- the `n` full tiles `(k·size, size)`, `k < n`, starting at `start` -/
def tiles (start size n : Nat) : List (Nat × Nat) :=
  (List.range n).map fun k => (start + k * size, size)

theorem tiles_succ (start size n : Nat) :
    tiles start size (n + 1) = (start, size) :: tiles (start + size) size n := by
  simp only [tiles, List.range_succ_eq_map, List.map_cons, List.map_map]
  congr 1
  · simp
  · apply List.map_congr_left
    intro k _
    simp only [Function.comp, Nat.succ_eq_add_one, Nat.add_mul, Nat.one_mul, Prod.mk.injEq, and_true]
    omega

theorem chunkLoop_spec (len size f start : Nat) (acc : List (Nat × Nat)) (h : start + f * size ≤ len) :
    chunkLoop len size f start acc = some (acc ++ tiles start size f, start + f * size) := by
  induction f generalizing start acc with
  | zero => simp [chunkLoop, tiles]
  | succ f ih =>
    have h1 : start + size ≤ len := by
      have : (f + 1) * size = f * size + size := by rw [Nat.add_mul, Nat.one_mul]
      omega
    simp only [chunkLoop, h1, if_true]
    rw [ih (start + size) _ (by
      have : (f + 1) * size = f * size + size := by rw [Nat.add_mul, Nat.one_mul]
      omega)]
    rw [tiles_succ]
    have : (f + 1) * size = f * size + size := by rw [Nat.add_mul, Nat.one_mul]
    simp only [List.append_assoc, List.singleton_append, Option.some.injEq, Prod.mk.injEq, true_and]
    omega

/-- the pieces `Chunk(s, size)` returns for `1 ≤ size < len`: `len/size` full tiles and the rest -/
def chunkViews (len size : Nat) : List (Nat × Nat) :=
  tiles 0 size (len / size) ++
    (if len > len / size * size then [(len / size * size, len - len / size * size)] else [])

/-- `Chunk` never panics; nil for an empty input, the whole input as one piece when
`chunkSize < 1` or `len ≤ chunkSize`, otherwise `chunkViews`. -/
theorem chunk_spec (len : Nat) (chunkSize : Int) :
    chunk len chunkSize =
      if len = 0 then some none
      else if chunkSize < 1 ∨ (len : Int) ≤ chunkSize then some (some [(0, len)])
      else some (some (chunkViews len chunkSize.toNat)) := by
  unfold chunk
  split
  · rfl
  · split
    · rfl
    · simp only []
      rw [chunkLoop_spec len chunkSize.toNat (len / chunkSize.toNat) 0 [] (by
        have := Nat.div_mul_le_self len chunkSize.toNat
        omega)]
      simp only [List.nil_append, Nat.zero_add, chunkViews]
      split <;> simp

/-- the content of a list of views -/
def viewsContent (s : List Int) (vs : List (Nat × Nat)) : List (List Int) :=
  vs.map fun (st, l) => (s.drop st).take l

theorem tiles_flatten (s : List Int) (size n : Nat) :
    (viewsContent s (tiles 0 size n)).flatten = s.take (n * size) := by
  induction n with
  | zero => simp [tiles, viewsContent]
  | succ n ih =>
    have : tiles 0 size (n + 1) = tiles 0 size n ++ [(n * size, size)] := by
      simp [tiles, List.range_succ]
    rw [this]
    simp only [viewsContent, List.map_append, List.flatten_append, List.map_cons, List.map_nil,
      List.flatten_cons, List.flatten_nil, List.append_nil] at ih ⊢
    rw [ih, Nat.add_mul, Nat.one_mul, List.take_add]

/-- **Chunk: the concatenation of the pieces is the input.** -/
theorem chunkViews_concat (s : List Int) (size : Nat) :
    (viewsContent s (chunkViews s.length size)).flatten = s := by
  unfold chunkViews
  simp only [viewsContent, List.map_append, List.flatten_append]
  have h := tiles_flatten s size (s.length / size)
  simp only [viewsContent] at h
  rw [h]
  split
  · simp only [List.map_cons, List.map_nil, List.flatten_cons, List.flatten_nil, List.append_nil]
    rw [List.take_of_length_le (l := s.drop _) (by simp)]
    exact List.take_append_drop _ _
  · rename_i hle
    have : s.length / size * size = s.length := by
      have := Nat.div_mul_le_self s.length size
      omega
    simp [this]

/-- **Chunk sizes**: every piece but the last has exactly `size` elements, the last has
between 1 and `size`. -/
theorem chunkViews_sizes (len size : Nat) (hs : 1 ≤ size) :
    (∀ v ∈ (chunkViews len size).dropLast, v.2 = size) ∧
    (∀ v ∈ chunkViews len size, 1 ≤ v.2 ∧ v.2 ≤ size) := by
  have hmod : len - len / size * size < size := by
    have := Nat.mod_lt len (by omega : size > 0)
    have h2 := Nat.div_add_mod len size
    rw [Nat.mul_comm] at h2
    omega
  have ht : ∀ v ∈ tiles 0 size (len / size), v.2 = size := by
    intro v hv
    simp only [tiles, List.mem_map] at hv
    obtain ⟨k, _, rfl⟩ := hv
    rfl
  unfold chunkViews
  split
  · rename_i hgt
    constructor
    · intro v hv
      rw [List.dropLast_concat] at hv
      exact ht v hv
    · intro v hv
      rw [List.mem_append] at hv
      rcases hv with hv | hv
      · rw [ht v hv]; omega
      · simp only [List.mem_singleton] at hv
        subst hv
        simp only []; omega
  · constructor
    · intro v hv
      rw [List.append_nil] at hv
      exact ht v (List.dropLast_subset _ hv)
    · intro v hv
      rw [List.append_nil] at hv
      rw [ht v hv]; omega

end Golib.C14
