/-
C14 helper lemmas, part 1: the dst-style loops (`Diff/Intersect/Unique/UniqueByKey/Filter`)
on explicit memory.  Key invariant for `dst = s1[:k]`: the write cursor `j` never overtakes
the read cursor `i`, so every cell is read before it is overwritten.
-/
import Golib.Model.C14Slices

namespace Golib.C14

/-- Specification of a (possibly stateful) selection: the selected elements in order. -/
def selSpec {σ : Type} (sel : σ → Int → σ × Bool) : σ → List Int → List Int
  | _, [] => []
  | st, v :: vs =>
    if (sel st v).2 then v :: selSpec sel (sel st v).1 vs else selSpec sel (sel st v).1 vs

/-- Content of `dst` at any time. -/
def Out.content (M : Mem) (o : Out) : List Int := (o.result M).xs

theorem drop_eq_cons {l : List Int} {i : Nat} {v : Int} (h : l[i]? = some v) :
    l.drop i = v :: l.drop (i + 1) := by
  have hi : i < l.length := by
    rcases Nat.lt_or_ge i l.length with h' | h'
    · exact h'
    · rw [List.getElem?_eq_none h'] at h; simp at h
  rw [List.drop_eq_getElem_cons hi]
  rw [List.getElem?_eq_getElem hi] at h
  simp at h; rw [h]

theorem take_set_succ (l : List Int) (j : Nat) (v : Int) (h : j < l.length) :
    (l.set j v).take (j + 1) = l.take j ++ [v] := by
  apply List.ext_getElem?; intro k
  simp only [List.getElem?_take, List.getElem?_set, List.getElem?_append, List.length_take]
  grind

theorem drop_set_lt (l : List Int) (j i : Nat) (v : Int) (h : j < i) :
    (l.set j v).drop i = l.drop i := by
  apply List.ext_getElem?; intro k
  simp only [List.getElem?_drop, List.getElem?_set]
  grind

/-! ### one iteration keeps `j ≤ i` (dst aliasing s1) -/

/-- **write cursor ≤ read cursor.** One iteration at read cursor `i` with `dst` living in
`s1`'s array and `j ≤ i`: it does not panic for `i < len`, `dst` stays inside the array
(no reallocation), `j' ≤ i + 1`, the unread cells `> i` and `s2` are untouched, and `dst`
grew by exactly the selected element. -/
theorem selStep_in1 {σ : Type} (sel : σ → Int → σ × Bool) (i : Nat) (st : σ) (M : Mem) (o : Out)
    (hloc : o.loc = .in1) (hj : o.j ≤ i) (hi : i < M.m1.length) :
    ∃ v M' o', M.m1[i]? = some v ∧ selStep sel i st M o = some ((sel st v).1, M', o') ∧
      o'.loc = .in1 ∧ o'.j ≤ i + 1 ∧ o.j ≤ o'.j ∧ M'.m1.length = M.m1.length ∧
      M'.m1.drop (i + 1) = M.m1.drop (i + 1) ∧ M'.m2 = M.m2 ∧
      M'.m1.take o'.j = M.m1.take o.j ++ (if (sel st v).2 then [v] else []) := by
  have hv : M.m1[i]? = some M.m1[i] := List.getElem?_eq_getElem hi
  refine ⟨M.m1[i], ?_⟩
  simp only [selStep, hv]
  cases ht : (sel st M.m1[i]).2
  · refine ⟨M, o, trivial, ?_, hloc, by omega, by omega, rfl, rfl, rfl, by simp⟩
    have : sel st M.m1[i] = ((sel st M.m1[i]).1, false) := by rw [← ht]
    rw [this]; simp
  · have hjl : o.j < M.m1.length := by omega
    refine ⟨{ M with m1 := M.m1.set o.j M.m1[i] }, { o with j := o.j + 1 }, trivial, ?_, hloc, by simp; omega,
      by simp, by simp, ?_, rfl, ?_⟩
    · have : sel st M.m1[i] = ((sel st M.m1[i]).1, true) := by rw [← ht]
      rw [this]; simp [push, hloc, hjl]
    · exact drop_set_lt _ _ _ _ (by omega)
    · simp only [if_true]; exact take_set_succ _ _ _ hjl

/-- The whole loop with `dst = s1[:k]`: never panics, returns `dst` still inside `s1`'s
array, whose first `j'` cells are the old `dst` content followed by the selection of the
unread part; `s2` untouched. -/
theorem selLoop_in1 {σ : Type} (sel : σ → Int → σ × Bool) (f i : Nat) (st : σ) (M : Mem) (o : Out)
    (hloc : o.loc = .in1) (hj : o.j ≤ i) (hf : f + i = M.m1.length) :
    ∃ M' o', selLoop sel f i st M o = some (M', o') ∧ o'.loc = .in1 ∧ o'.j ≤ M.m1.length ∧
      M'.m1.length = M.m1.length ∧ M'.m2 = M.m2 ∧
      M'.m1.take o'.j = M.m1.take o.j ++ selSpec sel st (M.m1.drop i) := by
  induction f generalizing i st M o with
  | zero =>
    refine ⟨M, o, rfl, hloc, by omega, rfl, rfl, ?_⟩
    rw [List.drop_eq_nil_of_le (by omega)]; simp [selSpec]
  | succ f ih =>
    obtain ⟨v, M', o', hv, hs, hl', hj', _, hlen, hdrop, hm2, htake⟩ :=
      selStep_in1 sel i st M o hloc hj (by omega)
    obtain ⟨M'', o'', hs2, hl2, hj2, hlen2, hm22, htake2⟩ :=
      ih (i + 1) (sel st v).1 M' o' hl' hj' (by omega)
    refine ⟨M'', o'', ?_, hl2, by omega, by omega, by rw [hm22, hm2], ?_⟩
    · simp only [selLoop, hs]; exact hs2
    · rw [htake2, htake, hdrop, drop_eq_cons hv, selSpec]
      split <;> simp

/-! ### dst elsewhere (nil / fresh / detached / inside s2): `s1` is only read -/

theorem push_content_not_in1 (M : Mem) (o : Out) (v : Int) (h : o.loc ≠ .in1) :
    (push M o v).1.m1 = M.m1 ∧ (push M o v).2.loc ≠ .in1 ∧
    Out.content (push M o v).1 (push M o v).2 = Out.content M o ++ [v] ∧
    (o.loc = .own → (push M o v).1 = M ∧ (push M o v).2.loc = .own) := by
  cases hl : o.loc with
  | in1 => exact absurd hl h
  | own => simp [push, hl, Out.content, Out.result]
  | in2 =>
    simp only [push, hl]
    split
    · rename_i hj
      refine ⟨rfl, by simp, ?_, by simp⟩
      simp only [Out.content, Out.result, hl]
      exact take_set_succ _ _ _ hj
    · simp [Out.content, Out.result, hl]

theorem selLoop_not_in1 {σ : Type} (sel : σ → Int → σ × Bool) (f i : Nat) (st : σ) (M : Mem) (o : Out)
    (hloc : o.loc ≠ .in1) (hf : f + i = M.m1.length) :
    ∃ M' o', selLoop sel f i st M o = some (M', o') ∧ M'.m1 = M.m1 ∧
      Out.content M' o' = Out.content M o ++ selSpec sel st (M.m1.drop i) ∧
      (o.loc = .own → M' = M) := by
  induction f generalizing i st M o with
  | zero =>
    refine ⟨M, o, rfl, rfl, ?_, fun _ => rfl⟩
    rw [List.drop_eq_nil_of_le (by omega)]; simp [selSpec]
  | succ f ih =>
    have hi : i < M.m1.length := by omega
    have hv : M.m1[i]? = some M.m1[i] := List.getElem?_eq_getElem hi
    simp only [selLoop, selStep, hv]
    rw [drop_eq_cons hv, selSpec]
    cases ht : (sel st M.m1[i]).2
    · have : sel st M.m1[i] = ((sel st M.m1[i]).1, false) := by rw [← ht]
      rw [this]
      simp only [Bool.false_eq_true, if_false]
      exact ih (i + 1) _ M o hloc (by omega)
    · have : sel st M.m1[i] = ((sel st M.m1[i]).1, true) := by rw [← ht]
      rw [this]
      simp only [if_true]
      obtain ⟨h1, h2, h3, h4⟩ := push_content_not_in1 M o M.m1[i] hloc
      obtain ⟨M'', o'', hs, hm, hc, ho⟩ := ih (i + 1) (sel st M.m1[i]).1 (push M o M.m1[i]).1 (push M o M.m1[i]).2 h2
        (by rw [h1]; omega)
      refine ⟨M'', o'', hs, by rw [hm, h1], ?_, ?_⟩
      · rw [hc, h3, h1]; simp
      · intro hown
        rw [ho (h4 hown).2, (h4 hown).1]

/-! ### specs of the selectors -/

theorem selSpec_stateless (p : Int → Bool) (l : List Int) :
    selSpec (statelessSel p) () l = l.filter p := by
  induction l with
  | nil => rfl
  | cons v vs ih => simp only [selSpec, statelessSel, ih, List.filter_cons]

theorem selSpec_all (l : List Int) : selSpec (σ := Unit) (fun _ _ => ((), true)) () l = l := by
  induction l with
  | nil => rfl
  | cons v vs ih => simp only [selSpec, ih, if_true]

/-- First occurrences by key: keep `v` iff no earlier element has the same key. -/
def firstOcc (key : Int → Int) : List Int → List Int → List Int
  | _, [] => []
  | seen, v :: vs =>
    if seen.contains (key v) then firstOcc key seen vs else v :: firstOcc key (key v :: seen) vs

theorem selSpec_unique (key : Int → Int) (seen : List Int) (l : List Int) :
    selSpec (uniqueSel key) (seen, seen.length) l = firstOcc key seen l := by
  induction l generalizing seen with
  | nil => rfl
  | cons v vs ih =>
    simp only [selSpec, uniqueSel, mapInsert, firstOcc]
    by_cases hc : seen.contains (key v) = true
    · simp only [hc, if_true, Nat.lt_irrefl, if_false, Bool.false_eq_true]
      exact ih seen
    · simp only [hc, Bool.false_eq_true, if_false, List.length_cons, Nat.lt_succ_self, if_true]
      have := ih (key v :: seen)
      simp only [List.length_cons] at this
      rw [this]

end Golib.C14
