/-
C07 — tie between the regenerated escape PARSERS (`Golib/Gen/TransC07.lean`: `OctalParse`, `HexParse`,
translated from `strz/enc.go` on every run) and the hand-written cursor layer of `Golib/Model/C07Enc.lean`
(`parse octalBody`, `parse hexBody`: the definitions `c07_no_panic`, `c07_len_le`, `c07_cursor_eq_fun`,
the round trips … are about).

Representation: the model has `Nat` bytes and `Nat` cursors, the translation `BitVec 8` bytes and `Int`
cursors.  `bytesOf` (`BitVec.toNat` on every byte) abstracts the arguments, `ofBytes` (`BitVec.ofNat 8`)
brings the model's `dst` back; `ofBytes (bytesOf d) = d` for every `d`.
-/
import Golib.Proof.C07Trans
import Golib.Proof.C07Progress
import Golib.Proof.C07Round

set_option linter.unusedSimpArgs false

namespace Golib.C07.Tie
open Golib.GoSem

/-- Concretisation of a model byte string. -/
def ofBytes (s : Bytes) : List (BitVec 8) := s.map (BitVec.ofNat 8)

@[simp] theorem ofBytes_bytesOf (d : List (BitVec 8)) : ofBytes (bytesOf d) = d := by
  induction d with
  | nil => rfl
  | cons c t ih =>
    simp only [ofBytes, bytesOf, List.map_cons, BitVec.ofNat_toNat, BitVec.setWidth_eq] at ih ⊢
    rw [ih]

@[simp] theorem bytesOf_length (d : List (BitVec 8)) : (bytesOf d).length = d.length := by
  simp [bytesOf]

theorem bytesOf_getElem? (d : List (BitVec 8)) (i : Nat) : (bytesOf d)[i]? = d[i]?.map BitVec.toNat := by
  simp [bytesOf]

theorem bytesOf_take (d : List (BitVec 8)) (n : Nat) : (bytesOf d).take n = bytesOf (d.take n) := by
  simp [bytesOf, List.map_take]

theorem bytesOf_drop (d : List (BitVec 8)) (n : Nat) : (bytesOf d).drop n = bytesOf (d.drop n) := by
  simp [bytesOf, List.map_drop]

theorem bytesOf_append (a b : List (BitVec 8)) : bytesOf a ++ bytesOf b = bytesOf (a ++ b) := by
  simp [bytesOf]

/-- The model's result brought to the types of the translation. -/
def concRes : Golib.C07.Res (Nat × Bytes) → GoSem.Res (Int × List (BitVec 8))
  | .ok (n, d) => .ok ((n : Int), ofBytes d)
  | .panic => .panic
  | .fuel => .fuel

/-- Go's `s[a:b]` in both worlds. -/
theorem slice_bridge (s : List (BitVec 8)) (a b : Nat) :
    GoSem.slice s (a : Int) (b : Int) =
      match Golib.C07.slice (bytesOf s) a b with
      | none => .panic
      | some seg => .ok (ofBytes seg) := by
  rw [GoSem.slice_natCast]
  unfold Golib.C07.slice
  by_cases h : a ≤ b ∧ b ≤ s.length
  · have h' : ¬ (b < a ∨ s.length < b) := by omega
    simp only [h', if_false, bytesOf_length, h, and_self, if_true, bytesOf_take, bytesOf_drop, ofBytes_bytesOf]
  · have h' : (b < a ∨ s.length < b) := by omega
    simp only [h', if_true, bytesOf_length, h, if_false]

theorem slice_ok (s : List (BitVec 8)) (a b : Nat) (h1 : a ≤ b) (h2 : b ≤ s.length) :
    GoSem.slice s (a : Int) (b : Int) = .ok ((s.take b).drop a) ∧
    Golib.C07.slice (bytesOf s) a b = some (bytesOf ((s.take b).drop a)) := by
  constructor
  · rw [GoSem.slice_natCast]
    have h' : ¬ (b < a ∨ s.length < b) := by omega
    simp only [h', if_false]
  · simp only [Golib.C07.slice, bytesOf_length, h1, h2, and_self, if_true, bytesOf_take, bytesOf_drop]

/-- `copy(dst[e:], seg)` in both worlds. -/
theorem copyAt_bridge (dst seg : List (BitVec 8)) (e : Nat) :
    GoSem.copyAt dst (e : Int) (Int.ofNat dst.length) seg =
      match Golib.C07.copyAt (bytesOf dst) e (bytesOf seg) with
      | none => .panic
      | some (d, k) => .ok (ofBytes d, (k : Int)) := by
  have := GoSem.copyAt_natCast dst e dst.length seg
  simp only [Int.ofNat_eq_natCast] at this ⊢
  rw [this]
  unfold Golib.C07.copyAt
  by_cases h : e ≤ dst.length
  · have h' : ¬ (dst.length < e ∨ dst.length < dst.length) := by omega
    simp only [h', if_false, bytesOf_length, h, if_true, GoSem.copySlice, bytesOf_take, bytesOf_drop, bytesOf_append,
      ofBytes_bytesOf, List.length_drop, List.length_take, Nat.min_self, Int.ofNat_eq_natCast]
    congr 2
    apply List.ext_getElem?; intro k
    simp only [List.getElem?_take, List.getElem?_drop, List.getElem?_append, List.length_take, List.length_drop,
      List.length_append]
    grind
  · have h' : (dst.length < e ∨ dst.length < dst.length) := by omega
    simp only [h', if_true, bytesOf_length, h, if_false]

/-- `dst[e] = byte(n)` against the model's all-or-panic one-byte write. -/
theorem setIdx_bridge (dst : List (BitVec 8)) (e : Nat) (b : BitVec 8) :
    GoSem.setIdx dst (e : Int) b =
      match Golib.C07.writeAt (bytesOf dst) e [b.toNat] with
      | none => .panic
      | some (d, _) => .ok (ofBytes d) := by
  rw [GoSem.setIdx_natCast]
  unfold Golib.C07.writeAt
  by_cases h : e < dst.length
  · have h' : e + 1 ≤ dst.length := by omega
    simp only [h, if_true, List.length_singleton, bytesOf_length, h']
    have : [b.toNat] = bytesOf [b] := rfl
    rw [this]
    simp only [bytesOf_take, bytesOf_drop, bytesOf_append, ofBytes_bytesOf, List.set_eq_take_append_cons_drop, h, if_true,
      List.append_assoc, List.singleton_append]
  · have h' : ¬ e + 1 ≤ dst.length := by omega
    simp only [h, if_false, List.length_singleton, bytesOf_length, h']

theorem writeAt_k {dst : Bytes} {e : Nat} {bs d : Bytes} {k : Nat} (h : Golib.C07.writeAt dst e bs = some (d, k)) :
    k = bs.length := by
  unfold Golib.C07.writeAt at h
  split at h
  · simp only [Option.some.injEq, Prod.mk.injEq] at h; omega
  · simp at h

theorem byte_of_u64 (v : Nat) : ((BitVec.ofNat 64 v).setWidth 8).toNat = v % 256 := by
  simp only [BitVec.toNat_setWidth, BitVec.toNat_ofNat]
  omega

/-- bridges with `Int` arguments that are casts of naturals up to arithmetic (`omega` finds the natural). -/
theorem slice_ok' (s : List (BitVec 8)) (a b : Int) (a' b' : Nat) (ha : a = a') (hb : b = b')
    (h1 : a' ≤ b') (h2 : b' ≤ s.length) :
    GoSem.slice s a b = .ok ((s.take b').drop a') := by
  subst ha hb; exact (slice_ok s a' b' h1 h2).1

theorem idx_ok' (s : List (BitVec 8)) (i : Int) (i' : Nat) (hi : i = i') (h : i' < s.length) :
    GoSem.idx s i = .ok s[i'] := by
  subst hi; exact GoSem.idx_ofNat s i' h

theorem parseUint_lit (seg : List (BitVec 8)) (base bits : Nat) (h2 : 2 ≤ base) (hb : base < 2 ^ 64) (hbits : bits < 2 ^ 64)
    (b' n' : Int) (hb' : b' = base) (hn' : n' = bits) :
    Golib.Gen.Trans.C07.parseUint seg b' n'
      = .ok (BitVec.ofNat 64 (Golib.C07.parseUint (bytesOf seg) base bits).1,
             ((Golib.C07.parseUint (bytesOf seg) base bits).2.1 : Int),
             (Golib.C07.parseUint (bytesOf seg) base bits).2.2) := by
  subst hb' hn'; exact trans_parseUint_eq seg base bits h2 hb hbits

/-- the generated flush block, whatever its surface shape, is built from these two calls -/
theorem flush_false (src dst : Bytes) (e f i : Nat) (h : ¬ f < i) :
    flush src ⟨dst, e, f, i⟩ = some ⟨dst, e, f, i⟩ := by
  simp [flush, h]

theorem flush_true (src dst : List (BitVec 8)) (e f i : Nat) (h : f < i) (hi : i ≤ src.length) :
    flush (bytesOf src) ⟨bytesOf dst, e, f, i⟩ =
      match Golib.C07.copyAt (bytesOf dst) e (bytesOf ((src.take i).drop f)) with
      | none => none
      | some (d, k) => some ⟨d, e + k, f, i⟩ := by
  simp only [flush, h, if_true, (slice_ok src f i (by omega) hi).2]
  split <;> simp_all

/-- `copy(dst[e:], seg)` in both worlds: the same outcome, the model's bytes are the translation's. -/
theorem copyAt_both (dst seg : List (BitVec 8)) (e' : Int) (e : Nat) (he : e' = e) :
    (∃ d, ∃ k : Nat, GoSem.copyAt dst e' (Int.ofNat dst.length) seg = .ok (d, (k : Int)) ∧
        Golib.C07.copyAt (bytesOf dst) e (bytesOf seg) = some (bytesOf d, k)) ∨
    (GoSem.copyAt dst e' (Int.ofNat dst.length) seg = .panic ∧
        Golib.C07.copyAt (bytesOf dst) e (bytesOf seg) = none) := by
  subst he
  have := GoSem.copyAt_natCast dst e dst.length seg
  simp only [Int.ofNat_eq_natCast] at this ⊢
  rw [this]
  unfold Golib.C07.copyAt
  by_cases h : e ≤ dst.length
  · left
    have h' : ¬ (dst.length < e ∨ dst.length < dst.length) := by omega
    refine ⟨dst.take e ++ (copySlice ((dst.take dst.length).drop e) seg).1 ++ dst.drop dst.length,
      min (dst.length - e) seg.length, ?_, ?_⟩
    · simp only [h', if_false, GoSem.copySlice, List.length_drop, List.length_take, Nat.min_self, Int.ofNat_eq_natCast]
    · simp only [bytesOf_length, h, if_true, bytesOf_take, bytesOf_drop, bytesOf_append, GoSem.copySlice,
        List.length_drop, List.length_take, Nat.min_self]
      congr 3
      apply List.ext_getElem?; intro k
      simp only [List.getElem?_take, List.getElem?_drop, List.getElem?_append, List.length_take, List.length_drop,
        List.length_append]
      grind
  · right
    have h' : (dst.length < e ∨ dst.length < dst.length) := by omega
    simp only [h', if_true, bytesOf_length, h, if_false, and_self]

/-- `dst[e] = b` against the model's all-or-panic write of the one byte. -/
theorem setIdx_both (dst : List (BitVec 8)) (e' : Int) (e : Nat) (he : e' = e) (b : BitVec 8) :
    (∃ d, GoSem.setIdx dst e' b = .ok d ∧
        Golib.C07.writeAt (bytesOf dst) e [b.toNat] = some (bytesOf d, 1)) ∨
    (GoSem.setIdx dst e' b = .panic ∧ Golib.C07.writeAt (bytesOf dst) e [b.toNat] = none) := by
  subst he
  rw [GoSem.setIdx_natCast]
  unfold Golib.C07.writeAt
  have hb : [b.toNat] = bytesOf [b] := rfl
  by_cases h : e < dst.length
  · left
    have h' : e + 1 ≤ dst.length := by omega
    refine ⟨dst.set e b, by simp only [h, if_true], ?_⟩
    simp only [List.length_singleton, bytesOf_length, h', if_true, hb, bytesOf_take, bytesOf_drop, bytesOf_append,
      List.set_eq_take_append_cons_drop, h, List.append_assoc, List.singleton_append]
  · right
    have h' : ¬ e + 1 ≤ dst.length := by omega
    simp only [h, if_false, List.length_singleton, bytesOf_length, h', and_self]

/-! ### `OctalParse` -/

section
open Golib.Gen.Trans.C07 (OctalParse_loop1 HexParse_loop1)

/-- How one round of a translated loop (`r`) follows the outcome of the model's loop body: the model's
bytes are the `bytesOf` of the translation's `dst`, the cursors are the same numbers. -/
inductive StepRel {σ : Type} (brk cont : List (BitVec 8) → Int → Int → Int → GoSem.Res σ) : Option Step → GoSem.Res σ → Prop
  | panic : StepRel brk cont none .panic
  | brk (d : List (BitVec 8)) (e f i : Nat) (r : GoSem.Res σ) (h : r = brk d e f i) :
      StepRel brk cont (some (.brk ⟨bytesOf d, e, f, i⟩)) r
  | cont (d : List (BitVec 8)) (e f i : Nat) (r : GoSem.Res σ) (h : r = cont d e f i) :
      StepRel brk cont (some (.cont ⟨bytesOf d, e, f, i⟩)) r

/-- the common tail of the byte codecs: `if f < i { e += copy(dst[e:], src[f:i]) }; dst[e] = byte(n); e++; i += k; f = i`.
The two calls are rewritten through their bridges whatever the surrounding text looks like. -/
macro "emit_tail" src:ident dst:ident e:ident f:ident i:ident v:ident : tactic => `(tactic|
  (by_cases hfi : $f < $i
   · have hfi' : (($f : Nat) : Int) < (($i : Nat) : Int) := by omega
     simp only [hfi', decide_true, if_true]
     rw [slice_ok' $src _ _ $f $i rfl rfl (by omega) (by omega), flush_true $src $dst $e $f $i hfi (by omega)]
     simp only [Res.bind_ok']
     rcases copyAt_both $dst ((List.take $i $src).drop $f) _ $e rfl with ⟨d, k, h1, h2⟩ | ⟨h1, h2⟩
     · rw [h1, h2]
       simp only [Res.bind_ok']
       rcases setIdx_both d (($e : Nat) + (k : Nat)) ($e + k) (by omega) (BitVec.setWidth 8 (BitVec.ofNat 64 $v))
         with ⟨d2, h3, h4⟩ | ⟨h3, h4⟩
       · rw [byte_of_u64] at h4
         rw [h3, h4]
         simp only [Res.bind_ok']
         apply StepRel.cont
         congr 1 <;> omega
       · rw [byte_of_u64] at h4
         rw [h3, h4]
         simp only [Res.bind_panic']
         exact StepRel.panic
     · rw [h1, h2]
       simp only [Res.bind_panic']
       exact StepRel.panic
   · have hfi' : ¬ (($f : Nat) : Int) < (($i : Nat) : Int) := by omega
     simp only [hfi', decide_false, Bool.false_eq_true, if_false, Res.bind_ok', flush_false _ _ _ _ _ hfi]
     rcases setIdx_both $dst (($e : Nat) : Int) $e rfl (BitVec.setWidth 8 (BitVec.ofNat 64 $v)) with ⟨d2, h3, h4⟩ | ⟨h3, h4⟩
     · rw [byte_of_u64] at h4
       rw [h3, h4]
       simp only [Res.bind_ok']
       apply StepRel.cont
       congr 1 <;> omega
     · rw [byte_of_u64] at h4
       rw [h3, h4]
       simp only [Res.bind_panic']
       exact StepRel.panic))

theorem octal_step (src dst : List (BitVec 8)) (e f i fuel : Nat) (hi : i < src.length) :
    StepRel (fun d e f i => .ok (d, e, f, i)) (OctalParse_loop1 fuel src)
      (octalBody (bytesOf src) ⟨bytesOf dst, e, f, i⟩)
      (OctalParse_loop1 (fuel + 1) src dst (e : Int) (f : Int) (i : Int)) := by
  conv => arg 4; unfold OctalParse_loop1
  unfold octalBody
  have hlt : (i : Int) < Int.ofNat src.length := by simp; omega
  simp only [hlt, decide_true, if_true, bytesOf_length]
  by_cases h4 : src.length - i < 4
  · have h4' : Int.ofNat src.length - (i : Int) < 4 := by simp; omega
    simp only [h4, h4', decide_true, if_true]
    exact StepRel.brk _ _ _ _ _ rfl
  · have h4' : ¬ Int.ofNat src.length - (i : Int) < 4 := by simp; omega
    simp only [h4, h4', decide_false, if_false, Bool.false_eq_true]
    rw [idx_ok' src _ i rfl hi]
    have hm : (bytesOf src)[i]? = some (src[i]).toNat := by
      simp [bytesOf_getElem?, List.getElem?_eq_getElem hi]
    simp only [hm, bind, pure, Res.bind_ok']
    generalize src[i] = c
    by_cases hc : c = 92#8
    · subst hc
      simp only [bne_self_eq_false, beq_self_eq_true, Bool.not_true, Bool.not_not, Bool.false_eq_true, if_false, BitVec.toNat_ofNat, Nat.reducePow, Nat.reduceMod,
        ne_eq, not_true_eq_false]
      rw [slice_ok' src _ _ (i + 1) (i + 4) (by omega) (by omega) (by omega) (by omega)]
      rw [(slice_ok src (i + 1) (i + 4) (by omega) (by omega)).2]
      simp only [Res.bind_ok']
      rw [parseUint_lit _ 8 8 (by omega) (by omega) (by omega) (8 : Int) (8 : Int) rfl rfl]
      simp only [Res.bind_ok']
      generalize Golib.C07.parseUint (bytesOf (List.drop (i + 1) (List.take (i + 4) src))) 8 8 = r
      obtain ⟨v, j, ok⟩ := r
      cases ok
      · simp only [Bool.not_false, if_true]
        apply StepRel.cont
        congr 1 <;> omega
      · simp only [Bool.not_true, Bool.false_eq_true, if_false]
        emit_tail src dst e f i v
    · have hc' : c.toNat ≠ 92 := by
        intro h; apply hc; apply BitVec.eq_of_toNat_eq; simpa using h
      have hb : (c != 92#8) = true := by simpa using hc
      have hbe : (c == 92#8) = false := by simpa using hc
      simp only [hb, hbe, Bool.not_false, Bool.not_true, Bool.not_not, if_true, ne_eq, hc', not_false_eq_true]
      apply StepRel.cont
      congr 1 <;> omega

/-- Outcome of a translated loop against the outcome of the model's loop. -/
inductive LoopRel : Golib.C07.Res St → GoSem.Res (List (BitVec 8) × Int × Int × Int) → Prop
  | ok (d : List (BitVec 8)) (e f i : Nat) : LoopRel (.ok ⟨bytesOf d, e, f, i⟩) (.ok (d, (e : Int), (f : Int), (i : Int)))
  | panic : LoopRel .panic .panic

/-- The generic loop theorem: a translated loop `G` whose rounds follow the model's body (`StepRel`) and that stops
where the model stops computes the model's loop, and the fuel `len(src) - i + 1` is never exhausted. -/
theorem loop_rel (src : List (BitVec 8)) (body : St → Option Step)
    (G : Nat → List (BitVec 8) → Int → Int → Int → GoSem.Res (List (BitVec 8) × Int × Int × Int))
    (hp : Progress body)
    (hstep : ∀ (fuel : Nat) (dst : List (BitVec 8)) (e f i : Nat), i < src.length →
      StepRel (fun d e f i => .ok (d, e, f, i)) (G fuel) (body ⟨bytesOf dst, e, f, i⟩) (G (fuel + 1) dst e f i))
    (hend : ∀ (fuel : Nat) (dst : List (BitVec 8)) (e f i : Nat), ¬ i < src.length →
      G (fuel + 1) dst e f i = .ok (dst, (e : Int), (f : Int), (i : Int))) :
    ∀ (fuel : Nat) (dst : List (BitVec 8)) (e f i : Nat), src.length - i < fuel →
      LoopRel (loop body src.length fuel ⟨bytesOf dst, e, f, i⟩) (G fuel dst e f i) := by
  intro fuel
  induction fuel with
  | zero => intro dst e f i h; omega
  | succ fuel ih =>
    intro dst e f i hf
    by_cases hi : i < src.length
    · have hs := hstep fuel dst e f i hi
      unfold loop
      simp only [hi, if_true]
      generalize hb : body ⟨bytesOf dst, e, f, i⟩ = ob at hs
      generalize G (fuel + 1) dst (e : Int) (f : Int) (i : Int) = g at hs ⊢
      cases hs with
      | panic => exact LoopRel.panic
      | brk d e' f' i' r h => subst h; exact LoopRel.ok d e' f' i'
      | cont d e' f' i' r h =>
        subst h
        have hprog := hp _ _ hb
        simp only [] at hprog
        exact ih d e' f' i' (by omega)
    · rw [hend fuel dst e f i hi]
      unfold loop
      simp only [hi, if_false]
      exact LoopRel.ok dst e f i

/-- Outcome of a translated `XxxParse(dst, src)` against the model's `parse`: the same count, the model's `dst` is the
`bytesOf` of the translation's, a panic exactly where the model panics, and the fuel is never exhausted. -/
inductive OutRel : Golib.C07.Res (Nat × Bytes) → GoSem.Res (Int × List (BitVec 8)) → Prop
  | ok (n : Nat) (d : List (BitVec 8)) : OutRel (.ok (n, bytesOf d)) (.ok ((n : Int), d))
  | panic : OutRel .panic .panic

/-- the trailing `if f < len(src) { e += copy(dst[e:], src[f:]) }; return e` against `finish`. -/
macro "fin_tail" src:ident d:ident e:ident f:ident : tactic => `(tactic|
  (unfold finish
   by_cases hfl : $f < List.length $src
   · have hfl' : (($f : Nat) : Int) < Int.ofNat (List.length $src) := by simp; omega
     simp only [hfl', decide_true, if_true]
     rw [slice_ok' $src _ (Int.ofNat (List.length $src)) $f (List.length $src) rfl rfl (by omega) (by omega)]
     have hft := flush_true $src $d $e $f (List.length $src) hfl (by omega)
     simp only [bytesOf_length] at hft ⊢
     rw [hft]
     simp only [Res.bind_ok']
     rcases copyAt_both $d ((List.take (List.length $src) $src).drop $f) _ $e rfl with ⟨d2, k, h1, h2⟩ | ⟨h1, h2⟩
     · rw [h1, h2]
       simp only [Res.bind_ok']
       have hk : (($e : Nat) : Int) + ((k : Nat) : Int) = (($e + k : Nat) : Int) := by omega
       rw [hk]
       exact OutRel.ok _ _
     · rw [h1, h2]
       simp only [Res.bind_panic']
       exact OutRel.panic
   · have hfl' : ¬ (($f : Nat) : Int) < Int.ofNat (List.length $src) := by simp; omega
     simp only [hfl', decide_false, Bool.false_eq_true, if_false, Res.bind_ok', bytesOf_length,
       flush_false _ _ _ _ _ hfl]
     exact OutRel.ok _ _))

theorem octal_end (src : List (BitVec 8)) (fuel : Nat) (dst : List (BitVec 8)) (e f i : Nat) (h : ¬ i < src.length) :
    OctalParse_loop1 (fuel + 1) src dst e f i = .ok (dst, (e : Int), (f : Int), (i : Int)) := by
  unfold OctalParse_loop1
  have hlt : ¬ (i : Int) < Int.ofNat src.length := by simp; omega
  simp only [hlt, decide_false, Bool.false_eq_true, if_false]

/-- The regenerated `OctalParse` IS the cursor model `parse octalBody`, for every `dst` and `src` (also a `dst` that is
too short: both panic then). -/
theorem trans_OctalParse_rel (dst src : List (BitVec 8)) :
    OutRel (parse octalBody (bytesOf dst) (bytesOf src)) (Golib.Gen.Trans.C07.OctalParse dst src) := by
  unfold Golib.Gen.Trans.C07.OctalParse parse run
  have hl := loop_rel src (octalBody (bytesOf src)) (fun fuel => OctalParse_loop1 fuel src)
    (octal_progress _) (fun fuel dst e f i hi => octal_step src dst e f i fuel hi) (octal_end src)
    (src.length + 1) dst 0 0 0 (by omega)
  simp only [Int.natCast_zero, bytesOf_length] at hl ⊢
  generalize loop (octalBody (bytesOf src)) src.length (src.length + 1) ⟨bytesOf dst, 0, 0, 0⟩ = ml at hl ⊢
  generalize OctalParse_loop1 (src.length + 1) src dst 0 0 0 = gl at hl ⊢
  cases hl with
  | panic => simp only [bind, Res.bind_panic']; exact OutRel.panic
  | ok d e f i =>
    simp only [bind, pure, Res.bind_ok']
    fin_tail src d e f

/-! ### `HexParse` -/

theorem hex_step (src dst : List (BitVec 8)) (e f i fuel : Nat) (hi : i < src.length) :
    StepRel (fun d e f i => .ok (d, e, f, i)) (HexParse_loop1 fuel src)
      (hexBody (bytesOf src) ⟨bytesOf dst, e, f, i⟩)
      (HexParse_loop1 (fuel + 1) src dst (e : Int) (f : Int) (i : Int)) := by
  conv => arg 4; unfold HexParse_loop1
  unfold hexBody
  have hlt : (i : Int) < Int.ofNat src.length := by simp; omega
  simp only [hlt, decide_true, if_true, bytesOf_length]
  by_cases h4 : src.length - i < 4
  · have h4' : Int.ofNat src.length - (i : Int) < 4 := by simp; omega
    simp only [h4, h4', decide_true, if_true]
    exact StepRel.brk _ _ _ _ _ rfl
  · have h4' : ¬ Int.ofNat src.length - (i : Int) < 4 := by simp; omega
    simp only [h4, h4', decide_false, if_false, Bool.false_eq_true]
    have hi1 : i + 1 < src.length := by omega
    rw [idx_ok' src _ i rfl hi]
    have hm : (bytesOf src)[i]? = some (src[i]).toNat := by
      simp [bytesOf_getElem?, List.getElem?_eq_getElem hi]
    have hm1 : (bytesOf src)[i + 1]? = some (src[i + 1]).toNat := by
      simp [bytesOf_getElem?, List.getElem?_eq_getElem hi1]
    simp only [hm, hm1, bind, pure, Res.bind_ok']
    generalize src[i] = c
    by_cases hc : c = 92#8
    · subst hc
      simp only [bne_self_eq_false, beq_self_eq_true, Bool.not_true, Bool.not_not, Bool.not_false, Bool.false_eq_true, if_true, if_false, BitVec.toNat_ofNat,
        Nat.reducePow, Nat.reduceMod, ne_eq, not_true_eq_false]
      rw [idx_ok' src _ (i + 1) (by omega) hi1]
      simp only [Res.bind_ok']
      generalize src[i + 1] = c1
      by_cases hc1 : c1 = 120#8
      · subst hc1
        simp only [bne_self_eq_false, beq_self_eq_true, Bool.not_true, Bool.not_not, Bool.false_eq_true, if_false, BitVec.toNat_ofNat, Nat.reducePow, Nat.reduceMod,
          ne_eq, not_true_eq_false]
        rw [slice_ok' src _ _ (i + 2) (i + 4) (by omega) (by omega) (by omega) (by omega)]
        rw [(slice_ok src (i + 2) (i + 4) (by omega) (by omega)).2]
        simp only [Res.bind_ok']
        rw [parseUint_lit _ 16 8 (by omega) (by omega) (by omega) (16 : Int) (8 : Int) rfl rfl]
        simp only [Res.bind_ok']
        generalize Golib.C07.parseUint (bytesOf (List.drop (i + 2) (List.take (i + 4) src))) 16 8 = r
        obtain ⟨v, j, ok⟩ := r
        cases ok
        · simp only [Bool.not_false, if_true]
          apply StepRel.cont
          congr 1 <;> omega
        · simp only [Bool.not_true, Bool.false_eq_true, if_false]
          emit_tail src dst e f i v
      · have hc1' : c1.toNat ≠ 120 := by
          intro h; apply hc1; apply BitVec.eq_of_toNat_eq; simpa using h
        have hb : (c1 != 120#8) = true := by simpa using hc1
        have hbe : (c1 == 120#8) = false := by simpa using hc1
        simp only [hb, hbe, Bool.not_false, Bool.not_true, Bool.not_not, if_true, ne_eq, hc1', not_false_eq_true]
        apply StepRel.cont
        congr 1 <;> omega
    · have hc' : c.toNat ≠ 92 := by
        intro h; apply hc; apply BitVec.eq_of_toNat_eq; simpa using h
      have hb : (c != 92#8) = true := by simpa using hc
      have hbe : (c == 92#8) = false := by simpa using hc
      simp only [hb, hbe, Bool.not_false, Bool.not_true, Bool.not_not, Bool.not_true, Bool.false_eq_true, if_false, if_true, Res.bind_ok', ne_eq, hc', not_false_eq_true]
      apply StepRel.cont
      congr 1 <;> omega

theorem hex_end (src : List (BitVec 8)) (fuel : Nat) (dst : List (BitVec 8)) (e f i : Nat) (h : ¬ i < src.length) :
    HexParse_loop1 (fuel + 1) src dst e f i = .ok (dst, (e : Int), (f : Int), (i : Int)) := by
  unfold HexParse_loop1
  have hlt : ¬ (i : Int) < Int.ofNat src.length := by simp; omega
  simp only [hlt, decide_false, Bool.false_eq_true, if_false]

/-- The regenerated `HexParse` IS the cursor model `parse hexBody`, for every `dst` and `src`. -/
theorem trans_HexParse_rel (dst src : List (BitVec 8)) :
    OutRel (parse hexBody (bytesOf dst) (bytesOf src)) (Golib.Gen.Trans.C07.HexParse dst src) := by
  unfold Golib.Gen.Trans.C07.HexParse parse run
  have hl := loop_rel src (hexBody (bytesOf src)) (fun fuel => HexParse_loop1 fuel src)
    (hex_progress _) (fun fuel dst e f i hi => hex_step src dst e f i fuel hi) (hex_end src)
    (src.length + 1) dst 0 0 0 (by omega)
  simp only [Int.natCast_zero, bytesOf_length] at hl ⊢
  generalize loop (hexBody (bytesOf src)) src.length (src.length + 1) ⟨bytesOf dst, 0, 0, 0⟩ = ml at hl ⊢
  generalize HexParse_loop1 (src.length + 1) src dst 0 0 0 = gl at hl ⊢
  cases hl with
  | panic => simp only [bind, Res.bind_panic']; exact OutRel.panic
  | ok d e f i =>
    simp only [bind, pure, Res.bind_ok']
    fin_tail src d e f

end

/-! ### what the relation gives on the translated definitions themselves -/

/-- the tie in the form used by `Props/C07.lean`. -/
def TieStmt (m : Golib.C07.Res (Nat × Bytes)) (g : GoSem.Res (Int × List (BitVec 8))) : Prop :=
  match m with
  | .ok (n, d) => ∃ d', g = .ok ((n : Int), d') ∧ bytesOf d' = d
  | .panic => g = .panic
  | .fuel => False

theorem OutRel.tie {m : Golib.C07.Res (Nat × Bytes)} {g : GoSem.Res (Int × List (BitVec 8))} (h : OutRel m g) :
    TieStmt m g := by
  cases h with
  | ok n d => exact ⟨d, rfl, rfl⟩
  | panic => rfl

/-- A translated parser that is tied to the cursor model of codec `c` never panics when `len(dst) ≥ len(src)`, returns
`0 ≤ n ≤ len(src)`, leaves `len(dst)` unchanged, and `dst[:n]` is the functional parser's output. -/
theorem gen_total (c : Codec) (G : List (BitVec 8) → List (BitVec 8) → GoSem.Res (Int × List (BitVec 8)))
    (hrel : ∀ dst src, OutRel (parse c.body (bytesOf dst) (bytesOf src)) (G dst src))
    (dst src : List (BitVec 8)) (h : src.length ≤ dst.length) :
    ∃ (n : Nat) (d' : List (BitVec 8)), G dst src = .ok ((n : Int), d') ∧ n ≤ src.length ∧ d'.length = dst.length ∧
      bytesOf (d'.take n) = parseFun c.dec (bytesOf src) := by
  obtain ⟨e, dm, hp, hl, he, ht⟩ := run_spec (body := c.body) (dst := bytesOf dst) (src := bytesOf src)
    (by simpa using h) (c.bodySpec _ _)
  have hr := hrel dst src
  rw [hp] at hr
  generalize G dst src = g at hr
  cases hr with
  | ok n d =>
    refine ⟨e, d, rfl, by simpa using he, by simpa using hl, ?_⟩
    rw [← bytesOf_take]; exact ht

end Golib.C07.Tie
