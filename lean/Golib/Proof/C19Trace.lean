/-
C19 — accepted traces satisfy the trace predicates: machine lemmas about the acceptor
(`advN`, `settle` are runs of `St.step`s that only move tasks which have left their
function and need no observable event), and the ghost invariant `TInv tr m s` relating
an accepted trace `tr` to the state `s` the acceptor is in.
-/
import Golib.Model.C19Trace
import Golib.Proof.C19Fill

namespace Golib.C19

/-! ### `accepts` -/

theorem accepts_append (s : St) (a b : List Ev) :
    accepts s (a ++ b) = (accepts s a).bind (fun s' => accepts s' b) := by
  induction a generalizing s with
  | nil => simp [accepts]
  | cons e es ih =>
    simp only [List.cons_append, accepts]
    cases acceptE s e with
    | none => simp
    | some s1 => simpa using ih s1

theorem accepts_snoc {s s' : St} {p : List Ev} {e : Ev} (h : accepts s (p ++ [e]) = some s') :
    ∃ s1, accepts s p = some s1 ∧ acceptE s1 e = some s' := by
  rw [accepts_append] at h
  cases h1 : accepts s p with
  | none => rw [h1] at h; cases h
  | some s1 =>
    rw [h1] at h
    refine ⟨s1, rfl, ?_⟩
    simp only [Option.bind_some, accepts] at h
    cases h2 : acceptE s1 e with
    | none => rw [h2] at h; cases h
    | some s2 => rw [h2] at h; simpa using h

theorem accepts_prefix {s s' : St} {p tr : List Ev} (hp : p <+: tr) (h : accepts s tr = some s') :
    ∃ s1, accepts s p = some s1 := by
  obtain ⟨q, rfl⟩ := hp
  rw [accepts_append] at h
  cases h1 : accepts s p with
  | none => rw [h1] at h; cases h
  | some s1 => exact ⟨s1, rfl⟩

/-! ### internal steps -/

theorem advN_run {s s' : St} {i : Nat} (n : Nat) (h : advN s i n = some s') :
    s.run (List.replicate n (.adv i)) = some s' := by
  induction n generalizing s with
  | zero => simpa [advN, St.run] using h
  | succ n ih =>
    simp only [advN] at h
    simp only [List.replicate_succ, St.run]
    cases hs : s.step (.adv i) with
    | none => rw [hs] at h; cases h
    | some s1 => rw [hs] at h; exact ih h

/-- `s'` comes from `s` by machine steps that only move tasks which have left their
function (rank ≥ 5) and are not waiting for their handler event. -/
structure Quiet (s s' : St) : Prop where
  run : ∃ ls, s.run ls = some s'
  n : s'.n = s.n
  cur : s'.cur = s.cur
  waiters : s'.waiters = s.waiters
  len : s'.tasks.length = s.tasks.length
  running : s'.running = s.running
  task : ∀ (i : Nat) (t : Task), s.tasks[i]? = some t → ∃ t' : Task, s'.tasks[i]? = some t' ∧ t'.outcome = t.outcome ∧
    t'.hid = t.hid ∧
    (t' = t ∨ (5 ≤ t.pc.rank ∧ t.pc.rank ≤ t'.pc.rank ∧ (t.outcome.recovered = none ∨ 6 ≤ t.pc.rank)))

theorem Quiet.refl (s : St) : Quiet s s :=
  ⟨⟨[], rfl⟩, rfl, rfl, rfl, rfl, rfl, fun _ t ht => ⟨t, ht, rfl, rfl, Or.inl rfl⟩⟩

theorem Quiet.trans {a b c : St} (h1 : Quiet a b) (h2 : Quiet b c) : Quiet a c := by
  obtain ⟨l1, r1⟩ := h1.run
  obtain ⟨l2, r2⟩ := h2.run
  refine ⟨⟨l1 ++ l2, by rw [run_append, r1]; simpa using r2⟩, h2.n.trans h1.n, h2.cur.trans h1.cur,
    h2.waiters.trans h1.waiters, h2.len.trans h1.len, h2.running.trans h1.running, ?_⟩
  intro i t ht
  obtain ⟨t1, ht1, ho1, hh1, hr1⟩ := h1.task i t ht
  obtain ⟨t2, ht2, ho2, hh2, hr2⟩ := h2.task i t1 ht1
  refine ⟨t2, ht2, ho2.trans ho1, hh2.trans hh1, ?_⟩
  rcases hr1 with e1 | ⟨a1, b1, c1⟩
  · subst e1; exact hr2
  · rcases hr2 with e2 | ⟨a2, b2, c2⟩
    · subst e2; exact Or.inr ⟨a1, b1, c1⟩
    · exact Or.inr ⟨a1, by omega, c1⟩

theorem rank_of_running {pc : Pc} (h : (pc == Pc.running) = true) : pc.rank = 4 := by
  have : pc = .running := by simpa using h
  subst this; rfl

theorem quiet_of_set {s s' : St} {j : Nat} {t t' : Task} (ht : s.tasks[j]? = some t)
    (hadv : s.adv j = some s') (hn : s'.n = s.n) (hc : s'.cur = s.cur) (hw : s'.waiters = s.waiters)
    (hts : s'.tasks = s.tasks.set j t')
    (h5 : 5 ≤ t.pc.rank) (hle : t.pc.rank ≤ t'.pc.rank) (hq : t.outcome.recovered = none ∨ 6 ≤ t.pc.rank)
    (ho : t'.outcome = t.outcome) (hh : t'.hid = t.hid) : Quiet s s' := by
  have hlen : j < s.tasks.length := (List.getElem?_eq_some_iff.1 ht).1
  refine ⟨⟨[.adv j], by simp [St.run, St.step, hadv]⟩, hn, hc, hw, by simp [hts], ?_, ?_⟩
  · have c := (countP_set_some (p := fun t => t.pc == .running) (t' := t') ht).1
    have p1 : ((fun t : Task => t.pc == .running) t = true) → False := fun h => by
      have := rank_of_running h; omega
    have p2 : ((fun t : Task => t.pc == .running) t' = true) → False := fun h => by
      have := rank_of_running h; omega
    simp only [St.running, hts]
    rw [if_neg p1, if_neg p2] at c
    omega
  · intro i x hx
    by_cases hij : i = j
    · subst hij
      have : x = t := by rw [ht] at hx; exact (Option.some.inj hx).symm
      subst this
      exact ⟨t', by rw [hts]; exact List.getElem?_set_self hlen, ho, hh, Or.inr ⟨h5, hle, hq⟩⟩
    · exact ⟨x, by rw [hts, List.getElem?_set_ne (Ne.symm hij)]; exact hx, rfl, rfl, Or.inl rfl⟩

theorem adv_quiet {s s' : St} {j : Nat} {t : Task} (ht : s.tasks[j]? = some t)
    (h5 : 5 ≤ t.pc.rank) (hq : t.outcome.recovered = none ∨ 6 ≤ t.pc.rank) (h : s.adv j = some s') :
    Quiet s s' ∧ ∃ t', s'.tasks[j]? = some t' ∧ 6 ≤ t'.pc.rank ∧ t'.outcome = t.outcome := by
  have h0 := h
  have hlen : j < s.tasks.length := (List.getElem?_eq_some_iff.1 ht).1
  unfold St.adv at h
  rw [ht] at h
  obtain ⟨pc, outcome, starts, handled, hid⟩ := t
  cases pc <;> simp only [] at h <;> simp only [Pc.rank] at h5 hq
  all_goals first
    | omega
    | skip
  · -- recovering
    cases hrec : outcome.recovered with
    | none =>
      simp only [hrec] at h
      cases h
      exact ⟨quiet_of_set ht h0 rfl rfl rfl rfl (by simp [Pc.rank]) (by simp [Pc.rank]) (Or.inl hrec) rfl rfl,
        _, List.getElem?_set_self hlen, by simp [Pc.rank], rfl⟩
    | some v =>
      rcases hq with hq | hq
      · rw [hrec] at hq; cases hq
      · omega
  · -- cleanup
    split at h
    · cases h
      exact ⟨quiet_of_set ht h0 rfl rfl rfl rfl (by simp [Pc.rank]) (by simp [Pc.rank]) (Or.inr (by simp [Pc.rank])) rfl rfl,
        _, List.getElem?_set_self hlen, by simp [Pc.rank], rfl⟩
    · cases h
      exact ⟨quiet_of_set ht h0 rfl rfl rfl rfl (by simp [Pc.rank]) (by simp [Pc.rank]) (Or.inr (by simp [Pc.rank])) rfl rfl,
        _, List.getElem?_set_self hlen, by simp [Pc.rank], rfl⟩
  · -- wgDone
    split at h
    · cases h
      exact ⟨quiet_of_set ht h0 rfl rfl rfl rfl (by simp [Pc.rank]) (by simp [Pc.rank]) (Or.inr (by simp [Pc.rank])) rfl rfl,
        _, List.getElem?_set_self hlen, by simp [Pc.rank], rfl⟩
    · cases h
  · cases h
  · cases h

theorem advN_quiet {j : Nat} (n : Nat) : ∀ {s s' : St} {t : Task}, s.tasks[j]? = some t →
    5 ≤ t.pc.rank → (t.outcome.recovered = none ∨ 6 ≤ t.pc.rank) → advN s j n = some s' → Quiet s s' := by
  induction n with
  | zero =>
    intro s s' t _ _ _ h
    simp only [advN, Option.some.injEq] at h
    subst h; exact Quiet.refl s
  | succ n ih =>
    intro s s' t ht h5 hq h
    simp only [advN, St.step] at h
    cases hs : s.adv j with
    | none => rw [hs] at h; cases h
    | some s1 =>
      rw [hs] at h
      obtain ⟨q1, t1, ht1, h6, _⟩ := adv_quiet ht h5 hq hs
      exact q1.trans (ih ht1 (by omega) (Or.inr h6) h)

theorem settle_quiet (s : St) : Quiet s (settle s) := by
  unfold settle
  generalize List.range s.tasks.length = l
  suffices ∀ (l : List Nat) (s0 s1 : St), Quiet s0 s1 → Quiet s0 (l.foldl (fun s i =>
      match s.tasks[i]? with
      | some t =>
        match t.pc, t.outcome.recovered with
        | .recovering, none => (advN s i 3).getD s
        | .cleanup, _ => (advN s i 2).getD s
        | .wgDone, _ => (advN s i 1).getD s
        | _, _ => s
      | none => s) s1) from this l s s (Quiet.refl s)
  intro l
  induction l with
  | nil => intro s0 s1 h; exact h
  | cons i l ih =>
    intro s0 s1 h
    simp only [List.foldl_cons]
    apply ih
    refine h.trans ?_
    cases ht : s1.tasks[i]? with
    | none => exact Quiet.refl _
    | some t =>
      simp only []
      split
      · rename_i hpc ho
        cases ha : advN s1 i 3 with
        | none => exact Quiet.refl _
        | some s2 => exact advN_quiet 3 ht (by simp [hpc, Pc.rank]) (Or.inl ho) ha
      · rename_i hpc
        cases ha : advN s1 i 2 with
        | none => exact Quiet.refl _
        | some s2 => exact advN_quiet 2 ht (by simp [hpc, Pc.rank]) (Or.inr (by simp [hpc, Pc.rank])) ha
      · rename_i hpc
        cases ha : advN s1 i 1 with
        | none => exact Quiet.refl _
        | some s2 => exact advN_quiet 1 ht (by simp [hpc, Pc.rank]) (Or.inr (by simp [hpc, Pc.rank])) ha
      · exact Quiet.refl _

/-! ### the observable steps, exactly -/

theorem start_exact {s s' : St} {i : Nat} {t : Task} (ht : s.tasks[i]? = some t) (hpc : t.pc = .new)
    (h : advN s i 4 = some s') :
    s' = { s with k := s.k + 1, wg := s.wg + 1,
                  tasks := s.tasks.set i { t with pc := .running, starts := t.starts + 1, hid := s.cur } } := by
  have hlen : i < s.tasks.length := (List.getElem?_eq_some_iff.1 ht).1
  obtain ⟨pc, outcome, starts, handled, hid⟩ := t
  simp only [] at hpc
  subst hpc
  by_cases hk : s.k < s.n
  · simp only [advN, St.step, St.adv, ht, hk, if_true, List.getElem?_set_self, hlen,
      List.set_set, Option.some.injEq] at h
    exact h.symm
  · simp [advN, St.step, St.adv, ht, hk] at h

theorem finish_exact {s s' : St} {i : Nat} {t : Task} (ht : s.tasks[i]? = some t) (hpc : t.pc = .running)
    (h : s.step (.adv i) = some s') :
    s' = { s with tasks := s.tasks.set i { t with pc := .recovering } } := by
  obtain ⟨pc, outcome, starts, handled, hid⟩ := t
  simp only [] at hpc
  subst hpc
  simp only [St.step, St.adv, ht] at h
  exact (Option.some.inj h).symm

theorem handler_exact {s s' : St} {i : Nat} {t : Task} {v : Int} (ht : s.tasks[i]? = some t)
    (hpc : t.pc = .recovering) (ho : t.outcome = .panic v) (h : s.step (.adv i) = some s') :
    s' = { s with tasks := s.tasks.set i { t with pc := .cleanup, handled := t.handled ++ [.val v] } } := by
  obtain ⟨pc, outcome, starts, handled, hid⟩ := t
  simp only [] at hpc ho
  subst hpc ho
  simp only [St.step, St.adv, ht] at h
  exact (Option.some.inj h).symm

theorem findIdx?_spec {ts : List Task} {p : Task → Bool} {i : Nat} (h : findIdx? ts p = some i) :
    ∃ t, ts[i]? = some t ∧ p t = true := by
  unfold findIdx? at h
  have := List.find?_some h
  split at this
  · rename_i t ht; exact ⟨t, ht, this⟩
  · cases this

/-! ### trace bookkeeping -/

theorem prefix_snoc {p tr : List Ev} {x e : Ev} (h : p ++ [x] <+: tr ++ [e]) :
    p ++ [x] <+: tr ∨ (p = tr ∧ x = e) := by
  rcases List.prefix_concat_iff.1 h with h | h
  · obtain ⟨h1, h2⟩ := List.append_inj' h rfl
    exact Or.inr ⟨h1, by simpa using h2⟩
  · exact Or.inl h

theorem prefix_snoc_lt {p tr : List Ev} {x : Ev} (h : p ++ [x] <+: tr) : p.length < tr.length := by
  have := h.length_le
  simp at this
  omega

theorem prefix_snoc_mem {p tr : List Ev} {x : Ev} (h : p ++ [x] <+: tr) : x ∈ tr :=
  List.IsPrefix.mem (by simp) h

theorem prefix_grow {p tr : List Ev} (e : Ev) (h : p <+: tr) : p <+: tr ++ [e] :=
  h.trans (List.prefix_append _ _)

theorem submitted_snoc (tr : List Ev) (e : Ev) :
    submitted (tr ++ [e]) = submitted tr ++ (match e with | .submit o => [o] | _ => []) := by
  cases e <;> simp [submitted, List.filterMap_append]

theorem curOf_snoc (tr : List Ev) (e : Ev) :
    curOf (tr ++ [e]) = (match e with | .sethandler h => h | _ => curOf tr) := by
  cases e <;> simp [curOf, List.foldl_append]

/-- The trace-level facts about the matching `m` of handler events to task ids
(the body of `TraceHandler`). -/
def HandlerM (m : Nat → Nat) (tr : List Ev) : Prop :=
  (∀ p v h, p ++ [Ev.handler v h] <+: tr →
      (submitted p)[m p.length]? = some (.panic v) ∧ Ev.finish (m p.length) ∈ p ∧
      ∃ p0, p0 ++ [Ev.start (m p.length)] <+: p ∧ curOf p0 = h) ∧
  (∀ p v h p' v' h', p ++ [Ev.handler v h] <+: tr → p' ++ [Ev.handler v' h'] <+: tr →
      m p.length = m p'.length → p = p') ∧
  (∀ p, p ++ [Ev.waitret] <+: tr → ∀ i v, Ev.finish i ∈ p →
      (submitted p)[i]? = some (.panic v) →
      ∃ p' h, p' ++ [Ev.handler v h] <+: p ∧ m p'.length = i)

theorem HandlerM.snoc {m m' : Nat → Nat} {tr : List Ev} {e : Ev} (hM : HandlerM m tr)
    (hm : ∀ q, q < tr.length → m' q = m q)
    (h1 : ∀ v h, e = .handler v h →
      ((submitted tr)[m' tr.length]? = some (.panic v) ∧ Ev.finish (m' tr.length) ∈ tr ∧
        ∃ p0, p0 ++ [Ev.start (m' tr.length)] <+: tr ∧ curOf p0 = h) ∧
      (∀ p v' h', p ++ [Ev.handler v' h'] <+: tr → m p.length ≠ m' tr.length))
    (h3 : e = .waitret → ∀ i v, Ev.finish i ∈ tr → (submitted tr)[i]? = some (.panic v) →
      ∃ p' h, p' ++ [Ev.handler v h] <+: tr ∧ m' p'.length = i) :
    HandlerM m' (tr ++ [e]) := by
  obtain ⟨c1, c2, c3⟩ := hM
  refine ⟨?_, ?_, ?_⟩
  · intro p v h hp
    rcases prefix_snoc hp with hq | ⟨rfl, rfl⟩
    · rw [hm _ (prefix_snoc_lt hq)]; exact c1 p v h hq
    · exact (h1 v h rfl).1
  · intro p v h p' v' h' hp hp' heq
    rcases prefix_snoc hp with hq | ⟨rfl, rfl⟩
    · rcases prefix_snoc hp' with hq' | ⟨rfl, rfl⟩
      · rw [hm _ (prefix_snoc_lt hq), hm _ (prefix_snoc_lt hq')] at heq
        exact c2 p v h p' v' h' hq hq' heq
      · rw [hm _ (prefix_snoc_lt hq)] at heq
        exact absurd heq ((h1 v' h' rfl).2 p v h hq)
    · rcases prefix_snoc hp' with hq' | ⟨rfl, _⟩
      · rw [hm _ (prefix_snoc_lt hq')] at heq
        exact absurd heq.symm ((h1 v h rfl).2 p' v' h' hq')
      · rfl
  · intro p hp i v hf hs
    rcases prefix_snoc hp with hq | ⟨rfl, rfl⟩
    · obtain ⟨p', h, hp', he⟩ := c3 p hq i v hf hs
      refine ⟨p', h, hp', ?_⟩
      rw [hm _ (by have := prefix_snoc_lt hp'; have := prefix_snoc_lt hq; omega)]; exact he
    · exact h3 rfl i v hf hs

/-! ### the ghost invariant -/

/-- What the accepted trace says about task `i`. -/
structure TaskT (tr : List Ev) (m : Nat → Nat) (i : Nat) (t : Task) : Prop where
  outcome : (submitted tr)[i]? = some t.outcome
  started : 4 ≤ t.pc.rank ↔ Ev.start i ∈ tr
  finished : 5 ≤ t.pc.rank ↔ Ev.finish i ∈ tr
  hid : 4 ≤ t.pc.rank → ∃ p0, p0 ++ [Ev.start i] <+: tr ∧ curOf p0 = t.hid
  handledOf : ∀ v, t.outcome = .panic v → 6 ≤ t.pc.rank →
    ∃ p h, p ++ [Ev.handler v h] <+: tr ∧ m p.length = i

theorem TaskT.mono {tr : List Ev} {m : Nat → Nat} {i : Nat} {t : Task} (h : TaskT tr m i t)
    (e : Ev) (m' : Nat → Nat) (hm : ∀ q, q < tr.length → m' q = m q)
    (hs : e ≠ .start i) (hf : e ≠ .finish i) : TaskT (tr ++ [e]) m' i t := by
  refine ⟨?_, ?_, ?_, ?_, ?_⟩
  · rw [submitted_snoc, List.getElem?_append_left (List.getElem?_eq_some_iff.1 h.outcome).1]
    exact h.outcome
  · rw [h.started]; simp [Ne.symm hs]
  · rw [h.finished]; simp [Ne.symm hf]
  · intro h4
    obtain ⟨p0, hp0, hc⟩ := h.hid h4
    exact ⟨p0, prefix_grow e hp0, hc⟩
  · intro v ho h6
    obtain ⟨p, hh, hp, he⟩ := h.handledOf v ho h6
    exact ⟨p, hh, prefix_grow e hp, by rw [hm _ (prefix_snoc_lt hp)]; exact he⟩

/-- Moving a task quietly keeps what the trace says about it. -/
theorem TaskT.quiet {tr : List Ev} {m : Nat → Nat} {i : Nat} {t t' : Task} (h : TaskT tr m i t)
    (ho : t'.outcome = t.outcome) (hh : t'.hid = t.hid)
    (hr : t' = t ∨ (5 ≤ t.pc.rank ∧ t.pc.rank ≤ t'.pc.rank ∧ (t.outcome.recovered = none ∨ 6 ≤ t.pc.rank))) :
    TaskT tr m i t' := by
  rcases hr with rfl | ⟨h5, hle, hq⟩
  · exact h
  · refine ⟨by rw [ho]; exact h.outcome, ?_, ?_, ?_, ?_⟩
    · rw [← h.started]; constructor <;> intro <;> omega
    · rw [← h.finished]; constructor <;> intro <;> omega
    · intro _
      rw [hh]; exact h.hid (by omega)
    · intro v hv _
      rw [ho] at hv
      rcases hq with hq | hq
      · rw [hv] at hq; cases hq
      · exact h.handledOf v hv hq

structure TInv (limit : Int) (tr : List Ev) (m : Nat → Nat) (s : St) : Prop where
  reach : Reachable limit s
  cur : s.cur = curOf tr
  len : s.tasks.length = (submitted tr).length
  running : s.running + finishes tr = starts tr
  wlen : s.waiters.length = waitcalls tr
  wret : s.waiters.countP (·.returned) = waitrets tr
  startedLt : ∀ i, Ev.start i ∈ tr → i < s.tasks.length
  finishedLt : ∀ i, Ev.finish i ∈ tr → i < s.tasks.length
  tasks : ∀ (i : Nat) (t : Task), s.tasks[i]? = some t → TaskT tr m i t
  matched : ∀ p v h, p ++ [Ev.handler v h] <+: tr →
    ∃ t : Task, s.tasks[m p.length]? = some t ∧ 6 ≤ t.pc.rank
  hm : HandlerM m tr

theorem TInv.init (limit : Int) : TInv limit [] (fun _ => 0) (newLimiter limit) := by
  refine ⟨⟨[], rfl⟩, rfl, rfl, rfl, rfl, rfl, ?_, ?_, ?_, ?_, ?_, ?_, ?_⟩
  · intro i h; cases h
  · intro i h; cases h
  · intro i t h; simp [newLimiter] at h
  · intro p v h hp; have := prefix_snoc_lt hp; simp at this
  · intro p v h hp; have := prefix_snoc_lt hp; simp at this
  · intro p v h p' v' h' hp; have := prefix_snoc_lt hp; simp at this
  · intro p hp; have := prefix_snoc_lt hp; simp at this

theorem TInv.quiet {limit : Int} {tr : List Ev} {m : Nat → Nat} {s s' : St}
    (hi : TInv limit tr m s) (q : Quiet s s') : TInv limit tr m s' := by
  obtain ⟨ls, hls⟩ := q.run
  refine ⟨hi.reach.extend hls, q.cur.trans hi.cur, q.len.trans hi.len, by rw [q.running]; exact hi.running,
    by rw [q.waiters]; exact hi.wlen, by rw [q.waiters]; exact hi.wret,
    fun i h => by rw [q.len]; exact hi.startedLt i h, fun i h => by rw [q.len]; exact hi.finishedLt i h,
    ?_, ?_, hi.hm⟩
  · intro i t' ht'
    have hlt : i < s.tasks.length := by rw [← q.len]; exact (List.getElem?_eq_some_iff.1 ht').1
    obtain ⟨t'', ht'', ho, hh, hr⟩ := q.task i s.tasks[i] (List.getElem?_eq_getElem hlt)
    have : t'' = t' := by rw [ht'] at ht''; exact (Option.some.inj ht'').symm
    subst this
    exact (hi.tasks i _ (List.getElem?_eq_getElem hlt)).quiet ho hh hr
  · intro p v h hp
    obtain ⟨t, ht, h6⟩ := hi.matched p v h hp
    obtain ⟨t', ht', _, _, hr⟩ := q.task _ t ht
    refine ⟨t', ht', ?_⟩
    rcases hr with rfl | ⟨_, hle, _⟩
    · exact h6
    · omega

/-! ### one accepted event -/

theorem prefix_snoc_ne {p tr : List Ev} {x e : Ev} (h : p ++ [x] <+: tr ++ [e]) (hne : x ≠ e) :
    p ++ [x] <+: tr := by
  rcases prefix_snoc h with h | ⟨_, h⟩
  · exact h
  · exact absurd h hne

theorem tasks_set {P : Nat → Task → Prop} {l : List Task} {i : Nat} {t' : Task} (hlen : i < l.length)
    (hold : ∀ (j : Nat) (t : Task), j ≠ i → l[j]? = some t → P j t) (hnew : P i t') :
    ∀ (j : Nat) (t : Task), (l.set i t')[j]? = some t → P j t := by
  intro j t ht
  by_cases hji : j = i
  · subst hji
    rw [List.getElem?_set_self hlen] at ht
    cases ht; exact hnew
  · rw [List.getElem?_set_ne (Ne.symm hji)] at ht
    exact hold j t hji ht

theorem matched_set {l : List Task} {i : Nat} {t t' : Task} (ht : l[i]? = some t)
    (hle : t.pc.rank ≤ t'.pc.rank) {k : Nat} (h : ∃ x : Task, l[k]? = some x ∧ 6 ≤ x.pc.rank) :
    ∃ x : Task, (l.set i t')[k]? = some x ∧ 6 ≤ x.pc.rank := by
  obtain ⟨x, hx, h6⟩ := h
  have hlen : i < l.length := (List.getElem?_eq_some_iff.1 ht).1
  by_cases hki : k = i
  · subst hki
    have : x = t := by rw [ht] at hx; exact (Option.some.inj hx).symm
    subst this
    exact ⟨t', List.getElem?_set_self hlen, by omega⟩
  · exact ⟨x, by rw [List.getElem?_set_ne (Ne.symm hki)]; exact hx, h6⟩

/-- An event that leaves the tasks alone. -/
theorem TInv.same_tasks {limit : Int} {tr : List Ev} {m : Nat → Nat} {s : St}
    (hi : TInv limit tr m s) (e : Ev) (s' : St) (hreach : Reachable limit s')
    (htasks : s'.tasks = s.tasks) (hcur : s'.cur = curOf (tr ++ [e]))
    (hwlen : s'.waiters.length = waitcalls (tr ++ [e]))
    (hwret : s'.waiters.countP (·.returned) = waitrets (tr ++ [e]))
    (he1 : ∀ i, e ≠ .start i) (he2 : ∀ i, e ≠ .finish i) (he3 : ∀ o, e ≠ .submit o)
    (he4 : ∀ v h, e ≠ .handler v h)
    (h3 : e = .waitret → ∀ i v, Ev.finish i ∈ tr → (submitted tr)[i]? = some (.panic v) →
      ∃ p' h, p' ++ [Ev.handler v h] <+: tr ∧ m p'.length = i) :
    TInv limit (tr ++ [e]) m s' := by
  have hrun := hi.running
  refine { reach := hreach, cur := hcur, len := ?_, running := ?_, wlen := hwlen, wret := hwret,
           startedLt := ?_, finishedLt := ?_, tasks := ?_, matched := ?_, hm := ?_ }
  · rw [htasks, hi.len, submitted_snoc]
    cases e <;> simp
    exact he3 _ rfl
  · simp only [St.running, htasks, starts, finishes, List.countP_append] at hrun ⊢
    cases e <;> simp [Ev.isStart, Ev.isFinish] <;> first | exact hrun | exact absurd rfl (he1 _) | exact absurd rfl (he2 _)
  · intro i h
    rw [htasks]
    simp only [List.mem_append, List.mem_singleton] at h
    rcases h with h | h
    · exact hi.startedLt i h
    · exact absurd h.symm (he1 i)
  · intro i h
    rw [htasks]
    simp only [List.mem_append, List.mem_singleton] at h
    rcases h with h | h
    · exact hi.finishedLt i h
    · exact absurd h.symm (he2 i)
  · intro i t ht
    rw [htasks] at ht
    exact (hi.tasks i t ht).mono e m (fun _ _ => rfl) (he1 i) (he2 i)
  · intro p v h hp
    rw [htasks]
    exact hi.matched p v h (prefix_snoc_ne hp (Ne.symm (he4 v h)))
  · exact hi.hm.snoc (fun _ _ => rfl) (fun v h e' => absurd e' (he4 v h)) h3

theorem TInv.submit {limit : Int} {tr : List Ev} {m : Nat → Nat} {s : St}
    (hi : TInv limit tr m s) (o : Outcome) :
    TInv limit (tr ++ [.submit o]) m { s with tasks := s.tasks ++ [{ pc := .new, outcome := o }] } := by
  have hrun := hi.running
  refine { reach := hi.reach.extend (ls := [.submit o]) rfl, cur := ?_, len := ?_, running := ?_,
           wlen := ?_, wret := ?_, startedLt := ?_, finishedLt := ?_, tasks := ?_, matched := ?_, hm := ?_ }
  · rw [curOf_snoc]; exact hi.cur
  · rw [submitted_snoc]; simp [hi.len]
  · simp only [St.running, starts, finishes, List.countP_append] at hrun ⊢
    simpa [Ev.isStart, Ev.isFinish] using hrun
  · simpa [waitcalls, List.countP_append, Ev.isWaitcall] using hi.wlen
  · simpa [waitrets, List.countP_append, Ev.isWaitret] using hi.wret
  · intro i h
    simp only [List.mem_append, List.mem_singleton] at h
    rcases h with h | h
    · have := hi.startedLt i h; simp; omega
    · cases h
  · intro i h
    simp only [List.mem_append, List.mem_singleton] at h
    rcases h with h | h
    · have := hi.finishedLt i h; simp; omega
    · cases h
  · intro j t ht
    by_cases hj : j < s.tasks.length
    · rw [List.getElem?_append_left hj] at ht
      exact (hi.tasks j t ht).mono _ m (fun _ _ => rfl) (by simp) (by simp)
    · have hj2 := (List.getElem?_eq_some_iff.1 ht).1
      simp at hj2
      have hje : j = s.tasks.length := by omega
      subst hje
      simp at ht
      subst ht
      refine ⟨?_, ?_, ?_, ?_, ?_⟩
      · rw [submitted_snoc, hi.len]; simp
      · simp only [Pc.rank]
        constructor
        · intro h; omega
        · intro h
          simp only [List.mem_append, List.mem_singleton] at h
          rcases h with h | h
          · have := hi.startedLt _ h; omega
          · cases h
      · simp only [Pc.rank]
        constructor
        · intro h; omega
        · intro h
          simp only [List.mem_append, List.mem_singleton] at h
          rcases h with h | h
          · have := hi.finishedLt _ h; omega
          · cases h
      · intro h; simp [Pc.rank] at h
      · intro v _ h; simp [Pc.rank] at h
  · intro p v h hp
    obtain ⟨t, ht, h6⟩ := hi.matched p v h (prefix_snoc_ne hp (by simp))
    exact ⟨t, by rw [List.getElem?_append_left (List.getElem?_eq_some_iff.1 ht).1]; exact ht, h6⟩
  · exact hi.hm.snoc (fun _ _ => rfl) (fun v h e' => by cases e') (fun e' => by cases e')

theorem TInv.start {limit : Int} {tr : List Ev} {m : Nat → Nat} {s s' : St}
    (hi : TInv limit tr m s) {i : Nat} {t : Task} (ht : s.tasks[i]? = some t) (hpc : t.pc = .new)
    (h : advN s i 4 = some s') : TInv limit (tr ++ [.start i]) m s' := by
  have hlen : i < s.tasks.length := (List.getElem?_eq_some_iff.1 ht).1
  have hrun := hi.running
  have hT := hi.tasks i t ht
  have hreach := hi.reach.extend (advN_run 4 h)
  have hex := start_exact ht hpc h
  subst hex
  have c := (countP_set_some (p := fun t => t.pc == .running)
    (t' := { t with pc := .running, starts := t.starts + 1, hid := s.cur }) ht).1
  refine { reach := hreach, cur := ?_, len := ?_, running := ?_,
           wlen := ?_, wret := ?_, startedLt := ?_, finishedLt := ?_, tasks := ?_, matched := ?_, hm := ?_ }
  · rw [curOf_snoc]; exact hi.cur
  · rw [submitted_snoc]; simp [hi.len]
  · simp only [St.running, starts, finishes, List.countP_append] at hrun ⊢
    simp [hpc] at c
    simp [Ev.isStart, Ev.isFinish]
    omega
  · simpa [waitcalls, List.countP_append, Ev.isWaitcall] using hi.wlen
  · simpa [waitrets, List.countP_append, Ev.isWaitret] using hi.wret
  · intro j h
    simp only [List.mem_append, List.mem_singleton] at h
    simp only [List.length_set]
    rcases h with h | h
    · exact hi.startedLt j h
    · cases h; exact hlen
  · intro j h
    simp only [List.mem_append, List.mem_singleton] at h
    simp only [List.length_set]
    rcases h with h | h
    · exact hi.finishedLt j h
    · cases h
  · refine tasks_set hlen ?_ ?_
    · intro j x hji hx
      exact (hi.tasks j x hx).mono _ m (fun _ _ => rfl) (by simp; omega) (by simp)
    · refine ⟨?_, ?_, ?_, ?_, ?_⟩
      · rw [submitted_snoc, List.getElem?_append_left (List.getElem?_eq_some_iff.1 hT.outcome).1]
        exact hT.outcome
      · simp [Pc.rank]
      · have := hT.finished
        rw [hpc] at this
        simp [Pc.rank] at this ⊢
        exact this
      · intro _
        exact ⟨tr, List.prefix_refl _, hi.cur.symm⟩
      · intro v _ h6; simp [Pc.rank] at h6
  · intro p v hh hp
    exact matched_set ht (by simp [hpc, Pc.rank]) (hi.matched p v hh (prefix_snoc_ne hp (by simp)))
  · exact hi.hm.snoc (fun _ _ => rfl) (fun v h e' => by cases e') (fun e' => by cases e')

theorem TInv.finish {limit : Int} {tr : List Ev} {m : Nat → Nat} {s s' : St}
    (hi : TInv limit tr m s) {i : Nat} {t : Task} (ht : s.tasks[i]? = some t) (hpc : t.pc = .running)
    (h : s.step (.adv i) = some s') : TInv limit (tr ++ [.finish i]) m s' := by
  have hlen : i < s.tasks.length := (List.getElem?_eq_some_iff.1 ht).1
  have hrun := hi.running
  have hT := hi.tasks i t ht
  have hreach := hi.reach.extend (show s.run [.adv i] = some s' by simp [St.run, h])
  have hex := finish_exact ht hpc h
  subst hex
  have c := (countP_set_some (p := fun t => t.pc == .running)
    (t' := { t with pc := .recovering }) ht).1
  refine { reach := hreach, cur := ?_, len := ?_, running := ?_,
           wlen := ?_, wret := ?_, startedLt := ?_, finishedLt := ?_, tasks := ?_, matched := ?_, hm := ?_ }
  · rw [curOf_snoc]; exact hi.cur
  · rw [submitted_snoc]; simp [hi.len]
  · simp only [St.running, starts, finishes, List.countP_append] at hrun ⊢
    simp [hpc] at c
    simp [Ev.isStart, Ev.isFinish]
    omega
  · simpa [waitcalls, List.countP_append, Ev.isWaitcall] using hi.wlen
  · simpa [waitrets, List.countP_append, Ev.isWaitret] using hi.wret
  · intro j h
    simp only [List.mem_append, List.mem_singleton] at h
    simp only [List.length_set]
    rcases h with h | h
    · exact hi.startedLt j h
    · cases h
  · intro j h
    simp only [List.mem_append, List.mem_singleton] at h
    simp only [List.length_set]
    rcases h with h | h
    · exact hi.finishedLt j h
    · cases h; exact hlen
  · refine tasks_set hlen ?_ ?_
    · intro j x hji hx
      exact (hi.tasks j x hx).mono _ m (fun _ _ => rfl) (by simp) (by simp; omega)
    · have h4 : 4 ≤ t.pc.rank := by simp [hpc, Pc.rank]
      refine ⟨?_, ?_, ?_, ?_, ?_⟩
      · rw [submitted_snoc, List.getElem?_append_left (List.getElem?_eq_some_iff.1 hT.outcome).1]
        exact hT.outcome
      · have := hT.started.1 h4
        simp [Pc.rank, this]
      · simp [Pc.rank]
      · intro _
        obtain ⟨p0, hp0, hc⟩ := hT.hid h4
        exact ⟨p0, prefix_grow _ hp0, hc⟩
      · intro v _ h6; simp [Pc.rank] at h6
  · intro p v hh hp
    exact matched_set ht (by simp [hpc, Pc.rank]) (hi.matched p v hh (prefix_snoc_ne hp (by simp)))
  · exact hi.hm.snoc (fun _ _ => rfl) (fun v h e' => by cases e') (fun e' => by cases e')

theorem TInv.handler {limit : Int} {tr : List Ev} {m : Nat → Nat} {s s' : St}
    (hi : TInv limit tr m s) {i : Nat} {t : Task} {v : Int} (ht : s.tasks[i]? = some t)
    (hpc : t.pc = .recovering) (ho : t.outcome = .panic v)
    (h : s.step (.adv i) = some s') :
    TInv limit (tr ++ [.handler v t.hid]) (fun q => if q = tr.length then i else m q) s' := by
  have hlen : i < s.tasks.length := (List.getElem?_eq_some_iff.1 ht).1
  have hrun := hi.running
  have hT := hi.tasks i t ht
  have hreach := hi.reach.extend (show s.run [.adv i] = some s' by simp [St.run, h])
  have hex := handler_exact ht hpc ho h
  subst hex
  have c := (countP_set_some (p := fun t => t.pc == .running)
    (t' := { t with pc := .cleanup, handled := t.handled ++ [.val v] }) ht).1
  have hm' : ∀ q, q < tr.length → (fun q => if q = tr.length then i else m q) q = m q := by
    intro q hq; simp only []; rw [if_neg (by omega)]
  have h4 : 4 ≤ t.pc.rank := by simp [hpc, Pc.rank]
  have h5 : 5 ≤ t.pc.rank := by simp [hpc, Pc.rank]
  refine { reach := hreach, cur := ?_, len := ?_, running := ?_,
           wlen := ?_, wret := ?_, startedLt := ?_, finishedLt := ?_, tasks := ?_, matched := ?_, hm := ?_ }
  · rw [curOf_snoc]; exact hi.cur
  · rw [submitted_snoc]; simp [hi.len]
  · simp only [St.running, starts, finishes, List.countP_append] at hrun ⊢
    simp [hpc] at c
    simp [Ev.isStart, Ev.isFinish]
    omega
  · simpa [waitcalls, List.countP_append, Ev.isWaitcall] using hi.wlen
  · simpa [waitrets, List.countP_append, Ev.isWaitret] using hi.wret
  · intro j h
    simp only [List.mem_append, List.mem_singleton] at h
    simp only [List.length_set]
    rcases h with h | h
    · exact hi.startedLt j h
    · cases h
  · intro j h
    simp only [List.mem_append, List.mem_singleton] at h
    simp only [List.length_set]
    rcases h with h | h
    · exact hi.finishedLt j h
    · cases h
  · refine tasks_set hlen ?_ ?_
    · intro j x hji hx
      exact (hi.tasks j x hx).mono _ _ hm' (by simp) (by simp)
    · refine ⟨?_, ?_, ?_, ?_, ?_⟩
      · rw [submitted_snoc, List.getElem?_append_left (List.getElem?_eq_some_iff.1 hT.outcome).1]
        exact hT.outcome
      · have := hT.started.1 h4
        simp [Pc.rank, this]
      · have := hT.finished.1 h5
        simp [Pc.rank, this]
      · intro _
        obtain ⟨p0, hp0, hc⟩ := hT.hid h4
        exact ⟨p0, prefix_grow _ hp0, hc⟩
      · intro v' hv' _
        have : v' = v := by
          simp only [] at hv'
          rw [ho] at hv'
          cases hv'; rfl
        subst this
        exact ⟨tr, t.hid, List.prefix_refl _, by simp⟩
  · intro p v' hh hp
    rcases prefix_snoc hp with hq | ⟨rfl, _⟩
    · simp only []
      rw [if_neg (by have := prefix_snoc_lt hq; omega)]
      exact matched_set ht (by simp [hpc, Pc.rank]) (hi.matched p v' hh hq)
    · simp only [if_true]
      exact ⟨_, List.getElem?_set_self hlen, by simp [Pc.rank]⟩
  · refine hi.hm.snoc hm' ?_ (fun e' => by cases e')
    intro v' h' e'
    cases e'
    simp only [if_true]
    refine ⟨⟨by rw [← ho]; exact hT.outcome, hT.finished.1 h5, hT.hid h4⟩, ?_⟩
    intro p v'' h'' hp heq
    obtain ⟨x, hx, h6⟩ := hi.matched p v'' h'' hp
    rw [heq, ht] at hx
    cases hx
    rw [hpc] at h6
    simp [Pc.rank] at h6

theorem countP_set_gen {α : Type} {p : α → Bool} {l : List α} {i : Nat} {a a' : α} (h : l[i]? = some a) :
    (l.set i a').countP p + (if p a = true then 1 else 0)
      = l.countP p + (if p a' = true then 1 else 0) := by
  obtain ⟨hi, rfl⟩ := List.getElem?_eq_some_iff.1 h
  have hpos : p l[i] = true → 0 < l.countP p := fun hp =>
    List.countP_pos_iff.2 ⟨l[i], List.getElem_mem hi, hp⟩
  rw [List.countP_set hi]
  by_cases hp : p l[i] = true
  · have := hpos hp
    simp only [hp, if_true]
    omega
  · simp only [hp]
    simp

/-- WaitGroup counter zero: every task whose `Go` has returned has passed `Done()`. -/
theorem drained {n₀ : Nat} {s : St} (hi : Inv n₀ s) (hz : s.wg = 0) {i : Nat} {t : Task}
    (ht : s.tasks[i]? = some t) (h3 : 3 ≤ t.pc.rank) : 7 ≤ t.pc.rank := by
  have hc : s.tasks.countP (fun t => t.pc.inWg) = 0 := by rw [← hi.hwg]; exact hz
  have : t.pc.inWg = false := by
    cases hb : t.pc.inWg
    · rfl
    · have := (countP_set_some (p := fun t => t.pc.inWg) (t' := t) ht).2 hb
      omega
  exact rank_ge_7_of_not_inWg h3 this

theorem waitret_facts {s s' : St} (h : acceptE s .waitret = some s') :
    ∃ j w, (settle s).waiters[j]? = some w ∧ (settle s).wg = 0 ∧ w.returned = false ∧
      s' = { settle s with waiters := (settle s).waiters.set j { w with returned := true } } ∧
      (settle s).step (.waitRet j) = some s' := by
  simp only [acceptE] at h
  obtain ⟨j, _, hj⟩ := List.exists_of_findSome?_eq_some h
  have hj0 := hj
  simp only [St.step] at hj
  split at hj
  · rename_i w hw
    split at hj
    · rename_i hc
      cases hj
      exact ⟨j, w, hw, hc.1, hc.2, rfl, hj0⟩
    · cases hj
  · cases hj

/-- What a state with WaitGroup counter zero says about the trace accepted so far. -/
theorem TInv.at_zero {limit : Int} {tr : List Ev} {m : Nat → Nat} {s : St}
    (hi : TInv limit tr m s) (hz : s.wg = 0) :
    (∀ i, Ev.start i ∈ tr → Ev.finish i ∈ tr) ∧
    (∀ i v, Ev.finish i ∈ tr → (submitted tr)[i]? = some (.panic v) →
      ∃ p' h, p' ++ [Ev.handler v h] <+: tr ∧ m p'.length = i) := by
  have hinv := Inv.of_reachable hi.reach
  constructor
  · intro i hs
    have hlt := hi.startedLt i hs
    have ht := List.getElem?_eq_getElem hlt
    have hT := hi.tasks i _ ht
    have h4 := hT.started.2 hs
    have := drained hinv hz ht (by omega)
    exact hT.finished.1 (by omega)
  · intro i v hf hs
    have hlt := hi.finishedLt i hf
    have ht := List.getElem?_eq_getElem hlt
    have hT := hi.tasks i _ ht
    have h5 := hT.finished.2 hf
    have := drained hinv hz ht (by omega)
    have ho := hT.outcome
    rw [hs] at ho
    exact hT.handledOf v (Option.some.inj ho).symm (by omega)

theorem TInv.acceptE {limit : Int} {tr : List Ev} {m : Nat → Nat} {s s' : St}
    (hi : TInv limit tr m s) {e : Ev} (h : acceptE s e = some s') :
    ∃ m', TInv limit (tr ++ [e]) m' s' := by
  cases e with
  | submit o =>
    simp only [Golib.C19.acceptE, St.step, Option.some.injEq] at h
    subst h
    exact ⟨m, hi.submit o⟩
  | start i =>
    simp only [Golib.C19.acceptE] at h
    split at h
    · rename_i t ht
      split at h
      · cases h
      · rename_i hpc
        have hpc : t.pc = .new := Decidable.not_not.1 hpc
        obtain ⟨t1, ht1, _, _, hr⟩ := (settle_quiet s).task i t ht
        have : t1 = t := by
          rcases hr with e | ⟨h5, _⟩
          · exact e
          · rw [hpc] at h5; simp [Pc.rank] at h5
        subst this
        exact ⟨m, (hi.quiet (settle_quiet s)).start ht1 hpc h⟩
    · cases h
  | finish i =>
    simp only [Golib.C19.acceptE] at h
    split at h
    · rename_i t ht
      split at h
      · cases h
      · rename_i hpc
        exact ⟨m, hi.finish ht (Decidable.not_not.1 hpc) h⟩
    · cases h
  | handler v hh =>
    simp only [Golib.C19.acceptE] at h
    split at h
    · rename_i i hf
      obtain ⟨t, ht, hp⟩ := findIdx?_spec hf
      simp only [Bool.and_eq_true, beq_iff_eq] at hp
      obtain ⟨⟨hpc, ho⟩, hid⟩ := hp
      subst hid
      exact ⟨_, hi.handler ht hpc ho h⟩
    · cases h
  | sethandler hh =>
    simp only [Golib.C19.acceptE, St.step, Option.some.injEq] at h
    subst h
    refine ⟨m, hi.same_tasks _ _ (hi.reach.extend (ls := [.setHandler hh]) rfl) rfl ?_ ?_ ?_
      (by simp) (by simp) (by simp) (by simp) (fun e' => by cases e')⟩
    · rw [curOf_snoc]
    · simpa [waitcalls, List.countP_append, Ev.isWaitcall] using hi.wlen
    · simpa [waitrets, List.countP_append, Ev.isWaitret] using hi.wret
  | waitcall =>
    simp only [Golib.C19.acceptE, St.step, Option.some.injEq] at h
    subst h
    refine ⟨m, hi.same_tasks _ _ (hi.reach.extend (ls := [.waitCall]) rfl) rfl ?_ ?_ ?_
      (by simp) (by simp) (by simp) (by simp) (fun e' => by cases e')⟩
    · rw [curOf_snoc]; exact hi.cur
    · simp [waitcalls, List.countP_append, Ev.isWaitcall]
      exact hi.wlen
    · simp [waitrets, List.countP_append, Ev.isWaitret]
      exact hi.wret
  | timedwait =>
    simp only [Golib.C19.acceptE, St.step, Option.some.injEq] at h
    subst h
    refine ⟨m, hi.same_tasks _ _ hi.reach rfl ?_ ?_ ?_
      (by simp) (by simp) (by simp) (by simp) (fun e' => by cases e')⟩
    · rw [curOf_snoc]; exact hi.cur
    · simpa [waitcalls, List.countP_append, Ev.isWaitcall] using hi.wlen
    · simpa [waitrets, List.countP_append, Ev.isWaitret] using hi.wret
  | waitret =>
    obtain ⟨j, w, hw, hz, hr, hs', hstep⟩ := waitret_facts h
    have hi1 := hi.quiet (settle_quiet s)
    have hreach := hi1.reach.extend (show (settle s).run [.waitRet j] = some s' by simp [St.run, hstep])
    subst hs'
    refine ⟨m, hi1.same_tasks _ _ hreach rfl ?_ ?_ ?_
      (by simp) (by simp) (by simp) (by simp) (fun _ => (hi1.at_zero hz).2)⟩
    · rw [curOf_snoc]; exact hi1.cur
    · simp [waitcalls, List.countP_append, Ev.isWaitcall]
      exact hi1.wlen
    · have c := countP_set_gen (p := fun w : Waiter => w.returned) (a' := { w with returned := true }) hw
      have := hi1.wret
      simp only [waitrets] at this
      simp [hr] at c
      simp [waitrets, List.countP_append, Ev.isWaitret]
      omega

theorem tinv_of_accepts_aux {limit : Int} (es : List Ev) : ∀ (tr : List Ev) (m : Nat → Nat) (s s' : St),
    TInv limit tr m s → accepts s es = some s' → ∃ m', TInv limit (tr ++ es) m' s' := by
  induction es with
  | nil =>
    intro tr m s s' hi h
    simp only [accepts, Option.some.injEq] at h
    subst h
    exact ⟨m, by simpa using hi⟩
  | cons e es ih =>
    intro tr m s s' hi h
    simp only [accepts] at h
    cases he : Golib.C19.acceptE s e with
    | none => rw [he] at h; cases h
    | some s1 =>
      rw [he] at h
      obtain ⟨m1, hi1⟩ := hi.acceptE he
      obtain ⟨m2, hi2⟩ := ih _ m1 s1 s' hi1 h
      exact ⟨m2, by simpa using hi2⟩

/-- Every accepted trace is tied to the state the acceptor ends in. -/
theorem tinv_of_accepts {limit : Int} {tr : List Ev} {s : St}
    (h : accepts (newLimiter limit) tr = some s) : ∃ m, TInv limit tr m s := by
  simpa using tinv_of_accepts_aux tr [] _ _ s (TInv.init limit) h

/-! ### from the invariant to the trace predicates -/

/-- The state before any event of an accepted trace, tied to the prefix before it. -/
theorem accepts_at {limit : Int} {tr p : List Ev} {e : Ev} {s : St}
    (h : accepts (newLimiter limit) tr = some s) (hp : p ++ [e] <+: tr) :
    ∃ m s1 s2, TInv limit p m s1 ∧ acceptE s1 e = some s2 := by
  obtain ⟨s2, h2⟩ := accepts_prefix hp h
  obtain ⟨s1, h1, he⟩ := accepts_snoc h2
  obtain ⟨m, hi⟩ := tinv_of_accepts h1
  exact ⟨m, s1, s2, hi, he⟩

theorem submitted_length (tr : List Ev) : (submitted tr).length = submits tr := by
  induction tr with
  | nil => rfl
  | cons e es ih =>
    cases e <;> simp [submitted, submits, Ev.isSubmit, List.countP_cons] at ih ⊢ <;> exact ih

theorem count_le_one_of_fresh (x : Ev) : ∀ (n : Nat) (tr : List Ev), tr.length = n →
    (∀ p, p ++ [x] <+: tr → x ∉ p) → tr.count x ≤ 1 := by
  intro n
  induction n with
  | zero =>
    intro tr h _
    have := List.length_eq_zero_iff.1 h
    subst this; simp
  | succ n ih =>
    intro tr hl hf
    rcases List.eq_nil_or_concat tr with rfl | ⟨l, b, rfl⟩
    · simp
    · rw [List.concat_eq_append] at hl hf ⊢
      have hl' : l.length = n := by simpa using hl
      have h1 := ih l hl' (fun p hp => hf p (prefix_grow b hp))
      rw [List.count_append, List.count_singleton]
      by_cases hb : b = x
      · subst hb
        have := List.count_eq_zero.2 (hf l (List.prefix_refl _))
        simp; omega
      · simp [hb]; exact h1

theorem running_le {n₀ : Nat} {s : St} (hi : Inv n₀ s) : s.running ≤ n₀ := by
  have h1 : s.running ≤ s.k := by
    rw [hi.hk]
    exact List.countP_mono_left fun t _ ht => by
      have : t.pc = .running := by simpa using ht
      simp [this, Pc.holdsToken]
  have := hi.hkn
  have := hi.hn
  omega

theorem traceBound_of_accepts {limit : Int} {tr : List Ev} {s : St}
    (h : accepts (newLimiter limit) tr = some s) : TraceBound (limitOf limit) tr := by
  intro p hp
  obtain ⟨s1, h1⟩ := accepts_prefix hp h
  obtain ⟨m, hi⟩ := tinv_of_accepts h1
  have := running_le (Inv.of_reachable hi.reach)
  have := hi.running
  omega

theorem start_facts {limit : Int} {p : List Ev} {m : Nat → Nat} {s1 s2 : St} {i : Nat}
    (hi : TInv limit p m s1) (he : acceptE s1 (.start i) = some s2) :
    i < submits p ∧ Ev.start i ∉ p := by
  simp only [acceptE] at he
  split at he
  · rename_i t ht
    split at he
    · cases he
    · rename_i hpc
      have hpc : t.pc = .new := Decidable.not_not.1 hpc
      refine ⟨?_, ?_⟩
      · rw [← submitted_length, ← hi.len]; exact (List.getElem?_eq_some_iff.1 ht).1
      · intro hs
        have := (hi.tasks i t ht).started.2 hs
        rw [hpc] at this; simp [Pc.rank] at this
  · cases he

theorem finish_facts {limit : Int} {p : List Ev} {m : Nat → Nat} {s1 s2 : St} {i : Nat}
    (hi : TInv limit p m s1) (he : acceptE s1 (.finish i) = some s2) :
    Ev.start i ∈ p ∧ Ev.finish i ∉ p := by
  simp only [acceptE] at he
  split at he
  · rename_i t ht
    split at he
    · cases he
    · rename_i hpc
      have hpc : t.pc = .running := Decidable.not_not.1 hpc
      refine ⟨(hi.tasks i t ht).started.1 (by simp [hpc, Pc.rank]), ?_⟩
      intro hs
      have := (hi.tasks i t ht).finished.2 hs
      rw [hpc] at this; simp [Pc.rank] at this
  · cases he

theorem traceOnce_of_accepts {limit : Int} {tr : List Ev} {s : St}
    (h : accepts (newLimiter limit) tr = some s) : TraceOnce tr := by
  refine ⟨fun i => ?_, fun i => ?_, fun p i hp => ?_, fun p i hp => ?_⟩
  · refine count_le_one_of_fresh _ _ tr rfl fun p hp => ?_
    obtain ⟨m, s1, s2, hi, he⟩ := accepts_at h hp
    exact (start_facts hi he).2
  · refine count_le_one_of_fresh _ _ tr rfl fun p hp => ?_
    obtain ⟨m, s1, s2, hi, he⟩ := accepts_at h hp
    exact (finish_facts hi he).2
  · obtain ⟨m, s1, s2, hi, he⟩ := accepts_at h hp
    exact (start_facts hi he).1
  · obtain ⟨m, s1, s2, hi, he⟩ := accepts_at h hp
    exact (finish_facts hi he).1

theorem traceWait_of_accepts {limit : Int} {tr : List Ev} {s : St}
    (h : accepts (newLimiter limit) tr = some s) : TraceWait tr := by
  refine ⟨fun p hp => ?_, fun p hp => ?_⟩
  · obtain ⟨m, s1, s2, hi, he⟩ := accepts_at h hp
    obtain ⟨j, w, _, hz, _⟩ := waitret_facts he
    exact ((hi.quiet (settle_quiet s1)).at_zero hz).1
  · obtain ⟨s1, h1⟩ := accepts_prefix hp h
    obtain ⟨m, hi⟩ := tinv_of_accepts h1
    rw [← hi.wret, ← hi.wlen]
    exact List.countP_le_length

theorem traceHandler_of_accepts {limit : Int} {tr : List Ev} {s : St}
    (h : accepts (newLimiter limit) tr = some s) : TraceHandler tr := by
  obtain ⟨m, hi⟩ := tinv_of_accepts h
  exact ⟨m, hi.hm⟩

/-- "Every line answered ok" gives an accepted structured trace. -/
theorem acceptAll_sound (lines : List String) : ∀ (s : St),
    (∀ a ∈ acceptAll s lines, a = "ok") →
    ∃ tr s', lines.map (fun l => parseEv? (Proto.toks l)) = tr.map some ∧ accepts s tr = some s' := by
  induction lines with
  | nil => intro s _; exact ⟨[], s, rfl, rfl⟩
  | cons l rest ih =>
    intro s hall
    simp only [acceptAll] at hall
    cases hev : acceptEv s (Proto.toks l) with
    | none =>
      rw [hev] at hall
      have := hall "not-enabled" (by simp)
      exact absurd this (by decide)
    | some s1 =>
      rw [hev] at hall
      rw [acceptEv_eq] at hev
      cases hpe : parseEv? (Proto.toks l) with
      | none => rw [hpe] at hev; cases hev
      | some e =>
        rw [hpe] at hev
        simp only [Option.bind_some] at hev
        obtain ⟨tr, s', hmap, hacc⟩ := ih s1 (fun a ha => hall a (by simp [ha]))
        refine ⟨e :: tr, s', by simp [hpe, hmap], ?_⟩
        simp only [accepts, hev]
        exact hacc

end Golib.C19
