/-
C03 — the abstract side: the member list of a container / of the whole bitmap, the
representation invariant, and the per-word decomposition `bitsFrom` of a bitmap
container's member list that the enumeration proofs use.  Core-only.
-/
import Golib.Proof.C03Search
import Golib.Proof.C03Bits

namespace Golib.C03

/-- Bit `n` of the word slice (`false` beyond its end). -/
def wordsBit (w : Array Word) (n : Nat) : Bool :=
  match w[n / 64]? with
  | some v => bitSet v (n % 64)
  | none => false

/-- The low halves a container holds, ascending. -/
def Container.members : Container → List Nat
  | .arr v => v.toList
  | .bmp _ w => (List.range (w.size * 64)).filter (wordsBit w)

/-- Container invariant without the "not empty" clause (holds in the middle of `Remove`). -/
def Container.Inv0 : Container → Prop
  | .arr v => Sorted v ∧ (∀ x ∈ v.toList, x < 65536) ∧ v.size ≤ 4096
  | .bmp n w => w.size = 1024 ∧ n = (((List.range (w.size * 64)).filter (wordsBit w)).length : Int)

/-- Container invariant: arrays strictly ascending, values `uint16`, 1..4096 long; bitmap
containers have 1024 words, a cached cardinality equal to the number of set bits, not empty. -/
def Container.Inv : Container → Prop
  | .arr v => Sorted v ∧ (∀ x ∈ v.toList, x < 65536) ∧ 0 < v.size ∧ v.size ≤ 4096
  | .bmp n w => w.size = 1024 ∧
      n = (((List.range (w.size * 64)).filter (wordsBit w)).length : Int) ∧ 0 < n

/-- The abstraction function of an ordered bucket list. -/
def omToList (cs : OMap) : List Nat := cs.flatMap fun p => p.2.members.map (p.1 * 65536 + ·)

/-- The abstraction function: all members, bucket by bucket. -/
def RB.toList (r : RB) : List Nat := omToList r.cs

structure RB.Inv (r : RB) : Prop where
  keys : (r.cs.map Prod.fst).Pairwise (· < ·)
  keyBound : ∀ p ∈ r.cs, p.1 < 65536
  conts : ∀ p ∈ r.cs, p.2.Inv
  len : r.len = (r.toList.length : Int)

/-! ### per-word decomposition -/

/-- The set bits of the words `ws` (the words from index `i` on), starting at bit `j` of the
first one, as absolute positions. -/
def bitsFrom : List Word → Nat → Nat → List Nat
  | [], _, _ => []
  | w :: ws, i, j => ((List.range' j (64 - j)).filter (bitSet w)).map (i * 64 + ·) ++ bitsFrom ws (i + 1) 0

/-- The enumeration order of a container, word by word. -/
def Container.enum : Container → List Nat
  | .arr v => v.toList
  | .bmp _ w => bitsFrom w.toList 0 0

def enumAll (cs : OMap) : List Nat := cs.flatMap fun p => p.2.enum.map (p.1 * 65536 + ·)

theorem wordsBit_word (w : Array Word) (i j : Nat) (hj : j < 64) :
    wordsBit w (i * 64 + j) = match w[i]? with | some v => bitSet v j | none => false := by
  unfold wordsBit
  have h1 : (i * 64 + j) / 64 = i := by omega
  have h2 : (i * 64 + j) % 64 = j := by omega
  rw [h1, h2]

theorem filter_range'_bitsFrom (w : Array Word) :
    ∀ (ws : List Word) (i : Nat), (∀ k, ws[k]? = w[i + k]?) →
      (List.range' (i * 64) (ws.length * 64)).filter (wordsBit w) = bitsFrom ws i 0 := by
  intro ws
  induction ws with
  | nil => intro i _; simp [bitsFrom]
  | cons v ws ih =>
    intro i h
    have hlen : (v :: ws).length * 64 = 64 + ws.length * 64 := by simp only [List.length_cons]; omega
    have hsplit : List.range' (i * 64) (64 + ws.length * 64)
        = List.range' (i * 64) 64 ++ List.range' ((i + 1) * 64) (ws.length * 64) := by
      rw [← List.range'_append (s := i * 64) (m := 64) (n := ws.length * 64) (step := 1)]
      congr 2; omega
    rw [hlen, hsplit, List.filter_append, bitsFrom]
    congr 1
    · rw [List.range'_eq_map_range, List.filter_map, Nat.sub_zero, ← List.range_eq_range']
      congr 1
      apply List.filter_congr
      intro j hj
      have hj' : j < 64 := List.mem_range.mp hj
      have h0 := h 0
      simp only [List.getElem?_cons_zero, Nat.add_zero] at h0
      simp only [Function.comp, wordsBit_word w i j hj', ← h0]
    · apply ih
      intro k
      have := h (k + 1)
      simp only [List.getElem?_cons_succ] at this
      rw [this]; congr 1; omega

theorem members_eq_enum (c : Container) : c.members = c.enum := by
  cases c with
  | arr v => rfl
  | bmp n w =>
    simp only [Container.members, Container.enum]
    have := filter_range'_bitsFrom w w.toList 0 (by intro k; simp)
    simpa [List.range_eq_range'] using this

theorem toList_eq_enumAll (r : RB) : r.toList = enumAll r.cs := by
  simp only [RB.toList, omToList, enumAll, members_eq_enum]

end Golib.C03
