/-
C12 — SafeKV programs: every goroutine performs a list of SafeKV calls.  The goroutine-
local state is the scratch state of the current call plus the results of the finished
calls (newest first); `pbody c` = start from the call's own initial local state, run
the modelled body of `c`, push the result.  One step of the sequential history is
`seqCall c` on the current map (`seqStepP_safekv`).
-/
import Golib.Proof.C12Programs
import Golib.Proof.C12KVSpec

namespace Golib.C12

/-- scratch state of the current call, results of the finished calls (newest first) -/
abbrev PLoc := Loc × List Loc

def liftAct (a : A) : Act KV PLoc :=
  { ev := a.ev
    f := fun s l => ((a.f s l.1).1, ((a.f s l.1).2, l.2))
    g := fun l => (a.g l.1, l.2) }

def pbody (c : Call) : List (Act KV PLoc) :=
  ({ ev := .callFn, g := fun l => (c.init, l.2) } : Act KV PLoc) ::
    ((body c).map liftAct ++ [({ ev := .callFn, g := fun l => (l.1, l.1 :: l.2) } : Act KV PLoc)])

theorem liftAct_apply (a : A) (s : KV) (l : Loc) (h : List Loc) :
    (liftAct a).apply s (l, h) = ((a.apply s l).1, ((a.apply s l).2, h)) := by
  unfold Act.apply
  cases he : a.ev <;> simp [liftAct, he]

theorem runActs_lift (as : List A) (tail : List (Act KV PLoc)) (s : KV) (l : Loc) (h : List Loc) :
    runActs (as.map liftAct ++ tail) s (l, h) =
      runActs tail (runActs as s l).1 ((runActs as s l).2, h) := by
  induction as generalizing s l with
  | nil => rfl
  | cons a as ih =>
    simp only [List.map_cons, List.cons_append, runActs_cons, liftAct_apply]
    exact ih _ _

/-- A program body, run uninterrupted, is `seqCall` and records its result. -/
theorem runActs_pbody (c : Call) (s : KV) (l : PLoc) :
    runActs (pbody c) s l = ((seqCall c s).1, ((seqCall c s).2, (seqCall c s).2 :: l.2)) := by
  obtain ⟨l0, h⟩ := l
  unfold pbody
  rw [runActs_cons]
  simp only [Act.apply]
  rw [runActs_lift]
  simp [runActs, Act.apply, seqCall]

theorem pbody_callOK (c : Call) : CallOK (pbody c) := by
  constructor
  · cases c <;> rfl
  · cases c <;> rfl

/-- One step of the sequential history of SafeKV programs. -/
theorem seqStepP_safekv (calls : Nat → List Call) (q : SeqSt KV PLoc) (t : Nat) (c : Call)
    (hc : (calls t)[q.idx t]? = some c) :
    seqStepP (fun t => (calls t).map pbody) q t =
      { sh := (seqCall c q.sh).1
        loc := upd q.loc t ((seqCall c q.sh).2, (seqCall c q.sh).2 :: (q.loc t).2)
        idx := upd q.idx t (q.idx t + 1) } := by
  have : ((calls t).map pbody).getD (q.idx t) [] = pbody c := by
    simp [List.getD, List.getElem?_map, hc]
  simp only [seqStepP, this, runActs_pbody]

/-- Beyond the end of a program nothing is executed. -/
theorem seqStepP_safekv_none (calls : Nat → List Call) (q : SeqSt KV PLoc) (t : Nat)
    (hc : (calls t)[q.idx t]? = none) :
    (seqStepP (fun t => (calls t).map pbody) q t).sh = q.sh ∧
    (seqStepP (fun t => (calls t).map pbody) q t).loc = upd q.loc t (q.loc t) := by
  have : ((calls t).map pbody).getD (q.idx t) [] = [] := by
    simp [List.getD, List.getElem?_map, hc]
  simp only [seqStepP, this, runActs]
  trivial

/-! ### Sequential facts about programs of one method (used by the corollaries) -/

theorem seqCall_setX_get (s : KV) (k' v k : Int) (h : s.get k = none) :
    (seqCall (.setX k' v) s).1.get k = none := by
  by_cases hp : (s.get k').isSome = true
  · have : (seqCall (.setX k' v) s).1 = s.set k' v := by
      simp [seqCall, body, runActs, Act.apply, aLock, aUnlock, rdLookup, rd, wr, Call.init, hp]
    rw [this, KV.get_set]
    by_cases hk : k = k'
    · subst hk; rw [h] at hp; cases hp
    · simp [hk, h]
  · have hn : s.get k' = none := by simpa using hp
    rw [seqCall_setX_absent s k' v hn]; exact h

/-- Programs that only call `SetX`: a key absent at the start is absent after any
sequential history. -/
theorem foldl_setX_absent (calls : Nat → List Call)
    (hx : ∀ t, ∀ c ∈ calls t, ∃ k' v, c = Call.setX k' v) (k : Int) (o : List Nat)
    (q : SeqSt KV PLoc) (hq : q.sh.get k = none) :
    (o.foldl (seqStepP (fun t => (calls t).map pbody)) q).sh.get k = none := by
  induction o generalizing q with
  | nil => exact hq
  | cons t o ih =>
    rw [List.foldl_cons]
    apply ih
    cases hc : (calls t)[q.idx t]? with
    | none => rw [(seqStepP_safekv_none calls q t hc).1]; exact hq
    | some c =>
      obtain ⟨k', v, rfl⟩ := hx t c (List.mem_of_getElem? hc)
      rw [seqStepP_safekv calls q t _ hc]
      exact seqCall_setX_get q.sh k' v k hq

/-- number of recorded results that are a won `SetNx` (answered `true`, i.e. `ok = false`) -/
def wins (l : PLoc) : Nat := (l.2.filter fun r => !r.ok).length

/-- Programs that only call `SetNx k ·`: once `k` is present nobody wins any more. -/
theorem foldl_setNx_present (calls : Nat → List Call) (k : Int)
    (hx : ∀ t, ∀ c ∈ calls t, ∃ v, c = Call.setNx k v) (o : List Nat)
    (q : SeqSt KV PLoc) (hq : (q.sh.get k).isSome = true) :
    ((o.foldl (seqStepP (fun t => (calls t).map pbody)) q).sh.get k).isSome = true ∧
    ∀ t, wins ((o.foldl (seqStepP (fun t => (calls t).map pbody)) q).loc t) = wins (q.loc t) := by
  induction o generalizing q with
  | nil => exact ⟨hq, fun _ => rfl⟩
  | cons u o ih =>
    rw [List.foldl_cons]
    cases hc : (calls u)[q.idx u]? with
    | none =>
      obtain ⟨e1, e2⟩ := seqStepP_safekv_none calls q u hc
      obtain ⟨h1, h2⟩ := ih (seqStepP (fun t => (calls t).map pbody) q u) (by rw [e1]; exact hq)
      refine ⟨h1, fun t => ?_⟩
      rw [h2 t, e2]
      by_cases htu : t = u <;> simp [upd, htu]
    | some c =>
      obtain ⟨v, rfl⟩ := hx u c (List.mem_of_getElem? hc)
      have hstep := seqStepP_safekv calls q u _ hc
      have hcall := seqCall_setNx q.sh k v
      simp only [hq, if_true] at hcall
      obtain ⟨h1, h2⟩ := ih (seqStepP (fun t => (calls t).map pbody) q u) (by
        rw [hstep, hcall]; exact hq)
      refine ⟨h1, fun t => ?_⟩
      rw [h2 t, hstep, hcall]
      by_cases htu : t = u
      · subst htu; simp [upd, wins, hq]
      · simp [upd, htu]

/-- Programs that only call `SetNx k ·` on a map without `k`: the first call in entry
order wins, and it is the only winner. -/
theorem foldl_setNx_absent (calls : Nat → List Call) (k : Int)
    (hx : ∀ t, ∀ c ∈ calls t, ∃ v, c = Call.setNx k v) (t0 : Nat) (o : List Nat)
    (q : SeqSt KV PLoc) (hq : q.sh.get k = none) (h0 : q.idx t0 < (calls t0).length) :
    ∀ t, wins (((t0 :: o).foldl (seqStepP (fun t => (calls t).map pbody)) q).loc t) =
      wins (q.loc t) + (if t = t0 then 1 else 0) := by
  rw [List.foldl_cons]
  have hc : (calls t0)[q.idx t0]? = some ((calls t0)[q.idx t0]) := List.getElem?_eq_getElem h0
  obtain ⟨v, hv⟩ := hx t0 _ (List.getElem_mem h0)
  rw [hv] at hc
  have hstep := seqStepP_safekv calls q t0 _ hc
  have hcall := seqCall_setNx q.sh k v
  simp only [hq, Option.isSome_none, Bool.false_eq_true, if_false, Option.getD_none] at hcall
  have hpres : ((seqStepP (fun t => (calls t).map pbody) q t0).sh.get k).isSome = true := by
    rw [hstep, hcall]; simp [KV.get_set]
  intro t
  rw [(foldl_setNx_present calls k hx o _ hpres).2 t, hstep, hcall]
  by_cases ht : t = t0
  · subst ht; simp [upd, wins]
  · simp [upd, ht]

end Golib.C12
