/-
C14 helper lemmas, wave 8 B: the machine-integer (`IntOps`) models of `Model/C14Wrap.lean` equal the
unbounded models for every Sound machine and every `int` argument — the code clamps before it adds.
Also: the 64-bit machine is Sound; the change class of seed C14-I (`copyEndG`: the END is clamped, the
sum `start + length` is formed first) is the same function over unbounded integers, agrees with `Copy`
while the sum fits, and panics on the 64-bit machine for every length beyond `MaxInt - start`.
-/
import Golib.Model.C14Wrap
import Golib.Proof.C14Flex

namespace Golib.C14

theorem wrap64_sound : IntOps.wrap64.Sound := by
  refine ⟨?_, ?_, ?_⟩ <;> intro a b ha hb hab <;>
    simp only [IntOps.wrap64, IsInt, minInt, maxInt] at * 
  · rw [BitVec.toInt_add, BitVec.toInt_ofInt, BitVec.toInt_ofInt]
    simp only [Int.bmod_def] 
    omega
  · rw [BitVec.toInt_sub, BitVec.toInt_ofInt, BitVec.toInt_ofInt]
    simp only [Int.bmod_def] 
    omega
  · rw [BitVec.toInt_mul, BitVec.toInt_ofInt, BitVec.toInt_ofInt]
    have h1 : a.bmod (2 ^ 64) = a := by simp only [Int.bmod_def]; omega
    have h2 : b.bmod (2 ^ 64) = b := by simp only [Int.bmod_def]; omega
    rw [h1, h2]
    generalize a * b = c at *
    simp only [Int.bmod_def]; omega

theorem poison_sound (p : Int) : (IntOps.poison p).Sound := by
  refine ⟨?_, ?_, ?_⟩ <;> intro a b _ _ hab <;> simp only [IntOps.poison, if_pos hab]

theorem exact_sound : IntOps.exact.Sound := ⟨fun _ _ _ _ _ => rfl, fun _ _ _ _ _ => rfl, fun _ _ _ _ _ => rfl⟩

theorem copyG_exact (s : List Int) (a b : Int) : copyG .exact s a b = copy s a b := rfl

theorem copyG_eq (o : IntOps) (ho : o.Sound) (s : List Int) (start length : Int)
    (hl : (s.length : Int) ≤ maxInt) (hs : IsInt start) (hn : IsInt length) :
    copyG o s start length = copy s start length := by
  unfold copyG copy
  simp only []
  split
  · rfl
  · rename_i h
    have h0 : (0 : Int) < s.length ∧ start < s.length ∧ length ≠ 0 := by omega
    have hsub : ∀ st : Int, 0 ≤ st → st < s.length → o.sub s.length st = s.length - st := by
      intro st h1 h2
      apply ho.sub <;> simp only [IsInt, minInt, maxInt] at * <;> omega
    have hst : o.sub (s.length : Int) (if start < 0 then 0 else start) = s.length - (if start < 0 then 0 else start) := by
      apply hsub <;> split <;> omega
    rw [hst]
    have hadd : o.add (if start < 0 then 0 else start)
        (if length < 0 ∨ length > s.length - (if start < 0 then 0 else start) then s.length - (if start < 0 then 0 else start) else length)
        = (if start < 0 then 0 else start) + (if length < 0 ∨ length > s.length - (if start < 0 then 0 else start) then s.length - (if start < 0 then 0 else start) else length) := by
      apply ho.add <;> simp only [IsInt, minInt, maxInt] at * <;> (repeat' split) <;> omega
    rw [hadd]
    rfl

/-! ### Remove -/

theorem removeG_tail (n : Nat) (m : List Int) (v : Int) (hn : 0 < n) :
    (if 0 ≤ (n : Int) - 1 ∧ (n : Int) - 1 < (m.length : Int) then
        some (m.set ((n : Int) - 1).toNat 0, (⟨false, (m.set ((n : Int) - 1).toNat 0).take ((n : Int) - 1).toNat⟩ : Sl), v, true)
      else none)
    = (if n - 1 < m.length then
        some (m.set (n - 1) 0, (⟨false, (m.set (n - 1) 0).take (n - 1)⟩ : Sl), v, true)
      else none) := by
  have h : ((n : Int) - 1).toNat = n - 1 := by omega
  rw [h]
  by_cases c : n - 1 < m.length
  · have c' : 0 ≤ (n : Int) - 1 ∧ (n : Int) - 1 < (m.length : Int) := by omega
    rw [if_pos c, if_pos c']
  · have c' : ¬ (0 ≤ (n : Int) - 1 ∧ (n : Int) - 1 < (m.length : Int)) := by omega
    rw [if_neg c, if_neg c']

theorem removeG_eq (o : IntOps) (ho : o.Sound) (nil1 : Bool) (s : List Int) (index : Int)
    (hl : (s.length : Int) ≤ maxInt) (hi : IsInt index) :
    removeG o nil1 s index = remove nil1 s index := by
  unfold removeG remove
  simp only []
  split
  · rfl
  · rename_i h
    have h0 : 0 ≤ index ∧ index < s.length := by omega
    obtain ⟨i, rfl⟩ := Int.eq_ofNat_of_zero_le h0.1
    have hsub : o.sub (s.length : Int) 1 = s.length - 1 := by
      apply ho.sub <;> simp only [IsInt, minInt, maxInt] at * <;> omega
    have hadd : o.add (i : Int) 1 = i + 1 := by
      apply ho.add <;> simp only [IsInt, minInt, maxInt] at * <;> omega
    rw [hsub, hadd]
    simp only [Int.toNat_natCast]
    have hpos : 0 < s.length := by omega
    cases hv : s[i]? with
    | none => rfl
    | some v =>
      simp only []
      by_cases hlt : i < s.length - 1
      · have h1 : (i : Int) < (s.length : Int) - 1 := by omega
        have h2 : (0 : Int) ≤ (i : Int) + 1 ∧ (i : Int) + 1 ≤ (s.length : Int) := by omega
        have h3 : ((i : Int) + 1).toNat = i + 1 := by omega
        simp only [if_pos h1, if_pos h2, if_pos hlt, h3]
        exact removeG_tail s.length _ v hpos
      · have h1 : ¬ (i : Int) < (s.length : Int) - 1 := by omega
        simp only [if_neg h1, if_neg hlt]
        exact removeG_tail s.length _ v hpos

/-! ### Chunk / ChunkProcess -/

theorem chunkLoopG_eq (o : IntOps) (ho : o.Sound) (len size n : Nat) (hlen : (len : Int) ≤ maxInt)
    (hn : n ≤ len) :
    ∀ (f k start : Nat) (acc : List (Nat × Nat)), k + f = n → start + f * size ≤ len →
      chunkLoopG o len size n (f + 1) k start acc
        = (chunkLoop len size f start acc).map fun r => (r.1, (r.2 : Int)) := by
  intro f
  induction f with
  | zero =>
    intro k start acc hk _
    have : ¬ ((k : Int) < (n : Int)) := by omega
    simp only [chunkLoopG, chunkLoop, if_neg this, Option.map]
  | succ f ih =>
    intro k start acc hk hs
    have hlt : (k : Int) < (n : Int) := by omega
    have hmul : (f + 1) * size = f * size + size := Nat.succ_mul f size
    have hadd : o.add (start : Int) (size : Int) = ((start + size : Nat) : Int) := by
      rw [ho.add] <;> simp only [IsInt, minInt, maxInt] at * <;> omega
    have hk1 : o.add (k : Int) 1 = ((k + 1 : Nat) : Int) := by
      rw [ho.add] <;> simp only [IsInt, minInt, maxInt] at * <;> omega
    have hb : 0 ≤ (start : Int) ∧ (start : Int) ≤ ((start + size : Nat) : Int) ∧ ((start + size : Nat) : Int) ≤ (len : Int) := by omega
    have hb' : start + size ≤ len := by omega
    rw [chunkLoopG, chunkLoop]
    simp only [if_pos hlt, hadd, hk1, if_pos hb, if_pos hb']
    have e : (((start + size : Nat) : Int) - (start : Int)).toNat = size := by omega
    rw [e, Int.toNat_natCast]
    exact ih (k + 1) (start + size) _ (by omega) (by omega)


theorem chunkG_eq (o : IntOps) (ho : o.Sound) (len : Nat) (chunkSize : Int)
    (hl : (len : Int) < maxInt) (hc : IsInt chunkSize) :
    chunkG o len chunkSize = chunk len chunkSize := by
  unfold chunkG chunk
  simp only []
  by_cases h0 : len = 0
  · have : (len : Int) = 0 := by omega
    rw [if_pos h0, if_pos this]
  · have h0' : ¬ (len : Int) = 0 := by omega
    rw [if_neg h0, if_neg h0']
    split
    · rfl
    · rename_i h
      have hpos : 1 ≤ chunkSize ∧ chunkSize < len := by omega
      obtain ⟨size, rfl⟩ := Int.eq_ofNat_of_zero_le (by omega : 0 ≤ chunkSize)
      rw [← Int.natCast_ediv, Int.toNat_natCast, Int.toNat_natCast]
      have hn : len / size ≤ len := Nat.div_le_self _ _
      have hm : len / size * size ≤ len := Nat.div_mul_le_self len size
      generalize len / size = q at *
      have hadd : o.add (q : Int) 1 = (q : Int) + 1 := by
        apply ho.add <;> simp only [IsInt, minInt, maxInt] at * <;> omega
      rw [hadd, if_neg (by omega)]
      have := chunkLoopG_eq o ho len size q (by simp only [maxInt] at *; omega) hn q 0 0 []
        (by omega) (by omega)
      simp only [Int.natCast_zero] at this
      rw [this]
      cases hloop : chunkLoop len size q 0 [] with
      | none => rfl
      | some r =>
        obtain ⟨chunks, start⟩ := r
        simp only [Option.map]
        by_cases hs : len > start
        · have h1 : (len : Int) > (start : Int) := by omega
          have h2 : 0 ≤ (start : Int) ∧ (start : Int) ≤ (len : Int) := by omega
          have h3 : ((len : Int) - (start : Int)).toNat = len - start := by omega
          simp only [if_pos hs, if_pos h1, if_pos h2, h3, Int.toNat_natCast]
        · have h1 : ¬ (len : Int) > (start : Int) := by omega
          simp only [if_neg hs, if_neg h1]

theorem chunkProcLoopG_eq (o : IntOps) (ho : o.Sound) (len size n failAt : Nat) (hlen : (len : Int) ≤ maxInt)
    (hn : n ≤ len) :
    ∀ (f k start calls : Nat) (acc : List (Nat × Nat)), k + f = n → start + f * size ≤ len →
      chunkProcLoopG o len size n failAt (f + 1) k start calls acc
        = (chunkProcLoop len size failAt f start calls acc).map fun r => (r.1, (r.2.1 : Int), r.2.2) := by
  intro f
  induction f with
  | zero =>
    intro k start calls acc hk _
    have : ¬ ((k : Int) < (n : Int)) := by omega
    simp only [chunkProcLoopG, chunkProcLoop, if_neg this, Option.map]
  | succ f ih =>
    intro k start calls acc hk hs
    have hlt : (k : Int) < (n : Int) := by omega
    have hmul : (f + 1) * size = f * size + size := Nat.succ_mul f size
    have hadd : o.add (start : Int) (size : Int) = ((start + size : Nat) : Int) := by
      rw [ho.add] <;> simp only [IsInt, minInt, maxInt] at * <;> omega
    have hk1 : o.add (k : Int) 1 = ((k + 1 : Nat) : Int) := by
      rw [ho.add] <;> simp only [IsInt, minInt, maxInt] at * <;> omega
    have hb : 0 ≤ (start : Int) ∧ (start : Int) ≤ ((start + size : Nat) : Int) ∧ ((start + size : Nat) : Int) ≤ (len : Int) := by omega
    have hb' : start + size ≤ len := by omega
    have e : (((start + size : Nat) : Int) - (start : Int)).toNat = size := by omega
    rw [chunkProcLoopG, chunkProcLoop]
    simp only [if_pos hlt, hadd, hk1, if_pos hb, if_pos hb', e, Int.toNat_natCast]
    split
    · simp only [Option.map]
    · exact ih (k + 1) (start + size) _ _ (by omega) (by omega)

theorem chunkProcessG_eq (o : IntOps) (ho : o.Sound) (len : Nat) (chunkSize : Int) (failAt : Nat)
    (hl : (len : Int) ≤ maxInt) (hc : IsInt chunkSize) :
    chunkProcessG o len chunkSize failAt = chunkProcess len chunkSize failAt := by
  unfold chunkProcessG chunkProcess
  simp only []
  by_cases h0 : len = 0
  · have : (len : Int) = 0 := by omega
    rw [if_pos h0, if_pos this]
  · have h0' : ¬ (len : Int) = 0 := by omega
    rw [if_neg h0, if_neg h0']
    split
    · rfl
    · rename_i h
      have hpos : 1 ≤ chunkSize ∧ chunkSize < len := by omega
      obtain ⟨size, rfl⟩ := Int.eq_ofNat_of_zero_le (by omega : 0 ≤ chunkSize)
      rw [← Int.natCast_ediv, Int.toNat_natCast, Int.toNat_natCast]
      have hn : len / size ≤ len := Nat.div_le_self _ _
      have hm : len / size * size ≤ len := Nat.div_mul_le_self len size
      generalize len / size = q at *
      have := chunkProcLoopG_eq o ho len size q failAt hl hn q 0 0 0 []
        (by omega) (by omega)
      simp only [Int.natCast_zero] at this
      rw [this]
      cases hloop : chunkProcLoop len size failAt q 0 0 [] with
      | none => rfl
      | some r =>
        obtain ⟨calls, start, b⟩ := r
        cases b with
        | true => rfl
        | false =>
          simp only [Option.map]
          by_cases hs : len > start
          · have h1 : (len : Int) > (start : Int) := by omega
            have h2 : 0 ≤ (start : Int) ∧ (start : Int) ≤ (len : Int) := by omega
            have h3 : ((len : Int) - (start : Int)).toNat = len - start := by omega
            simp only [if_pos hs, if_pos h1, if_pos h2, h3, Int.toNat_natCast]
          · have h1 : ¬ (len : Int) > (start : Int) := by omega
            simp only [if_neg hs, if_neg h1]

/-! ### FlexSlice -/


theorem shrinkG_eq (o : IntOps) (ho : o.Sound) (f : Flex) (hc : (f.cap : Int) ≤ maxInt) :
    f.shrinkG o = some f.shrink := by
  unfold Flex.shrinkG Flex.shrink
  split
  · rfl
  · by_cases h : f.len ≤ f.cap / 4
    · have h' : (f.len : Int) ≤ (f.cap : Int) / 4 := by omega
      have hm : o.mul (f.len : Int) 2 = ((f.len * 2 : Nat) : Int) := by
        rw [ho.mul] <;> simp only [IsInt, minInt, maxInt] at * <;> omega
      rw [if_pos h, if_pos h', hm]
      simp only []
      by_cases h8 : f.len * 2 < 8
      · have h8' : ((f.len * 2 : Nat) : Int) < 8 := by omega
        rw [if_pos h8, if_pos h8', if_pos (by omega)]
        rfl
      · have h8' : ¬ ((f.len * 2 : Nat) : Int) < 8 := by omega
        rw [if_neg h8, if_neg h8', if_pos (by omega), Int.toNat_natCast]
    · have h' : ¬ (f.len : Int) ≤ (f.cap : Int) / 4 := by omega
      rw [if_neg h, if_neg h']

theorem flex_removeG_eq (o : IntOps) (ho : o.Sound) (f : Flex) (index : Int)
    (hinv : f.Inv) (hc : (f.cap : Int) ≤ maxInt) (hi : IsInt index) :
    f.removeG o index = f.remove index := by
  unfold Flex.removeG Flex.remove
  have hv : (f.values.length : Int) ≤ maxInt := by
    have : f.values.length ≤ f.cap := by rw [length_values f hinv]; exact hinv
    omega
  rw [removeG_eq o ho false f.values index hv hi]
  cases hr : remove false f.values index with
  | none => rfl
  | some r =>
    obtain ⟨m, res, v, ok⟩ := r
    cases ok with
    | false => rfl
    | true =>
      simp only []
      have hml : m.length = f.values.length := by
        by_cases hr0 : index < 0 ∨ index ≥ f.values.length
        · rw [(remove_spec false f.values index).1 hr0] at hr; simp at hr
        · obtain ⟨i, rfl⟩ := Int.eq_ofNat_of_zero_le (by omega : 0 ≤ index)
          have hi' : i < f.values.length := by omega
          rw [(remove_spec false f.values i).2 i rfl hi'] at hr
          simp only [Option.some.injEq, Prod.mk.injEq] at hr
          rw [← hr.1]; simp [List.length_eraseIdx, hi']; omega
      rw [shrinkG_eq o ho]
      simp only [Flex.cap, List.length_append, List.length_drop, hml, length_values f hinv]
      have hinv' : f.len ≤ f.mem.length := hinv
      simp only [Flex.cap] at hc
      omega

theorem flex_popG_eq (o : IntOps) (ho : o.Sound) (f : Flex) (hinv : f.Inv) (hc : (f.cap : Int) ≤ maxInt) :
    f.popG o = f.pop := by
  unfold Flex.popG Flex.pop
  have hinv' : f.len ≤ f.cap := hinv
  have hs : o.sub (f.len : Int) 1 = (f.len : Int) - 1 := by
    apply ho.sub <;> simp only [IsInt, minInt, maxInt] at * <;> omega
  rw [hs]
  apply flex_removeG_eq o ho f _ hinv hc
  simp only [IsInt, minInt, maxInt] at *; omega

theorem flex_shiftG_eq (o : IntOps) (ho : o.Sound) (f : Flex) (hinv : f.Inv) (hc : (f.cap : Int) ≤ maxInt) :
    f.shiftG o = f.shift :=
  flex_removeG_eq o ho f 0 hinv hc (by simp only [IsInt, minInt, maxInt]; omega)

theorem flex_subSliceG_eq (o : IntOps) (ho : o.Sound) (f : Flex) (a b : Int) (hc : (f.cap : Int) ≤ maxInt) :
    f.subSliceG o a b = f.subSlice a b := by
  unfold Flex.subSliceG Flex.subSlice
  cases subSlice f.len a b with
  | none => rfl
  | some v =>
    cases v with
    | view st l =>
      simp only []
      rw [shrinkG_eq o ho]
      simp only [Flex.cap, List.length_drop] at *; omega
    | nil => simp only []; rw [shrinkG_eq o ho]; simp only [Flex.cap, List.length_nil, maxInt]; omega
    | fresh xs => simp only []; rw [shrinkG_eq o ho]; simp only [Flex.cap, List.length_nil, maxInt]; omega

theorem flex_prependG_eq (o : IntOps) (ho : o.Sound) (f : Flex) (v : List Int)
    (hg1 : (v.length : Int) + (f.len : Int) ≤ maxInt) (hg2 : 2 * (f.cap : Int) ≤ maxInt) :
    f.prependG o v = some (f.prepend v) := by
  unfold Flex.prependG Flex.prepend
  simp only []
  have hadd : o.add (v.length : Int) (f.len : Int) = ((v.length + f.len : Nat) : Int) := by
    rw [ho.add] <;> simp only [IsInt, minInt, maxInt] at * <;> omega
  have hmul : o.mul 2 (f.cap : Int) = ((2 * f.cap : Nat) : Int) := by
    rw [ho.mul] <;> simp only [IsInt, minInt, maxInt] at * <;> omega
  rw [hadd, hmul]
  by_cases hc : f.cap ≥ v.length + f.len
  · have hc' : (f.cap : Int) ≥ ((v.length + f.len : Nat) : Int) := by omega
    rw [if_pos hc, if_pos hc', if_pos (by omega), Int.toNat_natCast]
  · have hc' : ¬ (f.cap : Int) ≥ ((v.length + f.len : Nat) : Int) := by omega
    rw [if_neg hc, if_neg hc']
    by_cases h2 : 2 * f.cap ≥ v.length + f.len
    · have h2' : ((2 * f.cap : Nat) : Int) ≥ ((v.length + f.len : Nat) : Int) := by omega
      simp only [if_pos h2, if_pos h2', Int.toNat_natCast]
      rw [if_pos (by omega)]
    · have h2' : ¬ ((2 * f.cap : Nat) : Int) ≥ ((v.length + f.len : Nat) : Int) := by omega
      simp only [if_neg h2, if_neg h2', Int.toNat_natCast]
      rw [if_pos (by omega)]

/-! ### the change class of seed C14-I -/

theorem wrap64_add_overflow (a b : Int) (ha : 0 ≤ a ∧ a ≤ maxInt) (hb : 0 ≤ b ∧ b ≤ maxInt) (h : a + b > maxInt) :
    IntOps.wrap64.add a b = a + b - 18446744073709551616 := by
  simp only [IntOps.wrap64, maxInt] at *
  rw [BitVec.toInt_add, BitVec.toInt_ofInt, BitVec.toInt_ofInt]
  simp only [Int.bmod_def]
  omega

/-- over unbounded integers the rewrite of seed C14-I is THE SAME function as `Copy` -/
theorem copyEndG_exact (s : List Int) (start length : Int) :
    copyEndG .exact s start length = copy s start length := by
  unfold copyEndG copy IntOps.exact
  simp only []
  split
  · rfl
  · have e : (if length < 0 ∨ (if start < 0 then 0 else start) + length > (s.length : Int) then (s.length : Int) else (if start < 0 then 0 else start) + length)
        = (if start < 0 then 0 else start) + (if length < 0 ∨ length > (s.length : Int) - (if start < 0 then 0 else start) then (s.length : Int) - (if start < 0 then 0 else start) else length) := by
      (repeat' split) <;> omega
    rw [e]; rfl

/-- on a Sound machine it is `Copy` as long as `start + length` (start clamped to 0) fits -/
theorem copyEndG_eq_of_fits (o : IntOps) (ho : o.Sound) (s : List Int) (start length : Int)
    (hs : IsInt start) (hn : IsInt length)
    (hfit : (if start < 0 then 0 else start) + length ≤ maxInt) :
    copyEndG o s start length = copy s start length := by
  rw [← copyEndG_exact]
  unfold copyEndG
  simp only []
  split
  · rfl
  · have : o.add (if start < 0 then 0 else start) length = IntOps.exact.add (if start < 0 then 0 else start) length := by
      simp only [IntOps.exact]
      apply ho.add <;> simp only [IsInt, minInt, maxInt] at * <;> (repeat' split) <;> omega
    rw [this]

/-- on the 64-bit machine it PANICS for every in-range start and every length beyond `MaxInt - start` -/
theorem copyEndG_wrap64_panics (s : List Int) (start length : Int)
    (hl : (s.length : Int) ≤ maxInt) (hs : start < s.length) (hn : IsInt length)
    (hover : (if start < 0 then 0 else start) + length > maxInt) :
    copyEndG .wrap64 s start length = none := by
  unfold copyEndG
  simp only []
  have h0 : ¬ ((s.length : Int) = 0 ∨ start ≥ s.length ∨ length = 0) := by
    simp only [IsInt, minInt, maxInt] at *; split at hover <;> omega
  rw [if_neg h0]
  have hw := wrap64_add_overflow (if start < 0 then 0 else start) length
    (by simp only [maxInt] at *; split <;> omega)
    (by simp only [IsInt, minInt, maxInt] at *; split at hover <;> omega) hover
  rw [hw]
  have hneg : (if start < 0 then 0 else start) + length - 18446744073709551616 < 0 := by
    simp only [IsInt, minInt, maxInt] at *; split <;> omega
  have hlen : ¬ length < 0 := by simp only [IsInt, minInt, maxInt] at *; split at hover <;> omega
  have : ¬ (length < 0 ∨ (if start < 0 then 0 else start) + length - 18446744073709551616 > (s.length : Int)) := by omega
  rw [if_neg this]
  have : sliceView s.length (if start < 0 then 0 else start) ((if start < 0 then 0 else start) + length - 18446744073709551616) = none := by
    unfold sliceView
    rw [if_neg]
    split <;> omega
  rw [this]

end Golib.C14
