/-
C07: shape of the Format outputs: fixed-width upper-case escapes, one per byte / rune,
two (high then low surrogate) for runes above U+FFFF.
-/
import Golib.Proof.C07Utf16

namespace Golib.C07
open Golib

/-- `'0'..'7'` -/
def isOct (c : Nat) : Bool := 48 ≤ c && c ≤ 55
/-- `'0'..'9' | 'A'..'F'` -/
def isUHex (c : Nat) : Bool := (48 ≤ c && c ≤ 57) || (65 ≤ c && c ≤ 70)

/-- `out` is a sequence of escapes, each `pfx` followed by exactly `w` characters satisfying `P`;
`n` counts them. -/
inductive Shape (pfx : Bytes) (w : Nat) (P : Nat → Bool) : Nat → Bytes → Prop where
  | nil : Shape pfx w P 0 []
  | cons {n : Nat} (ds rest : Bytes) : ds.length = w → (∀ c ∈ ds, P c = true) →
      Shape pfx w P n rest → Shape pfx w P (n + 1) (pfx ++ ds ++ rest)

theorem Shape.append {pfx : Bytes} {w : Nat} {P : Nat → Bool} {n m : Nat} {a b : Bytes}
    (ha : Shape pfx w P n a) (hb : Shape pfx w P m b) : Shape pfx w P (m + n) (a ++ b) := by
  induction ha with
  | nil => simpa using hb
  | cons ds rest hl hp _ ih =>
    rw [List.append_assoc]
    exact Shape.cons ds (rest ++ b) hl hp ih

theorem Shape.length {pfx : Bytes} {w : Nat} {P : Nat → Bool} {n : Nat} {a : Bytes}
    (ha : Shape pfx w P n a) : a.length = n * (pfx.length + w) := by
  induction ha with
  | nil => simp
  | cons ds rest hl _ _ ih =>
    simp only [List.length_append, hl, ih, Nat.add_mul, Nat.one_mul]; omega

theorem toDigitsAux_lt {base : Nat} (hb : 1 ≤ base) :
    ∀ (fuel v : Nat), ∀ d ∈ toDigitsAux base fuel v, d < base
  | 0, v, d, hd => by
    simp only [toDigitsAux, List.mem_singleton] at hd
    rw [hd]; exact Nat.mod_lt _ (by omega)
  | fuel + 1, v, d, hd => by
    unfold toDigitsAux at hd
    split at hd
    · simp only [List.mem_singleton] at hd; omega
    · rcases List.mem_append.mp hd with h | h
      · exact toDigitsAux_lt hb fuel _ d h
      · simp only [List.mem_singleton] at h
        rw [h]; exact Nat.mod_lt _ (by omega)

theorem appendUint_some {w v base : Nat} {d : Bytes} (h : appendUint w v base = some d) :
    d.length = w ∧ ∀ c ∈ d, c = 48 ∨ ∃ k ∈ toDigits base v, c = digitChar k := by
  unfold appendUint at h
  simp only [] at h
  split at h
  · split at h
    · simp only [Option.some.injEq] at h
      subst h
      rename_i h1 _
      refine ⟨by simp only [List.length_append, List.length_replicate]; omega, ?_⟩
      intro c hc
      rcases List.mem_append.mp hc with h | h
      · exact Or.inl (List.mem_replicate.mp h).2
      · obtain ⟨k, hk, rfl⟩ := List.mem_map.mp h
        exact Or.inr ⟨k, hk, rfl⟩
    · simp at h
  · simp at h

theorem isOct_digitChar : ∀ k, k < 8 → isOct (digitChar k) = true := by decide
theorem isUHex_upper_digitChar : ∀ k, k < 16 → isUHex (upper (digitChar k)) = true := by decide

theorem appendUint_oct {w v : Nat} {d : Bytes} (h : appendUint w v 8 = some d) :
    d.length = w ∧ ∀ c ∈ d, isOct c = true := by
  obtain ⟨hl, hc⟩ := appendUint_some h
  refine ⟨hl, fun c hcd => ?_⟩
  rcases hc c hcd with rfl | ⟨k, hk, rfl⟩
  · decide
  · exact isOct_digitChar k (toDigitsAux_lt (by omega) 64 v k hk)

theorem appendUint_hex {w v : Nat} {d : Bytes} (h : appendUint w v 16 = some d) :
    (toUpper d).length = w ∧ ∀ c ∈ toUpper d, isUHex c = true := by
  obtain ⟨hl, hc⟩ := appendUint_some h
  refine ⟨by simp [toUpper, hl], fun c hcd => ?_⟩
  obtain ⟨x, hx, rfl⟩ := List.mem_map.mp hcd
  rcases hc x hx with rfl | ⟨k, hk, rfl⟩
  · decide
  · exact isUHex_upper_digitChar k (toDigitsAux_lt (by omega) 64 v k hk)

theorem octalFormat_shape : ∀ (s out : Bytes), octalFormat s = some out →
    Shape [92] 3 isOct s.length out
  | [], out, h => by simp only [octalFormat, Option.some.injEq] at h; subst h; exact Shape.nil
  | c :: rest, out, h => by
    unfold octalFormat at h
    split at h
    · rename_i d r hd hr
      simp only [Option.some.injEq] at h; subst h
      obtain ⟨hl, hc⟩ := appendUint_oct hd
      exact Shape.cons (pfx := [92]) d r hl hc (octalFormat_shape rest r hr)
    · simp at h

theorem hexFormat_shape : ∀ (s out : Bytes), hexFormat s = some out →
    Shape [92, 120] 2 isUHex s.length out
  | [], out, h => by simp only [hexFormat, Option.some.injEq] at h; subst h; exact Shape.nil
  | c :: rest, out, h => by
    unfold hexFormat at h
    split at h
    · rename_i d r hd hr
      simp only [Option.some.injEq] at h; subst h
      obtain ⟨hl, hc⟩ := appendUint_hex hd
      exact Shape.cons (pfx := [92, 120]) (toUpper d) r hl hc (hexFormat_shape rest r hr)
    · simp at h

theorem escU_shape {v : Nat} {e : Bytes} (h : escU v = some e) : Shape [92, 85] 8 isUHex 1 e := by
  unfold escU at h
  split at h
  · rename_i d hd
    simp only [Option.some.injEq] at h; subst h
    obtain ⟨hl, hc⟩ := appendUint_hex hd
    have := Shape.cons (pfx := [92, 85]) (toUpper d) [] hl hc Shape.nil
    simpa using this
  · simp at h

theorem escu_shape {v : Nat} {e : Bytes} (h : escu v = some e) : Shape [92, 117] 4 isUHex 1 e := by
  unfold escu at h
  split at h
  · rename_i d hd
    simp only [Option.some.injEq] at h; subst h
    obtain ⟨hl, hc⟩ := appendUint_hex hd
    have := Shape.cons (pfx := [92, 117]) (toUpper d) [] hl hc Shape.nil
    simpa using this
  · simp at h

theorem litU_shape : Shape [92, 85] 8 isUHex 1 (92 :: 85 :: lit0000FFFD) := by
  have := Shape.cons (pfx := [92, 85]) (w := 8) (P := isUHex) lit0000FFFD [] (by decide) (by decide) Shape.nil
  simpa using this

theorem litu_shape : Shape [92, 117] 4 isUHex 1 (92 :: 117 :: litFFFD) := by
  have := Shape.cons (pfx := [92, 117]) (w := 4) (P := isUHex) litFFFD [] (by decide) (by decide) Shape.nil
  simpa using this

/-- `UnicodeFormat`: one `\\UXXXXXXXX` per step of the range loop (`utf8.RuneCountInString`
many, which is what the Go code allocates). -/
theorem unicodeFormatAux_shape : ∀ (fuel : Nat) (s out : Bytes) (off : Nat),
    unicodeFormatAux fuel s = some out →
    Shape [92, 85] 8 isUHex (Utf8.rangeDecode.go fuel off s).length out
  | 0, [], out, off, h => by
    simp only [unicodeFormatAux, Option.some.injEq] at h; subst h
    simpa [Utf8.rangeDecode.go] using Shape.nil
  | 0, _ :: _, out, off, h => by simp [unicodeFormatAux] at h
  | fuel + 1, [], out, off, h => by
    simp only [unicodeFormatAux, Option.some.injEq] at h; subst h
    simpa [Utf8.rangeDecode.go] using Shape.nil
  | fuel + 1, b :: rest, out, off, h => by
    rw [go_cons, List.length_cons]
    have hsz : (if (Utf8.decodeRune (b :: rest)).2 = 0 then 1 else (Utf8.decodeRune (b :: rest)).2) =
        (Utf8.decodeRune (b :: rest)).2 := by
      rcases Utf8L.decodeRune_cases b rest with h1 | h1
      · rw [h1]; rfl
      · have := h1.sz1
        have : (Utf8.decodeRune (b :: rest)).2 ≠ 0 := by omega
        simp [this]
    rw [hsz]
    unfold unicodeFormatAux at h
    by_cases hb : b < 0x80
    · simp only [hb, if_true] at h
      have hda := Utf8L.decodeRune_ascii rest hb
      rw [hda]
      split at h
      · rename_i d r hd hr
        simp only [Option.some.injEq] at h; subst h
        have := (escU_shape hd).append (unicodeFormatAux_shape fuel rest r (off + 1) hr)
        simpa using this
      · simp at h
    · simp only [hb, if_false] at h
      rcases hdr : Utf8.decodeRune (b :: rest) with ⟨c, size⟩
      rw [hdr] at h
      simp only [] at h ⊢
      split at h
      · split at h
        · rename_i r hr
          simp only [Option.some.injEq] at h; subst h
          have := litU_shape.append (unicodeFormatAux_shape fuel _ r (off + size) hr)
          simpa using this
        · simp at h
      · split at h
        · rename_i d r hd hr
          simp only [Option.some.injEq] at h; subst h
          exact (escU_shape hd).append (unicodeFormatAux_shape fuel _ r (off + size) hr)
        · simp at h

theorem utf16FormatRune_shape {c : Int} {e : Bytes} (h : utf16FormatRune c = some e) :
    Shape [92, 117] 4 isUHex (if 0x10000 ≤ c ∧ c ≤ Utf8.maxRune then 2 else 1) e := by
  unfold utf16FormatRune at h
  split at h
  · rename_i hc
    simp only [Option.some.injEq] at h; subst h
    have : ¬ (0x10000 ≤ c ∧ c ≤ Utf8.maxRune) := by rw [hc]; decide
    rw [if_neg this]; exact litu_shape
  · split at h
    · rename_i hc
      have : ¬ (0x10000 ≤ c ∧ c ≤ Utf8.maxRune) := by omega
      rw [if_neg this]; exact escu_shape h
    · split at h
      · rename_i hc
        rw [if_pos hc]
        generalize utf16Enc c.toNat = p at h
        obtain ⟨r1, r2⟩ := p
        simp only [] at h
        split at h
        · rename_i a b ha hb
          simp only [Option.some.injEq] at h; subst h
          exact (escu_shape ha).append (escu_shape hb)
        · simp at h
      · rename_i hc
        simp only [Option.some.injEq] at h; subst h
        rw [if_neg hc]; exact litu_shape

theorem utf16FormatAux_shape : ∀ (fuel : Nat) (s out : Bytes),
    utf16FormatAux fuel s = some out → ∃ n, Shape [92, 117] 4 isUHex n out
  | 0, [], out, h => by
    simp only [utf16FormatAux, Option.some.injEq] at h; subst h; exact ⟨0, Shape.nil⟩
  | 0, _ :: _, out, h => by simp [utf16FormatAux] at h
  | fuel + 1, [], out, h => by
    simp only [utf16FormatAux, Option.some.injEq] at h; subst h; exact ⟨0, Shape.nil⟩
  | fuel + 1, b :: rest, out, h => by
    unfold utf16FormatAux at h
    by_cases hb : b < 0x80
    · simp only [hb, if_true] at h
      split at h
      · rename_i d r hd hr
        simp only [Option.some.injEq] at h; subst h
        obtain ⟨n, hn⟩ := utf16FormatAux_shape fuel rest r hr
        exact ⟨_, (escu_shape hd).append hn⟩
      · simp at h
    · simp only [hb, if_false] at h
      rcases hdr : Utf8.decodeRune (b :: rest) with ⟨c, size⟩
      rw [hdr] at h
      simp only [] at h
      split at h
      · rename_i d r hd hr
        simp only [Option.some.injEq] at h; subst h
        obtain ⟨n, hn⟩ := utf16FormatAux_shape fuel _ r hr
        exact ⟨_, (utf16FormatRune_shape hd).append hn⟩
      · simp at h

/-- Above U+FFFF: a high surrogate escape followed by a low surrogate escape that
`utf16.DecodeRune` maps back to the rune. -/
theorem utf16FormatRune_pair {m : Nat} (h1 : 0x10000 ≤ m) (h2 : m ≤ 0x10FFFF) :
    ∃ X Y hi lo, utf16FormatRune (m : Int) = some (92 :: 117 :: X ++ 92 :: 117 :: Y) ∧
      X.length = 4 ∧ Y.length = 4 ∧
      parseUint X 16 16 = (hi, 4, true) ∧ parseUint Y 16 16 = (lo, 4, true) ∧
      0xd800 ≤ hi ∧ hi < 0xdc00 ∧ 0xdc00 ≤ lo ∧ lo < 0xe000 ∧ utf16Dec hi lo = (m : Int) := by
  obtain ⟨a1, a2, a3, a4, a5⟩ := utf16_enc_dec h1 h2
  obtain ⟨X, hX, hXl, hXp⟩ := escu_parse (m := (utf16Enc m).1) (by omega)
  obtain ⟨Y, hY, hYl, hYp⟩ := escu_parse (m := (utf16Enc m).2) (by omega)
  refine ⟨X, Y, _, _, ?_, hXl, hYl, hXp, hYp, a1, a2, a3, a4, a5⟩
  unfold utf16FormatRune
  have hfd : ¬ (m : Int) = Utf8.runeError := by simp only [Utf8.runeError]; omega
  have hbmp : ¬ ((0 ≤ (m : Int) ∧ (m : Int) < 0xd800) ∨ (0xe000 ≤ (m : Int) ∧ (m : Int) < 0x10000)) := by
    omega
  have hsup : 0x10000 ≤ (m : Int) ∧ (m : Int) ≤ Utf8.maxRune := by
    simp only [Utf8.maxRune]; omega
  rw [if_neg hfd, if_neg hbmp, if_pos hsup, Int.toNat_natCast]
  generalize utf16Enc m = p at hX hY ⊢
  obtain ⟨r1, r2⟩ := p
  simp only [] at hX hY
  simp only [hX, hY]

end Golib.C07
