/-
C05 helper lemmas: from the rune-level specification of `find` (`findSpec`) to bytes.
For well-formed decoded strings (`StepsWF`: what the repaired decoder produces) every
emitted scope is `[|enc u|, |enc u| + |enc m|)` for a factorisation `u ++ m ++ w` of the
text's rune sequence with `m` an inserted pattern — hence a byte-for-byte occurrence,
inside the text, non-empty, and the scopes come sorted by end position.
-/
import Golib.Proof.C05Aho
import Golib.Proof.C05Decode
import Golib.Proof.C06Merge

set_option linter.unusedSimpArgs false
set_option linter.unusedVariables false

namespace Golib.C05
open Golib

theorem writeRune_length_pos (r : Int) : 1 ≤ (writeRune r).length := by
  unfold writeRune Utf8.encodeRune
  split
  · simp
  · split
    · simp
    · split
      · simp
      · split
        · simp
        · split
          · simp
          · simp

theorem encodeLabel_length_pos {m : Label} (h : m ≠ []) : 1 ≤ (encodeLabel m).length := by
  cases m with
  | nil => exact absurd rfl h
  | cons r l =>
    rw [encodeLabel_cons, List.length_append]
    have := writeRune_length_pos r; omega

theorem StepsWF.widths {q : List Step} (h : StepsWF q) :
    (q.map (·.2)).sum = (encodeLabel (lab q)).length := by
  induction q with
  | nil => rfl
  | cons st q ih =>
    have h1 := h st (by simp)
    have h2 : StepsWF q := fun s hs => h s (by simp [hs])
    simp only [List.map_cons, List.sum_cons, lab, encodeLabel_cons, List.length_append] at ih ⊢
    rw [ih h2, h1.1]

theorem StepsWF.take {q : List Step} (h : StepsWF q) (k : Nat) : StepsWF (q.take k) :=
  fun s hs => h s (List.mem_of_mem_take hs)

/-- `node.size` is the byte length of the node's label. -/
theorem sizeOf_eq (ps : List (List Step)) (hwf : ∀ p ∈ ps, StepsWF p) (n : Label)
    (hn : IsNode ps n) (hne : n ≠ []) : sizeOf ps n = (encodeLabel n).length := by
  rcases (isNode_iff ps n).1 hn with h | ⟨p, hp, hpre⟩
  · exact absurd h hne
  · unfold sizeOf
    cases hf : ps.find? (fun p => n.isPrefixOf (lab p)) with
    | none =>
      have := List.find?_eq_none.1 hf p hp
      exact absurd (List.isPrefixOf_iff_prefix.2 hpre) (by simpa using this)
    | some q =>
      have hq := List.mem_of_find?_eq_some hf
      have hqp : n <+: lab q := List.isPrefixOf_iff_prefix.1 (by simpa using List.find?_some hf)
      simp only []
      rw [((hwf q hq).take n.length).widths]
      have : lab (q.take n.length) = n := by
        simp only [lab, List.map_take]
        exact (List.prefix_iff_eq_take.1 hqp).symm
      rw [this]

/-- Every scope of `findSpec` is an occurrence `u ++ m ++ w` of an inserted pattern label `m`
in the rune sequence of the whole text, measured in bytes. -/
theorem findSpec_mem (ps : List (List Step)) (hwf : ∀ p ∈ ps, StepsWF p) :
    ∀ (steps : List Step) (seen : Label) (i : Nat), StepsWF steps → i = (encodeLabel seen).length →
    ∀ s ∈ findSpec ps steps seen i, ∃ u m w, seen ++ lab steps = u ++ m ++ w ∧ m ≠ [] ∧
      isEnd ps m = true ∧ s.start = ((encodeLabel u).length : Int) ∧
      s.stop = ((encodeLabel u).length + (encodeLabel m).length : Nat) ∧ i < s.stop := by
  intro steps
  induction steps with
  | nil => intro seen i _ _ s hs; simp [findSpec] at hs
  | cons st rest ih =>
    intro seen i hw hi s hs
    obtain ⟨r, sz⟩ := st
    have hst := hw (r, sz) (by simp)
    have hrest : StepsWF rest := fun x hx => hw x (by simp [hx])
    simp only [] at hst
    have hi' : i + sz = (encodeLabel (seen ++ [r])).length := by
      rw [encodeLabel_append, List.length_append, hi, hst.1]
      simp [encodeLabel]
    simp only [findSpec, List.mem_append] at hs
    rcases hs with hs | hs
    · simp only [outSpec, List.mem_map, List.mem_filter] at hs
      obtain ⟨m, ⟨hm1, hm2⟩, rfl⟩ := hs
      obtain ⟨hmne, u, hu⟩ := (mem_neTails m _).1 hm1
      refine ⟨u, m, lab rest, ?_, hmne, hm2, ?_, ?_, ?_⟩
      · rw [hu]; simp [lab]
      · simp only []
        rw [sizeOf_eq ps hwf m (isEnd_isNode hm2) hmne, hi', ← hu, encodeLabel_append, List.length_append]
        omega
      · simp only []
        rw [hi', ← hu, encodeLabel_append, List.length_append]
      · simp only []; have := hst.2; omega
    · obtain ⟨u, m, w, h1, h2, h3, h4, h5, h6⟩ := ih (seen ++ [r]) (i + sz) hrest hi' s hs
      refine ⟨u, m, w, ?_, h2, h3, h4, h5, by omega⟩
      rw [← h1]; simp [lab]

theorem pairwise_of_const {l : List Scope} {c : Int} (h : ∀ s ∈ l, s.stop = c) :
    l.Pairwise fun a b => a.stop ≤ b.stop := by
  induction l with
  | nil => exact List.Pairwise.nil
  | cons a l ih =>
    refine List.Pairwise.cons (fun b hb => ?_) (ih fun s hs => h s (by simp [hs]))
    rw [h a (by simp), h b (by simp [hb])]; exact Int.le_refl _

/-- `find` emits its scopes in order of non-decreasing end position. -/
theorem findSpec_sorted (ps : List (List Step)) (hwf : ∀ p ∈ ps, StepsWF p) :
    ∀ (steps : List Step) (seen : Label) (i : Nat), StepsWF steps → i = (encodeLabel seen).length →
    C06.SortedByStop (findSpec ps steps seen i) := by
  intro steps
  induction steps with
  | nil => intro seen i _ _; simp [findSpec, C06.SortedByStop]
  | cons st rest ih =>
    intro seen i hw hi
    obtain ⟨r, sz⟩ := st
    have hst := hw (r, sz) (by simp)
    have hrest : StepsWF rest := fun x hx => hw x (by simp [hx])
    simp only [] at hst
    have hi' : i + sz = (encodeLabel (seen ++ [r])).length := by
      rw [encodeLabel_append, List.length_append, hi, hst.1]
      simp [encodeLabel]
    simp only [findSpec, C06.SortedByStop, List.pairwise_append]
    refine ⟨pairwise_of_const (c := ((i + sz : Nat) : Int)) ?_, ih (seen ++ [r]) (i + sz) hrest hi', ?_⟩
    · intro s hs
      simp only [outSpec, List.mem_map] at hs
      obtain ⟨m, _, rfl⟩ := hs; rfl
    · intro a ha b hb
      simp only [outSpec, List.mem_map] at ha
      obtain ⟨m, _, rfl⟩ := ha
      obtain ⟨_, _, _, _, _, _, _, _, h6⟩ := findSpec_mem ps hwf rest (seen ++ [r]) (i + sz) hrest hi' b hb
      simp only []; omega

end Golib.C05
