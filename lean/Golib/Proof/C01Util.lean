/-
C01 — generic helper lemmas: counting list elements under `List.set`, and the
"window" lemma for residues (two numbers in a window of width `n` with the same residue
mod `n` are equal).
-/
namespace Golib.C01.Util

variable {α : Type}

theorem countP_set_add {p : α → Bool} {l : List α} {i : Nat} {a : α} (h : l[i]? = some a) (b : α) :
    (l.set i b).countP p + (p a).toNat = l.countP p + (p b).toNat := by
  induction l generalizing i with
  | nil => simp at h
  | cons x l ih =>
    cases i with
    | zero =>
      simp only [List.getElem?_cons_zero, Option.some.injEq] at h
      subst h
      simp only [List.set_cons_zero, List.countP_cons]
      cases p x <;> cases p b <;> simp <;> omega
    | succ i =>
      simp only [List.getElem?_cons_succ] at h
      have := ih h
      simp only [List.set_cons_succ, List.countP_cons] at this ⊢
      omega

theorem countP_pos_of_getElem {p : α → Bool} {l : List α} {i : Nat} {a : α} (h : l[i]? = some a)
    (hp : p a = true) : 1 ≤ l.countP p := by
  induction l generalizing i with
  | nil => simp at h
  | cons x l ih =>
    cases i with
    | zero =>
      simp only [List.getElem?_cons_zero, Option.some.injEq] at h
      subst h
      simp [hp]
    | succ i =>
      simp only [List.getElem?_cons_succ] at h
      have := ih h
      simp only [List.countP_cons] at this ⊢
      omega

theorem countP_two {p : α → Bool} {l : List α} {i j : Nat} {a b : α} (hij : i ≠ j)
    (hi : l[i]? = some a) (hj : l[j]? = some b) (ha : p a = true) (hb : p b = true) :
    2 ≤ l.countP p := by
  induction l generalizing i j with
  | nil => simp at hi
  | cons x l ih =>
    cases i with
    | zero =>
      cases j with
      | zero => exact absurd rfl hij
      | succ j =>
        simp only [List.getElem?_cons_zero, Option.some.injEq] at hi
        simp only [List.getElem?_cons_succ] at hj
        subst hi
        have := countP_pos_of_getElem (p := p) hj hb
        simp only [List.countP_cons, ha, if_true] at this ⊢
        omega
    | succ i =>
      cases j with
      | zero =>
        simp only [List.getElem?_cons_zero, Option.some.injEq] at hj
        simp only [List.getElem?_cons_succ] at hi
        subst hj
        have := countP_pos_of_getElem (p := p) hi ha
        simp only [List.countP_cons, hb, if_true] at this ⊢
        omega
      | succ j =>
        simp only [List.getElem?_cons_succ] at hi hj
        have := ih (by omega) hi hj
        simp only [List.countP_cons] at this ⊢
        omega

theorem mem_set_cases {l : List α} {i : Nat} {b c : α} (hb : b ∈ l.set i c) :
    b = c ∨ ∃ j, j ≠ i ∧ l[j]? = some b := by
  obtain ⟨j, hj⟩ := List.getElem?_of_mem hb
  by_cases hij : i = j
  · subst hij
    by_cases hlt : i < l.length
    · rw [List.getElem?_set_self hlt] at hj
      left; exact (Option.some.inj hj).symm
    · rw [List.getElem?_eq_none (by simp; omega)] at hj
      simp at hj
  · rw [List.getElem?_set_ne hij] at hj
    right; exact ⟨j, fun h => hij h.symm, hj⟩

theorem countP_eq_zero_of_forall {p : α → Bool} {l : List α} (h : ∀ a ∈ l, p a = false) :
    l.countP p = 0 := by
  simp only [List.countP_eq_zero]
  intro a ha
  rw [h a ha]; simp

/-- Same residue, inside one window of width `n`: equal. -/
theorem eq_of_mod_eq_of_window {a b n : Nat} (h : a % n = b % n) (h1 : a ≤ b) (h2 : b < a + n) :
    a = b := by
  have hn : 0 < n := by omega
  have e1 := Nat.div_add_mod a n
  have e2 := Nat.div_add_mod b n
  have hq : a / n = b / n := by
    rcases Nat.lt_trichotomy (a / n) (b / n) with hlt | heq | hgt
    · exfalso
      have : n * (a / n + 1) ≤ n * (b / n) := Nat.mul_le_mul_left n hlt
      have hm := Nat.mod_lt a hn
      rw [Nat.mul_add, Nat.mul_one] at this
      omega
    · exact heq
    · exfalso
      have : n * (b / n + 1) ≤ n * (a / n) := Nat.mul_le_mul_left n hgt
      have hm := Nat.mod_lt b hn
      rw [Nat.mul_add, Nat.mul_one] at this
      omega
  rw [hq] at e1
  omega

theorem ne_of_mod_ne {a b n : Nat} (h : a % n ≠ b % n) : a ≠ b := fun e => h (e ▸ rfl)

end Golib.C01.Util
