/-
C13 helper lemmas, part 5: `SList`.  `SInv s L` — following `next` from `head` visits exactly
`L` and ends in nil, `tail` is the last node of `L`, `len = |L|`.
-/
import Golib.Model.C13SList

set_option linter.unusedSimpArgs false
set_option linter.unusedVariables false

namespace Golib.C13

/-- `p → L… → q` along `next`. -/
def ChainTo (nx : PM) : Ptr → List Nat → Ptr → Prop
  | p, [], q => p = q
  | p, x :: xs, q => p = some x ∧ ChainTo nx (nx.get x) xs q

structure SInv (s : SSt) (L : List Nat) : Prop where
  chain : ChainTo s.next s.head L none
  tail  : s.tail = L.getLast?
  len   : s.len = L.length
  nodup : L.Nodup

theorem chainTo_frame {nx nx' : PM} {p q : Ptr} {L : List Nat}
    (hn : ∀ x ∈ L, nx'.get x = nx.get x) (h : ChainTo nx p L q) : ChainTo nx' p L q := by
  induction L generalizing p with
  | nil => exact h
  | cons x xs ih =>
    simp only [ChainTo] at h ⊢
    refine ⟨h.1, ?_⟩
    rw [hn x (by simp)]
    exact ih (fun y hy => hn y (by simp [hy])) h.2

theorem chainTo_append {nx : PM} {p q : Ptr} {a b : List Nat} :
    ChainTo nx p (a ++ b) q ↔ ∃ m, ChainTo nx p a m ∧ ChainTo nx m b q := by
  induction a generalizing p with
  | nil => simp [ChainTo]
  | cons x xs ih =>
    simp only [List.cons_append, ChainTo, ih]
    constructor
    · rintro ⟨h1, m, h2, h3⟩; exact ⟨m, ⟨h1, h2⟩, h3⟩
    · rintro ⟨m, ⟨h1, h2⟩, h3⟩; exact ⟨h1, m, h2, h3⟩

/-- The zero value / `NewSingly()` is the empty list. -/
theorem sinv_zero : SInv SSt.zero [] :=
  ⟨rfl, rfl, rfl, List.nodup_nil⟩

/-- `PushFrontNode(e)` for a node not in the list. -/
theorem pushFrontNode_sinv {s : SSt} {L : List Nat} (e : Nat) (h : SInv s L) (he : e ∉ L) :
    SInv (s.pushFrontNode e) (e :: L) := by
  obtain ⟨hc, ht, hl, hn⟩ := h
  have hframe : ChainTo (s.next.set e s.head) s.head L none :=
    chainTo_frame (fun x hx => by
      have : x ≠ e := fun hh => he (hh ▸ hx)
      simp [PM.get_set, this]) hc
  refine ⟨?_, ?_, ?_, List.nodup_cons.2 ⟨he, hn⟩⟩
  · simp only [SSt.pushFrontNode]
    split <;> simp [ChainTo, PM.get_set] <;> exact hframe
  · simp only [SSt.pushFrontNode]
    cases L with
    | nil => simp [hl]
    | cons x xs =>
      have : ¬ (s.len = 0) := by rw [hl]; simp; omega
      simp [this, ht, List.getLast?_cons_cons]
  · simp only [SSt.pushFrontNode]
    split <;> simp [hl] <;> omega

/-- `PushBackNode(e)` for a detached node (`e.next == nil`, not in the list). -/
theorem pushBackNode_sinv {s : SSt} {L : List Nat} (e : Nat) (h : SInv s L) (he : e ∉ L)
    (hnil : s.next.get e = none) :
    ∃ s', s.pushBackNode e = some s' ∧ SInv s' (L ++ [e]) ∧ s'.val = s.val ∧ s'.fresh = s.fresh ∧
      ∀ n, n ∉ L ++ [e] → s'.next.get n = s.next.get n := by
  obtain ⟨hc, ht, hl, hn⟩ := h
  have hnd : (L ++ [e]).Nodup := by
    rw [List.nodup_append]; exact ⟨hn, by simp, by intro a ha b hb; simp at hb; subst hb; exact fun hh => he (hh ▸ ha)⟩
  rcases List.eq_nil_or_concat L with rfl | ⟨L0, w, hw⟩
  · refine ⟨{ s with head := some e, tail := some e, len := s.len + 1 }, ?_, ⟨?_, ?_, ?_, hnd⟩, rfl, rfl,
      fun n _ => rfl⟩
    · simp [SSt.pushBackNode, hl]
    · simp [ChainTo, hnil]
    · simp
    · simp [hl]
  · have hw' : L = L0 ++ [w] := by simpa using hw
    subst hw'
    have htl : s.tail = some w := by rw [ht]; simp
    have hne : ¬ (s.len = 0) := by rw [hl]; simp; omega
    refine ⟨{ s with next := s.next.set w (some e), tail := some e, len := s.len + 1 }, ?_,
      ⟨?_, ?_, ?_, hnd⟩, rfl, rfl, fun n hn => by
        have : n ≠ w := fun hh => hn (by simp [hh])
        simp [PM.get_set, this]⟩
    · simp [SSt.pushBackNode, hne, htl]
    · simp only []
      have hwe : w ≠ e := by intro hh; subst hh; simp at he
      have hwL0 : w ∉ L0 := by rw [List.nodup_append] at hn; intro hh; exact hn.2.2 w hh w (by simp) rfl
      obtain ⟨m, h1, h2⟩ := chainTo_append.1 hc
      simp only [ChainTo] at h2
      rw [List.append_assoc, chainTo_append]
      refine ⟨m, chainTo_frame (fun x hx => ?_) h1, ?_⟩
      · have : x ≠ w := fun hh => hwL0 (hh ▸ hx)
        simp [PM.get_set, this]
      · simp [ChainTo, h2.1, PM.get_set, hwe.symm, hnil]
    · simp
    · simp [hl]; omega

/-- `RemoveFront()` -/
theorem removeFront_sinv {s : SSt} {L : List Nat} (h : SInv s L) :
    (L = [] → s.removeFront = some (s, none)) ∧
    (∀ x xs, L = x :: xs → ∃ s', s.removeFront = some (s', some x) ∧ SInv s' xs ∧
      s'.next.get x = none ∧ s'.val = s.val ∧ s'.fresh = s.fresh ∧
      ∀ n, n ≠ x → s'.next.get n = s.next.get n) := by
  obtain ⟨hc, ht, hl, hn⟩ := h
  refine ⟨fun h0 => by subst h0; simp [SSt.removeFront, hl], fun x xs hL => ?_⟩
  subst hL
  simp only [ChainTo] at hc
  have hne : ¬ (s.len = 0) := by rw [hl]; simp; omega
  have hx : x ∉ xs := (List.nodup_cons.1 hn).1
  have hframe : ChainTo (s.next.set x none) (s.next.get x) xs none :=
    chainTo_frame (fun y hy => by
      have : y ≠ x := fun hh => hx (hh ▸ hy)
      simp [PM.get_set, this]) hc.2
  by_cases h1 : s.len = 1
  · have : xs = [] := by rw [hl] at h1; simp at h1; exact List.length_eq_zero_iff.1 (by omega)
    subst this
    refine ⟨{ s with head := s.next.get x, next := s.next.set x none, tail := none, len := s.len - 1 },
      by simp [SSt.removeFront, hne, hc.1, h1], ⟨hframe, by simp, by simp [hl], List.nodup_nil⟩,
      by simp [PM.get_set], rfl, rfl, fun n hn => by simp [PM.get_set, hn]⟩
  · refine ⟨{ s with head := s.next.get x, next := s.next.set x none, len := s.len - 1 },
      by simp [SSt.removeFront, hne, hc.1, h1], ⟨hframe, ?_, by simp [hl], (List.nodup_cons.1 hn).2⟩,
      by simp [PM.get_set], rfl, rfl, fun n hn => by simp [PM.get_set, hn]⟩
    cases xs with
    | nil => simp [hl] at h1
    | cons y ys => simp [ht, List.getLast?_cons_cons]

/-- the index walk: `k` steps from the head reach the `k`-th node -/
theorem advance_spec {s : SSt} : ∀ (k : Nat) (p : Ptr) (L : List Nat), ChainTo s.next p L none →
    k ≤ L.length → s.advance k p = some ((L.drop k).head?) := by
  intro k
  induction k with
  | zero =>
    intro p L hc _
    cases L <;> simp [SSt.advance, ChainTo] at hc ⊢ <;> simp [hc]
  | succ k ih =>
    intro p L hc hk
    cases L with
    | nil => simp at hk
    | cons x xs =>
      simp only [ChainTo] at hc
      simp only [SSt.advance, hc.1, Option.bind_eq_bind, Option.bind_some, List.drop_succ_cons]
      exact ih _ xs hc.2 (by simp at hk; omega)

/-- `Get(i)`: the `i`-th node for `0 ≤ i < Len()`, nil otherwise. -/
theorem getAt_sinv {s : SSt} {L : List Nat} (h : SInv s L) (i : Int) :
    s.getAt i = some (if 0 ≤ i ∧ i < L.length then L[i.toNat]? else none) := by
  obtain ⟨hc, ht, hl, hn⟩ := h
  by_cases hr : 0 ≤ i ∧ i < (L.length : Int)
  · have : s.withinRange i = true := by simp [SSt.withinRange, hl, hr.1, hr.2]
    simp only [SSt.getAt, this, hr, and_self, if_true, Bool.not_true, Bool.false_eq_true, if_false]
    rw [advance_spec i.toNat s.head L hc (by omega)]
    simp [List.head?_drop]
  · have : s.withinRange i = false := by
      simp only [SSt.withinRange, hl]
      by_cases h0 : 0 ≤ i
      · have : ¬ (i < (L.length : Int)) := fun hh => hr ⟨h0, hh⟩
        simp [h0, this]
      · simp [h0]
    simp [SSt.getAt, this, hr]

end Golib.C13
