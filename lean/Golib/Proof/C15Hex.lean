/-
Helper lemmas for the hex model (`Golib/Model/C15Hex.lean`). Core only.
-/
import Golib.Model.C15Hex

namespace Golib.C15

/-! ### pure specification of decoding -/

/-- Pair-wise decoding without a destination buffer: decoded prefix and error, with the
same scan order as the code. -/
def hexDecodePure : List Nat → List Nat × HErr
  | a :: b :: rest =>
    match fromHexChar a with
    | none => ([], .invalidByte a)
    | some x =>
      match fromHexChar b with
      | none => ([], .invalidByte b)
      | some y => ((((x <<< 4) % 256) ||| y) :: (hexDecodePure rest).1, (hexDecodePure rest).2)
  | [c] =>
    match fromHexChar c with
    | none => ([], .invalidByte c)
    | some _ => ([], .length)
  | [] => ([], .ok)

theorem hexDecodePure_length_le : ∀ s : List Nat, (hexDecodePure s).1.length ≤ s.length / 2
  | [] => by simp [hexDecodePure]
  | [c] => by simp only [hexDecodePure]; split <;> simp
  | a :: b :: rest => by
    have ih := hexDecodePure_length_le rest
    simp only [hexDecodePure]
    split
    · simp
    · split
      · simp
      · simp only [List.length_cons]; omega

/-- The buffer loop computes the pure decoding into `dst[i:]`, never panicking when the
buffer has room for `len(src)/2` more bytes. -/
theorem hexDecodeLoop_eq : ∀ (s dst : List Nat) (i : Nat), i + s.length / 2 ≤ dst.length →
    hexDecodeLoop s dst i =
      some (dst.take i ++ (hexDecodePure s).1 ++ dst.drop (i + (hexDecodePure s).1.length),
            i + (hexDecodePure s).1.length, (hexDecodePure s).2)
  | [], dst, i, _ => by simp [hexDecodeLoop, hexDecodePure]
  | [c], dst, i, _ => by
    cases hc : fromHexChar c <;> simp [hexDecodeLoop, hexDecodePure, hc]
  | a :: b :: rest, dst, i, h => by
    simp only [List.length_cons] at h
    have hlen : i < dst.length := by omega
    cases ha : fromHexChar a with
    | none => simp [hexDecodeLoop, hexDecodePure, ha]
    | some x =>
      cases hb : fromHexChar b with
      | none => simp [hexDecodeLoop, hexDecodePure, ha, hb]
      | some y =>
        simp only [hexDecodeLoop, hexDecodePure, ha, hb, setByte, hlen, if_true]
        rw [hexDecodeLoop_eq rest (dst.set i (((x <<< 4) % 256) ||| y)) (i + 1)
          (by simp only [List.length_set]; omega)]
        simp only [Option.some.injEq, Prod.mk.injEq, List.length_cons]
        refine ⟨?_, by omega, trivial⟩
        apply List.ext_getElem?
        intro k
        simp only [List.getElem?_take, List.getElem?_drop, List.getElem?_set, List.getElem?_append,
          List.length_take, List.length_set, List.getElem?_cons,
          List.length_append, List.length_cons]
        grind

theorem hexDecode?_eq (s : List Nat) : hexDecode? s = some (hexDecodePure s) := by
  unfold hexDecode?
  rw [hexDecodeLoop_eq s _ 0 (by simp)]
  simp

/-! ### error precedence -/

/-- Every character is a hex digit. -/
def AllHex (s : List Nat) : Prop := ∀ x ∈ s, (fromHexChar x).isSome = true

theorem AllHex.tail {a : Nat} {s : List Nat} (h : AllHex (a :: s)) : AllHex s :=
  fun x hx => h x (List.mem_cons_of_mem _ hx)

/-- An invalid character after a valid prefix: the error names that character, and the
decoded bytes are those of the complete pairs before it. -/
theorem hexDecodePure_invalid : ∀ (pre post : List Nat) (c : Nat), AllHex pre → fromHexChar c = none →
    hexDecodePure (pre ++ c :: post) = ((hexDecodePure pre).1, .invalidByte c)
  | [], [], c, _, hc => by simp [hexDecodePure, hc]
  | [], b :: post, c, _, hc => by simp [hexDecodePure, hc]
  | [a], post, c, h, hc => by
    have ha := h a List.mem_cons_self
    cases hx : fromHexChar a with
    | none => simp [hx] at ha
    | some x => simp [hexDecodePure, hx, hc]
  | a :: b :: pre, post, c, h, hc => by
    have ha := h a List.mem_cons_self
    have hb := h b (List.mem_cons_of_mem _ List.mem_cons_self)
    have ih := hexDecodePure_invalid pre post c h.tail.tail hc
    cases hx : fromHexChar a with
    | none => simp [hx] at ha
    | some x =>
      cases hy : fromHexChar b with
      | none => simp [hy] at hb
      | some y => simp only [List.cons_append, hexDecodePure, hx, hy, ih]

/-- All characters valid: `len/2` bytes are decoded; the error is `ErrLength` iff the length
is odd; the decoded bytes are those of the longest even-length prefix. -/
theorem hexDecodePure_valid : ∀ (s : List Nat), AllHex s →
    (hexDecodePure s).1.length = s.length / 2 ∧
    (hexDecodePure s).2 = (if s.length % 2 = 1 then .length else .ok) ∧
    hexDecodePure (s.take (2 * (s.length / 2))) = ((hexDecodePure s).1, .ok)
  | [], _ => by simp [hexDecodePure]
  | [a], h => by
    have ha := h a List.mem_cons_self
    cases hx : fromHexChar a with
    | none => simp [hx] at ha
    | some x => simp [hexDecodePure, hx]
  | a :: b :: s, h => by
    have ha := h a List.mem_cons_self
    have hb := h b (List.mem_cons_of_mem _ List.mem_cons_self)
    obtain ⟨ih1, ih2, ih3⟩ := hexDecodePure_valid s h.tail.tail
    cases hx : fromHexChar a with
    | none => simp [hx] at ha
    | some x =>
      cases hy : fromHexChar b with
      | none => simp [hy] at hb
      | some y =>
        have e1 : (s.length + 1 + 1) / 2 = s.length / 2 + 1 := by omega
        have e2 : 2 * (s.length / 2 + 1) = 2 * (s.length / 2) + 1 + 1 := by omega
        have e3 : (s.length + 1 + 1) % 2 = s.length % 2 := by omega
        simp only [hexDecodePure, hx, hy, List.length_cons, ih1, ih2, e1, e2, e3, List.take_succ_cons,
          ih3, and_self]

/-! ### in-place decoding -/

theorem getElem?_after (dec mid rest : List Nat) (h : mid.length = dec.length) (j : Nat) :
    (dec ++ mid ++ rest)[2 * dec.length + j]? = rest[j]? := by
  rw [List.getElem?_append_right (by simp only [List.length_append]; omega)]
  congr 1
  simp only [List.length_append]; omega

theorem set_at (dec mid rest : List Nat) (a b v : Nat) (h : mid.length = dec.length) :
    (dec ++ mid ++ a :: b :: rest).set dec.length v =
      (dec ++ [v]) ++ (mid ++ [a, b]).drop 1 ++ rest := by
  apply List.ext_getElem?
  intro k
  simp only [List.getElem?_drop, List.getElem?_set, List.getElem?_append,
    List.getElem?_cons, List.length_drop,
    List.length_append, List.length_cons, List.length_nil]
  grind

theorem inPlaceLoop_eq : ∀ (fuel : Nat) (src dec mid : List Nat), mid.length = dec.length →
    src.length / 2 = fuel →
    hexDecodeInPlaceLoop fuel (dec ++ mid ++ src) dec.length (2 * dec.length) =
      some (dec ++ (hexDecodePure src).1 ++ (mid ++ src).drop (hexDecodePure src).1.length,
            dec.length + (hexDecodePure src).1.length, (hexDecodePure src).2)
  | 0, [], dec, mid, h, _ => by
    have : (dec ++ mid ++ []).length % 2 = 0 := by simp only [List.length_append, List.length_nil]; omega
    have hne : ¬ (dec ++ mid ++ []).length % 2 = 1 := by omega
    simp only [hexDecodeInPlaceLoop, hexDecodePure, hne, if_false]
    simp
  | 0, [c], dec, mid, h, _ => by
    have hl : (dec ++ mid ++ [c]).length % 2 = 1 := by
      simp only [List.length_append, List.length_cons, List.length_nil]; omega
    have hg := getElem?_after dec mid [c] h 0
    simp only [Nat.add_zero, List.getElem?_cons_zero] at hg
    cases hc : fromHexChar c <;>
      simp only [hexDecodeInPlaceLoop, hexDecodePure, hl, hg, hc, if_true] <;> simp
  | 0, _ :: _ :: _, _, _, _, hf => by simp only [List.length_cons] at hf; omega
  | fuel + 1, [], _, _, _, hf => by simp at hf
  | fuel + 1, [_], _, _, _, hf => by simp at hf
  | fuel + 1, a :: b :: src, dec, mid, h, hf => by
    have hf' : src.length / 2 = fuel := by simp only [List.length_cons] at hf; omega
    have hg0 := getElem?_after dec mid (a :: b :: src) h 0
    have hg1 := getElem?_after dec mid (a :: b :: src) h 1
    simp only [Nat.add_zero, List.getElem?_cons_zero] at hg0
    simp only [List.getElem?_cons_succ, List.getElem?_cons_zero] at hg1
    cases ha : fromHexChar a with
    | none => simp only [hexDecodeInPlaceLoop, hexDecodePure, hg0, hg1, ha]; simp
    | some x =>
      cases hb : fromHexChar b with
      | none => simp only [hexDecodeInPlaceLoop, hexDecodePure, hg0, hg1, ha, hb]; simp
      | some y =>
        have hlen : dec.length < (dec ++ mid ++ a :: b :: src).length := by
          simp only [List.length_append, List.length_cons]; omega
        have hml : ((mid ++ [a, b]).drop 1).length = (dec ++ [((x <<< 4) % 256) ||| y]).length := by
          simp only [List.length_drop, List.length_append, List.length_cons, List.length_nil]; omega
        have ih := inPlaceLoop_eq fuel src (dec ++ [((x <<< 4) % 256) ||| y]) ((mid ++ [a, b]).drop 1) hml hf'
        have e1 : (dec ++ [((x <<< 4) % 256) ||| y]).length = dec.length + 1 := by simp
        have e2 : 2 * (dec.length + 1) = 2 * dec.length + 2 := by omega
        rw [e1, e2] at ih
        simp only [hexDecodeInPlaceLoop, hexDecodePure, hg0, hg1, ha, hb, setByte, hlen, if_true,
          set_at dec mid src a b _ h, ih]
        simp only [Option.some.injEq, Prod.mk.injEq, List.length_cons]
        refine ⟨?_, by omega, trivial⟩
        apply List.ext_getElem?
        intro k
        simp only [List.getElem?_drop, List.getElem?_append,
          List.getElem?_cons, List.length_drop,
          List.length_append, List.length_cons, List.length_nil]
        grind

/-- `HexDecodeInPlace` (`hex.Decode(b, b)`, source and destination the same array): never
panics; the write cursor never overtakes the read cursor, so the result is the pure decoding
followed by the untouched rest of the buffer. -/
theorem hexDecodeInPlace?_eq (b : List Nat) :
    hexDecodeInPlace? b =
      some ((hexDecodePure b).1 ++ b.drop (hexDecodePure b).1.length,
            (hexDecodePure b).1.length, (hexDecodePure b).2) := by
  have h := inPlaceLoop_eq (b.length / 2) b [] [] rfl rfl
  simpa [hexDecodeInPlace?] using h

/-! ### encoding -/

/-- A lower-case hex digit character `0-9a-f`. -/
def isLowerHex (c : Nat) : Bool := (48 ≤ c && c ≤ 57) || (97 ≤ c && c ≤ 102)

/-- The lower-case hex digit for a nibble. -/
def hexDigitChar (n : Nat) : Nat := if n < 10 then 48 + n else 97 + (n - 10)

/-- Specification of `HexEncode`: two lower-case digits per byte, high nibble first. -/
def hexEncodeSpec (bs : List Nat) : List Nat :=
  bs.flatMap fun b => [hexDigitChar (b / 16), hexDigitChar (b % 16)]

/-- Per-byte table facts (256 cases, kernel evaluation): both lookups succeed, give the
lower-case digits of the two nibbles, which decode back to the byte. -/
theorem byte_table : ∀ b, b < 256 →
    hextable[b >>> 4]? = some (hexDigitChar (b / 16)) ∧
    hextable[b &&& 0x0f]? = some (hexDigitChar (b % 16)) ∧
    isLowerHex (hexDigitChar (b / 16)) = true ∧ isLowerHex (hexDigitChar (b % 16)) = true ∧
    (fromHexChar (hexDigitChar (b / 16))).bind (fun x =>
      (fromHexChar (hexDigitChar (b % 16))).map fun y => ((x <<< 4) % 256) ||| y) = some b := by
  decide +kernel

theorem hexEncode?_eq : ∀ bs : List Nat, (∀ b ∈ bs, b < 256) → hexEncode? bs = some (hexEncodeSpec bs)
  | [], _ => by simp [hexEncode?, hexEncodeSpec]
  | b :: rest, h => by
    have hb := byte_table b (h b List.mem_cons_self)
    have ih := hexEncode?_eq rest (fun x hx => h x (List.mem_cons_of_mem _ hx))
    simp only [hexEncode?, hb.1, hb.2.1, ih]
    simp [hexEncodeSpec]

theorem hexDecodePure_encode : ∀ bs : List Nat, (∀ b ∈ bs, b < 256) →
    hexDecodePure (hexEncodeSpec bs) = (bs, .ok)
  | [], _ => by simp [hexDecodePure, hexEncodeSpec]
  | b :: rest, h => by
    have hb := (byte_table b (h b List.mem_cons_self)).2.2.2.2
    have ih := hexDecodePure_encode rest (fun x hx => h x (List.mem_cons_of_mem _ hx))
    have hs : hexEncodeSpec (b :: rest) =
        hexDigitChar (b / 16) :: hexDigitChar (b % 16) :: hexEncodeSpec rest := by
      simp [hexEncodeSpec]
    rw [hs]
    cases hx : fromHexChar (hexDigitChar (b / 16)) with
    | none => simp [hx] at hb
    | some x =>
      cases hy : fromHexChar (hexDigitChar (b % 16)) with
      | none => simp [hx, hy] at hb
      | some y =>
        simp only [hx, hy, Option.bind_some, Option.map_some, Option.some.injEq] at hb
        simp only [hexDecodePure, hx, hy, ih, hb]

theorem hexEncodeSpec_lower (bs : List Nat) (h : ∀ b ∈ bs, b < 256) :
    ∀ c ∈ hexEncodeSpec bs, isLowerHex c = true := by
  intro c hc
  simp only [hexEncodeSpec, List.mem_flatMap, List.mem_cons, List.not_mem_nil, or_false] at hc
  obtain ⟨b, hb, hc⟩ := hc
  have t := byte_table b (h b hb)
  rcases hc with rfl | rfl
  · exact t.2.2.1
  · exact t.2.2.2.1

theorem hexEncodeSpec_length (bs : List Nat) : (hexEncodeSpec bs).length = 2 * bs.length := by
  induction bs with
  | nil => rfl
  | cons b rest ih => simp only [hexEncodeSpec, List.flatMap_cons, List.length_append, List.length_cons,
      List.length_nil] at ih ⊢; omega

end Golib.C15
