/-
C02 helper lemmas, part 7: `Remove` preserves the invariant and refines `OMap.erase`.
-/
import Golib.Proof.C02Remove

set_option linter.unusedSectionVars false
set_option linter.unusedSimpArgs false

namespace Golib.C02

variable {K V : Type} [DecidableEq K] {cmp : K → K → Int}

theorem mem_map_fst_eraseVal {vals : List (K × V)} (hnd : (vals.map Prod.fst).Nodup) (n k : K) :
    k ∈ (eraseVal vals n).map Prod.fst ↔ k ≠ n ∧ k ∈ vals.map Prod.fst := by
  rw [← getVal_isSome, ← getVal_isSome, getVal_eraseVal hnd]
  by_cases h : k = n <;> simp [h]

theorem valOf_eraseVal_ne {vals : List (K × V)} (hnd : (vals.map Prod.fst).Nodup) {key x : K} (h : x ≠ key) :
    valOf (eraseVal vals key) x = valOf vals x := by
  simp [valOf, getVal_eraseVal hnd, h]

theorem del_nil (key : K) : del cmp key [] = [] := rfl

theorem Inv.of_removed (hc : TotalCmp cmp) {s : SL K V} (h : Inv cmp s) {key : K} (hk : key ∈ chain0 s)
    {lvl : Nat} (hl : levelAfter (delTop cmp key (heightOf s key) s.lv) s.level (heightOf s key) = some lvl) :
    Inv cmp (removed cmp s key lvl) ∧
      chain0 (removed cmp s key lvl) = del cmp key (chain0 s) ∧
      toMap (removed cmp s key lvl) = OMap.erase cmp (toMap s) key := by
  obtain ⟨rest, hr⟩ := h.lv_cons
  have hlen := h.len32
  have hlvl := h.lvl
  have hn0 : heightOf s key ≠ 0 := fun e => (h.heightOf_eq_zero key).mp e hk
  have hnle := h.heightOf_le key
  obtain ⟨n, hn⟩ : ∃ n, heightOf s key = n + 1 := ⟨heightOf s key - 1, by omega⟩
  obtain ⟨hpre, hpost⟩ := tower_prefix key h.tower
  have hs0 := h.sorted0
  have hc0 : chain0 (removed cmp s key lvl) = del cmp key (chain0 s) := by
    simp only [chain0, removed, hn]
    rw [hr]; simp [delTop]
  -- every level at or above the old level stays empty
  have habove : ∀ i, s.level ≤ i → i < maxLevel →
      (delTop cmp key (heightOf s key) s.lv)[i]? = some [] := by
    intro i hi hi32
    rw [getElem?_delTop, h.above i hi hi32]
    split <;> simp [del_nil]
  -- facts about the new level
  have hfacts : 1 ≤ lvl ∧ lvl ≤ s.level ∧
      (lvl = 1 ∨ ∃ l, (delTop cmp key (heightOf s key) s.lv)[lvl - 1]? = some l ∧ l ≠ []) ∧
      (∀ i, lvl ≤ i → i < s.level → (delTop cmp key (heightOf s key) s.lv)[i]? = some []) := by
    unfold levelAfter at hl
    by_cases hge : heightOf s key ≥ s.level
    · simp only [hge, if_true] at hl
      obtain ⟨m', hm', h1, h2, h3, h4⟩ := shrink_spec (delTop cmp key (heightOf s key) s.lv) s.level
        (by rw [length_delTop]; omega) hlvl.1
      rw [hm'] at hl; cases hl
      exact ⟨h1, h2, h3, h4⟩
    · simp only [hge, if_false, Option.some.injEq] at hl
      subst hl
      refine ⟨hlvl.1, Nat.le_refl _, ?_, fun i h1 h2 => by omega⟩
      rcases h.top with ht1 | ⟨l, hl1, hne⟩
      · exact Or.inl ht1
      · right
        refine ⟨l, ?_, hne⟩
        rw [getElem?_delTop, hl1]
        have : ¬ s.level - 1 < heightOf s key := by omega
        simp [this]
  obtain ⟨hf1, hf2, hf3, hf4⟩ := hfacts
  refine ⟨⟨?_, ?_, ?_, ?_, ?_, ?_, ?_, ?_, ?_⟩, hc0, ?_⟩
  · simp only [removed]; rw [length_delTop]; exact hlen
  · exact h.tower.delTop hc hpost
  · simp only [removed]; omega
  · intro i hi hi32
    simp only [removed] at hi ⊢
    by_cases hil : i < s.level
    · exact hf4 i hi hil
    · exact habove i (by omega) hi32
  · simp only [removed]; exact hf3
  · rw [hc0]
    have := length_del hc key hs0 hk
    simp only [removed]; rw [h.len]; omega
  · intro k
    rw [hc0, mem_del hc]
    simp only [removed]
    rw [mem_map_fst_eraseVal h.valsNodup, h.vals]
  · simp only [removed]
    exact h.valsNodup.sublist (map_fst_eraseVal_sublist _ _)
  · exact h.rand
  · rw [toMap_eq, hc0, toMap_eq, omap_erase_filterMap (valOf_keyPres _)]
    simp only [removed]
    unfold del
    rw [List.filterMap_append]
    congr 1
    · exact filterMap_congr_mem (fun x hx => valOf_eraseVal_ne h.valsNodup (hc.ne_of_lt (mem_lo.mp hx).2))
    · exact filterMap_congr_mem (fun x hx => valOf_eraseVal_ne h.valsNodup (hc.ne_of_lt (mem_gt.mp hx).2).symm)

/-- `OMap.get` on the abstraction reads the node value. -/
theorem omap_get_filterMap (vals : List (K × V)) (k : K) (l : List K) :
    OMap.get (l.filterMap (valOf vals)) k = if k ∈ l then getVal vals k else none := by
  induction l with
  | nil => simp [OMap.get]
  | cons x xs ih =>
    unfold OMap.get at ih ⊢
    cases hg : getVal vals x with
    | none =>
      have : valOf vals x = none := by simp [valOf, hg]
      rw [List.filterMap_cons, this]
      simp only []
      rw [ih]
      by_cases hkx : k = x
      · subst hkx; simp [hg]
      · simp [hkx]
    | some v =>
      have : valOf vals x = some (x, v) := by simp [valOf, hg]
      rw [List.filterMap_cons, this]
      simp only [List.find?_cons]
      by_cases hkx : x = k
      · subst hkx; simp [hg]
      · simp only [hkx, decide_false]
        rw [ih]
        simp [List.mem_cons, Ne.symm hkx]

end Golib.C02
