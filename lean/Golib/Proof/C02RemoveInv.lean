/-
C02 helper lemmas, part 7: `Remove` preserves the invariant and refines `OMap.erase`.
-/
import Golib.Proof.C02Remove

set_option linter.unusedSectionVars false
set_option linter.unusedSimpArgs false

namespace Golib.C02

variable {K V : Type} [DecidableEq K] {cmp : K → K → Int}

theorem mem_map_fst_eraseVal {vals : List (K × V)} (hnd : (vals.map Prod.fst).Nodup) (n k : K) :
    k ∈ (eraseVal vals n).map Prod.fst ↔ k ≠ n ∧ k ∈ vals.map Prod.fst := by
  rw [← getVal_isSome, ← getVal_isSome, getVal_eraseVal hnd]
  by_cases h : k = n <;> simp [h]

theorem valOf_eraseVal_ne {vals : List (K × V)} (hnd : (vals.map Prod.fst).Nodup) {key x : K} (h : x ≠ key) :
    valOf (eraseVal vals key) x = valOf vals x := by
  simp [valOf, getVal_eraseVal hnd, h]

theorem del_nil (key : K) : del cmp key [] = [] := rfl

theorem Inv.of_removed (hc : WeakCmp cmp) {s : SL K V} (h : Inv cmp s) {key : K} (hk : key ∈ chain0 s)
    {lvl : Nat} (hl : levelAfter (delTop cmp key (heightOf s key) s.lv) s.level (heightOf s key) = some lvl) :
    Inv cmp (removed cmp s key lvl) ∧
      chain0 (removed cmp s key lvl) = del cmp key (chain0 s) ∧
      toMap (removed cmp s key lvl) = OMap.erase cmp (toMap s) key := by
  obtain ⟨rest, hr⟩ := h.lv_cons
  have hlen := h.len32
  have hlvl := h.lvl
  have hn0 : heightOf s key ≠ 0 := fun e => (h.heightOf_eq_zero key).mp e hk
  have hnle := h.heightOf_le key
  obtain ⟨n, hn⟩ : ∃ n, heightOf s key = n + 1 := ⟨heightOf s key - 1, by omega⟩
  obtain ⟨hpre, hpost⟩ := tower_prefix key h.tower
  have hs0 := h.sorted0
  have hc0 : chain0 (removed cmp s key lvl) = del cmp key (chain0 s) := by
    simp only [chain0, removed, hn]
    rw [hr]; simp [delTop]
  -- every level at or above the old level stays empty
  have habove : ∀ i, s.level ≤ i → i < maxLevel →
      (delTop cmp key (heightOf s key) s.lv)[i]? = some [] := by
    intro i hi hi32
    rw [getElem?_delTop, h.above i hi hi32]
    split <;> simp [del_nil]
  -- facts about the new level
  have hfacts : 1 ≤ lvl ∧ lvl ≤ s.level ∧
      (lvl = 1 ∨ ∃ l, (delTop cmp key (heightOf s key) s.lv)[lvl - 1]? = some l ∧ l ≠ []) ∧
      (∀ i, lvl ≤ i → i < s.level → (delTop cmp key (heightOf s key) s.lv)[i]? = some []) := by
    unfold levelAfter at hl
    by_cases hge : heightOf s key ≥ s.level
    · simp only [hge, if_true] at hl
      obtain ⟨m', hm', h1, h2, h3, h4⟩ := shrink_spec (delTop cmp key (heightOf s key) s.lv) s.level
        (by rw [length_delTop]; omega) hlvl.1
      rw [hm'] at hl; cases hl
      exact ⟨h1, h2, h3, h4⟩
    · simp only [hge, if_false, Option.some.injEq] at hl
      subst hl
      refine ⟨hlvl.1, Nat.le_refl _, ?_, fun i h1 h2 => by omega⟩
      rcases h.top with ht1 | ⟨l, hl1, hne⟩
      · exact Or.inl ht1
      · right
        refine ⟨l, ?_, hne⟩
        rw [getElem?_delTop, hl1]
        have : ¬ s.level - 1 < heightOf s key := by omega
        simp [this]
  obtain ⟨hf1, hf2, hf3, hf4⟩ := hfacts
  refine ⟨⟨?_, ?_, ?_, ?_, ?_, ?_, ?_, ?_, ?_⟩, hc0, ?_⟩
  · simp only [removed]; rw [length_delTop]; exact hlen
  · refine h.tower.delTop hc (fun l hl y hy => ?_)
    have hlv : l ∈ s.lv := List.mem_of_mem_drop hl
    have hyk : y ≠ key := fun e => hpost l hl (e ▸ hy)
    exact hs0.not_equiv hc ((h.sub0 l hlv).subset hy) hk hyk
  · simp only [removed]; omega
  · intro i hi hi32
    simp only [removed] at hi ⊢
    by_cases hil : i < s.level
    · exact hf4 i hi hil
    · exact habove i (by omega) hi32
  · simp only [removed]; exact hf3
  · rw [hc0]
    have := length_del hc key hs0 hk
    simp only [removed]; rw [h.len]; omega
  · intro k
    rw [hc0, mem_del hc hs0 hk]
    simp only [removed]
    rw [mem_map_fst_eraseVal h.valsNodup, h.vals]
  · simp only [removed]
    exact h.valsNodup.sublist (map_fst_eraseVal_sublist _ _)
  · exact h.rand
  · rw [toMap_eq, hc0, toMap_eq, omap_erase_filterMap (valOf_keyPres _)]
    simp only [removed]
    unfold del
    rw [List.filterMap_append]
    congr 1
    · exact filterMap_congr_mem (fun x hx => valOf_eraseVal_ne h.valsNodup (hc.ne_of_lt (mem_lo.mp hx).2))
    · exact filterMap_congr_mem (fun x hx => valOf_eraseVal_ne h.valsNodup (hc.ne_of_lt (mem_gt.mp hx).2).symm)

/-- `OMap.get` on the abstraction reads the node value. -/
theorem omap_get_filterMap (vals : List (K × V)) (k : K) (l : List K) :
    OMap.get (l.filterMap (valOf vals)) k = if k ∈ l then getVal vals k else none := by
  induction l with
  | nil => simp [OMap.get]
  | cons x xs ih =>
    unfold OMap.get at ih ⊢
    cases hg : getVal vals x with
    | none =>
      have : valOf vals x = none := by simp [valOf, hg]
      rw [List.filterMap_cons, this]
      simp only []
      rw [ih]
      by_cases hkx : k = x
      · subst hkx; simp [hg]
      · simp [hkx]
    | some v =>
      have : valOf vals x = some (x, v) := by simp [valOf, hg]
      rw [List.filterMap_cons, this]
      simp only [List.find?_cons]
      by_cases hkx : x = k
      · subst hkx; simp [hg]
      · simp only [hkx, decide_false]
        rw [ih]
        simp [List.mem_cons, Ne.symm hkx]

/-! ### the weak-order reading of the abstraction -/

theorem find?_filterMap_valOf (vals : List (K × V)) (k : K) :
    ∀ (l : List K), (∀ x ∈ l, ∃ v, getVal vals x = some v) →
      (l.filterMap (valOf vals)).find? (fun p => cmp p.1 k == 0) = (findEq cmp k l).bind (valOf vals) := by
  intro l
  induction l with
  | nil => intro _; rfl
  | cons x xs ih =>
    intro hv
    obtain ⟨v, hxv⟩ := hv x (by simp)
    have hvo : valOf vals x = some (x, v) := by simp [valOf, hxv]
    rw [List.filterMap_cons, hvo]
    simp only [List.find?_cons, findEq]
    by_cases hx : (cmp x k == 0) = true
    · simp [hx, hvo]
    · have hx' : (cmp x k == 0) = false := by simpa using hx
      simp only [hx']
      exact ih (fun y hy => hv y (by simp [hy]))

theorem Inv.find_toMap {s : SL K V} (h : Inv cmp s) (k : K) :
    (toMap s).find? (fun p => cmp p.1 k == 0) = (findEq cmp k (chain0 s)).bind (valOf s.vals) := by
  rw [toMap_eq]
  exact find?_filterMap_valOf s.vals k _
    (fun x hx => Option.isSome_iff_exists.mp (getVal_isSome.mpr ((h.vals x).mpr hx)))

/-- `OMap.keyW` on the abstraction is the stored node equivalent to the key. -/
theorem Inv.keyW_toMap {s : SL K V} (h : Inv cmp s) (k : K) :
    OMap.keyW cmp (toMap s) k = findEq cmp k (chain0 s) := by
  unfold OMap.keyW
  rw [h.find_toMap]
  cases hf : findEq cmp k (chain0 s) with
  | none => rfl
  | some n =>
    obtain ⟨v, hv⟩ := Option.isSome_iff_exists.mp (getVal_isSome.mpr ((h.vals n).mpr (findEq_some hf).1))
    simp [valOf, hv]

/-- `OMap.getW` on the abstraction reads the value of that node. -/
theorem Inv.getW_toMap {s : SL K V} (h : Inv cmp s) (k : K) :
    OMap.getW cmp (toMap s) k = (findEq cmp k (chain0 s)).bind (getVal s.vals) := by
  unfold OMap.getW
  rw [h.find_toMap]
  cases hf : findEq cmp k (chain0 s) with
  | none => rfl
  | some n =>
    obtain ⟨v, hv⟩ := Option.isSome_iff_exists.mp (getVal_isSome.mpr ((h.vals n).mpr (findEq_some hf).1))
    simp [valOf, hv]

theorem omap_keyW_some {m : List (K × V)} {k n : K} (h : OMap.keyW cmp m k = some n) : cmp n k = 0 := by
  unfold OMap.keyW at h
  cases hf : m.find? (fun p => cmp p.1 k == 0) with
  | none => rw [hf] at h; cases h
  | some p =>
    rw [hf] at h
    simp only [Option.map_some, Option.some.injEq] at h
    have := List.find?_some hf
    rw [← h]; simpa using this

/-- Equivalent keys address the same binding. -/
theorem omap_set_congr (hc : WeakCmp cmp) {n k : K} (h : cmp n k = 0) (m : List (K × V)) (v : V) :
    m.filter (fun p => decide (cmp p.1 k < 0)) ++ (n, v) :: m.filter (fun p => decide (cmp k p.1 < 0)) =
      OMap.set cmp m n v := by
  unfold OMap.set
  congr 1
  · apply List.filter_congr; intro p _
    simp only [decide_eq_decide]; exact (hc.lt_congr_right h p.1).symm
  · congr 1
    apply List.filter_congr; intro p _
    simp only [decide_eq_decide]; exact (hc.lt_congr_left h p.1).symm

theorem omap_setW_of_some (hc : WeakCmp cmp) {m : List (K × V)} {k n : K} (h : OMap.keyW cmp m k = some n)
    (v : V) : OMap.setW cmp m k v = OMap.set cmp m n v := by
  unfold OMap.setW
  rw [h]
  exact omap_set_congr hc (omap_keyW_some h) m v

theorem omap_setW_of_none {m : List (K × V)} {k : K} (h : OMap.keyW cmp m k = none) (v : V) :
    OMap.setW cmp m k v = OMap.set cmp m k v := by
  unfold OMap.setW OMap.set; rw [h]; rfl

theorem omap_erase_congr (hc : WeakCmp cmp) {n k : K} (h : cmp n k = 0) (m : List (K × V)) :
    OMap.erase cmp m k = OMap.erase cmp m n := by
  unfold OMap.erase
  congr 1
  · apply List.filter_congr; intro p _
    simp only [decide_eq_decide]; exact (hc.lt_congr_right h p.1).symm
  · apply List.filter_congr; intro p _
    simp only [decide_eq_decide]; exact (hc.lt_congr_left h p.1).symm

end Golib.C02
