/-
C02 helper lemmas, part 6: `Remove`.
-/
import Golib.Proof.C02SetInv

set_option linter.unusedSectionVars false
set_option linter.unusedSimpArgs false

namespace Golib.C02

variable {K V : Type} [DecidableEq K] {cmp : K → K → Int}

/-- Number of levels that hold `key` (= height of its tower). -/
def heightOf (s : SL K V) (key : K) : Nat := (s.lv.filter (fun l => decide (key ∈ l))).length

/-- In a tower the levels holding `key` are exactly the lowest `heightOf` ones. -/
theorem tower_prefix (key : K) : ∀ {lv : List (List K)}, Tower cmp lv →
    (∀ l ∈ lv.take (lv.filter (fun l => decide (key ∈ l))).length, key ∈ l) ∧
    (∀ l ∈ lv.drop (lv.filter (fun l => decide (key ∈ l))).length, key ∉ l) := by
  intro lv
  induction lv with
  | nil => intro _; simp
  | cons l lv ih =>
    intro ht
    by_cases hm : key ∈ l
    · have := ih ht.tail
      simp only [List.filter_cons, hm, decide_true, if_true, List.length_cons, List.take_succ_cons,
        List.drop_succ_cons, List.mem_cons]
      exact ⟨fun x hx => hx.elim (fun e => e ▸ hm) (this.1 x), this.2⟩
    · have hnone : ∀ x ∈ lv, key ∉ x := fun x hx hk => hm ((ht.sub_head x hx).subset hk)
      have : lv.filter (fun l => decide (key ∈ l)) = [] := by
        rw [List.filter_eq_nil_iff]; intro x hx; simpa using hnone x hx
      simp only [List.filter_cons, hm, decide_false, Bool.false_eq_true, if_false, this, List.length_nil,
        List.take_zero, List.drop_zero]
      exact ⟨by simp, fun x hx => (List.mem_cons.mp hx).elim (fun e => e ▸ hm) (hnone x)⟩

theorem Inv.cntHas_eq (h : Inv cmp s) (key : K) :
    cntHas key (s.lv.take s.level).reverse = heightOf s key := by
  unfold cntHas heightOf
  rw [List.filter_reverse, List.length_reverse]
  conv => rhs; rw [← List.take_append_drop s.level s.lv, List.filter_append]
  have : (s.lv.drop s.level).filter (fun l => decide (key ∈ l)) = [] := by
    rw [List.filter_eq_nil_iff]
    intro l hl
    obtain ⟨i, hi, rfl⟩ := List.getElem_of_mem hl
    simp only [List.length_drop] at hi
    have := h.above (s.level + i) (by omega) (by have := h.len32; omega)
    rw [List.getElem_drop]
    rw [List.getElem?_eq_getElem (by omega)] at this
    simp only [Option.some.injEq] at this
    simp [this]
  rw [this]; simp

/-- The levels that hold a node equivalent to `key` are those that hold the stored node. -/
theorem Inv.cntHit_eq (hc : WeakCmp cmp) (h : Inv cmp s) {key n : K}
    (hf : findEq cmp key (chain0 s) = some n) :
    cntHit cmp key (s.lv.take s.level).reverse = heightOf s n := by
  rw [← h.cntHas_eq n]
  unfold cntHit cntHas
  congr 1
  apply List.filter_congr
  intro l hl
  have hsub := h.sub0 l (List.mem_of_mem_take (List.mem_reverse.mp hl))
  rw [findEq_sublist hc h.sorted0 hsub, hf]
  simp only []
  by_cases hnl : n ∈ l <;> simp [hnl]

theorem Inv.cntHit_zero (hc : WeakCmp cmp) (h : Inv cmp s) {key : K}
    (hf : findEq cmp key (chain0 s) = none) :
    cntHit cmp key (s.lv.take s.level).reverse = 0 := by
  unfold cntHit
  rw [List.length_eq_zero_iff, List.filter_eq_nil_iff]
  intro l hl
  have hsub := h.sub0 l (List.mem_of_mem_take (List.mem_reverse.mp hl))
  rw [findEq_sublist hc h.sorted0 hsub, hf]
  simp

theorem Inv.heightOf_le (h : Inv cmp s) (key : K) : heightOf s key ≤ s.level := by
  rw [← h.cntHas_eq key]
  unfold cntHas
  refine Nat.le_trans (List.length_filter_le _ _) ?_
  simp; exact Nat.min_le_left _ _

theorem Inv.heightOf_eq_zero (h : Inv cmp s) (key : K) : heightOf s key = 0 ↔ key ∉ chain0 s := by
  obtain ⟨rest, hr⟩ := h.lv_cons
  unfold heightOf
  rw [List.length_eq_zero_iff, List.filter_eq_nil_iff]
  constructor
  · intro hall hk
    have := hall (chain0 s) (by rw [hr]; simp)
    simp [hk] at this
  · intro hk l hl
    simpa using fun hm => hk ((h.sub0 l hl).subset hm)

/-- Spec of the level-shrinking loop. -/
theorem shrink_spec (lv : List (List K)) : ∀ (m : Nat), m ≤ lv.length → 1 ≤ m →
    ∃ m', shrink lv m = some m' ∧ 1 ≤ m' ∧ m' ≤ m ∧
      (m' = 1 ∨ ∃ l, lv[m' - 1]? = some l ∧ l ≠ []) ∧
      (∀ i, m' ≤ i → i < m → lv[i]? = some []) := by
  intro m
  induction m with
  | zero => intro _ h; omega
  | succ m ih =>
    intro hle _
    cases m with
    | zero => exact ⟨1, rfl, by omega, by omega, Or.inl rfl, fun i h1 h2 => by omega⟩
    | succ n =>
      unfold shrink
      have hget : lv[n + 1]? = some lv[n + 1] := List.getElem?_eq_getElem (by omega)
      rw [hget]
      cases hl : lv[n + 1] with
      | nil =>
        obtain ⟨m', h1, h2, h3, h4, h5⟩ := ih (by omega) (by omega)
        refine ⟨m', h1, h2, by omega, h4, ?_⟩
        intro i hi1 hi2
        by_cases hin : i < n + 1
        · exact h5 i hi1 hin
        · have : i = n + 1 := by omega
          subst this; rw [hget, hl]
      | cons a as =>
        refine ⟨n + 2, rfl, by omega, by omega, Or.inr ⟨a :: as, ?_, by simp⟩, fun i h1 h2 => by omega⟩
        show lv[n + 1]? = _
        rw [hget, hl]

/-- The level after removing a tower of height `n`. -/
def levelAfter (lv' : List (List K)) (level n : Nat) : Option Nat :=
  if n ≥ level then shrink lv' level else some level

theorem remove_absent (cfg : Cfg K V) (hc : WeakCmp cfg.cmp) {s : SL K V} (h : Inv cfg.cmp s)
    {key : K} (hk : findEq cfg.cmp key (chain0 s) = none) : s.remove cfg key = some (s, cfg.zeroV, false) := by
  obtain ⟨ls, h1, h2, _, _, _⟩ := h.search_prep hc key
  have hls : ls = (s.lv.take s.level).reverse := by
    have hle : s.level ≤ s.lv.length := by rw [h.len32]; exact h.lvl.2
    simp [SL.levelsDown, hle] at h1; exact h1.symm
  unfold SL.remove
  simp only [h1]
  rw [removeLoop_spec hc key ls none 0 [] h2 (fun l _ c hcn => by cases hcn)]
  have : cntHit cfg.cmp key ls = 0 := by rw [hls, h.cntHit_zero hc hk]
  simp [this]

/-- The state after removing `key`, given the new level. -/
def removed (cmp : K → K → Int) (s : SL K V) (key : K) (lvl : Nat) : SL K V :=
  { s with lv := delTop cmp key (heightOf s key) s.lv, vals := eraseVal s.vals key, level := lvl,
           len := s.len - 1 }

/-- `Remove(key)` when the stored node `n` is equivalent to `key`: node `n` goes. -/
theorem remove_found (cfg : Cfg K V) (hc : WeakCmp cfg.cmp) {s : SL K V} (h : Inv cfg.cmp s)
    {key n : K} (hf : findEq cfg.cmp key (chain0 s) = some n) :
    ∃ val lvl, getVal s.vals n = some val ∧
      levelAfter (delTop cfg.cmp n (heightOf s n) s.lv) s.level (heightOf s n) = some lvl ∧
      s.remove cfg key = some (removed cfg.cmp s n lvl, val, true) := by
  obtain ⟨hk, hnk⟩ := findEq_some hf
  obtain ⟨ls, h1, h2, _, h4, h5⟩ := h.search_prep hc key
  obtain ⟨rest, hr⟩ := h.lv_cons
  have hle : s.level ≤ s.lv.length := by rw [h.len32]; exact h.lvl.2
  have hls : ls = (s.lv.take s.level).reverse := by
    simp [SL.levelsDown, hle] at h1; exact h1.symm
  have hcnt : cntHit cfg.cmp key ls = heightOf s n := by rw [hls, h.cntHit_eq hc hf]
  have hn0 : heightOf s n ≠ 0 := fun e => (h.heightOf_eq_zero n).mp e hk
  have hnle := h.heightOf_le n
  obtain ⟨val, hval⟩ : ∃ val, getVal s.vals n = some val := by
    have := getVal_isSome.mpr ((h.vals n).mpr hk)
    exact Option.isSome_iff_exists.mp this
  have hs0 := h.sorted0
  obtain ⟨hpre, hpost⟩ := tower_prefix n h.tower
  -- the level computation cannot fail
  have hlvl : ∃ lvl, levelAfter (delTop cfg.cmp n (heightOf s n) s.lv) s.level (heightOf s n) = some lvl := by
    unfold levelAfter
    split
    · obtain ⟨m', hm', _⟩ := shrink_spec (delTop cfg.cmp n (heightOf s n) s.lv) s.level
        (by rw [length_delTop]; exact hle) h.lvl.1
      exact ⟨m', hm'⟩
    · exact ⟨_, rfl⟩
  obtain ⟨lvl, hlvl⟩ := hlvl
  refine ⟨val, lvl, hval, hlvl, ?_⟩
  unfold SL.remove
  simp only [h1]
  rw [removeLoop_spec hc key ls none 0 [] h2 (fun l _ c hcn => by cases hcn)]
  simp only [if_true, hcnt, h5, h4, List.append_nil]
  -- the search for `key` walked exactly as a search for the stored node would
  rw [pred_congr hc hnk]
  have hb : (heightOf s n == 0) = false := by simp [hn0]
  simp only [hb, Bool.false_eq_true, if_false]
  rw [hr]
  simp only []
  rw [(upto_after_pred hc n hs0).2, ge_of_mem hc hs0 hk]
  simp only [hval]
  rw [← hr]
  rw [unsplice_spec hc n (heightOf s n) s.lv _ (by omega) (by simp; omega) h.tower.1 _ hpre]
  · simp only []
    unfold levelAfter at hlvl
    by_cases hge : heightOf s n ≥ s.level
    · simp only [hge, if_true] at hlvl
      simp [hge, hlvl, removed]
    · simp only [hge, if_false, Option.some.injEq] at hlvl
      simp [hge, ← hlvl, removed]
  · intro i hi
    simp [List.getElem?_take]; omega

end Golib.C02
