/-
C02 helper lemmas, part 6: `Remove`.
-/
import Golib.Proof.C02SetInv

set_option linter.unusedSectionVars false
set_option linter.unusedSimpArgs false

namespace Golib.C02

variable {K V : Type} [DecidableEq K] {cmp : K → K → Int}

/-- Number of levels that hold `key` (= height of its tower). -/
def heightOf (s : SL K V) (key : K) : Nat := (s.lv.filter (fun l => decide (key ∈ l))).length

/-- In a tower the levels holding `key` are exactly the lowest `heightOf` ones. -/
theorem tower_prefix (key : K) : ∀ {lv : List (List K)}, Tower cmp lv →
    (∀ l ∈ lv.take (lv.filter (fun l => decide (key ∈ l))).length, key ∈ l) ∧
    (∀ l ∈ lv.drop (lv.filter (fun l => decide (key ∈ l))).length, key ∉ l) := by
  intro lv
  induction lv with
  | nil => intro _; simp
  | cons l lv ih =>
    intro ht
    by_cases hm : key ∈ l
    · have := ih ht.tail
      simp only [List.filter_cons, hm, decide_true, if_true, List.length_cons, List.take_succ_cons,
        List.drop_succ_cons, List.mem_cons]
      exact ⟨fun x hx => hx.elim (fun e => e ▸ hm) (this.1 x), this.2⟩
    · have hnone : ∀ x ∈ lv, key ∉ x := fun x hx hk => hm ((ht.sub_head x hx).subset hk)
      have : lv.filter (fun l => decide (key ∈ l)) = [] := by
        rw [List.filter_eq_nil_iff]; intro x hx; simpa using hnone x hx
      simp only [List.filter_cons, hm, decide_false, Bool.false_eq_true, if_false, this, List.length_nil,
        List.take_zero, List.drop_zero]
      exact ⟨by simp, fun x hx => (List.mem_cons.mp hx).elim (fun e => e ▸ hm) (hnone x)⟩

theorem Inv.cntHas_eq (h : Inv cmp s) (key : K) :
    cntHas key (s.lv.take s.level).reverse = heightOf s key := by
  unfold cntHas heightOf
  rw [List.filter_reverse, List.length_reverse]
  conv => rhs; rw [← List.take_append_drop s.level s.lv, List.filter_append]
  have : (s.lv.drop s.level).filter (fun l => decide (key ∈ l)) = [] := by
    rw [List.filter_eq_nil_iff]
    intro l hl
    obtain ⟨i, hi, rfl⟩ := List.getElem_of_mem hl
    simp only [List.length_drop] at hi
    have := h.above (s.level + i) (by omega) (by have := h.len32; omega)
    rw [List.getElem_drop]
    rw [List.getElem?_eq_getElem (by omega)] at this
    simp only [Option.some.injEq] at this
    simp [this]
  rw [this]; simp

theorem Inv.heightOf_le (h : Inv cmp s) (key : K) : heightOf s key ≤ s.level := by
  rw [← h.cntHas_eq key]
  unfold cntHas
  refine Nat.le_trans (List.length_filter_le _ _) ?_
  simp; exact Nat.min_le_left _ _

theorem Inv.heightOf_eq_zero (h : Inv cmp s) (key : K) : heightOf s key = 0 ↔ key ∉ chain0 s := by
  obtain ⟨rest, hr⟩ := h.lv_cons
  unfold heightOf
  rw [List.length_eq_zero_iff, List.filter_eq_nil_iff]
  constructor
  · intro hall hk
    have := hall (chain0 s) (by rw [hr]; simp)
    simp [hk] at this
  · intro hk l hl
    simpa using fun hm => hk ((h.sub0 l hl).subset hm)

/-- Spec of the level-shrinking loop. -/
theorem shrink_spec (lv : List (List K)) : ∀ (m : Nat), m ≤ lv.length → 1 ≤ m →
    ∃ m', shrink lv m = some m' ∧ 1 ≤ m' ∧ m' ≤ m ∧
      (m' = 1 ∨ ∃ l, lv[m' - 1]? = some l ∧ l ≠ []) ∧
      (∀ i, m' ≤ i → i < m → lv[i]? = some []) := by
  intro m
  induction m with
  | zero => intro _ h; omega
  | succ m ih =>
    intro hle _
    cases m with
    | zero => exact ⟨1, rfl, by omega, by omega, Or.inl rfl, fun i h1 h2 => by omega⟩
    | succ n =>
      unfold shrink
      have hget : lv[n + 1]? = some lv[n + 1] := List.getElem?_eq_getElem (by omega)
      rw [hget]
      cases hl : lv[n + 1] with
      | nil =>
        obtain ⟨m', h1, h2, h3, h4, h5⟩ := ih (by omega) (by omega)
        refine ⟨m', h1, h2, by omega, h4, ?_⟩
        intro i hi1 hi2
        by_cases hin : i < n + 1
        · exact h5 i hi1 hin
        · have : i = n + 1 := by omega
          subst this; rw [hget, hl]
      | cons a as =>
        refine ⟨n + 2, rfl, by omega, by omega, Or.inr ⟨a :: as, ?_, by simp⟩, fun i h1 h2 => by omega⟩
        show lv[n + 1]? = _
        rw [hget, hl]

/-- The level after removing a tower of height `n`. -/
def levelAfter (lv' : List (List K)) (level n : Nat) : Option Nat :=
  if n ≥ level then shrink lv' level else some level

theorem remove_absent (cfg : Cfg K V) (hc : TotalCmp cfg.cmp) {s : SL K V} (h : Inv cfg.cmp s)
    {key : K} (hk : key ∉ chain0 s) : s.remove cfg key = some (s, cfg.zeroV, false) := by
  obtain ⟨ls, h1, h2, _, _, _⟩ := h.search_prep key
  have hls : ls = (s.lv.take s.level).reverse := by
    have hle : s.level ≤ s.lv.length := by rw [h.len32]; exact h.lvl.2
    simp [SL.levelsDown, hle] at h1; exact h1.symm
  unfold SL.remove
  simp only [h1]
  rw [removeLoop_spec hc key ls none 0 [] h2 (fun l _ c hcn => by cases hcn)]
  have : cntHas key ls = 0 := by rw [hls, h.cntHas_eq, h.heightOf_eq_zero]; exact hk
  simp [this]

/-- The state after removing `key`, given the new level. -/
def removed (cmp : K → K → Int) (s : SL K V) (key : K) (lvl : Nat) : SL K V :=
  { s with lv := delTop cmp key (heightOf s key) s.lv, vals := eraseVal s.vals key, level := lvl,
           len := s.len - 1 }

theorem remove_found (cfg : Cfg K V) (hc : TotalCmp cfg.cmp) {s : SL K V} (h : Inv cfg.cmp s)
    {key : K} (hk : key ∈ chain0 s) :
    ∃ val lvl, getVal s.vals key = some val ∧
      levelAfter (delTop cfg.cmp key (heightOf s key) s.lv) s.level (heightOf s key) = some lvl ∧
      s.remove cfg key = some (removed cfg.cmp s key lvl, val, true) := by
  obtain ⟨ls, h1, h2, _, h4, h5⟩ := h.search_prep key
  obtain ⟨rest, hr⟩ := h.lv_cons
  have hle : s.level ≤ s.lv.length := by rw [h.len32]; exact h.lvl.2
  have hls : ls = (s.lv.take s.level).reverse := by
    simp [SL.levelsDown, hle] at h1; exact h1.symm
  have hcnt : cntHas key ls = heightOf s key := by rw [hls, h.cntHas_eq]
  have hn0 : heightOf s key ≠ 0 := fun e => (h.heightOf_eq_zero key).mp e hk
  have hnle := h.heightOf_le key
  obtain ⟨val, hval⟩ : ∃ val, getVal s.vals key = some val := by
    have := getVal_isSome.mpr ((h.vals key).mpr hk)
    exact Option.isSome_iff_exists.mp this
  have hs0 := h.sorted0
  obtain ⟨hpre, hpost⟩ := tower_prefix key h.tower
  -- the level computation cannot fail
  have hlvl : ∃ lvl, levelAfter (delTop cfg.cmp key (heightOf s key) s.lv) s.level (heightOf s key) = some lvl := by
    unfold levelAfter
    split
    · obtain ⟨m', hm', _⟩ := shrink_spec (delTop cfg.cmp key (heightOf s key) s.lv) s.level
        (by rw [length_delTop]; exact hle) h.lvl.1
      exact ⟨m', hm'⟩
    · exact ⟨_, rfl⟩
  obtain ⟨lvl, hlvl⟩ := hlvl
  refine ⟨val, lvl, hval, hlvl, ?_⟩
  unfold SL.remove
  simp only [h1]
  rw [removeLoop_spec hc key ls none 0 [] h2 (fun l _ c hcn => by cases hcn)]
  simp only [if_true, hcnt, h5, h4, List.append_nil]
  have hb : (heightOf s key == 0) = false := by simp [hn0]
  simp only [hb, Bool.false_eq_true, if_false]
  rw [hr]
  simp only []
  rw [(upto_after_pred hc key hs0).2, ge_of_mem hc hs0 hk]
  simp only [hval]
  rw [← hr]
  rw [unsplice_spec hc key (heightOf s key) s.lv _ (by omega) (by simp; omega) h.tower.1 _ hpre]
  · simp only []
    unfold levelAfter at hlvl
    by_cases hge : heightOf s key ≥ s.level
    · simp only [hge, if_true] at hlvl
      simp [hge, hlvl, removed]
    · simp only [hge, if_false, Option.some.injEq] at hlvl
      simp [hge, ← hlvl, removed]
  · intro i hi
    simp [List.getElem?_take]; omega

end Golib.C02
