/-
`PrefixSearch` / `FuzzySearch` on the pointer-level model simulate the label trie's: whenever
the label functions return a result, the pointer functions (walking ids, child arrays, `fail`
pointers, `size` and `isEnd` fields of the node store) return the same result.

Route: (1) the label `dfsLoop`, once it succeeded with some fuel, returns the same with every
fuel above the number of nodes still to visit (`dfsLoop_fuel`); below a node that number is
less than the size of the store (`below_lt_store`).  (2) Equal-fuel, frame-by-frame simulation
of `dfsLoop` by `pDfsLoop` through `Rep` (`pDfsLoop_sim`).  (3) The descents and the outer
`fail` walk are simulated as in `C05PtrScan`.
-/
import Golib.Proof.C05PtrScan
import Golib.Proof.C05Dfs

set_option linter.unusedSimpArgs false
set_option linter.unusedVariables false

namespace Golib.C05
open Golib

/-! ### the label loop does not depend on its fuel -/

theorem pushFrames_isNode {ps : List (List Step)} {node : Label} {cs : List Int} (d : Int)
    {fs : List Frame} (hc : childrenOf ps node = some cs)
    (hfs : ∀ g ∈ fs, IsNode ps g.node) : ∀ g ∈ pushFrames node d cs fs, IsNode ps g.node := by
  intro g hg
  simp only [pushFrames, List.mem_append, List.mem_reverse, List.mem_map] at hg
  rcases hg with ⟨v, hv, rfl⟩ | hg
  · exact (mem_children_iff hc v).1 hv
  · exact hfs g hg

/-- If the label loop returns `r` with some fuel, it returns `r` with every fuel above the
number of nodes in the subtrees of the stacked frames. -/
theorem dfsLoop_fuel (t : Trie) (w : Int → Int) (enc : Int → List Nat) {D : Nat}
    (hD : ∀ m, IsNode t.pats m → m.length ≤ D) :
    ∀ (f : Nat) (stack : List Frame) (buf : List Nat) (ret r : List (List Nat)),
      (∀ g ∈ stack, IsNode t.pats g.node) →
      dfsLoop t w enc f stack buf ret = some r →
      ∀ f', ((stack.map (·.node)).flatMap (sub t.pats D)).length < f' →
        dfsLoop t w enc f' stack buf ret = some r := by
  intro f
  induction f with
  | zero => intro stack buf ret r _ hx; simp [dfsLoop] at hx
  | succ f ih =>
    intro stack buf ret r hst hx f' hlen
    cases f' with
    | zero => omega
    | succ f' =>
      cases stack with
      | nil => simpa [dfsLoop] using hx
      | cons cur fs =>
        have hisn : IsNode t.pats cur.node := hst cur List.mem_cons_self
        have hfs : ∀ g ∈ fs, IsNode t.pats g.node := fun g hg => hst g (List.mem_cons_of_mem _ hg)
        obtain ⟨cs, hc⟩ := children_exists t.pats cur.node
        have hc' : t.children cur.node = some cs := hc
        have hunf := sub_unfold hD hisn
        simp only [List.map_cons, List.flatMap_cons, hunf, List.cons_append, List.length_cons,
          List.length_append] at hlen
        cases cs with
        | nil =>
          cases fs with
          | nil =>
            simp only [dfsLoop, hc'] at hx ⊢
            exact hx
          | cons nxt fs' =>
            unfold dfsLoop at hx ⊢
            rw [hc'] at hx ⊢
            simp only [] at hx ⊢
            cases htr : truncate? (buf ++ enc cur.r)
                (((buf ++ enc cur.r).length : Int) - (cur.depth + w cur.r - nxt.depth)) with
            | none => rw [htr] at hx; simp at hx
            | some buf' =>
              rw [htr] at hx
              simp only [] at hx ⊢
              exact ih _ _ _ _ hfs hx f' (by omega)
        | cons c cs' =>
          simp only [dfsLoop, hc'] at hx ⊢
          have hnodes := pushFrames_nodes (cur.depth + w cur.r) fs hc
          refine ih _ _ _ _ (pushFrames_isNode _ hc hfs) hx f' ?_
          rw [hnodes, List.flatMap_append, List.length_append]
          omega

/-- The nodes properly below a node are fewer than the ids of the store. -/
theorem below_lt_store {pt : PTrie} {t : Trie} {lbl : List Label} (h : Rep pt t lbl)
    {D : Nat} (hD : ∀ m, IsNode t.pats m → m.length ≤ D) {n : Label} (hn : IsNode t.pats n) :
    (below t.pats D n).length < pt.nodes.length + 1 := by
  obtain ⟨h1, h2⟩ := below_spec hD hn
  have := h1.length_le_of_subset (l₂ := lbl) (by
    intro m hm
    exact (h.nodes m).1 ((h2 m).1 hm).1)
  rw [h.len] at this
  omega

/-! ### frames: ids against labels -/

def FrameRel (lbl : List Label) (p : PFrame) (f : Frame) : Prop :=
  p.r = f.r ∧ p.depth = f.depth ∧ lbl[p.node]? = some f.node

def StackRel (lbl : List Label) : List PFrame → List Frame → Prop
  | [], [] => True
  | p :: ps, f :: fs => FrameRel lbl p f ∧ StackRel lbl ps fs
  | _, _ => False

theorem pPushFrames_cons (d : Int) (ch : Int × Nat) (chs : List (Int × Nat)) (ps : List PFrame) :
    pPushFrames d (ch :: chs) ps = pPushFrames d chs (⟨ch.1, d, ch.2⟩ :: ps) := by
  simp [pPushFrames]

theorem stackRel_push (lbl : List Label) (l : Label) (d : Int) :
    ∀ (chs : List (Int × Nat)) (ps : List PFrame) (fs : List Frame),
      (∀ r c, (r, c) ∈ chs → lbl[c]? = some (l ++ [r])) → StackRel lbl ps fs →
      StackRel lbl (pPushFrames d chs ps) (pushFrames l d (chs.map (·.1)) fs)
  | [], ps, fs, _, h => by simpa [pPushFrames, pushFrames] using h
  | (r, c) :: chs, ps, fs, hk, h => by
    rw [pPushFrames_cons, List.map_cons, pushFrames_cons]
    apply stackRel_push lbl l d chs _ _ (fun r' c' hm => hk r' c' (List.mem_cons_of_mem _ hm))
    exact ⟨⟨rfl, rfl, hk r c List.mem_cons_self⟩, h⟩

/-! ### the DFS loop, equal fuel -/

theorem pDfsLoop_sim {pt : PTrie} {t : Trie} {lbl : List Label} (h : Rep pt t lbl)
    (w : Int → Int) (enc : Int → List Nat) :
    ∀ (f : Nat) (pst : List PFrame) (st : List Frame) (buf : List Nat) (ret r : List (List Nat)),
      StackRel lbl pst st → dfsLoop t w enc f st buf ret = some r →
      pDfsLoop pt w enc f pst buf ret = some r := by
  intro f
  induction f with
  | zero => intro pst st buf ret r _ hx; simp [dfsLoop] at hx
  | succ f ih =>
    intro pst st buf ret r hrel hx
    cases st with
    | nil =>
      cases pst with
      | nil => simpa [dfsLoop, pDfsLoop] using hx
      | cons p ps => simp [StackRel] at hrel
    | cons cur fs =>
      cases pst with
      | nil => simp [StackRel] at hrel
      | cons p ps =>
        obtain ⟨⟨hr, hd, hl⟩, hrest⟩ := hrel
        obtain ⟨nd, hnd⟩ := h.node_get hl
        obtain ⟨hk, hkc, he, _⟩ := h.kids p.node nd cur.node hnd hl
        unfold dfsLoop at hx
        unfold pDfsLoop
        rw [hnd]
        simp only [hk, hr, hd, he] at hx ⊢
        cases hch : nd.children with
        | nil =>
          have hv : nd.vals = [] := by simp [PNode.vals, hch]
          rw [hv] at hx
          simp only [] at hx ⊢
          cases fs with
          | nil =>
            cases ps with
            | nil => simpa using hx
            | cons p' ps' => simp [StackRel] at hrest
          | cons nxt fs' =>
            cases ps with
            | nil => simp [StackRel] at hrest
            | cons p' ps' =>
              have hd' : p'.depth = nxt.depth := hrest.1.2.1
              simp only [hd'] at hx ⊢
              cases htr : truncate? (buf ++ enc cur.r)
                  (((buf ++ enc cur.r).length : Int) - (cur.depth + w cur.r - nxt.depth)) with
              | none => rw [htr] at hx; simp at hx
              | some buf' =>
                rw [htr] at hx
                simp only [] at hx ⊢
                exact ih _ _ _ _ _ hrest hx
        | cons ch chs =>
          have hv : nd.vals = ch.1 :: chs.map (·.1) := by simp [PNode.vals, hch]
          rw [hv] at hx
          simp only [] at hx ⊢
          refine ih _ _ _ _ _ ?_ hx
          have := stackRel_push lbl cur.node (cur.depth + w cur.r) (ch :: chs) ps fs
            (fun r c hm => hkc r c (hch ▸ hm)) hrest
          simpa using this

/-- The DFS as `PrefixSearch` / `FuzzySearch` start it below a node: label fuel
`nodeBound + 1`, pointer fuel `len(store) + 1`. -/
theorem pDfs_start {pt : PTrie} {t : Trie} {lbl : List Label} (h : Rep pt t lbl)
    (w : Int → Int) (enc : Int → List Nat) {node : Nat} {l : Label} (hl : lbl[node]? = some l)
    {nd : PNode} (hnd : pt.nodes[node]? = some nd) (buf : List Nat) (ret r : List (List Nat))
    (hx : dfsLoop t w enc (nodeBound t.pats + 1) (pushFrames l 0 nd.vals []) buf ret = some r) :
    pDfsLoop pt w enc (pt.nodes.length + 1) (pPushFrames 0 nd.children []) buf ret = some r := by
  have hD : ∀ m, IsNode t.pats m → m.length ≤ nodeBound t.pats := fun m hm => isNode_length_le hm
  have hn : IsNode t.pats l := (h.nodes l).2 (List.mem_of_getElem? hl)
  obtain ⟨hk, hkc, _, _⟩ := h.kids node nd l hnd hl
  have hc : childrenOf t.pats l = some nd.vals := hk
  have hst : ∀ g ∈ pushFrames l 0 nd.vals [], IsNode t.pats g.node :=
    pushFrames_isNode 0 hc (by simp)
  have hnodes := pushFrames_nodes (0 : Int) [] hc
  simp only [List.map_nil, List.append_nil] at hnodes
  have hx' := dfsLoop_fuel t w enc hD _ _ _ _ _ hst hx (pt.nodes.length + 1)
    (by rw [hnodes]; exact below_lt_store h hD hn)
  refine pDfsLoop_sim h w enc _ _ _ _ _ _ ?_ hx'
  exact stackRel_push lbl l 0 nd.children [] [] hkc trivial

/-! ### the descents -/

/-- Results of the descents correspond: both `return nil`, or an id carrying the label. -/
def ResRel (lbl : List Label) (pres : Option Nat) (res : Option Label) : Prop :=
  (pres = none ∧ res = none) ∨ ∃ n l, pres = some n ∧ res = some l ∧ lbl[n]? = some l

theorem pDescend_sim {pt : PTrie} {t : Trie} {lbl : List Label} (h : Rep pt t lbl) :
    ∀ (steps : List Step) (node : Nat) (l : Label) (res : Option Label),
      lbl[node]? = some l → descend t steps l = some res →
      ∃ pres, pDescend pt steps node = some pres ∧ ResRel lbl pres res := by
  intro steps
  induction steps with
  | nil =>
    intro node l res hl hx
    simp only [descend, Option.some.injEq] at hx
    subst hx
    exact ⟨some node, rfl, Or.inr ⟨node, l, rfl, rfl, hl⟩⟩
  | cons st rest ih =>
    intro node l res hl hx
    obtain ⟨v, sz⟩ := st
    unfold descend at hx
    unfold pDescend
    obtain ⟨nd, hnd⟩ := h.node_get hl
    obtain ⟨hk, hkc, _, _⟩ := h.kids node nd l hnd hl
    rw [hnd]; simp only []
    rw [hk] at hx; simp only [] at hx
    cases hi : index nd.vals v with
    | none => rw [hi] at hx; simp at hx
    | some oi =>
      rw [hi] at hx
      cases oi with
      | none =>
        simp only [Option.some.injEq] at hx ⊢
        subst hx
        exact ⟨none, rfl, Or.inl ⟨rfl, rfl⟩⟩
      | some idx =>
        simp only [] at hx ⊢
        simp only [PNode.vals, List.getElem?_map] at hx
        cases hci : nd.children[idx]? with
        | none => rw [hci] at hx; simp at hx
        | some rc =>
          obtain ⟨r, c⟩ := rc
          rw [hci] at hx
          simp only [Option.map_some] at hx ⊢
          exact ih _ _ _ (hkc r c (List.mem_of_getElem? hci)) hx

theorem pFuzzyDescend_sim {pt : PTrie} {t : Trie} {lbl : List Label} (h : Rep pt t lbl) :
    ∀ (steps : List Step) (node : Nat) (l : Label) (res : Option Label),
      lbl[node]? = some l → fuzzyDescend t steps l = some res →
      ∃ pres, pFuzzyDescend pt steps node = some pres ∧ ResRel lbl pres res := by
  intro steps
  induction steps with
  | nil =>
    intro node l res hl hx
    simp only [fuzzyDescend, Option.some.injEq] at hx
    subst hx
    exact ⟨some node, rfl, Or.inr ⟨node, l, rfl, rfl, hl⟩⟩
  | cons st rest ih =>
    intro node l res hl hx
    obtain ⟨v, sz⟩ := st
    unfold fuzzyDescend at hx
    unfold pFuzzyDescend
    cases hfb : fallback t l v with
    | none => rw [hfb] at hx; simp at hx
    | some fr =>
      obtain ⟨l1, idx⟩ := fr
      obtain ⟨n1, hp1, hl1⟩ := pFallback_sim h hl v hfb
      rw [hfb] at hx; rw [hp1]
      cases idx with
      | none =>
        simp only [Option.some.injEq] at hx ⊢
        subst hx
        exact ⟨none, rfl, Or.inl ⟨rfl, rfl⟩⟩
      | some ix =>
        simp only [] at hx ⊢
        cases hca : childAt t l1 ix with
        | none => rw [hca] at hx; simp at hx
        | some l2 =>
          obtain ⟨n2, hp2, hl2⟩ := pChildAt_sim h hl1 ix hca
          rw [hca] at hx; rw [hp2]
          simp only [] at hx ⊢
          exact ih _ _ _ hl2 hx

/-! ### the outer `fail` walk of FuzzySearch -/

theorem pFuzzyOuter_mono (pt : PTrie) (w : Int → Int) (enc : Int → List Nat) (key : List Nat)
    (k : Nat) : ∀ (fuel node : Nat) (ret x : List (List Nat)),
    pFuzzyOuter pt w enc key fuel node ret = some x →
    pFuzzyOuter pt w enc key (fuel + k) node ret = some x := by
  intro fuel
  induction fuel with
  | zero => intro node ret x hx; simp [pFuzzyOuter] at hx
  | succ fuel ih =>
    intro node ret x hx
    rw [show fuel + 1 + k = (fuel + k) + 1 by omega]
    unfold pFuzzyOuter at hx ⊢
    split
    · rename_i hc
      rw [if_pos hc] at hx
      split at hx
      · exact hx
      · split at hx
        · exact hx
        · simp only [] at hx ⊢
          split at hx
          · exact hx
          · split at hx
            · exact hx
            · exact ih _ _ _ hx
    · rename_i hc
      rw [if_neg hc] at hx
      exact hx

theorem pFuzzyOuter_sim {pt : PTrie} {t : Trie} {lbl : List Label} (h : Rep pt t lbl)
    (w : Int → Int) (enc : Int → List Nat) (key : List Nat) :
    ∀ (fuel node : Nat) (l : Label) (ret x : List (List Nat)),
      lbl[node]? = some l → fuzzyOuter t w enc key fuel l ret = some x →
      pFuzzyOuter pt w enc key fuel node ret = some x := by
  intro fuel
  induction fuel with
  | zero => intro node l ret x _ hx; simp [fuzzyOuter] at hx
  | succ fuel ih =>
    intro node l ret x hl hx
    unfold fuzzyOuter at hx
    unfold pFuzzyOuter
    by_cases hc : l ≠ []
    · have hc' : node ≠ 0 := (h.ne_zero_iff hl).2 hc
      rw [if_pos hc] at hx; rw [if_pos hc']
      obtain ⟨nd, hnd⟩ := h.node_get hl
      obtain ⟨hk, _, he, hs⟩ := h.kids node nd l hnd hl
      rw [hnd]; simp only []
      rw [he, hs]
      cases hsl : sliceInt? key ((key.length : Int) - sizeOf t.pats l) key.length with
      | none => rw [hsl] at hx; simp at hx
      | some suffix =>
        rw [hsl] at hx
        simp only [] at hx ⊢
        rw [hk] at hx; simp only [] at hx
        cases hdf : dfsLoop t w enc (nodeBound t.pats + 1) (pushFrames l 0 nd.vals []) suffix
            (if isEnd t.pats l = true then ret ++ [suffix] else ret) with
        | none => rw [hdf] at hx; simp at hx
        | some ret' =>
          rw [hdf] at hx
          rw [pDfs_start h w enc hl hnd _ _ _ hdf]
          simp only [] at hx ⊢
          cases hfo : t.failOf l with
          | none => rw [hfo] at hx; simp at hx
          | some m =>
            rw [hfo] at hx; simp only [] at hx
            rcases h.fail node nd l hnd hl with ⟨_, h2⟩ | ⟨f, lf, hf1, hf2, hf3⟩
            · rw [hfo] at h2; cases h2
            · rw [hfo] at hf3; cases hf3
              rw [hf1]; simp only []
              exact ih _ _ _ _ hf2 hx
    · have hc' : ¬ node ≠ 0 := fun hh => hc ((h.ne_zero_iff hl).1 hh)
      rw [if_neg hc] at hx; rw [if_neg hc']
      exact hx

/-! ### PrefixSearch / FuzzySearch -/

theorem pPrefixSearchWith_sim {pt : PTrie} {t : Trie} {lbl : List Label} (h : Rep pt t lbl)
    (dec : List Nat → Step) (w : Int → Int) (enc : Int → List Nat) (key : List Nat)
    (res : List (List Nat)) (hr : prefixSearchWith dec w enc t key = some res) :
    pPrefixSearchWith dec w enc pt key = some res := by
  unfold prefixSearchWith at hr
  unfold pPrefixSearchWith
  cases hd : descend t (decodeAllWith dec key) [] with
  | none => rw [hd] at hr; simp at hr
  | some dres =>
    obtain ⟨pres, hp, hrel⟩ := pDescend_sim h _ _ _ _ h.root hd
    rw [hd] at hr; rw [hp]
    rcases hrel with ⟨rfl, rfl⟩ | ⟨node, l, rfl, rfl, hl⟩
    · exact hr
    · simp only [] at hr ⊢
      obtain ⟨nd, hnd⟩ := h.node_get hl
      obtain ⟨hk, _, he, _⟩ := h.kids node nd l hnd hl
      rw [hnd]; simp only []
      rw [hk] at hr
      rw [he]
      cases hch : nd.children with
      | nil =>
        have hv : nd.vals = [] := by simp [PNode.vals, hch]
        rw [hv] at hr
        exact hr
      | cons ch chs =>
        have hv : nd.vals = ch.1 :: chs.map (·.1) := by simp [PNode.vals, hch]
        rw [hv] at hr
        simp only [] at hr ⊢
        rw [← hv] at hr
        rw [← hch]
        exact pDfs_start h w enc hl hnd _ _ _ hr

theorem pFuzzySearchWith_sim {pt : PTrie} {t : Trie} {lbl : List Label} (h : Rep pt t lbl)
    (dec : List Nat → Step) (w : Int → Int) (enc : Int → List Nat) (key : List Nat)
    (res : List (List Nat)) (hr : fuzzySearchWith dec w enc t key = some res) :
    pFuzzySearchWith dec w enc pt key = some res := by
  unfold fuzzySearchWith at hr
  unfold pFuzzySearchWith
  by_cases hke : key.isEmpty = true
  · rw [if_pos hke] at hr ⊢
    exact pPrefixSearchWith_sim h dec w enc key res hr
  · rw [if_neg hke] at hr ⊢
    cases hd : fuzzyDescend t (decodeAllWith dec key) [] with
    | none => rw [hd] at hr; simp at hr
    | some dres =>
      obtain ⟨pres, hp, hrel⟩ := pFuzzyDescend_sim h _ _ _ _ h.root hd
      rw [hd] at hr; rw [hp]
      rcases hrel with ⟨rfl, rfl⟩ | ⟨node, l, rfl, rfl, hl⟩
      · exact hr
      · simp only [] at hr ⊢
        obtain ⟨nd, hnd⟩ := h.node_get hl
        obtain ⟨hk, _, he, hs⟩ := h.kids node nd l hnd hl
        rw [hnd]; simp only []
        rw [hk] at hr; simp only [] at hr
        have hemp : nd.vals.isEmpty = nd.children.isEmpty := by simp [PNode.vals]
        have hfail : (t.failOf l = some []) ↔ (nd.fail = some 0) := by
          rcases h.fail node nd l hnd hl with ⟨h1, h2⟩ | ⟨f, lf, hf1, hf2, hf3⟩
          · rw [h1, h2]; simp
          · rw [hf1, hf3]
            simp only [Option.some.injEq]
            have := h.ne_zero_iff hf2
            constructor
            · intro e; exact Decidable.byContradiction fun hne => (this.1 hne) e
            · intro e; exact Decidable.byContradiction fun hne => (this.2 hne) e
        rw [he, hs]
        by_cases hcond : nd.vals.isEmpty = true ∧ t.failOf l = some []
        · have hcond' : nd.children.isEmpty = true ∧ nd.fail = some 0 :=
            ⟨hemp ▸ hcond.1, hfail.1 hcond.2⟩
          rw [if_pos hcond] at hr; rw [if_pos hcond']
          exact hr
        · have hcond' : ¬ (nd.children.isEmpty = true ∧ nd.fail = some 0) :=
            fun hh => hcond ⟨hemp ▸ hh.1, hfail.2 hh.2⟩
          rw [if_neg hcond] at hr; rw [if_neg hcond']
          have h1 := pFuzzyOuter_sim h w enc key _ _ _ _ _ hl hr
          have hb := h.depth_lt (List.mem_of_getElem? hl)
          have := pFuzzyOuter_mono pt w enc key (pt.nodes.length - l.length) _ _ _ _ h1
          rw [show l.length + 1 + (pt.nodes.length - l.length) = pt.nodes.length + 1 by omega] at this
          exact this

/-- `PrefixSearch`: the pointer-level function returns what the label-level one returns. -/
theorem pprefix_api (pt : PTrie) (t : Trie) (lbl : List Label) (h : Rep pt t lbl) (key : List Nat)
    (res : List (List Nat)) (hr : t.prefixSearch key = some res) : pt.prefixSearch key = some res :=
  pPrefixSearchWith_sim h decodeStep runeWidth writeRune key res hr

/-- `FuzzySearch`: the pointer-level function returns what the label-level one returns. -/
theorem pfuzzy_api (pt : PTrie) (t : Trie) (lbl : List Label) (h : Rep pt t lbl) (key : List Nat)
    (res : List (List Nat)) (hr : t.fuzzySearch key = some res) : pt.fuzzySearch key = some res :=
  pFuzzySearchWith_sim h decodeStep runeWidth writeRune key res hr

end Golib.C05
