/-
Helper lemmas for the `ParseUint` model (`Golib/Model/C15Parse.lean`). Core only.
-/
import Golib.Model.C15Parse

namespace Golib.C15

/-! ### specification vocabulary -/

/-- Value of a digit character (0 for a non-digit; only used under `ValidDigits`). -/
def digitOf (c : Nat) : Nat := (digit? c).getD 0

/-- Horner value of a digit string starting from the accumulator `n`. -/
def valAcc (base n : Nat) (s : List Nat) : Nat := s.foldl (fun n c => n * base + digitOf c) n

/-- The natural number a numeral denotes in `base` (most significant digit first). -/
def natValue (base : Nat) (s : List Nat) : Nat := valAcc base 0 s

/-- Every character is a digit (`0-9`, `a-z`, `A-Z`) of value `< base`. -/
def ValidDigits (base : Nat) (s : List Nat) : Prop := ∀ c ∈ s, ∃ d, digit? c = some d ∧ d < base

/-- The digit switch (`'0'..'9'`, then `'a' <= lower(c) <= 'z'` with `lower(c) = c|32`) recognises
exactly `0-9`, `a-z`, `A-Z` with the usual values — all 256 bytes, kernel evaluation. -/
theorem digit?_classes : ∀ c, c < 256 →
    digit? c =
      if 48 ≤ c ∧ c ≤ 57 then some (c - 48)          -- '0'..'9'
      else if 97 ≤ c ∧ c ≤ 122 then some (c - 87)    -- 'a'..'z'
      else if 65 ≤ c ∧ c ≤ 90 then some (c - 55)     -- 'A'..'Z'
      else none := by
  decide +kernel

theorem natValue_nil (base : Nat) : natValue base [] = 0 := rfl

/-- `natValue` is positional notation: appending a digit multiplies by the base and adds it. -/
theorem natValue_snoc (base : Nat) (s : List Nat) (c : Nat) :
    natValue base (s ++ [c]) = natValue base s * base + digitOf c := by
  simp [natValue, valAcc, List.foldl_append]

/-! ### the two overflow tests -/

theorem maxValOf_eq : ∀ bits, bits < 65 → maxValOf bits = 2 ^ bits - 1 := by decide

theorem maxValOf_lt (bits : Nat) : maxValOf bits < two64 := by
  unfold maxValOf two64; omega

theorem cutoff_iff (base n : Nat) (hb : 0 < base) : n ≥ cutoffOf base ↔ n * base ≥ two64 := by
  unfold cutoffOf maxUint64 two64
  have := Nat.div_lt_iff_lt_mul (x := 2^64 - 1) (y := n) hb
  omega

/-- The overflow tests of one loop iteration, as coded. -/
def overflowTest (base maxVal n d : Nat) : Prop :=
  n ≥ cutoffOf base ∨ ((n * base) % two64 + d) % two64 < (n * base) % two64 ∨
    ((n * base) % two64 + d) % two64 > maxVal

instance (base maxVal n d : Nat) : Decidable (overflowTest base maxVal n d) := by
  unfold overflowTest; infer_instance

/-- Either the tests fire and `n·base + d` really exceeds `maxVal`, or they do not fire, no
wrap-around happened and the new accumulator is the exact value. -/
theorem step_cases (base M n d : Nat) (hb : 0 < base) (hM : M < two64) (hd : d < two64) :
    (overflowTest base M n d ∧ n * base + d > M) ∨
    (¬ overflowTest base M n d ∧
      ((n * base) % two64 + d) % two64 = n * base + d ∧ n * base + d ≤ M) := by
  unfold overflowTest
  rw [cutoff_iff base n hb]
  generalize n * base = p
  unfold two64 at *
  omega

theorem overflowTest_iff (base M n d : Nat) (hb : 0 < base) (hM : M < two64) (hd : d < two64) :
    overflowTest base M n d ↔ n * base + d > M := by
  rcases step_cases base M n d hb hM hd with ⟨h1, h2⟩ | ⟨h1, _, h3⟩
  · exact ⟨fun _ => h2, fun _ => h1⟩
  · exact ⟨fun h => absurd h h1, fun h => by omega⟩

/-! ### the digit loop on valid digits -/

theorem valAcc_ge (base : Nat) (hb : 0 < base) : ∀ (s : List Nat) (n : Nat), n ≤ valAcc base n s := by
  intro s
  induction s with
  | nil => intro n; exact Nat.le_refl _
  | cons c rest ih =>
    intro n
    have h1 : n ≤ n * base + digitOf c :=
      Nat.le_trans (Nat.le_mul_of_pos_right n hb) (Nat.le_add_right _ _)
    exact Nat.le_trans h1 (ih _)

theorem digit?_95 : digit? 95 = none := by decide

/-- `s` without its underscores (what the digit loop accumulates when `base == 0`). -/
def stripUnderscores (s : List Nat) : List Nat := s.filter (· != 95)

/-- Characters the loop passes over without a syntax error: an underscore when
`base == 0`, or a digit of value `< base`. -/
def LoopOK (b0 : Bool) (base : Nat) (s : List Nat) : Prop :=
  ∀ c ∈ s, (c = 95 ∧ b0 = true) ∨ ∃ d, digit? c = some d ∧ d < base

theorem ValidDigits.loopOK {base : Nat} {s : List Nat} (b0 : Bool) (h : ValidDigits base s) :
    LoopOK b0 base s := fun c hc => Or.inr (h c hc)

theorem ValidDigits.no_underscore {base : Nat} {s : List Nat} (h : ValidDigits base s) :
    s.contains 95 = false ∧ stripUnderscores s = s := by
  have hne : ∀ c ∈ s, c ≠ 95 := by
    intro c hc e
    obtain ⟨d, hd, _⟩ := h c hc
    subst e; rw [digit?_95] at hd; cases hd
  constructor
  · cases hcon : s.contains 95 with
    | false => rfl
    | true =>
      rw [List.contains_iff_mem] at hcon
      exact absurd rfl (hne 95 hcon)
  · unfold stripUnderscores
    rw [List.filter_eq_self]
    intro c hc
    simp only [bne_iff_ne, ne_eq]
    exact hne c hc

/-- The loop over an accepted prefix: range error iff the accumulated value exceeds
`maxVal` (no wrap-around goes unnoticed), otherwise it continues on the rest with the exact
value and the `underscores` flag updated. -/
theorem loop_prefix (b0 : Bool) (base M : Nat) (hb : 2 ≤ base) (hb' : base ≤ 36) (hM : M < two64)
    (rest : List Nat) :
    ∀ (pre : List Nat) (n : Nat) (us : Bool), n ≤ M → LoopOK b0 base pre →
      loop b0 base (cutoffOf base) M (pre ++ rest) n us =
        if valAcc base n (stripUnderscores pre) ≤ M then
          loop b0 base (cutoffOf base) M rest (valAcc base n (stripUnderscores pre))
            (us || pre.contains 95)
        else .rangeErr := by
  intro pre
  induction pre with
  | nil =>
    intro n us hn _
    simp only [List.nil_append, stripUnderscores, List.filter_nil, valAcc, List.foldl_nil, hn,
      if_true, List.contains_nil, Bool.or_false]
  | cons c pre ih =>
    intro n us hn hv
    have hv' : LoopOK b0 base pre := fun x hx => hv x (List.mem_cons_of_mem _ hx)
    rcases hv c List.mem_cons_self with ⟨hc, hb0⟩ | ⟨d, hd, hdb⟩
    · subst hc; subst hb0
      have hs : stripUnderscores (95 :: pre) = stripUnderscores pre := by
        simp [stripUnderscores]
      simp only [List.cons_append, loop, and_self, if_true, hs]
      rw [ih n true hn hv']
      simp
    · have hc : c ≠ 95 := by
        intro h; subst h; rw [digit?_95] at hd; cases hd
      have hmod : base % 256 = base := by omega
      have hdo : digitOf c = d := by simp only [digitOf, hd, Option.getD_some]
      have hs : stripUnderscores (c :: pre) = c :: stripUnderscores pre := by
        simp [stripUnderscores, hc]
      have hval : valAcc base n (c :: stripUnderscores pre) =
          valAcc base (n * base + d) (stripUnderscores pre) := by
        simp only [valAcc, List.foldl_cons, hdo]
      have hnd : ¬ d ≥ base := by omega
      have hcon : (c :: pre).contains 95 = pre.contains 95 := by
        simp only [List.contains_cons, Bool.or_eq_right_iff_imp, beq_iff_eq]
        intro e; exact absurd e.symm hc
      rw [hs, hval, hcon]
      simp only [List.cons_append, loop, hc, false_and, if_false, hd, hmod, hnd]
      rcases step_cases base M n d (by omega) hM (by unfold two64; omega) with ⟨h1, h2⟩ | ⟨h1, h2, h3⟩
      · have hge := valAcc_ge base (by omega) (stripUnderscores pre) (n * base + d)
        have : ¬ valAcc base (n * base + d) (stripUnderscores pre) ≤ M := by omega
        simp only [this, if_false]
        unfold overflowTest at h1
        rcases h1 with h | h
        · simp only [h, if_true]
        · by_cases hcut : n ≥ cutoffOf base
          · simp only [hcut, if_true]
          · simp only [hcut, if_false, h, if_true]
      · unfold overflowTest at h1
        have hcut : ¬ n ≥ cutoffOf base := fun h => h1 (Or.inl h)
        have hov : ¬ (((n * base) % two64 + d) % two64 < (n * base) % two64 ∨
            ((n * base) % two64 + d) % two64 > M) := fun h => h1 (Or.inr h)
        simp only [hcut, if_false, hov]
        rw [h2]
        exact ih (n * base + d) us h3 hv'

theorem loop_valid (b0 : Bool) (base M : Nat) (hb : 2 ≤ base) (hb' : base ≤ 36) (hM : M < two64)
    (s : List Nat) (n : Nat) (us : Bool) (hn : n ≤ M) (hv : ValidDigits base s) :
    loop b0 base (cutoffOf base) M s n us =
      if valAcc base n s ≤ M then .done (valAcc base n s) us else .rangeErr := by
  have h := loop_prefix b0 base M hb hb' hM [] s n us hn (hv.loopOK b0)
  rw [List.append_nil, hv.no_underscore.1, hv.no_underscore.2] at h
  rw [h]
  simp only [loop, Bool.or_false]

/-- Effective bit size: `bitSize == 0` means `typez.WordBits` (= 64). -/
def effBits (bits : Nat) : Nat := if bits = 0 then 64 else bits

/-- What `ParseUint` does after the argument checks, for a given effective base/body. -/
def finish (s : List Nat) (M : Nat) : LoopRes → Nat × PErr
  | .syntaxErr => (0, .syntax)
  | .rangeErr => (M, .range)
  | .done n us => if us ∧ ¬ underscoreOK s then (0, .syntax) else (n, .ok)

theorem maxVal_effBits (bits : Nat) (hbits : bits ≤ 64) :
    maxValOf (if bits = 0 then wordBits else bits) = 2 ^ effBits bits - 1 := by
  unfold effBits wordBits
  by_cases hz : bits = 0
  · simp only [hz, if_true]; exact maxValOf_eq 64 (by omega)
  · simp only [hz, if_false]; exact maxValOf_eq bits (by omega)

theorem parseUint_unfold_explicit (s : List Nat) (base bits : Nat)
    (hb : 2 ≤ base) (hb' : base ≤ 36) (hbits : bits ≤ 64) (hne : s ≠ []) :
    parseUint s (base : Int) (bits : Int) =
      finish s (2 ^ effBits bits - 1)
        (loop false base (cutoffOf base) (2 ^ effBits bits - 1) s 0 false) := by
  have hse : s.isEmpty = false := by cases s <;> simp_all
  have h1 : (2 : Int) ≤ (base : Int) ∧ (base : Int) ≤ 36 := by omega
  have hb0 : ((base : Int) == 0) = false := by
    simp only [beq_eq_false_iff_ne, ne_eq]; omega
  have hm := maxVal_effBits bits hbits
  unfold parseUint
  simp only [hse, Bool.false_eq_true, if_false, h1, and_self, if_true, hb0, Int.toNat_natCast]
  by_cases hz : bits = 0
  · subst hz
    simp only [if_true] at hm
    simp only [Int.natCast_zero, if_true, hm]
    cases loop false base (cutoffOf base) (2 ^ effBits 0 - 1) s 0 false <;> simp [finish]
  · have hz' : ¬ ((bits : Int) = 0) := by omega
    have hr : ¬ ((bits : Int) < 0 ∨ (bits : Int) > 64) := by omega
    simp only [hz, if_false] at hm
    simp only [hz', if_false, hr, hm]
    cases loop false base (cutoffOf base) (2 ^ effBits bits - 1) s 0 false <;> simp [finish]

theorem parseUint_unfold_base0 (s : List Nat) (bits : Nat) (hbits : bits ≤ 64) (hne : s ≠ []) :
    parseUint s 0 (bits : Int) =
      finish s (2 ^ effBits bits - 1)
        (loop true (base0Prefix s).1 (cutoffOf (base0Prefix s).1) (2 ^ effBits bits - 1)
          (base0Prefix s).2 0 false) := by
  have hse : s.isEmpty = false := by cases s <;> simp_all
  have hm := maxVal_effBits bits hbits
  unfold parseUint
  have h1 : ¬ ((2 : Int) ≤ 0 ∧ (0 : Int) ≤ 36) := by omega
  simp only [hse, Bool.false_eq_true, if_false, h1, if_true, BEq.rfl]
  by_cases hz : bits = 0
  · subst hz
    simp only [if_true] at hm
    simp only [Int.natCast_zero, if_true, hm]
    cases loop true (base0Prefix s).1 (cutoffOf (base0Prefix s).1) (2 ^ effBits 0 - 1)
      (base0Prefix s).2 0 false <;> simp [finish]
  · have hz' : ¬ ((bits : Int) = 0) := by omega
    have hr : ¬ ((bits : Int) < 0 ∨ (bits : Int) > 64) := by omega
    simp only [hz, if_false] at hm
    simp only [hz', if_false, hr, Int.toNat_natCast, hm]
    cases loop true (base0Prefix s).1 (cutoffOf (base0Prefix s).1) (2 ^ effBits bits - 1)
      (base0Prefix s).2 0 false <;> simp [finish]

theorem pow_effBits_lt (bits : Nat) (hbits : bits ≤ 64) : 2 ^ effBits bits - 1 < two64 := by
  rw [← maxVal_effBits bits hbits]; exact maxValOf_lt _

theorem parseUint_explicit_base (s : List Nat) (base bits : Nat)
    (hb : 2 ≤ base) (hb' : base ≤ 36) (hbits : bits ≤ 64) (hne : s ≠ []) (hv : ValidDigits base s) :
    parseUint s (base : Int) (bits : Int) =
      if natValue base s ≤ 2 ^ effBits bits - 1 then (natValue base s, .ok)
      else (2 ^ effBits bits - 1, .range) := by
  rw [parseUint_unfold_explicit s base bits hb hb' hbits hne,
    loop_valid false base _ hb hb' (pow_effBits_lt bits hbits) s 0 false (Nat.zero_le _) hv]
  unfold natValue
  by_cases hle : valAcc base 0 s ≤ 2 ^ effBits bits - 1 <;> simp [hle, finish]

/-- A character that is neither an underscore under `base == 0` nor a digit `< base`. -/
def BadChar (b0 : Bool) (base c : Nat) : Prop :=
  ¬ (c = 95 ∧ b0 = true) ∧ ∀ d, digit? c = some d → base ≤ d

theorem loop_badChar (b0 : Bool) (base cutoff M c : Nat) (rest : List Nat) (n : Nat) (us : Bool)
    (hb' : base ≤ 36) (hc : BadChar b0 base c) :
    loop b0 base cutoff M (c :: rest) n us = .syntaxErr := by
  have hmod : base % 256 = base := by omega
  simp only [loop, hc.1, if_false, hmod]
  cases hd : digit? c with
  | none => rfl
  | some d =>
    have := hc.2 d hd
    simp only [ge_iff_le, this, if_true]

theorem parseUint_explicit_syntax (pre post : List Nat) (c base bits : Nat)
    (hb : 2 ≤ base) (hb' : base ≤ 36) (hbits : bits ≤ 64)
    (hv : ValidDigits base pre) (hc : BadChar false base c) :
    parseUint (pre ++ c :: post) (base : Int) (bits : Int) =
      if natValue base pre ≤ 2 ^ effBits bits - 1 then (0, .syntax)
      else (2 ^ effBits bits - 1, .range) := by
  rw [parseUint_unfold_explicit _ base bits hb hb' hbits (by simp),
    loop_prefix false base _ hb hb' (pow_effBits_lt bits hbits) (c :: post) pre 0 false
      (Nat.zero_le _) (hv.loopOK false),
    hv.no_underscore.2, loop_badChar false base _ _ c post _ _ hb' hc]
  unfold natValue
  by_cases hle : valAcc base 0 pre ≤ 2 ^ effBits bits - 1 <;> simp [hle, finish]

theorem base0Prefix_base (s : List Nat) :
    2 ≤ (base0Prefix s).1 ∧ (base0Prefix s).1 ≤ 36 := by
  unfold base0Prefix
  split
  · split
    · simp
    · split
      · simp
      · split <;> simp
  · simp
  · simp

theorem loopOK_of_strip (base : Nat) (body : List Nat) (hv : ValidDigits base (stripUnderscores body)) :
    LoopOK true base body := by
  intro c hc
  by_cases h : c = 95
  · exact Or.inl ⟨h, rfl⟩
  · refine Or.inr (hv c ?_)
    simp only [stripUnderscores, List.mem_filter, bne_iff_ne, ne_eq]
    exact ⟨hc, h⟩

theorem parseUint_base0 (s : List Nat) (bits : Nat) (hbits : bits ≤ 64) (hne : s ≠ [])
    (hv : ValidDigits (base0Prefix s).1 (stripUnderscores (base0Prefix s).2)) :
    parseUint s 0 (bits : Int) =
      if natValue (base0Prefix s).1 (stripUnderscores (base0Prefix s).2) ≤ 2 ^ effBits bits - 1 then
        if (base0Prefix s).2.contains 95 = true ∧ underscoreOK s = false then (0, .syntax)
        else (natValue (base0Prefix s).1 (stripUnderscores (base0Prefix s).2), .ok)
      else (2 ^ effBits bits - 1, .range) := by
  have hb := base0Prefix_base s
  have h := loop_prefix true (base0Prefix s).1 _ hb.1 hb.2 (pow_effBits_lt bits hbits) []
    (base0Prefix s).2 0 false (Nat.zero_le _) (loopOK_of_strip _ _ hv)
  rw [List.append_nil] at h
  rw [parseUint_unfold_base0 s bits hbits hne, h]
  unfold natValue
  by_cases hle : valAcc (base0Prefix s).1 0 (stripUnderscores (base0Prefix s).2) ≤ 2 ^ effBits bits - 1
  · simp [hle, finish, loop]
  · simp [hle, finish]

theorem parseUint_base0_syntax (s pre post : List Nat) (c bits : Nat) (hbits : bits ≤ 64)
    (hbody : (base0Prefix s).2 = pre ++ c :: post)
    (hv : ValidDigits (base0Prefix s).1 (stripUnderscores pre))
    (hc : BadChar true (base0Prefix s).1 c) :
    parseUint s 0 (bits : Int) =
      if natValue (base0Prefix s).1 (stripUnderscores pre) ≤ 2 ^ effBits bits - 1 then (0, .syntax)
      else (2 ^ effBits bits - 1, .range) := by
  have hb := base0Prefix_base s
  have hne : s ≠ [] := by
    intro e; subst e; simp [base0Prefix] at hbody
  rw [parseUint_unfold_base0 s bits hbits hne, hbody,
    loop_prefix true (base0Prefix s).1 _ hb.1 hb.2 (pow_effBits_lt bits hbits) (c :: post) pre 0 false
      (Nat.zero_le _) (loopOK_of_strip _ _ hv),
    loop_badChar true _ _ _ c post _ _ hb.2 hc]
  unfold natValue
  by_cases hle : valAcc (base0Prefix s).1 0 (stripUnderscores pre) ≤ 2 ^ effBits bits - 1 <;>
    simp [hle, finish]

/-! ### complete characterisation -/

/-- `c` is a digit of value `< base`. -/
def okDigit (base c : Nat) : Bool :=
  match digit? c with
  | some d => d < base
  | none => false

/-- `c` is acceptable to the loop under `base == 0`: an underscore or a digit `< base`. -/
def okChar0 (base c : Nat) : Bool := c == 95 || okDigit base c

theorem dropWhile_head_false (p : Nat → Bool) : ∀ l : List Nat, ∀ c post,
    l.dropWhile p = c :: post → p c = false := by
  intro l
  induction l with
  | nil => intro c post h; simp at h
  | cons a l ih =>
    intro c post h
    by_cases ha : p a = true
    · simp only [List.dropWhile_cons, ha, if_true] at h
      exact ih c post h
    · have ha' : p a = false := by simpa using ha
      simp only [List.dropWhile_cons, ha', Bool.false_eq_true, if_false, List.cons.injEq] at h
      rw [← h.1]; exact ha'

theorem takeWhile_all (p : Nat → Bool) : ∀ (l : List Nat), ∀ c ∈ l.takeWhile p, p c = true := by
  intro l
  induction l with
  | nil => intro c hc; simp at hc
  | cons a l ih =>
    intro c hc
    by_cases ha : p a = true
    · simp only [List.takeWhile_cons, ha, if_true, List.mem_cons] at hc
      rcases hc with rfl | hc
      · exact ha
      · exact ih c hc
    · have ha' : p a = false := by simpa using ha
      simp [ha'] at hc

theorem okDigit_valid {base : Nat} {l : List Nat} (h : ∀ c ∈ l, okDigit base c = true) :
    ValidDigits base l := by
  intro c hc
  have := h c hc
  unfold okDigit at this
  cases hd : digit? c with
  | none => simp [hd] at this
  | some d => exact ⟨d, rfl, by simpa [hd] using this⟩

theorem badChar_of_not_okDigit {base c : Nat} (h : okDigit base c = false) : BadChar false base c := by
  refine ⟨by simp, ?_⟩
  intro d hd
  simp only [okDigit, hd, decide_eq_false_iff_not, Nat.not_lt] at h
  exact h

theorem badChar_of_not_okChar0 {base c : Nat} (h : okChar0 base c = false) : BadChar true base c := by
  simp only [okChar0, Bool.or_eq_false_iff, beq_eq_false_iff_ne, ne_eq] at h
  refine ⟨by simp [h.1], ?_⟩
  intro d hd
  have h2 := h.2
  simp only [okDigit, hd, decide_eq_false_iff_not, Nat.not_lt] at h2
  exact h2

theorem parseUint_total_explicit (s : List Nat) (base bits : Nat)
    (hb : 2 ≤ base) (hb' : base ≤ 36) (hbits : bits ≤ 64) (hne : s ≠ []) :
    parseUint s (base : Int) (bits : Int) =
      if natValue base (s.takeWhile (okDigit base)) ≤ 2 ^ effBits bits - 1 then
        if (s.takeWhile (okDigit base)).length < s.length then (0, .syntax)
        else (natValue base s, .ok)
      else (2 ^ effBits bits - 1, .range) := by
  have hsplit := List.takeWhile_append_dropWhile (p := okDigit base) (l := s)
  have hv := okDigit_valid (takeWhile_all (okDigit base) s)
  cases hdw : s.dropWhile (okDigit base) with
  | nil =>
    rw [hdw, List.append_nil] at hsplit
    rw [hsplit] at hv ⊢
    rw [parseUint_explicit_base s base bits hb hb' hbits hne hv]
    simp
  | cons c post =>
    have hc := badChar_of_not_okDigit (dropWhile_head_false _ s c post hdw)
    rw [hdw] at hsplit
    have hlen : (s.takeWhile (okDigit base)).length < s.length := by
      have := congrArg List.length hsplit
      simp only [List.length_append, List.length_cons] at this
      omega
    conv => lhs; rw [← hsplit]
    rw [parseUint_explicit_syntax _ post c base bits hb hb' hbits hv hc]
    simp [hlen]

theorem parseUint_total_base0 (s : List Nat) (bits : Nat) (hbits : bits ≤ 64) (hne : s ≠ []) :
    parseUint s 0 (bits : Int) =
      let b := (base0Prefix s).1
      let body := (base0Prefix s).2
      let pre := body.takeWhile (okChar0 b)
      if natValue b (stripUnderscores pre) ≤ 2 ^ effBits bits - 1 then
        if pre.length < body.length then (0, .syntax)
        else if body.contains 95 = true ∧ underscoreOK s = false then (0, .syntax)
        else (natValue b (stripUnderscores body), .ok)
      else (2 ^ effBits bits - 1, .range) := by
  simp only []
  have hsplit := List.takeWhile_append_dropWhile (p := okChar0 (base0Prefix s).1) (l := (base0Prefix s).2)
  have hall := takeWhile_all (okChar0 (base0Prefix s).1) (base0Prefix s).2
  have hv : ValidDigits (base0Prefix s).1
      (stripUnderscores ((base0Prefix s).2.takeWhile (okChar0 (base0Prefix s).1))) := by
    apply okDigit_valid
    intro c hc
    simp only [stripUnderscores, List.mem_filter, bne_iff_ne, ne_eq] at hc
    have := hall c hc.1
    simp only [okChar0, Bool.or_eq_true, beq_iff_eq] at this
    rcases this with h | h
    · exact absurd h hc.2
    · exact h
  cases hdw : (base0Prefix s).2.dropWhile (okChar0 (base0Prefix s).1) with
  | nil =>
    rw [hdw, List.append_nil] at hsplit
    rw [hsplit] at hv ⊢
    rw [parseUint_base0 s bits hbits hne hv]
    simp
  | cons c post =>
    have hc := badChar_of_not_okChar0 (dropWhile_head_false _ _ c post hdw)
    rw [hdw] at hsplit
    have hlen : ((base0Prefix s).2.takeWhile (okChar0 (base0Prefix s).1)).length < (base0Prefix s).2.length := by
      have := congrArg List.length hsplit
      simp only [List.length_append, List.length_cons] at this
      omega
    rw [parseUint_base0_syntax s _ post c bits hbits hsplit.symm hv hc]
    simp [hlen]

/-! ### argument checks -/

theorem parseUint_empty (base bits : Int) : parseUint [] base bits = (0, .syntax) := by
  simp [parseUint]

theorem parseUint_bad_base (s : List Nat) (base bits : Int) (hne : s ≠ [])
    (hb : ¬ (2 ≤ base ∧ base ≤ 36)) (hb0 : base ≠ 0) : parseUint s base bits = (0, .base) := by
  have hse : s.isEmpty = false := by cases s <;> simp_all
  simp only [parseUint, hse, Bool.false_eq_true, if_false, hb, hb0]

theorem parseUint_bad_bitSize (s : List Nat) (base bits : Int) (hne : s ≠ [])
    (hb : (2 ≤ base ∧ base ≤ 36) ∨ base = 0) (hbits : bits < 0 ∨ bits > 64) :
    parseUint s base bits = (0, .bitSize) := by
  have hse : s.isEmpty = false := by cases s <;> simp_all
  have hz : ¬ bits = 0 := by omega
  rcases hb with hb | hb
  · simp only [parseUint, hse, Bool.false_eq_true, if_false, hb, and_self, if_true, hz, hbits]
  · subst hb
    have h1 : ¬ ((2 : Int) ≤ 0 ∧ (0 : Int) ≤ 36) := by omega
    simp only [parseUint, hse, Bool.false_eq_true, if_false, h1, if_true, hz, hbits]

end Golib.C15
