/-
C05: self-synchronisation of the (repaired) trie decoder.  A valid sequence is recognised
from its own bytes, the first byte of a valid step is never a continuation byte, hence an
occurrence of a valid-UTF-8 byte string inside arbitrary bytes is decoded as that string's
own steps, starting at a step boundary.  Also: every window of consecutive steps is the
decoding of the bytes it spans.
-/
import Golib.Proof.C05Decode
namespace Golib.C05
open Golib

/-! ### (i) a valid sequence is recognised from its own bytes -/

theorem decodeRune_stable (c : Nat) (cs t : List Nat) (r : Int) (w : Nat) (hc : c < 256)
    (h : Utf8.decodeRune (c :: cs) = (r, w)) (hne : ¬ (r = Utf8.runeError ∧ w = 1)) :
    Utf8.decodeRune (c :: (cs.take (w - 1) ++ t)) = (r, w) := by
  rcases leader_cases c hc with ⟨hl, _⟩ | ⟨_, lo, hi, hl⟩ | ⟨_, _, hl⟩ | ⟨_, _, lo, hi, hl, _⟩ |
      ⟨_, _, lo, hi, hl, _⟩
  · simp only [Utf8.decodeRune, hl, Prod.mk.injEq] at h
    exact absurd ⟨h.1.symm, h.2.symm⟩ hne
  · simp only [Utf8.decodeRune, hl] at h ⊢; exact h
  · match cs, h with
    | [], h =>
      simp only [Utf8.decodeRune, hl, Prod.mk.injEq] at h
      exact absurd ⟨h.1.symm, h.2.symm⟩ hne
    | b1 :: cs, h =>
      by_cases hr : 0x80 ≤ b1 ∧ b1 ≤ 0xBF
      · simp only [Utf8.decodeRune, hl, hr, and_self, if_true, Prod.mk.injEq] at h
        obtain ⟨h1, h2⟩ := h
        subst h2
        simp only [Nat.add_one_sub_one, List.take_succ_cons, List.take_zero, List.cons_append,
          List.nil_append, Utf8.decodeRune, hl, hr, and_self, if_true, Prod.mk.injEq, and_true]
        exact h1
      · simp only [Utf8.decodeRune, hl, hr, if_false, Prod.mk.injEq] at h
        exact absurd ⟨h.1.symm, h.2.symm⟩ hne
  · match cs, h with
    | [], h =>
      simp only [Utf8.decodeRune, hl, Prod.mk.injEq] at h
      exact absurd ⟨h.1.symm, h.2.symm⟩ hne
    | [_], h =>
      simp only [Utf8.decodeRune, hl, Prod.mk.injEq] at h
      exact absurd ⟨h.1.symm, h.2.symm⟩ hne
    | b1 :: b2 :: cs, h =>
      by_cases hr : lo ≤ b1 ∧ b1 ≤ hi ∧ Utf8.isCont b2 = true
      · simp only [Utf8.decodeRune, hl, hr, and_self, if_true, Prod.mk.injEq] at h
        obtain ⟨h1, h2⟩ := h
        subst h2
        simp only [Nat.add_one_sub_one, List.take_succ_cons, List.take_zero, List.cons_append,
          List.nil_append, Utf8.decodeRune, hl, hr, and_self, if_true, Prod.mk.injEq, and_true]
        exact h1
      · simp only [Utf8.decodeRune, hl, hr, if_false, Prod.mk.injEq] at h
        exact absurd ⟨h.1.symm, h.2.symm⟩ hne
  · match cs, h with
    | [], h =>
      simp only [Utf8.decodeRune, hl, Prod.mk.injEq] at h
      exact absurd ⟨h.1.symm, h.2.symm⟩ hne
    | [_], h =>
      simp only [Utf8.decodeRune, hl, Prod.mk.injEq] at h
      exact absurd ⟨h.1.symm, h.2.symm⟩ hne
    | [_, _], h =>
      simp only [Utf8.decodeRune, hl, Prod.mk.injEq] at h
      exact absurd ⟨h.1.symm, h.2.symm⟩ hne
    | b1 :: b2 :: b3 :: cs, h =>
      by_cases hr : lo ≤ b1 ∧ b1 ≤ hi ∧ Utf8.isCont b2 = true ∧ Utf8.isCont b3 = true
      · simp only [Utf8.decodeRune, hl, hr, and_self, if_true, Prod.mk.injEq] at h
        obtain ⟨h1, h2⟩ := h
        subst h2
        simp only [Nat.add_one_sub_one, List.take_succ_cons, List.take_zero, List.cons_append,
          List.nil_append, Utf8.decodeRune, hl, hr, and_self, if_true, Prod.mk.injEq, and_true]
        exact h1
      · simp only [Utf8.decodeRune, hl, hr, if_false, Prod.mk.injEq] at h
        exact absurd ⟨h.1.symm, h.2.symm⟩ hne

theorem decodeStep_stable (c : Nat) (cs t : List Nat) (r : Int) (w : Nat) (hc : c < 256)
    (h : decodeStep (c :: cs) = (r, w)) (hr : 0 ≤ r) :
    decodeStep (c :: (cs.take (w - 1) ++ t)) = (r, w) := by
  by_cases ha : c < 0x80
  · simp only [decodeStep, ha, if_true] at h ⊢; exact h
  · simp only [decodeStep, ha, if_false] at h ⊢
    by_cases hd : (Utf8.decodeRune (c :: cs)).1 = Utf8.runeError ∧ (Utf8.decodeRune (c :: cs)).2 = 1
    · rw [if_pos hd] at h
      simp only [Prod.mk.injEq] at h
      omega
    · rw [if_neg hd] at h
      rw [h] at hd
      have hs := decodeRune_stable c cs t r w hc h hd
      rw [hs, if_neg hd]

/-! ### (ii) a valid step does not start with a continuation byte -/

theorem decodeStep_first_not_cont (c : Nat) (cs : List Nat) (h : 0 ≤ (decodeStep (c :: cs)).1) :
    Utf8.isCont c = false := by
  by_cases ha : c < 0x80
  · simp only [Utf8.isCont, Bool.and_eq_false_iff, decide_eq_false_iff_not]; omega
  · by_cases hb : c ≤ 0xBF
    · exfalso
      have hl : Utf8.leader c = none := by
        unfold Utf8.leader
        rw [if_neg ha, if_pos (by omega)]
      simp only [decodeStep, ha, if_false, Utf8.decodeRune, hl, and_self, if_true] at h
      omega
    · simp only [Utf8.isCont, Bool.and_eq_false_iff, decide_eq_false_iff_not]; omega

theorem ValidUtf8.head_not_cont (c : Nat) (cs : List Nat) (hb : Bytes (c :: cs)) (hv : ValidUtf8 (c :: cs)) :
    Utf8.isCont c = false := by
  apply decodeStep_first_not_cont c cs
  apply hv
  rw [decodeAll_cons c cs hb]
  exact List.mem_cons_self

theorem ValidUtf8.drop_step (c : Nat) (cs : List Nat) (hb : Bytes (c :: cs)) (hv : ValidUtf8 (c :: cs)) :
    ValidUtf8 ((c :: cs).drop (decodeStep (c :: cs)).2) := by
  intro st hst
  apply hv
  rw [decodeAll_cons c cs hb]
  exact List.mem_cons_of_mem _ hst

/-! ### (iii) occurrence at the front -/

theorem decodeAll_append_valid (pb : List Nat) : ∀ (B : List Nat), Bytes (pb ++ B) → ValidUtf8 pb →
    decodeAll (pb ++ B) = decodeAll pb ++ decodeAll B := by
  induction hn : pb.length using Nat.strongRecOn generalizing pb with
  | _ n ih =>
    intro B hb hv
    cases pb with
    | nil => simp [decodeAll_nil]
    | cons c cs =>
      have hbp : Bytes (c :: cs) := hb.of_append_left
      have hc : c < 256 := hbp c (by simp)
      obtain ⟨h1, h2, _, _⟩ := decodeStep_spec c cs hbp
      have hr : 0 ≤ (decodeStep (c :: cs)).1 := by
        apply hv; rw [decodeAll_cons c cs hbp]; exact List.mem_cons_self
      generalize hst : decodeStep (c :: cs) = st at h1 h2 hr
      obtain ⟨r, w⟩ := st
      simp only [List.length_cons] at h1 h2 hr
      have hsplit : cs ++ B = cs.take (w - 1) ++ (cs.drop (w - 1) ++ B) := by
        rw [← List.append_assoc, List.take_append_drop]
      have hstep : decodeStep (c :: (cs ++ B)) = (r, w) := by
        rw [hsplit]; exact decodeStep_stable c cs _ r w hc hst hr
      have hb' : Bytes (c :: (cs ++ B)) := hb
      have hvd := ValidUtf8.drop_step c cs hbp hv
      rw [hst] at hvd
      simp only [] at hvd
      rw [List.cons_append, decodeAll_cons c (cs ++ B) hb', decodeAll_cons c cs hbp, hstep, hst]
      simp only [List.cons_append, List.cons.injEq, true_and]
      have hdrop : (c :: (cs ++ B)).drop w = (c :: cs).drop w ++ B := by
        rw [← List.cons_append, List.drop_append_of_le_length (by simp only [List.length_cons]; omega)]
      rw [hdrop]
      apply ih ((c :: cs).drop w).length _ _ rfl
      · rw [← hdrop]; exact hb'.drop w
      · exact hvd
      · subst hn; simp only [List.length_drop, List.length_cons]; omega

/-! ### (iv) occurrence anywhere -/

/-- A step that starts inside `A` ends inside `A` when `A` is followed by a byte that is not a
continuation byte. -/
theorem decodeStep_width_le_prefix (a : Nat) (A' : List Nat) (c : Nat) (T : List Nat)
    (hb : Bytes (a :: (A' ++ c :: T))) (hc : Utf8.isCont c = false) :
    (decodeStep (a :: (A' ++ c :: T))).2 ≤ A'.length + 1 := by
  rcases decodeStep_cases a (A' ++ c :: T) hb with ⟨_, h⟩ | ⟨_, h⟩ | ⟨_, r, w, h, _, _, _, _, _, h7⟩
  · rw [h]; simp
  · rw [h]; simp
  · rw [h]
    simp only []
    by_cases hw : w ≤ A'.length + 1
    · exact hw
    · exfalso
      have hmem : c ∈ (A' ++ c :: T).take (w - 1) := by
        apply List.mem_of_getElem? (i := A'.length)
        rw [List.getElem?_take, if_pos (by omega)]
        simp
      have := h7 c hmem
      rw [hc] at this
      exact Bool.false_ne_true this

/-- Alignment: an occurrence of a non-empty, valid-UTF-8 byte string `pb` inside arbitrary bytes is
decoded as the steps of `pb`, starting at a step boundary. -/
theorem decodeAll_occurrence (A pb B : List Nat) (hb : Bytes (A ++ pb ++ B)) (hv : ValidUtf8 pb) (hne : pb ≠ []) :
    ∃ X Y, decodeAll (A ++ pb ++ B) = X ++ decodeAll pb ++ Y ∧ (X.map (·.2)).sum = A.length := by
  induction hn : A.length using Nat.strongRecOn generalizing A with
  | _ n ih =>
    cases A with
    | nil =>
      refine ⟨[], decodeAll B, ?_, by subst hn; rfl⟩
      rw [List.nil_append, List.nil_append]
      exact decodeAll_append_valid pb B hb hv
    | cons a A' =>
      cases pb with
      | nil => exact absurd rfl hne
      | cons c cs =>
        have hbp : Bytes (c :: cs) := (Bytes.of_append_left hb).of_append_right
        have hc : Utf8.isCont c = false := ValidUtf8.head_not_cont c cs hbp hv
        have heq : a :: A' ++ c :: cs ++ B = a :: (A' ++ c :: (cs ++ B)) := by simp
        rw [heq] at hb ⊢
        have hw := decodeStep_width_le_prefix a A' c (cs ++ B) hb hc
        have hw1 := decodeStep_width_pos a _ hb
        rw [decodeAll_cons a _ hb]
        generalize decodeStep (a :: (A' ++ c :: (cs ++ B))) = st at hw hw1
        obtain ⟨r, w⟩ := st
        simp only [] at hw hw1 ⊢
        have hdrop : (a :: (A' ++ c :: (cs ++ B))).drop w = (a :: A').drop w ++ c :: cs ++ B := by
          rw [← List.cons_append, List.drop_append_of_le_length (by simp only [List.length_cons]; omega)]
          simp
        rw [hdrop]
        have hlen : ((a :: A').drop w).length < n := by
          subst hn; simp only [List.length_drop, List.length_cons]; omega
        obtain ⟨X, Y, h1, h2⟩ := ih _ hlen ((a :: A').drop w) (by rw [← hdrop]; exact hb.drop w) rfl
        refine ⟨(r, w) :: X, Y, ?_, ?_⟩
        · rw [h1]; simp
        · subst hn
          simp only [List.length_drop, List.length_cons] at h2
          simp only [List.map_cons, List.sum_cons, h2, List.length_cons]; omega

/-! ### (v) windows of steps -/

/-- Every window of consecutive steps is the decoding of the bytes it spans. -/
theorem decodeAll_split (bs : List Nat) (hb : Bytes bs) (X Y : List Step) (h : decodeAll bs = X ++ Y) :
    bs = encodeLabel (lab X) ++ encodeLabel (lab Y) ∧ (X.map (·.2)).sum = (encodeLabel (lab X)).length ∧
    decodeAll (encodeLabel (lab Y)) = Y := by
  induction X generalizing bs with
  | nil =>
    rw [List.nil_append] at h
    have he := decodeAll_encode bs hb
    rw [h] at he
    refine ⟨by simpa [lab, encodeLabel_nil] using he.symm, rfl, ?_⟩
    rw [he]; exact h
  | cons st X ih =>
    cases bs with
    | nil => rw [decodeAll_nil] at h; simp at h
    | cons b rest =>
      rw [decodeAll_cons b rest hb, List.cons_append, List.cons.injEq] at h
      obtain ⟨hst, hrest⟩ := h
      obtain ⟨_, h2, h3, _⟩ := decodeStep_spec b rest hb
      rw [hst] at h2 h3 hrest
      obtain ⟨i1, i2, i3⟩ := ih _ (hb.drop _) hrest
      refine ⟨?_, ?_, i3⟩
      · simp only [lab, List.map_cons] at i1 ⊢
        rw [encodeLabel_cons, h3, List.append_assoc, ← i1, List.take_append_drop]
      · simp only [lab, List.map_cons, List.sum_cons] at i2 ⊢
        rw [encodeLabel_cons, List.length_append, h3, List.length_take, ← i2]
        omega

/-- The hypotheses are met by a non-trivial state: `é` (C3 A9) after a truncated 3-byte
sequence (E2 82) and before a stray continuation byte (80); the truncated sequence is two
invalid-byte steps, so `X` has width sum 2. -/
example : ∃ X Y, decodeAll ([0xE2, 0x82] ++ [0xC3, 0xA9] ++ [0x80]) = X ++ decodeAll [0xC3, 0xA9] ++ Y ∧
    (X.map (·.2)).sum = 2 :=
  decodeAll_occurrence [0xE2, 0x82] [0xC3, 0xA9] [0x80]
    (by unfold Bytes; decide) (by unfold ValidUtf8; decide) (by decide)

example : decodeAll [0xE2, 0x82, 0xC3, 0xA9, 0x80] = [(-227, 1), (-131, 1), (233, 2), (-129, 1)] := by decide

end Golib.C05
