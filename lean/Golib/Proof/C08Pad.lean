/-
Helper lemmas for C08: length helpers, the padding table, PKCS#7 pad / un-pad.
-/
import Golib.Model.C08Pad

namespace Golib.C08

theorem and15 (n : Nat) : n &&& blockSizeMask = n % 16 :=
  Nat.and_two_pow_sub_one_eq_mod n 4

theorem encLen_eq (n : Nat) : cbcEncryptLen n = (n / 16 + 1) * 16 := by
  unfold cbcEncryptLen aesBlockSize
  rw [and15]; omega

/-- the table as `init()` builds it: entry `n` is `n` bytes of value `n`. -/
theorem table_fin : ∀ n : Fin 17, prePadPatterns[n.val]? = some (List.replicate n.val n.val) := by
  decide +kernel

theorem table_get (n : Nat) (h : n ≤ 16) : prePadPatterns[n]? = some (List.replicate n n) :=
  table_fin ⟨n, by omega⟩

theorem table_length : prePadPatterns.length = 17 := by decide +kernel

theorem isBytes_append {a b : Bytes} : IsBytes (a ++ b) ↔ IsBytes a ∧ IsBytes b := by
  simp only [IsBytes, List.mem_append]
  constructor
  · intro h; exact ⟨fun y hy => h y (Or.inl hy), fun y hy => h y (Or.inr hy)⟩
  · rintro ⟨h1, h2⟩ y (hy | hy); exact h1 y hy; exact h2 y hy

/-! ### take/drop of `d ++ replicate n v` -/

theorem drop_append_len (d t : Bytes) : (d ++ t).drop d.length = t := by simp
theorem take_append_len (d t : Bytes) : (d ++ t).take d.length = d := by simp

theorem getLast_append_replicate (d : Bytes) (n v : Nat) (hn : 0 < n) :
    (d ++ List.replicate n v)[d.length + n - 1]? = some v := by
  rw [List.getElem?_append_right (by omega)]
  rw [List.getElem?_replicate]
  simp; omega

/-! ### `PKCS7Padding` -/

theorem pad_spec (d : Bytes) (b : Nat) (hd : d ≠ []) (hb : 1 ≤ b) :
    pkcs7Padding d b =
      .ok (d ++ List.replicate (b - d.length % b) (toByte (b - d.length % b))) := by
  have hl : d.length ≠ 0 := by
    intro h; exact hd (List.length_eq_zero_iff.mp h)
  have hlt : d.length % b < b := Nat.mod_lt _ (by omega)
  unfold pkcs7Padding
  simp only [hl, if_false]
  have hb' : ¬ ((b : Int) ≤ 0) := by omega
  simp only [hb', if_false]
  have htm : Int.tmod (d.length : Int) (b : Int) = ((d.length % b : Nat) : Int) := by
    rw [Int.tmod_eq_emod_of_nonneg (by omega)]; rfl
  rw [htm]
  have hsub : (b : Int) - ((d.length % b : Nat) : Int) = ((b - d.length % b : Nat) : Int) := by omega
  rw [hsub]
  have hneg : ¬ (((b - d.length % b : Nat) : Int) < 0) := by omega
  simp only [goRepeat, if_neg hneg, Int.toNat_natCast]

/-! ### public `PKCS7UnPadding` -/

/-- un-padding a correctly padded multiple of the block size returns the data. -/
theorem unpad_complete (d : Bytes) (n : Nat) (b : Int)
    (hn1 : 1 ≤ n) (hnb : (n : Int) ≤ b) (hn256 : n < 256)
    (hdvd : Int.tmod ((d ++ List.replicate n n).length : Int) b = 0) :
    pkcs7UnPaddingPub (d ++ List.replicate n n) b = .ok d := by
  have hlen : (d ++ List.replicate n n).length = d.length + n := by simp
  unfold pkcs7UnPaddingPub
  have h0 : ¬ ((d ++ List.replicate n n).length = 0) := by rw [hlen]; omega
  have hb : ¬ (b ≤ 0) := by omega
  simp only [h0, hb, if_false, hdvd, ne_eq, not_true_eq_false]
  have hidx : index (d ++ List.replicate n n) (((d ++ List.replicate n n).length : Int) - 1) = some n := by
    unfold index
    have : (0 : Int) ≤ ((d ++ List.replicate n n).length : Int) - 1 := by rw [hlen]; omega
    simp only [this, if_true]
    have e : (((d ++ List.replicate n n).length : Int) - 1).toNat = d.length + n - 1 := by
      rw [hlen]; omega
    rw [e]; exact getLast_append_replicate d n n (by omega)
  rw [hidx]
  simp only []
  have hc : ¬ ((n : Int) ≤ 0 ∨ (n : Int) > b) := by omega
  simp only [hc, if_false]
  have hrep : goRepeat (toByte n) (n : Int) = some (List.replicate n n) := by
    unfold goRepeat toByte
    have : ¬ ((n : Int) < 0) := by omega
    simp only [this, if_false, Int.toNat_natCast, Nat.mod_eq_of_lt hn256]
  have hsub : ((d ++ List.replicate n n).length : Int) - (n : Int) = (d.length : Int) := by
    rw [hlen]; omega
  have hfrom : sliceFrom (d ++ List.replicate n n) (d.length : Int) = some (List.replicate n n) := by
    unfold sliceFrom
    have : (0 : Int) ≤ (d.length : Int) ∧ (d.length : Int) ≤ ((d ++ List.replicate n n).length : Int) := by
      rw [hlen]; omega
    simp only [this, and_self, if_true, Int.toNat_natCast, drop_append_len]
  have hto : sliceTo (d ++ List.replicate n n) (d.length : Int) = some d := by
    unfold sliceTo
    have : (0 : Int) ≤ (d.length : Int) ∧ (d.length : Int) ≤ ((d ++ List.replicate n n).length : Int) := by
      rw [hlen]; omega
    simp only [this, and_self, if_true, Int.toNat_natCast, take_append_len]
  rw [hrep, hsub, hfrom]
  simp only [ne_eq, not_true_eq_false, if_false, hto]

/-- whatever the input, the public un-padding never panics; and a success exhibits the
decomposition `x = d ++ replicate n n`. -/
theorem unpad_sound (x : Bytes) (b : Int) :
    pkcs7UnPaddingPub x b ≠ .panic ∧
    ∀ d, pkcs7UnPaddingPub x b = .ok d →
      ∃ n : Nat, x = d ++ List.replicate n n ∧ 1 ≤ n ∧ (n : Int) ≤ b ∧ 0 < b ∧
        Int.tmod (x.length : Int) b = 0 := by
  unfold pkcs7UnPaddingPub
  by_cases h0 : x.length = 0
  · rw [if_pos h0]; simp
  rw [if_neg h0]
  by_cases hb : b ≤ 0
  · rw [if_pos hb]; simp
  rw [if_neg hb]
  by_cases hm : Int.tmod (x.length : Int) b ≠ 0
  · rw [if_pos hm]; simp
  rw [if_neg hm]
  have hm0 : Int.tmod (x.length : Int) b = 0 := by simpa using hm
  -- b ≤ |x|
  have hble : b ≤ (x.length : Int) := by
    have hpos : (0 : Int) < x.length := by omega
    have := Int.tmod_eq_emod_of_nonneg (a := (x.length : Int)) (b := b) (by omega)
    rw [this] at hm0
    have hd : b ∣ (x.length : Int) := Int.dvd_of_emod_eq_zero hm0
    exact Int.le_of_dvd hpos hd
  have hidx : index x ((x.length : Int) - 1) = x[x.length - 1]? := by
    unfold index
    have : (0 : Int) ≤ (x.length : Int) - 1 := by omega
    simp only [this, if_true]
    congr 1; omega
  rw [hidx]
  have hlt : x.length - 1 < x.length := by omega
  rw [List.getElem?_eq_getElem hlt]
  simp only []
  generalize hlast : x[x.length - 1] = last
  by_cases hc : (last : Int) ≤ 0 ∨ (last : Int) > b
  · rw [if_pos hc]; simp
  rw [if_neg hc]
  have hl1 : 1 ≤ last := by omega
  have hlb : (last : Int) ≤ b := by omega
  have hrep : goRepeat (toByte last) (last : Int) = some (List.replicate last (toByte last)) := by
    unfold goRepeat
    have : ¬ ((last : Int) < 0) := by omega
    simp only [this, if_false, Int.toNat_natCast]
  have hfrom : sliceFrom x ((x.length : Int) - (last : Int)) = some (x.drop (x.length - last)) := by
    unfold sliceFrom
    have : (0 : Int) ≤ (x.length : Int) - (last : Int) ∧ (x.length : Int) - (last : Int) ≤ (x.length : Int) := by omega
    simp only [this, and_self, if_true]
    congr 2; omega
  have hto : sliceTo x ((x.length : Int) - (last : Int)) = some (x.take (x.length - last)) := by
    unfold sliceTo
    have : (0 : Int) ≤ (x.length : Int) - (last : Int) ∧ (x.length : Int) - (last : Int) ≤ (x.length : Int) := by omega
    simp only [this, and_self, if_true]
    congr 2; omega
  rw [hrep, hfrom]
  simp only [hto]
  by_cases ht : x.drop (x.length - last) ≠ List.replicate last (toByte last)
  · rw [if_pos ht]; simp
  rw [if_neg ht]
  refine ⟨by simp, ?_⟩
  intro d hd
  have hd' : d = x.take (x.length - last) := by
    injection hd with hd; exact hd.symm
  have ht' : x.drop (x.length - last) = List.replicate last (toByte last) := by simpa using ht
  -- the last element of the tail is `last`, hence `toByte last = last`
  have hlen_le : last ≤ x.length := by omega
  have hbyte : toByte last = last := by
    have h1 : (x.drop (x.length - last))[last - 1]? = some last := by
      rw [List.getElem?_drop]
      have : x.length - last + (last - 1) = x.length - 1 := by omega
      rw [this, List.getElem?_eq_getElem hlt, hlast]
    rw [ht', List.getElem?_replicate] at h1
    have : last - 1 < last := by omega
    simp only [this, if_true] at h1
    injection h1
  refine ⟨last, ?_, hl1, hlb, by omega, hm0⟩
  rw [hd']
  conv => lhs; rw [← List.take_append_drop (x.length - last) x]
  rw [ht', hbyte]

/-! ### the private table-based `pkcs7UnPadding` -/

theorem unpadPriv_spec (x : Bytes) (h16 : 16 ≤ x.length) :
    pkcs7UnPadding x ≠ .panic ∧
    (∀ m, pkcs7UnPadding x = .ok m →
      ∃ n : Nat, 1 ≤ n ∧ n ≤ 16 ∧ m = (x.length : Int) - n ∧
        x = x.take (x.length - n) ++ List.replicate n n) ∧
    (∀ d n, 1 ≤ n → n ≤ 16 → x = d ++ List.replicate n n →
      pkcs7UnPadding x = .ok (d.length : Int)) := by
  unfold pkcs7UnPadding
  have hidx : index x ((x.length : Int) - 1) = x[x.length - 1]? := by
    unfold index
    have : (0 : Int) ≤ (x.length : Int) - 1 := by omega
    simp only [this, if_true]
    congr 1; omega
  have hlt : x.length - 1 < x.length := by omega
  rw [hidx, List.getElem?_eq_getElem hlt]
  simp only []
  generalize hlast : x[x.length - 1] = last
  by_cases hc : (last : Int) > (aesBlockSize : Int) ∨ (last : Int) ≤ 0
  · rw [if_pos hc]
    refine ⟨by simp, by simp, ?_⟩
    intro d n hn1 hn16 hx
    exfalso
    have : x[x.length - 1]? = some n := by
      have hl : x.length = d.length + n := by rw [hx]; simp
      rw [hl]; conv => lhs; rw [hx]
      exact getLast_append_replicate d n n (by omega)
    rw [List.getElem?_eq_getElem hlt, hlast] at this
    injection this with this
    simp only [aesBlockSize] at hc; omega
  rw [if_neg hc]
  simp only [aesBlockSize] at hc
  have hl1 : 1 ≤ last := by omega
  have hl16 : last ≤ 16 := by omega
  rw [Int.toNat_natCast, table_get last hl16]
  have hfrom : sliceFrom x ((x.length : Int) - (last : Int)) = some (x.drop (x.length - last)) := by
    unfold sliceFrom
    have : (0 : Int) ≤ (x.length : Int) - (last : Int) ∧ (x.length : Int) - (last : Int) ≤ (x.length : Int) := by omega
    simp only [this, and_self, if_true]
    congr 2; omega
  rw [hfrom]
  simp only []
  by_cases ht : List.replicate last last ≠ x.drop (x.length - last)
  · rw [if_pos ht]
    refine ⟨by simp, by simp, ?_⟩
    intro d n hn1 hn16 hx
    exfalso
    have hl : x.length = d.length + n := by rw [hx]; simp
    have hn : n = last := by
      have : x[x.length - 1]? = some n := by
        rw [hl]; conv => lhs; rw [hx]
        exact getLast_append_replicate d n n (by omega)
      rw [List.getElem?_eq_getElem hlt, hlast] at this
      injection this with this; exact this.symm
    apply ht
    subst hn
    have : x.length - n = d.length := by omega
    rw [this]; conv => rhs; rw [hx]
    simp
  rw [if_neg ht]
  have ht' : List.replicate last last = x.drop (x.length - last) := by simpa using ht
  refine ⟨by simp, ?_, ?_⟩
  · intro m hm
    injection hm with hm
    refine ⟨last, hl1, hl16, hm.symm, ?_⟩
    conv => lhs; rw [← List.take_append_drop (x.length - last) x]
    rw [← ht']
  · intro d n hn1 hn16 hx
    have hl : x.length = d.length + n := by rw [hx]; simp
    have hn : n = last := by
      have : x[x.length - 1]? = some n := by
        rw [hl]; conv => lhs; rw [hx]
        exact getLast_append_replicate d n n (by omega)
      rw [List.getElem?_eq_getElem hlt, hlast] at this
      injection this with this; exact this.symm
    congr 1; omega

end Golib.C08
