/-
C01 — the ghost-queue invariant `GInv` is preserved by every step of every thread and
holds initially; consequences at the linearization points and at the returns.
-/
import Golib.Proof.C01LinQ

namespace Golib.C01
open Golib.C01.Util

set_option maxHeartbeats 1000000 in
/-- Every step of every thread preserves the ghost-queue invariant. -/
theorem ginv_step {c : Cfg} (g : Ghost c) {s : State} {gh : LGhost} (hG : GInv c s gh) (i : Nat) :
    GInv c (step c s i).1 (gstep s gh i) := by
  have hI := hG.inv
  have hI' := inv_step g hI i
  revert hI'
  unfold step gstep
  cases hth : s.threads[i]? with
  | none => intro _; exact hG
  | some th =>
    have hgo := hG.locals i th hth
    simp only []
    cases hpc : th.pc with
    | idle => intro _; exact hG
    | pushLoadTail v =>
      dsimp only
      intro hI'
      exact (ginv_invoke hG hth hI' (fun _ h => by simpa [GOk] using h)).congr rfl rfl
    | pushLoadSeq v pos =>
      dsimp only
      obtain ⟨sl, hsl⟩ := slot_exists g hI pos
      rw [hsl]
      dsimp only
      split
      · intro hI'; exact ginv_local hG hI' (GOk_finish _ _ _ _ _ _ _)
      · intro hI'; exact ginv_local hG hI' (by simpa [hpc, GOk] using hgo)
    | pushCAS v pos seq =>
      dsimp only
      split
      · rename_i hT
        rw [g.norm]
        intro hI'
        exact (ginv_pushCAS g hG hth hpc hT hI').congr rfl rfl
      · intro hI'; exact ginv_local hG hI' (GOk_finish _ _ _ _ _ _ _)
    | pushWrite v pos seq =>
      dsimp only
      obtain ⟨sl, hsl⟩ := slot_exists g hI pos
      rw [hsl]
      dsimp only
      rw [g.idx_mod] at hsl ⊢
      intro hI'
      exact ginv_pushWrite g hG hth hpc hsl hI'
    | pushStore pos seq =>
      dsimp only
      obtain ⟨sl, hsl⟩ := slot_exists g hI pos
      rw [hsl]
      dsimp only
      rw [g.norm]
      rw [g.idx_mod] at hsl ⊢
      intro hI'
      exact ginv_pushStore g hG hth hpc hsl hI'
    | popLoadHead =>
      dsimp only
      intro hI'
      exact (ginv_invoke hG hth hI' (fun _ h => by simpa [GOk] using h)).congr rfl rfl
    | popLoadSeq pos =>
      dsimp only
      obtain ⟨sl, hsl⟩ := slot_exists g hI pos
      rw [hsl]
      dsimp only
      split
      · intro hI'; exact ginv_local hG hI' (GOk_finish _ _ _ _ _ _ _)
      · intro hI'; exact ginv_local hG hI' (by simpa [hpc, GOk] using hgo)
    | popCAS pos seq =>
      dsimp only
      split
      · rename_i hH
        rw [g.norm]
        intro hI'
        exact (ginv_popCAS g hG hth hpc hH hI').congr rfl rfl
      · intro hI'; exact ginv_local hG hI' (GOk_finish _ _ _ _ _ _ _)
    | popRead pos seq =>
      dsimp only
      obtain ⟨sl, hsl⟩ := slot_exists g hI pos
      rw [hsl]
      dsimp only
      intro hI'
      refine ginv_local hG hI' ?_
      simp only [hpc, GOk] at hgo ⊢
      rw [g.idx_mod] at hsl
      rw [hgo, vl_of_slot hsl]
    | popClear pos seq v =>
      dsimp only
      obtain ⟨sl, hsl⟩ := slot_exists g hI pos
      rw [hsl]
      dsimp only
      rw [g.idx_mod] at hsl ⊢
      intro hI'
      exact ginv_popClear g hG hth hpc hsl hI'
    | popStore pos seq v =>
      dsimp only
      obtain ⟨sl, hsl⟩ := slot_exists g hI pos
      rw [hsl]
      dsimp only
      rw [g.norm]
      rw [g.idx_mod] at hsl ⊢
      intro hI'
      exact ginv_popStore g hG hth hpc hsl hI'
    | lenLoadTail =>
      dsimp only
      intro hI'
      exact (ginv_local hG hI' (by simp [GOk])).congr rfl rfl
    | lenLoadHead t =>
      dsimp only
      intro hI'; exact ginv_local hG hI' (GOk_finish _ _ _ _ _ _ _)
    | emptyLoadHead =>
      dsimp only
      intro hI'
      exact (ginv_local hG hI' (by simp [GOk])).congr rfl rfl
    | emptyLoadTail h =>
      dsimp only
      intro hI'; exact ginv_local hG hI' (GOk_finish _ _ _ _ _ _ _)
    | fullLoadTail =>
      dsimp only
      intro hI'
      exact (ginv_local hG hI' (by simp [GOk])).congr rfl rfl
    | fullLoadHead t =>
      dsimp only
      intro hI'; exact ginv_local hG hI' (GOk_finish _ _ _ _ _ _ _)

theorem mkThread_pc_cases (pr : List Call) :
    (mkThread pr).pc = .idle ∨ (∃ v, (mkThread pr).pc = .pushLoadTail v) ∨ (mkThread pr).pc = .popLoadHead ∨
      (mkThread pr).pc = .lenLoadTail ∨ (mkThread pr).pc = .emptyLoadHead ∨ (mkThread pr).pc = .fullLoadTail :=
  finish_pc_cases _

/-- The empty ring at any rotation with the empty abstract queue. -/
theorem ginv_initAt {c : Cfg} (g : Ghost c) (k : Nat) (progs : List (List Call)) :
    GInv c (initAt c k progs) (ginit progs) := by
  refine ⟨inv_initAt g k progs, by simp [initAt, ginit], by simp [initAt, ginit], ?_, ?_⟩
  · intro p h1 h2
    simp only [initAt] at h1 h2
    omega
  · intro i th hth
    simp only [initAt, List.getElem?_map] at hth
    cases hp : progs[i]? with
    | none => rw [hp] at hth; simp at hth
    | some pr =>
      rw [hp] at hth
      simp only [Option.map_some, Option.some.injEq] at hth
      subst hth
      exact GOk_finish _ _ _ _ _ _ _

theorem ginv_lrun {c : Cfg} (g : Ghost c) {s : State} {gh : LGhost} (hG : GInv c s gh) (σ : List Nat) :
    GInv c (lrun c s gh σ).1 (lrun c s gh σ).2 := by
  induction σ generalizing s gh with
  | nil => exact hG
  | cons i σ ih =>
    simp only [lrun]
    exact ih ((ginv_step g hG i).congr (gfin_q _ _).1 (gfin_q _ _).2.1)

theorem idx_lt_pend {c : Cfg} {s : State} {gh : LGhost} (hG : GInv c s gh) {i : Nat} {th : Thread}
    (hth : s.threads[i]? = some th) : i < gh.pend.length := by
  rw [hG.pend_len]
  by_cases h : i < s.threads.length
  · exact h
  · rw [List.getElem?_eq_none (Nat.le_of_not_lt h)] at hth; simp at hth

/-- The ghost records of the other threads are never touched. -/
theorem gstep_pend_other (s : State) (gh : LGhost) {i j : Nat} (hj : j ≠ i) :
    (gstep s gh i).pend[j]? = gh.pend[j]? := by
  have hne : ∀ x : Option Int, (gh.pend.set i x)[j]? = gh.pend[j]? :=
    fun x => List.getElem?_set_ne (fun e => hj e.symm)
  unfold gstep
  cases s.threads[i]? with
  | none => rfl
  | some th =>
    simp only []
    cases th.pc <;> dsimp only <;> first | rfl | exact hne _ | (split <;> first | rfl | exact hne _)

/-- The abstract queue changes only at the linearization points, by a legal operation of
the bounded queue: a successful tail-CAS of `Push(v)` is `bqPush` (so the queue was not
full), a successful head-CAS is `bqPop` (so the queue was not empty); the thread records
the value it appended / removed. -/
theorem gstep_lin {c : Cfg} (g : Ghost c) {s : State} {gh : LGhost} (hG : GInv c s gh) (i : Nat) :
    ((gstep s gh i).q = gh.q ∧
      ∀ th, s.threads[i]? = some th →
        (∀ v pos seq, th.pc = .pushCAS v pos seq → s.tail ≠ pos) ∧
        (∀ pos seq, th.pc = .popCAS pos seq → s.head ≠ pos)) ∨
    (∃ th v pos seq, s.threads[i]? = some th ∧ th.pc = .pushCAS v pos seq ∧ s.tail = pos ∧
      bqPush c.cap gh.q v = some (gstep s gh i).q ∧ (gstep s gh i).pend[i]? = some (some v)) ∨
    (∃ th pos seq x, s.threads[i]? = some th ∧ th.pc = .popCAS pos seq ∧ s.head = pos ∧
      bqPop gh.q = some (x, (gstep s gh i).q) ∧ (gstep s gh i).pend[i]? = some (some x)) := by
  have hI := hG.inv
  unfold gstep
  cases hth : s.threads[i]? with
  | none => left; exact ⟨rfl, fun th h => by simp at h⟩
  | some th =>
    have hilt := idx_lt_pend hG hth
    simp only []
    cases hpc : th.pc with
    | pushCAS v pos seq =>
      dsimp only
      by_cases hT : s.tail = pos
      · right; left
        rw [if_pos hT]
        refine ⟨th, v, pos, seq, rfl, hpc, hT, ?_, List.getElem?_set_self hilt⟩
        have ⟨_, hlt⟩ := pushCAS_slot g hI (List.mem_of_getElem? hth) hpc hT
        have := hG.qlen
        have := hI.head_le_tail
        simp only [bqPush]
        rw [if_pos (by omega)]
      · left
        rw [if_neg hT]
        refine ⟨rfl, fun th' h => ?_⟩
        obtain rfl := Option.some.inj h
        rw [hpc]
        refine ⟨fun v' pos' seq' e => ?_, fun _ _ e => by simp at e⟩
        simp only [Pc.pushCAS.injEq] at e
        obtain ⟨_, rfl, _⟩ := e
        exact hT
    | popCAS pos seq =>
      dsimp only
      by_cases hH : s.head = pos
      · right; right
        rw [if_pos hH]
        have ⟨_, hlt⟩ := popCAS_slot g hI (List.mem_of_getElem? hth) hpc hH
        have hql := hG.qlen
        cases hq : gh.q with
        | nil => rw [hq] at hql; simp at hql; omega
        | cons x rest =>
          refine ⟨th, pos, seq, x, rfl, hpc, hH, ?_, ?_⟩
          · simp [bqPop]
          · simp only [List.head?_cons]
            rw [List.getElem?_set_self hilt]
      · left
        rw [if_neg hH]
        refine ⟨rfl, fun th' h => ?_⟩
        obtain rfl := Option.some.inj h
        rw [hpc]
        refine ⟨fun _ _ _ e => by simp at e, fun pos' seq' e => ?_⟩
        simp only [Pc.popCAS.injEq] at e
        obtain ⟨rfl, _⟩ := e
        exact hH
    | _ =>
      left
      refine ⟨rfl, fun th' h => ?_⟩
      obtain rfl := Option.some.inj h
      rw [hpc]
      exact ⟨fun _ _ _ e => by simp at e, fun _ _ e => by simp at e⟩

/-- what the ghost says about a step that returns `r` (`gh` before, `gh'` after the step):
a successful `Push`/`Pop` linearized earlier in this very call and returns the value of its
linearization point; a `Push`/`Pop` that returns false never linearized (`pend = none`
since the call's first step, and the returning step is not a linearization point). -/
def RetOk (gh gh' : LGhost) (i : Nat) : Ret → Prop
  | .push true => (∃ v, gh.pend[i]? = some (some v)) ∧ gh' = gh
  | .push false => gh.pend[i]? = some none ∧ gh' = gh
  | .pop v true => gh.pend[i]? = some (some v) ∧ gh' = gh
  | .pop v false => v = 0 ∧ gh.pend[i]? = some none ∧ gh' = gh
  | _ => True

set_option maxHeartbeats 1000000 in
theorem returns_match {c : Cfg} (g : Ghost c) {s : State} {gh : LGhost} (hG : GInv c s gh) (i : Nat)
    (r : Ret) (hr : (step c s i).2.ret = some r) : RetOk gh (gstep s gh i) i r := by
  have hI := hG.inv
  revert hr
  unfold step gstep
  cases hth : s.threads[i]? with
  | none => simp
  | some th =>
    have hgo := hG.locals i th hth
    simp only []
    cases hpc : th.pc with
    | pushLoadSeq v pos =>
      dsimp only
      obtain ⟨sl, hsl⟩ := slot_exists g hI pos
      rw [hsl]
      dsimp only
      simp only [hpc, GOk] at hgo
      split
      · intro hr
        obtain rfl := Option.some.inj hr
        exact ⟨hgo, rfl⟩
      · intro hr; simp at hr
    | pushCAS v pos seq =>
      dsimp only
      simp only [hpc, GOk] at hgo
      split
      · intro hr; simp at hr
      · intro hr
        obtain rfl := Option.some.inj hr
        exact ⟨hgo, rfl⟩
    | pushWrite v pos seq =>
      dsimp only
      obtain ⟨sl, hsl⟩ := slot_exists g hI pos
      rw [hsl]
      dsimp only
      intro hr; simp at hr
    | pushStore pos seq =>
      dsimp only
      obtain ⟨sl, hsl⟩ := slot_exists g hI pos
      rw [hsl]
      dsimp only
      simp only [hpc, GOk] at hgo
      rw [g.idx_mod] at hsl
      rw [vl_of_slot hsl] at hgo
      intro hr
      obtain rfl := Option.some.inj hr
      exact ⟨⟨sl.val, hgo.2⟩, rfl⟩
    | popLoadSeq pos =>
      dsimp only
      obtain ⟨sl, hsl⟩ := slot_exists g hI pos
      rw [hsl]
      dsimp only
      simp only [hpc, GOk] at hgo
      split
      · intro hr
        obtain rfl := Option.some.inj hr
        exact ⟨rfl, hgo, rfl⟩
      · intro hr; simp at hr
    | popCAS pos seq =>
      dsimp only
      simp only [hpc, GOk] at hgo
      split
      · intro hr; simp at hr
      · intro hr
        obtain rfl := Option.some.inj hr
        exact ⟨rfl, hgo, rfl⟩
    | popRead pos seq =>
      dsimp only
      obtain ⟨sl, hsl⟩ := slot_exists g hI pos
      rw [hsl]
      dsimp only
      intro hr; simp at hr
    | popClear pos seq v =>
      dsimp only
      obtain ⟨sl, hsl⟩ := slot_exists g hI pos
      rw [hsl]
      dsimp only
      intro hr; simp at hr
    | popStore pos seq v =>
      dsimp only
      obtain ⟨sl, hsl⟩ := slot_exists g hI pos
      rw [hsl]
      dsimp only
      simp only [hpc, GOk] at hgo
      intro hr
      obtain rfl := Option.some.inj hr
      exact ⟨hgo, rfl⟩
    | idle => dsimp only; intro hr; simp at hr
    | pushLoadTail v => dsimp only; intro hr; simp at hr
    | popLoadHead => dsimp only; intro hr; simp at hr
    | lenLoadTail => dsimp only; intro hr; simp at hr
    | emptyLoadHead => dsimp only; intro hr; simp at hr
    | fullLoadTail => dsimp only; intro hr; simp at hr
    | lenLoadHead t => dsimp only; intro hr; obtain rfl := Option.some.inj hr; trivial
    | emptyLoadTail t => dsimp only; intro hr; obtain rfl := Option.some.inj hr; trivial
    | fullLoadHead t => dsimp only; intro hr; obtain rfl := Option.some.inj hr; trivial

/-- A `Push` whose tail-CAS succeeded returns true (at its publication store). -/
theorem push_returns_true {c : Cfg} (g : Ghost c) {s : State} (hI : Inv c s)
    {i : Nat} {th : Thread} (hth : s.threads[i]? = some th) {pos seq : Nat}
    (hpc : th.pc = .pushStore pos seq) :
    (step c s i).2.ret = some (.push true) := by
  obtain ⟨sl, hsl⟩ := slot_exists g hI pos
  simp only [step, hth, hpc, hsl]

end Golib.C01
