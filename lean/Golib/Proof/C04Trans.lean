/-
C04 — tie between the definitions `go2lean` regenerates from `heapz/adjustment.go` on every run
(`Golib/Gen/TransC04.lean`: `swap`, `up`, `down`, `fix`, `build`, generic in the element type `T`,
callbacks `cmp`/`swap` as function parameters) and the hand-written model
(`Golib/Model/C04Adjust.lean`: `swapL`, `up`/`upF`, `down`/`downB`, `fix`, `build` over `Ops σ`).

Representation: the model is written over an abstract container `σ` with callbacks
`less : σ → Int → Int → Option (σ × Bool)` and `swap : σ → Int → Int → Option σ` (`none` = panic).
The code works on a slice `s []T` and calls `cmp(s[j], s[i])` and `swap(s, i, j)`; the generated
definitions take `cmp : T → T → Bool` (assumed pure, as the generated header says) and
`swap : List T → Int → Int → Res (List T)` (may panic, returns the slice after the call).
The abstraction is `cbOps cmp sw` below: `σ = List T`, `less s j i = cmp s[j] s[i]` (panics when an
index is out of range, leaves `s` alone), `swap = sw`, where the behaviour `sw` of the swap callback
is ANY function into `Option (List T)` and is handed to the generated code as `cbSwap sw`
(`none ↦ .panic`).  With `T = Int` and `sw = swapL` (the package's own `swap[T]`, tied by
`trans_swap_eq`) `cbOps cmp swapL` IS `sliceOps cmp`, the instance all C04 theorems are about.

`optRes` maps the model's `none` to `.panic`; the theorems show `.fuel` does not occur.
The scripts state the loop invariants (fuel beyond the distance the loop can still travel) and use
`simp` with explicit lemma lists, `omega` and case analysis on the callbacks' answers, so that
harmless rewrites of the Go functions keep them passing.
-/
import Golib.Gen.TransC04
import Golib.Model.C04Clients

set_option linter.unusedSimpArgs false
set_option linter.unusedVariables false

namespace Golib.C04
open Golib.GoSem

/-- A result of the model (`none` = Go panic) as a result of the generated code. -/
def optRes {α β : Type} (f : α → β) : Option α → Res β
  | some a => .ok (f a)
  | none => .panic

@[simp] theorem optRes_some {α β : Type} (f : α → β) (a : α) : optRes f (some a) = .ok (f a) := rfl
@[simp] theorem optRes_none {α β : Type} (f : α → β) : optRes f (none : Option α) = .panic := rfl

/-- The behaviour of a `swap` callback (`none` = it panics) as the parameter of the generated code. -/
def cbSwap {T : Type} (sw : List T → Int → Int → Option (List T)) : List T → Int → Int → Res (List T) :=
  fun s i j => optRes id (sw s i j)

/-- The model's callbacks for a slice `s []T` with comparator `cmp` and swap behaviour `sw`. -/
def cbOps {T : Type} (cmp : T → T → Bool) (sw : List T → Int → Int → Option (List T)) : Ops (List T) where
  less s j i :=
    match nth s j, nth s i with
    | some a, some b => some (s, cmp a b)
    | _, _ => none
  swap s i j := sw s i j

/-- With the package's own `swap` on `[]int` this is the instance of the C04 theorems. -/
theorem cbOps_swapL (cmp : Int → Int → Bool) : cbOps cmp swapL = sliceOps cmp := by
  unfold cbOps sliceOps
  congr 1
  funext s j i
  cases nth s j <;> cases nth s i <;> rfl

/-! ### GoSem lemmas used below (kept here: `GoSem.lean` is shared) -/

/-- `s[i]` of the generated code is `nth` of the model. -/
theorem idx_eq_nth {α : Type} (s : List α) (i : Int) : idx s i = optRes id (nth s i) := by
  unfold idx nth
  by_cases h : i < 0
  · have h' : ¬ (0 ≤ i) := by omega
    simp [h, h']
  · have h' : 0 ≤ i := by omega
    simp only [h, h', if_true, if_false]
    cases s[i.toNat]? <;> rfl

theorem nth_some_bounds {α : Type} {s : List α} {i : Int} {a : α} (h : nth s i = some a) :
    0 ≤ i ∧ i.toNat < s.length := by
  unfold nth at h
  by_cases h0 : 0 ≤ i
  · simp only [h0, if_true] at h
    exact ⟨h0, (List.getElem?_eq_some_iff.1 h).1⟩
  · simp [h0] at h

theorem setIdx_of_bounds {α : Type} (s : List α) (i : Int) (v : α) (h0 : 0 ≤ i) (h1 : i.toNat < s.length) :
    setIdx s i v = .ok (s.set i.toNat v) := by
  unfold setIdx
  have : ¬ (i < 0) := by omega
  simp [this, h1]

/-! ### `swap` -/

/-- The regenerated `swap[T]` IS `swapL`: it exchanges the two cells, and panics exactly when
an index is out of range. -/
theorem trans_swap_eq {T : Type} [Inhabited T] (s : List T) (i j : Int) :
    Golib.Gen.Trans.C04.swap s i j = optRes id (swapL s i j) := by
  unfold Golib.Gen.Trans.C04.swap swapL
  simp only [idx_eq_nth]
  cases hi : nth s i with
  | none => cases hj : nth s j <;> simp [bind, pure]
  | some a =>
    cases hj : nth s j with
    | none => simp [bind, pure]
    | some b =>
      obtain ⟨hi0, hi1⟩ := nth_some_bounds hi
      obtain ⟨hj0, hj1⟩ := nth_some_bounds hj
      have hj1' : j.toNat < (s.set i.toNat b).length := by simpa using hj1
      have hi1' : i.toNat < (s.set j.toNat a).length := by simpa using hi1
      simp [bind, pure, setIdx_of_bounds s i b hi0 hi1, setIdx_of_bounds _ j a hj0 hj1',
        setIdx_of_bounds s j a hj0 hj1, setIdx_of_bounds _ i b hi0 hi1']

/-- `cbSwap swapL` is the generated `swap` (so the generated `up`/`down`/… can be given the
generated `swap` itself as their callback, as `heapz/slice.go` does with `swap[T]`). -/
theorem cbSwap_swapL {T : Type} [Inhabited T] :
    cbSwap (swapL (α := T)) = Golib.Gen.Trans.C04.swap := by
  funext s i j
  rw [trans_swap_eq]; rfl

/-! ### `up` -/

/-- projection of a loop state `(s, j)` on the slice -/
def resFst {α β : Type} : Res (α × β) → Res α
  | .ok (a, _) => .ok a
  | .panic => .panic
  | .fuel => .fuel

@[simp] theorem resFst_ok {α β : Type} (a : α) (b : β) : resFst (.ok (a, b) : Res (α × β)) = .ok a := rfl
@[simp] theorem resFst_panic {α β : Type} : resFst (.panic : Res (α × β)) = .panic := rfl

/-- Loop invariant of `up`: with fuel beyond `j`, the generated loop ends as the model's does. -/
theorem trans_up_loop {T : Type} [Inhabited T] (cmp : T → T → Bool)
    (sw : List T → Int → Int → Option (List T)) :
    ∀ (fuel : Nat) (s : List T) (j : Int), j.toNat < fuel →
      resFst (Golib.Gen.Trans.C04.up_loop1 fuel cmp (cbSwap sw) s j)
        = optRes id (up (cbOps cmp sw) fuel s j) := by
  intro fuel
  induction fuel with
  | zero => intro s j h; omega
  | succ fuel ih =>
    intro s j hf
    unfold Golib.Gen.Trans.C04.up_loop1 up
    simp only [idx_eq_nth, cbOps, cbSwap]
    by_cases hij : Int.tdiv (j - 1) 2 = j
    · simp [hij, bind, pure]
    · have hij' : ¬ (j = Int.tdiv (j - 1) 2) := fun h => hij h.symm
      cases hnj : nth s j with
      | none => simp [hij, hij', bind, pure]
      | some a =>
        cases hni : nth s (Int.tdiv (j - 1) 2) with
        | none => simp [hij, hij', bind, pure]
        | some b =>
          obtain ⟨hj0, _⟩ := nth_some_bounds hnj
          have hj1 : 0 < j := by
            rcases Int.lt_or_eq_of_le hj0 with h | h
            · exact h
            · exfalso; apply hij; subst h; decide
          have hlt : (Int.tdiv (j - 1) 2).toNat < fuel := by
            rw [Int.tdiv_eq_ediv_of_nonneg (by omega)]; omega
          cases hc : cmp a b with
          | false => simp [hij, hij', hc, bind, pure]
          | true =>
            cases hsw : sw s (Int.tdiv (j - 1) 2) j with
            | none => simp [hij, hij', hc, hsw, bind, pure]
            | some s2 =>
              have := ih s2 _ hlt
              simp only [cbOps, cbSwap] at this
              simp [hij, hij', hc, hsw, bind, pure, this]

/-- The regenerated `up` IS `upF` over the callbacks: same final slice, panics exactly where the
model does (an index out of range at `s[j]`/`s[i]`, or inside the `swap` callback), never out of fuel. -/
theorem trans_up_eq {T : Type} [Inhabited T] (cmp : T → T → Bool)
    (sw : List T → Int → Int → Option (List T)) (s : List T) (j : Int) :
    Golib.Gen.Trans.C04.up s cmp (cbSwap sw) j = optRes id (upF (cbOps cmp sw) s j) := by
  have h := trans_up_loop cmp sw (j.toNat + 1) s j (by omega)
  unfold Golib.Gen.Trans.C04.up upF fuelOf
  rw [← h]
  cases Golib.Gen.Trans.C04.up_loop1 (j.toNat + 1) cmp (cbSwap sw) s j with
  | ok p => obtain ⟨a, b⟩ := p; rfl
  | panic => rfl
  | fuel => rfl

/-! ### `down` -/

/-- Loop invariant of `down`: with fuel beyond the distance `n - i` (and at least one unit), the
generated loop ends in the state `(s, i)` in which the model's loop ends. -/
theorem trans_down_loop {T : Type} [Inhabited T] (cmp : T → T → Bool)
    (sw : List T → Int → Int → Option (List T)) (n : Int) :
    ∀ (fuel : Nat) (s : List T) (i : Int), 0 < fuel → (0 ≤ i → (n - i).toNat < fuel) →
      Golib.Gen.Trans.C04.down_loop1 fuel cmp (cbSwap sw) n s i
        = optRes id (down (cbOps cmp sw) fuel s i n) := by
  intro fuel
  induction fuel with
  | zero => intro s i h; omega
  | succ fuel ih =>
    intro s i _ hf
    unfold Golib.Gen.Trans.C04.down_loop1 down
    simp only [idx_eq_nth, cbOps, cbSwap, Int.mul_comm i 2]
    by_cases hexit : 2 * i + 1 ≥ n ∨ 2 * i + 1 < 0
    · rcases hexit with hE | hE
      · have hE' : n ≤ 2 * i + 1 := hE
        have hE'' : ¬ (2 * i + 1 < n) := by omega
        simp [hE, hE', hE'', bind, pure]
      · have hE' : ¬ (0 ≤ 2 * i + 1) := by omega
        simp [hE, hE', bind, pure]
    · have hi0 : 0 ≤ i := by omega
      have hlt : 2 * i + 1 < n := by omega
      have hfi := hf hi0
      have h1 : ¬ (n ≤ 2 * i + 1) := by omega
      have h2 : ¬ (2 * i + 1 < 0) := by omega
      have h3 : 0 ≤ 2 * i + 1 := by omega
      -- the recursive call, from either child
      have ih1 : ∀ s2, Golib.Gen.Trans.C04.down_loop1 fuel cmp (cbSwap sw) n s2 (2 * i + 1)
          = optRes id (down (cbOps cmp sw) fuel s2 (2 * i + 1) n) :=
        fun s2 => ih s2 _ (by omega) (fun _ => by omega)
      have ih2 : 2 * i + 1 + 1 < n → ∀ s2,
          Golib.Gen.Trans.C04.down_loop1 fuel cmp (cbSwap sw) n s2 (2 * i + 1 + 1)
            = optRes id (down (cbOps cmp sw) fuel s2 (2 * i + 1 + 1) n) :=
        fun h s2 => ih s2 _ (by omega) (fun _ => by omega)
      simp only [cbOps, cbSwap] at ih1 ih2
      by_cases hj2 : 2 * i + 1 + 1 < n
      · -- two children
        cases hn2 : nth s (2 * i + 1 + 1) with
        | none => simp [hexit, hlt, h1, h2, h3, hj2, hn2, bind, pure]
        | some c2 =>
          cases hn1 : nth s (2 * i + 1) with
          | none => simp [hexit, hlt, h1, h2, h3, hj2, hn1, hn2, bind, pure]
          | some c1 =>
            cases hni : nth s i with
            | none =>
              cases hc : cmp c2 c1 <;> simp [hexit, hlt, h1, h2, h3, hj2, hc, hn1, hn2, hni, bind, pure]
            | some p =>
              cases hc : cmp c2 c1 with
              | true =>
                cases hc' : cmp c2 p with
                | false => simp [hexit, hlt, h1, h2, h3, hj2, hc, hc', hn1, hn2, hni, bind, pure]
                | true =>
                  cases hsw : sw s i (2 * i + 1 + 1) with
                  | none => simp [hexit, hlt, h1, h2, h3, hj2, hc, hc', hn1, hn2, hni, hsw, bind, pure]
                  | some s2 =>
                    simp [hexit, hlt, h1, h2, h3, hj2, hc, hc', hn1, hn2, hni, hsw, bind, pure, ih2 hj2 s2]
              | false =>
                cases hc' : cmp c1 p with
                | false => simp [hexit, hlt, h1, h2, h3, hj2, hc, hc', hn1, hn2, hni, bind, pure]
                | true =>
                  cases hsw : sw s i (2 * i + 1) with
                  | none => simp [hexit, hlt, h1, h2, h3, hj2, hc, hc', hn1, hn2, hni, hsw, bind, pure]
                  | some s2 =>
                    simp [hexit, hlt, h1, h2, h3, hj2, hc, hc', hn1, hn2, hni, hsw, bind, pure, ih1 s2]
      · -- only the left child
        cases hn1 : nth s (2 * i + 1) with
        | none => simp [hexit, hlt, h1, h2, h3, hj2, hn1, bind, pure]
        | some c1 =>
          cases hni : nth s i with
          | none => simp [hexit, hlt, h1, h2, h3, hj2, hn1, hni, bind, pure]
          | some p =>
            cases hc' : cmp c1 p with
            | false => simp [hexit, hlt, h1, h2, h3, hj2, hc', hn1, hni, bind, pure]
            | true =>
              cases hsw : sw s i (2 * i + 1) with
              | none => simp [hexit, hlt, h1, h2, h3, hj2, hc', hn1, hni, hsw, bind, pure]
              | some s2 =>
                simp [hexit, hlt, h1, h2, h3, hj2, hc', hn1, hni, hsw, bind, pure, ih1 s2]

/-- The regenerated `down` IS `downB` over the callbacks (the generated function returns the
boolean first and the slice after it). -/
theorem trans_down_eq {T : Type} [Inhabited T] (cmp : T → T → Bool)
    (sw : List T → Int → Int → Option (List T)) (s : List T) (i0 n : Int) :
    Golib.Gen.Trans.C04.down s cmp (cbSwap sw) i0 n
      = optRes (fun p : List T × Bool => (p.2, p.1)) (downB (cbOps cmp sw) s i0 n) := by
  have h := trans_down_loop cmp sw n (n.toNat + 1) s i0 (by omega) (fun _ => by omega)
  unfold Golib.Gen.Trans.C04.down downB fuelOf
  simp only [h, bind, pure]
  cases down (cbOps cmp sw) (n.toNat + 1) s i0 n with
  | none => rfl
  | some p => obtain ⟨a, b⟩ := p; rfl

/-! ### `fix` -/

/-- The regenerated `fix` IS the model's `fix`. -/
theorem trans_fix_eq {T : Type} [Inhabited T] (cmp : T → T → Bool)
    (sw : List T → Int → Int → Option (List T)) (s : List T) (index tail : Int) :
    Golib.Gen.Trans.C04.fix s cmp (cbSwap sw) index tail
      = optRes id (fix (cbOps cmp sw) s index tail) := by
  unfold Golib.Gen.Trans.C04.fix fix
  simp only [trans_down_eq, trans_up_eq, bind, pure]
  cases downB (cbOps cmp sw) s index tail with
  | none => rfl
  | some p =>
    obtain ⟨s1, b⟩ := p
    cases b with
    | true => simp
    | false =>
      cases hu : upF (cbOps cmp sw) s1 index with
      | none => simp [hu]
      | some s2 => simp [hu]

/-! ### `build` -/

/-- Loop invariant of `build` (`i = k - 1` counts down to `-1`): with fuel beyond `k`. -/
theorem trans_build_loop {T : Type} [Inhabited T] (cmp : T → T → Bool)
    (sw : List T → Int → Int → Option (List T)) (n : Int) :
    ∀ (k fuel : Nat) (s : List T), k < fuel →
      Golib.Gen.Trans.C04.build_loop1 fuel cmp (cbSwap sw) n s ((k : Int) - 1)
        = optRes (fun s' : List T => (s', (-1 : Int))) (buildLoop (cbOps cmp sw) n k s) := by
  intro k
  induction k with
  | zero =>
    intro fuel s hf
    obtain ⟨f, rfl⟩ : ∃ f, fuel = f + 1 := ⟨fuel - 1, by omega⟩
    unfold Golib.Gen.Trans.C04.build_loop1 buildLoop
    simp [bind, pure]
  | succ k ih =>
    intro fuel s hf
    obtain ⟨f, rfl⟩ : ∃ f, fuel = f + 1 := ⟨fuel - 1, by omega⟩
    unfold Golib.Gen.Trans.C04.build_loop1 buildLoop
    have hk : ((k + 1 : Nat) : Int) - 1 = (k : Int) := by omega
    have hge : (k : Int) ≥ 0 := by omega
    have hge' : (0 : Int) ≤ (k : Int) := by omega
    have hnlt : ¬ ((k : Int) < 0) := by omega
    have hgt : (-1 : Int) < (k : Int) := by omega
    have hnle : ¬ ((k : Int) ≤ -1) := by omega
    have hne : ¬ ((k : Int) = -1) := by omega
    rw [hk]
    simp only [trans_down_eq, bind, pure]
    cases hd : downB (cbOps cmp sw) s (k : Int) n with
    | none => simp [hge, hge', hnlt, hgt, hnle, hne]
    | some p =>
      obtain ⟨s1, b⟩ := p
      have := ih f s1 (by omega)
      simp [hge, hge', hnlt, hgt, hnle, hne, this]

/-- The regenerated `build` IS the model's `build` with `n = len(s)`. -/
theorem trans_build_eq {T : Type} [Inhabited T] (cmp : T → T → Bool)
    (sw : List T → Int → Int → Option (List T)) (s : List T) :
    Golib.Gen.Trans.C04.build s cmp (cbSwap sw)
      = optRes id (build (cbOps cmp sw) s (s.length : Int)) := by
  unfold Golib.Gen.Trans.C04.build build
  have hk : Int.tdiv (s.length : Int) 2 = (((s.length / 2 : Nat)) : Int) := by
    rw [Int.tdiv_eq_ediv_of_nonneg (by omega)]; omega
  have h := trans_build_loop cmp sw (s.length : Int) (s.length / 2) (s.length + 1) s (by omega)
  simp only [Int.ofNat_eq_natCast, hk, Int.toNat_natCast, h, bind, pure]
  cases buildLoop (cbOps cmp sw) (s.length : Int) (s.length / 2) s <;> rfl

end Golib.C04
