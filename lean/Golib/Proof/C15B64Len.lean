/-
Buffer sizes of the Base64 helpers: `Base64Encode` allocates `enc.EncodedLen(len(s))` bytes and
the encoder produces exactly that many; `Base64Decode` allocates `enc.DecodedLen(len(s))` bytes
and the decoder never produces more, for ANY input (valid or not) — so `dst[:n]` is in range.
-/
import Golib.Model.C15B64

namespace Golib.C15

/-- `Encoding.EncodedLen(n)`. -/
def encodedLen (e : B64Enc) (n : Nat) : Nat :=
  if e.pad then (n + 2) / 3 * 4 else n / 3 * 4 + (n % 3 * 8 + 5) / 6

/-- `Encoding.DecodedLen(n)`. -/
def decodedLen (e : B64Enc) (n : Nat) : Nat :=
  if e.pad then n / 4 * 3 else n * 6 / 8

theorem b64Encode_length (e : B64Enc) (x : List Nat) :
    (b64Encode e x).length = encodedLen e x.length := by
  obtain ⟨url, pad⟩ := e
  fun_induction b64Encode ⟨url, pad⟩ x with
  | case1 a b c rest v ih =>
    simp only [List.length_cons, ih, encodedLen]
    cases pad <;> simp <;> omega
  | case2 a b v => cases pad <;> simp [encodedLen]
  | case3 a v => cases pad <;> simp [encodedLen]
  | case4 => cases pad <;> simp [encodedLen]

theorem quantumBytes_length (dlen : Nat) (dbuf : List Nat) :
    (quantumBytes dlen dbuf).length = min (dlen - 1) 3 := by
  simp [quantumBytes]

theorem decodedLen_mono (e : B64Enc) {a b : Nat} (h : a ≤ b) : decodedLen e a ≤ decodedLen e b := by
  unfold decodedLen
  split
  · exact Nat.mul_le_mul_right 3 (Nat.div_le_div_right h)
  · exact Nat.div_le_div_right (Nat.mul_le_mul_right 6 h)

theorem decodedLen_add4 (e : B64Enc) (m : Nat) : decodedLen e (4 + m) = 3 + decodedLen e m := by
  unfold decodedLen
  split <;> omega

theorem skipNL_cons_ne {r : List Nat} {s : Nat} {d : Nat} {r3 : List Nat} {s2 : Nat}
    (h : skipNL r s = (d :: r3, s2)) : 1 ≤ r.length := by
  cases r with
  | nil => simp [skipNL] at h
  | cons _ _ => simp

theorem padTail_length (j : Nat) (dbuf out r : List Nat) (s : Nat) :
    (padTail j dbuf out r s).1.length = out.length + min (j - 1) 3 := by
  unfold padTail
  split <;> simp [quantumBytes_length]

/-- The decoder's output never exceeds what is left of `DecodedLen`. -/
theorem b64Dec_length (e : B64Enc) (total : Nat) : ∀ (src : List Nat) (si j : Nat) (dbuf out : List Nat),
    j ≤ 3 → (b64Dec e total src si j dbuf out).1.length ≤ out.length + decodedLen e (j + src.length)
  | [], si, j, dbuf, out, hj => by
    simp only [b64Dec]
    split
    · simp
    · split
      · simp
      · next h0 h1 =>
        have hp : e.pad = false := by
          cases hpd : e.pad with
          | false => rfl
          | true => exact absurd (Or.inr hpd) h1
        simp only [List.length_append, quantumBytes_length, List.length_nil, Nat.add_zero, decodedLen, hp]
        have : j = 2 ∨ j = 3 := by omega
        rcases this with rfl | rfl <;> simp
  | c :: rest, si, j, dbuf, out, hj => by
    simp only [b64Dec]
    split
    · next v hv =>
      split
      · next h3 =>
        subst h3
        have ih := b64Dec_length e total rest (si + 1) 0 [] (out ++ quantumBytes 4 (dbuf ++ [v])) (by omega)
        simp only [List.length_append, quantumBytes_length, Nat.zero_add] at ih
        have := decodedLen_add4 e rest.length
        simp only [List.length_cons]
        have h4 : 3 + (rest.length + 1) = 4 + rest.length := by omega
        rw [h4, this]
        omega
      · next h3 =>
        have ih := b64Dec_length e total rest (si + 1) (j + 1) (dbuf ++ [v]) out (by omega)
        simp only [List.length_cons]
        have : j + 1 + rest.length = j + (rest.length + 1) := by omega
        rw [this] at ih
        exact ih
    · split
      · have ih := b64Dec_length e total rest (si + 1) j dbuf out hj
        have := decodedLen_mono e (show j + rest.length ≤ j + (c :: rest).length by simp)
        omega
      · split
        · simp
        · split
          · simp
          · next hnl hpc hj2 =>
            have hp : e.pad = true := by
              cases hpd : e.pad with
              | true => rfl
              | false => exact absurd (fun h => by simp [hpd] at h) hpc
            split
            · next hj2' =>
              subst hj2'
              split
              · simp
              · next d r3 si2 hs =>
                split
                · simp
                · rw [padTail_length]
                  have h1 := skipNL_cons_ne hs
                  simp only [List.length_cons, decodedLen, hp, if_true]
                  omega
            · rw [padTail_length]
              simp only [List.length_cons, decodedLen, hp, if_true]
              have : j = 3 := by omega
              subst this
              omega

/-- `n ≤ DecodedLen(len(src))` for every input. -/
theorem b64Decode_length (e : B64Enc) (src : List Nat) :
    (b64Decode e src).1.length ≤ decodedLen e src.length := by
  have := b64Dec_length e src.length src 0 0 [] [] (by omega)
  simpa [b64Decode] using this

end Golib.C15
