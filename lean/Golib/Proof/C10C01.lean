/-
C10 ↔ C01: the one-step sequential model of `SyncRing` (Model/C10Sync.lean) is C01's
per-access machine (Model/C01Ring.lean, imported read-only) run by ONE thread to the
completion of each call.  So the access structure load tail / load seq / compare / CAS /
write value / store seq (and load head / load seq / compare / CAS / read / clear / store
for `Pop`) is part of C10's model too, and the source-order facts tie it.
-/
import Golib.Model.C10Sync
import Golib.Model.C01Ring

set_option linter.unusedSimpArgs false
set_option linter.unusedVariables false

namespace Golib.C10
open Golib.C01 (Cfg State Thread Pc Call Ret step)

/-- C01's configuration for a C10 ring: 32-bit tickets, the ring's capacity. -/
def cfgOf (r : SyncRing) : Cfg := { M := two32, cap := r.cap }

def convSlot (s : Slot) : C01.Slot := { seq := s.pos, val := s.value }

/-- The C01 state of ring `r` with a single thread standing at `pc`. -/
def embed (r : SyncRing) (pc : Pc) : State :=
  { head := r.head, tail := r.tail, slots := r.values.map convSlot,
    threads := [{ pc := pc, prog := [] }], crashed := false }

/-- Thread 0 runs alone until its current call returns (at most `fuel` accesses). -/
def soloCall (c : Cfg) : Nat → State → State × Option Ret
  | 0, s => (s, none)
  | k + 1, s =>
    let (s1, e) := step c s 0
    match e.ret with
    | some ret => (s1, some ret)
    | none => soloCall c k s1

theorem get_map (vs : List Slot) (i : Nat) :
    (vs.map convSlot)[i]? = (vs[i]?).map convSlot := by simp

theorem set_map (vs : List Slot) (i : Nat) (s : Slot) :
    (vs.map convSlot).set i (convSlot s) = (vs.set i s).map convSlot := by
  simp [List.map_set]

/-- a fresh ring of capacity 2, and the same after one `Push(7)` (concrete instances) -/
def ring2 : SyncRing :=
  { values := [⟨0, 0⟩, ⟨0, 1⟩], cap := 2, mask := 1, head := 0, tail := 0 }
def ring2one : SyncRing :=
  { values := [⟨7, 1⟩, ⟨0, 1⟩], cap := 2, mask := 1, head := 0, tail := 1 }

/-! ### one lemma per shared-memory access, then the compositions -/

theorem st_pushLoadTail (c : Cfg) (r : SyncRing) (v : Int) :
    step c (embed r (.pushLoadTail v)) 0 = (embed r (.pushLoadSeq v r.tail), ⟨0, .ldTail r.tail, none⟩) := rfl

theorem st_pushLoadSeq_eq (c : Cfg) (r : SyncRing) (v : Int) (pos : Nat) (h : Slot)
    (hg : r.values[c.idx pos]? = some h) (hp : pos = h.pos) :
    step c (embed r (.pushLoadSeq v pos)) 0 =
      (embed r (.pushCAS v pos h.pos), ⟨0, .ldSeq (c.idx pos) h.pos, none⟩) := by
  simp only [step, embed, List.getElem?_cons_zero, get_map, hg, Option.map_some, convSlot]
  simp [hp, C01.State.setPc]

theorem st_pushLoadSeq_ne (c : Cfg) (r : SyncRing) (v : Int) (pos : Nat) (h : Slot)
    (hg : r.values[c.idx pos]? = some h) (hp : pos ≠ h.pos) :
    step c (embed r (.pushLoadSeq v pos)) 0 =
      (embed r .idle, ⟨0, .ldSeq (c.idx pos) h.pos, some (.push false)⟩) := by
  simp only [step, embed, List.getElem?_cons_zero, get_map, hg, Option.map_some, convSlot]
  simp [hp, C01.State.fin, C01.Thread.finish]

theorem st_pushLoadSeq_none (c : Cfg) (r : SyncRing) (v : Int) (pos : Nat)
    (hg : r.values[c.idx pos]? = none) :
    (step c (embed r (.pushLoadSeq v pos)) 0).2.ret = some .panic := by
  simp only [step, embed, List.getElem?_cons_zero, get_map, hg, Option.map_none]

theorem st_pushCAS (c : Cfg) (r : SyncRing) (v : Int) (seq : Nat) :
    step c (embed r (.pushCAS v r.tail seq)) 0 =
      (embed { r with tail := c.norm (r.tail + 1) } (.pushWrite v r.tail seq),
        ⟨0, .casTail r.tail (c.norm (r.tail + 1)) true, none⟩) := by
  simp [step, embed, C01.State.setPc]

theorem st_pushWrite (c : Cfg) (r : SyncRing) (v : Int) (pos seq : Nat) (h : Slot)
    (hg : r.values[c.idx pos]? = some h) :
    step c (embed r (.pushWrite v pos seq)) 0 =
      (embed { r with values := r.values.set (c.idx pos) { h with value := v } } (.pushStore pos seq),
        ⟨0, .wrVal (c.idx pos) v, none⟩) := by
  simp only [step, embed, List.getElem?_cons_zero, get_map, hg, Option.map_some, convSlot]
  simp [C01.State.setPc, List.map_set, convSlot]

theorem st_pushStore (c : Cfg) (r : SyncRing) (pos seq : Nat) (h : Slot)
    (hg : r.values[c.idx pos]? = some h) :
    step c (embed r (.pushStore pos seq)) 0 =
      (embed { r with values := r.values.set (c.idx pos) { h with pos := c.norm (seq + 1) } } .idle,
        ⟨0, .stSeq (c.idx pos) (c.norm (seq + 1)), some (.push true)⟩) := by
  simp only [step, embed, List.getElem?_cons_zero, get_map, hg, Option.map_some, convSlot]
  simp [C01.State.fin, C01.Thread.finish, List.map_set, convSlot]

theorem soloCall_ret (c : Cfg) (k : Nat) (s s1 : State) (e : C01.Event) (x : Ret)
    (hs : step c s 0 = (s1, e)) (he : e.ret = some x) : soloCall c (k + 1) s = (s1, some x) := by
  simp only [soloCall, hs, he]

theorem soloCall_next (c : Cfg) (k : Nat) (s s1 : State) (e : C01.Event)
    (hs : step c s 0 = (s1, e)) (he : e.ret = none) : soloCall c (k + 1) s = soloCall c k s1 := by
  simp only [soloCall, hs, he]

theorem solo_push (r : SyncRing) (v : Int) (hm : r.mask = r.cap - 1) :
    (r.push v = none → (soloCall (cfgOf r) 6 (embed r (.pushLoadTail v))).2 = some .panic) ∧
    (∀ r' ok, r.push v = some (r', ok) →
      soloCall (cfgOf r) 6 (embed r (.pushLoadTail v)) = (embed r' .idle, some (.push ok))) := by
  have hidxg : ∀ p, (cfgOf r).idx p = p &&& r.mask := fun p => by simp [cfgOf, Cfg.idx, Cfg.mask, hm]
  have hidx : (cfgOf r).idx r.tail = r.tail &&& r.mask := hidxg _
  have hnorm : ∀ x, (cfgOf r).norm x = x % two32 := fun x => rfl
  rw [soloCall_next _ 5 _ _ _ (st_pushLoadTail (cfgOf r) r v) rfl]
  cases hg : r.values[r.tail &&& r.mask]? with
  | none =>
    refine ⟨fun _ => ?_, fun r' ok h => ?_⟩
    · have := st_pushLoadSeq_none (cfgOf r) r v r.tail (by rw [hidx]; exact hg)
      generalize hst : step (cfgOf r) (embed r (.pushLoadSeq v r.tail)) 0 = st at this
      obtain ⟨s1, e⟩ := st
      rw [soloCall_ret _ 4 _ s1 e _ hst this]
    · simp [SyncRing.push, hg] at h
  | some h =>
    have hg' : r.values[(cfgOf r).idx r.tail]? = some h := by rw [hidx]; exact hg
    refine ⟨fun hn => ?_, fun r' ok hp => ?_⟩
    · simp only [SyncRing.push, hg] at hn; split at hn <;> cases hn
    simp only [SyncRing.push, hg] at hp
    by_cases hpos : r.tail = h.pos
    · simp only [hpos, ne_eq, not_true_eq_false, if_false, Option.some.injEq, Prod.mk.injEq] at hp
      obtain ⟨rfl, rfl⟩ := hp
      rw [soloCall_next _ 4 _ _ _ (st_pushLoadSeq_eq (cfgOf r) r v r.tail h hg' hpos) rfl]
      rw [soloCall_next _ 3 _ _ _ (st_pushCAS (cfgOf r) r v h.pos) rfl]
      have hg1 : ({ r with tail := (cfgOf r).norm (r.tail + 1) } : SyncRing).values[(cfgOf r).idx r.tail]? = some h := hg'
      rw [soloCall_next _ 2 _ _ _ (st_pushWrite (cfgOf r) _ v r.tail h.pos h hg1) rfl]
      have hlt : (cfgOf r).idx r.tail < r.values.length := (List.getElem?_eq_some_iff.mp hg').1
      rw [soloCall_ret _ 1 _ _ _ _ (st_pushStore (cfgOf r) _ r.tail h.pos { h with value := v }
        (by simp only [List.getElem?_set_self hlt])) rfl]
      simp only [List.set_set, hidxg, hnorm, hpos]
    · simp only [hpos, ne_eq, not_false_eq_true, if_true, Option.some.injEq, Prod.mk.injEq] at hp
      obtain ⟨rfl, rfl⟩ := hp
      rw [soloCall_ret _ 4 _ _ _ _ (st_pushLoadSeq_ne (cfgOf r) r v r.tail h hg' hpos) rfl]

/-! ### Pop -/

theorem st_popLoadHead (c : Cfg) (r : SyncRing) :
    step c (embed r .popLoadHead) 0 = (embed r (.popLoadSeq r.head), ⟨0, .ldHead r.head, none⟩) := rfl

theorem st_popLoadSeq_eq (c : Cfg) (r : SyncRing) (pos : Nat) (h : Slot)
    (hg : r.values[c.idx pos]? = some h) (hp : c.norm (pos + 1) = h.pos) :
    step c (embed r (.popLoadSeq pos)) 0 =
      (embed r (.popCAS pos h.pos), ⟨0, .ldSeq (c.idx pos) h.pos, none⟩) := by
  simp only [step, embed, List.getElem?_cons_zero, get_map, hg, Option.map_some, convSlot]
  simp [hp, C01.State.setPc]

theorem st_popLoadSeq_ne (c : Cfg) (r : SyncRing) (pos : Nat) (h : Slot)
    (hg : r.values[c.idx pos]? = some h) (hp : c.norm (pos + 1) ≠ h.pos) :
    step c (embed r (.popLoadSeq pos)) 0 =
      (embed r .idle, ⟨0, .ldSeq (c.idx pos) h.pos, some (.pop 0 false)⟩) := by
  simp only [step, embed, List.getElem?_cons_zero, get_map, hg, Option.map_some, convSlot]
  simp [hp, C01.State.fin, C01.Thread.finish]

theorem st_popLoadSeq_none (c : Cfg) (r : SyncRing) (pos : Nat)
    (hg : r.values[c.idx pos]? = none) :
    (step c (embed r (.popLoadSeq pos)) 0).2.ret = some .panic := by
  simp only [step, embed, List.getElem?_cons_zero, get_map, hg, Option.map_none]

theorem st_popCAS (c : Cfg) (r : SyncRing) (seq : Nat) :
    step c (embed r (.popCAS r.head seq)) 0 =
      (embed { r with head := c.norm (r.head + 1) } (.popRead r.head seq),
        ⟨0, .casHead r.head (c.norm (r.head + 1)) true, none⟩) := by
  simp [step, embed, C01.State.setPc]

theorem st_popRead (c : Cfg) (r : SyncRing) (pos seq : Nat) (h : Slot)
    (hg : r.values[c.idx pos]? = some h) :
    step c (embed r (.popRead pos seq)) 0 =
      (embed r (.popClear pos seq h.value), ⟨0, .rdVal (c.idx pos) h.value, none⟩) := by
  simp only [step, embed, List.getElem?_cons_zero, get_map, hg, Option.map_some, convSlot]
  simp [C01.State.setPc]

theorem st_popClear (c : Cfg) (r : SyncRing) (pos seq : Nat) (x : Int) (h : Slot)
    (hg : r.values[c.idx pos]? = some h) :
    step c (embed r (.popClear pos seq x)) 0 =
      (embed { r with values := r.values.set (c.idx pos) { h with value := 0 } } (.popStore pos seq x),
        ⟨0, .wrVal (c.idx pos) 0, none⟩) := by
  simp only [step, embed, List.getElem?_cons_zero, get_map, hg, Option.map_some, convSlot]
  simp [C01.State.setPc, List.map_set, convSlot]

theorem st_popStore (c : Cfg) (r : SyncRing) (pos seq : Nat) (x : Int) (h : Slot)
    (hg : r.values[c.idx pos]? = some h) :
    step c (embed r (.popStore pos seq x)) 0 =
      (embed { r with values := r.values.set (c.idx pos) { h with pos := c.norm (seq + c.mask) } } .idle,
        ⟨0, .stSeq (c.idx pos) (c.norm (seq + c.mask)), some (.pop x true)⟩) := by
  simp only [step, embed, List.getElem?_cons_zero, get_map, hg, Option.map_some, convSlot]
  simp [C01.State.fin, C01.Thread.finish, List.map_set, convSlot]

theorem solo_pop (r : SyncRing) (hm : r.mask = r.cap - 1) :
    (r.pop = none → (soloCall (cfgOf r) 7 (embed r .popLoadHead)).2 = some .panic) ∧
    (∀ r' x ok, r.pop = some (r', x, ok) →
      soloCall (cfgOf r) 7 (embed r .popLoadHead) = (embed r' .idle, some (.pop x ok))) := by
  have hidxg : ∀ p, (cfgOf r).idx p = p &&& r.mask := fun p => by simp [cfgOf, Cfg.idx, Cfg.mask, hm]
  have hnorm : ∀ x, (cfgOf r).norm x = x % two32 := fun x => rfl
  have hmask : (cfgOf r).mask = r.mask := by simp [cfgOf, Cfg.mask, hm]
  rw [soloCall_next _ 6 _ _ _ (st_popLoadHead (cfgOf r) r) rfl]
  cases hg : r.values[r.head &&& r.mask]? with
  | none =>
    refine ⟨fun _ => ?_, fun r' x ok h => ?_⟩
    · have := st_popLoadSeq_none (cfgOf r) r r.head (by rw [hidxg]; exact hg)
      generalize hst : step (cfgOf r) (embed r (.popLoadSeq r.head)) 0 = st at this
      obtain ⟨s1, e⟩ := st
      rw [soloCall_ret _ 5 _ s1 e _ hst this]
    · simp [SyncRing.pop, hg] at h
  | some h =>
    have hg' : r.values[(cfgOf r).idx r.head]? = some h := by rw [hidxg]; exact hg
    refine ⟨fun hn => ?_, fun r' x ok hp => ?_⟩
    · simp only [SyncRing.pop, hg] at hn; split at hn <;> cases hn
    simp only [SyncRing.pop, hg] at hp
    by_cases hpos : (r.head + 1) % two32 = h.pos
    · simp only [hpos, ne_eq, not_true_eq_false, if_false, Option.some.injEq, Prod.mk.injEq] at hp
      obtain ⟨rfl, rfl, rfl⟩ := hp
      rw [soloCall_next _ 5 _ _ _ (st_popLoadSeq_eq (cfgOf r) r r.head h hg' hpos) rfl]
      rw [soloCall_next _ 4 _ _ _ (st_popCAS (cfgOf r) r h.pos) rfl]
      have hg1 : ({ r with head := (cfgOf r).norm (r.head + 1) } : SyncRing).values[(cfgOf r).idx r.head]? = some h := hg'
      rw [soloCall_next _ 3 _ _ _ (st_popRead (cfgOf r) _ r.head h.pos h hg1) rfl]
      rw [soloCall_next _ 2 _ _ _ (st_popClear (cfgOf r) _ r.head h.pos h.value h hg1) rfl]
      have hlt : (cfgOf r).idx r.head < r.values.length := (List.getElem?_eq_some_iff.mp hg').1
      rw [soloCall_ret _ 1 _ _ _ _ (st_popStore (cfgOf r) _ r.head h.pos h.value { h with value := 0 }
        (by simp only [List.getElem?_set_self hlt])) rfl]
      simp only [List.set_set, hidxg, hnorm, hmask, hpos]
    · simp only [hpos, ne_eq, not_false_eq_true, if_true, Option.some.injEq, Prod.mk.injEq] at hp
      obtain ⟨rfl, rfl, rfl⟩ := hp
      rw [soloCall_ret _ 5 _ _ _ _ (st_popLoadSeq_ne (cfgOf r) r r.head h hg' hpos) rfl]

/-! ### Len / IsEmpty / IsFull (two loads each) -/

theorem solo_len (r : SyncRing) (hh : r.head < two32) :
    soloCall (cfgOf r) 2 (embed r .lenLoadTail) = (embed r .idle, some (.len r.len)) := by
  have h1 : step (cfgOf r) (embed r .lenLoadTail) 0 = (embed r (.lenLoadHead r.tail), ⟨0, .ldTail r.tail, none⟩) := rfl
  have h2 : step (cfgOf r) (embed r (.lenLoadHead r.tail)) 0 =
      (embed r .idle, ⟨0, .ldHead r.head, some (.len ((cfgOf r).lenOf r.tail r.head))⟩) := rfl
  rw [soloCall_next _ 1 _ _ _ h1 rfl, soloCall_ret _ 0 _ _ _ _ h2 rfl]
  have : (cfgOf r).lenOf r.tail r.head = r.len := by
    simp only [Cfg.lenOf, Cfg.sub, cfgOf, SyncRing.len, Nat.mod_eq_of_lt hh]
    simp [two32]
  rw [this]

theorem solo_isEmpty (r : SyncRing) :
    soloCall (cfgOf r) 2 (embed r .emptyLoadHead) = (embed r .idle, some (.isEmpty r.isEmpty)) := by
  have h1 : step (cfgOf r) (embed r .emptyLoadHead) 0 = (embed r (.emptyLoadTail r.head), ⟨0, .ldHead r.head, none⟩) := rfl
  have h2 : step (cfgOf r) (embed r (.emptyLoadTail r.head)) 0 =
      (embed r .idle, ⟨0, .ldTail r.tail, some (.isEmpty (r.head == r.tail))⟩) := rfl
  rw [soloCall_next _ 1 _ _ _ h1 rfl, soloCall_ret _ 0 _ _ _ _ h2 rfl]
  rfl

theorem solo_isFull (r : SyncRing) (hh : r.head < two32) :
    soloCall (cfgOf r) 2 (embed r .fullLoadTail) = (embed r .idle, some (.isFull r.isFull)) := by
  have h1 : step (cfgOf r) (embed r .fullLoadTail) 0 = (embed r (.fullLoadHead r.tail), ⟨0, .ldTail r.tail, none⟩) := rfl
  have h2 : step (cfgOf r) (embed r (.fullLoadHead r.tail)) 0 =
      (embed r .idle, ⟨0, .ldHead r.head, some (.isFull ((cfgOf r).sub r.tail r.head == (cfgOf r).cap))⟩) := rfl
  rw [soloCall_next _ 1 _ _ _ h1 rfl, soloCall_ret _ 0 _ _ _ _ h2 rfl]
  have : ((cfgOf r).sub r.tail r.head == (cfgOf r).cap) = r.isFull := by
    simp only [Cfg.sub, cfgOf, SyncRing.isFull, Nat.mod_eq_of_lt hh]
    simp [two32]
  rw [this]

end Golib.C10
