/-
C05 helper lemmas: byte-level statements about `find` / `FindAll` / `Match` on a trie built
by `Trie.ofPatterns` (Insert* + BuildFailureLinks).
-/
import Golib.Proof.C05Build
import Golib.Proof.C05Align

set_option linter.unusedSimpArgs false
set_option linter.unusedVariables false

namespace Golib.C05
open Golib

theorem sliceInt?_mid (U M W : List Nat) :
    sliceInt? (U ++ M ++ W) (U.length : Int) ((U.length + M.length : Nat) : Int) = some M := by
  have h1 : (0 : Int) ≤ (U.length : Int) := Int.natCast_nonneg _
  have h2 : (U.length : Int) ≤ ((U.length + M.length : Nat) : Int) := by omega
  have h3 : ((U.length + M.length : Nat) : Int) ≤ ((U ++ M ++ W).length : Int) := by
    simp only [List.length_append]; omega
  simp only [sliceInt?, h1, h2, h3, and_self, if_true, Int.toNat_natCast]
  congr 1
  apply List.ext_getElem?; intro i
  simp only [List.getElem?_take, List.getElem?_drop, List.getElem?_append, List.length_append]
  grind

/-- Byte-level occurrence of pattern `p` in `text` ending at `stop`, as a scope. -/
def IsOcc (pats : List (List Nat)) (text : List Nat) (s : Scope) : Prop :=
  0 ≤ s.start ∧ s.start < s.stop ∧ s.stop ≤ text.length ∧
    ∃ p ∈ pats, p ≠ [] ∧ sliceInt? text s.start s.stop = some p

/-- `find` on a built trie: no panic; the scopes are sorted by end, non-empty, inside the
text, and each is a byte-for-byte occurrence of an inserted pattern. -/
theorem find_sound (pats : List (List Nat)) (text : List Nat) (hp : ∀ p ∈ pats, Bytes p)
    (ht : Bytes text) (t : Trie) (hbuilt : Trie.ofPatterns pats = some t) :
    t.find text = some (findSpec t.pats (decodeAll text) [] 0) ∧
    C06.SortedByStop (findSpec t.pats (decodeAll text) [] 0) ∧
    ∀ s ∈ findSpec t.pats (decodeAll text) [] 0, IsOcc pats text s := by
  obtain ⟨t', h1, h2, h3⟩ := ofPatterns_spec pats
  rw [hbuilt] at h1; cases h1
  have hwf := decodedPats_wf pats hp
  rw [h2]
  have htw := decodeAll_wf text ht
  refine ⟨?_, findSpec_sorted _ hwf _ [] 0 htw rfl, ?_⟩
  · have := findSteps_spec t h3 (decodeAll text)
    rw [h2] at this
    exact this
  · intro s hs
    obtain ⟨u, m, w, e1, e2, e3, e4, e5, e6⟩ := findSpec_mem _ hwf _ [] 0 htw rfl s hs
    have htext : text = encodeLabel u ++ encodeLabel m ++ encodeLabel w := by
      rw [← encodeLabel_append, ← encodeLabel_append, ← e1, List.nil_append, decodeAll_encode text ht]
    obtain ⟨p, hpm, hpl⟩ := (isEnd_decodedPats pats m e2).1 e3
    have hpe : encodeLabel m = p := by rw [← hpl, decodeAll_encode p (hp p hpm)]
    have hmpos := encodeLabel_length_pos e2
    refine ⟨by omega, by omega, ?_, p, hpm, ?_, ?_⟩
    · rw [e5, htext]; simp only [List.length_append]; omega
    · intro hnil; rw [← hpe] at hnil; rw [hnil] at hmpos; simp at hmpos
    · rw [e4, e5, ← hpe]
      conv => lhs; rw [htext]
      exact sliceInt?_mid _ _ _

theorem cutAll_spec (text : List Nat) : ∀ (scopes : List Scope),
    (∀ s ∈ scopes, ∃ w, sliceInt? text s.start s.stop = some w) →
    ∃ ws, cutAll text scopes = some ws ∧ ws.length = scopes.length ∧
      ∀ k, (h : k < scopes.length) → ∃ w, ws[k]? = some w ∧
        sliceInt? text scopes[k].start scopes[k].stop = some w := by
  intro scopes
  induction scopes with
  | nil => intro _; exact ⟨[], rfl, rfl, fun k h => by simp at h⟩
  | cons s ss ih =>
    intro h
    obtain ⟨w, hw⟩ := h s (by simp)
    obtain ⟨ws, h1, h2, h3⟩ := ih fun x hx => h x (by simp [hx])
    refine ⟨w :: ws, by simp only [cutAll, hw, h1, Option.map_some], by simp [h2], ?_⟩
    intro k hk
    cases k with
    | zero => exact ⟨w, rfl, hw⟩
    | succ k =>
      obtain ⟨w', e1, e2⟩ := h3 k (by simpa using hk)
      exact ⟨w', by simpa using e1, by simpa using e2⟩

/-! ### completeness -/

/-- Rune level: every suffix of the text read up to a position that is an inserted pattern
is reported at that position. -/
theorem findSpec_complete (ps : List (List Step)) : ∀ (X : List Step) (r : Int) (sz : Nat) (Y : List Step)
    (seen : Label) (i : Nat) (m : Label), m ∈ neTails (seen ++ lab X ++ [r]) → isEnd ps m = true →
    (⟨((i + (X.map (·.2)).sum + sz : Nat) : Int) - sizeOf ps m, ((i + (X.map (·.2)).sum + sz : Nat) : Int)⟩ : Scope)
      ∈ findSpec ps (X ++ (r, sz) :: Y) seen i := by
  intro X
  induction X with
  | nil =>
    intro r sz Y seen i m hm he
    simp only [List.nil_append, findSpec, List.mem_append, List.map_nil, List.sum_nil, Nat.add_zero]
    left
    simp only [outSpec, List.mem_map, List.mem_filter]
    refine ⟨m, ⟨?_, he⟩, rfl⟩
    simpa [lab] using hm
  | cons st X ih =>
    intro r sz Y seen i m hm he
    obtain ⟨r0, s0⟩ := st
    simp only [List.cons_append, findSpec, List.mem_append]
    right
    have := ih r sz Y (seen ++ [r0]) (i + s0) m (by simpa [lab, List.append_assoc] using hm) he
    simp only [List.map_cons, List.sum_cons]
    have e : i + (s0 + (X.map (·.2)).sum) + sz = i + s0 + (X.map (·.2)).sum + sz := by omega
    rw [e]; exact this

/-- Byte level: every occurrence of a non-empty valid-UTF-8 pattern in arbitrary bytes is
reported by `find`. -/
theorem find_complete (pats : List (List Nat)) (hp : ∀ p ∈ pats, Bytes p)
    (A p B : List Nat) (hpm : p ∈ pats) (hne : p ≠ []) (hv : ValidUtf8 p) (hb : Bytes (A ++ p ++ B)) :
    (⟨(A.length : Int), ((A.length + p.length : Nat) : Int)⟩ : Scope)
      ∈ findSpec (decodedPats pats) (decodeAll (A ++ p ++ B)) [] 0 := by
  obtain ⟨X, Y, hdec, hX⟩ := decodeAll_occurrence A p B hb hv hne
  have hpb := hp p hpm
  have hdne : decodeAll p ≠ [] := fun h => hne ((decodeAll_eq_nil_iff p).1 h)
  rcases List.eq_nil_or_concat (decodeAll p) with h | ⟨M, last, hM⟩
  · exact absurd h hdne
  · obtain ⟨r, sz⟩ := last
    rw [List.concat_eq_append] at hM
    have hsteps : decodeAll (A ++ p ++ B) = (X ++ M) ++ (r, sz) :: Y := by
      rw [hdec, hM]; simp
    have hm : lab (decodeAll p) ∈ neTails ([] ++ lab (X ++ M) ++ [r]) := by
      rw [mem_neTails]
      refine ⟨by rw [hM]; simp [lab], ?_⟩
      rw [hM]
      exact ⟨lab X, by simp [lab]⟩
    have hend : isEnd (decodedPats pats) (lab (decodeAll p)) = true := by
      refine (isEnd_decodedPats pats _ ?_).2 ⟨p, hpm, rfl⟩
      rw [hM]; simp [lab]
    have := findSpec_complete (decodedPats pats) (X ++ M) r sz Y [] 0 _ hm hend
    rw [← hsteps] at this
    have hsz : sizeOf (decodedPats pats) (lab (decodeAll p)) = p.length := by
      rw [sizeOf_eq _ (decodedPats_wf pats hp) _ (isEnd_isNode hend) (by rw [hM]; simp [lab]),
        decodeAll_encode p hpb]
    have hw : ((X ++ M).map (·.2)).sum + sz = A.length + p.length := by
      have h1 := decodeAll_widths p hpb
      rw [hM] at h1
      simp only [List.map_append, List.sum_append, List.map_cons, List.map_nil, List.sum_cons,
        List.sum_nil] at h1 ⊢
      omega
    rw [hsz] at this
    have e1 : (0 + ((X ++ M).map (·.2)).sum + sz : Nat) = A.length + p.length := by omega
    rw [e1] at this
    have e2 : ((A.length + p.length : Nat) : Int) - (p.length : Int) = (A.length : Int) := by omega
    rw [e2] at this
    exact this

/-! ### one entry per (pattern, position) -/

theorem neTails_pairwise : ∀ n : Label,
    (neTails n).Pairwise fun a b => b <:+ a ∧ b.length < a.length
  | [] => List.Pairwise.nil
  | a :: l => by
    simp only [neTails]
    refine List.Pairwise.cons (fun b hb => ?_) (neTails_pairwise l)
    obtain ⟨_, hs⟩ := (mem_neTails b l).1 hb
    exact ⟨hs.trans (List.suffix_cons a l), by have := hs.length_le; simp only [List.length_cons]; omega⟩

theorem outSpec_nodup (ps : List (List Step)) (hwf : ∀ p ∈ ps, StepsWF p) (i : Nat) (n : Label) :
    (outSpec ps i n).Nodup := by
  simp only [outSpec, List.nodup_iff_pairwise_ne, List.pairwise_map]
  have h := (neTails_pairwise n).filter (isEnd ps)
  refine List.Pairwise.imp_of_mem ?_ h
  intro a b ha hb hab
  simp only [List.mem_filter] at ha hb
  have hane := ((mem_neTails a n).1 ha.1).1
  have hbne := ((mem_neTails b n).1 hb.1).1
  rw [sizeOf_eq ps hwf a (isEnd_isNode ha.2) hane, sizeOf_eq ps hwf b (isEnd_isNode hb.2) hbne]
  obtain ⟨⟨u, hu⟩, hlt⟩ := hab
  have hune : u ≠ [] := by
    intro h; subst h; simp at hu; subst hu; omega
  have := encodeLabel_length_pos hune
  intro heq
  have : (encodeLabel a).length = (encodeLabel b).length := by
    have := congrArg Scope.start heq; simp only [] at this; omega
  rw [← hu, encodeLabel_append, List.length_append] at this
  omega

/-- `find` never reports the same (start, stop) twice. -/
theorem findSpec_nodup (ps : List (List Step)) (hwf : ∀ p ∈ ps, StepsWF p) :
    ∀ (steps : List Step) (seen : Label) (i : Nat), StepsWF steps → i = (encodeLabel seen).length →
    (findSpec ps steps seen i).Nodup := by
  intro steps
  induction steps with
  | nil => intro seen i _ _; simp [findSpec]
  | cons st rest ih =>
    intro seen i hw hi
    obtain ⟨r, sz⟩ := st
    have hst := hw (r, sz) (by simp)
    have hrest : StepsWF rest := fun x hx => hw x (by simp [hx])
    simp only [] at hst
    have hi' : i + sz = (encodeLabel (seen ++ [r])).length := by
      rw [encodeLabel_append, List.length_append, hi, hst.1]
      simp [encodeLabel]
    simp only [findSpec, List.nodup_append]
    refine ⟨outSpec_nodup ps hwf _ _, ih (seen ++ [r]) (i + sz) hrest hi', ?_⟩
    intro a ha b hb hab
    simp only [outSpec, List.mem_map] at ha
    obtain ⟨m, _, rfl⟩ := ha
    obtain ⟨_, _, _, _, _, _, _, _, h6⟩ := findSpec_mem ps hwf rest (seen ++ [r]) (i + sz) hrest hi' b hb
    rw [← hab] at h6
    simp only [] at h6; omega

/-- Order of `find`'s output: by end position, and for equal end positions by increasing
start (= decreasing length). -/
def ScopeLt (a b : Scope) : Prop := a.stop < b.stop ∨ (a.stop = b.stop ∧ a.start < b.start)

theorem outSpec_lex (ps : List (List Step)) (hwf : ∀ p ∈ ps, StepsWF p) (i : Nat) (n : Label) :
    (outSpec ps i n).Pairwise ScopeLt := by
  simp only [outSpec, List.pairwise_map]
  have h := (neTails_pairwise n).filter (isEnd ps)
  refine List.Pairwise.imp_of_mem ?_ h
  intro a b ha hb hab
  simp only [List.mem_filter] at ha hb
  have hane := ((mem_neTails a n).1 ha.1).1
  have hbne := ((mem_neTails b n).1 hb.1).1
  right
  refine ⟨rfl, ?_⟩
  simp only []
  rw [sizeOf_eq ps hwf a (isEnd_isNode ha.2) hane, sizeOf_eq ps hwf b (isEnd_isNode hb.2) hbne]
  obtain ⟨⟨u, hu⟩, hlt⟩ := hab
  have hune : u ≠ [] := by
    intro h; subst h; simp at hu; subst hu; omega
  have := encodeLabel_length_pos hune
  rw [← hu, encodeLabel_append, List.length_append]
  omega

theorem findSpec_lex (ps : List (List Step)) (hwf : ∀ p ∈ ps, StepsWF p) :
    ∀ (steps : List Step) (seen : Label) (i : Nat), StepsWF steps → i = (encodeLabel seen).length →
    (findSpec ps steps seen i).Pairwise ScopeLt := by
  intro steps
  induction steps with
  | nil => intro seen i _ _; simp [findSpec]
  | cons st rest ih =>
    intro seen i hw hi
    obtain ⟨r, sz⟩ := st
    have hst := hw (r, sz) (by simp)
    have hrest : StepsWF rest := fun x hx => hw x (by simp [hx])
    simp only [] at hst
    have hi' : i + sz = (encodeLabel (seen ++ [r])).length := by
      rw [encodeLabel_append, List.length_append, hi, hst.1]
      simp [encodeLabel]
    simp only [findSpec, List.pairwise_append]
    refine ⟨outSpec_lex ps hwf _ _, ih (seen ++ [r]) (i + sz) hrest hi', ?_⟩
    intro a ha b hb
    simp only [outSpec, List.mem_map] at ha
    obtain ⟨m, _, rfl⟩ := ha
    obtain ⟨_, _, _, _, _, _, _, _, h6⟩ := findSpec_mem ps hwf rest (seen ++ [r]) (i + sz) hrest hi' b hb
    left; simp only []; omega

/-! ### Match and FindAll on a built trie -/

theorem match_spec (pats : List (List Nat)) (text : List Nat) (t : Trie)
    (hbuilt : Trie.ofPatterns pats = some t) :
    t.match text = some (matchSpec t.pats (decodeAll text) []) ∧
    (matchSpec t.pats (decodeAll text) [] = true ↔ findSpec t.pats (decodeAll text) [] 0 ≠ []) := by
  obtain ⟨t', h1, h2, h3⟩ := ofPatterns_spec pats
  rw [hbuilt] at h1; cases h1
  exact ⟨matchSteps_spec t h3 (decodeAll text), matchSpec_iff_findSpec _ _ _ _⟩

theorem findAll_spec (pats : List (List Nat)) (text : List Nat) (hp : ∀ p ∈ pats, Bytes p)
    (ht : Bytes text) (t : Trie) (hbuilt : Trie.ofPatterns pats = some t) :
    ∃ ws, t.findAll text = some ws ∧
      ws.length = (findSpec t.pats (decodeAll text) [] 0).length ∧
      ∀ k, (h : k < (findSpec t.pats (decodeAll text) [] 0).length) → ∃ w, ws[k]? = some w ∧ w ∈ pats ∧
        sliceInt? text (findSpec t.pats (decodeAll text) [] 0)[k].start
          (findSpec t.pats (decodeAll text) [] 0)[k].stop = some w := by
  obtain ⟨hf, _, hocc⟩ := find_sound pats text hp ht t hbuilt
  obtain ⟨ws, h1, h2, h3⟩ := cutAll_spec text (findSpec t.pats (decodeAll text) [] 0) (by
    intro s hs
    obtain ⟨_, _, _, p, _, _, hsl⟩ := hocc s hs
    exact ⟨p, hsl⟩)
  refine ⟨ws, ?_, h2, ?_⟩
  · have hf' : findSteps t (decodeAllWith decodeStep text) = some (findSpec t.pats (decodeAll text) [] 0) := hf
    simp only [Trie.findAll, findAllWith, hf', h1]
  · intro k hk
    obtain ⟨w, e1, e2⟩ := h3 k hk
    obtain ⟨_, _, _, p, hpm, _, hsl⟩ := hocc _ (List.getElem_mem hk)
    rw [hsl] at e2
    have : p = w := by injection e2
    subst this
    exact ⟨p, e1, hpm, hsl⟩

end Golib.C05
