/-
The executable codecs of `Golib/Model/C09Enc.lean` (base64 StdEncoding, hex) and the
executable MD5 of `Golib/Model/C09Md5.lean` satisfy the hypotheses the C09 property
theorems are parametric in: output length / byte range of `md5`, and
`decode (encode x) = some x` for hex and base64 on byte strings.
-/
import Golib.Model.C09Enc
import Golib.Model.C09Md5
import Golib.Model.C08Pad

namespace Golib.C09
open Golib.C08

/-! ### MD5: output shape -/

theorem leBytes_length (n len : Nat) : (MD5.leBytes n len).length = len := by
  simp [MD5.leBytes]

theorem leBytes_bytes (n len : Nat) : IsBytes (MD5.leBytes n len) := by
  intro y hy
  simp only [MD5.leBytes, List.mem_map] at hy
  obtain ⟨i, _, rfl⟩ := hy
  exact Nat.mod_lt _ (by decide)

theorem isBytes_appendE {x y : Bytes} (hx : IsBytes x) (hy : IsBytes y) : IsBytes (x ++ y) := by
  intro z hz
  rcases List.mem_append.mp hz with h | h
  · exact hx z h
  · exact hy z h

theorem md5_length (x : Bytes) : (MD5.md5 x).length = 16 := by
  simp [MD5.md5, leBytes_length]

theorem md5_bytes (x : Bytes) : IsBytes (MD5.md5 x) := by
  simp only [MD5.md5]
  exact isBytes_appendE (isBytes_appendE (isBytes_appendE (leBytes_bytes _ _) (leBytes_bytes _ _))
    (leBytes_bytes _ _)) (leBytes_bytes _ _)

/-! ### hex -/

theorem fromHexChar_hexDigitLower : ∀ v, v < 16 →
    Enc.fromHexChar (Enc.hexDigitLower v) = some v := by
  decide

theorem hexDigitLower_lt : ∀ v, v < 16 → Enc.hexDigitLower v < 256 := by
  decide

theorem hexEncode_cons (a : Nat) (x : List Nat) :
    Enc.hexEncode (a :: x) =
      Enc.hexDigitLower (a / 16 % 16) :: Enc.hexDigitLower (a % 16) :: Enc.hexEncode x := by
  simp [Enc.hexEncode]

theorem hex_decode_encode (x : Bytes) (hx : IsBytes x) :
    Enc.hexDecode (Enc.hexEncode x) = some x := by
  induction x with
  | nil => simp [Enc.hexEncode, Enc.hexDecode]
  | cons a x ih =>
    have ha : a < 256 := hx a (by simp)
    have hx' : IsBytes x := fun y hy => hx y (by simp [hy])
    rw [hexEncode_cons]
    simp only [Enc.hexDecode, fromHexChar_hexDigitLower _ (Nat.mod_lt _ (by decide : 16 > 0)),
      ih hx']
    congr 2
    omega

theorem hex_encode_bytes (x : Bytes) (hx : IsBytes x) : IsBytes (Enc.hexEncode x) := by
  have _ := hx
  intro y hy
  simp only [Enc.hexEncode, List.mem_flatMap] at hy
  obtain ⟨a, _, hy⟩ := hy
  simp only [List.mem_cons, List.not_mem_nil, or_false] at hy
  rcases hy with rfl | rfl <;> exact hexDigitLower_lt _ (Nat.mod_lt _ (by decide))

/-! ### base64 -/

theorem b64_table : ∀ v, v < 64 →
    Enc.b64Val (Enc.b64Char v) = some v ∧ Enc.isNL (Enc.b64Char v) = false ∧
      Enc.b64Char v ≠ 61 ∧ Enc.b64Char v < 256 := by
  decide +kernel

theorem b64Char_mod (v : Nat) : Enc.b64Char (v % 64) = Enc.b64Char v := by
  simp [Enc.b64Char]

theorem b64Val_b64Char (v : Nat) : Enc.b64Val (Enc.b64Char v) = some (v % 64) := by
  rw [← b64Char_mod]
  exact (b64_table _ (Nat.mod_lt _ (by decide))).1

theorem b64Char_lt (v : Nat) : Enc.b64Char v < 256 := by
  rw [← b64Char_mod]
  exact (b64_table _ (Nat.mod_lt _ (by decide))).2.2.2

theorem b64Char_ne_nil_cons (v : Nat) (l : List Nat) : Enc.b64Char v :: l ≠ [] := by simp

/-- one alphabet character is consumed as a sextet -/
theorem quantum_char (j : Nat) (hj : j ≠ 4) (acc rest : List Nat) (v fuel : Nat) :
    Enc.quantum j acc (Enc.b64Char v :: rest) (fuel + 1) =
      Enc.quantum (j + 1) (acc ++ [v % 64]) rest fuel := by
  simp [Enc.quantum, hj, b64Val_b64Char]

theorem quantum_done (acc src : List Nat) (fuel : Nat) :
    Enc.quantum 4 acc src (fuel + 1) = some (acc, src) := by
  simp [Enc.quantum]

theorem quantum_pad2 (acc : List Nat) (fuel : Nat) :
    Enc.quantum 2 acc [61, 61] (fuel + 1) = some (acc, []) := by
  simp [Enc.quantum, Enc.b64Val, Enc.isNL, Enc.skipNL]

theorem quantum_pad1 (acc : List Nat) (fuel : Nat) :
    Enc.quantum 3 acc [61] (fuel + 1) = some (acc, []) := by
  simp [Enc.quantum, Enc.b64Val, Enc.isNL, Enc.skipNL]

theorem quantum_full (v0 v1 v2 v3 : Nat) (rest : List Nat) (fuel : Nat) (hf : 5 ≤ fuel) :
    Enc.quantum 0 [] (Enc.b64Char v0 :: Enc.b64Char v1 :: Enc.b64Char v2 :: Enc.b64Char v3 :: rest)
      fuel = some ([v0 % 64, v1 % 64, v2 % 64, v3 % 64], rest) := by
  obtain ⟨k, rfl⟩ : ∃ k, fuel = k + 5 := ⟨fuel - 5, by omega⟩
  rw [quantum_char 0 (by decide), quantum_char 1 (by decide), quantum_char 2 (by decide),
    quantum_char 3 (by decide), quantum_done]
  rfl

theorem quantum_two (v0 v1 v2 : Nat) (fuel : Nat) (hf : 4 ≤ fuel) :
    Enc.quantum 0 [] [Enc.b64Char v0, Enc.b64Char v1, Enc.b64Char v2, 61]
      fuel = some ([v0 % 64, v1 % 64, v2 % 64], []) := by
  obtain ⟨k, rfl⟩ : ∃ k, fuel = k + 4 := ⟨fuel - 4, by omega⟩
  rw [quantum_char 0 (by decide), quantum_char 1 (by decide), quantum_char 2 (by decide),
    quantum_pad1]
  rfl

theorem quantum_one (v0 v1 : Nat) (fuel : Nat) (hf : 3 ≤ fuel) :
    Enc.quantum 0 [] [Enc.b64Char v0, Enc.b64Char v1, 61, 61]
      fuel = some ([v0 % 64, v1 % 64], []) := by
  obtain ⟨k, rfl⟩ : ∃ k, fuel = k + 3 := ⟨fuel - 3, by omega⟩
  rw [quantum_char 0 (by decide), quantum_char 1 (by decide), quantum_pad2]
  rfl

theorem sextets_three (a b c : Nat) (ha : a < 256) (hb : b < 256) (hc : c < 256) :
    Enc.sextetsToBytes [(a * 65536 + b * 256 + c) / 262144 % 64,
      (a * 65536 + b * 256 + c) / 4096 % 64, (a * 65536 + b * 256 + c) / 64 % 64,
      (a * 65536 + b * 256 + c) % 64] = [a, b, c] := by
  simp only [Enc.sextetsToBytes, List.getD_cons_zero, List.getD_cons_succ, List.length_cons,
    List.length_nil]
  simp only [List.cons.injEq, and_true]
  omega

theorem sextets_two (a b : Nat) (ha : a < 256) (hb : b < 256) :
    Enc.sextetsToBytes [(a * 65536 + b * 256) / 262144 % 64,
      (a * 65536 + b * 256) / 4096 % 64, (a * 65536 + b * 256) / 64 % 64] = [a, b] := by
  simp only [Enc.sextetsToBytes, List.getD_cons_zero, List.getD_cons_succ, List.length_cons,
    List.length_nil, List.getD_nil]
  simp only [List.cons.injEq, and_true]
  omega

theorem sextets_one (a : Nat) (ha : a < 256) :
    Enc.sextetsToBytes [(a * 65536) / 262144 % 64, (a * 65536) / 4096 % 64] = [a] := by
  simp only [Enc.sextetsToBytes, List.getD_cons_zero, List.getD_cons_succ, List.length_cons,
    List.length_nil, List.getD_nil]
  simp only [List.cons.injEq, and_true]
  omega

theorem b64_loop (n : Nat) : ∀ (x : Bytes), x.length ≤ n → IsBytes x → ∀ (fuel : Nat) (out : List Nat),
    x.length + 1 ≤ fuel → Enc.b64DecodeLoop fuel (Enc.b64Encode x) out = some (out ++ x) := by
  induction n with
  | zero =>
    intro x hn _ fuel out hf
    obtain rfl : x = [] := List.eq_nil_of_length_eq_zero (by omega)
    obtain ⟨k, rfl⟩ : ∃ k, fuel = k + 1 := ⟨fuel - 1, by simp at hf; omega⟩
    simp [Enc.b64Encode, Enc.b64DecodeLoop]
  | succ n ih =>
    intro x hn hx fuel out hf
    obtain ⟨k, rfl⟩ : ∃ k, fuel = k + 1 := ⟨fuel - 1, by omega⟩
    match x, hn, hx, hf with
    | [], _, _, _ => simp [Enc.b64Encode, Enc.b64DecodeLoop]
    | [a], _, hx, hf =>
      have ha : a < 256 := hx a (by simp)
      obtain ⟨k, rfl⟩ : ∃ k', k = k' + 1 := ⟨k - 1, by simp at hf; omega⟩
      simp only [Enc.b64Encode, Enc.b64DecodeLoop]
      rw [quantum_one _ _ _ (by simp)]
      simp only [sextets_one a ha]
    | [a, b], _, hx, hf =>
      have ha : a < 256 := hx a (by simp)
      have hb : b < 256 := hx b (by simp)
      obtain ⟨k, rfl⟩ : ∃ k', k = k' + 1 := ⟨k - 1, by simp at hf; omega⟩
      simp only [Enc.b64Encode, Enc.b64DecodeLoop]
      rw [quantum_two _ _ _ _ (by simp)]
      simp only [sextets_two a b ha hb]
    | a :: b :: c :: rest, hn, hx, hf =>
      have ha : a < 256 := hx a (by simp)
      have hb : b < 256 := hx b (by simp)
      have hc : c < 256 := hx c (by simp)
      have hr : IsBytes rest := fun y hy => hx y (by simp [hy])
      simp only [Enc.b64Encode, Enc.b64DecodeLoop]
      rw [quantum_full _ _ _ _ _ _ (by simp)]
      simp only [sextets_three a b c ha hb hc]
      rw [ih rest (by simp at hn; omega) hr k _ (by simp at hf; omega)]
      simp

theorem b64Encode_length_ge (x : List Nat) : x.length ≤ (Enc.b64Encode x).length := by
  fun_induction Enc.b64Encode x <;> simp at * <;> omega

/-- the main one: Go-style base64 StdEncoding decoding inverts encoding on byte strings -/
theorem b64_decode_encode (x : Bytes) (hx : IsBytes x) :
    Enc.b64Decode (Enc.b64Encode x) = some x := by
  have h := b64_loop x.length x (Nat.le_refl _) hx ((Enc.b64Encode x).length + 1) []
    (by have := b64Encode_length_ge x; omega)
  simpa [Enc.b64Decode] using h

theorem b64_encode_bytes (x : Bytes) : IsBytes (Enc.b64Encode x) := by
  fun_induction Enc.b64Encode x with
  | case1 a b c rest v ih =>
    intro y hy
    simp only [List.mem_cons] at hy
    rcases hy with rfl | rfl | rfl | rfl | hy
    · exact b64Char_lt _
    · exact b64Char_lt _
    · exact b64Char_lt _
    · exact b64Char_lt _
    · exact ih y hy
  | case2 a b v =>
    intro y hy
    simp only [List.mem_cons, List.not_mem_nil, or_false] at hy
    rcases hy with rfl | rfl | rfl | rfl
    · exact b64Char_lt _
    · exact b64Char_lt _
    · exact b64Char_lt _
    · decide
  | case3 a v =>
    intro y hy
    simp only [List.mem_cons, List.not_mem_nil, or_false] at hy
    rcases hy with rfl | rfl | rfl | rfl
    · exact b64Char_lt _
    · exact b64Char_lt _
    · decide
    · decide
  | case4 => intro y hy; simp at hy

end Golib.C09
