/-
C03 helper lemmas, part 6: the ordered bucket map (`omGet / omSet / omSetValue / omRemove`
on a key-ascending association list) and the member list of a bucket list.  Core-only.
-/
import Golib.Proof.C03Container

namespace Golib.C03

/-- Keys strictly ascending. -/
def KeysSorted (cs : OMap) : Prop := (cs.map Prod.fst).Pairwise (· < ·)

theorem KeysSorted.tail {p : Nat × Container} {cs : OMap} (h : KeysSorted (p :: cs)) : KeysSorted cs := by
  unfold KeysSorted at *
  rw [List.map_cons, List.pairwise_cons] at h
  exact h.2

theorem KeysSorted.head_lt {p : Nat × Container} {cs : OMap} (h : KeysSorted (p :: cs)) :
    ∀ q ∈ cs, p.1 < q.1 := by
  unfold KeysSorted at h
  rw [List.map_cons, List.pairwise_cons] at h
  intro q hq
  exact h.1 q.1 (List.mem_map_of_mem hq)

theorem omGet_mem {cs : OMap} {k : Nat} {c : Container} (h : omGet cs k = some c) : (k, c) ∈ cs := by
  induction cs with
  | nil => simp [omGet] at h
  | cons p rest ih =>
    obtain ⟨k0, c0⟩ := p
    simp only [omGet] at h
    by_cases hk : k0 = k
    · simp only [hk, if_true, Option.some.injEq] at h
      subst hk; subst h; exact List.mem_cons_self
    · simp only [hk, if_false] at h
      exact List.mem_cons_of_mem _ (ih h)

theorem omGet_of_mem {cs : OMap} (hs : KeysSorted cs) {k : Nat} {c : Container} (h : (k, c) ∈ cs) :
    omGet cs k = some c := by
  induction cs with
  | nil => cases h
  | cons p rest ih =>
    obtain ⟨k0, c0⟩ := p
    simp only [omGet]
    rcases List.mem_cons.mp h with e | h'
    · cases e; simp
    · have := hs.head_lt (k, c) h'
      have hne : ¬ k0 = k := by simp only [] at this; omega
      simp only [hne, if_false]
      exact ih hs.tail h'

theorem omGet_none_iff {cs : OMap} {k : Nat} : omGet cs k = none ↔ ∀ p ∈ cs, p.1 ≠ k := by
  induction cs with
  | nil => simp [omGet]
  | cons p rest ih =>
    obtain ⟨k0, c0⟩ := p
    simp only [omGet]
    by_cases hk : k0 = k
    · simp [hk]
    · simp only [hk, if_false, ih, List.mem_cons, forall_eq_or_imp, ne_eq, not_false_eq_true, true_and]

/-! ### lookups after an update -/

theorem omGet_omSetValue (cs : OMap) (k : Nat) (c' : Container) (k' : Nat) :
    omGet (omSetValue cs k c') k' = if k' = k then (omGet cs k).map (fun _ => c') else omGet cs k' := by
  induction cs with
  | nil => simp [omSetValue, omGet]
  | cons p rest ih =>
    obtain ⟨k0, c0⟩ := p
    simp only [omSetValue]
    by_cases hk : k0 = k
    · subst hk
      simp only [if_true, omGet]
      by_cases hk' : k0 = k'
      · subst hk'; simp
      · have : ¬ k' = k0 := fun e => hk' e.symm
        simp [hk', this]
    · simp only [hk, if_false, omGet, ih]
      by_cases hk' : k0 = k'
      · subst hk'; simp [hk]
      · simp [hk']

theorem omGet_omSet (cs : OMap) (k : Nat) (c : Container) (k' : Nat) :
    omGet (omSet cs k c) k' = if k' = k then some c else omGet cs k' := by
  induction cs with
  | nil =>
    simp only [omSet, omGet]
    by_cases h : k = k'
    · subst h; simp
    · have : ¬ k' = k := fun e => h e.symm
      simp [h, this]
  | cons p rest ih =>
    obtain ⟨k0, c0⟩ := p
    simp only [omSet]
    by_cases h1 : k < k0
    · simp only [h1, if_true, omGet]
      by_cases h : k = k'
      · subst h; simp
      · have : ¬ k' = k := fun e => h e.symm
        simp [h, this]
    · simp only [h1, if_false]
      by_cases h2 : k = k0
      · subst h2
        simp only [if_true, omGet]
        by_cases h : k = k'
        · subst h; simp
        · have : ¬ k' = k := fun e => h e.symm
          simp [h, this]
      · simp only [h2, if_false, omGet, ih]
        by_cases h : k0 = k'
        · subst h
          have : ¬ k0 = k := fun e => h2 e.symm
          simp [this]
        · simp [h]

theorem omGet_omRemove (cs : OMap) (hs : KeysSorted cs) (k k' : Nat) :
    omGet (omRemove cs k) k' = if k' = k then none else omGet cs k' := by
  induction cs with
  | nil => simp [omRemove, omGet]
  | cons p rest ih =>
    obtain ⟨k0, c0⟩ := p
    simp only [omRemove]
    by_cases hk : k0 = k
    · subst hk
      simp only [if_true, omGet]
      by_cases hk' : k' = k0
      · subst hk'
        simp only [if_true]
        apply omGet_none_iff.mpr
        intro q hq
        have := hs.head_lt q hq
        simp only [] at this
        omega
      · have : ¬ k0 = k' := fun e => hk' e.symm
        simp [hk', this]
    · simp only [hk, if_false, omGet, ih hs.tail]
      by_cases hk' : k0 = k'
      · subst hk'; simp [hk]
      · simp [hk']

/-! ### keys after an update -/

theorem keys_omSetValue (cs : OMap) (k : Nat) (c' : Container) :
    (omSetValue cs k c').map Prod.fst = cs.map Prod.fst := by
  induction cs with
  | nil => rfl
  | cons p rest ih =>
    obtain ⟨k0, c0⟩ := p
    simp only [omSetValue]
    by_cases hk : k0 = k
    · simp [hk]
    · simp [hk, ih]

theorem KeysSorted.omSetValue {cs : OMap} (hs : KeysSorted cs) (k : Nat) (c' : Container) :
    KeysSorted (omSetValue cs k c') := by
  unfold KeysSorted; rw [keys_omSetValue]; exact hs

theorem keys_omRemove_sublist (cs : OMap) (k : Nat) :
    ((omRemove cs k).map Prod.fst).Sublist (cs.map Prod.fst) := by
  induction cs with
  | nil => exact List.Sublist.refl _
  | cons p rest ih =>
    obtain ⟨k0, c0⟩ := p
    simp only [omRemove]
    by_cases hk : k0 = k
    · simp only [hk, if_true, List.map_cons]
      exact List.sublist_cons_self _ _
    · simp only [hk, if_false, List.map_cons]
      exact ih.cons_cons _

theorem KeysSorted.omRemove {cs : OMap} (hs : KeysSorted cs) (k : Nat) : KeysSorted (omRemove cs k) :=
  List.Pairwise.sublist (keys_omRemove_sublist cs k) hs

theorem mem_keys_omSet (cs : OMap) (k : Nat) (c : Container) :
    ∀ k' ∈ (omSet cs k c).map Prod.fst, k' = k ∨ k' ∈ cs.map Prod.fst := by
  induction cs with
  | nil => intro k' h; simp [omSet] at h; exact Or.inl h
  | cons p rest ih =>
    obtain ⟨k0, c0⟩ := p
    intro k' h
    simp only [omSet] at h
    by_cases h1 : k < k0
    · simp only [h1, if_true, List.map_cons, List.mem_cons] at h
      simp only [List.map_cons, List.mem_cons]
      exact h
    · simp only [h1, if_false] at h
      by_cases h2 : k = k0
      · simp only [h2, if_true, List.map_cons, List.mem_cons] at h
        simp only [List.map_cons, List.mem_cons]
        exact Or.inr h
      · simp only [h2, if_false, List.map_cons, List.mem_cons] at h
        simp only [List.map_cons, List.mem_cons]
        rcases h with h | h
        · exact Or.inr (Or.inl h)
        · rcases ih k' h with h | h
          · exact Or.inl h
          · exact Or.inr (Or.inr h)

theorem KeysSorted.omSet {cs : OMap} (hs : KeysSorted cs) (k : Nat) (c : Container) :
    KeysSorted (omSet cs k c) := by
  induction cs with
  | nil => simp [Golib.C03.omSet, KeysSorted]
  | cons p rest ih =>
    obtain ⟨k0, c0⟩ := p
    have hs' := hs
    unfold KeysSorted at hs'
    rw [List.map_cons, List.pairwise_cons] at hs'
    simp only [Golib.C03.omSet]
    by_cases h1 : k < k0
    · simp only [h1, if_true]
      unfold KeysSorted
      rw [List.map_cons, List.pairwise_cons]
      refine ⟨?_, hs⟩
      intro b hb
      simp only [List.map_cons, List.mem_cons] at hb
      rcases hb with rfl | hb
      · exact h1
      · have := hs'.1 b hb; simp only [] at this ⊢; omega
    · simp only [h1, if_false]
      by_cases h2 : k = k0
      · simp only [h2, if_true]
        exact hs
      · simp only [h2, if_false]
        unfold KeysSorted
        rw [List.map_cons, List.pairwise_cons]
        refine ⟨?_, ih hs.tail⟩
        intro b hb
        rcases mem_keys_omSet rest k c b hb with rfl | hb
        · simp only []; omega
        · exact hs'.1 b hb

/-! ### the member list of a bucket list -/

theorem mem_omToList (cs : OMap) (hs : KeysSorted cs) (hc : ∀ p ∈ cs, p.2.Inv0) (y : Nat) :
    y ∈ omToList cs ↔ ∃ c, omGet cs (y / 65536) = some c ∧ y % 65536 ∈ c.members := by
  simp only [omToList, List.mem_flatMap, List.mem_map]
  constructor
  · rintro ⟨⟨k, c⟩, hp, m, hm, rfl⟩
    have hlt := c.members_lt (hc _ hp) m hm
    have h1 : (k * 65536 + m) / 65536 = k := by omega
    have h2 : (k * 65536 + m) % 65536 = m := by omega
    simp only [] at h1 h2 ⊢
    rw [h1, h2]
    exact ⟨c, omGet_of_mem hs hp, hm⟩
  · rintro ⟨c, hg, hm⟩
    refine ⟨(y / 65536, c), omGet_mem hg, y % 65536, hm, ?_⟩
    simp only []; omega

theorem omToList_sorted (cs : OMap) (hs : KeysSorted cs) (hc : ∀ p ∈ cs, p.2.Inv0) :
    (omToList cs).Pairwise (· < ·) := by
  unfold omToList
  rw [List.pairwise_flatMap]
  constructor
  · intro p hp
    rw [List.pairwise_map]
    exact (p.2.members_sorted (hc p hp)).imp (fun h => by omega)
  · unfold KeysSorted at hs
    rw [List.pairwise_map] at hs
    refine List.Pairwise.imp_of_mem ?_ hs
    intro p q hp hq hpq a ha b hb
    simp only [List.mem_map] at ha hb
    obtain ⟨m, hm, rfl⟩ := ha
    obtain ⟨m', hm', rfl⟩ := hb
    have := p.2.members_lt (hc p hp) m hm
    have := q.2.members_lt (hc q hq) m' hm'
    omega

/-- The effect of overwriting the lookup at one key (covers `Set`, `SetValue`, `Remove`). -/
theorem update_spec (cs cs' : OMap) (high : Nat) (oc : Option Container)
    (hs : KeysSorted cs) (hkb : ∀ p ∈ cs, p.1 < 65536) (hc : ∀ p ∈ cs, p.2.Inv)
    (hs' : KeysSorted cs') (hhigh : high < 65536) (hoc : ∀ c', oc = some c' → c'.Inv)
    (hget : ∀ k', omGet cs' k' = if k' = high then oc else omGet cs k') :
    (∀ p ∈ cs', p.1 < 65536) ∧ (∀ p ∈ cs', p.2.Inv) ∧
    ∀ y, y ∈ omToList cs' ↔
      if y / 65536 = high then ∃ c', oc = some c' ∧ y % 65536 ∈ c'.members else y ∈ omToList cs := by
  have hboth : ∀ p ∈ cs', p.1 < 65536 ∧ p.2.Inv := by
    rintro ⟨k, c⟩ hp
    have := omGet_of_mem hs' hp
    rw [hget] at this
    by_cases hk : k = high
    · simp only [hk, if_true] at this
      exact ⟨by simp only [hk]; exact hhigh, hoc c this⟩
    · simp only [hk, if_false] at this
      have hm := omGet_mem this
      exact ⟨hkb _ hm, hc _ hm⟩
  refine ⟨fun p hp => (hboth p hp).1, fun p hp => (hboth p hp).2, ?_⟩
  intro y
  rw [mem_omToList cs' hs' (fun p hp => (hboth p hp).2.inv0), hget]
  by_cases hk : y / 65536 = high
  · simp only [hk, if_true]
  · simp only [hk, if_false]
    rw [mem_omToList cs hs (fun p hp => (hc p hp).inv0)]

end Golib.C03
