/-
C07: every `continue` of the four loop bodies advances the read cursor `i`
(for every `dst`, also one that is too short), hence the loops terminate.
-/
import Golib.Proof.C07Cursor

namespace Golib.C07
open Golib

theorem flush_i {src : Bytes} {s s0 : St} (h : flush src s = some s0) : s0.i = s.i := by
  unfold flush at h
  split at h
  · split at h
    · simp at h
    · split at h
      · simp at h
      · simp only [Option.some.injEq] at h; subst h; rfl
  · simp only [Option.some.injEq] at h; subst h; rfl

theorem octal_progress (src : Bytes) : Progress (octalBody src) := by
  intro s s' h
  unfold octalBody at h
  repeat' (split at h)
  all_goals first
    | (simp only [Option.some.injEq, Step.cont.injEq] at h; subst h; simp only []; omega)
    | simp at h

theorem hex_progress (src : Bytes) : Progress (hexBody src) := by
  intro s s' h
  unfold hexBody at h
  repeat' (split at h)
  all_goals first
    | (simp only [Option.some.injEq, Step.cont.injEq] at h; subst h; simp only []; omega)
    | simp at h

theorem unicode_progress (src : Bytes) : Progress (unicodeBody src) := by
  intro s s' h
  unfold unicodeBody at h
  repeat' (split at h)
  all_goals first
    | (simp only [Option.some.injEq, Step.cont.injEq] at h; subst h; simp only []; omega)
    | simp at h

macro "c07fin" h:ident : tactic =>
  `(tactic| first
    | (simp only [Option.some.injEq, Step.cont.injEq] at $h:ident; subst $h:ident; simp only []; omega)
    | (simp at $h:ident; done))

theorem ite_st_i (c : Prop) [Decidable c] (a b : St) (x : Nat) (ha : a.i = x) (hb : b.i = x) :
    (if c then a else b).i = x := by split <;> assumption

set_option maxRecDepth 8000 in
theorem utf16_progress (src : Bytes) : Progress (utf16Body src) := by
  intro s s' h
  unfold utf16Body at h
  repeat' (split at h)
  all_goals try (c07fin h)
  all_goals
    have hs0 := flush_i ‹flush src s = some _›
    simp only [] at h
    repeat' (split at h)
  all_goals c07fin h

end Golib.C07
