/-
C01 — F12 for every ticket width at capacity 4 (second instance of `c01_aba_reachable`;
same construction as Proof/C01ABA.lean with the four-slot ring written out by the residue
of the rotation mod 4).
-/
import Golib.Proof.C01ABA

namespace Golib.C01.ABA4
open Golib.C01 Golib.C01.ABA

/-- full ring of capacity 4 after `n` pop/push pairs: slot `i` holds the position of
`[n, n+4)` congruent to `i`, published (sequence number = position + 1) -/
def R (M n m : Nat) : State :=
  { head := n % M, tail := (n + 4) % M,
    slots :=
      if n % 4 = 0 then [⟨(n + 1) % M, 9⟩, ⟨(n + 2) % M, 9⟩, ⟨(n + 3) % M, 9⟩, ⟨(n + 4) % M, 9⟩]
      else if n % 4 = 1 then [⟨(n + 4) % M, 9⟩, ⟨(n + 1) % M, 9⟩, ⟨(n + 2) % M, 9⟩, ⟨(n + 3) % M, 9⟩]
      else if n % 4 = 2 then [⟨(n + 3) % M, 9⟩, ⟨(n + 4) % M, 9⟩, ⟨(n + 1) % M, 9⟩, ⟨(n + 2) % M, 9⟩]
      else [⟨(n + 2) % M, 9⟩, ⟨(n + 3) % M, 9⟩, ⟨(n + 4) % M, 9⟩, ⟨(n + 1) % M, 9⟩],
    threads := [⟨.pushCAS 7 0 0, []⟩, mkThread (List.replicate m .pop),
                mkThread (List.replicate m (.push 9))],
    crashed := false }

theorem and3 (x : Nat) : x &&& 3 = x % 4 := Nat.and_two_pow_sub_one_eq_mod x 2

theorem round {M : Nat} (h4 : 4 ∣ M) (n m : Nat) :
    (run ⟨M, 4⟩ (R M n (m + 1)) [1, 1, 1, 1, 1, 1, 2, 2, 2, 2, 2]).1 = R M (n + 1) m ∧
    rets (run ⟨M, 4⟩ (R M n (m + 1)) [1, 1, 1, 1, 1, 1, 2, 2, 2, 2, 2]).2 = [.pop 9 true, .push true] := by
  have e1 : ∀ x, x % M % 4 = x % 4 := fun x => Nat.mod_mod_of_dvd x h4
  have hlt := Nat.mod_lt n (show 0 < 4 by omega)
  have hc : n % 4 = 0 ∨ n % 4 = 1 ∨ n % 4 = 2 ∨ n % 4 = 3 := by omega
  rcases hc with hp | hp | hp | hp
  · have hp1 : (n + 1) % 4 = 1 := by omega
    have hp4 : (n + 4) % 4 = 0 := by omega
    simp [run, step, R, mkThread, Thread.finish, start, State.setPc, State.fin, Cfg.idx, Cfg.mask,
      Cfg.norm, and3, e1, hp, hp1, hp4, List.replicate_succ, rets]
  · have hp1 : (n + 1) % 4 = 2 := by omega
    have hp4 : (n + 4) % 4 = 1 := by omega
    simp [run, step, R, mkThread, Thread.finish, start, State.setPc, State.fin, Cfg.idx, Cfg.mask,
      Cfg.norm, and3, e1, hp, hp1, hp4, List.replicate_succ, rets]
  · have hp1 : (n + 1) % 4 = 3 := by omega
    have hp4 : (n + 4) % 4 = 2 := by omega
    simp [run, step, R, mkThread, Thread.finish, start, State.setPc, State.fin, Cfg.idx, Cfg.mask,
      Cfg.norm, and3, e1, hp, hp1, hp4, List.replicate_succ, rets]
  · have hp1 : (n + 1) % 4 = 0 := by omega
    have hp4 : (n + 4) % 4 = 3 := by omega
    simp [run, step, R, mkThread, Thread.finish, start, State.setPc, State.fin, Cfg.idx, Cfg.mask,
      Cfg.norm, and3, e1, hp, hp1, hp4, List.replicate_succ, rets]

theorem rounds {M : Nat} (h4 : 4 ∣ M) (k n m : Nat) :
    (run ⟨M, 4⟩ (R M n (m + k)) (roundSched k)).1 = R M (n + k) m ∧
    net (rets (run ⟨M, 4⟩ (R M n (m + k)) (roundSched k)).2) = 0 := by
  induction k generalizing n with
  | zero => simp [roundSched, run, rets, net]
  | succ k ih =>
    have hr := round h4 n (m + k)
    have e : m + (k + 1) = m + k + 1 := by omega
    rw [e]
    simp only [roundSched, run_append]
    rw [hr.1]
    have ih' := ih (n + 1)
    have e2 : n + 1 + k = n + (k + 1) := by omega
    rw [e2] at ih'
    refine ⟨ih'.1, ?_⟩
    rw [rets_append, net_append, hr.2, ih'.2]
    simp [net]

def progs4 (K : Nat) : List (List Call) :=
  [[.push 7], List.replicate K .pop, List.replicate (K + 4) (.push 9)]

def prefix4 : List Nat := [0, 0] ++ List.replicate 20 2

theorem prefix_run {M : Nat} (hM : 4 < M) (K : Nat) :
    (run ⟨M, 4⟩ (init ⟨M, 4⟩ (progs4 K)) prefix4).1 = R M 0 K ∧
    rets (run ⟨M, 4⟩ (init ⟨M, 4⟩ (progs4 K)) prefix4).2 = [.push true, .push true, .push true, .push true] := by
  have h0 : 0 % M = 0 := Nat.zero_mod M
  have h1 : 1 % M = 1 := Nat.mod_eq_of_lt (by omega)
  have h2 : 2 % M = 2 := Nat.mod_eq_of_lt (by omega)
  have h3 : 3 % M = 3 := Nat.mod_eq_of_lt (by omega)
  have h4 : 4 % M = 4 := Nat.mod_eq_of_lt hM
  simp [prefix4, progs4, run, step, R, init, initAt, slotSeq, mkThread, Thread.finish, start, State.setPc,
    State.fin, Cfg.idx, Cfg.mask, Cfg.norm, List.replicate_succ, rets, List.range_succ, and3,
    h0, h1, h2, h3, h4]

theorem final_run {M : Nat} (hM : 4 < M) (K : Nat) (hK : (K + 4) % M = 0) (hKe : K % 4 = 0) :
    rets (run ⟨M, 4⟩ (R M K 0) [0, 0, 0]).2 = [.push true] ∧
    (run ⟨M, 4⟩ (R M K 0) [0]).2 = [⟨0, .casTail 0 1 true, none⟩] ∧
    (R M K 0).slots[0]? = some ⟨(K + 1) % M, 9⟩ ∧ (R M K 0).head = K % M ∧ (R M K 0).tail = 0 ∧
    ((run ⟨M, 4⟩ (R M K 0) [0, 0, 0]).1.slots[0]?).map (·.val) = some 7 := by
  have h1 : 1 % M = 1 := Nat.mod_eq_of_lt (by omega)
  simp [run, step, R, mkThread, Thread.finish, State.setPc, State.fin, Cfg.idx, Cfg.mask,
    Cfg.norm, rets, hK, hKe, h1, and3]

/-- capacity 4, every width `w ≥ 3` -/
theorem aba_all_widths (w : Nat) (hw : 3 ≤ w) :
    ((run ⟨2 ^ w, 4⟩ (init ⟨2 ^ w, 4⟩ (progs4 (2 ^ w - 4))) (prefix4 ++ roundSched (2 ^ w - 4))).1
        = R (2 ^ w) (2 ^ w - 4) 0 ∧
      (R (2 ^ w) (2 ^ w - 4) 0).tail = 0 ∧ (R (2 ^ w) (2 ^ w - 4) 0).head = 2 ^ w - 4 ∧
      (R (2 ^ w) (2 ^ w - 4) 0).slots[0]? = some ⟨2 ^ w - 4 + 1, 9⟩) ∧
    (run ⟨2 ^ w, 4⟩ (R (2 ^ w) (2 ^ w - 4) 0) [0]).2 = [⟨0, .casTail 0 1 true, none⟩] ∧
    ((run ⟨2 ^ w, 4⟩ (init ⟨2 ^ w, 4⟩ (progs4 (2 ^ w - 4)))
        (prefix4 ++ roundSched (2 ^ w - 4) ++ [0, 0, 0])).1.slots[0]?).map (·.val) = some 7 ∧
    net (rets (run ⟨2 ^ w, 4⟩ (init ⟨2 ^ w, 4⟩ (progs4 (2 ^ w - 4)))
        (prefix4 ++ roundSched (2 ^ w - 4) ++ [0, 0, 0])).2) = 5 := by
  generalize hMd : 2 ^ w = M
  generalize hKd : M - 4 = K
  have hM8 : 8 ≤ M := by
    have : 2 ^ 3 ≤ 2 ^ w := Nat.pow_le_pow_right (by omega) hw
    rw [hMd] at this; simpa using this
  have h4 : 4 ∣ M := by
    have : 2 ^ 2 ∣ 2 ^ w := Nat.pow_dvd_pow 2 (by omega)
    rw [hMd] at this; simpa using this
  have hM : 4 < M := by omega
  have hK2 : K + 4 = M := by omega
  have hK : (K + 4) % M = 0 := by rw [hK2]; exact Nat.mod_self M
  have hKe : K % 4 = 0 := by
    obtain ⟨q, hq⟩ := h4
    have : K = 4 * (q - 1) := by omega
    rw [this]; exact Nat.mul_mod_right 4 _
  have hKM : K % M = K := Nat.mod_eq_of_lt (by omega)
  have hK1 : (K + 1) % M = K + 1 := Nat.mod_eq_of_lt (by omega)
  have hp := prefix_run (M := M) hM K
  have hr := rounds (M := M) h4 K 0 0
  rw [Nat.zero_add] at hr
  have hf := final_run (M := M) hM K hK hKe
  have hs1 : (run ⟨M, 4⟩ (init ⟨M, 4⟩ (progs4 K)) (prefix4 ++ roundSched K)).1 = R M K 0 := by
    rw [run_append_fst, hp.1]
    exact hr.1
  refine ⟨⟨hs1, hf.2.2.2.2.1, ?_, ?_⟩, hf.2.1, ?_, ?_⟩
  · rw [hf.2.2.2.1, hKM]
  · rw [hf.2.2.1, hK1]
  · rw [run_append_fst, hs1]; exact hf.2.2.2.2.2
  · rw [run_append_snd, rets_append, net_append, hs1, hf.1, run_append_snd, rets_append, net_append,
      hp.1, hp.2, hr.2]
    simp [net]

end Golib.C01.ABA4
