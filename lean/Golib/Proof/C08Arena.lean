/-
C08, buffer level: the write-set theorems for `Model/C08Arena.lean`.
-/
import Golib.Model.C08Arena
import Golib.Proof.C08Main

namespace Golib.C08.Arena
open Golib.C08

/-- the writes `m'` logged after `m` all lie inside `[lo, hi)` -/
def LogWithin (m m' : Mem) (lo hi : Nat) : Prop :=
  ∃ new, m'.log = m.log ++ new ∧ ∀ r ∈ new, lo ≤ r.1 ∧ r.1 + r.2 ≤ hi

/-- same length, and every cell outside `[lo, hi)` keeps its content -/
def FrameOutside (m m' : Mem) (lo hi : Nat) : Prop :=
  m'.cells.length = m.cells.length ∧ ∀ i, (i < lo ∨ hi ≤ i) → m'.cells[i]? = m.cells[i]?

/-- what "writes only inside `[lo, hi)`" means: log and content -/
def WritesWithin (m m' : Mem) (lo hi : Nat) : Prop := LogWithin m m' lo hi ∧ FrameOutside m m' lo hi

theorem writesWithin_refl (m : Mem) (lo hi : Nat) : WritesWithin m m lo hi :=
  ⟨⟨[], by simp, by simp⟩, rfl, fun _ _ => rfl⟩

theorem writesWithin_trans {m m1 m2 : Mem} {lo hi : Nat}
    (h1 : WritesWithin m m1 lo hi) (h2 : WritesWithin m1 m2 lo hi) : WritesWithin m m2 lo hi := by
  obtain ⟨⟨n1, e1, w1⟩, l1, f1⟩ := h1
  obtain ⟨⟨n2, e2, w2⟩, l2, f2⟩ := h2
  refine ⟨⟨n1 ++ n2, by rw [e2, e1, List.append_assoc], ?_⟩, by rw [l2, l1], fun i hi' => by rw [f2 i hi', f1 i hi']⟩
  intro r hr
  rcases List.mem_append.mp hr with h | h
  · exact w1 r h
  · exact w2 r h

theorem wr_length (m : Mem) (off : Nat) (v : Bytes) (h : off + v.length ≤ m.cells.length) :
    (m.wr off v).cells.length = m.cells.length := by
  simp only [Mem.wr, List.length_append, List.length_take, List.length_drop]; omega

theorem wr_frame (m : Mem) (off : Nat) (v : Bytes) (h : off + v.length ≤ m.cells.length)
    (i : Nat) (hi : i < off ∨ off + v.length ≤ i) : (m.wr off v).cells[i]? = m.cells[i]? := by
  simp only [Mem.wr]
  rcases hi with hi | hi
  · rw [List.append_assoc, List.getElem?_append_left (by simp; omega), List.getElem?_take]
    simp [hi]
  · rw [List.getElem?_append_right (by simp; omega)]
    simp only [List.length_append, List.length_take, List.getElem?_drop]
    congr 1; omega

/-- one bounds-checked write inside `[lo, hi)` -/
theorem wr_within (m : Mem) (off : Nat) (v : Bytes) (lo hi : Nat)
    (h : off + v.length ≤ m.cells.length) (hlo : lo ≤ off) (hhi : off + v.length ≤ hi) :
    WritesWithin m (m.wr off v) lo hi := by
  refine ⟨⟨[(off, v.length)], rfl, ?_⟩, wr_length m off v h, fun i hi' => wr_frame m off v h i (by omega)⟩
  intro r hr
  simp only [List.mem_singleton] at hr
  subst hr
  exact ⟨hlo, hhi⟩

theorem rd_length (m : Mem) (w : Win) (h : w.off + w.len ≤ m.cells.length) : (m.rd w).length = w.len := by
  simp only [Mem.rd, List.length_take, List.length_drop]; omega

theorem rd_length_le (m : Mem) (w : Win) : (m.rd w).length ≤ w.len := by
  simp only [Mem.rd, List.length_take]; omega

theorem wr_rd_same (m : Mem) (w : Win) (v : Bytes) (hv : v.length = w.len)
    (h : w.off + w.len ≤ m.cells.length) : (m.wr w.off v).rd w = v := by
  simp only [Mem.rd, Mem.wr]
  have h1 : (m.cells.take w.off).length = w.off := by simp; omega
  rw [List.append_assoc, List.drop_append_of_le_length (by omega)]
  have : List.drop w.off (List.take w.off m.cells) = [] := List.drop_eq_nil_of_le (by omega)
  rw [this, List.nil_append, ← hv, List.take_left]

/-- a window disjoint from the written range reads the same afterwards -/
theorem wr_rd_other (m : Mem) (off : Nat) (v : Bytes) (w : Win)
    (h : off + v.length ≤ m.cells.length)
    (hd : w.off + w.len ≤ off ∨ off + v.length ≤ w.off) : (m.wr off v).rd w = m.rd w := by
  simp only [Mem.rd]
  apply List.ext_getElem?
  intro i
  simp only [List.getElem?_take, List.getElem?_drop]
  by_cases hi : i < w.len
  · simp only [hi, if_true]
    exact wr_frame m off v h (w.off + i) (by omega)
  · simp [hi]

/-! ### write sets of the four entry points: inside the `dst` window, for EVERY placement of the
other windows and every outcome (ok, error, panic) -/

theorem copyW_within (m : Mem) (dst src : Win) (hd : dst.off + dst.len ≤ m.cells.length) :
    WritesWithin m (copyW m dst src) dst.off (dst.off + dst.len) := by
  unfold copyW
  have hl : ((m.rd src).take (min dst.len src.len)).length ≤ dst.len := by
    simp only [List.length_take]; omega
  exact wr_within m dst.off _ _ _ (by omega) (Nat.le_refl _) (by omega)

/-- `AESCBCEncrypt` writes only inside `dst` — whatever the sizes and wherever plaintext, key
and iv lie (also when they overlap `dst`), and whether it returns nil, an error, or panics. -/
theorem cbcEncryptA_writes_within_dst (C : Cipher) (m : Mem) (dst pt key iv : Win)
    (hd : dst.wf m) (hE : keyOK (m.rd key) = true → BlockLen (C.E (m.rd key))) :
    WritesWithin m (aesCBCEncryptA C m dst pt key iv).1 dst.off (dst.off + dst.len) := by
  obtain ⟨hdc, hdm⟩ := hd
  have hdl : dst.off + dst.len ≤ m.cells.length := by omega
  unfold aesCBCEncryptA
  by_cases hk : keyOK (m.rd key) = true
  · have hk' : ¬ (¬ keyOK (m.rd key) = true) := by simp [hk]
    rw [if_neg hk']
    simp only []
    have h1 := copyW_within m dst pt hdl
    have hl1 : (copyW m dst pt).cells.length = m.cells.length := h1.2.1
    by_cases hlt : dst.len < pt.len
    · rw [if_pos hlt]; exact h1
    · rw [if_neg hlt]
      cases hpat : prePadPatterns[aesBlockSize - (pt.len &&& blockSizeMask)]? with
      | none => exact h1
      | some pat =>
        simp only []
        generalize hm2 : (copyW m dst pt).wr (dst.off + pt.len)
          (pat.take (min (dst.len - pt.len) pat.length)) = m2
        have hvl : (pat.take (min (dst.len - pt.len) pat.length)).length ≤ dst.len - pt.len := by
          simp only [List.length_take]; omega
        have h2 : WritesWithin (copyW m dst pt) m2 dst.off (dst.off + dst.len) := by
          rw [← hm2]
          exact wr_within _ _ _ _ _ (by omega) (by omega) (by omega)
        have h12 := writesWithin_trans h1 h2
        have hl2 : m2.cells.length = m.cells.length := h12.2.1
        by_cases hiv : (m2.rd iv).length ≠ 16
        · rw [if_pos hiv]; exact h12
        · rw [if_neg hiv]
          by_cases hmod : (m2.rd dst).length % 16 ≠ 0
          · rw [if_pos hmod]; exact h12
          · rw [if_neg hmod]
            have hsl : (m2.rd dst).length = dst.len := rd_length m2 dst (by omega)
            have hcl := cbcEncrypt_length (C.E (m.rd key)) (hE hk) ((m2.rd dst).length / 16) (m2.rd iv) (m2.rd dst)
              (by omega) (by omega)
            exact writesWithin_trans h12
              (wr_within m2 dst.off _ _ _ (by omega) (Nat.le_refl _) (by omega))
  · rw [if_pos hk]; exact writesWithin_refl m _ _

/-- `AESCBCDecrypt` writes only inside `dst` (the first `len(cipherText)` cells of it). -/
theorem cbcDecryptA_writes_within_dst (C : Cipher) (m : Mem) (dst ct key iv : Win)
    (hd : dst.wf m) (hc : ct.off + ct.len ≤ m.cells.length)
    (hD : keyOK (m.rd key) = true → BlockLen (C.D (m.rd key))) :
    WritesWithin m (aesCBCDecryptA C m dst ct key iv).1 dst.off (dst.off + dst.len) := by
  obtain ⟨hdc, hdm⟩ := hd
  unfold aesCBCDecryptA
  split
  · exact writesWithin_refl m _ _
  · rename_i hlen
    simp only []
    split
    · exact writesWithin_refl m _ _
    · rename_i hkn
      have hk : keyOK (m.rd key) = true := by simpa using hkn
      split
      · exact writesWithin_refl m _ _
      · rename_i hiv
        split
        · exact writesWithin_refl m _ _
        · rename_i hdl
          split
          · exact writesWithin_refl m _ _
          · have hcl : (m.rd ct).length = ct.len := rd_length m ct hc
            have hlen' : 16 ≤ ct.len ∧ ct.len % 16 = 0 := by
              rw [and15] at hlen; simp only [aesBlockSize] at hlen; omega
            have hpl := cbcDecrypt_length (C.D (m.rd key)) (hD hk) (ct.len / 16) (m.rd iv) (m.rd ct)
              (by simpa using hiv) (by omega)
            have hw : WritesWithin m (m.wr dst.off (cbcDecrypt (C.D (m.rd key)) (m.rd iv) (m.rd ct)))
                dst.off (dst.off + dst.len) :=
              wr_within m dst.off _ _ _ (by omega) (Nat.le_refl _) (by omega)
            split <;> exact hw

/-- `AESGCMEncrypt`: `Seal(dst[:0], …)` appends into `dst`'s array iff the result fits its capacity;
with `dst` sized by `AESGCMEncryptLen` the write is exactly the `dst` window. -/
theorem gcmEncryptA_writes_within_dst (A : AEAD) (m : Mem) (dst pt key nonce ad : Win)
    (hd : dst.wf m) (hp : pt.off + pt.len ≤ m.cells.length)
    (hseal : ∀ k n p a, (A.sealF k n p a).length = p.length + 16)
    (hsz : dst.len = pt.len + gcmTagSize) :
    WritesWithin m (aesGCMEncryptA A m dst pt key nonce ad).1 dst.off (dst.off + dst.len) := by
  obtain ⟨hdc, hdm⟩ := hd
  unfold aesGCMEncryptA
  simp only []
  split
  · exact writesWithin_refl m _ _
  · split
    · exact writesWithin_refl m _ _
    · split
      · split
        · exact writesWithin_refl m _ _
        · have hl : (A.sealF (m.rd key) (m.rd nonce) (m.rd pt) (m.rd ad)).length = pt.len + 16 := by
            rw [hseal, rd_length m pt hp]
          simp only [gcmTagSize] at hsz
          exact wr_within m dst.off _ _ _ (by omega) (Nat.le_refl _) (by omega)
      · exact writesWithin_refl m _ _

/-- `AESGCMDecrypt`: `Open(dst[:0], …)` writes the plaintext — or, on an authentication failure,
zeros — into the first `len(cipherText) − 16` cells of `dst`; nothing at all for inputs shorter
than the tag. -/
theorem gcmDecryptA_writes_within_dst (A : AEAD) (m : Mem) (dst ct key nonce ad : Win)
    (hd : dst.wf m) (hc : ct.off + ct.len ≤ m.cells.length)
    (hopenlen : keyOK (m.rd key) = true → ∀ n c a p, A.openF (m.rd key) n c a = some p → c.length = p.length + 16)
    (hsz : dst.len + gcmTagSize = ct.len ∨ ct.len < gcmTagSize) :
    WritesWithin m (aesGCMDecryptA A m dst ct key nonce ad).1 dst.off (dst.off + dst.len) := by
  obtain ⟨hdc, hdm⟩ := hd
  unfold aesGCMDecryptA
  simp only []
  split
  · exact writesWithin_refl m _ _
  · rename_i hkn
    have hk : keyOK (m.rd key) = true := by simpa using hkn
    split
    · exact writesWithin_refl m _ _
    · split
      · exact writesWithin_refl m _ _
      · rename_i hshort
        have hsz' : dst.len + 16 = ct.len := by
          simp only [gcmTagSize] at hsz hshort; omega
        split
        · split
          · exact writesWithin_refl m _ _
          · split
            · rename_i p ho
              have := hopenlen hk _ _ _ _ ho
              rw [rd_length m ct hc] at this
              exact wr_within m dst.off _ _ _ (by omega) (Nat.le_refl _) (by omega)
            · simp only [gcmTagSize]
              exact wr_within m dst.off _ _ _ (by simp; omega) (Nat.le_refl _) (by simp; omega)
        · split <;> exact writesWithin_refl m _ _

/-! ### refinement: the arena entry points compute what the value-level model computes -/

def disjoint (a b : Win) : Prop := a.off + a.len ≤ b.off ∨ b.off + b.len ≤ a.off

theorem wr_wr_cells (m : Mem) (off : Nat) (a b : Bytes) (h : off + a.length + b.length ≤ m.cells.length) :
    ((m.wr off a).wr (off + a.length) b).cells = (m.wr off (a ++ b)).cells := by
  simp only [Mem.wr]
  apply List.ext_getElem?
  intro i
  simp only [List.getElem?_take, List.getElem?_drop, List.getElem?_append, List.length_take,
    List.length_drop, List.length_append]
  grind

theorem rd_congr (m m' : Mem) (w : Win) (h : m.cells = m'.cells) : m.rd w = m'.rd w := by
  simp only [Mem.rd, h]

/-- `AESCBCEncrypt` on the arena, `dst` sized by the helper, the iv outside `dst`, the plaintext
either outside `dst` or starting at its first cell (the documented in-place layout): returns nil
and leaves in `dst` exactly the standard CBC encryption of the PKCS#7-padded plaintext that was in
the plaintext window — whatever `dst` held before.  (The key may lie anywhere: it is expanded
before anything is written.) -/
theorem cbcEncryptA_refines (C : Cipher) (m : Mem) (dst pt key iv : Win)
    (hd : dst.wf m) (hp : pt.off + pt.len ≤ m.cells.length) (hi : iv.off + iv.len ≤ m.cells.length)
    (hE : BlockLen (C.E (m.rd key))) (hk : keyOK (m.rd key) = true) (hivl : iv.len = 16)
    (hsz : dst.len = cbcEncryptLen pt.len)
    (hiv : disjoint dst iv) (_hpt : disjoint dst pt ∨ pt.off = dst.off) :
    (aesCBCEncryptA C m dst pt key iv).2 = .ok () ∧
    (aesCBCEncryptA C m dst pt key iv).1.rd dst =
      cbcEncrypt (C.E (m.rd key)) (m.rd iv) (padded (m.rd pt)) ∧
    aesCBCEncrypt C (m.rd dst) (m.rd pt) (m.rd key) (m.rd iv) =
      .ok ((aesCBCEncryptA C m dst pt key iv).1.rd dst) := by
  obtain ⟨hdc, hdm⟩ := hd
  have hpr := padLen_range pt.len
  have hsz' : dst.len = pt.len + padLen pt.len := by rw [hsz, encLen_padLen]
  have hptl : (m.rd pt).length = pt.len := rd_length m pt hp
  have hivr : (m.rd iv).length = 16 := by rw [rd_length m iv hi, hivl]
  have hdl : (m.rd dst).length = dst.len := rd_length m dst (by omega)
  -- the value-level result
  have hval := aesCBCEncrypt_spec C (m.rd dst) (m.rd pt) (m.rd key) (m.rd iv) hk hivr
    (by rw [hdl, hptl, hsz])
  -- the arena run
  have hrun : aesCBCEncryptA C m dst pt key iv =
      ((m.wr dst.off (padded (m.rd pt))).wr dst.off
        (cbcEncrypt (C.E (m.rd key)) (m.rd iv) (padded (m.rd pt))), .ok ()) ∨
      ((aesCBCEncryptA C m dst pt key iv).2 = .ok () ∧
        (aesCBCEncryptA C m dst pt key iv).1.rd dst =
          cbcEncrypt (C.E (m.rd key)) (m.rd iv) (padded (m.rd pt))) := by
    right
    unfold aesCBCEncryptA
    have hk' : ¬ (¬ keyOK (m.rd key) = true) := by simp [hk]
    rw [if_neg hk']
    simp only []
    have hlt : ¬ dst.len < pt.len := by omega
    rw [if_neg hlt]
    have hpidx : aesBlockSize - (pt.len &&& blockSizeMask) = padLen pt.len := by rw [and15]; rfl
    rw [hpidx, table_get _ hpr.2]
    simp only []
    have hc1 : copyW m dst pt = m.wr dst.off (m.rd pt) := by
      unfold copyW
      have : min dst.len pt.len = pt.len := by omega
      rw [this, ← hptl, List.take_length]
    have hpat : (List.replicate (padLen pt.len) (padLen pt.len)).take
        (min (dst.len - pt.len) (List.replicate (padLen pt.len) (padLen pt.len)).length)
        = List.replicate (padLen pt.len) (padLen pt.len) := by
      apply List.take_of_length_le; simp; omega
    rw [hc1, hpat]
    generalize hm2 : (m.wr dst.off (m.rd pt)).wr (dst.off + pt.len)
      (List.replicate (padLen pt.len) (padLen pt.len)) = m2
    have hcells : m2.cells = (m.wr dst.off (padded (m.rd pt))).cells := by
      rw [← hm2]
      have := wr_wr_cells m dst.off (m.rd pt) (List.replicate (padLen pt.len) (padLen pt.len))
        (by simp [hptl]; omega)
      rw [hptl] at this
      exact this.trans (by simp only [padded, hptl])
    have hpl : (padded (m.rd pt)).length = dst.len := by rw [padded_length, hptl, hsz]
    have hl2 : m2.cells.length = m.cells.length := by
      rw [hcells]; exact wr_length m dst.off _ (by omega)
    have hiv2 : m2.rd iv = m.rd iv := by
      rw [rd_congr m2 _ iv hcells]
      exact wr_rd_other m dst.off _ iv (by omega) (by rcases hiv with h | h <;> omega)
    have hdst2 : m2.rd dst = padded (m.rd pt) := by
      rw [rd_congr m2 _ dst hcells]
      exact wr_rd_same m dst _ hpl (by omega)
    rw [hiv2, hdst2]
    have h1 : ¬ (m.rd iv).length ≠ 16 := by simp [hivr]
    have h2 : ¬ (padded (m.rd pt)).length % 16 ≠ 0 := by rw [padded_blocks]; simp
    rw [if_neg h1, if_neg h2]
    refine ⟨rfl, ?_⟩
    have hcl := cbcEncrypt_length (C.E (m.rd key)) hE _ (m.rd iv) (padded (m.rd pt)) hivr (padded_blocks _)
    exact wr_rd_same m2 dst _ (by rw [hcl, hpl]) (by omega)
  rcases hrun with h | ⟨h1, h2⟩
  · rw [h]
    have hpl : (padded (m.rd pt)).length = dst.len := by rw [padded_length, hptl, hsz]
    have hcl := cbcEncrypt_length (C.E (m.rd key)) hE _ (m.rd iv) (padded (m.rd pt)) hivr (padded_blocks _)
    have hl1 : (m.wr dst.off (padded (m.rd pt))).cells.length = m.cells.length :=
      wr_length m dst.off _ (by omega)
    have := wr_rd_same (m.wr dst.off (padded (m.rd pt))) dst
      (cbcEncrypt (C.E (m.rd key)) (m.rd iv) (padded (m.rd pt))) (by rw [hcl, hpl]) (by omega)
    exact ⟨rfl, this, by rw [hval]; simp only []; rw [this]⟩
  · exact ⟨h1, h2, by rw [hval, h2]⟩

/-- `AESGCMEncrypt` on the arena with `dst` sized by `AESGCMEncryptLen`, the plaintext outside
`dst` or starting at its first cell (the documented in-place layout): `dst` receives exactly
`Seal(nil, nonce, plaintext, ad)` of the window contents — the append-to-`dst[:0]` contract. -/
theorem gcmEncryptA_refines (A : AEAD) (m : Mem) (dst pt key nonce ad : Win)
    (hd : dst.wf m) (hp : pt.off + pt.len ≤ m.cells.length)
    (hseal : ∀ k n p a, (A.sealF k n p a).length = p.length + 16)
    (hk : keyOK (m.rd key) = true) (hn : 0 < nonce.len) (hnw : nonce.off + nonce.len ≤ m.cells.length)
    (hsz : dst.len = pt.len + gcmTagSize)
    (hpt : disjoint dst pt ∨ pt.off = dst.off) :
    (aesGCMEncryptA A m dst pt key nonce ad).2 = .ok () ∧
    (aesGCMEncryptA A m dst pt key nonce ad).1.rd dst =
      A.sealF (m.rd key) (m.rd nonce) (m.rd pt) (m.rd ad) ∧
    aesGCMEncrypt A (m.rd dst) (m.rd pt) (m.rd key) (m.rd nonce) (m.rd ad) =
      .ok ((aesGCMEncryptA A m dst pt key nonce ad).1.rd dst) := by
  obtain ⟨hdc, hdm⟩ := hd
  have hl : (A.sealF (m.rd key) (m.rd nonce) (m.rd pt) (m.rd ad)).length = dst.len := by
    rw [hseal, rd_length m pt hp, hsz]; rfl
  have hrun : aesGCMEncryptA A m dst pt key nonce ad =
      (m.wr dst.off (A.sealF (m.rd key) (m.rd nonce) (m.rd pt) (m.rd ad)), .ok ()) := by
    unfold aesGCMEncryptA
    simp only []
    have hk' : ¬ (¬ keyOK (m.rd key) = true) := by simp [hk]
    have hn' : ¬ nonce.len = 0 := by omega
    have hfit : fitsCap dst (pt.len + gcmTagSize) = true := by simp [fitsCap]; omega
    have hov : inexactOverlap { dst with len := pt.len + gcmTagSize } pt = false := by
      simp only [inexactOverlap, overlap, Bool.and_eq_false_iff, bne_eq_false_iff_eq, decide_eq_false_iff_not,
        Nat.not_lt]
      rcases hpt with h | h
      · unfold disjoint at h; left; simp only [gcmTagSize] at hsz ⊢; omega
      · right; exact h.symm
    rw [if_neg hk', if_neg hn', if_pos hfit, hov]
    simp
  rw [hrun]
  have hrd := wr_rd_same m dst _ hl (by omega)
  refine ⟨rfl, hrd, ?_⟩
  have hne : m.rd nonce ≠ [] := by
    intro h
    have := rd_length m nonce hnw
    rw [h] at this; simp at this; omega
  have := (main_gcm_lens A (m.rd dst) (m.rd pt) (m.rd key) (m.rd nonce) (m.rd ad)
    (fun n p a => hseal _ n p a) hk hne (by rw [rd_length m dst (by omega), rd_length m pt hp, hsz]; rfl)).2.2
  rw [this, hrd]

theorem inexact_false_of (dst src : Win) (n : Nat) (h : disjoint { dst with len := n } src ∨ src.off = dst.off) :
    inexactOverlap { dst with len := n } src = false := by
  simp only [inexactOverlap, overlap, Bool.and_eq_false_iff, bne_eq_false_iff_eq, decide_eq_false_iff_not,
    Nat.not_lt]
  rcases h with h | h
  · unfold disjoint at h; left; simp only [] at h; omega
  · right; exact h.symm

/-- `AESGCMDecrypt` on the arena with `dst` sized by `AESGCMDecryptLen`, the ciphertext outside
`dst` or starting at its first cell (`dst = cipherText[:AESGCMDecryptLen(cipherText)]`, the
documented in-place layout): an authentic message leaves exactly `Open`'s plaintext in `dst`,
anything else is an error — as in the value-level model. -/
theorem gcmDecryptA_refines (A : AEAD) (m : Mem) (dst ct key nonce ad : Win)
    (hd : dst.wf m) (hc : ct.off + ct.len ≤ m.cells.length)
    (hopenlen : ∀ k n c a p, A.openF k n c a = some p → c.length = p.length + 16)
    (hk : keyOK (m.rd key) = true) (hn : 0 < nonce.len) (hnw : nonce.off + nonce.len ≤ m.cells.length)
    (hsz : dst.len + gcmTagSize = ct.len)
    (hct : disjoint dst ct ∨ ct.off = dst.off) :
    (∀ p, A.openF (m.rd key) (m.rd nonce) (m.rd ct) (m.rd ad) = some p →
      (aesGCMDecryptA A m dst ct key nonce ad).2 = .ok () ∧
      (aesGCMDecryptA A m dst ct key nonce ad).1.rd dst = p ∧
      aesGCMDecrypt A (m.rd dst) (m.rd ct) (m.rd key) (m.rd nonce) (m.rd ad) = .ok p) ∧
    (A.openF (m.rd key) (m.rd nonce) (m.rd ct) (m.rd ad) = none →
      (aesGCMDecryptA A m dst ct key nonce ad).2 = .err "open" ∧
      aesGCMDecrypt A (m.rd dst) (m.rd ct) (m.rd key) (m.rd nonce) (m.rd ad) = .err "open") := by
  obtain ⟨hdc, hdm⟩ := hd
  simp only [gcmTagSize] at hsz
  have hk' : ¬ (¬ keyOK (m.rd key) = true) := by simp [hk]
  have hn' : ¬ nonce.len = 0 := by omega
  have hshort : ¬ ct.len < gcmTagSize := by simp only [gcmTagSize]; omega
  have hfit : fitsCap dst (ct.len - gcmTagSize) = true := by simp [fitsCap, gcmTagSize]; omega
  have hov : inexactOverlap { dst with len := ct.len - gcmTagSize } ct = false := by
    apply inexact_false_of
    rcases hct with h | h
    · left; unfold disjoint at h ⊢; simp only [gcmTagSize]; omega
    · right; exact h
  have hne : m.rd nonce ≠ [] := by
    intro h
    have := rd_length m nonce hnw
    rw [h] at this; simp at this; omega
  have hnl : ¬ (m.rd nonce).length = 0 := fun h => hne (List.length_eq_zero_iff.mp h)
  constructor
  · intro p ho
    have hpl : p.length = dst.len := by
      have := hopenlen _ _ _ _ _ ho
      rw [rd_length m ct hc] at this; omega
    have hrun : aesGCMDecryptA A m dst ct key nonce ad = (m.wr dst.off p, .ok ()) := by
      unfold aesGCMDecryptA
      simp only []
      rw [if_neg hk', if_neg hn', if_neg hshort, if_pos hfit, hov, ho]
      simp
    rw [hrun]
    refine ⟨rfl, wr_rd_same m dst p hpl (by omega), ?_⟩
    unfold aesGCMDecrypt
    rw [if_neg hk', if_neg hnl, ho]
    simp only []
    rw [appendInto_exact _ _ (by rw [rd_length m dst (by omega), hpl])]
  · intro ho
    constructor
    · unfold aesGCMDecryptA
      simp only []
      rw [if_neg hk', if_neg hn', if_neg hshort, if_pos hfit, hov, ho]
      simp
    · unfold aesGCMDecrypt
      rw [if_neg hk', if_neg hnl, ho]

/-- `AESCBCDecrypt` on the arena with `dst` of the ciphertext's size, the ciphertext outside `dst`
or `dst` = the ciphertext's own cells: `dst` receives the CBC decryption of the ciphertext window
(the standard library's in-place loop is proved equal to the forward fold in `Proof/C08Cbc.lean`)
and the outcome is the value-level model's — separate buffer and in place alike. -/
theorem cbcDecryptA_refines (C : Cipher) (m : Mem) (dst ct key iv : Win) (lay : DecLayout)
    (hd : dst.wf m) (hc : ct.off + ct.len ≤ m.cells.length) (hi : iv.off + iv.len ≤ m.cells.length)
    (hD : BlockLen (C.D (m.rd key))) (hk : keyOK (m.rd key) = true) (hivl : iv.len = 16)
    (h16 : 16 ≤ ct.len) (hmul : ct.len % 16 = 0) (hsz : dst.len = ct.len)
    (hct : disjoint dst ct ∨ ct.off = dst.off)
    (hlay : lay = .fresh (m.rd dst) ∨ lay = .inplace) :
    (aesCBCDecryptA C m dst ct key iv).1.rd dst = cbcDecrypt (C.D (m.rd key)) (m.rd iv) (m.rd ct) ∧
    aesCBCDecrypt C lay (m.rd ct) (m.rd key) (m.rd iv) =
      match (aesCBCDecryptA C m dst ct key iv).2 with
      | .ok n => .ok (n, (aesCBCDecryptA C m dst ct key iv).1.rd dst)
      | .err e => .err e
      | .panic => .panic := by
  obtain ⟨hdc, hdm⟩ := hd
  have hcl : (m.rd ct).length = ct.len := rd_length m ct hc
  have hivr : (m.rd iv).length = 16 := by rw [rd_length m iv hi, hivl]
  have hpl := cbcDecrypt_length (C.D (m.rd key)) hD (ct.len / 16) (m.rd iv) (m.rd ct) hivr (by omega)
  generalize hP : cbcDecrypt (C.D (m.rd key)) (m.rd iv) (m.rd ct) = P at hpl
  have hrd : (m.wr dst.off P).rd dst = P := wr_rd_same m dst P (by omega) (by omega)
  have hrun : aesCBCDecryptA C m dst ct key iv =
      match pkcs7UnPadding P with
      | .ok n => (m.wr dst.off P, .ok n)
      | .err e => (m.wr dst.off P, .err e)
      | .panic => (m.wr dst.off P, .panic) := by
    unfold aesCBCDecryptA
    have h1 : ¬ (ct.len < aesBlockSize ∨ ct.len &&& blockSizeMask ≠ 0) := by
      rw [and15]; simp only [aesBlockSize]; omega
    have hk' : ¬ (¬ keyOK (m.rd key) = true) := by simp [hk]
    have h2 : ¬ (m.rd iv).length ≠ 16 := by simp [hivr]
    have h3 : ¬ dst.len < ct.len := by omega
    have hov : inexactOverlap { dst with len := ct.len } ct = false := by
      apply inexact_false_of
      rcases hct with h | h
      · left; unfold disjoint at h ⊢; simp only []; omega
      · right; exact h
    rw [if_neg h1]
    simp only []
    rw [if_neg hk', if_neg h2, if_neg h3, hov, hP, hrd]
    cases pkcs7UnPadding P <;> simp
  have hval : aesCBCDecrypt C lay (m.rd ct) (m.rd key) (m.rd iv) =
      match pkcs7UnPadding P with
      | .ok n => .ok (n, P)
      | .err e => .err e
      | .panic => .panic := by
    rw [aesCBCDecrypt_eq C lay (m.rd ct) (m.rd key) (m.rd iv) hk hivr (by omega) (by omega)
      (by
        intro d hd'
        rcases hlay with h | h
        · rw [h] at hd'; injection hd' with hd'
          rw [← hd', rd_length m dst (by omega), hcl, hsz]
        · rw [h] at hd'; cases hd'), hP]
    cases pkcs7UnPadding P <;> rfl
  rw [hval]
  cases hu : pkcs7UnPadding P with
  | ok n => rw [hu] at hrun; rw [hrun]; exact ⟨hrd, by simp only []; rw [hrd]⟩
  | err e => rw [hu] at hrun; rw [hrun]; exact ⟨hrd, rfl⟩
  | panic => rw [hu] at hrun; rw [hrun]; exact ⟨hrd, rfl⟩

/-! ### PKCS#7 helpers at buffer level, every block size -/

/-- `PKCS7Padding` for EVERY block size (any `int`) and every outcome: the only cells it can write
are the spare capacity of `data` — `[off+len, off+cap)` — so `data[0:len]` itself and everything
outside the slice's capacity are untouched; and the slice it returns holds exactly what the
value-level `pkcs7Padding` computes (data followed by the padding), whether `append` stayed in
place or allocated. -/
theorem pkcs7PaddingA_spec (m : Mem) (data : Win) (b : Int) (hd : data.wf m) :
    WritesWithin m (pkcs7PaddingA m data b).1 (data.off + data.len) (data.off + data.cap) ∧
    (pkcs7PaddingA m data b).1.rd data = m.rd data ∧
    (match (pkcs7PaddingA m data b).2, pkcs7Padding (m.rd data) b with
      | .ok sl, .ok x => sl.content (pkcs7PaddingA m data b).1 = x
      | .err e, .err e' => e = e'
      | .panic, .panic => True
      | _, _ => False) := by
  obtain ⟨hdc, hdm⟩ := hd
  have hrl : (m.rd data).length = data.len := rd_length m data (by omega)
  unfold pkcs7PaddingA pkcs7Padding
  rw [hrl]
  by_cases h0 : data.len = 0
  · simp only [h0, if_true]; refine ⟨writesWithin_refl m _ _, ?_, ?_⟩ <;> first | trivial | rfl
  · simp only [h0, if_false]
    by_cases hb : b ≤ 0
    · simp only [hb, if_true]; refine ⟨writesWithin_refl m _ _, ?_, ?_⟩ <;> first | trivial | rfl
    · simp only [hb, if_false]
      cases hp : goRepeat (toByte (b - Int.tmod data.len b).toNat) (b - Int.tmod data.len b) with
      | none => exact ⟨writesWithin_refl m _ _, rfl, trivial⟩
      | some pad =>
        simp only []
        by_cases hfit : data.len + pad.length ≤ data.cap
        · simp only [hfit, if_true]
          have hw := wr_within m (data.off + data.len) pad (data.off + data.len) (data.off + data.cap)
            (by omega) (Nat.le_refl _) (by omega)
          have hsame : (m.wr (data.off + data.len) pad).rd data = m.rd data :=
            wr_rd_other m _ pad data (by omega) (Or.inl (Nat.le_refl _))
          refine ⟨hw, hsame, ?_⟩
          simp only [Slice.content, Mem.rd, Mem.wr]
          have h1 : (m.cells.take (data.off + data.len)).length = data.off + data.len := by simp; omega
          apply List.ext_getElem?
          intro i
          simp only [List.getElem?_take, List.getElem?_drop, List.getElem?_append, List.length_take,
            List.length_drop, List.length_append]
          grind
        · simp only [hfit, if_false]
          refine ⟨writesWithin_refl m _ _, ?_, ?_⟩ <;> first | trivial | rfl

/-- `PKCS7UnPadding` writes nothing, for every block size and every input; what it returns is a
prefix window of `data` holding the value-level result. -/
theorem pkcs7UnPaddingPubA_spec (m : Mem) (data : Win) (b : Int) (hd : data.off + data.len ≤ m.cells.length) :
    (pkcs7UnPaddingPubA m data b).1 = m ∧
    (∀ w, (pkcs7UnPaddingPubA m data b).2 = .ok w →
      w.off = data.off ∧ w.len ≤ data.len ∧ pkcs7UnPaddingPub (m.rd data) b = .ok (m.rd w)) := by
  unfold pkcs7UnPaddingPubA
  cases hr : pkcs7UnPaddingPub (m.rd data) b with
  | panic => exact ⟨rfl, fun w h => by cases h⟩
  | err e => exact ⟨rfl, fun w h => by cases h⟩
  | ok d =>
    refine ⟨rfl, fun w h => ?_⟩
    injection h with h
    subst h
    -- d is a prefix of the data
    have hpre : d = (m.rd data).take d.length ∧ d.length ≤ (m.rd data).length := by
      obtain ⟨n, hx, _⟩ := (unpad_sound (m.rd data) b).2 d hr
      constructor
      · conv => rhs; rw [hx]
        simp
      · rw [hx]; simp
    have hrl : (m.rd data).length = data.len := rd_length m data hd
    refine ⟨rfl, by simp only []; omega, ?_⟩
    have : m.rd { data with len := d.length } = (m.rd data).take d.length := by
      simp only [Mem.rd, List.take_take]
      congr 1; omega
    rw [this, ← hpre.1]

/-! ### what a failed decryption leaves behind -/

/-- `AESGCMDecrypt` whose authentication fails, `dst` sized by the helper, documented layouts:
returns the "open" error and `dst` holds ZEROS (`Open` clears its output) — neither the old
content of `dst` nor any unauthenticated plaintext. -/
theorem gcmDecryptA_failed_leaves_zeros (A : AEAD) (m : Mem) (dst ct key nonce ad : Win)
    (hd : dst.wf m) (hk : keyOK (m.rd key) = true) (hn : 0 < nonce.len)
    (hsz : dst.len + gcmTagSize = ct.len) (hct : disjoint dst ct ∨ ct.off = dst.off)
    (ho : A.openF (m.rd key) (m.rd nonce) (m.rd ct) (m.rd ad) = none) :
    (aesGCMDecryptA A m dst ct key nonce ad).2 = .err "open" ∧
    (aesGCMDecryptA A m dst ct key nonce ad).1.rd dst = List.replicate dst.len 0 := by
  obtain ⟨hdc, hdm⟩ := hd
  simp only [gcmTagSize] at hsz
  have hk' : ¬ (¬ keyOK (m.rd key) = true) := by simp [hk]
  have hn' : ¬ nonce.len = 0 := by omega
  have hshort : ¬ ct.len < gcmTagSize := by simp only [gcmTagSize]; omega
  have hfit : fitsCap dst (ct.len - gcmTagSize) = true := by simp [fitsCap, gcmTagSize]; omega
  have hov : inexactOverlap { dst with len := ct.len - gcmTagSize } ct = false := by
    apply inexact_false_of
    rcases hct with h | h
    · left; unfold disjoint at h ⊢; simp only [gcmTagSize]; omega
    · right; exact h
  have hrun : aesGCMDecryptA A m dst ct key nonce ad =
      (m.wr dst.off (List.replicate (ct.len - gcmTagSize) 0), .err "open") := by
    unfold aesGCMDecryptA
    simp only []
    rw [if_neg hk', if_neg hn', if_neg hshort, if_pos hfit, hov, ho]
    simp
  rw [hrun]
  have hl : ct.len - gcmTagSize = dst.len := by simp only [gcmTagSize]; omega
  rw [hl]
  exact ⟨rfl, wr_rd_same m dst _ (by simp) (by omega)⟩

/-- calls rejected for their ARGUMENTS write nothing at all -/
theorem rejected_calls_write_nothing (C : Cipher) (A : AEAD) (m : Mem) (dst src key iv ad : Win) :
    ((src.len < 16 ∨ src.len % 16 ≠ 0 ∨ keyOK (m.rd key) = false) →
      (aesCBCDecryptA C m dst src key iv).1 = m ∧ ∃ e, (aesCBCDecryptA C m dst src key iv).2 = .err e) ∧
    (keyOK (m.rd key) = false → (aesCBCEncryptA C m dst src key iv).1 = m ∧
      (aesCBCEncryptA C m dst src key iv).2 = .err "key") ∧
    ((keyOK (m.rd key) = false ∨ iv.len = 0) →
      (aesGCMEncryptA A m dst src key iv ad).1 = m ∧ ∃ e, (aesGCMEncryptA A m dst src key iv ad).2 = .err e) ∧
    ((keyOK (m.rd key) = false ∨ iv.len = 0 ∨ src.len < 16) →
      (aesGCMDecryptA A m dst src key iv ad).1 = m ∧ ∃ e, (aesGCMDecryptA A m dst src key iv ad).2 = .err e) := by
  refine ⟨?_, ?_, ?_, ?_⟩
  · intro h
    unfold aesCBCDecryptA
    by_cases hl : src.len < aesBlockSize ∨ src.len &&& blockSizeMask ≠ 0
    · rw [if_pos hl]; exact ⟨rfl, _, rfl⟩
    · rw [if_neg hl]
      have hk : keyOK (m.rd key) = false := by
        rw [and15] at hl; simp only [aesBlockSize] at hl
        rcases h with h | h | h
        · omega
        · omega
        · exact h
      simp only [hk]
      exact ⟨rfl, _, rfl⟩
  · intro hk
    unfold aesCBCEncryptA
    simp only [hk]
    exact ⟨rfl, rfl⟩
  · intro h
    unfold aesGCMEncryptA
    simp only []
    by_cases hk : keyOK (m.rd key) = true
    · have hn : iv.len = 0 := by rcases h with h | h; (rw [hk] at h; cases h); exact h
      simp only [hk, hn]
      exact ⟨rfl, _, rfl⟩
    · have hk' : keyOK (m.rd key) = false := by simpa using hk
      simp only [hk']
      exact ⟨rfl, _, rfl⟩
  · intro h
    unfold aesGCMDecryptA
    simp only []
    by_cases hk : keyOK (m.rd key) = true
    · by_cases hn : iv.len = 0
      · simp only [hk, hn]; exact ⟨rfl, _, rfl⟩
      · have hs : src.len < gcmTagSize := by
          simp only [gcmTagSize]
          rcases h with h | h | h
          · rw [hk] at h; cases h
          · exact absurd h hn
          · exact h
        simp only [hk, hn, hs]
        exact ⟨rfl, _, rfl⟩
    · have hk' : keyOK (m.rd key) = false := by simpa using hk
      simp only [hk']
      exact ⟨rfl, _, rfl⟩

end Golib.C08.Arena
