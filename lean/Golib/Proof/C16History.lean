/-
C16 helper definitions, part 9: whole histories of one `setz.Bits` value against a
mathematical set (`Nat → Bool`), with arbitrary other operands for the bulk operations.
-/
import Golib.Proof.C16HeapSim

namespace Golib.C16

/-- the mutating operations of one `Bits` value; the other operand of a bulk operation is any
bitmap (any word length) -/
inductive SOp where
  | add (n : Nat) | remove (n : Nat) | grow (n : Nat)
  | diff (o : Bitmap) | intersect (o : Bitmap) | merge (o : Bitmap)

/-- what a mathematical set does: the new membership predicate and, for `Add`/`Remove`, the
answer ("membership changed") -/
def SOp.spec (S : Nat → Bool) : SOp → (Nat → Bool) × Option Bool
  | .add n => (fun m => decide (n = m) || S m, some (!S n))
  | .remove n => (fun m => !decide (n = m) && S m, some (S n))
  | .grow _ => (S, none)
  | .diff o => (fun m => S m && !mem o.set m, none)
  | .intersect o => (fun m => S m && mem o.set m, none)
  | .merge o => (fun m => S m || mem o.set m, none)

/-- what the model does (`none` = panic) -/
def SOp.run (b : Bits) : SOp → Option (Bits × Option Bool)
  | .add n => (b.add n).map fun r => (r.1, some r.2)
  | .remove n => (b.remove n).map fun r => (r.1, some r.2)
  | .grow n => some ({ b with bm := b.bm.grow n }, none)
  | .diff o => some (b.diff o, none)
  | .intersect o => some (b.intersect o, none)
  | .merge o => some (b.merge o, none)

def runAll : Bits → List SOp → Option (Bits × List (Option Bool))
  | b, [] => some (b, [])
  | b, op :: ops =>
    match op.run b with
    | none => none
    | some (b', a) => (runAll b' ops).map fun r => (r.1, a :: r.2)

def specAll : (Nat → Bool) → List SOp → (Nat → Bool) × List (Option Bool)
  | S, [] => (S, [])
  | S, op :: ops => let r := specAll (op.spec S).1 ops; (r.1, (op.spec S).2 :: r.2)

theorem specAll_congr (S T : Nat → Bool) (h : ∀ m, S m = T m) (ops : List SOp) :
    specAll S ops = specAll T ops := by
  have : S = T := funext h
  rw [this]

theorem run_step (b : Bits) (hi : b.Inv) (op : SOp) :
    ∃ b', op.run b = some (b', (op.spec (mem b.bm.set)).2) ∧ b'.Inv ∧
      ∀ m, mem b'.bm.set m = (op.spec (mem b.bm.set)).1 m := by
  cases op with
  | add n =>
    obtain ⟨bm', h, hm, _⟩ := add_spec b.bm n
    cases hc : mem b.bm.set n
    · have h' : b.add n = some (⟨b.length + 1, bm'⟩, true) := by simp [Bits.add, h, hc]
      exact ⟨_, by simp [SOp.run, SOp.spec, h', hc], Bits.add_inv _ _ _ _ hi h', by simpa [SOp.spec] using hm⟩
    · have h' : b.add n = some (⟨b.length, bm'⟩, false) := by simp [Bits.add, h, hc]
      exact ⟨_, by simp [SOp.run, SOp.spec, h', hc], Bits.add_inv _ _ _ _ hi h', by simpa [SOp.spec] using hm⟩
  | remove n =>
    obtain ⟨bm', h, hm, _⟩ := remove_spec b.bm n
    cases hc : mem b.bm.set n
    · have h' : b.remove n = some (⟨b.length, bm'⟩, false) := by simp [Bits.remove, h, hc]
      exact ⟨_, by simp [SOp.run, SOp.spec, h', hc], Bits.remove_inv _ _ _ _ hi h', by simpa [SOp.spec] using hm⟩
    · have h' : b.remove n = some (⟨b.length - 1, bm'⟩, true) := by simp [Bits.remove, h, hc]
      exact ⟨_, by simp [SOp.run, SOp.spec, h', hc], Bits.remove_inv _ _ _ _ hi h', by simpa [SOp.spec] using hm⟩
  | grow n => exact ⟨_, rfl, Bits.grow_inv b n hi, (grow_spec b.bm n).1⟩
  | diff o => exact ⟨_, rfl, Bits.diff_inv b o, fun m => mem_diff _ _ m⟩
  | intersect o => exact ⟨_, rfl, Bits.intersect_inv b o, fun m => mem_intersect _ _ m⟩
  | merge o => exact ⟨_, rfl, Bits.merge_inv b o, fun m => mem_merge _ _ m⟩

theorem runAll_spec (ops : List SOp) : ∀ (b : Bits), b.Inv →
    ∃ b', runAll b ops = some (b', (specAll (mem b.bm.set) ops).2) ∧ b'.Inv ∧
      ∀ m, mem b'.bm.set m = (specAll (mem b.bm.set) ops).1 m := by
  induction ops with
  | nil => intro b hi; exact ⟨b, rfl, hi, fun _ => rfl⟩
  | cons op ops ih =>
    intro b hi
    obtain ⟨b1, h1, hi1, hm1⟩ := run_step b hi op
    obtain ⟨b', h2, hi2, hm2⟩ := ih b1 hi1
    have hc := specAll_congr _ _ hm1 ops
    refine ⟨b', ?_, hi2, ?_⟩
    · simp only [runAll, h1, h2, Option.map_some, specAll, hc]
    · intro m; rw [hm2 m, hc]; rfl

end Golib.C16
