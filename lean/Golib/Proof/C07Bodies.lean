/-
C07: each loop body meets `BodySpec` w.r.t. its decision function, and makes progress.
-/
import Golib.Proof.C07Steps

namespace Golib.C07
open Golib

theorem octal_bodySpec (src : Bytes) (n : Nat) : BodySpec (octalBody src) octalDec src n := by
  intro s hi hlt
  obtain ⟨dst, e, f, i⟩ := s
  simp only [] at hlt
  have hlen : (src.drop i).length = src.length - i := List.length_drop ..
  unfold octalDec octalBody
  simp only [hlen, drop_getElem?_zero, window_eq]
  by_cases h4 : src.length - i < 4
  · simp only [h4, if_true]
    exact ⟨_, rfl, stop_final hi⟩
  · simp only [h4, if_false]
    obtain ⟨c, hc⟩ := getElem?_of_lt hlt
    simp only [hc]
    by_cases hc92 : c = 92
    · subst hc92
      simp only [ne_eq, not_true_eq_false, if_false]
      rw [slice_eq (by omega) (by omega)]
      simp only []
      have hwl : ((src.take (i + 4)).drop (i + 1)).length = 3 := by
        simp only [List.length_drop, List.length_take]; omega
      rcases hp : parseUint ((src.take (i + 4)).drop (i + 1)) 8 8 with ⟨v, j, ok⟩
      cases ok
      · have hj := parseUint_fail_lt hp
        simp only []
        obtain ⟨hinv, hv⟩ := skip_step (1 + j) hi (by omega)
        exact ⟨by omega, by omega, _, rfl, hinv, rfl, hv⟩
      · simp only []
        obtain ⟨s0, dst', h0, hw, hinv, hv⟩ := emit_step (bs := [v % 256]) 4 hi (by simp only []; omega) (by simp)
        simp only [h0, hw]
        exact ⟨by omega, by omega, _, rfl, hinv, rfl, hv⟩
    · simp only [ne_eq, hc92, not_false_eq_true, if_true, Option.some.injEq]
      obtain ⟨hinv, hv⟩ := skip_step 1 hi (by omega)
      exact ⟨by omega, by omega, _, rfl, hinv, rfl, hv⟩

theorem hex_bodySpec (src : Bytes) (n : Nat) : BodySpec (hexBody src) hexDec src n := by
  intro s hi hlt
  obtain ⟨dst, e, f, i⟩ := s
  simp only [] at hlt
  have hlen : (src.drop i).length = src.length - i := List.length_drop ..
  unfold hexDec hexBody
  simp only [hlen, drop_getElem?_zero, drop_getElem?_one, window_eq]
  by_cases h4 : src.length - i < 4
  · simp only [h4, if_true]
    exact ⟨_, rfl, stop_final hi⟩
  · simp only [h4, if_false]
    obtain ⟨c, hc⟩ := getElem?_of_lt hlt
    obtain ⟨c1, hc1⟩ := getElem?_of_lt (src := src) (i := i + 1) (by omega)
    simp only [hc, hc1]
    have hskip1 := skip_step 1 hi (by omega)
    by_cases hc92 : c = 92
    · subst hc92
      simp only [ne_eq, not_true_eq_false, if_false]
      by_cases hx : c1 = 120
      · subst hx
        simp only [not_true_eq_false, if_false]
        rw [slice_eq (by omega) (by omega)]
        simp only []
        have hwl : ((src.take (i + 4)).drop (i + 2)).length = 2 := by
          simp only [List.length_drop, List.length_take]; omega
        rcases hp : parseUint ((src.take (i + 4)).drop (i + 2)) 16 8 with ⟨v, j, ok⟩
        cases ok
        · have hj := parseUint_fail_lt hp
          simp only []
          obtain ⟨hinv, hv⟩ := skip_step (2 + j) hi (by omega)
          exact ⟨by omega, by omega, _, rfl, hinv, rfl, hv⟩
        · simp only []
          obtain ⟨s0, dst', h0, hw, hinv, hv⟩ := emit_step (bs := [v % 256]) 4 hi (by simp only []; omega) (by simp)
          simp only [h0, hw]
          exact ⟨by omega, by omega, _, rfl, hinv, rfl, hv⟩
      · simp only [hx, not_false_eq_true, if_true, Option.some.injEq]
        exact ⟨by omega, by omega, _, rfl, hskip1.1, rfl, hskip1.2⟩
    · simp only [ne_eq, hc92, not_false_eq_true, if_true, Option.some.injEq]
      exact ⟨by omega, by omega, _, rfl, hskip1.1, rfl, hskip1.2⟩

theorem encodeRune_length_le (r : Int) : (Utf8.encodeRune r).length ≤ 4 := by
  unfold Utf8.encodeRune; simp only []; repeat' split
  all_goals simp

theorem encodeRune_length_le3 {r : Int} (h : r < 0x10000) : (Utf8.encodeRune r).length ≤ 3 := by
  unfold Utf8.encodeRune; simp only []; repeat' split
  all_goals first | simp | omega

theorem unicode_bodySpec (src : Bytes) (n : Nat) : BodySpec (unicodeBody src) unicodeDec src n := by
  intro s hi hlt
  obtain ⟨dst, e, f, i⟩ := s
  simp only [] at hlt
  have hlen : (src.drop i).length = src.length - i := List.length_drop ..
  unfold unicodeDec unicodeBody
  simp only [hlen, drop_getElem?_zero, drop_getElem?_one, window_eq]
  by_cases h4 : src.length - i < 10
  · simp only [h4, if_true]
    exact ⟨_, rfl, stop_final hi⟩
  · simp only [h4, if_false]
    obtain ⟨c, hc⟩ := getElem?_of_lt hlt
    obtain ⟨c1, hc1⟩ := getElem?_of_lt (src := src) (i := i + 1) (by omega)
    simp only [hc, hc1]
    have hskip1 := skip_step 1 hi (by omega)
    by_cases hc92 : c = 92
    · subst hc92
      simp only [ne_eq, not_true_eq_false, if_false]
      by_cases hx : c1 = 85
      · subst hx
        simp only [not_true_eq_false, if_false]
        rw [slice_eq (by omega) (by omega)]
        simp only []
        have hwl : ((src.take (i + 10)).drop (i + 2)).length = 8 := by
          simp only [List.length_drop, List.length_take]; omega
        rcases hp : parseUint ((src.take (i + 10)).drop (i + 2)) 16 32 with ⟨v, j, ok⟩
        cases ok
        · have hj := parseUint_fail_lt hp
          simp only []
          obtain ⟨hinv, hv⟩ := skip_step (2 + j) hi (by omega)
          exact ⟨by omega, by omega, _, rfl, hinv, rfl, hv⟩
        · simp only []
          by_cases hmax : v > 0x10FFFF
          · simp only [hmax, if_true]
            obtain ⟨hinv, hv⟩ := skip_step 10 hi (by omega)
            exact ⟨by omega, by omega, _, rfl, hinv, rfl, hv⟩
          · simp only [hmax, if_false]
            have hbl : (if v < 0x80 then [v % 256] else Utf8.encodeRune (v : Int)).length ≤ 10 := by
              split
              · simp
              · have := encodeRune_length_le (v : Int); omega
            obtain ⟨s0, dst', h0, hw, hinv, hv⟩ := emit_step 10 hi (by simp only []; omega) hbl
            simp only [h0, hw]
            exact ⟨by omega, by omega, _, rfl, hinv, rfl, hv⟩
      · simp only [hx, not_false_eq_true, if_true, Option.some.injEq]
        exact ⟨by omega, by omega, _, rfl, hskip1.1, rfl, hskip1.2⟩
    · simp only [ne_eq, hc92, not_false_eq_true, if_true, Option.some.injEq]
      exact ⟨by omega, by omega, _, rfl, hskip1.1, rfl, hskip1.2⟩

/-- `if f < i { e += copy(dst[e:], src[f:i]); f = i }` of `Utf16Parse`. -/
theorem flush_reset {src : Bytes} {n : Nat} {s : St} (hi : Inv src n s) :
    ∃ s0 d0 e0, flush src s = some s0 ∧
      (if s.f < s.i then { s0 with f := s.i } else s0) = ⟨d0, e0, s.i, s.i⟩ ∧
      Inv src n ⟨d0, e0, s.i, s.i⟩ ∧ virt src ⟨d0, e0, s.i, s.i⟩ = virt src s := by
  obtain ⟨s0, h0, he, hf, hi', hinv, hv⟩ := flush_step hi
  refine ⟨s0, s0.dst, s0.e, h0, ?_, hinv, hv⟩
  have hfi := hi.fi
  obtain ⟨d, e, f, i⟩ := s0
  simp only [] at hf hi' ⊢
  split
  · simp only [hi']
  · have : s.f = s.i := by omega
    simp only [hf, hi', this]

theorem utf16_bodySpec (src : Bytes) (n : Nat) : BodySpec (utf16Body src) utf16DecF src n := by
  intro s hi hlt
  obtain ⟨s0, d0, e0, hfl, hreset, hinv1, hv1⟩ := flush_reset hi
  obtain ⟨dst, e, f, i⟩ := s
  simp only [] at hlt hreset hinv1 hv1
  have hlen : (src.drop i).length = src.length - i := List.length_drop ..
  unfold utf16DecF utf16Body
  simp only [hlen, drop_getElem?_zero, drop_getElem?_one, window_eq]
  by_cases h4 : src.length - i < 6
  · simp only [h4, if_true]
    exact ⟨_, rfl, stop_final hi⟩
  · simp only [h4, if_false]
    obtain ⟨c, hc⟩ := getElem?_of_lt hlt
    obtain ⟨c1, hc1⟩ := getElem?_of_lt (src := src) (i := i + 1) (by omega)
    simp only [hc, hc1]
    have hskip1 := skip_step 1 hi (by omega)
    by_cases hc92 : c = 92
    · subst hc92
      simp only [ne_eq, not_true_eq_false, if_false]
      by_cases hx : c1 = 117
      · subst hx
        simp only [not_true_eq_false, if_false]
        rw [slice_eq (by omega) (by omega)]
        simp only []
        have hwl : ((src.take (i + 6)).drop (i + 2)).length = 4 := by
          simp only [List.length_drop, List.length_take]; omega
        rcases hp : parseUint ((src.take (i + 6)).drop (i + 2)) 16 16 with ⟨n1, j, ok⟩
        cases ok
        · have hj := parseUint_fail_lt hp
          simp only []
          obtain ⟨hinv, hv⟩ := skip_step (2 + j) hi (by omega)
          exact ⟨by omega, by omega, _, rfl, hinv, rfl, hv⟩
        · simp only [hfl, hreset]
          by_cases hns : n1 < 0xd800 ∨ n1 ≥ 0xe000
          · simp only [hns, if_true]
            obtain ⟨dst', hw, hinv, hv⟩ := write_step (bs := Utf8.encodeRune (n1 : Int)) 6 hinv1
              (by omega) (by have := encodeRune_length_le (n1 : Int); omega)
            simp only [hw]
            exact ⟨by omega, by omega, _, rfl, hinv, rfl, by rw [hv, hv1]⟩
          · simp only [hns, if_false]
            by_cases hhi : n1 ≥ 0xd800 ∧ n1 < 0xdc00
            · simp only [hhi, and_self, if_true]
              -- high surrogate: look at the next escape
              have hlen2 : ((src.drop i).drop 6).length = src.length - (i + 6) := by
                simp only [List.length_drop]; omega
              have hdd : (src.drop i).drop 6 = src.drop (i + 6) := by
                rw [List.drop_drop]
              unfold utf16Dec2
              simp only [hdd, List.length_drop, drop_getElem?_zero, drop_getElem?_one, window_eq]
              by_cases h6 : src.length - (i + 6) < 6
              · simp only [h6, if_true]
                refine ⟨_, rfl, ?_⟩
                have := stop_final hinv1
                rw [hv1] at this
                exact this
              · simp only [h6, if_false]
                obtain ⟨d, hd⟩ := getElem?_of_lt (src := src) (i := i + 6) (by omega)
                obtain ⟨d1, hd1⟩ := getElem?_of_lt (src := src) (i := i + 6 + 1) (by omega)
                simp only [hd, hd1]
                have hskip7 := skip_step 7 hinv1 (by omega)
                have e7 : i + 6 + 1 = i + 7 := by omega
                by_cases hd92 : d = 92
                · subst hd92
                  simp only [ne_eq, not_true_eq_false, if_false]
                  by_cases hdu : d1 = 117
                  · subst hdu
                    simp only [not_true_eq_false, if_false]
                    rw [slice_eq (by omega) (by omega)]
                    simp only []
                    have hwl2 : ((src.take (i + 6 + 6)).drop (i + 6 + 2)).length = 4 := by
                      simp only [List.length_drop, List.length_take]; omega
                    rcases hp2 : parseUint ((src.take (i + 6 + 6)).drop (i + 6 + 2)) 16 16 with ⟨n2, j2, ok2⟩
                    cases ok2
                    · have hj2 := parseUint_fail_lt hp2
                      simp only []
                      obtain ⟨hinv, hv⟩ := skip_step (6 + (2 + j2)) hinv1 (by omega)
                      have e8 : i + 6 + (2 + j2) = i + (6 + (2 + j2)) := by omega
                      rw [e8]
                      exact ⟨by omega, by omega, _, rfl, hinv, rfl, by rw [hv, hv1]⟩
                    · simp only []
                      by_cases hlo : n2 ≥ 0xdc00 ∧ n2 < 0xe000
                      · simp only [hlo, and_self, if_true]
                        obtain ⟨dst', hw, hinv, hv⟩ := write_step (bs := Utf8.encodeRune (utf16Dec n1 n2)) 12 hinv1
                          (by omega) (by have := encodeRune_length_le (utf16Dec n1 n2); omega)
                        simp only [hw]
                        have e12 : i + 6 + 6 = i + 12 := by omega
                        rw [e12]
                        exact ⟨by omega, by omega, _, rfl, hinv, rfl, by rw [hv, hv1]⟩
                      · simp only [hlo, if_false]
                        obtain ⟨hinv, hv⟩ := skip_step 12 hinv1 (by omega)
                        have e12 : i + 6 + 6 = i + 12 := by omega
                        rw [e12]
                        exact ⟨by omega, by omega, _, rfl, hinv, rfl, by rw [hv, hv1]⟩
                  · simp only [hdu, not_false_eq_true, if_true, Option.some.injEq]
                    rw [e7]
                    exact ⟨by omega, by omega, _, rfl, hskip7.1, rfl, by rw [hskip7.2, hv1]⟩
                · simp only [ne_eq, hd92, not_false_eq_true, if_true, Option.some.injEq]
                  rw [e7]
                  exact ⟨by omega, by omega, _, rfl, hskip7.1, rfl, by rw [hskip7.2, hv1]⟩
            · simp only [hhi, if_false]
              obtain ⟨hinv, hv⟩ := skip_step 6 hinv1 (by omega)
              exact ⟨by omega, by omega, _, rfl, hinv, rfl, by rw [hv, hv1]⟩
      · simp only [hx, not_false_eq_true, if_true, Option.some.injEq]
        exact ⟨by omega, by omega, _, rfl, hskip1.1, rfl, hskip1.2⟩
    · simp only [ne_eq, hc92, not_false_eq_true, if_true, Option.some.injEq]
      exact ⟨by omega, by omega, _, rfl, hskip1.1, rfl, hskip1.2⟩

end Golib.C07
