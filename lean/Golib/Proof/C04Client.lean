/-
C04 helper lemmas, part 14: the client that holds `iter.Seq` values and struct copies (`COp`).
A held Seq value ranges over the CURRENT content of its heap (it is `popAllN` / `popAll` on the
current state, whenever it was obtained); `Remove`/`Fix` through a struct copy of `h` with `h`'s
element handles change nothing (the copy is another heap object); obtaining a Seq changes nothing.
-/
import Golib.Proof.C04HeapSpec

set_option linter.unusedSimpArgs false
set_option linter.unusedVariables false

namespace Golib.C04

/-- client obligations: those of the heap op, and a Seq slot must exist -/
def cPre (s : HSpec) (c : HClient) : COp → Prop
  | .op o => specPre s o
  | .range i _ => i < c.seqs.length
  | .rangeAll i => i < c.seqs.length
  | _ => True

/-- The heap op a client op amounts to on the CURRENT state (`none`: no heap is touched). -/
def COp.heapOp (c : HClient) : COp → Option HOp
  | .op o => some o
  | .range i k => (c.seqs[i]?).map fun h => HOp.popAllN h k
  | .rangeAll i => (c.seqs[i]?).map fun h => HOp.popAll h
  | _ => none

/-- What one client op does: either exactly its heap op (same state change, same result, spec
step of that op), or nothing at all. -/
def CPost (c : HClient) (s : HSpec) (o : COp) (c' : HClient) (r : HRet) (s' : HSpec) : Prop :=
  match o.heapOp c with
  | some ho => stepH c.st ho = some (c'.st, r) ∧ specOK s ho r ∧ s' = specStep s ho r
  | none => c'.st = c.st ∧ r = .unit ∧ s' = s

def CSteps : List COp → HClient → HSpec → Prop
  | [], _, _ => True
  | o :: os, c, s => cPre s c o → ∃ c' r s', stepC c o = some (c', r) ∧ CPost c s o c' r s' ∧
      Rel c'.st s' ∧ CSteps os c' s'

theorem client_step {c : HClient} {s : HSpec} (R : Rel c.st s) (o : COp) (hpre : cPre s c o) :
    ∃ c' r s', stepC c o = some (c', r) ∧ CPost c s o c' r s' ∧ Rel c'.st s' := by
  have viaHeap : ∀ (ho : HOp), specPre s ho →
      ∃ st' r, stepH c.st ho = some (st', r) ∧ specOK s ho r ∧ Rel st' (specStep s ho r) :=
    fun ho hp => step_refines R ho hp
  have foreign : ∀ (h : Fin 2) (e : Nat), c.st.m.own.get e ≠ some (h.val + 2) := by
    intro h e ho
    have := R.ok.core.ownR e _ ho
    omega
  cases o with
  | op ho =>
    obtain ⟨st', r, hrun, hok, R'⟩ := viaHeap ho hpre
    exact ⟨{ c with st := st' }, r, _, by simp [stepC, hrun], ⟨hrun, hok, rfl⟩, R'⟩
  | seq h => exact ⟨{ c with seqs := c.seqs ++ [h] }, .unit, s, rfl, ⟨rfl, rfl, rfl⟩, R⟩
  | range i k =>
    have hi : i < c.seqs.length := hpre
    have hget : c.seqs[i]? = some c.seqs[i] := List.getElem?_eq_getElem hi
    obtain ⟨st', r, hrun, hok, R'⟩ := viaHeap (.popAllN c.seqs[i] k) trivial
    refine ⟨{ c with st := st' }, r, _, by simp [stepC, hget, hrun], ?_, R'⟩
    simp only [CPost, COp.heapOp, hget, Option.map_some]
    exact ⟨hrun, hok, trivial⟩
  | rangeAll i =>
    have hi : i < c.seqs.length := hpre
    have hget : c.seqs[i]? = some c.seqs[i] := List.getElem?_eq_getElem hi
    obtain ⟨st', r, hrun, hok, R'⟩ := viaHeap (.popAll c.seqs[i]) trivial
    refine ⟨{ c with st := st' }, r, _, by simp [stepC, hget, hrun], ?_, R'⟩
    simp only [CPost, COp.heapOp, hget, Option.map_some]
    exact ⟨hrun, hok, trivial⟩
  | copyRemove h e =>
    have hrun := (heap_handles_ignored (c.st.cmp h.val) c.st.m (h.val + 2) e (foreign h e)).1
    exact ⟨c, .unit, s, by simp [stepC, hrun], ⟨rfl, rfl, rfl⟩, R⟩
  | copyFix h e =>
    have hrun := (heap_handles_ignored (c.st.cmp h.val) c.st.m (h.val + 2) e (foreign h e)).2
    exact ⟨c, .unit, s, by simp [stepC, hrun], ⟨rfl, rfl, rfl⟩, R⟩

theorem client_steps : ∀ (ops : List COp) (c : HClient) (s : HSpec), Rel c.st s → CSteps ops c s := by
  intro ops
  induction ops with
  | nil => intro c s _; trivial
  | cons o os ih =>
    intro c s R hpre
    obtain ⟨c', r, s', hrun, hpost, R'⟩ := client_step R o hpre
    exact ⟨c', r, s', hrun, hpost, R', ih c' s' R'⟩

end Golib.C04
