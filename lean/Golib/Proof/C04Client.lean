/-
C04 helper lemmas, part 14: the client that holds `iter.Seq` values and struct copies (`COp`).
A held Seq value ranges over the CURRENT content of its heap (it is `popAllN` / `popAll` on the
current state, whenever it was obtained); `Remove`/`Fix` through a struct copy of `h` with `h`'s
element handles change nothing (the copy is another heap object); obtaining a Seq changes nothing.
-/
import Golib.Proof.C04HeapSpec

set_option linter.unusedSimpArgs false
set_option linter.unusedVariables false

namespace Golib.C04

/-- the spec run of a list of calls -/
def SpecRun : HSpec → List HOp → List HRet → HSpec → Prop
  | s, [], rs, s' => rs = [] ∧ s' = s
  | s, o :: os, rs, s' => ∃ r rs', rs = r :: rs' ∧ specOK s o r ∧ SpecRun (specStep s o r) os rs' s'

/-- The explicit loop on the spec, `for len(h) > 0 { e := Pop(); body(i, e); if i+1 == k { break } }`:
`es` = the elements yielded, `rs` = the results of the body's calls, `d` = the loop ended within
`f` rounds. At its turn every yielded `e` is a live handle no live handle precedes (`IsMin`) in the
state left by the EARLIER bodies, and the body of its iteration runs in the state where `e` has
already left (`specPop`). -/
def BodyLoopOK (h : Fin 2) (body : Nat → List HOp) (k : Nat) :
    Nat → Nat → HSpec → List Nat → List HRet → Bool → HSpec → Prop
  | 0, _, s, es, rs, d, s' => es = [] ∧ rs = [] ∧ d = false ∧ s' = s
  | f + 1, i, s, es, rs, d, s' =>
    (s.live h = [] ∧ es = [] ∧ rs = [] ∧ d = true ∧ s' = s) ∨
    ∃ e es' rs1 rs2 s1, es = e :: es' ∧ rs = rs1 ++ rs2 ∧ IsMin s h e ∧
      SpecRun (specPop s h e) (body i) rs1 s1 ∧
      (if i + 1 = k then es' = [] ∧ rs2 = [] ∧ d = true ∧ s' = s1
       else BodyLoopOK h body k f (i + 1) s1 es' rs2 d s')

/-- client obligations: those of the heap op; a Seq slot / cursor must exist; the calls of a loop
body are calls without obligations (Push, Pop, Peek, Len, Remove, Fix, PopAll …) -/
def cPre (s : HSpec) (c : HClient) : COp → Prop
  | .op o => specPre s o
  | .range i _ => i < c.seqs.length
  | .rangeAll i => i < c.seqs.length
  | .popAllBody _ _ script => ∀ l, l ∈ script → ∀ o, o ∈ l → ∀ s', specPre s' o
  | .pull i => i < c.seqs.length
  | .next j => j < c.curs.length
  | .stop j => j < c.curs.length
  | _ => True

/-- The heap op a client op amounts to on the CURRENT state (`none`: no heap is touched). -/
def COp.heapOp (c : HClient) : COp → Option HOp
  | .op o => some o
  | .range i k => (c.seqs[i]?).map fun h => HOp.popAllN h k
  | .rangeAll i => (c.seqs[i]?).map fun h => HOp.popAll h
  | .next j =>
    match c.curs[j]? with
    | some (h, true) => some (HOp.pop h)
    | _ => none
  | _ => none

/-- What one client op does. `popAllBody`: the explicit loop on the spec. `next` on an active
cursor: exactly one `Pop` on the shared heap (the cursor is finished iff that `Pop` answered nil);
on a finished cursor: nil, nothing changes. Otherwise: exactly the heap op it amounts to (same
state change, same result, spec step of that op), or nothing at all. -/
def CPost (c : HClient) (s : HSpec) (o : COp) (c' : HClient) (r : HRet) (s' : HSpec) : Prop :=
  match o with
  | .popAllBody h k script =>
    ∃ es rs d, r = .bodyRes es (rs.flatMap HRet.toInts) d ∧
      BodyLoopOK h (scriptBody script) k (bodyFuel c h script) 0 s es rs d s'
  | .next j =>
    match c.curs[j]? with
    | some (h, true) => stepH c.st (.pop h) = some (c'.st, r) ∧ specOK s (.pop h) r ∧
        s' = specStep s (.pop h) r ∧ c'.curs[j]? = some (h, !r.isNil)
    | _ => c' = c ∧ r = .handle none ∧ s' = s
  | _ =>
    match o.heapOp c with
    | some ho => stepH c.st ho = some (c'.st, r) ∧ specOK s ho r ∧ s' = specStep s ho r
    | none => c'.st = c.st ∧ r = .unit ∧ s' = s

def CSteps : List COp → HClient → HSpec → Prop
  | [], _, _ => True
  | o :: os, c, s => cPre s c o → ∃ c' r s', stepC c o = some (c', r) ∧ CPost c s o c' r s' ∧
      Rel c'.st s' ∧ CSteps os c' s'

theorem runH_refines : ∀ (ops : List HOp) (st : HState) (s : HSpec), Rel st s →
    (∀ o, o ∈ ops → ∀ s', specPre s' o) →
    ∃ st' rs s', runH st ops = some (st', rs) ∧ SpecRun s ops rs s' ∧ Rel st' s' := by
  intro ops
  induction ops with
  | nil => intro st s R _; exact ⟨st, [], s, rfl, ⟨rfl, rfl⟩, R⟩
  | cons o os ih =>
    intro st s R hp
    obtain ⟨st1, r, hrun, hok, R1⟩ := step_refines R o (hp o (List.mem_cons_self) s)
    obtain ⟨st2, rs, s2, hrun2, hsr, R2⟩ := ih st1 _ R1 (fun o' ho' => hp o' (List.mem_cons_of_mem _ ho'))
    exact ⟨st2, r :: rs, s2, by simp [runH, hrun, hrun2], ⟨r, rs, rfl, hok, hsr⟩, R2⟩

/-- `PopAll` with a loop body (pop, then yield, as coded) = the explicit loop on the spec. -/
theorem body_loop (h : Fin 2) (body : Nat → List HOp) (k : Nat)
    (hb : ∀ i o, o ∈ body i → ∀ s', specPre s' o) :
    ∀ (f i : Nat) (st : HState) (s : HSpec), Rel st s →
    ∃ st' es rs d s', popAllBody h body k f i st = some (st', es, rs, d) ∧
      BodyLoopOK h body k f i s es rs d s' ∧ Rel st' s' := by
  intro f
  induction f with
  | zero => intro i st s R; exact ⟨st, [], [], false, s, rfl, ⟨rfl, rfl, rfl, rfl⟩, R⟩
  | succ f ih =>
    intro i st s R
    by_cases h0 : st.m.arr h.val = []
    · obtain ⟨hrun, hl⟩ := (rel_pop R h).1 h0
      exact ⟨st, [], [], true, s, by simp [popAllBody, hrun], Or.inl ⟨hl, rfl, rfl, rfl, rfl⟩, R⟩
    · obtain ⟨m1, e, hrun, hmin, R1⟩ := (rel_pop R h).2 h0
      obtain ⟨st2, rs1, s1, hrun1, hsr, R2⟩ := runH_refines (body i) _ _ R1 (hb i)
      by_cases hk : i + 1 = k
      · refine ⟨st2, [e], rs1, true, s1, by simp [popAllBody, hrun, hrun1, hk], Or.inr ?_, R2⟩
        exact ⟨e, [], rs1, [], s1, rfl, by simp, hmin, hsr, by simp [hk]⟩
      · obtain ⟨st3, es, rs2, d, s3, hrun3, hok3, R3⟩ := ih (i + 1) st2 s1 R2
        refine ⟨st3, e :: es, rs1 ++ rs2, d, s3, by simp [popAllBody, hrun, hrun1, hk, hrun3], Or.inr ?_, R3⟩
        exact ⟨e, es, rs1, rs2, s1, rfl, rfl, hmin, hsr, by simp [hk]; exact hok3⟩

theorem mem_scriptBody {script : List (List HOp)} {i : Nat} {o : HOp} (h : o ∈ scriptBody script i) :
    ∃ l, l ∈ script ∧ o ∈ l := by
  unfold scriptBody at h
  cases hg : script[i]? with
  | none => rw [hg] at h; cases h
  | some l => rw [hg] at h; exact ⟨l, List.mem_of_getElem? hg, h⟩

theorem client_step {c : HClient} {s : HSpec} (R : Rel c.st s) (o : COp) (hpre : cPre s c o) :
    ∃ c' r s', stepC c o = some (c', r) ∧ CPost c s o c' r s' ∧ Rel c'.st s' := by
  have viaHeap : ∀ (ho : HOp), specPre s ho →
      ∃ st' r, stepH c.st ho = some (st', r) ∧ specOK s ho r ∧ Rel st' (specStep s ho r) :=
    fun ho hp => step_refines R ho hp
  have foreign : ∀ (h : Fin 2) (e : Nat), c.st.m.own.get e ≠ some (h.val + 2) := by
    intro h e ho
    have := R.ok.core.ownR e _ ho
    omega
  cases o with
  | op ho =>
    obtain ⟨st', r, hrun, hok, R'⟩ := viaHeap ho hpre
    exact ⟨{ c with st := st' }, r, _, by simp [stepC, hrun], ⟨hrun, hok, rfl⟩, R'⟩
  | seq h => exact ⟨{ c with seqs := c.seqs ++ [h] }, .unit, s, rfl, ⟨rfl, rfl, rfl⟩, R⟩
  | range i k =>
    have hi : i < c.seqs.length := hpre
    have hget : c.seqs[i]? = some c.seqs[i] := List.getElem?_eq_getElem hi
    obtain ⟨st', r, hrun, hok, R'⟩ := viaHeap (.popAllN c.seqs[i] k) trivial
    refine ⟨{ c with st := st' }, r, _, by simp [stepC, hget, hrun], ?_, R'⟩
    simp only [CPost, COp.heapOp, hget, Option.map_some]
    exact ⟨hrun, hok, trivial⟩
  | rangeAll i =>
    have hi : i < c.seqs.length := hpre
    have hget : c.seqs[i]? = some c.seqs[i] := List.getElem?_eq_getElem hi
    obtain ⟨st', r, hrun, hok, R'⟩ := viaHeap (.popAll c.seqs[i]) trivial
    refine ⟨{ c with st := st' }, r, _, by simp [stepC, hget, hrun], ?_, R'⟩
    simp only [CPost, COp.heapOp, hget, Option.map_some]
    exact ⟨hrun, hok, trivial⟩
  | copyRemove h e =>
    have hrun := (heap_handles_ignored (c.st.cmp h.val) c.st.m (h.val + 2) e (foreign h e)).1
    exact ⟨c, .unit, s, by simp [stepC, hrun], ⟨rfl, rfl, rfl⟩, R⟩
  | copyFix h e =>
    have hrun := (heap_handles_ignored (c.st.cmp h.val) c.st.m (h.val + 2) e (foreign h e)).2
    exact ⟨c, .unit, s, by simp [stepC, hrun], ⟨rfl, rfl, rfl⟩, R⟩
  | popAllBody h k script =>
    have hb : ∀ i o, o ∈ scriptBody script i → ∀ s', specPre s' o := by
      intro i o ho
      obtain ⟨l, hl, hol⟩ := mem_scriptBody ho
      exact hpre l hl o hol
    obtain ⟨st', es, rs, d, s', hrun, hok, R'⟩ :=
      body_loop h (scriptBody script) k hb (bodyFuel c h script) 0 c.st s R
    exact ⟨{ c with st := st' }, _, s', by simp [stepC, hrun], ⟨es, rs, d, rfl, hok⟩, R'⟩
  | pull i =>
    have hi : i < c.seqs.length := hpre
    have hget : c.seqs[i]? = some c.seqs[i] := List.getElem?_eq_getElem hi
    exact ⟨{ c with curs := c.curs ++ [(c.seqs[i], true)] }, .unit, s, by simp [stepC, hget],
      ⟨rfl, rfl, rfl⟩, R⟩
  | stop j =>
    have hj : j < c.curs.length := hpre
    have hget : c.curs[j]? = some c.curs[j] := List.getElem?_eq_getElem hj
    exact ⟨{ c with curs := c.curs.set j ((c.curs[j]).1, false) }, .unit, s, by simp [stepC, hget],
      ⟨rfl, rfl, rfl⟩, R⟩
  | next j =>
    have hj : j < c.curs.length := hpre
    have hget : c.curs[j]? = some c.curs[j] := List.getElem?_eq_getElem hj
    rcases hcj : c.curs[j] with ⟨hh, b⟩
    rw [hcj] at hget
    cases b with
    | false =>
      refine ⟨c, .handle none, s, by simp [stepC, hget], ?_, R⟩
      simp [CPost, hget]
    | true =>
      obtain ⟨st', r, hrun, hok, R'⟩ := viaHeap (.pop hh) trivial
      refine ⟨{ c with st := st', curs := if r.isNil then c.curs.set j (hh, false) else c.curs }, r, _,
        by simp [stepC, hget, hrun], ?_, R'⟩
      simp only [CPost, hget]
      refine ⟨hrun, hok, trivial, ?_⟩
      cases hn : r.isNil
      · simp [hn, hget]
      · simp [hn, hj]

theorem client_steps : ∀ (ops : List COp) (c : HClient) (s : HSpec), Rel c.st s → CSteps ops c s := by
  intro ops
  induction ops with
  | nil => intro c s _; trivial
  | cons o os ih =>
    intro c s R hpre
    obtain ⟨c', r, s', hrun, hpost, R'⟩ := client_step R o hpre
    exact ⟨c', r, s', hrun, hpost, R', ih c' s' R'⟩

end Golib.C04
