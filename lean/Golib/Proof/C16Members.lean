/-
C16 helper lemmas, part 2: the ascending member list (`members`) — membership, strict
order, cardinality = sum of popcounts = `Bitmap.Len()`, effect of the element operations
on the cardinality.
-/
import Golib.Proof.C16Bits

namespace Golib.C16

/-! ### members: membership and order -/

theorem mem_bitsOf (w : W) (i x : Nat) :
    x ∈ bitsOf w i ↔ x / 64 = i ∧ w.getLsbD (x % 64) = true := by
  simp only [bitsOf, List.mem_map, List.mem_filter, List.mem_range]
  constructor
  · rintro ⟨j, ⟨hj, hb⟩, rfl⟩
    have h1 : (64 * i + j) / 64 = i := by omega
    have h2 : (64 * i + j) % 64 = j := by omega
    rw [h1, h2]; exact ⟨rfl, hb⟩
  · rintro ⟨rfl, hb⟩
    exact ⟨x % 64, ⟨Nat.mod_lt x (by decide), hb⟩, by omega⟩

theorem mem_membersFrom (ws : List W) (i x : Nat) :
    x ∈ membersFrom ws i ↔ i ≤ x / 64 ∧ (wordAt ws (x / 64 - i)).getLsbD (x % 64) = true := by
  induction ws generalizing i with
  | nil => simp [membersFrom, wordAt_nil]
  | cons w ws ih =>
    simp only [membersFrom, List.mem_append, mem_bitsOf, ih]
    constructor
    · rintro (⟨h1, h2⟩ | ⟨h1, h2⟩)
      · subst h1; simp [wordAt_cons_zero, h2]
      · refine ⟨by omega, ?_⟩
        have : x / 64 - i = (x / 64 - (i + 1)) + 1 := by omega
        rw [this, wordAt_cons_succ]; exact h2
    · rintro ⟨h1, h2⟩
      by_cases he : x / 64 = i
      · left; refine ⟨he, ?_⟩
        rw [he, Nat.sub_self, wordAt_cons_zero] at h2; exact h2
      · right; refine ⟨by omega, ?_⟩
        have : x / 64 - i = (x / 64 - (i + 1)) + 1 := by omega
        rw [this, wordAt_cons_succ] at h2; exact h2

/-- `members` lists exactly the numbers whose bit is set. -/
theorem mem_members (ws : List W) (x : Nat) : x ∈ members ws ↔ mem ws x = true := by
  simp [members, mem_membersFrom, mem]

theorem pairwise_range (n : Nat) : (List.range n).Pairwise (· < ·) := by
  simpa using List.pairwise_lt_range (n := n)

theorem bitsOf_sorted (w : W) (i : Nat) : (bitsOf w i).Pairwise (· < ·) := by
  simp only [bitsOf, List.pairwise_map]
  apply List.Pairwise.imp (R := (· < ·))
  · intro a b h; omega
  · exact List.Pairwise.filter _ (pairwise_range 64)

theorem membersFrom_sorted (ws : List W) (i : Nat) : (membersFrom ws i).Pairwise (· < ·) := by
  induction ws generalizing i with
  | nil => simp [membersFrom]
  | cons w ws ih =>
    simp only [membersFrom, List.pairwise_append]
    refine ⟨bitsOf_sorted w i, ih (i + 1), ?_⟩
    intro a ha b hb
    rw [mem_bitsOf] at ha
    rw [mem_membersFrom] at hb
    omega

/-- `members` is strictly ascending. -/
theorem members_sorted (ws : List W) : (members ws).Pairwise (· < ·) := membersFrom_sorted ws 0

/-! ### cardinality -/

theorem length_bitsOf (w : W) (i : Nat) : (bitsOf w i).length = popcount w := by
  simp [bitsOf, popcount, List.countP_eq_length_filter]

theorem popcount_le (w : W) : popcount w ≤ 64 := by
  have := List.countP_le_length (p := fun j => w.getLsbD j) (l := List.range 64)
  simpa [popcount] using this

theorem length_membersFrom (ws : List W) (i : Nat) :
    (membersFrom ws i).length = (ws.map popcount).sum := by
  induction ws generalizing i with
  | nil => simp [membersFrom]
  | cons w ws ih => simp [membersFrom, length_bitsOf, ih]

theorem card_eq_sum (ws : List W) : card ws = (ws.map popcount).sum := length_membersFrom ws 0

theorem card_le (ws : List W) : card ws ≤ 64 * ws.length := by
  rw [card_eq_sum]
  induction ws with
  | nil => simp
  | cons w ws ih =>
    have := popcount_le w
    simp only [List.map_cons, List.sum_cons, List.length_cons]; omega

theorem foldl_len (ws : List W) (c : Int) :
    ws.foldl (fun count v => count + (popcount v : Int)) c = c + ((ws.map popcount).sum : Nat) := by
  induction ws generalizing c with
  | nil => simp
  | cons w ws ih => simp only [List.foldl_cons, ih, List.map_cons, List.sum_cons]; omega

/-- `Bitmap.Len()` (the recount loop) is the cardinality. -/
theorem len_eq_card (b : Bitmap) : b.len = (card b.set : Int) := by
  simp [Bitmap.len, foldl_len, card_eq_sum]

/-! ### cardinality under a single-bit change -/

theorem countP_range_flip_on (p q : Nat → Bool) (b n : Nat) (hb : b < n) (hpb : p b = false)
    (hq : ∀ k, q k = (p k || decide (b = k))) :
    (List.range n).countP q = (List.range n).countP p + 1 := by
  induction n with
  | zero => omega
  | succ n ih =>
    rw [List.range_succ, List.countP_append, List.countP_append]
    by_cases hbn : b = n
    · subst hbn
      have hsame : (List.range b).countP q = (List.range b).countP p := by
        apply List.countP_congr
        intro k hk
        have : b ≠ k := by have := List.mem_range.mp hk; omega
        simp [hq, this]
      simp [hsame, hq, hpb]
    · have := ih (by omega)
      have hn : q n = p n := by simp [hq, hbn]
      simp [this, hn]; omega

theorem popcount_or_mask (w : W) (b : Nat) (hb : b < 64) (h : w.getLsbD b = false) :
    popcount (w ||| bitMask b) = popcount w + 1 := by
  unfold popcount
  exact countP_range_flip_on (fun j => w.getLsbD j) _ b 64 hb h (fun k => getLsbD_or_mask w b k hb)

theorem popcount_andnot_mask (w : W) (b : Nat) (hb : b < 64) (h : w.getLsbD b = true) :
    popcount (w &&& ~~~ bitMask b) + 1 = popcount w := by
  unfold popcount
  refine (countP_range_flip_on (fun j => (w &&& ~~~ bitMask b).getLsbD j) (fun j => w.getLsbD j)
    b 64 hb ?_ ?_).symm
  · simp [getLsbD_andnot_mask w b b hb]
  · intro k
    simp only [getLsbD_andnot_mask w b k hb]
    by_cases hk : b = k
    · subst hk; simp [h]
    · simp [hk]

theorem popcount_zero : popcount 0#64 = 0 := by
  simp [popcount]

theorem sum_map_set (ws : List W) (i : Nat) (v : W) (h : i < ws.length) :
    ((ws.set i v).map popcount).sum + popcount (wordAt ws i) = (ws.map popcount).sum + popcount v := by
  induction ws generalizing i with
  | nil => simp at h
  | cons w ws ih =>
    cases i with
    | zero => simp [wordAt_cons_zero]; omega
    | succ i =>
      have := ih i (by simpa using h)
      simp only [List.set_cons_succ, List.map_cons, List.sum_cons, wordAt_cons_succ]; omega

theorem card_append_zeros (ws : List W) (g : Nat) : card (ws ++ List.replicate g 0#64) = card ws := by
  simp only [card_eq_sum, List.map_append, List.sum_append, List.map_replicate, popcount_zero]
  simp

/-- Two word arrays representing the same set have the same cardinality (any lengths). -/
theorem members_congr {a b : List W} (h : ∀ n, mem a n = mem b n) : members a = members b := by
  have hs : ∀ l₁ l₂ : List Nat, l₁.Pairwise (· < ·) → l₂.Pairwise (· < ·) →
      (∀ x, x ∈ l₁ ↔ x ∈ l₂) → l₁ = l₂ := by
    intro l₁
    induction l₁ with
    | nil =>
      intro l₂ _ _ hm
      cases l₂ with
      | nil => rfl
      | cons y ys => exact absurd ((hm y).mpr (by simp)) (by simp)
    | cons x xs ih =>
      intro l₂ h1 h2 hm
      cases l₂ with
      | nil => exact absurd ((hm x).mp (by simp)) (by simp)
      | cons y ys =>
        rw [List.pairwise_cons] at h1 h2
        have hxy : x = y := by
          have hx := (hm x).mp (by simp)
          have hy := (hm y).mpr (by simp)
          rw [List.mem_cons] at hx hy
          rcases hx with hx | hx
          · exact hx
          · rcases hy with hy | hy
            · exact hy.symm
            · have := h1.1 y hy; have := h2.1 x hx; omega
        subst hxy
        congr 1
        apply ih ys h1.2 h2.2
        intro z
        constructor
        · intro hz
          have := (hm z).mp (List.mem_cons_of_mem _ hz)
          rw [List.mem_cons] at this
          rcases this with e | e
          · have := h1.1 z hz; omega
          · exact e
        · intro hz
          have := (hm z).mpr (List.mem_cons_of_mem _ hz)
          rw [List.mem_cons] at this
          rcases this with e | e
          · have := h2.1 z hz; omega
          · exact e
  apply hs _ _ (members_sorted a) (members_sorted b)
  intro x
  rw [mem_members, mem_members, h]

/-- Cardinality after `Add`: +1 exactly when the number was new. -/
theorem add_card (b b' : Bitmap) (n : Nat) (ch : Bool) (h : b.add n = some (b', ch)) :
    card b'.set = card b.set + (if ch then 1 else 0) := by
  have hbit : n % 64 < 64 := Nat.mod_lt n (by decide)
  simp only [Bitmap.add, shr6, and63] at h
  split at h
  · rename_i hge
    have hlen : n / 64 < (b.set ++ List.replicate (n / 64 + 1 - b.set.length) 0#64).length := by
      simp only [List.length_append, List.length_replicate]; omega
    rw [wordAt_of_lt _ _ hlen] at h
    simp only [setIdx, hlen, if_true, Option.some.injEq, Prod.mk.injEq] at h
    obtain ⟨rfl, rfl⟩ := h
    have hs := sum_map_set _ (n / 64) (wordAt (b.set ++ List.replicate (n / 64 + 1 - b.set.length) 0#64) (n / 64) ||| bitMask (n % 64)) hlen
    have hz : wordAt (b.set ++ List.replicate (n / 64 + 1 - b.set.length) 0#64) (n / 64) = 0#64 := by
      rw [wordAt_append_zeros, wordAt_of_ge _ _ (by omega)]
    have hp := popcount_or_mask 0#64 (n % 64) hbit (by simp)
    have hc := card_append_zeros b.set (n / 64 + 1 - b.set.length)
    simp only [card_eq_sum] at hc ⊢
    rw [hz] at hs
    simp only [hp, popcount_zero] at hs
    simp only [if_true]
    simp only [hz]
    omega
  · rename_i hlt
    have hlen : n / 64 < b.set.length := by omega
    rw [wordAt_of_lt _ _ hlen] at h
    simp only [and_mask_eq_zero _ _ hbit] at h
    cases hb : (wordAt b.set (n / 64)).getLsbD (n % 64)
    · simp only [hb, Bool.not_false, if_true, setIdx, hlen, Option.some.injEq, Prod.mk.injEq] at h
      obtain ⟨rfl, rfl⟩ := h
      have hs := sum_map_set b.set (n / 64) (wordAt b.set (n / 64) ||| bitMask (n % 64)) hlen
      have hp := popcount_or_mask _ (n % 64) hbit hb
      simp only [card_eq_sum, if_true]
      omega
    · simp only [hb, Bool.not_true, Bool.false_eq_true, if_false, Option.some.injEq, Prod.mk.injEq] at h
      obtain ⟨rfl, rfl⟩ := h
      simp

/-- Cardinality after `Remove`: −1 exactly when the number was a member. -/
theorem remove_card (b b' : Bitmap) (n : Nat) (ch : Bool) (h : b.remove n = some (b', ch)) :
    card b'.set + (if ch then 1 else 0) = card b.set := by
  have hbit : n % 64 < 64 := Nat.mod_lt n (by decide)
  simp only [Bitmap.remove, shr6, and63] at h
  split at h
  · rename_i hlen
    rw [wordAt_of_lt _ _ hlen] at h
    simp only [and_mask_ne_zero _ _ hbit] at h
    cases hb : (wordAt b.set (n / 64)).getLsbD (n % 64)
    · simp only [hb, Bool.false_eq_true, if_false, Option.some.injEq, Prod.mk.injEq] at h
      obtain ⟨rfl, rfl⟩ := h
      simp
    · simp only [hb, if_true, setIdx, hlen, Option.some.injEq, Prod.mk.injEq] at h
      obtain ⟨rfl, rfl⟩ := h
      have hs := sum_map_set b.set (n / 64) (wordAt b.set (n / 64) &&& ~~~ bitMask (n % 64)) hlen
      have hp := popcount_andnot_mask _ (n % 64) hbit hb
      simp only [card_eq_sum, if_true]
      omega
  · simp only [Option.some.injEq, Prod.mk.injEq] at h
    obtain ⟨rfl, rfl⟩ := h
    simp

theorem grow_card (b : Bitmap) (n : Nat) : card (b.grow n).set = card b.set := by
  simp only [Bitmap.grow]
  split
  · exact card_append_zeros _ _
  · rfl

end Golib.C16
