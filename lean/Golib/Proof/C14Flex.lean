/-
C14 helper lemmas, part 6: `FlexSlice` refines a plain list (`Flex.values`), whatever the
capacity history: in-capacity and reallocating paths of `Append`/`Prepend`, `Remove` with
`shrink`, `SubSlice`.  The growth function of `append` is arbitrary.
-/
import Golib.Proof.C14Chunk
import Golib.Model.C14Flex

namespace Golib.C14

/-- `len ≤ cap` -/
def Flex.Inv (f : Flex) : Prop := f.len ≤ f.mem.length

theorem length_values (f : Flex) (h : f.Inv) : f.values.length = f.len := by
  unfold Flex.Inv at h
  simp only [Flex.values, List.length_take]; omega

theorem mkFlex_values (xs : List Int) (c : Nat) : (mkFlex xs c).values = xs ∧ (mkFlex xs c).Inv := by
  simp [mkFlex, Flex.values, Flex.Inv]

theorem append_spec (g : Nat → Nat → Nat) (f : Flex) (v : List Int) (h : f.Inv) :
    (f.append g v).values = f.values ++ v ∧ (f.append g v).Inv := by
  unfold Flex.append
  simp only []
  split
  · rename_i hc
    unfold Flex.Inv at h
    unfold Flex.cap at hc
    constructor
    · simp only [Flex.values]
      apply List.ext_getElem?; intro k
      simp only [List.getElem?_take, List.getElem?_append, List.length_take, List.length_append,
        List.getElem?_drop]
      grind
    · simp only [Flex.Inv, List.length_append, List.length_take, List.length_drop]; omega
  · exact mkFlex_values _ _

theorem copyTo_spec (m : List Int) (d : Nat) (src : List Int) (h : d + src.length ≤ m.length) :
    copyTo m d src = m.take d ++ src ++ m.drop (d + src.length) := by
  unfold copyTo
  have : min (m.length - d) src.length = src.length := by omega
  simp only [this, List.take_length]

theorem prepend_spec (f : Flex) (v : List Int) (h : f.Inv) :
    (f.prepend v).values = v ++ f.values ∧ (f.prepend v).Inv := by
  unfold Flex.Inv at h
  unfold Flex.prepend
  simp only []
  split
  · rename_i hc
    unfold Flex.cap at hc
    have hl : (f.mem.take (v.length + f.len)).length = v.length + f.len := by
      simp [List.length_take]; omega
    rw [copyTo_spec (f.mem.take (v.length + f.len)) v.length _ (by simp [List.length_take]; omega)]
    rw [copyTo_spec _ 0 v (by simp [List.length_take]; omega)]
    constructor
    · simp only [Flex.values]
      apply List.ext_getElem?; intro k
      simp only [List.getElem?_take, List.getElem?_append, List.length_take, List.length_append,
        List.getElem?_drop, List.length_drop]
      grind
    · simp only [Flex.Inv, List.length_append, List.length_take, List.length_drop]; omega
  · rename_i hc
    have hz : (zeros (v.length + f.len)).length = v.length + f.len := by simp [zeros]
    rw [copyTo_spec (zeros (v.length + f.len)) 0 v (by omega)]
    rw [copyTo_spec _ v.length (f.mem.take f.len) (by
      simp [List.length_take, zeros]; omega)]
    constructor
    · simp only [Flex.values, zeros]
      apply List.ext_getElem?; intro k
      simp only [List.getElem?_take, List.getElem?_append, List.length_take, List.length_append,
        List.getElem?_drop, List.length_drop, List.length_replicate, List.getElem?_replicate]
      grind
    · simp only [Flex.Inv, zeros, List.length_append, List.length_take, List.length_drop,
        List.length_replicate]; omega

theorem shrink_spec (f : Flex) (h : f.Inv) : f.shrink.values = f.values ∧ f.shrink.Inv := by
  unfold Flex.shrink
  split
  · exact ⟨rfl, h⟩
  · split
    · exact mkFlex_values _ _
    · exact ⟨rfl, h⟩

/-- `Get` never panics: the element for `0 ≤ index < len`, otherwise `(zero, false)`. -/
theorem get_spec (f : Flex) (index : Int) (h : f.Inv) :
    f.get index = some (match (if 0 ≤ index then f.values[index.toNat]? else none) with
      | some v => (v, true)
      | none => (0, false)) := by
  unfold Flex.get Flex.withinRange
  by_cases hr : index ≥ 0 ∧ index < f.len
  · have hlt : index.toNat < f.values.length := by rw [length_values f h]; omega
    simp [hr, List.getElem?_eq_getElem hlt]
  · have : ¬ (0 ≤ index ∧ index.toNat < f.values.length) := by rw [length_values f h]; omega
    simp only [hr, decide_false, Bool.false_eq_true, if_false]
    by_cases h0 : 0 ≤ index
    · have : f.values[index.toNat]? = none := List.getElem?_eq_none (by omega)
      simp [h0, this]
    · simp [h0]

/-- `Remove` (hence `Pop`, `Shift`): erases position `index` if it is in range. -/
theorem flexRemove_spec (f : Flex) (index : Int) (h : f.Inv) :
    (index < 0 ∨ index ≥ f.len → f.remove index = some (f, 0, false)) ∧
    (∀ i : Nat, index = i → (hi : i < f.values.length) →
      ∃ f', f.remove index = some (f', f.values[i], true) ∧ f'.values = f.values.eraseIdx i ∧ f'.Inv) := by
  have hlv := length_values f h
  constructor
  · intro hr
    have := (remove_spec false f.values index).1 (by rw [hlv]; exact hr)
    simp [Flex.remove, this]
  · intro i hidx hi
    have := (remove_spec false f.values index).2 i hidx hi
    simp only [Flex.remove, this]
    have hinv : (⟨f.values.eraseIdx i ++ [0] ++ f.mem.drop f.len, (f.values.eraseIdx i).length⟩ : Flex).Inv := by
      simp [Flex.Inv]
    have hval : (⟨f.values.eraseIdx i ++ [0] ++ f.mem.drop f.len, (f.values.eraseIdx i).length⟩ : Flex).values
        = f.values.eraseIdx i := by
      simp [Flex.values]
    obtain ⟨hs1, hs2⟩ := shrink_spec _ hinv
    exact ⟨_, rfl, by rw [hs1, hval], hs2⟩

/-- `SubSlice`: the clamped range of the values (same clamping as `slicez.SubSlice`). -/
theorem flexSubSlice_spec (f : Flex) (a b : Int) (h : f.Inv) :
    ∃ nf, f.subSlice a b = some nf ∧ nf.Inv ∧
      nf.values = (match subRange f.len a b with
        | some (st, l) => (f.values.drop st).take l
        | none => []) := by
  obtain ⟨hs, hr⟩ := subSlice_spec f.len a b
  unfold Flex.subSlice
  rw [hs]
  cases hsr : subRange f.len a b with
  | none =>
    simp only []
    have hi : (⟨[], 0⟩ : Flex).Inv := by simp [Flex.Inv]
    obtain ⟨h1, h2⟩ := shrink_spec _ hi
    exact ⟨_, rfl, h2, by rw [h1]; simp [Flex.values]⟩
  | some p =>
    obtain ⟨st, l⟩ := p
    simp only []
    obtain ⟨hl0, hle⟩ := hr st l hsr
    unfold Flex.Inv at h
    have hi : (⟨f.mem.drop st, l⟩ : Flex).Inv := by simp [Flex.Inv]; omega
    obtain ⟨h1, h2⟩ := shrink_spec _ hi
    refine ⟨_, rfl, h2, ?_⟩
    rw [h1]
    simp only [Flex.values]
    apply List.ext_getElem?; intro k
    simp only [List.getElem?_take, List.getElem?_drop]
    grind

/-! ### histories -/

inductive FOp where
  | append (v : List Int) | prepend (v : List Int) | get (i : Int) | remove (i : Int)
  | pop | shift | subset (a b : Int)

def listGet (xs : List Int) (i : Int) : Int × Bool :=
  match (if 0 ≤ i then xs[i.toNat]? else none) with
  | some v => (v, true)
  | none => (0, false)

def listRemove (xs : List Int) (i : Int) : List Int × Option (Int × Bool) :=
  match (if 0 ≤ i then xs[i.toNat]? else none) with
  | some v => (xs.eraseIdx i.toNat, some (v, true))
  | none => (xs, some (0, false))

def listSub (xs : List Int) (a b : Int) : List Int :=
  match subRange xs.length a b with
  | some (st, l) => (xs.drop st).take l
  | none => []

/-- The specification: a plain list. Returns the new list and what the call returns. -/
def specStep (xs : List Int) : FOp → List Int × Option (Int × Bool)
  | .append v => (xs ++ v, none)
  | .prepend v => (v ++ xs, none)
  | .get i => (xs, some (listGet xs i))
  | .remove i => listRemove xs i
  | .pop => listRemove xs ((xs.length : Int) - 1)
  | .shift => listRemove xs 0
  | .subset a b => (listSub xs a b, none)

/-- The model: `none` = panic. -/
def flexStepOp (g : Nat → Nat → Nat) (f : Flex) : FOp → Option (Flex × Option (Int × Bool))
  | .append v => some (f.append g v, none)
  | .prepend v => some (f.prepend v, none)
  | .get i => (f.get i).map fun r => (f, some r)
  | .remove i => (f.remove i).map fun (f', v, ok) => (f', some (v, ok))
  | .pop => f.pop.map fun (f', v, ok) => (f', some (v, ok))
  | .shift => f.shift.map fun (f', v, ok) => (f', some (v, ok))
  | .subset a b => (f.subSlice a b).map fun nf => (nf, none)

theorem remove_refines (f : Flex) (index : Int) (h : f.Inv) :
    ∃ f', (f.remove index).map (fun (f', v, ok) => (f', some (v, ok))) =
        some (f', (listRemove f.values index).2) ∧ f'.Inv ∧ f'.values = (listRemove f.values index).1 := by
  obtain ⟨h1, h2⟩ := flexRemove_spec f index h
  have hlv := length_values f h
  by_cases hr : index < 0 ∨ index ≥ f.len
  · rw [h1 hr]
    refine ⟨f, ?_, h, ?_⟩
    all_goals
      unfold listRemove
      by_cases h0 : 0 ≤ index
      · have : f.values[index.toNat]? = none := List.getElem?_eq_none (by omega)
        simp [h0, this]
      · simp [h0]
  · have h0 : 0 ≤ index := by omega
    have hi : index.toNat < f.values.length := by omega
    obtain ⟨f', hf, hv, hinv⟩ := h2 index.toNat (by omega) hi
    rw [hf]
    refine ⟨f', ?_, hinv, ?_⟩
    · simp [listRemove, h0, List.getElem?_eq_getElem hi]
    · simp [listRemove, h0, List.getElem?_eq_getElem hi, hv]

/-- One operation of any kind refines the list specification and keeps `len ≤ cap`. -/
theorem flexStep_refines (g : Nat → Nat → Nat) (f : Flex) (op : FOp) (h : f.Inv) :
    ∃ f', flexStepOp g f op = some (f', (specStep f.values op).2) ∧ f'.Inv ∧
      f'.values = (specStep f.values op).1 := by
  cases op with
  | append v => exact ⟨_, rfl, (append_spec g f v h).2, (append_spec g f v h).1⟩
  | prepend v => exact ⟨_, rfl, (prepend_spec f v h).2, (prepend_spec f v h).1⟩
  | get i =>
    refine ⟨f, ?_, h, rfl⟩
    simp only [flexStepOp, get_spec f i h, specStep, listGet, Option.map_some]
  | remove i => exact remove_refines f i h
  | pop =>
    have := remove_refines f ((f.len : Int) - 1) h
    simpa only [flexStepOp, Flex.pop, specStep, length_values f h] using this
  | shift => exact remove_refines f 0 h
  | subset a b =>
    obtain ⟨nf, h1, h2, h3⟩ := flexSubSlice_spec f a b h
    refine ⟨nf, by simp [flexStepOp, h1, specStep], h2, ?_⟩
    rw [h3]; simp [specStep, listSub, length_values f h]

def flexRun (g : Nat → Nat → Nat) : Flex → List FOp → Option (Flex × List (Option (Int × Bool)))
  | f, [] => some (f, [])
  | f, op :: ops =>
    match flexStepOp g f op with
    | none => none
    | some (f', out) => (flexRun g f' ops).map fun (f'', outs) => (f'', out :: outs)

def specRun : List Int → List FOp → List Int × List (Option (Int × Bool))
  | xs, [] => (xs, [])
  | xs, op :: ops =>
    let r := specRun (specStep xs op).1 ops
    (r.1, (specStep xs op).2 :: r.2)

/-- Every operation sequence, from every state with any spare capacity, under every growth
function of `append`: no panic, same answers and same final content as the plain list. -/
theorem flexRun_refines (g : Nat → Nat → Nat) (f : Flex) (ops : List FOp) (h : f.Inv) :
    ∃ f', flexRun g f ops = some (f', (specRun f.values ops).2) ∧ f'.Inv ∧
      f'.values = (specRun f.values ops).1 := by
  induction ops generalizing f with
  | nil => exact ⟨f, rfl, h, rfl⟩
  | cons op ops ih =>
    obtain ⟨f1, h1, hi1, hv1⟩ := flexStep_refines g f op h
    obtain ⟨f2, h2, hi2, hv2⟩ := ih f1 hi1
    refine ⟨f2, ?_, hi2, ?_⟩
    · simp only [flexRun, h1, h2, specRun, hv1, Option.map_some]
    · simp only [specRun, hv2, hv1]

end Golib.C14
