/-
C11 — the initial content is reachable: `init vals (pr0 :: rest)` is the state the machine
reaches from the EMPTY list when thread 0 first pushes `vals` sequentially (5 steps per
`Push`, nobody else running) and then goes on with `pr0`.
-/
import Golib.Proof.C11Inv

namespace Golib.C11

/-- the state after thread 0 has pushed `ws` and still has `vs` to push before `pr0` -/
def seqState (ws vs : List Int) (pr0 : List Call) (rest : List (List Call)) : State :=
  { chain := 0 :: ws, head := 0, tail := ws.length, len := ws.length,
    threads := mkThread (vs.map Call.push ++ pr0) :: rest.map mkThread, crashed := false }

theorem seqState_init (vals : List Int) (pr0 : List Call) (rest : List (List Call)) :
    init [] ((vals.map Call.push ++ pr0) :: rest) = seqState [] vals pr0 rest := rfl

theorem seqState_done (ws : List Int) (pr0 : List Call) (rest : List (List Call)) :
    seqState ws [] pr0 rest = init ws (pr0 :: rest) := rfl

/-- one sequential `Push(v)` of thread 0: five steps -/
theorem seqState_push (ws : List Int) (v : Int) (vs : List Int) (pr0 : List Call)
    (rest : List (List Call)) :
    (run .addThenStore (seqState ws (v :: vs) pr0 rest) [0, 0, 0, 0, 0]).1
      = seqState (ws ++ [v]) vs pr0 rest := by
  simp [run, step, seqState, mkThread, Thread.finish, start, State.setPc, State.fin, ticksOf]

theorem run_append_fst (s : State) (σ₁ σ₂ : List Nat) :
    (run .addThenStore s (σ₁ ++ σ₂)).1 = (run .addThenStore (run .addThenStore s σ₁).1 σ₂).1 := by
  induction σ₁ generalizing s with
  | nil => rfl
  | cons x σ ih => simp only [List.cons_append, run]; exact ih _

theorem seqState_run (ws vs : List Int) (pr0 : List Call) (rest : List (List Call)) :
    (run .addThenStore (seqState ws vs pr0 rest) (List.replicate (5 * vs.length) 0)).1
      = seqState (ws ++ vs) [] pr0 rest := by
  induction vs generalizing ws with
  | nil => simp [run]
  | cons v vs ih =>
    have e : List.replicate (5 * (v :: vs).length) 0 = [0, 0, 0, 0, 0] ++ List.replicate (5 * vs.length) 0 := by
      have : 5 * (v :: vs).length = 5 * vs.length + 5 := by simp only [List.length_cons]; omega
      rw [this]
      simp [List.replicate_succ]
    rw [e, run_append_fst, seqState_push, ih]
    simp

end Golib.C11
