/-
C16 helper lemmas, part 10: the whole REGISTER BANK against a bank of mathematical sets.
`memOf s q m` = "m is a member of register q"; `specEffect op` = what the operation does to the
bank of sets.  Every successful step of the by-value machine — whichever registers, kinds and
operand combinations (also `x.Merge(x)`) — transforms `memOf` by `specEffect`.
-/
import Golib.Proof.C16History
namespace Golib.C16
open Golib.Proto

/-- membership of number `m` in register `q` of the bank -/
def memOf (s : St) (q m : Nat) : Bool :=
  match s.regs[q]? with
  | some o => mem o.words m
  | none => false

theorem memOf_setReg (s : St) (r : Nat) (o o' : Obj) (hr : s.regs[r]? = some o) (q m : Nat) :
    memOf (setReg s r o') q m = if q = r then mem o'.words m else memOf s q m := by
  have hlt : r < s.regs.length := by
    rcases Nat.lt_or_ge r s.regs.length with h | h
    · exact h
    · rw [List.getElem?_eq_none h] at hr; cases hr
  simp only [memOf, setReg, List.getElem?_set]
  by_cases h : q = r
  · subst h; simp [hlt]
  · have : ¬ r = q := fun e => h e.symm
    simp [h, this]

/-- `count` times add / remove of `n, n+d, …` on the set of register `r` -/
def specLoopAdd (isAdd : Bool) (r : Nat) : (count n d : Nat) → (Nat → Nat → Bool) → Nat → Nat → Bool
  | 0, _, _, S => S
  | c + 1, n, d, S =>
    specLoopAdd isAdd r c (n + d) d fun q m =>
      if q = r then (if isAdd then (decide (n = m) || S r m) else (!decide (n = m) && S r m)) else S q m

/-- what the operation does to the bank of mathematical sets -/
def specEffect (op : Op) (S : Nat → Nat → Bool) (q m : Nat) : Bool :=
  match op with
  | .add r n => if q = r then (decide (n = m) || S r m) else S q m
  | .remove r n => if q = r then (!decide (n = m) && S r m) else S q m
  | .clone d src => if q = d then S src m else S q m
  | .diff a b => if q = a then (S a m && !S b m) else S q m
  | .intersect a b => if q = a then (S a m && S b m) else S q m
  | .merge a b => if q = a then (S a m || S b m) else S q m
  | .addn r a d c => specLoopAdd true r c a d S q m
  | .removen r a d c => specLoopAdd false r c a d S q m
  | .reseq r _ n _ => if q = r then (decide (n = m) || S r m) else S q m
  | _ => S q m

theorem words_bits (b : Bits) : (Obj.bits b).words = b.bm.set := rfl
theorem words_bitmap (b : Bitmap) : (Obj.bitmap b).words = b.set := rfl
theorem words_dsz (d : DBits) : (Obj.dsz d).words = d.set := rfl

theorem step1_add_effect (s s' : St) (r n : Nat) (out : String) (h : step1 s (.add r n) = .ok s' out) (q m : Nat) :
    memOf s' q m = specEffect (.add r n) (memOf s) q m := by
  simp only [step1] at h
  cases hr : s.regs[r]? with
  | none => simp [hr] at h
  | some o =>
    have hS : memOf s r m = mem o.words m := by simp [memOf, hr]
    cases o with
    | bits b =>
      obtain ⟨bm', hb, hm, _⟩ := add_spec b.bm n
      simp only [hr, Bits.add, hb] at h
      cases hc : mem b.bm.set n <;> simp only [hc, Bool.not_false, Bool.not_true, Res.ok.injEq] at h <;>
        obtain ⟨rfl, _⟩ := h <;>
        simp only [memOf_setReg s r _ _ hr, specEffect, hS, words_bits, hm]
    | bitmap b =>
      obtain ⟨bm', hb, hm, _⟩ := add_spec b n
      simp only [hr, hb, Res.ok.injEq] at h
      obtain ⟨rfl, _⟩ := h
      simp only [memOf_setReg s r _ _ hr, specEffect, hS, words_bitmap, hm]
    | dsz d =>
      obtain ⟨bm', hb, hm, _⟩ := add_spec d.toBits.bm n
      simp only [hr, DBits.add_eq, Bits.add, hb] at h
      cases hc : mem d.toBits.bm.set n <;> simp only [hc, Bool.not_false, Bool.not_true, Option.map_some, Res.ok.injEq] at h <;>
        obtain ⟨rfl, _⟩ := h <;>
        simp only [memOf_setReg s r _ _ hr, specEffect, hS, words_dsz, Bits.toD, hm] <;> rfl
theorem step1_remove_effect (s s' : St) (r n : Nat) (out : String) (h : step1 s (.remove r n) = .ok s' out) (q m : Nat) :
    memOf s' q m = specEffect (.remove r n) (memOf s) q m := by
  simp only [step1] at h
  cases hr : s.regs[r]? with
  | none => simp [hr] at h
  | some o =>
    have hS : memOf s r m = mem o.words m := by simp [memOf, hr]
    cases o with
    | bits b =>
      obtain ⟨bm', hb, hm, _⟩ := remove_spec b.bm n
      simp only [hr, Bits.remove, hb] at h
      cases hc : mem b.bm.set n <;> simp only [hc, Res.ok.injEq] at h <;>
        obtain ⟨rfl, _⟩ := h <;>
        simp only [memOf_setReg s r _ _ hr, specEffect, hS, words_bits, hm]
    | bitmap b =>
      obtain ⟨bm', hb, hm, _⟩ := remove_spec b n
      simp only [hr, hb, Res.ok.injEq] at h
      obtain ⟨rfl, _⟩ := h
      simp only [memOf_setReg s r _ _ hr, specEffect, hS, words_bitmap, hm]
    | dsz d =>
      obtain ⟨bm', hb, hm, _⟩ := remove_spec d.toBits.bm n
      simp only [hr, DBits.remove_eq, Bits.remove, hb] at h
      cases hc : mem d.toBits.bm.set n <;> simp only [hc, Option.map_some, Res.ok.injEq] at h <;>
        obtain ⟨rfl, _⟩ := h <;>
        simp only [memOf_setReg s r _ _ hr, specEffect, hS, words_dsz, Bits.toD, hm] <;> rfl

theorem step1_grow_effect (s s' : St) (r n : Nat) (out : String) (h : step1 s (.grow r n) = .ok s' out) (q m : Nat) :
    memOf s' q m = memOf s q m := by
  simp only [step1] at h
  cases hr : s.regs[r]? with
  | none => simp [hr] at h
  | some o =>
    have hS : memOf s r m = mem o.words m := by simp [memOf, hr]
    cases o with
    | bits b =>
      simp only [hr, Res.ok.injEq] at h
      obtain ⟨rfl, _⟩ := h
      rw [memOf_setReg s r _ _ hr]
      by_cases hq : q = r
      · subst hq; simp only [if_true, hS, words_bits]; exact (grow_spec b.bm n).1 m
      · simp [hq]
    | bitmap b =>
      simp only [hr, Res.ok.injEq] at h
      obtain ⟨rfl, _⟩ := h
      rw [memOf_setReg s r _ _ hr]
      by_cases hq : q = r
      · subst hq; simp only [if_true, hS, words_bitmap]; exact (grow_spec b n).1 m
      · simp [hq]
    | dsz d =>
      simp only [hr, Res.ok.injEq] at h
      obtain ⟨rfl, _⟩ := h
      rw [memOf_setReg s r _ _ hr]
      by_cases hq : q = r
      · subst hq
        simp only [if_true, hS, words_dsz]
        have := (grow_spec ⟨d.set⟩ n).1 m
        have he : (d.grow n).set = (Bitmap.grow ⟨d.set⟩ n).set := by
          simp only [DBits.grow, Bitmap.grow]; split <;> rfl
        rw [he]; exact this
      · simp [hq]

theorem bulk_effect (s s' : St) (a b : Nat) (out : String) (fb : Bits → Bitmap → Bits) (fm : Bitmap → Bitmap → Bitmap)
    (fw : List W → List W → List W) (g : Bool → Bool → Bool)
    (hfb : ∀ x o, (fb x o).bm.set = fw x.bm.set o.set) (hfm : ∀ x o, (fm x o).set = fw x.set o.set)
    (hfw : ∀ x y m, mem (fw x y) m = g (mem x m) (mem y m))
    (h : bulk s a b fb fm = .ok s' out) (q m : Nat) :
    memOf s' q m = if q = a then g (memOf s a m) (memOf s b m) else memOf s q m := by
  simp only [bulk] at h
  cases ha : s.regs[a]? with
  | none => simp [ha] at h
  | some oa =>
    cases hb : s.regs[b]? with
    | none => simp [ha, hb] at h
    | some ob =>
      have hSa : memOf s a m = mem oa.words m := by simp [memOf, ha]
      have hSb : memOf s b m = mem ob.words m := by simp [memOf, hb]
      cases oa <;> cases ob <;> simp only [ha, hb, Res.ok.injEq, reduceCtorEq] at h <;>
        obtain ⟨rfl, _⟩ := h <;>
        simp only [memOf_setReg s a _ _ ha, hSa, hSb, words_bits, words_bitmap, hfb, hfm, hfw]

theorem step1_clone_effect (s s' : St) (d src : Nat) (out : String) (h : step1 s (.clone d src) = .ok s' out)
    (q m : Nat) : memOf s' q m = specEffect (.clone d src) (memOf s) q m := by
  simp only [step1] at h
  cases hd : s.regs[d]? with
  | none => simp [hd] at h
  | some od =>
    cases hs : s.regs[src]? with
    | none => cases od <;> simp [hd, hs] at h
    | some os =>
      have hS : memOf s src m = mem os.words m := by simp [memOf, hs]
      cases od <;> cases os <;> simp only [hd, hs, Res.ok.injEq, reduceCtorEq] at h <;>
        obtain ⟨rfl, _⟩ := h <;>
        simp [memOf_setReg s d _ _ hd, specEffect, hS, Obj.words, Bitmap.clone]

/-- operations that leave every word array as it is -/
theorem step1_ro_effect (s s' : St) (op : Op) (out : String) (hro : op.isRO = true)
    (h : step1 s op = .ok s' out) (q m : Nat) : memOf s' q m = memOf s q m := by
  have := step_ro_regs s op hro s' out h
  simp only [memOf, this]

/-- **one single step** transforms the bank of sets by `specEffect` -/
theorem step1_effect (s s' : St) (op : Op) (out : String) (h : step1 s op = .ok s' out) (q m : Nat) :
    memOf s' q m = specEffect op (memOf s) q m := by
  cases op with
  | add r n => exact step1_add_effect s s' r n out h q m
  | remove r n => exact step1_remove_effect s s' r n out h q m
  | grow r n => exact step1_grow_effect s s' r n out h q m
  | clone d src => exact step1_clone_effect s s' d src out h q m
  | diff a b =>
    simp only [step1] at h
    exact bulk_effect s s' a b out _ _ diffWords (fun x y => x && !y) (fun _ _ => rfl) (fun _ _ => rfl)
      (fun x y m => mem_diff x y m) h q m
  | intersect a b =>
    simp only [step1] at h
    exact bulk_effect s s' a b out _ _ intersectWords (fun x y => x && y) (fun _ _ => rfl) (fun _ _ => rfl)
      (fun x y m => mem_intersect x y m) h q m
  | merge a b =>
    simp only [step1] at h
    exact bulk_effect s s' a b out _ _ mergeWords (fun x y => x || y) (fun _ _ => rfl) (fun _ _ => rfl)
      (fun x y m => mem_merge x y m) h q m
  | layout => simp only [step1, Res.ok.injEq] at h; obtain ⟨rfl, _⟩ := h; rfl
  | addn r a d c => simp [step1] at h
  | removen r a d c => simp [step1] at h
  | reseq r a n b => simp [step1] at h
  | contains r n => exact step1_ro_effect s s' _ out rfl h q m
  | len r => exact step1_ro_effect s s' _ out rfl h q m
  | blen r => exact step1_ro_effect s s' _ out rfl h q m
  | cap r => exact step1_ro_effect s s' _ out rfl h q m
  | iter k r => exact step1_ro_effect s s' _ out rfl h q m
  | next k => exact step1_ro_effect s s' _ out rfl h q m
  | value k => exact step1_ro_effect s s' _ out rfl h q m
  | iterall r => exact step1_ro_effect s s' _ out rfl h q m
  | range r st => exact step1_ro_effect s s' _ out rfl h q m
  | all r st => exact step1_ro_effect s s' _ out rfl h q m
  | str r => exact step1_ro_effect s s' _ out rfl h q m

theorem loopN_effect (isAdd : Bool) (r : Nat) :
    ∀ (c : Nat) (s : St) (n d hits : Nat) (s' : St) (out : String),
      loopN (if isAdd then Op.add r else Op.remove r) c s n d hits = .ok s' out →
      ∀ q m, memOf s' q m = specLoopAdd isAdd r c n d (memOf s) q m := by
  intro c
  induction c with
  | zero =>
    intro s n d hits s' out h q m
    simp only [loopN, Res.ok.injEq] at h
    obtain ⟨rfl, _⟩ := h
    rfl
  | succ c ih =>
    intro s n d hits s' out h q m
    simp only [loopN] at h
    cases h1 : step1 s ((if isAdd then Op.add r else Op.remove r) n) with
    | bad => simp [h1] at h
    | panic => simp [h1] at h
    | ok s1 x =>
      simp only [h1] at h
      rw [ih s1 (n + d) d _ s' out h q m]
      simp only [specLoopAdd]
      congr 1
      funext q' m'
      have := step1_effect s s1 _ x h1 q' m'
      cases isAdd <;> simpa [specEffect] using this

/-- **every step of the bank machine** (single operations, the element-operation loops, the
re-ranged `All()` value) transforms the bank of sets by `specEffect` -/
theorem step_effect (s s' : St) (op : Op) (out : String) (h : step s op = .ok s' out) (q m : Nat) :
    memOf s' q m = specEffect op (memOf s) q m := by
  cases op with
  | addn r a d c =>
    simp only [step] at h
    by_cases hc : c = 0
    · simp [hc] at h
    · simp only [hc, if_false] at h
      exact loopN_effect true r c s a d 0 s' out h q m
  | removen r a d c =>
    simp only [step] at h
    by_cases hc : c = 0
    · simp [hc] at h
    · simp only [hc, if_false] at h
      exact loopN_effect false r c s a d 0 s' out h q m
  | reseq r a n b =>
    simp only [step, seq3] at h
    cases h1 : step1 s (.all r a) with
    | bad => simp [h1] at h
    | panic => simp [h1] at h
    | ok s1 x1 =>
      simp only [h1] at h
      cases h2 : step1 s1 (.add r n) with
      | bad => simp [h2] at h
      | panic => simp [h2] at h
      | ok s2 x2 =>
        simp only [h2] at h
        cases h3 : step1 s2 (.all r b) with
        | bad => simp [h3] at h
        | panic => simp [h3] at h
        | ok s3 x3 =>
          simp only [h3, Res.ok.injEq] at h
          obtain ⟨rfl, _⟩ := h
          have e1 : ∀ q m, memOf s1 q m = memOf s q m := fun q m => step1_ro_effect s s1 _ x1 rfl h1 q m
          have e3 : ∀ q m, memOf s3 q m = memOf s2 q m := fun q m => step1_ro_effect s2 s3 _ x3 rfl h3 q m
          rw [e3, step1_add_effect s1 s2 r n x2 h2 q m]
          simp only [specEffect, e1]
  | _ => exact step1_effect s s' _ out (by simpa only [step] using h) q m

/-- the bank states reachable from zero-valued registers -/
inductive BReach (regs0 : List Obj) : St → Prop
  | init : BReach regs0 ⟨regs0, [none, none]⟩
  | step (s s' : St) (op : Op) (out : String) : BReach regs0 s → step s op = .ok s' out → BReach regs0 s'

/-- the bank of sets after a whole history of operations -/
def specHistory : List Op → (Nat → Nat → Bool) → Nat → Nat → Bool
  | [], S => S
  | op :: ops, S => specHistory ops (specEffect op S)

/-- run a list of operations; `none` when one of them is rejected or panics -/
def runBank : St → List Op → Option (St × List String)
  | s, [] => some (s, [])
  | s, op :: ops =>
    match step s op with
    | .ok s' out => (runBank s' ops).map fun r => (r.1, out :: r.2)
    | _ => none

theorem runBank_effect (ops : List Op) : ∀ (s s' : St) (outs : List String),
    runBank s ops = some (s', outs) → ∀ q m, memOf s' q m = specHistory ops (memOf s) q m := by
  induction ops with
  | nil => intro s s' outs h q m; simp only [runBank, Option.some.injEq, Prod.mk.injEq] at h; rw [← h.1]; rfl
  | cons op ops ih =>
    intro s s' outs h q m
    simp only [runBank] at h
    cases h1 : step s op with
    | bad => simp [h1] at h
    | panic => simp [h1] at h
    | ok s1 x =>
      simp only [h1, Option.map_eq_some_iff] at h
      obtain ⟨r, hr, he⟩ := h
      obtain ⟨rs, ro⟩ := r
      simp only [Prod.mk.injEq] at he
      obtain ⟨rfl, _⟩ := he
      rw [ih s1 rs ro hr q m]
      simp only [specHistory]
      congr 1
      funext q' m'
      exact step_effect s s1 op x h1 q' m'

/-- `Contains` answers the bank's membership predicate, for every kind of register -/
theorem obs_contains (s : St) (r n : Nat) (o : Obj) (hr : s.regs[r]? = some o) :
    step s (.contains r n) = .ok s (showBool (memOf s r n)) := by
  have hS : memOf s r n = mem o.words n := by simp [memOf, hr]
  cases o with
  | bits b => simp [step, step1, hr, hS, contains_spec, Obj.words]
  | bitmap b => simp [step, step1, hr, hS, contains_spec, Obj.words]
  | dsz d =>
    have := contains_spec ⟨d.set⟩ n
    simp [step, step1, hr, hS, DBits.contains_eq, DBits.toBits, this, Obj.words]

/-- a fresh iterator drained (`Iter()`, then `Next`/`Value` until false) enumerates the members
of the register in ascending order, for every kind of register -/
theorem obs_iterall (s : St) (r : Nat) (o : Obj) (hr : s.regs[r]? = some o) :
    step s (.iterall r) = .ok s (showNats (members o.words)) := by
  simp [step, step1, hr, iterAll_eq_members]

/-- one `Next` of a live iterator on register `r` (whatever happened to the register since the
iterator was made): it answers false iff no member `≥` its cursor is left, otherwise it moves to
the least such member, which `Value` then reports -/
theorem obs_next (ws : List W) (it : Iter) (hj : (if it.read then it.j + 1 else it.j) ≤ 64) :
    (pending ws it.i (if it.read then it.j + 1 else it.j) = [] ∧ (Iter.next ws it).2 = false) ∨
    (∃ i' j', j' < 64 ∧ Iter.next ws it = (⟨i', j', true⟩, true) ∧
      pending ws it.i (if it.read then it.j + 1 else it.j) = (64 * i' + j') :: pending ws i' (j' + 1) ∧
      (⟨i', j', true⟩ : Iter).value = 64 * i' + j') := by
  rcases scan_spec ws it.i (if it.read then it.j + 1 else it.j) (ws.length - it.i) hj rfl with h | ⟨i', j', h1, h2, h3⟩
  · exact .inl h
  · exact .inr ⟨i', j', h1, h2, h3, value_eq i' j'⟩

/-- the cached length of a register (when its type has one) is the number of members -/
def Obj.CacheOk : Obj → Prop
  | .bits b => b.Inv
  | .bitmap _ => True
  | .dsz d => d.toBits.Inv

def BankInv (s : St) : Prop := ∀ (r : Nat) (o : Obj), s.regs[r]? = some o → o.CacheOk

theorem bankInv_setReg (s : St) (r : Nat) (o' : Obj) (hi : BankInv s) (ho : o'.CacheOk) :
    BankInv (setReg s r o') := by
  intro q o hq
  simp only [setReg, List.getElem?_set] at hq
  by_cases h : r = q
  · subst h
    by_cases hl : r < s.regs.length
    · simp only [hl, if_true, Option.some.injEq] at hq; subst hq; exact ho
    · simp [hl] at hq
  · simp only [h, if_false] at hq; exact hi q o hq

theorem bulk_inv (s s' : St) (a b : Nat) (out : String) (fb : Bits → Bitmap → Bits) (fm : Bitmap → Bitmap → Bitmap)
    (hi : BankInv s) (hfb : ∀ x o, (fb x o).Inv) (h : bulk s a b fb fm = .ok s' out) : BankInv s' := by
  simp only [bulk] at h
  cases ha : s.regs[a]? with
  | none => simp [ha] at h
  | some oa =>
    cases hb : s.regs[b]? with
    | none => simp [ha, hb] at h
    | some ob =>
      cases oa <;> cases ob <;> simp only [ha, hb, Res.ok.injEq, reduceCtorEq] at h <;>
        obtain ⟨rfl, _⟩ := h <;>
        first
          | exact bankInv_setReg s a _ hi (hfb _ _)
          | exact bankInv_setReg s a _ hi trivial

theorem ro_inv (s s' : St) (op : Op) (out : String) (hro : op.isRO = true) (hi : BankInv s)
    (h : step1 s op = .ok s' out) : BankInv s' := by
  have := step_ro_regs s op hro s' out h
  intro r o hr
  rw [this] at hr
  exact hi r o hr

theorem step1_inv (s s' : St) (op : Op) (out : String) (hi : BankInv s) (h : step1 s op = .ok s' out) :
    BankInv s' := by
  cases op with
  | add r n =>
    simp only [step1] at h
    cases hr : s.regs[r]? with
    | none => simp [hr] at h
    | some o =>
      have ho := hi r o hr
      cases o with
      | bits b =>
        cases hb : b.add n with
        | none => simp [hr, hb] at h
        | some p =>
          obtain ⟨b', ch⟩ := p
          simp only [hr, hb, Res.ok.injEq] at h
          obtain ⟨rfl, _⟩ := h
          exact bankInv_setReg s r _ hi (Bits.add_inv b b' n ch ho hb)
      | bitmap m =>
        cases hb : m.add n with
        | none => simp [hr, hb] at h
        | some p =>
          simp only [hr, hb, Res.ok.injEq] at h
          obtain ⟨rfl, _⟩ := h
          exact bankInv_setReg s r _ hi trivial
      | dsz d =>
        cases hb : d.add n with
        | none => simp [hr, hb] at h
        | some d' =>
          simp only [hr, hb, Res.ok.injEq] at h
          obtain ⟨rfl, _⟩ := h
          refine bankInv_setReg s r _ hi ?_
          have he := DBits.add_eq d n
          rw [hb] at he
          cases hb2 : d.toBits.add n with
          | none => simp [hb2] at he
          | some p =>
            obtain ⟨b', ch⟩ := p
            simp only [hb2, Option.map_some, Option.some.injEq] at he
            have := Bits.add_inv d.toBits b' n ch ho hb2
            subst he
            simpa [Obj.CacheOk, DBits.toBits, Bits.toD, Bits.Inv] using this
  | remove r n =>
    simp only [step1] at h
    cases hr : s.regs[r]? with
    | none => simp [hr] at h
    | some o =>
      have ho := hi r o hr
      cases o with
      | bits b =>
        cases hb : b.remove n with
        | none => simp [hr, hb] at h
        | some p =>
          obtain ⟨b', ch⟩ := p
          simp only [hr, hb, Res.ok.injEq] at h
          obtain ⟨rfl, _⟩ := h
          exact bankInv_setReg s r _ hi (Bits.remove_inv b b' n ch ho hb)
      | bitmap m =>
        cases hb : m.remove n with
        | none => simp [hr, hb] at h
        | some p =>
          simp only [hr, hb, Res.ok.injEq] at h
          obtain ⟨rfl, _⟩ := h
          exact bankInv_setReg s r _ hi trivial
      | dsz d =>
        cases hb : d.remove n with
        | none => simp [hr, hb] at h
        | some d' =>
          simp only [hr, hb, Res.ok.injEq] at h
          obtain ⟨rfl, _⟩ := h
          refine bankInv_setReg s r _ hi ?_
          have he := DBits.remove_eq d n
          rw [hb] at he
          cases hb2 : d.toBits.remove n with
          | none => simp [hb2] at he
          | some p =>
            obtain ⟨b', ch⟩ := p
            simp only [hb2, Option.map_some, Option.some.injEq] at he
            have := Bits.remove_inv d.toBits b' n ch ho hb2
            subst he
            simpa [Obj.CacheOk, DBits.toBits, Bits.toD, Bits.Inv] using this
  | grow r n =>
    simp only [step1] at h
    cases hr : s.regs[r]? with
    | none => simp [hr] at h
    | some o =>
      have ho := hi r o hr
      cases o with
      | bits b =>
        simp only [hr, Res.ok.injEq] at h
        obtain ⟨rfl, _⟩ := h
        exact bankInv_setReg s r _ hi (Bits.grow_inv b n ho)
      | bitmap m =>
        simp only [hr, Res.ok.injEq] at h
        obtain ⟨rfl, _⟩ := h
        exact bankInv_setReg s r _ hi trivial
      | dsz d =>
        simp only [hr, Res.ok.injEq] at h
        obtain ⟨rfl, _⟩ := h
        refine bankInv_setReg s r _ hi ?_
        have := Bits.grow_inv d.toBits n ho
        rw [← DBits.grow_eq] at this
        exact this
  | clone d src =>
    simp only [step1] at h
    cases hd : s.regs[d]? with
    | none => simp [hd] at h
    | some od =>
      cases hs : s.regs[src]? with
      | none => cases od <;> simp [hd, hs] at h
      | some os =>
        cases od <;> cases os <;> simp only [hd, hs, Res.ok.injEq, reduceCtorEq] at h <;>
          obtain ⟨rfl, _⟩ := h <;> exact bankInv_setReg s d _ hi trivial
  | diff a b => exact bulk_inv s s' a b out _ _ hi (fun x o => Bits.diff_inv x o) (by simpa only [step1] using h)
  | intersect a b => exact bulk_inv s s' a b out _ _ hi (fun x o => Bits.intersect_inv x o) (by simpa only [step1] using h)
  | merge a b => exact bulk_inv s s' a b out _ _ hi (fun x o => Bits.merge_inv x o) (by simpa only [step1] using h)
  | layout => simp only [step1, Res.ok.injEq] at h; obtain ⟨rfl, _⟩ := h; exact hi
  | addn r a d c => simp [step1] at h
  | removen r a d c => simp [step1] at h
  | reseq r a n b => simp [step1] at h
  | contains r n => exact ro_inv s s' _ out rfl hi h
  | len r => exact ro_inv s s' _ out rfl hi h
  | blen r => exact ro_inv s s' _ out rfl hi h
  | cap r => exact ro_inv s s' _ out rfl hi h
  | iter k r => exact ro_inv s s' _ out rfl hi h
  | next k => exact ro_inv s s' _ out rfl hi h
  | value k => exact ro_inv s s' _ out rfl hi h
  | iterall r => exact ro_inv s s' _ out rfl hi h
  | range r st => exact ro_inv s s' _ out rfl hi h
  | all r st => exact ro_inv s s' _ out rfl hi h
  | str r => exact ro_inv s s' _ out rfl hi h
theorem loopN_inv (mk : Nat → Op) : ∀ (c : Nat) (s : St) (n d hits : Nat) (s' : St) (out : String),
    BankInv s → loopN mk c s n d hits = .ok s' out → BankInv s' := by
  intro c
  induction c with
  | zero => intro s n d hits s' out hi h; simp only [loopN, Res.ok.injEq] at h; obtain ⟨rfl, _⟩ := h; exact hi
  | succ c ih =>
    intro s n d hits s' out hi h
    simp only [loopN] at h
    cases h1 : step1 s (mk n) with
    | bad => simp [h1] at h
    | panic => simp [h1] at h
    | ok s1 x =>
      simp only [h1] at h
      exact ih s1 _ d _ s' out (step1_inv s s1 _ x hi h1) h

theorem step_inv (s s' : St) (op : Op) (out : String) (hi : BankInv s) (h : step s op = .ok s' out) :
    BankInv s' := by
  cases op with
  | addn r a d c =>
    simp only [step] at h
    by_cases hc : c = 0
    · simp [hc] at h
    · simp only [hc, if_false] at h; exact loopN_inv _ c s a d 0 s' out hi h
  | removen r a d c =>
    simp only [step] at h
    by_cases hc : c = 0
    · simp [hc] at h
    · simp only [hc, if_false] at h; exact loopN_inv _ c s a d 0 s' out hi h
  | reseq r a n b =>
    simp only [step, seq3] at h
    cases h1 : step1 s (.all r a) with
    | bad => simp [h1] at h
    | panic => simp [h1] at h
    | ok s1 x1 =>
      simp only [h1] at h
      cases h2 : step1 s1 (.add r n) with
      | bad => simp [h2] at h
      | panic => simp [h2] at h
      | ok s2 x2 =>
        simp only [h2] at h
        cases h3 : step1 s2 (.all r b) with
        | bad => simp [h3] at h
        | panic => simp [h3] at h
        | ok s3 x3 =>
          simp only [h3, Res.ok.injEq] at h
          obtain ⟨rfl, _⟩ := h
          exact step1_inv s2 s3 _ x3 (step1_inv s1 s2 _ x2 (step1_inv s s1 _ x1 hi h1) h2) h3
  | _ => exact step1_inv s s' _ out hi (by simpa only [step] using h)

/-- every bank state reachable from registers with correct caches has correct caches -/
theorem breach_inv (regs0 : List Obj) (h0 : BankInv ⟨regs0, [none, none]⟩) (s : St) (h : BReach regs0 s) :
    BankInv s := by
  induction h with
  | init => exact h0
  | step s s' op out _ hs ih => exact step_inv s s' op out ih hs

/-- `Len()` of any register with a correct cache is the number of members -/
theorem obs_len (s : St) (r : Nat) (o : Obj) (hr : s.regs[r]? = some o) (ho : o.CacheOk) :
    step s (.len r) = .ok s (toString ((members o.words).length : Int)) := by
  cases o with
  | bits b =>
    have : b.length = ((members b.bm.set).length : Int) := ho
    simp [step, step1, hr, Bits.len, this, Obj.words]
  | bitmap m =>
    have := len_eq_card m
    simp [step, step1, hr, this, card, Obj.words]
  | dsz d =>
    have : d.length = ((members d.set).length : Int) := ho
    simp [step, step1, hr, DBits.len, this, Obj.words]

theorem bankInv_zero (kinds : List Obj) (hk : ∀ o ∈ kinds, o = .bits Bits.empty ∨ o = .bitmap Bitmap.empty ∨ o = .dsz DBits.empty) :
    BankInv ⟨kinds, [none, none]⟩ := by
  intro r o hr
  have hm : o ∈ kinds := List.mem_of_getElem? hr
  rcases hk o hm with rfl | rfl | rfl
  · exact Bits.inv_empty
  · trivial
  · exact Bits.inv_empty

end Golib.C16
