/-
C05 helper lemmas: what `Insert`* + `BuildFailureLinks` produce (`Trie.ofPatterns`), and
the byte-level consequences for `find` on such a trie.
-/
import Golib.Proof.C05Bfs
import Golib.Proof.C05Bytes

set_option linter.unusedSimpArgs false
set_option linter.unusedVariables false

namespace Golib.C05
open Golib

theorem foldl_insert (dps : List (List Step)) : ∀ t0 : Trie,
    (dps.foldl (fun t p => t.insert p) t0).pats = t0.pats ++ dps.filter (fun p => !p.isEmpty) ∧
    (dps.foldl (fun t p => t.insert p) t0).fail = t0.fail := by
  induction dps with
  | nil => intro t0; simp
  | cons p dps ih =>
    intro t0
    simp only [List.foldl_cons]
    obtain ⟨h1, h2⟩ := ih (t0.insert p)
    rw [h1, h2]
    unfold Trie.insert
    cases hp : p.isEmpty <;> simp [hp]

/-- The decoded, non-empty patterns in insertion order. -/
def decodedPats (pats : List (List Nat)) : List (List Step) :=
  (pats.map decodeAll).filter fun p => !p.isEmpty

/-- `Insert` of every pattern followed by `BuildFailureLinks`: no panic; the trie holds the
decoded non-empty patterns and a correct failure table. -/
theorem ofPatterns_spec (pats : List (List Nat)) :
    ∃ t, Trie.ofPatterns pats = some t ∧ t.pats = decodedPats pats ∧ FailOK t := by
  obtain ⟨F, hF, _, hok, _⟩ := buildFail_spec (decodedPats pats)
  have hfold := foldl_insert (pats.map decodeAll) Trie.empty
  have hpats : (pats.foldl (fun t p => t.insert (decodeAllWith decodeStep p)) Trie.empty)
      = (pats.map decodeAll).foldl (fun t p => t.insert p) Trie.empty := by
    rw [List.foldl_map]; rfl
  refine ⟨⟨decodedPats pats, F⟩, ?_, rfl, ?_⟩
  · simp only [Trie.ofPatterns, Trie.ofPatternsWith, hpats, Trie.build]
    have h1 : ((pats.map decodeAll).foldl (fun t p => t.insert p) Trie.empty).pats = decodedPats pats := by
      rw [hfold.1]; simp [Trie.empty, decodedPats]
    rw [h1, hF]
    simp only [Option.map_some]
  · intro n hn hne
    exact hok n hn hne

theorem decodedPats_wf (pats : List (List Nat)) (hb : ∀ p ∈ pats, Bytes p) :
    ∀ p ∈ decodedPats pats, StepsWF p := by
  intro p hp
  simp only [decodedPats, List.mem_filter, List.mem_map] at hp
  obtain ⟨⟨q, hq, rfl⟩, _⟩ := hp
  exact decodeAll_wf q (hb q hq)

/-- A label is a pattern end iff it is the label of an inserted non-empty pattern. -/
theorem isEnd_decodedPats (pats : List (List Nat)) (m : Label) (hm : m ≠ []) :
    isEnd (decodedPats pats) m = true ↔ ∃ p ∈ pats, lab (decodeAll p) = m := by
  rw [isEnd_iff]
  simp only [decodedPats, List.mem_filter, List.mem_map]
  constructor
  · rintro ⟨_, ⟨⟨q, hq, rfl⟩, _⟩, h⟩; exact ⟨q, hq, h⟩
  · rintro ⟨q, hq, h⟩
    refine ⟨decodeAll q, ⟨⟨q, hq, rfl⟩, ?_⟩, h⟩
    cases hd : decodeAll q with
    | nil => rw [hd] at h; simp only [lab, List.map_nil] at h; exact absurd h.symm hm
    | cons a l => rfl

end Golib.C05
