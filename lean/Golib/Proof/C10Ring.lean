/-
Helper lemmas for C10 (Ring): invariant, abstraction to the content list, and one
spec lemma per operation.  Property theorems are in `Golib/Props/C10.lean`.
-/
import Golib.Model.C10Ring

set_option linter.unusedSimpArgs false
set_option linter.unusedVariables false

namespace Golib.C10

/-- Representation invariant of `Ring`. -/
structure Ring.Inv (r : Ring) : Prop where
  capPos : 0 < r.cap
  lenEq  : (r.values.length : Int) = r.cap
  range  : (r.head = -1 ∧ r.tail = -1) ∨ (0 ≤ r.head ∧ r.head < r.cap ∧ 0 ≤ r.tail ∧ r.tail < r.cap)

/-- Abstraction: the queue content, oldest first. -/
def Ring.content (r : Ring) : List Int :=
  if r.head = -1 then []
  else if r.head ≤ r.tail then (r.values.drop r.head.toNat).take (r.tail - r.head + 1).toNat
  else r.values.drop r.head.toNat ++ r.values.take (r.tail + 1).toNat

theorem tmod_succ {t c : Int} (h0 : -1 ≤ t) (h1 : t < c) (hc : 0 < c) :
    Int.tmod (t + 1) c = if t + 1 = c then 0 else t + 1 := by
  rw [Int.tmod_eq_emod_of_nonneg (by omega)]
  split
  · next h => rw [h]; exact Int.emod_self
  · next h => exact Int.emod_eq_of_lt (by omega) (by omega)


theorem content_length (r : Ring) (hi : r.Inv) : (r.content.length : Int) = r.len := by
  obtain ⟨vs, h, t, c⟩ := r
  obtain ⟨hc, hl, hr⟩ := hi
  simp only at hc hl hr
  simp only [Ring.content, Ring.len, Ring.isEmpty, beq_iff_eq]
  rcases hr with ⟨rfl, rfl⟩ | ⟨h0, h1, t0, t1⟩
  · simp
  · have : h ≠ -1 := by omega
    simp only [this, if_false]
    split
    · simp only [List.length_take, List.length_drop]; omega
    · simp only [List.length_append, List.length_take, List.length_drop]; omega


theorem take_set_succ (vs : List Int) (t : Nat) (v : Int) (h2 : t < vs.length) :
    (vs.set t v).take (t + 1) = vs.take t ++ [v] := by
  apply List.ext_getElem?; intro i; grind

theorem drop_take_set (vs : List Int) (h t : Nat) (v : Int) (h1 : h ≤ t) (h2 : t < vs.length) :
    ((vs.set t v).drop h).take (t - h + 1) = (vs.drop h).take (t - h) ++ [v] := by
  apply List.ext_getElem?; intro i
  simp only [List.getElem?_take, List.getElem?_drop, List.getElem?_set, List.getElem?_append,
    List.length_take, List.length_drop]
  grind

theorem push_spec (r : Ring) (v : Int) (hi : r.Inv) :
    ∃ r' ok, r.push v = some (r', ok) ∧ r'.Inv ∧ r'.cap = r.cap ∧
      (ok = true ↔ (r.content.length : Int) < r.cap) ∧
      r'.content = if ok then r.content ++ [v] else r.content := by
  have hlen := content_length r hi
  obtain ⟨vs, h, t, c⟩ := r
  obtain ⟨hc, hl, hr⟩ := hi
  simp only at hc hl hr
  simp only [Ring.len, Ring.isEmpty, beq_iff_eq] at hlen
  have hc0 : ¬ (c = 0) := by omega
  simp only [Ring.push, hc0, if_false, Ring.isFull, Ring.isEmpty, beq_iff_eq]
  rcases hr with ⟨rfl, rfl⟩ | ⟨h0, h1, t0, t1⟩
  · -- empty ring
    have hne : ¬ (Int.tmod (-1 + 1) c = -1) := by
      rw [tmod_succ (by omega) (by omega) hc]; split <;> omega
    simp only [hne, if_false, if_true]
    have ht : Int.tmod (-1 + 1) c = 0 := by
      rw [tmod_succ (by omega) (by omega) hc]; split <;> omega
    simp only [ht, setIdx]
    have : (0 : Int).toNat < vs.length := by simp; omega
    simp only [Int.le_refl, this, and_self, if_true]
    refine ⟨_, _, rfl, ⟨hc, by simp; omega, Or.inr (by simp only []; omega)⟩, rfl, ?_, ?_⟩
    · simp [Ring.content]; omega
    · cases vs with
      | nil => simp at hl; omega
      | cons a as => simp [Ring.content]
  · have hne : h ≠ -1 := by omega
    simp only [hne, if_false] at hlen ⊢
    rw [tmod_succ (by omega) t1 hc]
    obtain ⟨hn, rfl⟩ := Int.eq_ofNat_of_zero_le h0
    obtain ⟨tn, rfl⟩ := Int.eq_ofNat_of_zero_le t0
    obtain ⟨cn, rfl⟩ := Int.eq_ofNat_of_zero_le (Int.le_of_lt hc)
    have hl' : vs.length = cn := by omega
    by_cases hwrap : (tn : Int) + 1 = cn
    · simp only [hwrap, if_true]
      by_cases hfull : (0 : Int) = hn
      · -- full, not wrapped
        simp only [hfull, if_true]
        refine ⟨_, _, rfl, ⟨hc, hl, Or.inr ⟨h0, h1, t0, t1⟩⟩, rfl, ?_, by simp⟩
        simp only [Bool.false_eq_true, false_iff]
        split at hlen <;> omega
      · simp only [hfull, if_false, setIdx]
        have : (0 : Int).toNat < vs.length := by simp; omega
        simp only [Int.le_refl, this, and_self, if_true]
        refine ⟨_, _, rfl, ⟨hc, by simp; omega, Or.inr (by simp only []; omega)⟩, rfl, ?_, ?_⟩
        · simp only [true_iff]; split at hlen <;> omega
        · have h1' : ¬ ((hn : Int) ≤ 0) := by omega
          have h2' : (hn : Int) ≤ tn := by omega
          simp only [Ring.content, hne, if_false, h1', h2', if_true, Int.toNat_natCast]
          have e1 : ((tn : Int) - hn + 1).toNat = cn - hn := by omega
          rw [e1]
          have e2 : ((0 : Int) + 1).toNat = 1 := by simp
          rw [e2]
          apply List.ext_getElem?; intro i
          simp only [List.getElem?_take, List.getElem?_drop, List.getElem?_set, List.getElem?_append,
            List.length_take, List.length_drop, Int.toNat_zero]
          grind
    · simp only [hwrap, if_false]
      by_cases hfull : (tn : Int) + 1 = hn
      · simp only [hfull, if_true]
        refine ⟨_, _, rfl, ⟨hc, hl, Or.inr ⟨h0, h1, t0, t1⟩⟩, rfl, ?_, by simp⟩
        simp only [Bool.false_eq_true, false_iff]
        split at hlen <;> omega
      · simp only [hfull, if_false, setIdx]
        have e3 : ((tn : Int) + 1).toNat = tn + 1 := by omega
        have : ((tn : Int) + 1).toNat < vs.length := by omega
        have h5 : (0 : Int) ≤ (tn : Int) + 1 := by omega
        simp only [h5, this, and_self, if_true]
        refine ⟨_, _, rfl, ⟨hc, by simp; omega, Or.inr (by simp only []; omega)⟩, rfl, ?_, ?_⟩
        · simp only [true_iff]; split at hlen <;> omega
        · simp only [Ring.content, hne, if_false, if_true, Int.toNat_natCast, e3]
          by_cases hle : (hn : Int) ≤ tn
          · have hle' : (hn : Int) ≤ tn + 1 := by omega
            simp only [hle, hle', if_true]
            have e4 : ((tn : Int) + 1 - hn + 1).toNat = (tn + 1) - hn + 1 := by omega
            have e5 : ((tn : Int) - hn + 1).toNat = (tn + 1) - hn := by omega
            rw [e4, e5]
            exact drop_take_set vs hn (tn + 1) v (by omega) (by omega)
          · have hle' : ¬ ((hn : Int) ≤ tn + 1) := by omega
            simp only [hle, hle', if_false]
            have e4 : ((tn : Int) + 1 + 1).toNat = tn + 1 + 1 := by omega
            rw [e4, List.drop_set_of_lt (by omega), take_set_succ vs (tn + 1) v (by omega)]
            simp


theorem pop_spec (r : Ring) (hi : r.Inv) :
    ∃ r' v ok, r.pop = some (r', v, ok) ∧ r'.Inv ∧ r'.cap = r.cap ∧
      ((ok = true ∧ r.content = v :: r'.content) ∨
       (ok = false ∧ v = 0 ∧ r.content = [] ∧ r' = r)) := by
  obtain ⟨vs, h, t, c⟩ := r
  obtain ⟨hc, hl, hr⟩ := hi
  simp only at hc hl hr
  simp only [Ring.pop, Ring.isEmpty, beq_iff_eq]
  rcases hr with ⟨rfl, rfl⟩ | ⟨h0, h1, t0, t1⟩
  · simp only [if_true]
    exact ⟨_, _, _, rfl, ⟨hc, hl, Or.inl ⟨rfl, rfl⟩⟩, rfl, Or.inr ⟨rfl, rfl, by simp [Ring.content], rfl⟩⟩
  · have hne : h ≠ -1 := by omega
    simp only [hne, if_false]
    obtain ⟨hn, rfl⟩ := Int.eq_ofNat_of_zero_le h0
    obtain ⟨tn, rfl⟩ := Int.eq_ofNat_of_zero_le t0
    obtain ⟨cn, rfl⟩ := Int.eq_ofNat_of_zero_le (Int.le_of_lt hc)
    have hl' : vs.length = cn := by omega
    have hlt : hn < vs.length := by omega
    have hidx : idx vs (hn : Int) = some vs[hn] := by
      simp [idx, List.getElem?_eq_getElem hlt]
    have hset : setIdx vs (hn : Int) 0 = some (vs.set hn 0) := by
      simp [setIdx, hlt]
    simp only [hidx, hset]
    by_cases heq : (hn : Int) = tn
    · simp only [heq, if_true]
      refine ⟨_, _, _, rfl, ⟨hc, by simp; omega, Or.inl ⟨rfl, rfl⟩⟩, rfl, Or.inl ⟨rfl, ?_⟩⟩
      have : hn = tn := by omega
      subst this
      simp only [Ring.content, hne, if_false, Int.le_refl, if_true, Int.toNat_natCast]
      have : ((hn : Int) - hn + 1).toNat = 1 := by omega
      rw [this]
      apply List.ext_getElem?; intro i; grind
    · have hc0 : ¬ ((cn : Int) = 0) := by omega
      simp only [heq, hc0, if_false]
      rw [tmod_succ (by omega) h1 hc]
      by_cases hw : (hn : Int) + 1 = cn
      · simp only [hw, if_true]
        refine ⟨_, _, _, rfl, ⟨hc, by simp; omega, Or.inr (by simp only []; omega)⟩, rfl, Or.inl ⟨rfl, ?_⟩⟩
        have hgt : ¬ ((hn : Int) ≤ tn) := by omega
        have h0t : (0 : Int) ≤ tn := by omega
        have hz : ¬ ((0 : Int) = -1) := by omega
        simp only [Ring.content, hne, hz, if_false, hgt, h0t, if_true, Int.toNat_natCast]
        have e1 : ((tn : Int) + 1).toNat = tn + 1 := by omega
        have e2 : ((tn : Int) - 0 + 1).toNat = tn + 1 := by omega
        rw [e1, e2]
        apply List.ext_getElem?; intro i
        simp only [List.getElem?_take, List.getElem?_drop, List.getElem?_set, List.getElem?_append,
          List.length_take, List.length_drop, Int.toNat_zero, List.getElem?_cons]
        grind
      · simp only [hw, if_false]
        refine ⟨_, _, _, rfl, ⟨hc, by simp; omega, Or.inr (by simp only []; omega)⟩, rfl, Or.inl ⟨rfl, ?_⟩⟩
        have hz : ¬ ((hn : Int) + 1 = -1) := by omega
        simp only [Ring.content, hne, hz, if_false, Int.toNat_natCast]
        have e0 : ((hn : Int) + 1).toNat = hn + 1 := by omega
        rw [e0]
        by_cases hle : (hn : Int) ≤ tn
        · have hle' : (hn : Int) + 1 ≤ tn := by omega
          simp only [hle, hle', if_true]
          have e1 : ((tn : Int) - hn + 1).toNat = (tn - hn) + 1 := by omega
          have e2 : ((tn : Int) - (hn + 1) + 1).toNat = tn - hn := by omega
          rw [e1, e2]
          apply List.ext_getElem?; intro i
          simp only [List.getElem?_take, List.getElem?_drop, List.getElem?_set, List.getElem?_append,
            List.length_take, List.length_drop, List.getElem?_cons]
          grind
        · have hle' : ¬ ((hn : Int) + 1 ≤ tn) := by omega
          simp only [hle, hle', if_false]
          have e1 : ((tn : Int) + 1).toNat = tn + 1 := by omega
          rw [e1]
          apply List.ext_getElem?; intro i
          simp only [List.getElem?_take, List.getElem?_drop, List.getElem?_set, List.getElem?_append,
            List.length_take, List.length_drop, List.getElem?_cons]
          grind


theorem isEmpty_spec (r : Ring) (hi : r.Inv) : r.isEmpty = true ↔ r.content = [] := by
  have hlen := content_length r hi
  obtain ⟨vs, h, t, c⟩ := r
  obtain ⟨hc, hl, hr⟩ := hi
  simp only at hc hl hr
  simp only [Ring.len, Ring.isEmpty, beq_iff_eq] at hlen ⊢
  constructor
  · intro h; simp [Ring.content, h]
  · intro hcnt
    rw [hcnt] at hlen
    rcases hr with ⟨rfl, rfl⟩ | ⟨h0, h1, t0, t1⟩
    · rfl
    · have hne : h ≠ -1 := by omega
      simp only [hne, if_false] at hlen
      split at hlen <;> simp at hlen <;> omega

theorem isFull_spec (r : Ring) (hi : r.Inv) :
    r.isFull = true ↔ (r.content.length : Int) = r.cap := by
  have hlen := content_length r hi
  obtain ⟨vs, h, t, c⟩ := r
  obtain ⟨hc, hl, hr⟩ := hi
  simp only at hc hl hr
  simp only [Ring.len, Ring.isEmpty, beq_iff_eq] at hlen
  simp only [Ring.isFull, beq_iff_eq]
  rw [hlen]
  rcases hr with ⟨rfl, rfl⟩ | ⟨h0, h1, t0, t1⟩
  · rw [tmod_succ (by omega) (by omega) hc]; simp; omega
  · have hne : h ≠ -1 := by omega
    simp only [hne, if_false]
    rw [tmod_succ (by omega) t1 hc]
    split <;> split <;> omega

theorem peek_spec (r : Ring) (hi : r.Inv) :
    ∃ v ok, r.peek = some (v, ok) ∧
      ((ok = true ∧ r.content.head? = some v) ∨ (ok = false ∧ v = 0 ∧ r.content = [])) := by
  obtain ⟨r', v, ok, hp, _, _, hs⟩ := pop_spec r hi
  obtain ⟨vs, h, t, c⟩ := r
  obtain ⟨hc, hl, hr⟩ := hi
  simp only at hc hl hr
  simp only [Ring.pop, Ring.peek, Ring.isEmpty, beq_iff_eq] at hp ⊢
  by_cases he : h = -1
  · subst he
    simp only [if_true] at hp ⊢
    simp only [Option.some.injEq, Prod.mk.injEq] at hp
    obtain ⟨rfl, rfl, rfl⟩ := hp
    rcases hs with ⟨h1, _⟩ | ⟨_, _, h3, _⟩
    · simp at h1
    · exact ⟨_, _, rfl, Or.inr ⟨rfl, rfl, h3⟩⟩
  · simp only [he, if_false] at hp ⊢
    cases hidx : idx vs h with
    | none => simp [hidx] at hp
    | some x =>
      simp only [hidx] at hp ⊢
      cases hset : setIdx vs h 0 with
      | none => simp [hset] at hp
      | some ws =>
        have hc0 : ¬ (c = 0) := by omega
        simp only [hset, hc0, if_false] at hp
        refine ⟨_, _, rfl, Or.inl ⟨rfl, ?_⟩⟩
        split at hp <;>
        · simp only [Option.some.injEq, Prod.mk.injEq] at hp
          obtain ⟨_, rfl, rfl⟩ := hp
          rcases hs with ⟨_, h2⟩ | ⟨h1, _⟩
          · rw [h2]; rfl
          · simp at h1

end Golib.C10
