/-
C07 — tie of the regenerated `Utf16Parse` (`Golib/Gen/TransC07.lean`) to the cursor model `parse utf16Body`
(`Golib/Model/C07Enc.lean`).  Same scheme as `Proof/C07TransParse.lean` / `C07TransParseU.lean`; new here: the second
`parseUint` of a surrogate pair inside one loop round, and `utf16.DecodeRune` (`GoSem.utf16DecodeRune`) against the
model's `utf16Dec`.
-/
import Golib.Proof.C07TransParseU
import Golib.Proof.C07Utf16

set_option linter.unusedSimpArgs false
set_option linter.unusedVariables false

namespace Golib.C07.Tie
open Golib.GoSem

theorem parseUintLoop_true_le (base cutoff maxVal : Nat) :
    ∀ (s : Bytes) (i n v j : Nat), n ≤ maxVal → parseUintLoop base cutoff maxVal s i n = (v, j, true) → v ≤ maxVal := by
  intro s
  induction s with
  | nil => intro i n v j hn h; simp only [parseUintLoop, Prod.mk.injEq] at h; omega
  | cons c rest ih =>
    intro i n v j hn h
    simp only [parseUintLoop] at h
    repeat' split at h
    all_goals first
      | (exact ih _ _ _ _ (by omega) h)
      | (exfalso; simp at h; done)

/-- a successful `parseUint(s, base, 16)` returns at most `0xFFFF`. -/
theorem parseUint16_le {s : Bytes} {base v j : Nat} (h : Golib.C07.parseUint s base 16 = (v, j, true)) : v ≤ 65535 := by
  unfold Golib.C07.parseUint at h
  have := parseUintLoop_true_le _ _ _ _ _ _ _ _ (Nat.zero_le _) h
  omega

theorem dec_bridge (v1 v2 : Nat) (h1 : 0xd800 ≤ v1 ∧ v1 < 0xdc00) (h2 : 0xdc00 ≤ v2 ∧ v2 < 0xe000) :
    (GoSem.utf16DecodeRune ((BitVec.ofNat 64 v1).setWidth 32) ((BitVec.ofNat 64 v2).setWidth 32)).toInt = utf16Dec v1 v2 := by
  unfold GoSem.utf16DecodeRune
  rw [rune_of_u64 v1 (by omega), rune_of_u64 v2 (by omega)]
  obtain ⟨q, rfl⟩ : ∃ q, v1 = 0xd800 + q := ⟨v1 - 0xd800, by omega⟩
  obtain ⟨t, rfl⟩ : ∃ t, v2 = 0xdc00 + t := ⟨v2 - 0xdc00, by omega⟩
  rw [utf16Dec_pair q t (by omega) (by omega)]
  have hc : (0xD800 : Int) ≤ ((0xd800 + q : Nat) : Int) ∧ ((0xd800 + q : Nat) : Int) < 0xDC00 ∧
      (0xDC00 : Int) ≤ ((0xdc00 + t : Nat) : Int) ∧ ((0xdc00 + t : Nat) : Int) < 0xE000 := by omega
  simp only [hc, and_self, if_true]
  rw [BitVec.toInt_ofInt]
  have he : (((0xd800 + q : Nat) : Int) - 0xD800) * 0x400 + (((0xdc00 + t : Nat) : Int) - 0xDC00) + 0x10000
      = ((q * 1024 + t + 0x10000 : Nat) : Int) := by omega
  rw [he]
  have hlt : q * 1024 + t + 0x10000 < 2 ^ 31 := by omega
  generalize q * 1024 + t + 0x10000 = m at hlt ⊢
  unfold Int.bmod
  simp only [Nat.reducePow, Int.reducePow] at hlt ⊢
  omega

theorem u64_cmp (v c : Nat) (hv : v < 2 ^ 64) (hc : c < 2 ^ 64) :
    (decide (BitVec.ofNat 64 v < BitVec.ofNat 64 c) = decide (v < c)) ∧
    (decide (BitVec.ofNat 64 v ≥ BitVec.ofNat 64 c) = decide (v ≥ c)) := by
  simp only [ge_iff_le, BitVec.lt_def, BitVec.le_def, BitVec.toNat_ofNat, Nat.mod_eq_of_lt hv, Nat.mod_eq_of_lt hc, and_self]

/-! ### `Utf16Parse` -/

section
open Golib.Gen.Trans.C07 (Utf16Parse_loop1)

/-- `e += utf8.EncodeRune(dst[e:], R); i += 6; f = i` at the state `(d, E)`; `hR : R.toInt = <the model's rune>`. -/
macro "enc_write" d:ident E:term:max e2:term:max R:term:max hR:term:max : tactic => `(tactic|
  (rcases encAt_both $d $E $e2 (by omega) $R with ⟨d2, k2, h3, h4⟩ | ⟨h3, h4⟩
   · rw [$hR:term] at h4
     rw [h3, h4]
     simp only [Res.bind_ok']
     apply StepRel.cont
     congr 1 <;> omega
   · rw [$hR:term] at h4
     rw [h3, h4]
     simp only [Res.bind_panic']
     exact StepRel.panic))

/-- everything after `if f < i { e += copy(dst[e:], src[f:i]); f = i }` in one round of `Utf16Parse`, at the state
`(d, E = ↑e2, F = ↑f2, i)`; `v1` is the first unit. -/
macro "utf16_rest" src:ident d:ident E:term:max e2:term:max F:term:max f2:term:max i:ident v1:ident hv64:ident hv16:ident h4:ident : tactic => `(tactic|
  (simp only [(u64_cmp $v1 55296 $hv64 (by omega)).1, (u64_cmp $v1 57344 $hv64 (by omega)).2,
     (u64_cmp $v1 55296 $hv64 (by omega)).2, (u64_cmp $v1 56320 $hv64 (by omega)).1]
   have hcases : $v1 < 55296 ∨ $v1 ≥ 57344 ∨ ($v1 ≥ 55296 ∧ $v1 < 56320) ∨ ($v1 ≥ 56320 ∧ $v1 < 57344) := by omega
   rcases hcases with hA | hA | hA | hA
   · have a1 : $v1 < 55296 := hA
     have a2 : ¬ $v1 ≥ 57344 := by omega
     have a3 : ¬ $v1 ≥ 55296 := by omega
     have a4 : $v1 < 56320 := by omega
     simp only [a1, a2, a3, a4, decide_true, decide_false, Bool.or_true, Bool.true_or, Bool.or_false, Bool.false_or, Bool.and_true, Bool.true_and, Bool.and_false, Bool.false_and, Bool.or_self, Bool.and_self, Bool.false_eq_true, true_or, or_true, or_false, false_or, and_true, true_and, and_false, false_and, and_self, or_self, not_true_eq_false, not_false_eq_true, if_true, if_false]
     enc_write $d $E $e2 (BitVec.setWidth 32 (BitVec.ofNat 64 $v1)) (rune_of_u64 $v1 (by omega))
   · have a1 : ¬ $v1 < 55296 := by omega
     have a2 : $v1 ≥ 57344 := hA
     have a3 : $v1 ≥ 55296 := by omega
     have a4 : ¬ $v1 < 56320 := by omega
     simp only [a1, a2, a3, a4, decide_true, decide_false, Bool.or_true, Bool.true_or, Bool.or_false, Bool.false_or, Bool.and_true, Bool.true_and, Bool.and_false, Bool.false_and, Bool.or_self, Bool.and_self, Bool.false_eq_true, true_or, or_true, or_false, false_or, and_true, true_and, and_false, false_and, and_self, or_self, not_true_eq_false, not_false_eq_true, if_true, if_false]
     enc_write $d $E $e2 (BitVec.setWidth 32 (BitVec.ofNat 64 $v1)) (rune_of_u64 $v1 (by omega))
   · have a1 : ¬ $v1 < 55296 := by omega
     have a2 : ¬ $v1 ≥ 57344 := by omega
     have a3 : $v1 ≥ 55296 := hA.1
     have a4 : $v1 < 56320 := hA.2
     simp only [a1, a2, a3, a4, decide_true, decide_false, Bool.or_true, Bool.true_or, Bool.or_false, Bool.false_or, Bool.and_true, Bool.true_and, Bool.and_false, Bool.false_and, Bool.or_self, Bool.and_self, Bool.false_eq_true, true_or, or_true, or_false, false_or, and_true, true_and, and_false, false_and, and_self, or_self, not_true_eq_false, not_false_eq_true, if_true, if_false]
     by_cases h6 : List.length $src - ($i + 6) < 6
     · have h6' : Int.ofNat (List.length $src) - ((($i : Nat) : Int) + 6) < 6 := by simp; omega
       simp only [h6, h6', decide_true, if_true]
       apply StepRel.brk
       congr 1 <;> omega
     · have h6' : ¬ Int.ofNat (List.length $src) - ((($i : Nat) : Int) + 6) < 6 := by simp; omega
       simp only [h6, h6', decide_false, if_false, Bool.false_eq_true]
       have hj0 : $i + 6 < List.length $src := by omega
       have hj1 : $i + 6 + 1 < List.length $src := by omega
       rw [idx_ok' $src _ ($i + 6) (by omega) hj0]
       have hn0 : (bytesOf $src)[$i + 6]? = some (($src)[$i + 6]).toNat := by
         simp [bytesOf_getElem?, List.getElem?_eq_getElem hj0]
       have hn1 : (bytesOf $src)[$i + 6 + 1]? = some (($src)[$i + 6 + 1]).toNat := by
         simp [bytesOf_getElem?, List.getElem?_eq_getElem hj1]
       simp only [hn0, hn1, Res.bind_ok']
       generalize ($src)[$i + 6] = b0
       by_cases hb0 : b0 = 92#8
       · subst hb0
         simp only [bne_self_eq_false, beq_self_eq_true, Bool.not_true, Bool.not_not, Bool.not_false, Bool.false_eq_true, if_true, if_false, BitVec.toNat_ofNat,
           Nat.reducePow, Nat.reduceMod, ne_eq, not_true_eq_false]
         rw [idx_ok' $src _ ($i + 6 + 1) (by omega) hj1]
         simp only [Res.bind_ok']
         generalize ($src)[$i + 6 + 1] = b1
         by_cases hb1 : b1 = 117#8
         · subst hb1
           simp only [bne_self_eq_false, beq_self_eq_true, Bool.not_true, Bool.not_not, Bool.false_eq_true, if_false, BitVec.toNat_ofNat, Nat.reducePow,
             Nat.reduceMod, ne_eq, not_true_eq_false]
           rw [slice_ok' $src _ _ ($i + 6 + 2) ($i + 6 + 6) (by omega) (by omega) (by omega) (by omega)]
           rw [(slice_ok $src ($i + 6 + 2) ($i + 6 + 6) (by omega) (by omega)).2]
           simp only [Res.bind_ok']
           rw [parseUint_lit _ 16 16 (by omega) (by omega) (by omega) (16 : Int) (16 : Int) rfl rfl]
           simp only [Res.bind_ok']
           have hw64 := parseUint_lt (bytesOf (List.drop ($i + 6 + 2) (List.take ($i + 6 + 6) $src))) 16 16
           generalize hr2 : Golib.C07.parseUint (bytesOf (List.drop ($i + 6 + 2) (List.take ($i + 6 + 6) $src))) 16 16 = r2 at hw64
           obtain ⟨v2, j2, ok2⟩ := r2
           simp only [] at hw64
           cases ok2
           · simp only [Bool.not_false, if_true]
             apply StepRel.cont
             congr 1 <;> omega
           · simp only [Bool.not_true, Bool.false_eq_true, if_false]
             simp only [(u64_cmp v2 56320 hw64 (by omega)).2, (u64_cmp v2 57344 hw64 (by omega)).1]
             have hcs : v2 < 56320 ∨ (v2 ≥ 56320 ∧ v2 < 57344) ∨ v2 ≥ 57344 := by omega
             rcases hcs with hC | hC | hC
             · have c1 : ¬ v2 ≥ 56320 := by omega
               have c2 : v2 < 57344 := by omega
               simp only [c1, c2, decide_true, decide_false, Bool.or_true, Bool.true_or, Bool.or_false, Bool.false_or, Bool.and_true, Bool.true_and, Bool.and_false, Bool.false_and, Bool.or_self, Bool.and_self, Bool.false_eq_true, true_or, or_true, or_false, false_or, and_true, true_and, and_false, false_and, and_self, or_self, not_true_eq_false, not_false_eq_true, if_true, if_false]
               apply StepRel.cont
               congr 1 <;> omega
             · have c1 : v2 ≥ 56320 := hC.1
               have c2 : v2 < 57344 := hC.2
               simp only [c1, c2, decide_true, decide_false, Bool.or_true, Bool.true_or, Bool.or_false, Bool.false_or, Bool.and_true, Bool.true_and, Bool.and_false, Bool.false_and, Bool.or_self, Bool.and_self, Bool.false_eq_true, true_or, or_true, or_false, false_or, and_true, true_and, and_false, false_and, and_self, or_self, not_true_eq_false, not_false_eq_true, if_true, if_false]
               enc_write $d $E $e2
                 (GoSem.utf16DecodeRune (BitVec.setWidth 32 (BitVec.ofNat 64 $v1)) (BitVec.setWidth 32 (BitVec.ofNat 64 v2)))
                 (dec_bridge $v1 v2 ⟨a3, a4⟩ hC)
             · have c1 : v2 ≥ 56320 := by omega
               have c2 : ¬ v2 < 57344 := by omega
               simp only [c1, c2, decide_true, decide_false, Bool.or_true, Bool.true_or, Bool.or_false, Bool.false_or, Bool.and_true, Bool.true_and, Bool.and_false, Bool.false_and, Bool.or_self, Bool.and_self, Bool.false_eq_true, true_or, or_true, or_false, false_or, and_true, true_and, and_false, false_and, and_self, or_self, not_true_eq_false, not_false_eq_true, if_true, if_false]
               apply StepRel.cont
               congr 1 <;> omega
         · have hb1' : b1.toNat ≠ 117 := by
             intro h; apply hb1; apply BitVec.eq_of_toNat_eq; simpa using h
           have hbb : (b1 != 117#8) = true := by simpa using hb1
           have hbbe : (b1 == 117#8) = false := by simpa using hb1
           simp only [hbb, hbbe, Bool.not_false, Bool.not_true, Bool.not_not, if_true, ne_eq, hb1', not_false_eq_true]
           apply StepRel.cont
           congr 1 <;> omega
       · have hb0' : b0.toNat ≠ 92 := by
           intro h; apply hb0; apply BitVec.eq_of_toNat_eq; simpa using h
         have hbb : (b0 != 92#8) = true := by simpa using hb0
         have hbbe : (b0 == 92#8) = false := by simpa using hb0
         simp only [hbb, hbbe, Bool.not_false, Bool.not_true, Bool.not_not, Bool.not_true, Bool.false_eq_true, if_false, if_true, Res.bind_ok', ne_eq, hb0',
           not_false_eq_true]
         apply StepRel.cont
         congr 1 <;> omega
   · have a1 : ¬ $v1 < 55296 := by omega
     have a2 : ¬ $v1 ≥ 57344 := by omega
     have a3 : $v1 ≥ 55296 := by omega
     have a4 : ¬ $v1 < 56320 := by omega
     simp only [a1, a2, a3, a4, decide_true, decide_false, Bool.or_true, Bool.true_or, Bool.or_false, Bool.false_or, Bool.and_true, Bool.true_and, Bool.and_false, Bool.false_and, Bool.or_self, Bool.and_self, Bool.false_eq_true, true_or, or_true, or_false, false_or, and_true, true_and, and_false, false_and, and_self, or_self, not_true_eq_false, not_false_eq_true, if_true, if_false]
     apply StepRel.cont
     congr 1 <;> omega))

theorem utf16_step (src dst : List (BitVec 8)) (e f i fuel : Nat) (hi : i < src.length) :
    StepRel (fun d e f i => .ok (d, e, f, i)) (Utf16Parse_loop1 fuel src)
      (utf16Body (bytesOf src) ⟨bytesOf dst, e, f, i⟩)
      (Utf16Parse_loop1 (fuel + 1) src dst (e : Int) (f : Int) (i : Int)) := by
  conv => arg 4; unfold Utf16Parse_loop1
  unfold utf16Body
  have hlt : (i : Int) < Int.ofNat src.length := by simp; omega
  simp only [hlt, decide_true, if_true, bytesOf_length]
  by_cases h4 : src.length - i < 6
  · have h4' : Int.ofNat src.length - (i : Int) < 6 := by simp; omega
    simp only [h4, h4', decide_true, if_true]
    exact StepRel.brk _ _ _ _ _ rfl
  · have h4' : ¬ Int.ofNat src.length - (i : Int) < 6 := by simp; omega
    simp only [h4, h4', decide_false, if_false, Bool.false_eq_true]
    have hi1 : i + 1 < src.length := by omega
    rw [idx_ok' src _ i rfl hi]
    have hm : (bytesOf src)[i]? = some (src[i]).toNat := by
      simp [bytesOf_getElem?, List.getElem?_eq_getElem hi]
    have hm1 : (bytesOf src)[i + 1]? = some (src[i + 1]).toNat := by
      simp [bytesOf_getElem?, List.getElem?_eq_getElem hi1]
    simp only [hm, hm1, bind, pure, Res.bind_ok']
    generalize src[i] = c
    by_cases hc : c = 92#8
    · subst hc
      simp only [bne_self_eq_false, beq_self_eq_true, Bool.not_true, Bool.not_not, Bool.not_false, Bool.false_eq_true, if_true, if_false, BitVec.toNat_ofNat,
        Nat.reducePow, Nat.reduceMod, ne_eq, not_true_eq_false]
      rw [idx_ok' src _ (i + 1) (by omega) hi1]
      simp only [Res.bind_ok']
      generalize src[i + 1] = c1
      by_cases hc1 : c1 = 117#8
      · subst hc1
        simp only [bne_self_eq_false, beq_self_eq_true, Bool.not_true, Bool.not_not, Bool.false_eq_true, if_false, BitVec.toNat_ofNat, Nat.reducePow, Nat.reduceMod,
          ne_eq, not_true_eq_false]
        rw [slice_ok' src _ _ (i + 2) (i + 6) (by omega) (by omega) (by omega) (by omega)]
        rw [(slice_ok src (i + 2) (i + 6) (by omega) (by omega)).2]
        simp only [Res.bind_ok']
        rw [parseUint_lit _ 16 16 (by omega) (by omega) (by omega) (16 : Int) (16 : Int) rfl rfl]
        simp only [Res.bind_ok']
        have hv64 := parseUint_lt (bytesOf (List.drop (i + 2) (List.take (i + 6) src))) 16 16
        generalize hr : Golib.C07.parseUint (bytesOf (List.drop (i + 2) (List.take (i + 6) src))) 16 16 = r at hv64
        obtain ⟨v, j, ok⟩ := r
        simp only [] at hv64
        cases ok
        · simp only [Bool.not_false, if_true]
          apply StepRel.cont
          congr 1 <;> omega
        · have hv16 := parseUint16_le hr
          simp only [Bool.not_true, Bool.false_eq_true, if_false]
          by_cases hfi : f < i
          · have hfi' : ((f : Nat) : Int) < ((i : Nat) : Int) := by omega
            simp only [hfi, hfi', decide_true, if_true]
            rw [slice_ok' src _ _ f i rfl rfl (by omega) (by omega), flush_true src dst e f i hfi (by omega)]
            simp only [Res.bind_ok']
            rcases copyAt_both dst ((List.take i src).drop f) _ e rfl with ⟨d, k, h1, h2⟩ | ⟨h1, h2⟩
            · rw [h1, h2]
              simp only [Res.bind_ok']
              utf16_rest src d (((e : Nat) : Int) + ((k : Nat) : Int)) (e + k) ((i : Nat) : Int) i i v hv64 hv16 h4
            · rw [h1, h2]
              simp only [Res.bind_panic']
              exact StepRel.panic
          · have hfi' : ¬ ((f : Nat) : Int) < ((i : Nat) : Int) := by omega
            simp only [hfi, hfi', decide_false, Bool.false_eq_true, if_false, Res.bind_ok', flush_false _ _ _ _ _ hfi]
            utf16_rest src dst ((e : Nat) : Int) e ((f : Nat) : Int) f i v hv64 hv16 h4
      · have hc1' : c1.toNat ≠ 117 := by
          intro h; apply hc1; apply BitVec.eq_of_toNat_eq; simpa using h
        have hb : (c1 != 117#8) = true := by simpa using hc1
        have hbe : (c1 == 117#8) = false := by simpa using hc1
        simp only [hb, hbe, Bool.not_false, Bool.not_true, Bool.not_not, if_true, ne_eq, hc1', not_false_eq_true]
        apply StepRel.cont
        congr 1 <;> omega
    · have hc' : c.toNat ≠ 92 := by
        intro h; apply hc; apply BitVec.eq_of_toNat_eq; simpa using h
      have hb : (c != 92#8) = true := by simpa using hc
      have hbe : (c == 92#8) = false := by simpa using hc
      simp only [hb, hbe, Bool.not_false, Bool.not_true, Bool.not_not, Bool.not_true, Bool.false_eq_true, if_false, if_true, Res.bind_ok', ne_eq, hc', not_false_eq_true]
      apply StepRel.cont
      congr 1 <;> omega

theorem utf16_end (src : List (BitVec 8)) (fuel : Nat) (dst : List (BitVec 8)) (e f i : Nat) (h : ¬ i < src.length) :
    Utf16Parse_loop1 (fuel + 1) src dst e f i = .ok (dst, (e : Int), (f : Int), (i : Int)) := by
  unfold Utf16Parse_loop1
  have hlt : ¬ (i : Int) < Int.ofNat src.length := by simp; omega
  simp only [hlt, decide_false, Bool.false_eq_true, if_false]

/-- The regenerated `Utf16Parse` IS the cursor model `parse utf16Body`, for every `dst` and `src`. -/
theorem trans_Utf16Parse_rel (dst src : List (BitVec 8)) :
    OutRel (parse utf16Body (bytesOf dst) (bytesOf src)) (Golib.Gen.Trans.C07.Utf16Parse dst src) := by
  unfold Golib.Gen.Trans.C07.Utf16Parse parse run
  have hl := loop_rel src (utf16Body (bytesOf src)) (fun fuel => Utf16Parse_loop1 fuel src)
    (utf16_progress _) (fun fuel dst e f i hi => utf16_step src dst e f i fuel hi) (utf16_end src)
    (src.length + 1) dst 0 0 0 (by omega)
  simp only [Int.natCast_zero, bytesOf_length] at hl ⊢
  generalize loop (utf16Body (bytesOf src)) src.length (src.length + 1) ⟨bytesOf dst, 0, 0, 0⟩ = ml at hl ⊢
  generalize Utf16Parse_loop1 (src.length + 1) src dst 0 0 0 = gl at hl ⊢
  cases hl with
  | panic => simp only [bind, Res.bind_panic']; exact OutRel.panic
  | ok d e f i =>
    simp only [bind, pure, Res.bind_ok']
    fin_tail src d e f

end

end Golib.C07.Tie
