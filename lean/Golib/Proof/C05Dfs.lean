/-
C05 — the explicit-stack depth-first enumeration of `PrefixSearch` / `FuzzySearch`
(`dfsLoop`, one shared byte buffer truncated on backtracking) returns exactly the strings
of the end nodes below the start node, each once; it neither panics nor runs out of fuel.

Plan: `subtree ps d n` lists the nodes below `n` down to relative depth `d` in the order
the loop visits them; with `D := nodeBound ps` (no node is longer) `sub ps D n` is the whole
subtree.  `dfsLoop_sub` proves, under the stack/buffer invariant `Inv`, that the loop
appends the strings of the end nodes of `stack.flatMap sub`.
-/
import Golib.Proof.C05Bfs

set_option linter.unusedSimpArgs false
set_option linter.unusedVariables false

namespace Golib.C05
open Golib

/-! ### subtrees in visiting order -/

/-- Children of `n` in the order the loop pops them (last child first). -/
def dkids (ps : List (List Step)) (n : Label) : List Label :=
  (((childrenOf ps n).getD []).map fun r => n ++ [r]).reverse

/-- Nodes below `n` (inclusive) down to relative depth `d`, in DFS visiting order. -/
def subtree (ps : List (List Step)) : Nat → Label → List Label
  | 0, n => [n]
  | d + 1, n => n :: (dkids ps n).flatMap (subtree ps d)

def sub (ps : List (List Step)) (D : Nat) (n : Label) : List Label := subtree ps (D - n.length) n

theorem flatMap_congr' {α β} {f g : α → List β} : ∀ {l : List α}, (∀ a ∈ l, f a = g a) →
    l.flatMap f = l.flatMap g
  | [], _ => rfl
  | a :: l, h => by
    simp only [List.flatMap_cons]
    rw [h a (List.mem_cons_self), flatMap_congr' (fun b hb => h b (List.mem_cons_of_mem _ hb))]

theorem mem_dkids {ps : List (List Step)} {n k : Label} :
    k ∈ dkids ps n ↔ ∃ r, k = n ++ [r] ∧ IsNode ps (n ++ [r]) := by
  obtain ⟨cs, hc⟩ := children_exists ps n
  simp only [dkids, hc, Option.getD_some, List.mem_reverse, List.mem_map]
  constructor
  · rintro ⟨r, hr, rfl⟩; exact ⟨r, rfl, (mem_children_iff hc r).1 hr⟩
  · rintro ⟨r, rfl, hr⟩; exact ⟨r, (mem_children_iff hc r).2 hr, rfl⟩

theorem snoc_prefix_inj {n m : Label} {a b : Int} (ha : n ++ [a] <+: m) (hb : n ++ [b] <+: m) :
    a = b := by
  have h := List.prefix_of_prefix_length_le ha hb (by simp)
  have h2 := h.eq_of_length (by simp)
  have h3 := List.append_cancel_left h2
  simpa using h3

theorem mem_subtree (ps : List (List Step)) : ∀ (d : Nat) (n m : Label), IsNode ps n →
    (m ∈ subtree ps d n ↔ IsNode ps m ∧ n <+: m ∧ m.length ≤ n.length + d)
  | 0, n, m, hn => by
    simp only [subtree, List.mem_singleton, Nat.add_zero]
    constructor
    · rintro rfl; exact ⟨hn, List.prefix_refl _, Nat.le_refl _⟩
    · rintro ⟨_, hp, hl⟩; exact (hp.eq_of_length_le hl).symm
  | d + 1, n, m, hn => by
    simp only [subtree, List.mem_cons, List.mem_flatMap]
    constructor
    · rintro (rfl | ⟨k, hk, hm⟩)
      · exact ⟨hn, List.prefix_refl _, by omega⟩
      · obtain ⟨r, rfl, hr⟩ := mem_dkids.1 hk
        obtain ⟨h1, h2, h3⟩ := (mem_subtree ps d _ m hr).1 hm
        refine ⟨h1, (List.prefix_append _ _).trans h2, ?_⟩
        simp only [List.length_append, List.length_cons, List.length_nil] at h3; omega
    · rintro ⟨hm, ⟨s, rfl⟩, hl⟩
      cases s with
      | nil => left; simp
      | cons r s =>
        right
        have hm' : IsNode ps ((n ++ [r]) ++ s) := by simpa using hm
        refine ⟨n ++ [r], mem_dkids.2 ⟨r, rfl, hm'.prefix⟩, ?_⟩
        rw [mem_subtree ps d _ _ hm'.prefix]
        refine ⟨hm, ⟨s, by simp⟩, ?_⟩
        simp only [List.length_append, List.length_cons, List.length_nil] at hl ⊢; omega

theorem dkids_pairwise {ps : List (List Step)} {n : Label} {R : Label → Label → Prop}
    (h : ∀ a b, a ≠ b → IsNode ps (n ++ [a]) → IsNode ps (n ++ [b]) → R (n ++ [a]) (n ++ [b])) :
    (dkids ps n).Pairwise R := by
  obtain ⟨cs, hc⟩ := children_exists ps n
  have hs : StrictSorted cs := children_sorted hc
  simp only [dkids, hc, Option.getD_some, List.pairwise_reverse, List.pairwise_map]
  refine List.Pairwise.imp_of_mem ?_ hs
  intro a b ha hb hab
  exact h b a (by omega) ((mem_children_iff hc b).1 hb) ((mem_children_iff hc a).1 ha)

theorem subtree_nodup (ps : List (List Step)) : ∀ (d : Nat) (n : Label), IsNode ps n →
    (subtree ps d n).Nodup
  | 0, n, _ => by simp [subtree]
  | d + 1, n, hn => by
    simp only [subtree, List.nodup_cons, List.mem_flatMap, not_exists, not_and]
    constructor
    · intro k hk hm
      obtain ⟨r, rfl, hr⟩ := mem_dkids.1 hk
      have := ((mem_subtree ps d _ n hr).1 hm).2.1.length_le
      simp only [List.length_append, List.length_cons, List.length_nil] at this; omega
    · rw [List.nodup_iff_pairwise_ne, List.pairwise_flatMap]
      constructor
      · intro k hk
        obtain ⟨r, rfl, hr⟩ := mem_dkids.1 hk
        exact List.nodup_iff_pairwise_ne.1 (subtree_nodup ps d _ hr)
      · apply dkids_pairwise
        intro a b hab ha hb x hx y hy hxy
        subst hxy
        exact hab (snoc_prefix_inj ((mem_subtree ps d _ x ha).1 hx).2.1
          ((mem_subtree ps d _ x hb).1 hy).2.1)

theorem le_sum_of_mem' {a : Nat} : ∀ {l : List Nat}, a ∈ l → a ≤ l.sum
  | b :: l, h => by
    simp only [List.sum_cons]
    rcases List.mem_cons.1 h with rfl | h
    · omega
    · have := le_sum_of_mem' h; omega

/-- No node is longer than `nodeBound ps`. -/
theorem isNode_length_le {ps : List (List Step)} {m : Label} (h : IsNode ps m) :
    m.length ≤ nodeBound ps := by
  rcases (isNode_iff ps m).1 h with rfl | ⟨p, hp, hpre⟩
  · simp
  · have h1 := hpre.length_le
    have h2 : p.length ≤ nodeBound ps := le_sum_of_mem' (List.mem_map.2 ⟨p, hp, rfl⟩)
    simp only [lab, List.length_map] at h1; omega

theorem sub_unfold {ps : List (List Step)} {D : Nat} (hD : ∀ m, IsNode ps m → m.length ≤ D)
    {n : Label} (hn : IsNode ps n) : sub ps D n = n :: (dkids ps n).flatMap (sub ps D) := by
  have hl := hD n hn
  unfold sub
  cases hd : D - n.length with
  | zero =>
    have hk : dkids ps n = [] := by
      cases hk : dkids ps n with
      | nil => rfl
      | cons k ks =>
        obtain ⟨r, rfl, hr⟩ := mem_dkids.1 (hk ▸ List.mem_cons_self : k ∈ dkids ps n)
        have := hD _ hr
        simp only [List.length_append, List.length_cons, List.length_nil] at this; omega
    simp only [subtree, hk, List.flatMap_nil]
  | succ d =>
    simp only [subtree]
    congr 1
    apply flatMap_congr'
    intro k hk
    obtain ⟨r, rfl, hr⟩ := mem_dkids.1 hk
    have : D - (n ++ [r]).length = d := by
      simp only [List.length_append, List.length_cons, List.length_nil]; omega
    rw [this]

theorem mem_sub {ps : List (List Step)} {D : Nat} (hD : ∀ m, IsNode ps m → m.length ≤ D)
    {n m : Label} (hn : IsNode ps n) : m ∈ sub ps D n ↔ IsNode ps m ∧ n <+: m := by
  unfold sub
  rw [mem_subtree ps _ n m hn]
  constructor
  · rintro ⟨h1, h2, _⟩; exact ⟨h1, h2⟩
  · rintro ⟨h1, h2⟩; have := hD m h1; have := hD n hn; exact ⟨h1, h2, by omega⟩

/-- The proper descendants of `n`, in visiting order. -/
def below (ps : List (List Step)) (D : Nat) (n : Label) : List Label := (dkids ps n).flatMap (sub ps D)

theorem below_spec {ps : List (List Step)} {D : Nat} (hD : ∀ m, IsNode ps m → m.length ≤ D)
    {n : Label} (hn : IsNode ps n) :
    (below ps D n).Nodup ∧ ∀ m, m ∈ below ps D n ↔ (IsNode ps m ∧ n <+: m ∧ m ≠ n) := by
  have hnd : (sub ps D n).Nodup := subtree_nodup ps _ n hn
  rw [sub_unfold hD hn, List.nodup_cons] at hnd
  refine ⟨hnd.2, fun m => ?_⟩
  have hm := mem_sub hD (m := m) hn
  rw [sub_unfold hD hn, List.mem_cons] at hm
  unfold below
  constructor
  · intro h
    obtain ⟨h1, h2⟩ := hm.1 (Or.inr h)
    exact ⟨h1, h2, fun he => hnd.1 (he ▸ h)⟩
  · rintro ⟨h1, h2, h3⟩
    rcases hm.2 ⟨h1, h2⟩ with h | h
    · exact absurd h h3
    · exact h

theorem below_length {ps : List (List Step)} {D : Nat} (hD : ∀ m, IsNode ps m → m.length ≤ D)
    {n : Label} (hn : IsNode ps n) : (below ps D n).length ≤ nodeBound ps := by
  obtain ⟨h1, h2⟩ := below_spec hD hn
  rw [← allNodes_length]
  apply h1.length_le_of_subset
  intro m hm
  obtain ⟨a, b, c⟩ := (h2 m).1 hm
  apply mem_allNodes a
  rintro rfl
  exact c (List.prefix_nil.1 b).symm

/-! ### the stack / buffer invariant -/

/-- Bytes written for the path from `n` down to `m`. -/
def encRel (enc : Int → List Nat) (n m : Label) : List Nat := (m.drop n.length).flatMap enc

theorem encRel_append {enc : Int → List Nat} {n p : Label} (h : n <+: p) (s : Label) :
    encRel enc n (p ++ s) = encRel enc n p ++ s.flatMap enc := by
  unfold encRel
  rw [List.drop_append_of_le_length h.length_le, List.flatMap_append]

theorem encRel_snoc {enc : Int → List Nat} {n p : Label} (h : n <+: p) (r : Int) :
    encRel enc n (p ++ [r]) = encRel enc n p ++ enc r := by
  rw [encRel_append h, List.flatMap_singleton]

/-- Frame `g` hangs below its parent `pg` (itself below `n`), is a trie node, and its
`depth` is the number of bytes written for the parent. -/
def FrameOK (ps : List (List Step)) (enc : Int → List Nat) (n : Label) (g : Frame) (pg : Label) : Prop :=
  g.node = pg ++ [g.r] ∧ n <+: pg ∧ IsNode ps g.node ∧ g.depth = ((encRel enc n pg).length : Int)

/-- Every frame's parent is a prefix of the parent of the frame above it. -/
def Chain (ps : List (List Step)) (enc : Int → List Nat) (n : Label) : List Frame → Label → Prop
  | [], _ => True
  | g :: gs, path => ∃ pg, FrameOK ps enc n g pg ∧ pg <+: path ∧ Chain ps enc n gs pg

/-- The buffer holds `B` followed by the bytes of the top frame's parent. -/
def Inv (ps : List (List Step)) (enc : Int → List Nat) (n : Label) (B : List Nat) :
    List Frame → List Nat → Prop
  | [], _ => True
  | f :: fs, buf => ∃ pf, FrameOK ps enc n f pf ∧ buf = B ++ encRel enc n pf ∧ Chain ps enc n fs pf

theorem Chain.mono {ps : List (List Step)} {enc : Int → List Nat} {n : Label} {fs : List Frame}
    {p p' : Label} (h : Chain ps enc n fs p) (hp : p <+: p') : Chain ps enc n fs p' := by
  cases fs with
  | nil => trivial
  | cons g gs =>
    obtain ⟨pg, h1, h2, h3⟩ := h
    exact ⟨pg, h1, h2.trans hp, h3⟩

theorem pushFrames_cons (node : Label) (d : Int) (c : Int) (cs : List Int) (fs : List Frame) :
    pushFrames node d (c :: cs) fs = pushFrames node d cs (⟨c, d, node ++ [c]⟩ :: fs) := by
  simp [pushFrames]

theorem pushFrames_concat (node : Label) (d : Int) (cs : List Int) (c : Int) (fs : List Frame) :
    pushFrames node d (cs ++ [c]) fs = ⟨c, d, node ++ [c]⟩ :: pushFrames node d cs fs := by
  simp [pushFrames]

theorem chain_push {ps : List (List Step)} {enc : Int → List Nat} {n node : Label} {d : Int}
    (hpre : n <+: node) (hd : d = ((encRel enc n node).length : Int)) :
    ∀ (cs : List Int) (fs : List Frame), (∀ r ∈ cs, IsNode ps (node ++ [r])) →
      Chain ps enc n fs node → Chain ps enc n (pushFrames node d cs fs) node
  | [], fs, _, h => by simpa [pushFrames] using h
  | c :: cs, fs, hcs, h => by
    rw [pushFrames_cons]
    apply chain_push hpre hd cs _ (fun r hr => hcs r (List.mem_cons_of_mem _ hr))
    exact ⟨node, ⟨rfl, hpre, hcs c List.mem_cons_self, hd⟩, List.prefix_refl _, h⟩

theorem pushFrames_nodes {ps : List (List Step)} {node : Label} {cs : List Int} (d : Int)
    (fs : List Frame) (hc : childrenOf ps node = some cs) :
    (pushFrames node d cs fs).map (·.node) = dkids ps node ++ fs.map (·.node) := by
  simp [pushFrames, dkids, hc, List.map_reverse, Function.comp_def]

theorem w_of_node {ps : List (List Step)} {w : Int → Int} {enc : Int → List Nat}
    (hw : ∀ p ∈ ps, ∀ st ∈ p, w st.1 = ((enc st.1).length : Int)) {pf : Label} {r : Int}
    (h : IsNode ps (pf ++ [r])) : w r = ((enc r).length : Int) := by
  rcases (isNode_iff ps _).1 h with h | ⟨p, hp, hpre⟩
  · simp at h
  · have hr : r ∈ lab p := hpre.subset (by simp)
    obtain ⟨st, hst, rfl⟩ := List.mem_map.1 hr
    exact hw p hp st hst

theorem truncate?_append (a b : List Nat) (k : Int) (hk : k = (a.length : Int)) :
    truncate? (a ++ b) k = some a := by
  subst hk
  unfold truncate?
  rw [if_pos (by simp only [List.length_append]; omega)]
  simp only [Int.toNat_natCast, List.take_left' rfl]

/-! ### the loop -/

theorem dfsLoop_sub (t : Trie) (w : Int → Int) (enc : Int → List Nat)
    (hw : ∀ p ∈ t.pats, ∀ st ∈ p, w st.1 = ((enc st.1).length : Int))
    (n : Label) (B : List Nat) {D : Nat} (hD : ∀ m, IsNode t.pats m → m.length ≤ D) :
    ∀ (fuel : Nat) (stack : List Frame) (buf : List Nat) (ret : List (List Nat)),
      Inv t.pats enc n B stack buf →
      ((stack.map (·.node)).flatMap (sub t.pats D)).length < fuel →
      dfsLoop t w enc fuel stack buf ret =
        some (ret ++ (((stack.map (·.node)).flatMap (sub t.pats D)).filter (isEnd t.pats)).map
          (fun m => B ++ encRel enc n m)) := by
  intro fuel
  induction fuel with
  | zero => intro _ _ _ _ h; omega
  | succ fuel ih =>
    intro stack buf ret hinv hlen
    cases stack with
    | nil => simp [dfsLoop]
    | cons cur fs =>
      obtain ⟨r, depth, node⟩ := cur
      obtain ⟨pf, ⟨hnode, hpre, hisn, hdep⟩, hbuf, hchain⟩ := hinv
      simp only [] at hnode hisn hdep
      subst hnode
      obtain ⟨cs, hc⟩ := children_exists t.pats (pf ++ [r])
      have hc' : t.children (pf ++ [r]) = some cs := hc
      have hwr : w r = ((enc r).length : Int) := w_of_node hw hisn
      have hbuf1 : buf ++ enc r = B ++ encRel enc n (pf ++ [r]) := by
        rw [hbuf, encRel_snoc hpre, List.append_assoc]
      have hunf := sub_unfold hD hisn
      simp only [List.map_cons, List.flatMap_cons, hunf, List.cons_append, List.length_cons] at hlen ⊢
      have hret : ∀ L : List Label,
          (if isEnd t.pats (pf ++ [r]) = true then ret ++ [buf ++ enc r] else ret) ++
            (L.filter (isEnd t.pats)).map (fun m => B ++ encRel enc n m) =
          ret ++ (((pf ++ [r]) :: L).filter (isEnd t.pats)).map (fun m => B ++ encRel enc n m) := by
        intro L
        by_cases he : isEnd t.pats (pf ++ [r]) = true
        · simp only [he, if_true, List.filter_cons, List.map_cons, hbuf1, List.append_assoc,
            List.singleton_append]
        · simp only [he, if_false, List.filter_cons]
          simp
      cases cs with
      | nil =>
        have hk : dkids t.pats (pf ++ [r]) = [] := by simp [dkids, hc]
        simp only [hk, List.flatMap_nil, List.nil_append] at hlen ⊢
        cases fs with
        | nil =>
          simp only [dfsLoop, hc', List.map_nil, List.flatMap_nil]
          rw [← hret []]
          simp
        | cons nxt fs' =>
          obtain ⟨pnxt, hok, hpp, hch'⟩ := hchain
          obtain ⟨s, rfl⟩ := hpp
          have htr : truncate? (buf ++ enc r)
              (((buf ++ enc r).length : Int) - (depth + w r - nxt.depth)) =
              some (B ++ encRel enc n pnxt) := by
            rw [hbuf1, encRel_snoc hpre, encRel_append hok.2.1]
            rw [show B ++ (encRel enc n pnxt ++ s.flatMap enc ++ enc r) =
              (B ++ encRel enc n pnxt) ++ (s.flatMap enc ++ enc r) by simp]
            apply truncate?_append
            rw [hdep, hwr, hok.2.2.2, encRel_append hok.2.1]
            simp only [List.length_append]
            omega
          simp only [dfsLoop, hc', htr]
          have hinv' : Inv t.pats enc n B (nxt :: fs') (B ++ encRel enc n pnxt) :=
            ⟨pnxt, hok, rfl, hch'⟩
          rw [ih _ _ _ hinv' (by omega), ← hret]
      | cons c cs' =>
        have hkids : ∀ r' ∈ c :: cs', IsNode t.pats (pf ++ [r] ++ [r']) :=
          fun r' hr' => (mem_children_iff hc r').1 hr'
        have hd : depth + w r = ((encRel enc n (pf ++ [r])).length : Int) := by
          rw [hdep, hwr, encRel_snoc hpre]; simp only [List.length_append]; omega
        have hpre' : n <+: pf ++ [r] := hpre.trans (List.prefix_append _ _)
        have hnodes := pushFrames_nodes (depth + w r) fs hc
        have hinv' : Inv t.pats enc n B (pushFrames (pf ++ [r]) (depth + w r) (c :: cs') fs)
            (buf ++ enc r) := by
          obtain ⟨cs0, cl, hcl⟩ : ∃ cs0 cl, c :: cs' = cs0 ++ [cl] := by
            rcases List.eq_nil_or_concat (c :: cs') with h | ⟨l, b, h⟩
            · cases h
            · exact ⟨l, b, by rw [h, List.concat_eq_append]⟩
          rw [hcl] at hkids ⊢
          rw [pushFrames_concat]
          refine ⟨pf ++ [r], ⟨rfl, hpre', hkids cl (by simp), hd⟩, hbuf1, ?_⟩
          exact chain_push hpre' hd cs0 fs (fun r' hr' => hkids r' (by simp [hr']))
            (hchain.mono (List.prefix_append _ _))
        simp only [dfsLoop, hc']
        rw [ih _ _ _ hinv' (by rw [hnodes, List.flatMap_append]; omega), hnodes,
          List.flatMap_append, ← hret]

theorem encRel_self (enc : Int → List Nat) (n : Label) : encRel enc n n = [] := by
  simp [encRel]

/-- The DFS below node `n` started as PrefixSearch/FuzzySearch do (children of `n` pushed at depth 0,
buffer holding `B`): no panic, no fuel exhaustion; the strings appended to `ret` are `B ++ bytes of the
path from n to m` for the end nodes `m` of a duplicate-free list `ms` of exactly the proper descendants of `n`. -/
theorem dfsLoop_spec (t : Trie) (w : Int → Int) (enc : Int → List Nat)
    (hw : ∀ p ∈ t.pats, ∀ st ∈ p, w st.1 = ((enc st.1).length : Int))
    (n : Label) (hn : IsNode t.pats n) (cs : List Int) (hcs : t.children n = some cs)
    (B : List Nat) (ret : List (List Nat)) :
    ∃ ms : List Label,
      dfsLoop t w enc (nodeBound t.pats + 1) (pushFrames n 0 cs []) B ret
        = some (ret ++ (ms.filter (isEnd t.pats)).map (fun m => B ++ (m.drop n.length).flatMap enc)) ∧
      ms.Nodup ∧ ∀ m, m ∈ ms ↔ (IsNode t.pats m ∧ n <+: m ∧ m ≠ n) := by
  have hD : ∀ m, IsNode t.pats m → m.length ≤ nodeBound t.pats := fun m h => isNode_length_le h
  have hc : childrenOf t.pats n = some cs := hcs
  obtain ⟨hnd, hmem⟩ := below_spec hD hn
  refine ⟨below t.pats (nodeBound t.pats) n, ?_, hnd, hmem⟩
  have hnodes := pushFrames_nodes (0 : Int) [] hc
  simp only [List.map_nil, List.append_nil] at hnodes
  have hd0 : (0 : Int) = ((encRel enc n n).length : Int) := by simp [encRel_self]
  have hkids : ∀ r ∈ cs, IsNode t.pats (n ++ [r]) := fun r hr => (mem_children_iff hc r).1 hr
  have hinv : Inv t.pats enc n B (pushFrames n 0 cs []) B := by
    rcases List.eq_nil_or_concat cs with h | ⟨cs0, cl, h⟩
    · subst h; simp [pushFrames, Inv]
    · rw [List.concat_eq_append] at h
      subst h
      rw [pushFrames_concat]
      refine ⟨n, ⟨rfl, List.prefix_refl _, hkids cl (by simp), hd0⟩, by simp [encRel_self], ?_⟩
      exact chain_push (List.prefix_refl _) hd0 cs0 [] (fun r hr => hkids r (by simp [hr])) trivial
  have hlen := below_length hD hn
  have h := dfsLoop_sub t w enc hw n B hD (nodeBound t.pats + 1) _ B ret hinv
    (by rw [hnodes]; unfold below at hlen; omega)
  rw [h, hnodes]
  rfl

/-! A concrete state meeting the hypotheses: patterns "ab", "ac", "a", "abd"; start node "a",
buffer "a"; the loop visits c, b, d (last child first) and reports "ac", "ab", "abd". -/
section example_
private def exT : Trie := ⟨[[(97, 1), (98, 1)], [(97, 1), (99, 1)], [(97, 1)], [(97, 1), (98, 1), (100, 1)]], []⟩

example : (∀ p ∈ exT.pats, ∀ st ∈ p, (fun _ => (1 : Int)) st.1 = (((fun r : Int => [r.toNat]) st.1).length : Int)) ∧
    IsNode exT.pats [97] ∧ exT.children [97] = some [98, 99] := by
  refine ⟨fun _ _ _ _ => rfl, by unfold IsNode; decide, by decide⟩

example : dfsLoop exT (fun _ => 1) (fun r => [r.toNat]) (nodeBound exT.pats + 1)
    (pushFrames [97] 0 [98, 99] []) [97] [] = some [[97, 99], [97, 98], [97, 98, 100]] := by decide
end example_

end Golib.C05
