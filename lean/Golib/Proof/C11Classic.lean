/-
C11 — linearizability in its classical form.

From the emitted event trace (`trace`, Proof/C11Hist.lean) the HISTORY `chist` is built: every
operation gets a linearization marker `mark (thread, operation-with-result)` and completed
operations a response `ret`.  Markers: `Push(v)` at its tail publication, a successful
`Pop`/`PopWait` at its successful head CAS, a `Pop`/`PopWait` that returns false at its
return step, `Len` at its load.  The sequence of markers `S` (in history order) is the
total order of the classical definition.  Proved (`Props/C11.lean: c11_linearizable_classical`):
  * `S` is a legal history of the sequential specification `SOp.apply` WITH the observed
    results, from the initial content to the stored content;
  * every completed operation has exactly one marker, carrying its observed result, placed
    after its thread's previous response (≤ its invocation) and not after its own response
    — at every prefix of the history (`csegs`, `CSegOk`); pending operations have at most
    one marker (a `Pop` past its CAS) or none.
Real-time precedence follows the textbook way: if `A` responds before `B` is invoked then
mark(A) ≤ resp(A) < inv(B) ≤ mark(B), so `A` precedes `B` in `S`.

Sequential specification: `push v` appends; `pop (some x)` removes the oldest element, which
must be `x`; `pop none` (a false return) leaves the queue unchanged — the property allows
false when overlapped, the justification of each false return is `c11_false_justified`;
`len n` leaves the queue unchanged and requires `|q| ≤ n` (the property bounds `Len`).
-/
import Golib.Proof.C11Hist

namespace Golib.C11

inductive SOp where
  | push (v : Int)
  | pop (r : Option Int)
  | len (n : Int)
deriving DecidableEq, Repr

abbrev Mark := Nat × SOp

def SOp.apply (q : List Int) : SOp → Option (List Int)
  | .push v => some (q ++ [v])
  | .pop (some x) =>
    match q with
    | y :: r => if y = x then some r else none
    | [] => none
  | .pop none => some q
  | .len n => if (q.length : Int) ≤ n then some q else none

def seqReplay : List Int → List Mark → Option (List Int)
  | q, [] => some q
  | q, m :: ms => (m.2.apply q).bind fun q' => seqReplay q' ms

theorem seqReplay_append {q0 : List Int} {l1 l2 : List Mark} :
    seqReplay q0 (l1 ++ l2) = (seqReplay q0 l1).bind fun q => seqReplay q l2 := by
  induction l1 generalizing q0 with
  | nil => rfl
  | cons a l1 ih =>
    simp only [List.cons_append, seqReplay]
    cases a.2.apply q0 with
    | none => rfl
    | some q => simp only [Option.bind_some]; exact ih

def Lin.mark : Lin → Mark
  | .push j v => (j, .push v)
  | .pop j x => (j, .pop (some x))

/-- markers contributed by one trace event -/
def cmarks : TEv → List Mark
  | .lin l => [l.mark]
  | .ret j (.pop _ false) => [(j, .pop none)]
  | .ret j (.len n) => [(j, .len n)]
  | _ => []

/-- the total order: operations in the order of their linearization markers -/
def linearization (s : State) (σ : List Nat) : List Mark := (trace s σ).flatMap cmarks

theorem linearization_cons (s : State) (i : Nat) (σ : List Nat) :
    linearization s (i :: σ) = (evs s i).flatMap cmarks ++ linearization (step .addThenStore s i).1 σ := by
  simp [linearization, trace, List.flatMap_append]

/-- a `Len` return reports the counter and the step does not touch the abstract queue -/
theorem ret_len {s : State} {g : Ghost} {i : Nat} {n : Int}
    (h : (step .addThenStore s i).2.ret = some (.len n)) :
    n = s.len ∧ (gstep s g i).q = g.q ∧ linOf s i = none := by
  unfold step at h
  unfold gstep linOf
  cases hth : s.threads[i]? with
  | none => rw [hth] at h; simp at h
  | some th =>
    rw [hth] at h
    dsimp only at h ⊢
    cases hpc : th.pc <;> rw [hpc] at h <;> dsimp only at h ⊢ <;>
      (try unfold State.popFail at h) <;> (try (repeat' split at h)) <;>
      (try (repeat' split)) <;> simp_all

/-- a false return: the step does not touch the abstract queue -/
theorem ret_false {s : State} {g : Ghost} {i : Nat} {v : Int}
    (h : (step .addThenStore s i).2.ret = some (.pop v false)) :
    (gstep s g i).q = g.q ∧ linOf s i = none := by
  unfold step at h
  unfold gstep linOf
  cases hth : s.threads[i]? with
  | none => rw [hth] at h; simp at h
  | some th =>
    rw [hth] at h
    dsimp only at h ⊢
    cases hpc : th.pc <;> rw [hpc] at h <;> dsimp only at h ⊢ <;>
      (try unfold State.popFail at h) <;> (try (repeat' split at h)) <;>
      (try (repeat' split)) <;> simp_all

theorem q_len_le {s : State} {g : Ghost} (hG : GInv s g) : (g.q.length : Int) ≤ s.len := by
  have h1 := stored_length hG.inv
  rw [stored_eq_q hG] at h1
  have h2 := hG.inv.len_eq
  have h3 := hG.inv.head_le_tail
  omega

theorem lin_apply_mark (q : List Int) (l : Lin) : l.mark.2.apply q = l.apply q := by
  cases l with
  | push j v => rfl
  | pop j x => cases q <;> rfl

theorem seqReplay_lin (q : List Int) (o : Option Lin) :
    seqReplay q ((o.toList.map TEv.lin).flatMap cmarks) = Lin.applyOpt q o := by
  cases o with
  | none => rfl
  | some l =>
    simp only [Option.toList, List.map_cons, List.map_nil, List.flatMap_cons, List.flatMap_nil,
      cmarks, List.append_nil, seqReplay, Lin.applyOpt]
    rw [lin_apply_mark]
    cases l.apply q <;> rfl

theorem seq_step {s : State} {g : Ghost} (hG : GInv s g) (i : Nat) :
    seqReplay g.q ((evs s i).flatMap cmarks) = some (gstep s g i).q := by
  have hlin := lin_step hG i
  unfold evs
  rw [List.flatMap_append, seqReplay_append, seqReplay_lin, hlin, Option.bind_some]
  cases hr : (step .addThenStore s i).2.ret with
  | none => rfl
  | some r =>
    cases r with
    | len n =>
      obtain ⟨hn, hq, _⟩ := ret_len (g := g) hr
      have := q_len_le hG
      subst hn
      simp [hq, seqReplay, cmarks, SOp.apply, this]
    | pop v ok =>
      cases ok with
      | false => simp [seqReplay, cmarks, SOp.apply]
      | true => simp [seqReplay, cmarks]
    | push => simp [seqReplay, cmarks]
    | panic => simp [seqReplay, cmarks]

theorem seqReplay_gen {s : State} {g : Ghost} (hG : GInv s g) (σ : List Nat) :
    seqReplay g.q (linearization s σ) = some (lrun s g σ).2.q := by
  induction σ generalizing s g with
  | nil => rfl
  | cons i σ ih =>
    rw [linearization_cons, seqReplay_append, seq_step hG i, Option.bind_some, lrun]
    exact ih (ginv_step hG i)

/-- The marker order is a legal sequential history with the observed results. -/
theorem seqReplay_linearization (vals : List Int) (progs : List (List Call)) (σ : List Nat) :
    seqReplay vals (linearization (init vals progs) σ)
      = some (stored (run .addThenStore (init vals progs) σ).1) := by
  have h := seqReplay_gen (ginv_init vals progs) σ
  have hG := ginv_lrun (ginv_init vals progs) σ
  rw [← lrun_fst (init vals progs) (ginit vals progs) σ, stored_eq_q hG]
  exact h

/-! ### the history: markers and responses -/

inductive CEv where
  | mark (m : Mark)
  | ret (tid : Nat) (r : Ret)
deriving DecidableEq, Repr

def cev : TEv → List CEv
  | .lin l => [.mark l.mark]
  | .ret j r => (cmarks (.ret j r)).map CEv.mark ++ [.ret j r]

def chist (es : List TEv) : List CEv := es.flatMap cev

def CEv.mark? : CEv → Option Mark
  | .mark m => some m
  | .ret _ _ => none

theorem chist_marks (es : List TEv) : (chist es).filterMap CEv.mark? = es.flatMap cmarks := by
  induction es with
  | nil => rfl
  | cons e es ih =>
    simp only [chist, List.flatMap_cons, List.filterMap_append] at ih ⊢
    rw [ih]
    congr 1
    cases e with
    | lin l => simp [cev, cmarks, CEv.mark?]
    | ret j r =>
      cases r with
      | pop v ok => cases ok <;> simp [cev, cmarks, CEv.mark?]
      | _ => simp [cev, cmarks, CEv.mark?]

/-- Thread `j`'s completed operations in order, each with the markers placed since the
thread's previous response. -/
def csegs (j : Nat) : List Mark → List CEv → List (List Mark × Ret)
  | _, [] => []
  | acc, .mark m :: es => if m.1 = j then csegs j (acc ++ [m]) es else csegs j acc es
  | acc, .ret k r :: es => if k = j then (acc, r) :: csegs j [] es else csegs j acc es

/-- exactly one marker, carrying the observed result -/
def CSegOk (j : Nat) : List Mark × Ret → Prop
  | (ms, .push) => ∃ v, ms = [(j, .push v)]
  | (ms, .pop x true) => ms = [(j, .pop (some x))]
  | (ms, .pop _ false) => ms = [(j, .pop none)]
  | (ms, .len n) => ms = [(j, .len n)]
  | (_, .panic) => False

def extra (j : Nat) : Ret → List Mark
  | .pop _ false => [(j, .pop none)]
  | .len n => [(j, .len n)]
  | _ => []

theorem mark_tid (l : Lin) : l.mark.1 = l.tid := by cases l <;> rfl

theorem csegs_chist (j : Nat) (acc : List Lin) (es : List TEv) :
    csegs j (acc.map Lin.mark) (chist es) =
      (segs j acc es).map fun sg => (sg.1.map Lin.mark ++ extra j sg.2, sg.2) := by
  induction es generalizing acc with
  | nil => rfl
  | cons e es ih =>
    cases e with
    | lin l =>
      simp only [chist, List.flatMap_cons, cev, List.singleton_append, csegs, segs, mark_tid]
      split
      · have := ih (acc ++ [l])
        simp only [chist, List.map_append, List.map_cons, List.map_nil] at this
        exact this
      · exact ih acc
    | ret k r =>
      have hmk : ∀ (a : List Mark) (rest : List CEv),
          csegs j a ((cmarks (.ret k r)).map CEv.mark ++ [.ret k r] ++ rest) =
            if k = j then (a ++ extra j r, r) :: csegs j [] rest else csegs j a rest := by
        intro a rest
        cases r with
        | pop v ok =>
          cases ok <;> by_cases e : k = j <;> simp [cmarks, csegs, extra, e]
        | len n => by_cases e : k = j <;> simp [cmarks, csegs, extra, e]
        | push => by_cases e : k = j <;> simp [cmarks, csegs, extra, e]
        | panic => by_cases e : k = j <;> simp [cmarks, csegs, extra, e]
      simp only [chist, List.flatMap_cons, cev, segs]
      rw [hmk]
      split
      · have := ih []
        simp only [chist, List.map_nil] at this
        simp only [List.map_cons]
        rw [this]
      · exact ih acc

theorem csegs_ok {j : Nat} {st st' : List Call × Phase} {es : List TEv}
    (h : accepts j st es = some st') (hidle : st.2 = .idle) :
    ∀ sg ∈ csegs j [] (chist es), CSegOk j sg := by
  have hs := segs_ok h
  have hacc : accOf j st = [] := by simp [accOf, hidle]
  rw [hacc] at hs
  have := csegs_chist j [] es
  simp only [List.map_nil] at this
  rw [this]
  intro sg hsg
  obtain ⟨sg0, h0, rfl⟩ := List.mem_map.mp hsg
  have hk := hs sg0 h0
  obtain ⟨ls, r⟩ := sg0
  cases r with
  | push => obtain ⟨v, rfl⟩ := hk; exact ⟨v, by simp [extra, Lin.mark]⟩
  | pop x ok =>
    cases ok with
    | true => simp only [SegOk] at hk; subst hk; simp [CSegOk, extra, Lin.mark]
    | false => simp only [SegOk] at hk; subst hk; simp [CSegOk, extra]
  | len n => simp only [SegOk] at hk; subst hk; simp [CSegOk, extra]
  | panic => exact hk.elim

/-- prefixes of an accepted event sequence are accepted -/
theorem accepts_prefix {j : Nat} {st st' : List Call × Phase} {e1 e2 : List TEv}
    (h : accepts j st (e1 ++ e2) = some st') : ∃ st1, accepts j st e1 = some st1 := by
  rw [accepts_append] at h
  cases h1 : accepts j st e1 with
  | none => rw [h1] at h; simp at h
  | some st1 => exact ⟨st1, rfl⟩

end Golib.C11
