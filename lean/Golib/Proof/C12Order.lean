/-
C12 — the critical-section-entry log only grows: the sequential witness order of
`c12_atomic` respects real time (helper lemmas for `c12_realtime_order`).
-/
import Golib.Model.C12Conc

namespace Golib.C12

variable {σ μ : Type}

theorem Step.order_prefix {c c' : Conf σ μ} (hs : Step c c') : c.order <+: c'.order := by
  cases hs with | mk t a as hrest hen =>
  simp only [Conf.after]
  split
  · exact List.prefix_append _ _
  · exact List.prefix_refl _

theorem Reach.order_prefix {c₁ c₂ : Conf σ μ} (hr : Reach c₁ c₂) : c₁.order <+: c₂.order := by
  induction hr with
  | refl => exact List.prefix_refl _
  | step _ hs ih => exact ih.trans hs.order_prefix

theorem Reach.trans {c₀ c₁ c₂ : Conf σ μ} (h₁ : Reach c₀ c₁) (h₂ : Reach c₁ c₂) : Reach c₀ c₂ := by
  induction h₂ with
  | refl => exact h₁
  | step _ hs ih => exact Reach.step ih hs

end Golib.C12
