/-
The top-level call of `GetMaximalCliques`: `X = P[:0]` shares the array of `P`.
The loop on the shared array (`bkTopLoop`) writes `arr[k] := v` where `v` was just read
from `arr[k]`, so the array never changes and the loop is the value-level loop `bkLoop`.
-/
import Golib.Model.C18Graph

namespace Golib.C18

variable {V : Type} (nb : V → V → Bool)

/-- The in-place `append(X, v)` at the top level overwrites a cell with its own value. -/
theorem set_self_of_getElem? {arr : List V} {k : Nat} {v : V} (h : arr[k]? = some v) :
    arr.set k v = arr := by
  obtain ⟨hk, rfl⟩ := List.getElem?_eq_some_iff.mp h
  exact List.set_getElem_self hk

theorem bkTopLoop_eq (fuel : Nat) : ∀ (steps k : Nat) (arr : List V), k + steps = arr.length →
    bkTopLoop nb fuel steps k arr =
      (bkLoop nb (bk nb fuel) [] (arr.drop k) (arr.take k)).map (fun cs => (cs, arr)) := by
  intro steps
  induction steps with
  | zero =>
    intro k arr h
    have : arr.drop k = [] := List.drop_eq_nil_of_le (by omega)
    simp [bkTopLoop, this, bkLoop]
  | succ steps ih =>
    intro k arr h
    have hk : k < arr.length := by omega
    have hv : arr[k]? = some arr[k] := List.getElem?_eq_getElem hk
    have hd : arr.drop k = arr[k] :: arr.drop (k + 1) := List.drop_eq_getElem_cons hk
    have ht : arr.take (k + 1) = arr.take k ++ [arr[k]] := by
      rw [List.take_add_one, hv]; rfl
    simp only [bkTopLoop, hv, set_self_of_getElem? hv]
    rw [ih (k + 1) arr (by omega), ht]
    conv => rhs; rw [hd]
    simp only [bkLoop, List.nil_append]
    rw [← hd]
    cases bk nb fuel [arr[k]] (isect nb (arr.drop k) arr[k]) (isect nb (arr.take k) arr[k]) with
    | none => rfl
    | some a =>
      simp only []
      cases bkLoop nb (bk nb fuel) [] (arr.drop (k + 1)) (arr.take k ++ [arr[k]]) with
      | none => rfl
      | some b => rfl

theorem bkTop_eq (P : List V) :
    bkTop nb P = (bk nb (P.length + 2) [] P []).map (fun cs => (cs, P)) := by
  unfold bkTop
  cases P with
  | nil => simp [bk]
  | cons v P' =>
    have := bkTopLoop_eq nb ((v :: P').length + 1) (v :: P').length 0 (v :: P') (by simp)
    simp only [List.isEmpty_cons, Bool.false_eq_true, if_false] at this ⊢
    rw [this]
    simp [bk]

end Golib.C18
