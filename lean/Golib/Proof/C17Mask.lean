/-
C17: the index-finding loop of `Mask` on an encoded rune list, and `Mask` itself.
-/
import Golib.Proof.C17Strs

namespace Golib.C17
open Golib.Utf8

/-- Byte offset at which rune index `a` begins, as the loop records it: when the loop is at
byte `cur` with `cnt` runes counted and `rs` still ahead; `d` if index `a` is not met. -/
def pos (cur cnt : Nat) (rs : List Int) (a d : Nat) : Nat :=
  if cnt ≤ a ∧ a < cnt + rs.length then cur + (encode (rs.take (a - cnt))).length else d

theorem pos_nil (cur cnt a d : Nat) : pos cur cnt [] a d = d := by
  unfold pos; rw [if_neg]; simp only [List.length_nil]; omega

theorem pos_cons (cur cnt : Nat) (r : Int) (rs : List Int) (a d : Nat) :
    pos (cur + (encodeRune r).length) (cnt + 1) rs a (if cnt = a then cur else d)
      = pos cur cnt (r :: rs) a d := by
  unfold pos
  by_cases h1 : cnt = a
  · subst h1
    rw [if_neg (by omega), if_pos rfl, if_pos (by simp)]
    simp [encode_nil]
  · rw [if_neg h1]
    by_cases h2 : cnt + 1 ≤ a ∧ a < cnt + 1 + rs.length
    · rw [if_pos h2, if_pos (by simp only [List.length_cons]; omega)]
      obtain ⟨m, hm⟩ : ∃ m, a - cnt = m + 1 := ⟨a - cnt - 1, by omega⟩
      rw [hm, List.take_succ_cons, encode_cons, List.length_append,
        show a - (cnt + 1) = m by omega]
      omega
    · rw [if_neg h2, if_neg (by simp only [List.length_cons]; omega)]

theorem maskLoop_encode (a e : Nat) (hae : a ≠ e) :
    ∀ (rs : List Int), (∀ r ∈ rs, validRune r = true) →
    ∀ (p : List Nat) (count fuel si ei : Nat), (encode rs).length < fuel →
      maskLoop (p ++ encode rs) a e fuel p.length count si ei
        = some (pos p.length count rs a si, pos p.length count rs e ei) := by
  intro rs
  induction rs with
  | nil =>
    intro _ p count fuel si ei hf
    obtain ⟨f, rfl⟩ : ∃ f, fuel = f + 1 := ⟨fuel - 1, by omega⟩
    rw [maskLoop, if_neg (by simp [encode_nil]), pos_nil, pos_nil]
  | cons r rs ih =>
    intro hv p count fuel si ei hf
    obtain ⟨f, rfl⟩ : ∃ f, fuel = f + 1 := ⟨fuel - 1, by omega⟩
    have hr := hv r (by simp)
    have hf' : (encode rs).length < f := by
      rw [encode_cons, List.length_append] at hf
      have := encodeRune_length_pos r; omega
    rw [maskLoop, if_pos (encode_length_cons_pos _ r rs)]
    simp only []
    rw [encode_cons, advance_encode p (encode rs) r hr]
    simp only []
    have e1 : p ++ (encodeRune r ++ encode rs) = p ++ encodeRune r ++ encode rs := by
      simp [List.append_assoc]
    have e2 : p.length + (encodeRune r).length = (p ++ encodeRune r).length := by simp
    rw [e1, e2, ih (fun x hx => hv x (by simp [hx])) (p ++ encodeRune r) (count + 1) f _ _ hf']
    rw [← e2, ← pos_cons p.length count r rs a si, ← pos_cons p.length count r rs e ei]
    congr 3
    · simp only [Int.natCast_inj]
    · simp only [Int.natCast_inj]
      by_cases h1 : count = a
      · rw [if_pos h1, if_neg (by omega)]
      · rw [if_neg h1]

theorem repeatStr_encode (ms : List Int) (n : Nat) :
    repeatStr (encode ms) n = encode (List.replicate n ms).flatten := by
  induction n with
  | zero => simp [repeatStr, encode_nil]
  | succ n ih =>
    simp only [repeatStr, List.replicate_succ, List.flatten_cons] at ih ⊢
    rw [encode_append, ih]

theorem encode_take_append_drop (rs : List Int) (k : Nat) :
    encode rs = encode (rs.take k) ++ encode (rs.drop k) := by
  rw [← encode_append, List.take_append_drop]

/-- The mask actually inserted: one copy per replaced rune for a single-rune mask. -/
def maskRunes (ms : List Int) (n : Nat) : List Int :=
  if ms.length = 1 then (List.replicate n ms).flatten else ms

theorem mask_encode (rs ms : List Int) (hv : ∀ r ∈ rs, validRune r = true)
    (hm : ∀ r ∈ ms, validRune r = true) (start end_ : Nat) :
    mask (encode rs) (encode ms) start end_ =
      some (if rs.length ≤ start + end_ then encode rs
            else encode (rs.take start ++ maskRunes ms (rs.length - start - end_)
                          ++ rs.drop (rs.length - end_))) := by
  unfold mask
  simp only [runeCount_encode rs hv, runeCount_encode ms hm]
  by_cases h0 : rs.length ≤ start + end_
  · rw [if_pos h0]
    split
    · rfl
    · rw [if_pos (by omega)]
  · rw [if_neg (by omega), if_neg (by omega), if_neg h0]
    have hml : ((rs.length : Int) - start - end_).toNat = rs.length - start - end_ := by omega
    have hmask : (if ms.length = 1 then repeatStr (encode ms) ((rs.length : Int) - start - end_).toNat
        else encode ms) = encode (maskRunes ms (rs.length - start - end_)) := by
      rw [hml]; unfold maskRunes
      split
      · exact repeatStr_encode ms _
      · rfl
    rw [hmask]
    by_cases hall : (rs.length : Int) - start - end_ = rs.length
    · rw [if_pos hall]
      have hs : start = 0 := by omega
      have he : end_ = 0 := by omega
      subst hs; subst he
      simp
    · rw [if_neg hall]
      have hend : (rs.length : Int) - (end_ : Int) = ((rs.length - end_ : Nat) : Int) := by omega
      rw [hend]
      have hloop := maskLoop_encode start (rs.length - end_) (by omega) rs hv [] 0
        ((encode rs).length + 1) 0 0 (by omega)
      simp only [List.nil_append, List.length_nil] at hloop
      rw [hloop]
      simp only []
      -- startIndex
      have hsi : pos 0 0 rs start 0 = (encode (rs.take start)).length := by
        unfold pos; rw [if_pos (by omega)]; simp
      -- endIndex
      have hei : (if pos 0 0 rs (rs.length - end_) 0 = 0 then (encode rs).length
          else pos 0 0 rs (rs.length - end_) 0) = (encode (rs.take (rs.length - end_))).length := by
        by_cases he : end_ = 0
        · subst he
          have hp : pos 0 0 rs (rs.length - 0) 0 = 0 := by
            unfold pos; rw [if_neg (by omega)]
          rw [hp, if_pos rfl]; simp
        · have hp : pos 0 0 rs (rs.length - end_) 0 = (encode (rs.take (rs.length - end_))).length := by
            unfold pos; rw [if_pos (by omega)]; simp
          have hne : (encode (rs.take (rs.length - end_))).length ≠ 0 := by
            obtain ⟨k, hk⟩ : ∃ k, rs.length - end_ = k + 1 := ⟨rs.length - end_ - 1, by omega⟩
            rw [hk]
            cases rs with
            | nil => simp at h0
            | cons r rs =>
              rw [List.take_succ_cons, encode_cons, List.length_append]
              have := encodeRune_length_pos r; omega
          rw [hp, if_neg hne]
      rw [hsi, hei]
      rw [sliceTo_le _ _ (by rw [encode_take_append_drop rs start]; simp)]
      rw [sliceFrom_le _ _ (by rw [encode_take_append_drop rs (rs.length - end_)]; simp)]
      simp only []
      congr 1
      have t1 : (encode rs).take (encode (rs.take start)).length = encode (rs.take start) := by
        conv => lhs; rw [encode_take_append_drop rs start]
        simp
      have t2 : (encode rs).drop (encode (rs.take (rs.length - end_))).length
          = encode (rs.drop (rs.length - end_)) := by
        conv => lhs; rw [encode_take_append_drop rs (rs.length - end_)]
        simp
      rw [t1, t2, encode_append, encode_append]

end Golib.C17
