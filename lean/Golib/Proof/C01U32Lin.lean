/-
C01 — the ghost-queue instrumentation on the 32-bit machine: under BoundedLag the
linearization points of `Conc32` are those of `Conc`, so `c01_linearizable` is a statement
about the 32-bit run.
-/
import Golib.Proof.C01U32Run
import Golib.Proof.C01LinStep
import Golib.Proof.C01Classic

namespace Golib.C01
open Golib.C01.Util

theorem lagRun_append (c : Cfg) (s : State) (σ1 σ2 : List Nat) :
    LagRun c s (σ1 ++ σ2) ↔ LagRun c s σ1 ∧ LagRun c (run c s σ1).1 σ2 := by
  induction σ1 generalizing s with
  | nil => simp [LagRun, run]
  | cons i σ ih =>
    simp only [List.cons_append, LagRun, run, ih]
    exact and_assoc.symm

/-- The ghost update computed from the 32-bit state is the one computed from the ghost
state: a CAS succeeds on the wrapped counters exactly when it succeeds on the unbounded
ones. -/
theorem gstep32 {k : Nat} (hk : k ≤ 31) {s : State} (hI : Inv { M := 0, cap := 2 ^ k } s) (gh : LGhost)
    (i : Nat) (hlag : ∀ th, s.threads[i]? = some th → Lag (2 ^ k) s th.pc) :
    gstep (wrapState s) gh i = gstep s gh i := by
  have hcap31 : 2 ^ k ≤ 2147483648 := by
    have : (2:Nat) ^ k ≤ 2 ^ 31 := Nat.pow_le_pow_right (by omega) hk
    have : (2:Nat) ^ 31 = 2147483648 := by decide
    omega
  have hpos : 0 < 2 ^ k := Nat.pow_pos (by omega)
  unfold gstep
  rw [wrap_threads_get]
  cases hth : s.threads[i]? with
  | none => rfl
  | some th =>
    have hloc := hI.locals th (List.mem_of_getElem? hth)
    have hlg := hlag th hth
    simp only [Option.map_some]
    have hpcw : (wrapThread th).pc = wrapPc th.pc := rfl
    rw [hpcw]
    cases hpc : th.pc with
    | pushCAS v pos seq =>
      simp only [hpc, PcOk] at hloc
      simp only [hpc, Lag] at hlg
      simp only [wrapPc]
      have htl : (wrapState s).tail = s.tail % W32 := rfl
      by_cases hc : s.tail = pos
      · rw [if_pos hc, if_pos (by rw [htl, hc])]
      · rw [if_neg hc, if_neg (by rw [htl]; omega)]
    | popCAS pos seq =>
      simp only [hpc, PcOk] at hloc
      simp only [hpc, Lag] at hlg
      simp only [wrapPc]
      have htl : (wrapState s).head = s.head % W32 := rfl
      by_cases hc : s.head = pos
      · rw [if_pos hc, if_pos (by rw [htl, hc])]
      · rw [if_neg hc, if_neg (by rw [htl]; omega)]
    | _ => rfl

/-- the instrumented runs correspond -/
theorem lrun32 {k : Nat} (hk1 : 1 ≤ k) (hk : k ≤ 31) {s : State}
    (hI : Inv { M := 0, cap := 2 ^ k } s) (gh : LGhost) (σ : List Nat)
    (hl : LagRun { M := 0, cap := 2 ^ k } s σ) :
    lrun { M := W32, cap := 2 ^ k } (wrapState s) gh σ =
      (wrapState (lrun { M := 0, cap := 2 ^ k } s gh σ).1, (lrun { M := 0, cap := 2 ^ k } s gh σ).2) := by
  induction σ generalizing s gh with
  | nil => rfl
  | cons i σ ih =>
    obtain ⟨h1, h2⟩ := hl
    have g := ghost_pow k hk1
    simp only [lrun]
    rw [step32 hk1 hk hI i h1, gstep32 hk hI gh i h1]
    simp only [wrapRes]
    exact ih (inv_step g hI i) _ h2

theorem isFirst_wrap (pc : Pc) : isFirst (wrapPc pc) = isFirst pc := by
  cases pc <;> rfl

/-- clock / log update computed from the 32-bit state = the one computed from the ghost state -/
theorem tstep32 {k : Nat} (hk : k ≤ 31) {s : State} (hI : Inv { M := 0, cap := 2 ^ k } s) (gh : LGhost)
    (tg : TGhost) (i : Nat) (hlag : ∀ th, s.threads[i]? = some th → Lag (2 ^ k) s th.pc) :
    tstep (wrapState s) gh tg i = tstep s gh tg i := by
  have hcap31 : 2 ^ k ≤ 2147483648 := by
    have : (2:Nat) ^ k ≤ 2 ^ 31 := Nat.pow_le_pow_right (by omega) hk
    have : (2:Nat) ^ 31 = 2147483648 := by decide
    omega
  have hpos : 0 < 2 ^ k := Nat.pow_pos (by omega)
  unfold tstep
  rw [wrap_threads_get]
  cases hth : s.threads[i]? with
  | none => rfl
  | some th =>
    have hloc := hI.locals th (List.mem_of_getElem? hth)
    have hlg := hlag th hth
    simp only [Option.map_some]
    have hpcw : (wrapThread th).pc = wrapPc th.pc := rfl
    rw [hpcw]
    cases hpc : th.pc with
    | pushCAS v pos seq =>
      simp only [hpc, PcOk] at hloc
      simp only [hpc, Lag] at hlg
      simp only [wrapPc]
      have htl : (wrapState s).tail = s.tail % W32 := rfl
      by_cases hc : s.tail = pos
      · rw [if_pos hc, if_pos (by rw [htl, hc])]
      · rw [if_neg hc, if_neg (by rw [htl]; omega)]
    | popCAS pos seq =>
      simp only [hpc, PcOk] at hloc
      simp only [hpc, Lag] at hlg
      simp only [wrapPc]
      have htl : (wrapState s).head = s.head % W32 := rfl
      by_cases hc : s.head = pos
      · rw [if_pos hc, if_pos (by rw [htl, hc])]
      · rw [if_neg hc, if_neg (by rw [htl]; omega)]
    | _ => rfl

theorem trun32 {k : Nat} (hk1 : 1 ≤ k) (hk : k ≤ 31) {s : State}
    (hI : Inv { M := 0, cap := 2 ^ k } s) (gh : LGhost) (tg : TGhost) (σ : List Nat)
    (hl : LagRun { M := 0, cap := 2 ^ k } s σ) :
    trun { M := W32, cap := 2 ^ k } (wrapState s) gh tg σ =
      (wrapState (trun { M := 0, cap := 2 ^ k } s gh tg σ).1, (trun { M := 0, cap := 2 ^ k } s gh tg σ).2) := by
  induction σ generalizing s gh tg with
  | nil => rfl
  | cons i σ ih =>
    obtain ⟨h1, h2⟩ := hl
    have g := ghost_pow k hk1
    simp only [trun]
    rw [step32 hk1 hk hI i h1, gstep32 hk hI gh i h1, tstep32 hk hI gh tg i h1]
    simp only [wrapRes]
    exact ih (inv_step g hI i) _ _ h2

end Golib.C01
