/-
C17: functional correctness of the `for range` based functions (RemoveRunes,
SubByDisplay) on encoded rune lists, and validity of encoded rune lists.
-/
import Golib.Proof.C17Strs

namespace Golib.C17
open Golib.Utf8

/-! ### Valid UTF-8 -/

theorem rangeSpec_all_ok (off : Nat) (rs : List Int) (hv : ∀ r ∈ rs, validRune r = true) :
    (rangeSpec off rs).all (fun (_, r, sz) => !(r == runeError && sz == 1)) = true := by
  induction rs generalizing off with
  | nil => rfl
  | cons r rs ih =>
    simp only [rangeSpec, List.all_cons, Bool.and_eq_true]
    refine ⟨?_, ih _ (fun x hx => hv x (by simp [hx]))⟩
    obtain ⟨n, rfl, h1 | h2 | h3 | h4⟩ := validRune_cases r (hv r (by simp))
    · rw [h1.2]; simp [runeError]; omega
    · rw [h2.2.2]; simp
    · rw [h3.2.2.2]; simp
    · rw [h4.2.2]; simp

/-- `string(rs)` is valid UTF-8 when every rune is a valid scalar value. -/
theorem valid_encode (rs : List Int) (hv : ∀ r ∈ rs, validRune r = true) : valid (encode rs) = true := by
  rw [valid, rangeDecode_encode rs hv]
  exact rangeSpec_all_ok 0 rs hv

/-! ### RemoveRunes -/

theorem removeLoop_started (s : List Nat) (p : Int → Bool) (rs : List Int) :
    ∀ (off : Nat) (b : List Nat),
      removeLoop s p (rangeSpec off rs) (some b) = some (some (b ++ encode (rs.filter (fun r => !p r)))) := by
  induction rs with
  | nil => intro off b; simp [rangeSpec, removeLoop, encode_nil]
  | cons r rs ih =>
    intro off b
    rw [rangeSpec, removeLoop, ih]
    by_cases hp : p r = true
    · simp [hp]
    · simp [hp, encode_cons, List.append_assoc]

theorem removeLoop_lazy (p : Int → Bool) (rs : List Int) :
    ∀ (pre : List Nat),
      removeLoop (pre ++ encode rs) p (rangeSpec pre.length rs) none =
        some (if rs.any p then some (pre ++ encode (rs.filter (fun r => !p r))) else none) := by
  induction rs with
  | nil => intro pre; simp [rangeSpec, removeLoop]
  | cons r rs ih =>
    intro pre
    rw [rangeSpec, removeLoop]
    by_cases hp : p r = true
    · rw [if_pos hp, sliceTo_le _ _ (by simp)]
      simp only []
      rw [removeLoop_started]
      simp [hp]
    · rw [if_neg hp]
      have e1 : pre ++ encode (r :: rs) = (pre ++ encodeRune r) ++ encode rs := by
        simp [encode_cons, List.append_assoc]
      have e2 : pre.length + (encodeRune r).length = (pre ++ encodeRune r).length := by simp
      rw [e1, e2, ih]
      simp [hp, encode_cons, List.append_assoc]

theorem removeRunes_encode (rs : List Int) (hv : ∀ r ∈ rs, validRune r = true) (p : Int → Bool) :
    removeRunes (encode rs) p = some (encode (rs.filter (fun r => !p r))) := by
  unfold removeRunes
  rw [rangeDecode_encode rs hv]
  have := removeLoop_lazy p rs []
  simp only [List.nil_append, List.length_nil] at this
  rw [this]
  by_cases ha : rs.any p = true
  · simp [ha]
  · simp only [ha]
    have : rs.filter (fun r => !p r) = rs := by
      rw [List.filter_eq_self]
      intro a hm
      simp only [List.any_eq_true, not_exists, not_and] at ha
      simpa using ha a hm
    simp [this]

/-! ### SubByDisplay -/

/-- Display width of a rune: 1 for ASCII, 2 otherwise. -/
def runeWidth (r : Int) : Int := if r < 0x80 then 1 else 2

/-- Display width of a rune list. -/
def width : List Int → Int
  | [] => 0
  | r :: rs => runeWidth r + width rs

/-- Number of leading runes that fit when `dpl` columns are already used. -/
def fit (L : Int) : Int → List Int → Nat
  | _, [] => 0
  | dpl, r :: rs => if dpl + runeWidth r > L then 0 else 1 + fit L (dpl + runeWidth r) rs

theorem width_nonneg (rs : List Int) : 0 ≤ width rs := by
  induction rs with
  | nil => simp [width]
  | cons r rs ih => simp only [width, runeWidth]; split <;> omega

theorem fit_spec (L : Int) (rs : List Int) :
    ∀ dpl : Int, fit L dpl rs ≤ rs.length ∧
      (dpl ≤ L → dpl + width (rs.take (fit L dpl rs)) ≤ L) ∧
      (∀ j, j ≤ rs.length → dpl + width (rs.take j) ≤ L → j ≤ fit L dpl rs) := by
  induction rs with
  | nil => intro dpl; simp [fit, width]
  | cons r rs ih =>
    intro dpl
    rw [fit]
    by_cases hc : dpl + runeWidth r > L
    · rw [if_pos hc]
      refine ⟨by simp, by simp [width], ?_⟩
      intro j hj hw
      cases j with
      | zero => omega
      | succ j =>
        simp only [List.take_succ_cons, width] at hw
        have := width_nonneg (rs.take j)
        omega
    · rw [if_neg hc]
      obtain ⟨h1, h2, h3⟩ := ih (dpl + runeWidth r)
      refine ⟨by simp; omega, ?_, ?_⟩
      · intro _
        rw [Nat.add_comm 1, List.take_succ_cons, width]
        have := h2 (by omega); omega
      · intro j hj hw
        cases j with
        | zero => omega
        | succ j =>
          simp only [List.take_succ_cons, width] at hw
          have := h3 j (by simpa using hj) (by omega)
          omega

theorem subByDisplayLoop_encode (L : Int) (rs : List Int) :
    ∀ (pre : List Nat) (dpl : Int),
      subByDisplayLoop (pre ++ encode rs) L (rangeSpec pre.length rs) dpl =
        some (pre ++ encode (rs.take (fit L dpl rs))) := by
  induction rs with
  | nil => intro pre dpl; simp [rangeSpec, subByDisplayLoop, fit, encode_nil]
  | cons r rs ih =>
    intro pre dpl
    simp only [rangeSpec, subByDisplayLoop, fit]
    have hw : (if r < 0x80 then dpl + 1 else dpl + 2) = dpl + runeWidth r := by
      unfold runeWidth; split <;> rfl
    rw [hw]
    by_cases hc : dpl + runeWidth r > L
    · rw [if_pos hc, if_pos hc, sliceTo_le _ _ (by simp)]
      simp [encode_nil]
    · rw [if_neg hc, if_neg hc]
      have e1 : pre ++ encode (r :: rs) = (pre ++ encodeRune r) ++ encode rs := by
        simp [encode_cons, List.append_assoc]
      have e2 : pre.length + (encodeRune r).length = (pre ++ encodeRune r).length := by simp
      rw [e1, e2, ih, Nat.add_comm 1, List.take_succ_cons]
      simp [encode_cons, List.append_assoc]

theorem width_le_encode_length (rs : List Int) (hv : ∀ r ∈ rs, validRune r = true) :
    width rs ≤ (encode rs).length := by
  induction rs with
  | nil => simp [width, encode_nil]
  | cons r rs ih =>
    have := ih (fun x hx => hv x (by simp [hx]))
    rw [encode_cons, List.length_append, width, runeWidth]
    obtain ⟨n, rfl, h1 | h2 | h3 | h4⟩ := validRune_cases r (hv r (by simp))
    · rw [h1.2]; split <;> simp <;> omega
    · rw [h2.2.2]; split <;> simp <;> omega
    · rw [h3.2.2.2]; split <;> simp <;> omega
    · rw [h4.2.2]; split <;> simp <;> omega

/-! ### UcFirst / LcFirst -/

theorem ucFirst_encode (r : Int) (rs : List Int) (hr : validRune r = true) :
    ucFirst (encode (r :: rs)) = some (encode ((if 97 ≤ r ∧ r ≤ 122 then r - 32 else r) :: rs)) := by
  obtain ⟨b, t, hbt, h1, h2⟩ := encodeRune_head r hr
  unfold ucFirst
  rw [encode_cons, hbt]
  simp only [List.cons_append, List.length_cons, Nat.add_one_ne_zero, if_false, List.getElem?_cons_zero]
  by_cases hb : 97 ≤ b ∧ b ≤ 122
  · obtain ⟨ht, hrb⟩ := h1 (by omega)
    subst ht; subst hrb
    rw [if_pos hb, if_pos (by omega)]
    have : ((b : Int) - 32) = ((b - 32 : Nat) : Int) := by omega
    rw [encode_cons, this, encodeRune_1 _ (by omega)]
    simp [sliceFrom]
  · rw [if_neg hb]
    have : ¬ (97 ≤ r ∧ r ≤ 122) := by
      by_cases hb80 : b < 0x80
      · have := (h1 hb80).2; omega
      · have := h2 hb80; omega
    rw [if_neg this, encode_cons, hbt]
    simp

theorem lcFirst_encode (r : Int) (rs : List Int) (hr : validRune r = true) :
    lcFirst (encode (r :: rs)) = some (encode ((if 65 ≤ r ∧ r ≤ 90 then r + 32 else r) :: rs)) := by
  obtain ⟨b, t, hbt, h1, h2⟩ := encodeRune_head r hr
  unfold lcFirst
  rw [encode_cons, hbt]
  simp only [List.cons_append, List.length_cons, Nat.add_one_ne_zero, if_false, List.getElem?_cons_zero]
  by_cases hb : 65 ≤ b ∧ b ≤ 90
  · obtain ⟨ht, hrb⟩ := h1 (by omega)
    subst ht; subst hrb
    rw [if_pos hb, if_pos (by omega)]
    have : ((b : Int) + 32) = ((b + 32 : Nat) : Int) := by omega
    rw [encode_cons, this, encodeRune_1 _ (by omega)]
    simp [sliceFrom]
  · rw [if_neg hb]
    have : ¬ (65 ≤ r ∧ r ≤ 90) := by
      by_cases hb80 : b < 0x80
      · have := (h1 hb80).2; omega
      · have := h2 hb80; omega
    rw [if_neg this, encode_cons, hbt]
    simp

end Golib.C17
