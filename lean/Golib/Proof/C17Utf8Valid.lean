/-
C17: the converse direction of `Proof/C17Utf8.lean` — a decoding step that is not an
error step consumes exactly the encoding of the (valid) rune it yields, hence every byte
string accepted by `utf8.Valid` is `encode` of its own rune list.  This is what makes
"for every valid UTF-8 string s" and "for s = encode rs, rs valid runes" the same
quantifier.
-/
import Golib.Proof.C17Utf8

namespace Golib.Utf8

theorem leader_cases (b k lo hi : Nat) (h : leader b = some (k, lo, hi)) :
    (k = 1 ∧ b < 0x80) ∨
    (k = 2 ∧ 0xC2 ≤ b ∧ b ≤ 0xDF ∧ lo = 0x80 ∧ hi = 0xBF) ∨
    (k = 3 ∧ 0xE0 ≤ b ∧ b ≤ 0xEF ∧ (b = 0xE0 → lo = 0xA0) ∧ (b ≠ 0xE0 → lo = 0x80) ∧
       (b = 0xED → hi = 0x9F) ∧ (b ≠ 0xED → hi = 0xBF)) ∨
    (k = 4 ∧ 0xF0 ≤ b ∧ b ≤ 0xF4 ∧ (b = 0xF0 → lo = 0x90) ∧ (b ≠ 0xF0 → lo = 0x80) ∧
       (b = 0xF4 → hi = 0x8F) ∧ (b ≠ 0xF4 → hi = 0xBF)) := by
  unfold leader at h
  repeat' split at h
  all_goals simp only [Option.some.injEq, Prod.mk.injEq, reduceCtorEq] at h
  all_goals omega


theorem isCont_iff (x : Nat) : isCont x = true ↔ 0x80 ≤ x ∧ x ≤ 0xBF := by
  simp [isCont]

/-- A decoding step that is not an error step yields a valid rune whose encoding is
exactly the consumed bytes. -/
theorem decodeRune_ok (b : Nat) (t : List Nat) (r : Int) (sz : Nat)
    (h : decodeRune (b :: t) = (r, sz)) (hok : ¬ (r = runeError ∧ sz = 1)) :
    validRune r = true ∧ b :: t = encodeRune r ++ (b :: t).drop sz ∧ sz = (encodeRune r).length := by
  cases hl : leader b with
  | none => simp [decodeRune, hl] at h; exact absurd ⟨h.1.symm, h.2.symm⟩ hok
  | some v =>
    obtain ⟨k, lo, hi⟩ := v
    rcases leader_cases b k lo hi hl with ⟨rfl, hb⟩ | ⟨rfl, h1, h2, rfl, rfl⟩ | ⟨rfl, h1, h2, l1, l2, u1, u2⟩ |
      ⟨rfl, h1, h2, l1, l2, u1, u2⟩
    · simp only [decodeRune, hl, Prod.mk.injEq] at h
      obtain ⟨rfl, rfl⟩ := h
      refine ⟨by rw [validRune_iff]; omega, ?_, ?_⟩ <;> rw [encodeRune_1 b hb] <;> simp
    · rcases t with _ | ⟨b1, t⟩
      · simp [decodeRune, hl] at h; exact absurd ⟨h.1.symm, h.2.symm⟩ hok
      · simp only [decodeRune, hl] at h
        split at h
        · rename_i hc
          simp only [Prod.mk.injEq] at h
          obtain ⟨rfl, rfl⟩ := h
          have e := encodeRune_2 (b % 32 * 64 + b1 % 64) (by omega) (by omega)
          refine ⟨by rw [validRune_iff]; omega, ?_, ?_⟩
          · rw [e]; simp; omega
          · rw [e]; simp
        · simp at h; exact absurd ⟨h.1.symm, h.2.symm⟩ hok
    · rcases t with _ | ⟨b1, _ | ⟨b2, t⟩⟩
      · simp [decodeRune, hl] at h; exact absurd ⟨h.1.symm, h.2.symm⟩ hok
      · simp [decodeRune, hl] at h; exact absurd ⟨h.1.symm, h.2.symm⟩ hok
      · simp only [decodeRune, hl] at h
        split at h
        · rename_i hc
          simp only [Prod.mk.injEq] at h
          obtain ⟨rfl, rfl⟩ := h
          have hc3 := (isCont_iff b2).mp hc.2.2
          have hlo : 0x80 ≤ b1 ∧ b1 ≤ 0xBF ∧ (b = 0xE0 → 0xA0 ≤ b1) ∧ (b = 0xED → b1 ≤ 0x9F) := by
            have hc1 := hc.1
            have hc2 := hc.2.1
            by_cases c1 : b = 0xE0 <;> by_cases c2 : b = 0xED <;>
              first
              | omega
              | (have := l1 c1; have := u2 c2; omega)
              | (have := l2 c1; have := u1 c2; omega)
              | (have := l2 c1; have := u2 c2; omega)
          have e := encodeRune_3 (b % 16 * 4096 + b1 % 64 * 64 + b2 % 64) (by omega) (by omega) (by omega)
          refine ⟨by rw [validRune_iff]; omega, ?_, ?_⟩
          · rw [e]; simp; omega
          · rw [e]; simp
        · simp at h; exact absurd ⟨h.1.symm, h.2.symm⟩ hok
    · rcases t with _ | ⟨b1, _ | ⟨b2, _ | ⟨b3, t⟩⟩⟩
      · simp [decodeRune, hl] at h; exact absurd ⟨h.1.symm, h.2.symm⟩ hok
      · simp [decodeRune, hl] at h; exact absurd ⟨h.1.symm, h.2.symm⟩ hok
      · simp [decodeRune, hl] at h; exact absurd ⟨h.1.symm, h.2.symm⟩ hok
      · simp only [decodeRune, hl] at h
        split at h
        · rename_i hc
          simp only [Prod.mk.injEq] at h
          obtain ⟨rfl, rfl⟩ := h
          have hc3 := (isCont_iff b2).mp hc.2.2.1
          have hc4 := (isCont_iff b3).mp hc.2.2.2
          have hlo : 0x80 ≤ b1 ∧ b1 ≤ 0xBF ∧ (b = 0xF0 → 0x90 ≤ b1) ∧ (b = 0xF4 → b1 ≤ 0x8F) := by
            have hc1 := hc.1
            have hc2 := hc.2.1
            by_cases c1 : b = 0xF0 <;> by_cases c2 : b = 0xF4 <;>
              first
              | omega
              | (have := l1 c1; have := u2 c2; omega)
              | (have := l2 c1; have := u1 c2; omega)
              | (have := l2 c1; have := u2 c2; omega)
          have e := encodeRune_4 (b % 8 * 262144 + b1 % 64 * 4096 + b2 % 64 * 64 + b3 % 64) (by omega) (by omega)
          refine ⟨by rw [validRune_iff]; omega, ?_, ?_⟩
          · rw [e]; simp; omega
          · rw [e]; simp
        · simp at h; exact absurd ⟨h.1.symm, h.2.symm⟩ hok


theorem rangeDecode_go_valid :
    ∀ (fuel off : Nat) (bs : List Nat), bs.length ≤ fuel →
      (rangeDecode.go fuel off bs).all (fun (_, r, sz) => !(r == runeError && sz == 1)) = true →
      (∀ r ∈ (rangeDecode.go fuel off bs).map (·.2.1), validRune r = true) ∧
      encode ((rangeDecode.go fuel off bs).map (·.2.1)) = bs := by
  intro fuel
  induction fuel with
  | zero =>
    intro off bs hl _
    have : bs = [] := List.length_eq_zero_iff.mp (by omega)
    subst this; simp [rangeDecode.go, encode_nil]
  | succ f ih =>
    intro off bs hl hall
    cases bs with
    | nil => simp [rangeDecode.go, encode_nil]
    | cons b t =>
      have hsz := decodeRune_size b t
      simp only [rangeDecode.go] at hall ⊢
      generalize hd : decodeRune (b :: t) = d at hall hsz ⊢
      obtain ⟨r, sz⟩ := d
      simp only [] at hall hsz ⊢
      rw [if_neg (by omega)] at hall ⊢
      simp only [List.all_cons, Bool.and_eq_true] at hall
      have hok : ¬ (r = runeError ∧ sz = 1) := by
        have := hall.1
        simp only [Bool.not_eq_true', Bool.and_eq_false_iff, beq_eq_false_iff_ne, ne_eq] at this
        intro h; rcases this with h1 | h1
        · exact h1 h.1
        · exact h1 h.2
      obtain ⟨hv, heq, hlen⟩ := decodeRune_ok b t r sz hd hok
      have hdl : ((b :: t).drop sz).length ≤ f := by
        simp only [List.length_drop, List.length_cons] at hl ⊢; omega
      obtain ⟨ih1, ih2⟩ := ih (off + sz) ((b :: t).drop sz) hdl hall.2
      refine ⟨?_, ?_⟩
      · intro x hx
        simp only [List.map_cons, List.mem_cons] at hx
        rcases hx with hx | hx
        · subst hx; exact hv
        · exact ih1 x hx
      · simp only [List.map_cons]
        rw [encode_cons, ih2]
        exact heq.symm

/-- Every valid UTF-8 byte string is the encoding of its (valid) rune list: the theorems
stated for `encode rs` cover exactly the valid strings. -/
theorem valid_eq_encode (s : List Nat) (h : valid s = true) :
    (∀ r ∈ runes s, validRune r = true) ∧ encode (runes s) = s :=
  rangeDecode_go_valid s.length 0 s (Nat.le_refl _) h

end Golib.Utf8
