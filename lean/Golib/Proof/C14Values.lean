/-
C14 helper lemmas, part 7: `Values` (fresh array filled with a running index) and
`ChunkProcess` (the calls are a prefix of `Chunk`'s pieces, cut at the first error).
-/
import Golib.Proof.C14Flex

namespace Golib.C14

theorem valuesFill_spec (fn : Int → Int) (vs ret : List Int) (n : Nat) (h : n + vs.length ≤ ret.length) :
    valuesFill fn vs ret n = some (ret.take n ++ vs.map fn ++ ret.drop (n + vs.length), n + vs.length) := by
  induction vs generalizing ret n with
  | nil => simp [valuesFill]
  | cons v vs ih =>
    simp only [List.length_cons] at h
    have hn : n < ret.length := by omega
    simp only [valuesFill, hn, if_true]
    rw [ih (ret.set n (fn v)) (n + 1) (by simp; omega)]
    rw [take_set_succ _ _ _ hn, drop_set_lt _ _ _ _ (by omega)]
    simp only [List.map_cons, List.length_cons, List.append_assoc, List.singleton_append,
      Option.some.injEq, Prod.mk.injEq]
    constructor
    · congr 3; omega
    · omega

theorem valuesLoop_spec (fn : Int → Int) (ss : List (List Int)) (ret : List Int) (n : Nat)
    (h : n + (ss.map List.length).sum ≤ ret.length) :
    valuesLoop fn ss ret n =
      some (ret.take n ++ ss.flatten.map fn ++ ret.drop (n + (ss.map List.length).sum)) := by
  induction ss generalizing ret n with
  | nil => simp [valuesLoop]
  | cons s ss ih =>
    simp only [List.map_cons, List.sum_cons] at h
    simp only [valuesLoop, valuesFill_spec fn s ret n (by omega)]
    rw [ih _ _ (by simp; omega)]
    simp only [List.map_cons, List.sum_cons, List.flatten_cons, List.map_append, Option.some.injEq]
    apply List.ext_getElem?; intro k
    simp only [List.getElem?_append, List.getElem?_take, List.getElem?_drop, List.length_take,
      List.length_append, List.length_map, List.length_drop, List.getElem?_map]
    grind

/-- `Values` never panics and returns `fn` mapped over the concatenation, in fresh memory
(the model's result is a new list by construction: `make([]V, n)`). -/
theorem values_spec (fn : Int → Int) (ss : List (List Int)) :
    values fn ss = some (ss.flatten.map fn) := by
  unfold values
  simp only []
  rw [valuesLoop_spec fn ss _ 0 (by simp)]
  simp

/-! ### ChunkProcess -/

/-- the calls `process` receives when it fails on its `failAt`-th call (0 = never) and the
pieces are `all`; second component: an error was returned -/
def procCalls (all : List (Nat × Nat)) (failAt : Nat) : List (Nat × Nat) × Bool :=
  if 1 ≤ failAt ∧ failAt ≤ all.length then (all.take failAt, true) else (all, false)

theorem length_tiles (start size n : Nat) : (tiles start size n).length = n := by simp [tiles]

theorem chunkProcLoop_spec (len size failAt f start calls : Nat) (acc : List (Nat × Nat))
    (h : start + f * size ≤ len) (hc : failAt = 0 ∨ calls < failAt) :
    chunkProcLoop len size failAt f start calls acc =
      if failAt ≠ 0 ∧ failAt ≤ calls + f then
        some (acc ++ (tiles start size f).take (failAt - calls), start + (failAt - calls) * size, true)
      else some (acc ++ tiles start size f, start + f * size, false) := by
  induction f generalizing start calls acc with
  | zero =>
    have : ¬ (failAt ≠ 0 ∧ failAt ≤ calls + 0) := by omega
    rw [if_neg this]
    simp [chunkProcLoop, tiles]
  | succ f ih =>
    have hmul : (f + 1) * size = f * size + size := by rw [Nat.add_mul, Nat.one_mul]
    have h1 : start + size ≤ len := by omega
    simp only [chunkProcLoop, h1, if_true]
    by_cases he : calls + 1 = failAt
    · have hcond : failAt ≠ 0 ∧ failAt ≤ calls + (f + 1) := by omega
      have hk : failAt - calls = 1 := by omega
      rw [if_pos he, if_pos hcond, hk, tiles_succ]
      simp
    · rw [if_neg he, ih (start + size) (calls + 1) _ (by omega) (by omega)]
      by_cases hcond : failAt ≠ 0 ∧ failAt ≤ calls + (f + 1)
      · have hcond' : failAt ≠ 0 ∧ failAt ≤ calls + 1 + f := by omega
        have hk : failAt - calls = (failAt - (calls + 1)) + 1 := by omega
        rw [if_pos hcond, if_pos hcond', hk]
        generalize failAt - (calls + 1) = k
        rw [tiles_succ, List.take_succ_cons, Nat.add_mul, Nat.one_mul]
        simp only [List.append_assoc, List.singleton_append, Option.some.injEq, Prod.mk.injEq, true_and,
          and_true]
        omega
      · have hcond' : ¬ (failAt ≠ 0 ∧ failAt ≤ calls + 1 + f) := by omega
        rw [if_neg hcond, if_neg hcond', tiles_succ]
        simp only [List.append_assoc, List.singleton_append, Option.some.injEq, Prod.mk.injEq, true_and,
          and_true]
        omega

/-- the pieces of `Chunk(s, chunkSize)` as views (`[]` for an empty input) -/
def pieces (len : Nat) (chunkSize : Int) : List (Nat × Nat) :=
  if len = 0 then []
  else if chunkSize < 1 ∨ (len : Int) ≤ chunkSize then [(0, len)]
  else chunkViews len chunkSize.toNat

/-- `ChunkProcess` never panics; `process` is called on `Chunk`'s pieces in order and the
iteration stops at (and reports) the first error. -/
theorem chunkProcess_spec (len : Nat) (chunkSize : Int) (failAt : Nat) :
    chunkProcess len chunkSize failAt = some (procCalls (pieces len chunkSize) failAt) := by
  unfold chunkProcess pieces
  by_cases h0 : len = 0
  · have : ¬ (1 ≤ failAt ∧ failAt ≤ ([] : List (Nat × Nat)).length) := by simp; omega
    rw [if_pos h0, if_pos h0, procCalls, if_neg this]
  · rw [if_neg h0, if_neg h0]
    by_cases h1 : chunkSize < 1 ∨ (len : Int) ≤ chunkSize
    · rw [if_pos h1, if_pos h1, procCalls]
      by_cases hf : failAt = 1
      · have : 1 ≤ failAt ∧ failAt ≤ [(0, len)].length := by simp; omega
        rw [if_pos this]; simp [hf]
      · have : ¬ (1 ≤ failAt ∧ failAt ≤ [(0, len)].length) := by simp; omega
        rw [if_neg this]; simp [hf]
    · rw [if_neg h1, if_neg h1]
      simp only []
      have hsz : 1 ≤ chunkSize.toNat := by omega
      generalize chunkSize.toNat = sz at hsz ⊢
      have hdiv := Nat.div_mul_le_self len sz
      rw [chunkProcLoop_spec len sz failAt (len / sz) 0 0 [] (by omega) (by omega)]
      generalize hn : len / sz = n at hdiv ⊢
      simp only [Nat.zero_add, List.nil_append, Nat.sub_zero, chunkViews, hn]
      unfold procCalls
      by_cases hc : failAt ≠ 0 ∧ failAt ≤ n
      · rw [if_pos hc]
        simp only []
        have : 1 ≤ failAt ∧ failAt ≤ (tiles 0 sz n ++
            if len > n * sz then [(n * sz, len - n * sz)] else []).length := by
          simp only [List.length_append, length_tiles]; omega
        rw [if_pos this, List.take_append_of_le_length (by rw [length_tiles]; exact hc.2)]
      · rw [if_neg hc]
        simp only []
        by_cases hrest : len > n * sz
        · rw [if_pos hrest, if_pos hrest]
          simp only [List.length_append, length_tiles, List.length_singleton]
          by_cases hf : n + 1 = failAt
          · have : 1 ≤ failAt ∧ failAt ≤ n + 1 := by omega
            rw [if_pos this, ← hf, List.take_of_length_le (by simp [length_tiles])]
            simp
          · have : ¬ (1 ≤ failAt ∧ failAt ≤ n + 1) := by omega
            rw [if_neg this]; simp [hf]
        · rw [if_neg hrest, if_neg hrest]
          simp only [List.append_nil, length_tiles]
          have : ¬ (1 ≤ failAt ∧ failAt ≤ n) := by omega
          rw [if_neg this]

end Golib.C14
