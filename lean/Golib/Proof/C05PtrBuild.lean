/-
The pointer-level `BuildFailureLinks` (`PTrie.build`, `Golib/Model/C05Ptr.lean`) simulates the
label-level one (`buildFailFrom`, `Golib/Model/C05Trie.lean`) step by step: whenever the label
run succeeds, the pointer run succeeds and the `fail` pointers it writes are the label table
read through the id ↦ label map of `Rep`.
-/
import Golib.Proof.C05PtrRep
import Golib.Proof.C05Bfs

set_option linter.unusedSimpArgs false
set_option linter.unusedVariables false

namespace Golib.C05
open Golib

/-! ### facts about `Rep` -/

theorem Rep.lt_of_lbl {pt : PTrie} {t : Trie} {lbl : List Label} (h : Rep pt t lbl)
    {id : Nat} {l : Label} (hl : lbl[id]? = some l) : id < pt.nodes.length := by
  obtain ⟨hlt, _⟩ := List.getElem?_eq_some_iff.1 hl
  rw [← h.len]; exact hlt

theorem Rep.node_of_lbl {pt : PTrie} {t : Trie} {lbl : List Label} (h : Rep pt t lbl)
    {id : Nat} {l : Label} (hl : lbl[id]? = some l) : ∃ nd, pt.nodes[id]? = some nd :=
  ⟨_, List.getElem?_eq_getElem (h.lt_of_lbl hl)⟩

theorem Rep.lbl_inj {pt : PTrie} {t : Trie} {lbl : List Label} (h : Rep pt t lbl)
    {i j : Nat} {l : Label} (hi : lbl[i]? = some l) (hj : lbl[j]? = some l) : i = j := by
  obtain ⟨hlt, _⟩ := List.getElem?_eq_some_iff.1 hi
  exact (List.getElem?_inj hlt h.nodup).1 (by rw [hi, hj])

/-- pigeonhole on lengths -/
theorem length_of_all_lengths : ∀ (n : Nat) (L : List Label),
    (∀ k, k ≤ n → ∃ x ∈ L, x.length = k) → n + 1 ≤ L.length := by
  intro n
  induction n with
  | zero =>
    intro L hL
    obtain ⟨x, hx, _⟩ := hL 0 (Nat.le_refl _)
    exact List.length_pos_of_mem hx
  | succ n ih =>
    intro L hL
    obtain ⟨x, hx, hxl⟩ := hL (n + 1) (Nat.le_refl _)
    have := ih (L.erase x) (by
      intro k hk
      obtain ⟨y, hy, hyl⟩ := hL k (by omega)
      refine ⟨y, ?_, hyl⟩
      have hne : y ≠ x := by intro he; rw [he] at hyl; omega
      exact (List.mem_erase_of_ne hne).2 hy)
    rw [List.length_erase_of_mem hx] at this
    omega

/-- a node's depth is below the number of nodes (all its prefixes are distinct nodes) -/
theorem Rep.depth_ltB {pt : PTrie} {t : Trie} {lbl : List Label} (h : Rep pt t lbl)
    {l : Label} (hl : l ∈ lbl) : l.length + 1 ≤ lbl.length := by
  apply length_of_all_lengths
  intro k hk
  refine ⟨l.take k, ?_, by rw [List.length_take]; omega⟩
  apply (h.nodes _).1
  have hn : IsNode t.pats (l.take k ++ l.drop k) := by
    rw [List.take_append_drop]; exact (h.nodes l).2 hl
  exact hn.prefix

/-- writing one fail pointer / one table entry keeps `Rep` -/
theorem Rep.set_fail {pt : PTrie} {pats : List (List Step)} {F : FailTab} {lbl : List Label}
    (h : Rep pt ⟨pats, F⟩ lbl) {c tg : Nat} {cd : PNode} {lc ltg : Label}
    (hc : pt.nodes[c]? = some cd) (hlc : lbl[c]? = some lc) (hlt : lbl[tg]? = some ltg) :
    Rep ⟨pt.nodes.set c { cd with fail := some tg }⟩ ⟨pats, (lc, ltg) :: F⟩ lbl := by
  have hclt := h.lt_of_lbl hlc
  refine ⟨by simp only [List.length_set]; exact h.len, h.root, h.nodup, h.nodes, ?_, ?_, ?_⟩
  · intro id nd l h1 h2
    by_cases hid : c = id
    · subst hid
      simp only [List.getElem?_set_self hclt, Option.some.injEq] at h1
      subst h1
      exact h.kids c cd l hc h2
    · simp only [List.getElem?_set_ne hid] at h1
      exact h.kids id nd l h1 h2
  · intro id nd l h1 h2
    by_cases hid : c = id
    · subst hid
      simp only [List.getElem?_set_self hclt, Option.some.injEq] at h1
      subst h1
      rw [hlc] at h2; cases h2
      exact Or.inr ⟨tg, ltg, rfl, hlt, by simp only [Trie.failOf, List.lookup_cons_self]⟩
    · simp only [List.getElem?_set_ne hid] at h1
      have hne : l ≠ lc := by
        intro he; subst he
        exact hid (h.lbl_inj hlc h2)
      have := h.fail id nd l h1 h2
      simp only [Trie.failOf] at this ⊢
      rw [lookup_cons_ne hne]
      exact this
  · intro n hn
    by_cases hne : n = lc
    · subst hne; exact List.mem_of_getElem? hlc
    · simp only [Trie.failOf] at hn
      rw [lookup_cons_ne hne] at hn
      exact h.table n hn

/-! ### the inner `for failNode != nil` walk -/

/-- a label-level optional node and a pointer-level one denote the same node -/
def ORel (lbl : List Label) (sl : Option Label) (sp : Option Nat) : Prop :=
  (sp = none ∧ sl = none) ∨ (∃ f lf, sp = some f ∧ lbl[f]? = some lf ∧ sl = some lf)

def WRel (lbl : List Label) (w : Option (Label × Nat)) (w' : Option (Nat × Nat)) : Prop :=
  (w' = none ∧ w = none) ∨ (∃ m lm idx, w' = some (m, idx) ∧ lbl[m]? = some lm ∧ w = some (lm, idx))

theorem failWalk_sim {pt : PTrie} {pats : List (List Step)} {F : FailTab} {lbl : List Label}
    (h : Rep pt ⟨pats, F⟩ lbl) (r : Int) :
    ∀ (fuel fuel' : Nat) (sl : Option Label) (sp : Option Nat) (w : Option (Label × Nat)),
      fuel ≤ fuel' → ORel lbl sl sp → failWalk pats F r fuel sl = some w →
      ∃ w', pFailWalk pt r fuel' sp = some w' ∧ WRel lbl w w' := by
  intro fuel
  induction fuel with
  | zero => intro fuel' sl sp w _ _ hw; simp only [failWalk] at hw; cases hw
  | succ fuel ih =>
    intro fuel' sl sp w hle hrel hw
    obtain ⟨fuel', rfl⟩ : ∃ k, fuel' = k + 1 := ⟨fuel' - 1, by omega⟩
    rcases hrel with ⟨rfl, rfl⟩ | ⟨m, lm, rfl, hlm, rfl⟩
    · simp only [failWalk, Option.some.injEq] at hw
      subst hw
      exact ⟨none, by simp only [pFailWalk], Or.inl ⟨rfl, rfl⟩⟩
    · obtain ⟨nd, hnd⟩ := h.node_of_lbl hlm
      obtain ⟨hk, _, _, _⟩ := h.kids m nd lm hnd hlm
      simp only [Trie.children] at hk
      simp only [failWalk, hk] at hw
      simp only [pFailWalk, hnd]
      cases hi : index nd.vals r with
      | none => rw [hi] at hw; cases hw
      | some oi =>
        rw [hi] at hw
        cases oi with
        | some idx =>
          simp only [Option.some.injEq] at hw
          subst hw
          exact ⟨_, rfl, Or.inr ⟨m, lm, idx, rfl, hlm, rfl⟩⟩
        | none =>
          simp only at hw ⊢
          exact ih fuel' _ _ w (by omega) (h.fail m nd lm hnd hlm) hw

/-! ### the simulation relation -/

structure Sim (pats : List (List Step)) (lbl : List Label) (ps : PBState) (ls : BState) : Prop where
  rep : Rep ps.pt ⟨pats, ls.F⟩ lbl
  pq : ps.q.Inv
  lq : ls.q.Inv
  /-- the two queues hold the same node sequence (ids on one side, their labels on the other) -/
  qrel : ∃ ids : List Nat, ps.q.content = ids.map ptrLabel ∧
    ls.q.content.map some = ids.map (fun id => lbl[id]?)

/-- the `target?` expression of `processChildren` -/
def targetL (pats : List (List Step)) (w : Option (Label × Nat)) : Option Label :=
  match w with
  | none => some []
  | some (m, idx) =>
    match childrenOf pats m with
    | none => none
    | some cs => (cs[idx]?).map fun v => m ++ [v]

theorem processChildren_cons_inv {pats : List (List Step)} {curr : Label} {r : Int} {rs : List Int}
    {ls ls' : BState} (h : processChildren pats curr (r :: rs) ls = some ls') :
    ∃ w target q', failWalk pats ls.F r (curr.length + 2) (ls.F.lookup curr) = some w ∧
      targetL pats w = some target ∧ ls.q.push (curr ++ [r]) = some q' ∧
      processChildren pats curr rs ⟨q', (curr ++ [r], target) :: ls.F⟩ = some ls' := by
  simp only [processChildren] at h
  cases hw : failWalk pats ls.F r (curr.length + 2) (ls.F.lookup curr) with
  | none => rw [hw] at h; cases h
  | some w =>
    rw [hw] at h
    simp only at h
    change (match targetL pats w with
      | none => none
      | some target =>
        match ls.q.push (curr ++ [r]) with
        | none => none
        | some q' => processChildren pats curr rs ⟨q', (curr ++ [r], target) :: ls.F⟩) = some ls' at h
    cases ht : targetL pats w with
    | none => rw [ht] at h; cases h
    | some target =>
      rw [ht] at h
      simp only at h
      cases hp : ls.q.push (curr ++ [r]) with
      | none => rw [hp] at h; cases h
      | some q' =>
        rw [hp] at h
        exact ⟨w, target, q', rfl, ht, rfl, h⟩

/-- `child.node.fail = target; queue.Push(child.node)` on both sides -/
theorem Sim.push_set {pats : List (List Step)} {lbl : List Label} {ps : PBState} {ls : BState}
    (h : Sim pats lbl ps ls) {c tg : Nat} {cd : PNode} {lc ltg : Label}
    (hc : ps.pt.nodes[c]? = some cd) (hlc : lbl[c]? = some lc) (hlt : lbl[tg]? = some ltg)
    {ql' : Queue} (hpl : ls.q.push lc = some ql') :
    ∃ qp', ps.q.push (ptrLabel c) = some qp' ∧
      Sim pats lbl ⟨qp', ⟨ps.pt.nodes.set c { cd with fail := some tg }⟩⟩ ⟨ql', (lc, ltg) :: ls.F⟩ ∧
      ql'.content = ls.q.content ++ [lc] := by
  obtain ⟨qp', hp1, hp2, hp3⟩ := Queue.push_spec ps.q (ptrLabel c) h.pq
  obtain ⟨ql'', hl1, hl2, hl3⟩ := Queue.push_spec ls.q lc h.lq
  rw [hpl] at hl1; cases hl1
  obtain ⟨ids, hi1, hi2⟩ := h.qrel
  refine ⟨qp', hp1, ⟨h.rep.set_fail hc hlc hlt, hp2, hl2, ids ++ [c], ?_, ?_⟩, hl3⟩
  · simp only [hp3, hi1, List.map_append, List.map_cons, List.map_nil]
  · simp only [hl3, List.map_append, hi2, List.map_cons, List.map_nil, hlc]

/-- the `target?` expression of `pProcessChildren` -/
def targetP (pt : PTrie) (w : Option (Nat × Nat)) : Option Nat :=
  match w with
  | none => some 0
  | some (m, idx) =>
    match pt.nodes[m]? with
    | none => none
    | some mn => (mn.children[idx]?).map (·.2)

theorem target_sim {pt : PTrie} {pats : List (List Step)} {F : FailTab} {lbl : List Label}
    (h : Rep pt ⟨pats, F⟩ lbl) {w : Option (Label × Nat)} {w' : Option (Nat × Nat)}
    (hw : WRel lbl w w') {target : Label} (ht : targetL pats w = some target) :
    ∃ tg, targetP pt w' = some tg ∧ lbl[tg]? = some target := by
  rcases hw with ⟨rfl, rfl⟩ | ⟨m, lm, idx, rfl, hlm, rfl⟩
  · simp only [targetL, Option.some.injEq] at ht
    subst ht
    exact ⟨0, rfl, h.root⟩
  · obtain ⟨mn, hmn⟩ := h.node_of_lbl hlm
    obtain ⟨hk, hch, _, _⟩ := h.kids m mn lm hmn hlm
    simp only [Trie.children] at hk
    simp only [targetL, hk, PNode.vals, List.getElem?_map] at ht
    simp only [targetP, hmn]
    cases hx : mn.children[idx]? with
    | none => rw [hx] at ht; cases ht
    | some vc =>
      obtain ⟨v, c⟩ := vc
      rw [hx] at ht
      simp only [Option.map_some, Option.some.injEq] at ht
      subst ht
      exact ⟨c, rfl, hch v c (List.mem_of_getElem? hx)⟩

theorem processChildren_sim {pats : List (List Step)} {lbl : List Label} {curr : Nat} {lcurr : Label}
    (hcurr : lbl[curr]? = some lcurr) :
    ∀ (kds : List (Int × Nat)) (ps : PBState) (ls ls' : BState), Sim pats lbl ps ls →
      (∀ r c, (r, c) ∈ kds → lbl[c]? = some (lcurr ++ [r])) →
      processChildren pats lcurr (kds.map (·.1)) ls = some ls' →
      ∃ ps', pProcessChildren curr kds ps = some ps' ∧ Sim pats lbl ps' ls' ∧
        ls'.q.content = ls.q.content ++ kids lcurr (kds.map (·.1)) := by
  intro kds
  induction kds with
  | nil =>
    intro ps ls ls' hs _ h
    simp only [List.map_nil, processChildren, Option.some.injEq] at h
    subst h
    exact ⟨ps, rfl, hs, by simp only [kids, List.map_nil, List.append_nil]⟩
  | cons rc rest ih =>
    intro ps ls ls' hs hk h
    obtain ⟨r, c⟩ := rc
    simp only [List.map_cons] at h
    obtain ⟨w, target, ql', hw, ht, hpl, hrest⟩ := processChildren_cons_inv h
    obtain ⟨cn, hcn⟩ := hs.rep.node_of_lbl hcurr
    have hdepth := hs.rep.depth_ltB (List.mem_of_getElem? hcurr)
    have hlen := hs.rep.len
    obtain ⟨w', hw', hwrel⟩ := failWalk_sim hs.rep r (lcurr.length + 2) (ps.pt.nodes.length + 2)
      _ _ w (by omega) (hs.rep.fail curr cn lcurr hcn hcurr) hw
    obtain ⟨tg, htg, hltg⟩ := target_sim hs.rep hwrel ht
    have hlc := hk r c List.mem_cons_self
    obtain ⟨cd, hcd⟩ := hs.rep.node_of_lbl hlc
    obtain ⟨qp', hpp, hs', hcont⟩ := hs.push_set hcd hlc hltg hpl
    obtain ⟨ps', hps', hsim', hcont'⟩ := ih _ _ ls' hs'
      (fun r c hm => hk r c (List.mem_cons_of_mem _ hm)) hrest
    refine ⟨ps', ?_, hsim', ?_⟩
    · simp only [pProcessChildren, hcn, hw']
      change (match targetP ps.pt w', ps.pt.nodes[c]? with
        | some target, some cd =>
          match ps.q.push (ptrLabel c) with
          | none => none
          | some q' =>
            pProcessChildren curr rest
              { q := q', pt := ⟨ps.pt.nodes.set c { cd with fail := some target }⟩ }
        | _, _ => none) = some ps'
      rw [htg, hcd]
      simp only [hpp]
      exact hps'
    · rw [hcont', hcont]
      simp only [kids, List.map_cons, List.append_assoc, List.singleton_append]

theorem seedRoot_sim {pats : List (List Step)} {lbl : List Label} :
    ∀ (kds : List (Int × Nat)) (ps : PBState) (ls ls' : BState), Sim pats lbl ps ls →
      (∀ r c, (r, c) ∈ kds → lbl[c]? = some ([] ++ [r])) →
      seedRoot (kds.map (·.1)) ls = some ls' →
      ∃ ps', pSeedRoot kds ps = some ps' ∧ Sim pats lbl ps' ls' ∧
        ls'.q.content = ls.q.content ++ kids [] (kds.map (·.1)) := by
  intro kds
  induction kds with
  | nil =>
    intro ps ls ls' hs _ h
    simp only [List.map_nil, seedRoot, Option.some.injEq] at h
    subst h
    exact ⟨ps, rfl, hs, by simp only [kids, List.map_nil, List.append_nil]⟩
  | cons rc rest ih =>
    intro ps ls ls' hs hk h
    obtain ⟨r, c⟩ := rc
    simp only [List.map_cons, seedRoot] at h
    cases hpl : ls.q.push [r] with
    | none => rw [hpl] at h; cases h
    | some ql' =>
      rw [hpl] at h
      simp only at h
      have hlc := hk r c List.mem_cons_self
      obtain ⟨cd, hcd⟩ := hs.rep.node_of_lbl hlc
      obtain ⟨qp', hpp, hs', hcont⟩ := hs.push_set hcd hlc hs.rep.root hpl
      obtain ⟨ps', hps', hsim', hcont'⟩ := ih _ _ ls' hs'
        (fun r c hm => hk r c (List.mem_cons_of_mem _ hm)) h
      refine ⟨ps', ?_, hsim', ?_⟩
      · simp only [pSeedRoot, hcd, hpp]
        exact hps'
      · rw [hcont', hcont]
        simp only [kids, List.map_cons, List.append_assoc, List.singleton_append, List.nil_append]

/-! ### the outer loop: every node is popped at most once -/

/-- `P` = labels popped so far, `Q` = label queue content -/
structure LInv (lbl : List Label) (P Q : List Label) : Prop where
  nodup : (P ++ Q).Nodup
  mem : ∀ n ∈ P ++ Q, n ∈ lbl ∧ n ≠ []
  parent : ∀ p r, p ≠ [] → p ++ [r] ∈ P ++ Q → p ∈ P

theorem LInv.card {lbl P Q : List Label} (h : LInv lbl P Q) (hroot : [] ∈ lbl) :
    (P ++ Q).length + 1 ≤ lbl.length := by
  have hnd : ([] :: (P ++ Q)).Nodup :=
    List.nodup_cons.2 ⟨fun hm => (h.mem [] hm).2 rfl, h.nodup⟩
  have := hnd.length_le_of_subset (l₂ := lbl) (by
    intro n hn
    rcases List.mem_cons.1 hn with rfl | hn
    · exact hroot
    · exact (h.mem n hn).1)
  simpa using this

theorem LInv.init {lbl : List Label} {cs : List Int} (hs : StrictSorted cs)
    (hm : ∀ r ∈ cs, [] ++ [r] ∈ lbl) : LInv lbl [] (kids [] cs) := by
  refine ⟨?_, ?_, ?_⟩
  · rw [List.nil_append]; exact kids_nodup hs
  · intro n hn
    rw [List.nil_append] at hn
    obtain ⟨r, hr, rfl⟩ := mem_kids.1 hn
    exact ⟨hm r hr, by simp⟩
  · intro p r hp hmem
    rw [List.nil_append] at hmem
    obtain ⟨r', _, he⟩ := mem_kids.1 hmem
    have : p = [] := List.append_inj_left' he rfl
    exact absurd this hp

theorem LInv.step {lbl P rest : List Label} {curr : Label} {cs : List Int}
    (h : LInv lbl P (curr :: rest)) (hs : StrictSorted cs) (hm : ∀ r ∈ cs, curr ++ [r] ∈ lbl) :
    LInv lbl (P ++ [curr]) (rest ++ kids curr cs) := by
  have hA : (P ++ [curr]) ++ (rest ++ kids curr cs) = (P ++ curr :: rest) ++ kids curr cs := by
    simp only [List.append_assoc, List.singleton_append, List.cons_append, List.nil_append]
  have hcurr : curr ∈ P ++ curr :: rest := by simp
  have hcne := (h.mem curr hcurr).2
  have hnd := List.nodup_append.1 h.nodup
  have hcP : curr ∉ P := fun hp => hnd.2.2 curr hp curr List.mem_cons_self rfl
  have hfresh : ∀ r, curr ++ [r] ∉ P ++ curr :: rest := fun r hr => hcP (h.parent curr r hcne hr)
  refine ⟨?_, ?_, ?_⟩
  · rw [hA, List.nodup_append]
    refine ⟨h.nodup, kids_nodup hs, ?_⟩
    intro a ha b hb hab
    obtain ⟨r, _, rfl⟩ := mem_kids.1 hb
    subst hab
    exact hfresh r ha
  · intro n hn
    rw [hA] at hn
    rcases List.mem_append.1 hn with hn | hn
    · exact h.mem n hn
    · obtain ⟨r, hr, rfl⟩ := mem_kids.1 hn
      exact ⟨hm r hr, by simp⟩
  · intro p r hp hmem
    rw [hA] at hmem
    rcases List.mem_append.1 hmem with hmem | hmem
    · exact List.mem_append_left _ (h.parent p r hp hmem)
    · obtain ⟨r', _, he⟩ := mem_kids.1 hmem
      have : p = curr := List.append_inj_left' he rfl
      subst this
      simp

theorem labelPtr_ptrLabel (id : Nat) : labelPtr (ptrLabel id) = some id := by
  simp only [labelPtr, ptrLabel, Int.toNat_natCast]

theorem bfs_sim {pats : List (List Step)} {lbl : List Label} :
    ∀ (fuel fuel' : Nat) (P : List Label) (ps : PBState) (ls ls' : BState), Sim pats lbl ps ls →
      LInv lbl P ls.q.content → lbl.length ≤ fuel' + P.length →
      bfsLoop pats fuel ls = some ls' →
      ∃ ps', pBfsLoop fuel' ps = some ps' ∧ Sim pats lbl ps' ls' := by
  intro fuel
  induction fuel with
  | zero => intro fuel' P ps ls ls' _ _ _ h; simp only [bfsLoop] at h; cases h
  | succ fuel ih =>
    intro fuel' P ps ls ls' hs hinv hf h
    have hroot : [] ∈ lbl := List.mem_of_getElem? hs.rep.root
    have hcard := hinv.card hroot
    simp only [List.length_append] at hcard
    obtain ⟨fuel', rfl⟩ : ∃ k, fuel' = k + 1 := ⟨fuel' - 1, by omega⟩
    obtain ⟨ids, hi1, hi2⟩ := hs.qrel
    cases hQ : ls.q.content with
    | nil =>
      have he : ls.q.isEmpty = true := (Queue.isEmpty_spec ls.q hs.lq).2 hQ
      rw [hQ] at hi2
      have hids : ids = [] := by
        cases ids with
        | nil => rfl
        | cons a l => simp at hi2
      subst hids
      have he' : ps.q.isEmpty = true := (Queue.isEmpty_spec ps.q hs.pq).2 (by rw [hi1]; rfl)
      simp only [bfsLoop, he, if_true, Option.some.injEq] at h
      subst h
      exact ⟨ps, by simp only [pBfsLoop, he', if_true], hs⟩
    | cons lcurr rest =>
      rw [hQ] at hi2 hinv hcard
      cases ids with
      | nil => simp at hi2
      | cons curr ids' =>
        simp only [List.map_cons, List.cons.injEq] at hi1 hi2
        obtain ⟨hlcurr, hi2⟩ := hi2
        have hlcurr : lbl[curr]? = some lcurr := hlcurr.symm
        have he : ls.q.isEmpty = false := by
          cases hb : ls.q.isEmpty with
          | false => rfl
          | true => rw [(Queue.isEmpty_spec ls.q hs.lq).1 hb] at hQ; cases hQ
        have he' : ps.q.isEmpty = false := by
          cases hb : ps.q.isEmpty with
          | false => rfl
          | true => rw [(Queue.isEmpty_spec ps.q hs.pq).1 hb] at hi1; cases hi1
        obtain ⟨ql1, hl1, hl2, hl3⟩ := Queue.pop_spec ls.q hs.lq lcurr rest hQ
        obtain ⟨qp1, hp1, hp2, hp3⟩ := Queue.pop_spec ps.q hs.pq _ _ hi1
        obtain ⟨cn, hcn⟩ := hs.rep.node_of_lbl hlcurr
        obtain ⟨hk, hch, _, _⟩ := hs.rep.kids curr cn lcurr hcn hlcurr
        simp only [Trie.children] at hk
        simp only [bfsLoop, he, hl1, hk, Bool.false_eq_true, if_false] at h
        have hs1 : Sim pats lbl { ps with q := qp1 } { ls with q := ql1 } :=
          ⟨hs.rep, hp2, hl2, ids', hp3, by rw [hl3]; exact hi2⟩
        cases hpc : processChildren pats lcurr cn.vals { ls with q := ql1 } with
        | none => rw [hpc] at h; cases h
        | some ls1 =>
          rw [hpc] at h
          simp only at h
          obtain ⟨ps1, hps1, hsim1, hcont1⟩ :=
            processChildren_sim hlcurr cn.children _ _ ls1 hs1 hch hpc
          have hinv1 : LInv lbl (P ++ [lcurr]) ls1.q.content := by
            rw [hcont1]
            simp only [hl3]
            apply hinv.step (children_sorted hk)
            intro r hr
            obtain ⟨rc, hrc, rfl⟩ := List.mem_map.1 hr
            exact List.mem_of_getElem? (hch rc.1 rc.2 hrc)
          obtain ⟨ps', hps', hsim'⟩ := ih fuel' (P ++ [lcurr]) ps1 ls1 ls' hsim1 hinv1
            (by simp only [List.length_append, List.length_cons, List.length_nil]; omega) h
          refine ⟨ps', ?_, hsim'⟩
          simp only [pBfsLoop, he', hp1, labelPtr_ptrLabel, hcn, hps1, Bool.false_eq_true, if_false]
          exact hps'

/-- SIMULATION: whenever the label-level `BuildFailureLinks` succeeds, the pointer-level one
succeeds, and the store it leaves represents the label trie with the new table. -/
theorem pbuild_rep (pt : PTrie) (t : Trie) (lbl : List Label) (h : Rep pt t lbl) (F : FailTab)
    (hb : buildFailFrom t.pats t.fail = some F) :
    ∃ pt', pt.build = some pt' ∧ Rep pt' { t with fail := F } lbl := by
  obtain ⟨pats, F0⟩ := t
  simp only at hb ⊢
  obtain ⟨root, hroot⟩ := h.node_of_lbl h.root
  obtain ⟨hk, hch, _, _⟩ := h.kids 0 root [] hroot h.root
  simp only [Trie.children] at hk
  simp only [buildFailFrom, hk] at hb
  obtain ⟨hqi, hci⟩ := Queue.init_spec 10 (by decide)
  have hs0 : Sim pats lbl ⟨Queue.init 10, pt⟩ ⟨Queue.init 10, F0⟩ :=
    ⟨h, hqi, hqi, [], by rw [hci]; rfl, by rw [hci]; rfl⟩
  cases hsd : seedRoot root.vals ⟨Queue.init 10, F0⟩ with
  | none => rw [hsd] at hb; cases hb
  | some ls0 =>
    rw [hsd] at hb
    simp only at hb
    obtain ⟨ps0, hps0, hsim0, hcont0⟩ := seedRoot_sim root.children _ _ ls0 hs0 hch hsd
    cases hbl : bfsLoop pats (nodeBound pats + 1) ls0 with
    | none => rw [hbl] at hb; cases hb
    | some ls' =>
      rw [hbl] at hb
      simp only [Option.map_some, Option.some.injEq] at hb
      subst hb
      have hinv0 : LInv lbl [] ls0.q.content := by
        rw [hcont0]
        simp only [hci, List.nil_append]
        apply LInv.init (children_sorted hk)
        intro r hr
        obtain ⟨rc, hrc, rfl⟩ := List.mem_map.1 hr
        exact List.mem_of_getElem? (hch rc.1 rc.2 hrc)
      obtain ⟨ps', hps', hsim'⟩ := bfs_sim (nodeBound pats + 1) (pt.nodes.length + 1) [] ps0 ls0 ls'
        hsim0 hinv0 (by rw [h.len]; simp) hbl
      refine ⟨ps'.pt, ?_, hsim'.rep⟩
      simp only [PTrie.build, hroot, hps0, hps', Option.map_some]

end Golib.C05
