/-
C03 helper lemmas, part 13: the array→bitmap conversion builds its bitmap from a fresh zero
word array: every bit of the result is accounted for by the old values and the new one.
-/
import Golib.Proof.C03Array
import Golib.Proof.C03Words

namespace Golib.C03

theorem arrAdd_convert_fresh (v : Array Nat) (x : Nat) (hs : Sorted v) (hb : ∀ y ∈ v.toList, y < 65536)
    (hsz : v.size = threshold) (hx65 : x < 65536) (hx : x ∉ v.toList) :
    ∃ w1 w, addAllRaw v.toList (Array.replicate 1024 0#64) = some w1 ∧ bitmapAddRaw w1 x = some w ∧
      arrAdd v x = some (v, .bmp 4097 w, true) ∧ w.size = 1024 ∧
      ∀ n, bitmapContains w n = (decide (n = x) || decide (n ∈ v.toList)) := by
  obtain ⟨p, hp, hlb⟩ := search_spec v x hs
  have hhit := lowerBound_hit_iff hs hlb
  have hmiss : (decide (p < v.size) && v[p]? == some x) = false := by
    cases hb : (decide (p < v.size) && v[p]? == some x)
    · rfl
    · exact absurd (hhit.mp hb) hx
  have hnlt : ¬ v.size < threshold := by omega
  have hbuf : (v.extract 0 threshold).toList = v.toList := by
    rw [← hsz]; simp
  obtain ⟨w1, h1, hsz1, hb1⟩ := addAllRaw_spec v.toList (Array.replicate 1024 0#64) (by simp) hb
  obtain ⟨w2, h2, hsz2, hb2⟩ := bitmapAddRaw_spec w1 x (by omega)
  refine ⟨w1, w2, h1, h2, ?_, by omega, ?_⟩
  · simp only [arrAdd, hp, hmiss, hnlt, if_false, Bool.false_eq_true, hbuf, h1, h2]
  · intro n
    rw [bitmapContains_eq, hb2, hb1, wordsBit_zero]
    simp

end Golib.C03
