/-
The 64-bit twin of `Knapsack` (`Golib.C18.knapsack64`, wrapping index arithmetic, Go panics)
computes what the ideal-integer model `knapsackGo` computes:

* for ALL 64-bit limits `W < math.MaxInt` and ALL 64-bit weights (huge, zero, negative) as far as
  the index arithmetic is concerned — the code compares `i >= w` before it forms `i-w`, and never
  adds a weight to anything;
* for the score addition `add`, wherever `add` agrees with `+` on (total of a sub-selection `t`,
  value of a later item `x`) — trivially for the ideal `+`, and for the machine's `add64` under the
  guard "sum of absolute values `< 2^63`" (`totals_fit_int64`).

The proof replays the outer/inner loop invariant of `Golib.Proof.C18Knap` (`TableGood`,
`kStep_spec`, `kInner_spec`): it is needed to know that the left operand of every addition is the
total of a recorded sub-selection.
-/
import Golib.Model.C18Knap64
import Golib.Proof.C18Int64

namespace Golib.C18

variable {α : Type}

theorem wrap64_id {x : Int} (h1 : -9223372036854775808 ≤ x) (h2 : x < 9223372036854775808) :
    wrap64 x = x := by
  unfold wrap64; omega

theorem wrap64_range (x : Int) : -9223372036854775808 ≤ wrap64 x ∧ wrap64 x < 9223372036854775808 := by
  unfold wrap64; omega

theorem fitsInt64_iff (x : Int) : fitsInt64 x ↔ -9223372036854775808 ≤ x ∧ x < 9223372036854775808 := by
  unfold fitsInt64
  have : (2 : Int) ^ 63 = 9223372036854775808 := by decide
  rw [this]

theorem add64_of_fits {a b : Int} (h : fitsInt64 (a + b)) : add64 a b = a + b := by
  rw [fitsInt64_iff] at h
  exact wrap64_id h.1 h.2

/-- One inner step at `i = w + n` with `0 ≤ w`, `i < 2^63`: the twin's `dp[i-w]`, `dp[i]` are the
model's `dp[n]`, `dp[w+n]`. -/
theorem kStep64_eq (add : Int → Int → Int) (br : Option (List α → List α → Bool)) (item : α)
    (w : Nat) (value : Int) (n : Nat) (dp : List (Cell α))
    (hi : (w : Int) + n < 9223372036854775808)
    (hadd : ∀ src, dp[n]? = some src → add src.1 value = src.1 + value) :
    kStep64 add br item w value ((w : Int) + n) dp = kStep br item w value n dp := by
  have hj : wrap64 ((w : Int) + n - w) = (n : Int) := by rw [wrap64_id] <;> omega
  have h1 : ¬ ((n : Int) < 0 ∨ (w : Int) + n < 0) := by omega
  have h2 : ((w : Int) + n).toNat = w + n := by omega
  unfold kStep64 kStep
  simp only [hj, h1, if_false, Int.toNat_natCast, h2]
  cases hs : dp[n]? with
  | none => rfl
  | some src =>
    cases hc : dp[w + n]? with
    | none => rfl
    | some cur =>
      simp only [hadd src hs]
      cases br <;> rfl

/-- The inner loop, with the loop invariant of `kInner_spec`. -/
theorem kInner64_eq (add : Int → Int → Int) (br : Option (List α → List α → Bool))
    {wf : α → Nat} {vf : α → Int} {pre : List α} (x : α)
    (hadd : ∀ t : List α, t.Sublist pre → add (vsum vf t) (vf x) = vsum vf t + vf x)
    (dp0 : List (Cell α)) (g0 : TableGood wf vf pre dp0) :
    ∀ (n fuel : Nat) (dp : List (Cell α)), (n = 0 ∨ wf x + n ≤ dp0.length) → dp.length = dp0.length →
      (∀ i, i < wf x + n → dp[i]? = dp0[i]?) →
      (∀ i c, wf x + n ≤ i → dp[i]? = some c → CellGood wf vf (pre ++ [x]) i c) →
      n < fuel → (wf x : Int) + n ≤ 9223372036854775808 →
      kInner64 add br x (wf x) (vf x) fuel ((wf x : Int) + n - 1) dp =
        Run.ofOption (kInner br x (wf x) (vf x) n dp) := by
  intro n
  induction n with
  | zero =>
    intro fuel dp _ _ _ _ hf _
    obtain ⟨f, rfl⟩ : ∃ f, fuel = f + 1 := ⟨fuel - 1, by omega⟩
    have : ¬ ((wf x : Int) + (0 : Nat) - 1 ≥ (wf x : Int)) := by omega
    simp only [kInner64, this, if_false, kInner, Run.ofOption]
  | succ n ih =>
    intro fuel dp hle hlen hlow hhigh hf hb
    obtain ⟨f, rfl⟩ : ∃ f, fuel = f + 1 := ⟨fuel - 1, by omega⟩
    have hle : wf x + (n + 1) ≤ dp0.length := by omega
    have hn : n < dp.length := by omega
    have hwn : wf x + n < dp.length := by omega
    obtain ⟨src, hsrc⟩ : ∃ src, dp[n]? = some src := ⟨dp[n], List.getElem?_eq_getElem hn⟩
    obtain ⟨cur, hcur⟩ : ∃ cur, dp[wf x + n]? = some cur := ⟨dp[wf x + n], List.getElem?_eq_getElem hwn⟩
    have gsrc : CellGood wf vf pre n src := g0 n src (by rw [← hlow n (by omega)]; exact hsrc)
    have gcur : CellGood wf vf pre (wf x + n) cur :=
      g0 _ cur (by rw [← hlow (wf x + n) (by omega)]; exact hcur)
    obtain ⟨dp1, hstep, hlen1, hother, hnew⟩ := kStep_spec br x n dp hsrc hcur gsrc gcur
    have hi : (wf x : Int) + ((n + 1 : Nat) : Int) - 1 = (wf x : Int) + n := by omega
    have hge : (wf x : Int) + n ≥ (wf x : Int) := by omega
    have hs64 : kStep64 add br x (wf x) (vf x) ((wf x : Int) + n) dp = some dp1 := by
      rw [kStep64_eq add br x (wf x) (vf x) n dp (by omega)]
      · exact hstep
      · intro src' hs'
        rw [hsrc] at hs'; cases hs'
        obtain ⟨s1, _, s3, _⟩ := gsrc
        rw [← s3]; exact hadd _ s1
    have hdec : wrap64 ((wf x : Int) + n - 1) = (wf x : Int) + n - 1 := by
      rw [wrap64_id] <;> omega
    have := ih f dp1 (Or.inr (by omega)) (by omega)
      (fun i hi => by rw [hother i (by omega)]; exact hlow i (by omega))
      (fun i c hi hc => by
        by_cases he : i = wf x + n
        · subst he; exact hnew c hc
        · rw [hother i he] at hc; exact hhigh i c (by omega) hc)
      (by omega) (by omega)
    rw [hi]
    simp only [kInner64, hge, if_true, hs64, hdec, kInner, hstep]
    exact this

/-- A negative weight: the first iteration (`i = W ≥ 0 > w`) indexes outside the table —
`W - w` is either `> W` or wraps to a negative number. -/
theorem kStep64_neg (add : Int → Int → Int) (br : Option (List α → List α → Bool)) (item : α)
    (w value : Int) (W : Nat) (dp : List (Cell α)) (hw : w < 0) (hw' : -9223372036854775808 ≤ w)
    (hW : (W : Int) < 9223372036854775808) (hl : dp.length = W + 1) :
    kStep64 add br item w value W dp = none := by
  unfold kStep64
  by_cases hj : wrap64 ((W : Int) - w) < 0 ∨ (W : Int) < 0
  · simp only [hj, if_true]
  · have : dp[(wrap64 ((W : Int) - w)).toNat]? = none := by
      apply List.getElem?_eq_none
      unfold wrap64 at hj ⊢
      omega
    simp only [hj, if_false, this]

/-- The outer loop for ALL 64-bit weights. -/
theorem kItems64_eq (add : Int → Int → Int) (br : Option (List α → List α → Bool))
    (wf vf : α → Int) (W : Nat) (hW : (W : Int) + 1 < 9223372036854775808) (all : List α)
    (hadd : ∀ (t : List α) (x : α), (t ++ [x]).Sublist all → add (vsum vf t) (vf x) = vsum vf t + vf x)
    (hr : ∀ x ∈ all, -9223372036854775808 ≤ wf x ∧ wf x < 9223372036854775808) :
    ∀ (items pre : List α) (dp : List (Cell α)), pre ++ items = all → dp.length = W + 1 →
      TableGood (fun x => (wf x).toNat) vf pre dp →
      kItems64 add br wf vf W (W + 2) items dp =
        if items.any (fun x => decide (wf x < 0)) then Run.panic
        else Run.ofOption (kItems br (fun x => (wf x).toNat) vf W items dp) := by
  intro items
  induction items with
  | nil => intro pre dp _ _ _; simp [kItems64, kItems, Run.ofOption]
  | cons x xs ih =>
    intro pre dp hall hl hg
    have hx : x ∈ all := by rw [← hall]; simp
    obtain ⟨hx1, hx2⟩ := hr x hx
    by_cases hneg : wf x < 0
    · -- the first iteration panics
      have hge : (W : Int) ≥ wf x := by omega
      have hs := kStep64_neg add br x (wf x) (vf x) W dp hneg hx1 (by omega) hl
      have hany : (x :: xs).any (fun x => decide (wf x < 0)) = true := by
        simp [hneg]
      simp only [kItems64, kInner64, hge, if_true, hs, hany]
    · have hw0 : 0 ≤ wf x := by omega
      have hcast : (((wf x).toNat : Nat) : Int) = wf x := Int.toNat_of_nonneg hw0
      have hany : (x :: xs).any (fun x => decide (wf x < 0)) = xs.any (fun x => decide (wf x < 0)) := by
        simp [hneg]
      -- the model's inner loop and its result
      obtain ⟨dp1, h1, hl1, hg1⟩ := kInner_spec br (wf := fun x => (wf x).toNat) (vf := vf) x dp hg
        (W + 1 - (wf x).toNat) dp (by omega) rfl
        (fun _ _ => rfl) (fun i c hi hc => by
          have := (List.getElem?_eq_some_iff.mp hc).1
          omega)
      have hin : kInner64 add br x (wf x) (vf x) (W + 2) W dp = Run.ok dp1 := by
        by_cases hbig : (wf x).toNat ≤ W + 1
        · have := kInner64_eq add br (wf := fun x => (wf x).toNat) (vf := vf) (pre := pre) x
            (fun t ht => hadd t x (by
              rw [← hall]
              exact List.Sublist.append ht (by simp)))
            dp hg (W + 1 - (wf x).toNat) (W + 2) dp (by omega) rfl
            (fun _ _ => rfl) (fun i c hi hc => by
              have := (List.getElem?_eq_some_iff.mp hc).1
              omega)
            (by omega) (by omega)
          have hi : (((wf x).toNat : Nat) : Int) + ((W + 1 - (wf x).toNat : Nat) : Int) - 1 = (W : Int) := by
            omega
          rw [hi, hcast, h1] at this
          exact this
        · -- heavier than the whole table: the loop condition fails at once
          have hz : W + 1 - (wf x).toNat = 0 := by omega
          rw [hz] at h1
          simp only [kInner] at h1
          cases h1
          have : ¬ ((W : Int) ≥ wf x) := by omega
          simp only [kInner64, this, if_false]
      have := ih (pre ++ [x]) dp1 (by rw [← hall]; simp) (by omega) hg1
      simp only [kItems64, hin, hany, kItems, h1]
      exact this

/-- With the empty table (`maxWeight = -1`) every item either skips its loop or panics. -/
theorem kItems64_empty (add : Int → Int → Int) (br : Option (List α → List α → Bool))
    (wf vf : α → Int) : ∀ items : List α,
    kItems64 add br wf vf (-1) 1 items [] = Run.ok [] ∨ kItems64 add br wf vf (-1) 1 items [] = Run.panic
  | [] => Or.inl rfl
  | x :: xs => by
    by_cases h : (-1 : Int) ≥ wf x
    · right
      simp [kItems64, kInner64, h, kStep64]
    · have := kItems64_empty add br wf vf xs
      simp only [kItems64, kInner64, h, if_false]
      exact this

/-- The twin equals the ideal-integer model. -/
theorem knapsack64_eq (add : Int → Int → Int) (br : Option (List α → List α → Bool))
    (wf vf : α → Int) (W : Int) (items : List α)
    (hW1 : -9223372036854775808 ≤ W) (hW2 : W < 9223372036854775807)
    (hr : ∀ x ∈ items, -9223372036854775808 ≤ wf x ∧ wf x < 9223372036854775808)
    (hadd : ∀ (t : List α) (x : α), (t ++ [x]).Sublist items → add (vsum vf t) (vf x) = vsum vf t + vf x) :
    knapsack64 add br wf vf W items = Run.ofOption (knapsackGo br wf vf W items) := by
  have hn : wrap64 (W + 1) = W + 1 := by rw [wrap64_id] <;> omega
  by_cases hneg : W < 0
  · have hgo : knapsackGo br wf vf W items = none := by simp [knapsackGo, hneg]
    rw [hgo]
    by_cases hm : W + 1 < 0
    · simp only [knapsack64, hn, hm, if_true, Run.ofOption]
    · have hW : W = -1 := by omega
      subst hW
      have hn0 : wrap64 0 = 0 := by decide
      rcases kItems64_empty add br wf vf items with h | h
      · simp [knapsack64, hn0, h, Run.ofOption]
      · simp [knapsack64, hn0, h, Run.ofOption]
  · obtain ⟨Wn, rfl⟩ := Int.eq_ofNat_of_zero_le (by omega : 0 ≤ W)
    have h0 : ¬ ((Wn : Int) + 1 < 0) := by omega
    have hz : ((Wn : Int) + 1).toNat = Wn + 1 := by
      have : (Wn : Int) + 1 = ((Wn + 1 : Nat) : Int) := by omega
      rw [this]; exact Int.toNat_natCast _
    have key := kItems64_eq add br wf vf Wn (by omega) items hadd hr items [] _ rfl
      (by simp) (tableGood_init _ vf Wn)
    have hneg' : ¬ ((Wn : Int) < 0) := by omega
    simp only [knapsack64, hn, h0, if_false, hz, Nat.add_assoc, Nat.reduceAdd, key]
    by_cases hany : items.any (fun x => decide (wf x < 0)) = true
    · have hgo : knapsackGo br wf vf Wn items = none := by simp [knapsackGo, hany]
      simp only [hany, if_true, hgo, Run.ofOption]
    · have hgo : knapsackGo br wf vf Wn items = knapsack br (fun x => (wf x).toNat) vf Wn items := by
        have : ¬ ((Wn : Int) < 0 ∨ items.any (fun x => decide (wf x < 0)) = true) := by
          rintro (h | h)
          · omega
          · exact hany h
        simp only [knapsackGo, this, if_false, Int.toNat_natCast]
      simp only [hany, hgo, knapsack]
      cases hk : kItems br (fun x => (wf x).toNat) vf Wn items (List.replicate (Wn + 1) (0, [])) with
      | none => simp [Run.ofOption]
      | some dp =>
        simp only [Run.ofOption, hneg', if_false, Int.toNat_natCast]
        cases hc : dp[Wn]? with
        | none => simp [hc]
        | some c => simp [hc]

/-! ### FindDpSolvers: the one addition -/

theorem vStep1A_eq (add : Int → Int → Int) (br : Option (List α → List α → Bool)) (maxV : Int)
    (allowOver : Bool) (item : α) (value : Int) (st : VSt α) (e : Int × List α)
    (h : add e.1 value = e.1 + value) :
    vStep1A add br maxV allowOver item value st e = vStep1 br maxV allowOver item value st e := by
  unfold vStep1A vStep1
  rw [h]
  rfl

theorem foldl_congr_mem {β γ : Type} (f g : β → γ → β) : ∀ (L : List γ) (b : β),
    (∀ b e, e ∈ L → f b e = g b e) → L.foldl f b = L.foldl g b
  | [], _, _ => rfl
  | e :: L, b, h => by
    simp only [List.foldl_cons]
    rw [h b e (by simp)]
    exact foldl_congr_mem f g L _ (fun b e he => h b e (List.mem_cons_of_mem _ he))

theorem mem_of_mem_entriesIn {β : Type} {m : List (Int × β)} {ks : List Int} {e : Int × β}
    (h : e ∈ entriesIn m ks) : e ∈ m := by
  unfold entriesIn at h
  obtain ⟨k, _, hk⟩ := List.mem_filterMap.mp h
  cases hl : alLookup k m with
  | none => rw [hl] at hk; simp at hk
  | some v =>
    rw [hl] at hk
    simp at hk
    subst hk
    exact alLookup_some_mem hl

/-- `FindDpSolvers` with the addition `add` equals `FindDpSolvers` with the ideal addition whenever
`add` agrees with `+` on (total of a sub-selection `t`, value of a later item `x`). -/
theorem solversVA_eq (add : Int → Int → Int) (br : Option (List α → List α → Bool)) (maxV : Int)
    (allowOver : Bool) (vf : α → Int) (ord1 ord2 : Nat → List Int → List Int)
    (hord1 : ∀ i l, (ord1 i l).Perm l) (hord2 : ∀ i l, (ord2 i l).Perm l)
    (all : List α) (hpos : ∀ x ∈ all, 0 < vf x)
    (hadd : ∀ (t : List α) (x : α), (t ++ [x]).Sublist all → add (isum vf t) (vf x) = isum vf t + vf x) :
    solversVA add br maxV allowOver vf ord1 ord2 all = solversV br maxV allowOver vf ord1 ord2 all := by
  have main : ∀ (items pre : List α) (i : Nat) (st : VSt α), pre ++ items = all →
      QInv maxV allowOver vf pre st →
      vItemsA add br maxV allowOver vf ord1 ord2 i items st = vItems br maxV allowOver vf ord1 ord2 i items st := by
    intro items
    induction items with
    | nil => intro pre i st _ _; rfl
    | cons x xs ih =>
      intro pre i st hall hq
      have hx : x ∈ all := by rw [← hall]; simp
      have hpass : vPassA add br maxV allowOver vf ord1 ord2 i x st = vPass br maxV allowOver vf ord1 ord2 i x st := by
        unfold vPassA vPass
        have : (entriesIn st.dp (ord1 i (st.dp.map (·.1)))).foldl (vStep1A add br maxV allowOver x (vf x)) st =
            (entriesIn st.dp (ord1 i (st.dp.map (·.1)))).foldl (vStep1 br maxV allowOver x (vf x)) st := by
          apply foldl_congr_mem
          intro b e he
          apply vStep1A_eq
          obtain ⟨hs, hsum⟩ := hq.snd e (mem_of_mem_entriesIn he)
          rw [← hsum]
          apply hadd
          rw [← hall]
          exact List.Sublist.append hs (by simp)
        simp only [this]
      have hq' := vPass_inv br maxV allowOver vf ord1 ord2 hord1 hord2 i x st
        (Int.le_of_lt (hpos x hx)) (fun _ => hpos x hx) hq
      simp only [vItemsA, vItems, hpass]
      exact ih (pre ++ [x]) (i + 1) _ (by rw [← hall]; simp) hq'
  unfold solversVA solversV
  rw [main all [] 0 _ (by simp) (qinv_init maxV allowOver vf)]

end Golib.C18
