/-
C07: the cursor programs equal the functional parsers (all four codecs), and the
octal / hex round trips at the functional level.
-/
import Golib.Proof.C07Bodies
import Golib.Proof.C07Progress
import Golib.Proof.C07Digits

namespace Golib.C07
open Golib

/-- every element is a byte -/
def IsBytes (s : Bytes) : Prop := ∀ c ∈ s, c < 256

theorem parseToString_eq {body : Bytes → St → Option Step} {dec : Bytes → Dec}
    (hb : ∀ src n, BodySpec (body src) dec src n) (src : Bytes) :
    parseToString body src = .ok (parseFun dec src) := by
  obtain ⟨e, dst', hp, hl, he, ht⟩ :=
    run_spec (body := body) (dec := dec) (dst := List.replicate src.length 0) (src := src)
      (by simp) (hb src _)
  unfold parseToString
  rw [hp]
  simp only [List.length_replicate] at hl
  have : e ≤ dst'.length := by omega
  simp [this, ht]

theorem window1 (a : Nat) (d r : Bytes) :
    ((a :: (d ++ r)).take (d.length + 1)).drop 1 = d := by
  simp

theorem window2 (a b : Nat) (d r : Bytes) :
    ((a :: b :: (d ++ r)).take (d.length + 2)).drop 2 = d := by
  simp

theorem octal_fun_roundtrip : ∀ (s : Bytes), IsBytes s →
    ∃ out, octalFormat s = some out ∧ out.length = 4 * s.length ∧ parseFun octalDec out = s
  | [], _ => ⟨[], rfl, rfl, parseFun_nil _⟩
  | c :: rest, hs => by
    have hc : c < 256 := hs c (by simp)
    obtain ⟨r, hr, hrl, hpr⟩ := octal_fun_roundtrip rest (fun x hx => hs x (by simp [hx]))
    obtain ⟨d, hd, hdl, hpd, -⟩ := appendUint_parse (base := 8) (bits := 8) (width := 3) (v := c)
      (by omega) (by omega) (by omega) (by omega) (by omega) (by omega) (by omega)
    refine ⟨92 :: d ++ r, by simp [octalFormat, hd, hr], by simp [hdl, hrl]; omega, ?_⟩
    rw [parseFun]
    have hw := window1 92 d r
    rw [hdl] at hw
    have hlen : ¬ (92 :: d ++ r).length < 4 := by simp [hdl]
    simp only [List.cons_append, reduceCtorEq, dite_false, octalDec]
    simp only [List.cons_append] at hlen
    simp only [hlen, if_false, List.getElem?_cons_zero, ne_eq, not_true_eq_false, hw, hpd]
    have hdrop : (92 :: (d ++ r)).drop 4 = r := by
      have : (92 :: (d ++ r)).drop (d.length + 1) = r := by simp
      rw [hdl] at this; exact this
    simp [hdrop, hpr, Nat.mod_eq_of_lt hc]

theorem hex_fun_roundtrip : ∀ (s : Bytes), IsBytes s →
    ∃ out, hexFormat s = some out ∧ out.length = 4 * s.length ∧ parseFun hexDec out = s
  | [], _ => ⟨[], rfl, rfl, parseFun_nil _⟩
  | c :: rest, hs => by
    have hc : c < 256 := hs c (by simp)
    obtain ⟨r, hr, hrl, hpr⟩ := hex_fun_roundtrip rest (fun x hx => hs x (by simp [hx]))
    obtain ⟨d, hd, hdl, -, hpd⟩ := appendUint_parse (base := 16) (bits := 8) (width := 2) (v := c)
      (by omega) (by omega) (by omega) (by omega) (by omega) (by omega) (by omega)
    have hul : (toUpper d).length = 2 := by simp [toUpper, hdl]
    refine ⟨92 :: 120 :: toUpper d ++ r, by simp [hexFormat, hd, hr], by simp [hul, hrl]; omega, ?_⟩
    rw [parseFun]
    have hw := window2 92 120 (toUpper d) r
    rw [hul] at hw
    have hlen : ¬ (92 :: 120 :: toUpper d ++ r).length < 4 := by simp [hul]
    simp only [List.cons_append, reduceCtorEq, dite_false, hexDec]
    simp only [List.cons_append] at hlen
    simp only [hlen, if_false, List.getElem?_cons_zero, List.getElem?_cons_succ, ne_eq,
      not_true_eq_false, hw, hpd]
    have hdrop : (92 :: 120 :: (toUpper d ++ r)).drop 4 = r := by
      have : (92 :: 120 :: (toUpper d ++ r)).drop ((toUpper d).length + 2) = r := by simp
      rw [hul] at this; exact this
    simp [hdrop, hpr, Nat.mod_eq_of_lt hc]

/-- The four codecs: loop body (cursor layer) and decision function (functional layer). -/
inductive Codec where
  | octal | hex | unicode | utf16
deriving DecidableEq, Repr

def Codec.body : Codec → Bytes → St → Option Step
  | .octal => octalBody | .hex => hexBody | .unicode => unicodeBody | .utf16 => utf16Body

def Codec.dec : Codec → Bytes → Dec
  | .octal => octalDec | .hex => hexDec | .unicode => unicodeDec | .utf16 => utf16DecF

theorem Codec.bodySpec (c : Codec) (src : Bytes) (n : Nat) : BodySpec (c.body src) c.dec src n := by
  cases c
  · exact octal_bodySpec src n
  · exact hex_bodySpec src n
  · exact unicode_bodySpec src n
  · exact utf16_bodySpec src n

end Golib.C07
