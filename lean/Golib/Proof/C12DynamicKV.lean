/-
C12 — SafeKV policies for decision-tree programs (`Proof/C12Dynamic.lean`): the next SafeKV
call as a function of the results so far (newest first); the body is the modelled =
extracted one (`pbody` of `Proof/C12ProgramsKV.lean`).
-/
import Golib.Proof.C12Dynamic
import Golib.Proof.C12ProgramsKV

namespace Golib.C12

def kvPolicy (next : Nat → List Loc → Option Call) : Policy KV PLoc :=
  fun t l => (next t l.2).map pbody

end Golib.C12
