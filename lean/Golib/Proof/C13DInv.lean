/-
C13 helper lemmas, part 2: the representation invariant of a memory holding several `DList`s
(`GInv s A`: list `l` holds exactly the node sequence `A l`) and the effect of the three
primitives `insert`, `remove`, `move` on it.
-/
import Golib.Proof.C13Ring

set_option linter.unusedSimpArgs false
set_option linter.unusedVariables false

namespace Golib.C13

/-- Point update of the abstraction. -/
def upd (A : Nat → List Nat) (l : Nat) (L : List Nat) : Nat → List Nat :=
  fun k => if k = l then L else A k

@[simp] theorem upd_same (A : Nat → List Nat) (l : Nat) (L : List Nat) : upd A l L l = L := by
  simp [upd]

theorem upd_other (A : Nat → List Nat) (l : Nat) (L : List Nat) {k : Nat} (h : k ≠ l) :
    upd A l L k = A k := by simp [upd, h]

/-- List `l` (identified with its sentinel) holds exactly the nodes `L`, front to back. -/
structure LInv (s : DSt) (l : Nat) (L : List Nat) : Prop where
  /-- zero value (never initialised, necessarily empty) or a ring through the sentinel -/
  ring  : (s.next.get l = none ∧ s.prev.get l = none ∧ L = []) ∨ Ring s.next s.prev (l :: L)
  nodup : (l :: L).Nodup
  owner : ∀ n, s.list.get n = some l ↔ n ∈ L
  len   : s.len.get l = L.length

/-- The whole memory: every list is well formed, nodes are allocated non-sentinel ids,
nodes outside every list have all links cleared. -/
structure GInv (s : DSt) (A : Nat → List Nat) : Prop where
  lists      : ∀ l, l < s.nl → LInv s l (A l)
  nodes      : ∀ l, l < s.nl → ∀ x ∈ A l, s.nl ≤ x ∧ x < s.fresh
  freshOk    : s.nl ≤ s.fresh
  clean      : ∀ n, s.nl ≤ n → s.list.get n = none → s.next.get n = none ∧ s.prev.get n = none
  rootOwner  : ∀ l, l < s.nl → s.list.get l = none
  ownerRange : ∀ n r, s.list.get n = some r → r < s.nl
  unalloc    : ∀ n, s.fresh ≤ n → s.list.get n = none

/-- A node that may be handed to the node-inserting forms: allocated, not a sentinel, in no list. -/
def Detached (s : DSt) (e : Nat) : Prop := s.nl ≤ e ∧ e < s.fresh ∧ s.list.get e = none

theorem ring_frame {nx pv nx' pv' : PM} {c : List Nat}
    (hn : ∀ x ∈ c, nx'.get x = nx.get x) (hp : ∀ x ∈ c, pv'.get x = pv.get x)
    (h : Ring nx pv c) : Ring nx' pv' c := by
  cases c with
  | nil => exact h
  | cons a t =>
    simp only [Ring] at h ⊢
    exact seg_frame hn (fun x hx => hp x (by simp at hx ⊢; grind)) h

/-- Frame rule: an update of list `l` that touches only nodes of the old or new `l`, takes new
members from the detached nodes and leaves dropped members fully cleared preserves the global
invariant. -/
theorem ginv_frame {s s' : DSt} {A : Nat → List Nat} {l : Nat} {L' : List Nat}
    (h : GInv s A) (hl : l < s.nl)
    (hnl : s'.nl = s.nl) (hfresh : s'.fresh = s.fresh)
    (hnx : ∀ x, x ∉ l :: A l → x ∉ L' → s'.next.get x = s.next.get x)
    (hpv : ∀ x, x ∉ l :: A l → x ∉ L' → s'.prev.get x = s.prev.get x)
    (hlist : ∀ x, x ∉ A l → x ∉ L' → s'.list.get x = s.list.get x)
    (hlen : ∀ k, k ≠ l → s'.len.get k = s.len.get k)
    (hL : LInv s' l L')
    (hnodes : ∀ x ∈ L', s.nl ≤ x ∧ x < s.fresh)
    (hdet : ∀ x ∈ L', x ∉ A l → s.list.get x = none)
    (hclean : ∀ x ∈ A l, x ∉ L' → s'.list.get x = none ∧ s'.next.get x = none ∧ s'.prev.get x = none) :
    GInv s' (upd A l L') := by
  have hnode := h.nodes
  have howner := fun k hk => (h.lists k hk).owner
  -- nodes of another list `k` are untouched
  have disj : ∀ k, k < s.nl → k ≠ l → ∀ x ∈ k :: A k, x ∉ l :: A l ∧ x ∉ L' := by
    intro k hk hkl x hx
    simp only [List.mem_cons] at hx
    rcases hx with rfl | hx
    · refine ⟨?_, ?_⟩
      · simp only [List.mem_cons, not_or]; exact ⟨hkl, fun hm => by have := (hnode l hl x hm).1; omega⟩
      · intro hm; have := (hnodes x hm).1; omega
    · have h1 := hnode k hk x hx
      have h2 : s.list.get x = some k := (howner k hk x).2 hx
      refine ⟨?_, ?_⟩
      · simp only [List.mem_cons, not_or]
        refine ⟨by omega, fun hm => ?_⟩
        have := (howner l hl x).2 hm
        rw [h2] at this; exact hkl (Option.some.inj this)
      · intro hm
        by_cases hxa : x ∈ A l
        · have := (howner l hl x).2 hxa
          rw [h2] at this; exact hkl (Option.some.inj this)
        · have := hdet x hm hxa
          rw [h2] at this; cases this
  refine ⟨?_, ?_, ?_, ?_, ?_, ?_, ?_⟩
  · intro k hk
    rw [hnl] at hk
    by_cases hkl : k = l
    · subst hkl; simpa using hL
    · rw [upd_other _ _ _ hkl]
      have hK := h.lists k hk
      have hsame_n : ∀ x ∈ k :: A k, s'.next.get x = s.next.get x := fun x hx =>
        hnx x (disj k hk hkl x hx).1 (disj k hk hkl x hx).2
      have hsame_p : ∀ x ∈ k :: A k, s'.prev.get x = s.prev.get x := fun x hx =>
        hpv x (disj k hk hkl x hx).1 (disj k hk hkl x hx).2
      refine ⟨?_, hK.nodup, ?_, ?_⟩
      · rcases hK.ring with ⟨a, b, c⟩ | hr
        · left; exact ⟨by rw [hsame_n k (by simp)]; exact a, by rw [hsame_p k (by simp)]; exact b, c⟩
        · right; exact ring_frame hsame_n hsame_p hr
      · intro n
        by_cases hn1 : n ∈ L'
        · have : s'.list.get n = some l := (hL.owner n).2 hn1
          constructor
          · intro h2; rw [this] at h2; exact absurd (Option.some.inj h2).symm hkl
          · intro h2; exact absurd hn1 (disj k hk hkl n (by simp [h2])).2
        · by_cases hn2 : n ∈ A l
          · have := (hclean n hn2 hn1).1
            constructor
            · intro h2; rw [this] at h2; cases h2
            · intro h2
              have := (disj k hk hkl n (by simp [h2])).1
              simp only [List.mem_cons, not_or] at this; exact absurd hn2 this.2
          · rw [hlist n hn2 hn1]; exact hK.owner n
      · rw [hlen k hkl]; exact hK.len
  · intro k hk x hx
    rw [hnl] at hk ⊢; rw [hfresh]
    by_cases hkl : k = l
    · subst hkl; simp at hx; exact hnodes x hx
    · rw [upd_other _ _ _ hkl] at hx; exact hnode k hk x hx
  · rw [hnl, hfresh]; exact h.freshOk
  · intro n hn hnone
    rw [hnl] at hn
    have hn1 : n ∉ L' := fun hm => by
      have := (hL.owner n).2 hm; rw [hnone] at this; cases this
    by_cases hn2 : n ∈ A l
    · exact (hclean n hn2 hn1).2
    · have hnl' : n ∉ l :: A l := by
        simp only [List.mem_cons, not_or]; exact ⟨by omega, hn2⟩
      rw [hnx n hnl' hn1, hpv n hnl' hn1]
      rw [hlist n hn2 hn1] at hnone
      exact h.clean n hn hnone
  · intro k hk
    rw [hnl] at hk
    have h1 : k ∉ A l := fun hm => by have := (hnode l hl k hm).1; omega
    have h2 : k ∉ L' := fun hm => by have := (hnodes k hm).1; omega
    rw [hlist k h1 h2]; exact h.rootOwner k hk
  · intro n r hr
    rw [hnl]
    by_cases hn1 : n ∈ L'
    · have := (hL.owner n).2 hn1; rw [this] at hr; cases hr; exact hl
    · by_cases hn2 : n ∈ A l
      · have := (hclean n hn2 hn1).1; rw [this] at hr; cases hr
      · rw [hlist n hn2 hn1] at hr; exact h.ownerRange n r hr
  · intro n hn
    rw [hfresh] at hn
    have h1 : n ∉ A l := fun hm => by have := (hnode l hl n hm).2; omega
    have h2 : n ∉ L' := fun hm => by have := (hnodes n hm).2; omega
    rw [hlist n h1 h2]; exact h.unalloc n hn

/-! ### `insert` -/

theorem insert_spec {s : DSt} {A : Nat → List Nat} {l e a : Nat} {pre post L' : List Nat}
    (h : GInv s A) (hl : l < s.nl) (hr : Ring s.next s.prev (l :: A l))
    (hsplit : l :: A l = pre ++ a :: post) (hL' : l :: L' = pre ++ a :: e :: post)
    (he : Detached s e) :
    ∃ s', s.insert l e (some a) = some s' ∧ GInv s' (upd A l L') ∧
      s'.val = s.val ∧ s'.fresh = s.fresh ∧ s'.nl = s.nl ∧ Ring s'.next s'.prev (l :: L') := by
  obtain ⟨he1, he2, he3⟩ := he
  have hI := h.lists l hl
  have heA : e ∉ l :: A l := by
    simp only [List.mem_cons, not_or]
    refine ⟨by omega, fun hm => ?_⟩
    have := (hI.owner e).2 hm; rw [he3] at this; cases this
  have hea : e ≠ a := by
    intro hh; apply heA; rw [hsplit, hh]; simp
  have haIn : a ∈ l :: A l := by rw [hsplit]; simp
  -- successor of `a`
  have hlinks := ring_links (hsplit ▸ hr)
  obtain ⟨n, hn⟩ : ∃ n, s.next.get a = some n := by
    rw [hlinks.1]; cases post <;> cases pre <;> simp
  have hnIn : n ∈ l :: A l := by
    rw [hlinks.1] at hn; rw [hsplit]
    cases post with
    | nil => cases pre with
      | nil => simp at hn ⊢; exact hn.symm
      | cons p ps => simp at hn ⊢; left; exact hn.symm
    | cons q qs => simp at hn ⊢; right; right; left; exact hn.symm
  have hring' := ring_link (e := e) (n := n) (hsplit ▸ hr) (hsplit ▸ hI.nodup) (hsplit ▸ heA) hn
  rw [← hL'] at hring'
  have hmem : ∀ x, x ∈ L' ↔ x = e ∨ x ∈ A l := by
    intro x
    have h1 : x ∈ l :: L' ↔ x ∈ pre ++ a :: e :: post := by rw [hL']
    have h2 : x ∈ l :: A l ↔ x ∈ pre ++ a :: post := by rw [hsplit]
    simp only [List.mem_cons, List.mem_append] at h1 h2
    by_cases hxl' : x = l
    · rw [hxl']
      have hle : l ≠ e := by omega
      have h3 : l ∉ A l := by have := hI.nodup; simp at this; exact this.1
      have hL'nd : l ∉ L' := by
        have : (pre ++ a :: e :: post).Nodup := by
          have := hsplit ▸ hI.nodup
          have he' := hsplit ▸ heA
          simp [List.nodup_append, List.nodup_cons] at this he' ⊢; grind
        rw [← hL'] at this; simp at this; exact this.1
      simp [h3, hL'nd, hle]
    · grind
  have hlen' : L'.length = (A l).length + 1 := by
    have h1 := congrArg List.length hL'
    have h2 := congrArg List.length hsplit
    simp at h1 h2; omega
  refine ⟨{ s with next := (s.next.set e (some n)).set a (some e),
                   prev := (s.prev.set e (some a)).set n (some e),
                   list := s.list.set e (some l), len := s.len.set l (s.len.get l + 1) },
    by simp only [DSt.insert, linkAfter_eq s e a n hn hea, Option.bind_eq_bind, Option.bind_some]; rfl,
    ?_, rfl, rfl, rfl, hring'⟩
  refine ginv_frame h hl rfl rfl ?_ ?_ ?_ ?_ ⟨Or.inr hring', ?_, ?_, ?_⟩ ?_ ?_ ?_
  · intro x hx1 hx2
    have : x ≠ a := fun hh => hx1 (hh ▸ haIn)
    have : x ≠ e := fun hh => hx2 ((hmem x).2 (Or.inl hh))
    simp [PM.get_set, *]
  · intro x hx1 hx2
    have : x ≠ n := fun hh => hx1 (hh ▸ hnIn)
    have : x ≠ e := fun hh => hx2 ((hmem x).2 (Or.inl hh))
    simp [PM.get_set, *]
  · intro x hx1 hx2
    have : x ≠ e := fun hh => hx2 ((hmem x).2 (Or.inl hh))
    simp [PM.get_set, *]
  · intro k hk; simp [IM.get_set, hk]
  · have : (pre ++ a :: e :: post).Nodup := by
      have := hsplit ▸ hI.nodup
      have he' := hsplit ▸ heA
      simp [List.nodup_append, List.nodup_cons] at this he' ⊢; grind
    rw [hL']; exact this
  · intro x
    simp only [PM.get_set]
    rw [hmem x]
    by_cases hxe : x = e
    · simp [hxe]
    · simp [hxe]; exact hI.owner x
  · simp [IM.get_set, hlen', hI.len]
  · intro x hx
    rcases (hmem x).1 hx with rfl | hx
    · exact ⟨he1, he2⟩
    · exact h.nodes l hl x hx
  · intro x hx hx2
    rcases (hmem x).1 hx with rfl | hx
    · exact he3
    · exact absurd hx hx2
  · intro x hx hx2; exact absurd ((hmem x).2 (Or.inr hx)) hx2


theorem ring_next_mem {nx pv : PM} {pre : List Nat} {a : Nat} {post : List Nat}
    (h : Ring nx pv (pre ++ a :: post)) : ∃ n, nx.get a = some n ∧ n ∈ pre ++ a :: post := by
  have hlinks := ring_links h
  rw [hlinks.1]
  cases post with
  | nil => cases pre with
    | nil => exact ⟨a, by simp, by simp⟩
    | cons p ps => exact ⟨p, by simp, by simp⟩
  | cons q qs => exact ⟨q, by simp, by simp⟩

theorem nodup_sub_mid {pre : List Nat} {p e : Nat} {post : List Nat}
    (nd : (pre ++ p :: e :: post).Nodup) : (pre ++ p :: post).Nodup ∧ e ∉ pre ++ p :: post := by
  simp [List.nodup_append, List.nodup_cons] at nd ⊢; grind

theorem nodup_add_mid {pre : List Nat} {a e : Nat} {post : List Nat}
    (nd : (pre ++ a :: post).Nodup) (he : e ∉ pre ++ a :: post) : (pre ++ a :: e :: post).Nodup := by
  simp [List.nodup_append, List.nodup_cons] at nd he ⊢; grind

/-- Membership in the tails when the heads agree. -/
theorem mem_tail_of_eq {l : Nat} {L c : List Nat} (h : l :: L = c) (nd : c.Nodup) (x : Nat) :
    x ∈ L ↔ x ∈ c ∧ x ≠ l := by
  subst h
  simp only [List.nodup_cons] at nd
  simp only [List.mem_cons]
  constructor
  · intro hx; exact ⟨Or.inr hx, fun hh => nd.1 (hh ▸ hx)⟩
  · rintro ⟨hx | hx, hne⟩
    · exact absurd hx hne
    · exact hx

/-! ### `remove` -/

theorem remove_spec {s : DSt} {A : Nat → List Nat} {l e p : Nat} {pre post L' : List Nat}
    (h : GInv s A) (hl : l < s.nl) (hr : Ring s.next s.prev (l :: A l))
    (hsplit : l :: A l = pre ++ p :: e :: post) (hL' : l :: L' = pre ++ p :: post) :
    ∃ s', s.remove l e = some s' ∧ GInv s' (upd A l L') ∧
      s'.val = s.val ∧ s'.fresh = s.fresh ∧ s'.nl = s.nl ∧ Ring s'.next s'.prev (l :: L') ∧
      Detached s' e := by
  have hI := h.lists l hl
  have hr' : Ring s.next s.prev ((pre ++ [p]) ++ e :: post) := by simpa [hsplit] using hr
  have hlinks := ring_links hr'
  have hp : s.prev.get e = some p := by
    rw [hlinks.2, ← List.append_assoc, ← List.cons_append, List.getLast?_append]; simp
  obtain ⟨n, hn, hnIn'⟩ := ring_next_mem hr'
  have hnIn : n ∈ l :: A l := by rw [hsplit]; simp at hnIn' ⊢; exact hnIn'
  have hpIn : p ∈ l :: A l := by rw [hsplit]; simp
  have heIn : e ∈ l :: A l := by rw [hsplit]; simp
  have hnd := hsplit ▸ hI.nodup
  obtain ⟨nd1, he1⟩ := nodup_sub_mid hnd
  have hring1 := ring_unlink (hsplit ▸ hr) hnd hn
  have hel : e ≠ l := by
    intro hh
    have : e ∈ l :: L' := by rw [hh]; simp
    rw [hL'] at this; exact he1 this
  have heA : e ∈ A l := by simpa [hel] using heIn
  have hring' : Ring ((s.next.set p (some n)).set e none) ((s.prev.set n (some p)).set e none) (l :: L') := by
    rw [hL']
    refine ring_frame ?_ ?_ hring1
    · intro x hx; have : x ≠ e := fun hh => he1 (hh ▸ hx); simp [PM.get_set, this]
    · intro x hx; have : x ≠ e := fun hh => he1 (hh ▸ hx); simp [PM.get_set, this]
  have hmem : ∀ x, x ∈ L' ↔ x ∈ A l ∧ x ≠ e := by
    intro x
    rw [mem_tail_of_eq hL' nd1 x, mem_tail_of_eq hsplit hnd x]
    simp only [List.mem_cons, List.mem_append]; grind
  have hlen' : (A l).length = L'.length + 1 := by
    have h1 := congrArg List.length hL'
    have h2 := congrArg List.length hsplit
    simp at h1 h2; omega
  have hnodeE := h.nodes l hl e heA
  refine ⟨{ s with next := (s.next.set p (some n)).set e none,
                   prev := (s.prev.set n (some p)).set e none,
                   list := s.list.set e none, len := s.len.set l (s.len.get l - 1) },
    by simp only [DSt.remove, unlink_eq s e p n hp hn, Option.bind_eq_bind, Option.bind_some]; rfl,
    ?_, rfl, rfl, rfl, hring', ⟨hnodeE.1, hnodeE.2, by simp [PM.get_set]⟩⟩
  refine ginv_frame h hl rfl rfl ?_ ?_ ?_ ?_ ⟨Or.inr hring', ?_, ?_, ?_⟩ ?_ ?_ ?_
  · intro x hx1 hx2
    have : x ≠ p := fun hh => hx1 (hh ▸ hpIn)
    have : x ≠ e := fun hh => hx1 (hh ▸ heIn)
    simp [PM.get_set, *]
  · intro x hx1 hx2
    have : x ≠ n := fun hh => hx1 (hh ▸ hnIn)
    have : x ≠ e := fun hh => hx1 (hh ▸ heIn)
    simp [PM.get_set, *]
  · intro x hx1 hx2
    have : x ≠ e := fun hh => hx1 (hh ▸ heA)
    simp [PM.get_set, *]
  · intro k hk; simp [IM.get_set, hk]
  · rw [hL']; exact nd1
  · intro x
    simp only [PM.get_set]
    rw [hmem x]
    by_cases hxe : x = e
    · simp [hxe]
    · simp [hxe]; exact hI.owner x
  · simp [IM.get_set, hI.len, hlen']
  · intro x hx; exact h.nodes l hl x ((hmem x).1 hx).1
  · intro x hx hx2; exact absurd ((hmem x).1 hx).1 hx2
  · intro x hx hx2
    have : x = e := by
      by_cases hxe : x = e
      · exact hxe
      · exact absurd ((hmem x).2 ⟨hx, hxe⟩) hx2
    subst this
    simp [PM.get_set]

/-! ### `move` -/

theorem move_spec {s : DSt} {A : Nat → List Nat} {l e p a : Nat} {pre post pre2 post2 L' : List Nat}
    (h : GInv s A) (hl : l < s.nl) (hr : Ring s.next s.prev (l :: A l))
    (hsplit : l :: A l = pre ++ p :: e :: post)
    (hsplit2 : pre ++ p :: post = pre2 ++ a :: post2)
    (hL' : l :: L' = pre2 ++ a :: e :: post2) :
    ∃ s', s.move e (some a) = some s' ∧ GInv s' (upd A l L') ∧
      s'.val = s.val ∧ s'.fresh = s.fresh ∧ s'.nl = s.nl ∧ Ring s'.next s'.prev (l :: L') := by
  have hI := h.lists l hl
  have hr' : Ring s.next s.prev ((pre ++ [p]) ++ e :: post) := by simpa [hsplit] using hr
  have hlinks := ring_links hr'
  have hp : s.prev.get e = some p := by
    rw [hlinks.2, ← List.append_assoc, ← List.cons_append, List.getLast?_append]; simp
  obtain ⟨n, hn, hnIn'⟩ := ring_next_mem hr'
  have hnIn : n ∈ l :: A l := by rw [hsplit]; simp at hnIn' ⊢; exact hnIn'
  have hpIn : p ∈ l :: A l := by rw [hsplit]; simp
  have heIn : e ∈ l :: A l := by rw [hsplit]; simp
  have hnd := hsplit ▸ hI.nodup
  obtain ⟨nd1, he1⟩ := nodup_sub_mid hnd
  have hring1 := ring_unlink (hsplit ▸ hr) hnd hn
  rw [hsplit2] at hring1 nd1 he1
  obtain ⟨n2, hn2, hn2In'⟩ := ring_next_mem hring1
  have hsub : ∀ x, x ∈ pre2 ++ a :: post2 → x ∈ l :: A l := by
    intro x hx; rw [← hsplit2] at hx; rw [hsplit]
    simp only [List.mem_append, List.mem_cons] at hx ⊢; grind
  have hn2In := hsub n2 hn2In'
  have haIn : a ∈ l :: A l := hsub a (by simp)
  have hea : e ≠ a := fun hh => he1 (by rw [hh]; simp)
  have hring' := ring_link (e := e) hring1 nd1 he1 hn2
  rw [← hL'] at hring'
  have nd' := nodup_add_mid nd1 he1
  have hmem : ∀ x, x ∈ L' ↔ x ∈ A l := by
    intro x
    rw [mem_tail_of_eq hL' nd' x, mem_tail_of_eq hsplit hnd x]
    have : x ∈ pre2 ++ a :: post2 ↔ x ∈ pre ++ p :: post := by rw [hsplit2]
    simp only [List.mem_cons, List.mem_append] at this ⊢; grind
  have hlen' : (A l).length = L'.length := by
    have h1 := congrArg List.length hL'
    have h2 := congrArg List.length hsplit
    have h3 := congrArg List.length hsplit2
    simp at h1 h2 h3; omega
  have hne : (some e = some a) = False := by simp [hea]
  refine ⟨{ s with next := ((s.next.set p (some n)).set e (some n2)).set a (some e),
                   prev := ((s.prev.set n (some p)).set e (some a)).set n2 (some e) },
    ?_, ?_, rfl, rfl, rfl, hring'⟩
  · simp only [DSt.move, hne, if_false, unlink_eq s e p n hp hn, Option.bind_eq_bind, Option.bind_some]
    rw [linkAfter_eq _ e a n2 hn2 hea]
  refine ginv_frame h hl rfl rfl ?_ ?_ ?_ ?_ ⟨Or.inr hring', ?_, ?_, ?_⟩ ?_ ?_ ?_
  · intro x hx1 hx2
    have : x ≠ p := fun hh => hx1 (hh ▸ hpIn)
    have : x ≠ e := fun hh => hx1 (hh ▸ heIn)
    have : x ≠ a := fun hh => hx1 (hh ▸ haIn)
    simp [PM.get_set, *]
  · intro x hx1 hx2
    have : x ≠ n := fun hh => hx1 (hh ▸ hnIn)
    have : x ≠ e := fun hh => hx1 (hh ▸ heIn)
    have : x ≠ n2 := fun hh => hx1 (hh ▸ hn2In)
    simp [PM.get_set, *]
  · intro x hx1 hx2; rfl
  · intro k hk; rfl
  · rw [hL']; exact nd'
  · intro x; rw [hmem x]; exact hI.owner x
  · show s.len.get l = _; rw [hI.len, hlen']
  · intro x hx; exact h.nodes l hl x ((hmem x).1 hx)
  · intro x hx hx2; exact absurd ((hmem x).1 hx) hx2
  · intro x hx hx2; exact absurd ((hmem x).2 hx) hx2

end Golib.C13
