/-
C05 helper lemmas: the label trie (prefix closure of the pattern labels), its child
arrays, and the longest-node-suffix function that specifies failure links and automaton
states.
-/
import Golib.Proof.C05Bsearch

set_option linter.unusedSimpArgs false
set_option linter.unusedVariables false

namespace Golib.C05
open Golib

/-- `n` is a trie node: the root or a prefix of an inserted pattern's rune sequence. -/
def isNodeB (ps : List (List Step)) (n : Label) : Bool :=
  n.isEmpty || ps.any fun p => n.isPrefixOf (lab p)

def IsNode (ps : List (List Step)) (n : Label) : Prop := isNodeB ps n = true

theorem isNode_iff (ps : List (List Step)) (n : Label) :
    IsNode ps n ↔ n = [] ∨ ∃ p ∈ ps, n <+: lab p := by
  simp only [IsNode, isNodeB, Bool.or_eq_true, List.isEmpty_iff, List.any_eq_true,
    List.isPrefixOf_iff_prefix]

theorem isNode_nil (ps : List (List Step)) : IsNode ps [] := by simp [IsNode, isNodeB]

/-- Nodes are closed under taking prefixes. -/
theorem IsNode.prefix {ps : List (List Step)} {n m : Label} (h : IsNode ps (n ++ m)) : IsNode ps n := by
  rw [isNode_iff] at h ⊢
  rcases h with h | ⟨p, hp, hpre⟩
  · left; exact (List.append_eq_nil_iff.1 h).1
  · right; exact ⟨p, hp, (List.prefix_append n m).trans hpre⟩

theorem nextRune?_eq_some (n l : Label) (r : Int) : nextRune? n l = some r ↔ n ++ [r] <+: l := by
  unfold nextRune?
  by_cases hp : n.isPrefixOf l = true
  · simp only [hp, if_true]
    obtain ⟨t, rfl⟩ := List.isPrefixOf_iff_prefix.1 hp
    rw [List.getElem?_append_right (Nat.le_refl _), Nat.sub_self, List.prefix_append_right_inj]
    cases t with
    | nil => simp
    | cons a t => simp [List.cons_prefix_cons, eq_comm]
  · simp only [hp]
    constructor
    · intro h; cases h
    · intro h
      exact absurd (List.isPrefixOf_iff_prefix.2 ((List.prefix_append n [r]).trans h)) hp

/-- The child array of a node holds exactly the runes leading to a child node. -/
theorem mem_children_iff {ps : List (List Step)} {n : Label} {cs : List Int}
    (h : childrenOf ps n = some cs) (r : Int) : r ∈ cs ↔ IsNode ps (n ++ [r]) := by
  obtain ⟨cs', h1, _, h3⟩ := childrenOf_spec ps n
  rw [h] at h1; cases h1
  rw [h3 r, isNode_iff]
  constructor
  · rintro ⟨p, hp, hn⟩; exact Or.inr ⟨p, hp, (nextRune?_eq_some _ _ _).1 hn⟩
  · rintro (h | ⟨p, hp, hn⟩)
    · simp at h
    · exact ⟨p, hp, (nextRune?_eq_some _ _ _).2 hn⟩

theorem children_sorted {ps : List (List Step)} {n : Label} {cs : List Int}
    (h : childrenOf ps n = some cs) : StrictSorted cs := by
  obtain ⟨cs', h1, h2, _⟩ := childrenOf_spec ps n
  rw [h] at h1; cases h1; exact h2

theorem children_exists (ps : List (List Step)) (n : Label) : ∃ cs, childrenOf ps n = some cs := by
  obtain ⟨cs, h, _⟩ := childrenOf_spec ps n; exact ⟨cs, h⟩

/-! ### longest suffix that is a node -/

/-- The longest suffix of `n` (possibly `n` itself) that is a trie node. -/
def lns (ps : List (List Step)) : Label → Label
  | [] => []
  | a :: l => if isNodeB ps (a :: l) then a :: l else lns ps l

/-- Specification of `fail`: the longest *proper* suffix that is a node. -/
def lps (ps : List (List Step)) (n : Label) : Label := lns ps n.tail

theorem lns_suffix (ps : List (List Step)) : ∀ n, lns ps n <:+ n
  | [] => List.suffix_refl _
  | a :: l => by
    simp only [lns]; split
    · exact List.suffix_refl _
    · exact (lns_suffix ps l).trans (List.suffix_cons a l)

theorem lns_isNode (ps : List (List Step)) : ∀ n, IsNode ps (lns ps n)
  | [] => isNode_nil ps
  | a :: l => by
    simp only [lns]; split
    · assumption
    · exact lns_isNode ps l

theorem lns_max (ps : List (List Step)) : ∀ n s, s <:+ n → IsNode ps s → s <:+ lns ps n
  | [], s, hs, _ => by simpa [lns] using hs
  | a :: l, s, hs, hn => by
    simp only [lns]
    rcases List.suffix_cons_iff.1 hs with h | h
    · subst h; rw [show isNodeB ps (a :: l) = true from hn]; exact List.suffix_refl _
    · split
      · exact h.trans (List.suffix_cons a l)
      · exact lns_max ps l s h hn

theorem lns_of_isNode {ps : List (List Step)} {n : Label} (h : IsNode ps n) : lns ps n = n := by
  cases n with
  | nil => rfl
  | cons a l => simp only [lns, show isNodeB ps (a :: l) = true from h, if_true]

theorem suffix_antisymm {α} {a b : List α} (h1 : a <:+ b) (h2 : b <:+ a) : a = b :=
  h1.eq_of_length (Nat.le_antisymm h1.length_le h2.length_le)

/-- `lns` is characterised by its three properties. -/
theorem lns_unique {ps : List (List Step)} {n m : Label} (h1 : m <:+ n) (h2 : IsNode ps m)
    (h3 : ∀ s, s <:+ n → IsNode ps s → s <:+ m) : m = lns ps n :=
  suffix_antisymm (lns_max ps n m h1 h2) (h3 _ (lns_suffix ps n) (lns_isNode ps n))

theorem lns_length_le (ps : List (List Step)) (n : Label) : (lns ps n).length ≤ n.length :=
  (lns_suffix ps n).length_le

theorem lps_length_lt (ps : List (List Step)) (n : Label) (h : n ≠ []) : (lps ps n).length < n.length := by
  cases n with
  | nil => exact absurd rfl h
  | cons a l => simp only [lps, List.tail_cons, List.length_cons]; have := lns_length_le ps l; omega

theorem lps_suffix (ps : List (List Step)) (n : Label) : lps ps n <:+ n :=
  (lns_suffix ps n.tail).trans (List.tail_suffix n)

theorem lps_isNode (ps : List (List Step)) (n : Label) : IsNode ps (lps ps n) := lns_isNode ps _

/-- The automaton transition: the state after appending `r` to a text whose state is
`lns text` only depends on that state. -/
theorem lns_snoc (ps : List (List Step)) (text : Label) (r : Int) :
    lns ps (text ++ [r]) = lns ps (lns ps text ++ [r]) := by
  symm
  apply lns_unique
  · refine (lns_suffix ps _).trans ?_
    obtain ⟨u, hu⟩ := lns_suffix ps text
    exact ⟨u, by rw [← List.append_assoc, hu]⟩
  · exact lns_isNode ps _
  · intro s hs hn
    rcases List.suffix_concat_iff.1 hs with h | ⟨t, rfl, ht⟩
    · subst h; exact List.nil_suffix
    · apply lns_max ps _ _ _ hn
      have : t <:+ lns ps text := lns_max ps text t ht hn.prefix
      obtain ⟨u, hu⟩ := this
      exact ⟨u, by rw [← hu, List.append_assoc]⟩

end Golib.C05
