/-
C02 pointer model, part 6: one method call and whole runs of the pointer model against the
levels-as-lists model.
-/
import Golib.Proof.C02PtrWrite
import Golib.Proof.C02PtrRead

set_option linter.unusedSectionVars false
set_option linter.unusedSimpArgs false
set_option linter.unusedVariables false

namespace Golib.C02

variable {K V : Type} [DecidableEq K]

/-- A node result as the harness observes it: `node.Key()` (`none`: nil dereference). -/
def PSL.nodeKey (p : PSL K V) : Option Nat → Option (Option K)
  | none => some none
  | some id => (p.keyOf id).map some

/-- One method call on the pointer model (`none` = panic); node results are reported by key.
`Range` of `SkipList` (`cfg.lazy`) is the `cur.next[0]` loop, that of `SkipListWithCmp` and both
`All` are the `e = e.next[0]` loop. -/
def PSL.step (cfg : Cfg K V) (p : PSL K V) : Op K V → Option (PSL K V × Out K V)
  | .set k v r => (p.set cfg k v 0 r).map fun (p', _) => (p', .unit)
  | .setX k v r => (p.set cfg k v 1 r).map fun (p', b) => (p', .bool b)
  | .setNx k v r => (p.set cfg k v 2 r).map fun (p', b) => (p', .bool b)
  | .remove k => (p.remove cfg k).map fun (p', v, b) => (p', .valBool v b)
  | .clear => some (p.clear cfg, .unit)
  | .get k => (p.get cfg k).map fun (v, b) => (p, .valBool v b)
  | .getNode k => (p.getNode cfg k).bind fun n => (p.nodeKey n).map fun kk => (p, .node kk)
  | .setNodeValue k v => (p.getNode cfg k).bind fun n =>
      match n with
      | none => some (p, .node none)
      | some id => (p.keyOf id).map fun kk => (p.setNodeValue id v, .node (some kk))
  | .len => some (p, .int p.len)
  | .head => p.headNode.bind fun n => (p.nodeKey n).map fun kk => (p, .node kk)
  | .keys => (p.keys cfg).map fun ks => (p, .keys ks)
  | .values => (p.values cfg).map fun vs => (p, .vals vs)
  | .range stop =>
      ((if cfg.lazy then p.rangeCur cfg stop else p.rangeE cfg stop)).map fun xs => (p, .kvs xs)
  | .all stop => (p.rangeE cfg stop).map fun xs => (p, .kvs xs)
  | .rangeWithStart st stop => (p.rangeFrom cfg st none stop).map fun xs => (p, .kvs xs)
  | .rangeWithRange st e stop => (p.rangeFrom cfg st (some e) stop).map fun xs => (p, .kvs xs)

/-- Run a sequence of calls on the pointer model. -/
def PSL.run (cfg : Cfg K V) : PSL K V → List (Op K V) → Option (PSL K V × List (Out K V))
  | p, [] => some (p, [])
  | p, op :: ops =>
    match p.step cfg op with
    | none => none
    | some (p', out) => (PSL.run cfg p' ops).map fun (p'', outs) => (p'', out :: outs)

theorem Good.chain0_zero {cfg : Cfg K V} {s : SL K V} (hg : Good cfg s) {n : K} (hn : n ∈ chain0 s) :
    Inv cfg.cmp s := by
  rcases hg with h | ⟨_, rfl⟩
  · exact h
  · simp [chain0, SL.zero] at hn

/-- One call: if the list model answers, the pointer model gives the same answer and the
abstraction relation is kept. -/
theorem step_ptr (cfg : Cfg K V) (hc : WeakCmp cfg.cmp) (hf : cfg.fixed = true) {p : PSL K V} {s : SL K V}
    (hab : Abs p s) (hg : Good cfg s) (op : Op K V) {s' : SL K V} {out : Out K V}
    (hs : s.step cfg op = some (s', out)) :
    ∃ p', p.step cfg op = some (p', out) ∧ Abs p' s' := by
  obtain ⟨f, ha, hkey, rGetNode, rGet, rHead, _, rKeys, rValues, rRange, rFrom, _, _, _⟩ :=
    abs_reads cfg hc hab hg
  cases op with
  | set k v r =>
    simp only [SL.step] at hs
    cases h : s.set cfg k v 0 r with
    | none => rw [h] at hs; cases hs
    | some sb =>
      obtain ⟨s1, b⟩ := sb
      rw [h] at hs; simp only [Option.map_some, Option.some.injEq, Prod.mk.injEq] at hs
      obtain ⟨rfl, rfl⟩ := hs
      obtain ⟨p', h1, h2⟩ := set_ptr cfg hc hab hg k v 0 r h
      exact ⟨p', by simp [PSL.step, h1], h2⟩
  | setX k v r =>
    simp only [SL.step] at hs
    cases h : s.set cfg k v 1 r with
    | none => rw [h] at hs; cases hs
    | some sb =>
      obtain ⟨s1, b⟩ := sb
      rw [h] at hs; simp only [Option.map_some, Option.some.injEq, Prod.mk.injEq] at hs
      obtain ⟨rfl, rfl⟩ := hs
      obtain ⟨p', h1, h2⟩ := set_ptr cfg hc hab hg k v 1 r h
      exact ⟨p', by simp [PSL.step, h1], h2⟩
  | setNx k v r =>
    simp only [SL.step] at hs
    cases h : s.set cfg k v 2 r with
    | none => rw [h] at hs; cases hs
    | some sb =>
      obtain ⟨s1, b⟩ := sb
      rw [h] at hs; simp only [Option.map_some, Option.some.injEq, Prod.mk.injEq] at hs
      obtain ⟨rfl, rfl⟩ := hs
      obtain ⟨p', h1, h2⟩ := set_ptr cfg hc hab hg k v 2 r h
      exact ⟨p', by simp [PSL.step, h1], h2⟩
  | remove k =>
    simp only [SL.step] at hs
    cases h : s.remove cfg k with
    | none => rw [h] at hs; cases hs
    | some sb =>
      obtain ⟨s1, v, b⟩ := sb
      rw [h] at hs; simp only [Option.map_some, Option.some.injEq, Prod.mk.injEq] at hs
      obtain ⟨rfl, rfl⟩ := hs
      obtain ⟨p', h1, h2⟩ := remove_ptr cfg hc hab hg k h
      exact ⟨p', by simp [PSL.step, h1], h2⟩
  | clear =>
    simp only [SL.step, Option.some.injEq, Prod.mk.injEq] at hs
    obtain ⟨rfl, rfl⟩ := hs
    exact ⟨p.clear cfg, by simp [PSL.step], f, clear_ptr cfg ha⟩
  | get k =>
    simp only [SL.step] at hs
    cases h : s.get cfg k with
    | none => rw [h] at hs; cases hs
    | some vb =>
      rw [h] at hs; simp only [Option.map_some, Option.some.injEq, Prod.mk.injEq] at hs
      obtain ⟨rfl, rfl⟩ := hs
      exact ⟨p, by simp [PSL.step, rGet k vb h], hab⟩
  | getNode k =>
    simp only [SL.step] at hs
    cases h : s.getNode cfg k with
    | none => rw [h] at hs; cases hs
    | some r =>
      rw [h] at hs; simp only [Option.map_some, Option.some.injEq, Prod.mk.injEq] at hs
      obtain ⟨rfl, rfl⟩ := hs
      refine ⟨p, ?_, hab⟩
      simp only [PSL.step, rGetNode k r h, Option.bind_some]
      cases r with
      | none => rfl
      | some n =>
        have hn := getNode_mem_chain0 cfg hc hf hg h
        simp [PSL.nodeKey, hkey n hn]
  | setNodeValue k v =>
    simp only [SL.step] at hs
    cases h : s.getNode cfg k with
    | none => rw [h] at hs; cases hs
    | some r =>
      rw [h] at hs; simp only [Option.map_some, Option.some.injEq] at hs
      simp only [PSL.step, rGetNode k r h, Option.bind_some]
      cases r with
      | none =>
        simp only [Prod.mk.injEq] at hs
        obtain ⟨rfl, rfl⟩ := hs
        exact ⟨p, rfl, hab⟩
      | some n =>
        simp only [Prod.mk.injEq] at hs
        obtain ⟨rfl, rfl⟩ := hs
        have hn := getNode_mem_chain0 cfg hc hf hg h
        have hi := hg.chain0_zero hn
        exact ⟨p.setNodeValue (f n) v, by simp [hkey n hn], f, setNodeValue_ptr ha hi hn v⟩
  | len =>
    simp only [SL.step, Option.some.injEq, Prod.mk.injEq] at hs
    obtain ⟨rfl, rfl⟩ := hs
    exact ⟨p, by simp [PSL.step, ha.len], hab⟩
  | head =>
    simp only [SL.step] at hs
    cases h : s.head with
    | none => rw [h] at hs; cases hs
    | some r =>
      rw [h] at hs; simp only [Option.map_some, Option.some.injEq, Prod.mk.injEq] at hs
      obtain ⟨rfl, rfl⟩ := hs
      refine ⟨p, ?_, hab⟩
      simp only [PSL.step, rHead r h, Option.bind_some]
      cases r with
      | none => rfl
      | some n =>
        -- the head node is on the level-0 chain
        have hn : n ∈ chain0 s := by
          unfold SL.head at h
          split at h
          · cases h
          · cases hl : s.lv with
            | nil => rw [hl] at h; cases h
            | cons l0 rest =>
              rw [hl] at h
              simp only [Option.some.injEq] at h
              unfold chain0; rw [hl]
              exact List.mem_of_mem_head? h
        simp [PSL.nodeKey, hkey n hn]
  | keys =>
    simp only [SL.step] at hs
    cases h : s.keys cfg with
    | none => rw [h] at hs; cases hs
    | some r =>
      rw [h] at hs; simp only [Option.map_some, Option.some.injEq, Prod.mk.injEq] at hs
      obtain ⟨rfl, rfl⟩ := hs
      exact ⟨p, by simp [PSL.step, rKeys r h], hab⟩
  | values =>
    simp only [SL.step] at hs
    cases h : s.values cfg with
    | none => rw [h] at hs; cases hs
    | some r =>
      rw [h] at hs; simp only [Option.map_some, Option.some.injEq, Prod.mk.injEq] at hs
      obtain ⟨rfl, rfl⟩ := hs
      exact ⟨p, by simp [PSL.step, rValues r h], hab⟩
  | range stop =>
    simp only [SL.step] at hs
    cases h : s.range cfg stop with
    | none => rw [h] at hs; cases hs
    | some r =>
      rw [h] at hs; simp only [Option.map_some, Option.some.injEq, Prod.mk.injEq] at hs
      obtain ⟨rfl, rfl⟩ := hs
      obtain ⟨h1, h2⟩ := rRange stop r h
      refine ⟨p, ?_, hab⟩
      simp only [PSL.step]
      split <;> simp [h1, h2]
  | all stop =>
    simp only [SL.step] at hs
    cases h : s.range cfg stop with
    | none => rw [h] at hs; cases hs
    | some r =>
      rw [h] at hs; simp only [Option.map_some, Option.some.injEq, Prod.mk.injEq] at hs
      obtain ⟨rfl, rfl⟩ := hs
      exact ⟨p, by simp [PSL.step, (rRange stop r h).2], hab⟩
  | rangeWithStart st stop =>
    simp only [SL.step] at hs
    cases h : s.rangeFrom cfg st none stop with
    | none => rw [h] at hs; cases hs
    | some r =>
      rw [h] at hs; simp only [Option.map_some, Option.some.injEq, Prod.mk.injEq] at hs
      obtain ⟨rfl, rfl⟩ := hs
      exact ⟨p, by simp [PSL.step, rFrom st none stop r h], hab⟩
  | rangeWithRange st e stop =>
    simp only [SL.step] at hs
    cases h : s.rangeFrom cfg st (some e) stop with
    | none => rw [h] at hs; cases hs
    | some r =>
      rw [h] at hs; simp only [Option.map_some, Option.some.injEq, Prod.mk.injEq] at hs
      obtain ⟨rfl, rfl⟩ := hs
      exact ⟨p, by simp [PSL.step, rFrom st (some e) stop r h], hab⟩

/-- One call from a reachable state: the pointer model does not panic, answers what the list
model answers, and the successor states are again related (and reachable). -/
theorem step_ptr_total (cfg : Cfg K V) (hc : WeakCmp cfg.cmp) (hf : cfg.fixed = true) {p : PSL K V}
    {s : SL K V} (hab : Abs p s) (hg : Good cfg s) (op : Op K V) :
    ∃ p' s' out, p.step cfg op = some (p', out) ∧ s.step cfg op = some (s', out) ∧ Abs p' s' ∧ Good cfg s' := by
  obtain ⟨s', out, h1, h2, _, _⟩ := step_sim_weak cfg hc hf hg op
  obtain ⟨p', h3, h4⟩ := step_ptr cfg hc hf hab hg op h1
  exact ⟨p', s', out, h3, h1, h4, h2⟩

/-- Whole runs commute: same outputs, related final states. -/
theorem run_ptr (cfg : Cfg K V) (hc : WeakCmp cfg.cmp) (hf : cfg.fixed = true) :
    ∀ (ops : List (Op K V)) {p : PSL K V} {s : SL K V}, Abs p s → Good cfg s →
      ∃ p' s' outs, PSL.run cfg p ops = some (p', outs) ∧ SL.run cfg s ops = some (s', outs) ∧
        Abs p' s' ∧ Good cfg s' := by
  intro ops
  induction ops with
  | nil => intro p s hab hg; exact ⟨p, s, [], rfl, rfl, hab, hg⟩
  | cons op ops ih =>
    intro p s hab hg
    obtain ⟨p1, s1, out, h1, h2, h3, h4⟩ := step_ptr_total cfg hc hf hab hg op
    obtain ⟨p2, s2, outs, g1, g2, g3, g4⟩ := ih h3 h4
    exact ⟨p2, s2, out :: outs, by simp [PSL.run, h1, g1], by simp [SL.run, h2, g2], g3, g4⟩

/-! ### the same with the tower heights -/

/-- `Abs` plus: the tower of every live node is exactly as high as the number of levels its
key is linked in. -/
def AbsH (p : PSL K V) (s : SL K V) : Prop := ∃ f : K → Nat, AbsF f p s ∧ Hts f p s

theorem absH_zero : AbsH (PSL.zero : PSL K V) (SL.zero : SL K V) :=
  ⟨fun _ => 0, absF_zero _, fun k hk => by simp [chain0, SL.zero] at hk⟩

theorem absH_init : AbsH (PSL.init : PSL K V) (SL.init : SL K V) :=
  ⟨fun _ => 0, absF_init _, fun k hk => by simp [chain0, SL.init, maxLevel] at hk⟩

theorem AbsH.abs {p : PSL K V} {s : SL K V} (h : AbsH p s) : Abs p s := let ⟨f, ha, _⟩ := h; ⟨f, ha⟩

/-- The calls that do not write. -/
def Op.isRead : Op K V → Bool
  | .set .. | .setX .. | .setNx .. | .remove _ | .clear | .setNodeValue .. => false
  | _ => true

theorem PSL.step_read {cfg : Cfg K V} {p p' : PSL K V} {op : Op K V} {out : Out K V}
    (hr : op.isRead = true) (hs : p.step cfg op = some (p', out)) : p' = p := by
  cases op <;> first
    | (simp only [Op.isRead, Bool.false_eq_true] at hr; done)
    | (simp only [PSL.step, Option.map_eq_some_iff, Option.bind_eq_some_iff, Option.some.injEq,
        Prod.mk.injEq] at hs
       first
        | exact hs.1.symm
        | (obtain ⟨_, _, h, _⟩ := hs; exact h.symm)
        | (obtain ⟨_, _, _, _, h, _⟩ := hs; exact h.symm))

theorem SL.step_read {cfg : Cfg K V} {s s' : SL K V} {op : Op K V} {out : Out K V}
    (hr : op.isRead = true) (hs : s.step cfg op = some (s', out)) : s' = s := by
  cases op <;> first
    | (simp only [Op.isRead, Bool.false_eq_true] at hr; done)
    | (simp only [SL.step, Option.map_eq_some_iff, Option.bind_eq_some_iff, Option.some.injEq,
        Prod.mk.injEq] at hs
       first
        | exact hs.1.symm
        | (obtain ⟨_, _, h, _⟩ := hs; exact h.symm)
        | (obtain ⟨_, _, _, _, h, _⟩ := hs; exact h.symm))

/-- One call keeps the relation with heights. -/
theorem step_ptr_h (cfg : Cfg K V) (hc : WeakCmp cfg.cmp) (hf : cfg.fixed = true) {p : PSL K V} {s : SL K V}
    (hab : AbsH p s) (hg : Good cfg s) (op : Op K V) {s' : SL K V} {out : Out K V}
    (hs : s.step cfg op = some (s', out)) :
    ∃ p', p.step cfg op = some (p', out) ∧ AbsH p' s' := by
  by_cases hr : op.isRead = true
  · obtain ⟨p', h1, _⟩ := step_ptr cfg hc hf hab.abs hg op hs
    have e1 := PSL.step_read hr h1
    have e2 := SL.step_read hr hs
    subst e1; subst e2
    exact ⟨p', h1, hab⟩
  · obtain ⟨f, ha, hh⟩ := hab
    cases op with
    | set k v r =>
      simp only [SL.step] at hs
      cases h : s.set cfg k v 0 r with
      | none => rw [h] at hs; cases hs
      | some sb =>
        obtain ⟨s1, b⟩ := sb
        rw [h] at hs; simp only [Option.map_some, Option.some.injEq, Prod.mk.injEq] at hs
        obtain ⟨rfl, rfl⟩ := hs
        obtain ⟨p', f', h1, h2, h3⟩ := set_ptr_h cfg hc ha hg k v 0 r h
        exact ⟨p', by simp [PSL.step, h1], f', h2, h3 hh⟩
    | setX k v r =>
      simp only [SL.step] at hs
      cases h : s.set cfg k v 1 r with
      | none => rw [h] at hs; cases hs
      | some sb =>
        obtain ⟨s1, b⟩ := sb
        rw [h] at hs; simp only [Option.map_some, Option.some.injEq, Prod.mk.injEq] at hs
        obtain ⟨rfl, rfl⟩ := hs
        obtain ⟨p', f', h1, h2, h3⟩ := set_ptr_h cfg hc ha hg k v 1 r h
        exact ⟨p', by simp [PSL.step, h1], f', h2, h3 hh⟩
    | setNx k v r =>
      simp only [SL.step] at hs
      cases h : s.set cfg k v 2 r with
      | none => rw [h] at hs; cases hs
      | some sb =>
        obtain ⟨s1, b⟩ := sb
        rw [h] at hs; simp only [Option.map_some, Option.some.injEq, Prod.mk.injEq] at hs
        obtain ⟨rfl, rfl⟩ := hs
        obtain ⟨p', f', h1, h2, h3⟩ := set_ptr_h cfg hc ha hg k v 2 r h
        exact ⟨p', by simp [PSL.step, h1], f', h2, h3 hh⟩
    | remove k =>
      simp only [SL.step] at hs
      cases h : s.remove cfg k with
      | none => rw [h] at hs; cases hs
      | some sb =>
        obtain ⟨s1, v, b⟩ := sb
        rw [h] at hs; simp only [Option.map_some, Option.some.injEq, Prod.mk.injEq] at hs
        obtain ⟨rfl, rfl⟩ := hs
        obtain ⟨p', h1, h2, h3⟩ := remove_ptr_h cfg hc ha hg k h
        exact ⟨p', by simp [PSL.step, h1], f, h2, h3 hh⟩
    | clear =>
      simp only [SL.step, Option.some.injEq, Prod.mk.injEq] at hs
      obtain ⟨rfl, rfl⟩ := hs
      exact ⟨p.clear cfg, by simp [PSL.step], f, clear_ptr cfg ha, clear_hts cfg hh⟩
    | setNodeValue k v =>
      simp only [SL.step] at hs
      cases h : s.getNode cfg k with
      | none => rw [h] at hs; cases hs
      | some r =>
        rw [h] at hs; simp only [Option.map_some, Option.some.injEq] at hs
        have hgn := ha.getNode_sim (hg.rdOk hc) cfg k h
        simp only [PSL.step, hgn, Option.bind_some]
        cases r with
        | none =>
          simp only [Prod.mk.injEq] at hs
          obtain ⟨rfl, rfl⟩ := hs
          exact ⟨p, rfl, f, ha, hh⟩
        | some n =>
          simp only [Prod.mk.injEq] at hs
          obtain ⟨rfl, rfl⟩ := hs
          have hn := getNode_mem_chain0 cfg hc hf hg h
          have hi := hg.chain0_zero hn
          exact ⟨p.setNodeValue (f n) v, by simp [ha.keyOf hn], f, setNodeValue_ptr ha hi hn v,
            setNodeValue_hts ha hh hi hn v⟩
    | _ => exact absurd rfl hr

/-- Whole runs keep the relation with heights. -/
theorem run_ptr_h (cfg : Cfg K V) (hc : WeakCmp cfg.cmp) (hf : cfg.fixed = true) :
    ∀ (ops : List (Op K V)) {p : PSL K V} {s : SL K V}, AbsH p s → Good cfg s →
      ∃ p' s' outs, PSL.run cfg p ops = some (p', outs) ∧ SL.run cfg s ops = some (s', outs) ∧
        AbsH p' s' ∧ Good cfg s' := by
  intro ops
  induction ops with
  | nil => intro p s hab hg; exact ⟨p, s, [], rfl, rfl, hab, hg⟩
  | cons op ops ih =>
    intro p s hab hg
    obtain ⟨s1, out, h2, h4, _, _⟩ := step_sim_weak cfg hc hf hg op
    obtain ⟨p1, h1, h3⟩ := step_ptr_h cfg hc hf hab hg op h2
    obtain ⟨p2, s2, outs, g1, g2, g3, g4⟩ := ih h3 h4
    exact ⟨p2, s2, out :: outs, by simp [PSL.run, h1, g1], by simp [SL.run, h2, g2], g3, g4⟩

/-- What the height clause says for the computed dump: a node on the level-0 chain is on the
level-`i` chain exactly for `i < len(next)`. -/
theorem absH_content (cfg : Cfg K V) (hc : WeakCmp cfg.cmp) {p : PSL K V} {s : SL K V} (hab : AbsH p s)
    (hi : Inv cfg.cmp s) :
    ∀ id ∈ p.chain 0, ∃ nd, p.nodes[id]? = some nd ∧ nd.next.size ≤ maxLevel ∧
      ∀ i, i < maxLevel → (id ∈ p.chain i ↔ i < nd.next.size) := by
  obtain ⟨f, ha, hh⟩ := hab
  obtain ⟨rest, hr⟩ := hi.lv_cons
  have hnd := hi.lv_nodup hc
  have h0 : s.lv[0]? = some (chain0 s) := by rw [hr]; rfl
  obtain ⟨e0, _⟩ := ha.chain_eq hnd h0
  obtain ⟨st, c1, c2⟩ := ha.chains 0 _ h0
  intro id hid
  rw [e0] at hid
  obtain ⟨k, hk, rfl⟩ := List.mem_map.mp hid
  obtain ⟨nd, _, n1, _, _⟩ := c2.node k hk
  have hsz := hh k hk nd n1
  obtain ⟨hpre, hpost⟩ := tower_prefix k hi.tower
  have hle : heightOf s k ≤ maxLevel := by
    have := hi.heightOf_le k; have := hi.lvl.2; omega
  refine ⟨nd, n1, by rw [hsz]; exact hle, ?_⟩
  intro i hi32
  have hil : i < s.lv.length := by rw [hi.len32]; exact hi32
  have hl : s.lv[i]? = some s.lv[i] := List.getElem?_eq_getElem hil
  obtain ⟨ei, _⟩ := ha.chain_eq hnd hl
  obtain ⟨sti, d1, d2⟩ := ha.chains i _ hl
  rw [ei, hsz]
  constructor
  · intro hm
    obtain ⟨k', hk', e⟩ := List.mem_map.mp hm
    have : k' = k := d2.inj c2 hk' hk e
    subst this
    rcases Nat.lt_or_ge i (heightOf s k') with h | h
    · exact h
    · exfalso
      apply hpost s.lv[i] _ hk'
      rw [List.mem_iff_getElem?]
      refine ⟨i - heightOf s k', ?_⟩
      unfold heightOf at h ⊢
      rw [List.getElem?_drop, ← hl]; congr 1; omega
  · intro hlt
    apply List.mem_map_of_mem
    apply hpre
    rw [List.mem_iff_getElem?]
    exact ⟨i, by unfold heightOf at hlt; rw [List.getElem?_take]; simp [hlt, hl]⟩

/-! ### readable consequences of the abstraction relation -/

theorem filterMap_congr_some {α β : Type} {g h : α → Option β} :
    ∀ {l : List α}, (∀ a ∈ l, g a = h a) → l.filterMap g = l.filterMap h := by
  intro l
  induction l with
  | nil => intro _; rfl
  | cons x xs ih =>
    intro hh
    simp only [List.filterMap_cons, hh x (by simp)]
    rw [ih (fun a ha => hh a (by simp [ha]))]

/-- The `(key, val)` pairs along the level-0 pointer chain are the abstract map. -/
theorem AbsF.absVals_eq {f : K → Nat} {p : PSL K V} {s : SL K V} (ha : AbsF f p s)
    (hnd : ∀ l ∈ s.lv, l.Nodup) : p.absVals = toMap s := by
  cases hl : s.lv with
  | nil =>
    have hh := ha.headNone.mpr hl
    simp [PSL.absVals, PSL.chain, PSL.nextOf, hh, PSL.chainFrom, toMap, chain0, hl]
  | cons l0 rest =>
    have h0 : s.lv[0]? = some l0 := by rw [hl]; rfl
    have hc0 : chain0 s = l0 := by simp [chain0, hl]
    obtain ⟨e, _⟩ := ha.chain_eq hnd h0
    obtain ⟨st, c1, c2⟩ := ha.chains 0 l0 h0
    unfold PSL.absVals toMap
    rw [e, hc0, List.filterMap_map]
    apply filterMap_congr_some
    intro k hk
    obtain ⟨nd, _, n1, n2, _⟩ := c2.node k hk
    have := ha.vals k (hc0 ▸ hk) nd n1
    simp [n1, n2, this]

/-- No cycle, the key lists, the tower sizes: what `Abs` says in terms of the computed dump. -/
theorem abs_content (cfg : Cfg K V) (hc : WeakCmp cfg.cmp) {p : PSL K V} {s : SL K V} (hab : Abs p s)
    (hg : Good cfg s) :
    p.absLv = s.lv ∧ p.absVals = toMap s ∧ p.level = s.level ∧ p.len = s.len ∧
    (p.head = none ↔ s.lv = []) ∧
    ∀ i l, s.lv[i]? = some l →
      (p.chain i).Nodup ∧ (p.chain i).filterMap p.keyOf = l ∧ (p.chain i).length ≤ p.nodes.size ∧
      ∀ id ∈ p.chain i, ∃ nd, p.nodes[id]? = some nd ∧ i < nd.next.size := by
  obtain ⟨f, ha⟩ := hab
  have hnd := hg.lv_nodup hc
  refine ⟨ha.absLv_eq hnd, ha.absVals_eq hnd, ha.level, ha.len, ha.headNone, ?_⟩
  intro i l hl
  obtain ⟨e1, e2⟩ := ha.chain_eq hnd hl
  obtain ⟨st, c1, c2⟩ := ha.chains i l hl
  have hl' : l ∈ s.lv := List.mem_of_getElem? hl
  refine ⟨by rw [e1]; exact c2.nodup_ids (hnd l hl'), e2, ?_, ?_⟩
  · rw [e1, List.length_map]; exact c2.length_le (hnd l hl')
  · intro id hid
    rw [e1] at hid
    obtain ⟨k, hk, rfl⟩ := List.mem_map.mp hid
    exact c2.slot_lt hk

end Golib.C02
