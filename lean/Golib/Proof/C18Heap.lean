/-
Heap-level primitives of the FindDpSolvers model: what `append` and the pool do to the
buffers, with the frame property (buffers not named are untouched).
-/
import Golib.Proof.C18AList

namespace Golib.C18

variable {α : Type}

theorem readS_congr {h h' : Heap α} {s : Slice} (e : h'[s.buf]? = h[s.buf]?) :
    readS h' s = readS h s := by
  simp only [readS, e]

theorem readS_some_lt {h : Heap α} {s : Slice} {val : List α} (e : readS h s = some val) :
    s.buf < h.length ∧ val.length = s.len := by
  unfold readS at e
  cases hb : h[s.buf]? with
  | none => simp [hb] at e
  | some b =>
    simp only [hb] at e
    split at e
    · cases e
      refine ⟨(List.getElem?_eq_some_iff.mp hb).1, ?_⟩
      simp only [List.length_take]; omega
    · cases e

/-- `append(s, xs...)`: the result reads `val ++ xs`; only the buffer of `s` (in place) or a
fresh buffer is written. -/
theorem appendS_spec (grow : Nat → Nat) (h : Heap α) (s : Slice) (xs val : List α)
    (hr : readS h s = some val) :
    ∃ h' s', appendS grow h s xs = some (h', s') ∧ readS h' s' = some (val ++ xs) ∧
      h.length ≤ h'.length ∧ s'.buf < h'.length ∧ (s'.buf = s.buf ∨ s'.buf = h.length) ∧
      (∀ j, j ≠ s.buf → j < h.length → h'[j]? = h[j]?) := by
  have hlt := (readS_some_lt hr).1
  unfold readS at hr
  cases hb : h[s.buf]? with
  | none => simp [hb] at hr
  | some b =>
    simp only [hb] at hr
    split at hr
    · rename_i hle
      cases hr
      unfold appendS
      simp only [hb]
      have hnl : ¬ b.data.length < s.len := by omega
      simp only [hnl, if_false]
      have hA : (b.data.take s.len).length = s.len := by simp only [List.length_take]; omega
      by_cases hcap : s.len + xs.length ≤ b.cap
      · simp only [hcap, if_true]
        refine ⟨_, _, rfl, ?_, by simp, by simp; exact hlt, Or.inl rfl, ?_⟩
        · simp only [readS, List.getElem?_set_self hlt]
          have hlen : s.len + xs.length ≤
              (b.data.take s.len ++ xs ++ b.data.drop (s.len + xs.length)).length := by
            simp only [List.length_append, hA]; omega
          simp only [hlen, if_true]
          congr 1
          apply List.take_left'
          simp only [List.length_append, hA]
        · intro j hj _
          rw [List.getElem?_set]; simp [Ne.symm hj]
      · simp only [hcap, if_false]
        refine ⟨_, _, rfl, ?_, by simp, by simp, Or.inr rfl, ?_⟩
        · simp only [readS, List.getElem?_concat_length]
          have hlen : s.len + xs.length ≤ (b.data.take s.len ++ xs).length := by
            simp only [List.length_append, hA]; omega
          simp only [hlen, if_true]
          congr 1
          apply List.take_of_length_le
          simp only [List.length_append, hA]; omega
        · intro j _ hj
          exact List.getElem?_append_left hj
    · cases hr

end Golib.C18
