/-
Bron–Kerbosch as coded (`bk`): for a simple undirected graph, `bk R P X` returns exactly
the maximal cliques `C` with `R ⊆ C ⊆ R ∪ P`, each once, provided `P ∪ X` is the set of
common neighbours of `R`, and `R`, `P`, `X` are duplicate-free and pairwise disjoint.

Cliques are compared as sets (`SameSet`): the output lists are duplicate-free, their order
of vertices depends on the iteration order.
-/
import Golib.Model.C18Graph

namespace Golib.C18

variable {V : Type}

def Clique (nb : V → V → Bool) (C : List V) : Prop := ∀ a ∈ C, ∀ b ∈ C, a ≠ b → nb a b = true

/-- `C` is a maximal clique of the graph with vertex list `U`. -/
def MaxClique (nb : V → V → Bool) (U C : List V) : Prop :=
  (∀ c ∈ C, c ∈ U) ∧ Clique nb C ∧ ∀ u ∈ U, u ∉ C → ∃ c ∈ C, nb u c = false

def SameSet (a b : List V) : Prop := ∀ x, x ∈ a ↔ x ∈ b

structure BKPre (nb : V → V → Bool) (U R P X : List V) : Prop where
  ndR : R.Nodup
  ndP : P.Nodup
  ndX : X.Nodup
  dRP : ∀ x ∈ R, x ∉ P
  dRX : ∀ x ∈ R, x ∉ X
  dPX : ∀ x ∈ P, x ∉ X
  subU : ∀ r ∈ R, r ∈ U
  clique : Clique nb R
  common : ∀ u, (u ∈ P ∨ u ∈ X) ↔ (u ∈ U ∧ u ∉ R ∧ ∀ r ∈ R, nb u r = true)

structure BKPost (nb : V → V → Bool) (U R P : List V) (out : List (List V)) : Prop where
  snd : ∀ o ∈ out, ∃ Q, o = R ++ Q ∧ Q.Nodup ∧ (∀ q ∈ Q, q ∈ P) ∧ MaxClique nb U o
  cmp : ∀ C, MaxClique nb U C → (∀ r ∈ R, r ∈ C) → (∀ c ∈ C, c ∈ R ∨ c ∈ P) →
    ∃ o ∈ out, SameSet o C
  once : out.Pairwise (fun a b => ¬ SameSet a b)

def RecSpec (nb : V → V → Bool) (U : List V)
    (rec : List V → List V → List V → Option (List (List V))) (n : Nat) : Prop :=
  ∀ R P X, P.length < n → BKPre nb U R P X → ∃ out, rec R P X = some out ∧ BKPost nb U R P out

section
variable (nb : V → V → Bool) (U : List V)
variable (irrefl : ∀ v, nb v v = false) (symm : ∀ a b, nb a b = nb b a)

theorem mem_isect {a : List V} {v u : V} : u ∈ isect nb a v ↔ u ∈ a ∧ nb v u = true := by
  simp [isect, List.mem_filter]

include irrefl in
theorem length_isect_cons_lt (v : V) (P : List V) : (isect nb (v :: P) v).length ≤ P.length := by
  simp only [isect, List.filter_cons, irrefl v]
  exact List.length_filter_le _ _

include irrefl symm in
/-- The precondition of the recursive call. -/
theorem pre_rec {R P' X : List V} {v : V} (h : BKPre nb U R (v :: P') X) :
    BKPre nb U (R ++ [v]) (isect nb (v :: P') v) (isect nb X v) := by
  have hvP : v ∈ v :: P' := by simp
  have hv := (h.common v).mp (Or.inl hvP)
  refine { ndR := ?_, ndP := h.ndP.sublist List.filter_sublist, ndX := h.ndX.sublist List.filter_sublist,
           dRP := ?_, dRX := ?_, dPX := ?_, subU := ?_, clique := ?_, common := ?_ }
  · rw [List.nodup_append]
    refine ⟨h.ndR, by simp, ?_⟩
    intro a ha b hb
    simp only [List.mem_singleton] at hb
    subst hb; intro e; subst e; exact hv.2.1 ha
  · intro x hx hm
    rw [mem_isect] at hm
    rcases List.mem_append.mp hx with hx | hx
    · exact h.dRP x hx hm.1
    · simp only [List.mem_singleton] at hx; subst hx
      rw [irrefl] at hm; exact absurd hm.2 (by simp)
  · intro x hx hm
    rw [mem_isect] at hm
    rcases List.mem_append.mp hx with hx | hx
    · exact h.dRX x hx hm.1
    · simp only [List.mem_singleton] at hx; subst hx
      rw [irrefl] at hm; exact absurd hm.2 (by simp)
  · intro x hx hm
    rw [mem_isect] at hx hm
    exact h.dPX x hx.1 hm.1
  · intro r hr
    rcases List.mem_append.mp hr with hr | hr
    · exact h.subU r hr
    · simp only [List.mem_singleton] at hr; subst hr; exact hv.1
  · intro a ha b hb hab
    rcases List.mem_append.mp ha with ha' | ha'
    · rcases List.mem_append.mp hb with hb' | hb'
      · exact h.clique a ha' b hb' hab
      · have hbv : b = v := by simpa using hb'
        rw [hbv, symm]; exact hv.2.2 a ha'
    · have hav : a = v := by simpa using ha'
      rcases List.mem_append.mp hb with hb' | hb'
      · rw [hav]; exact hv.2.2 b hb'
      · have hbv : b = v := by simpa using hb'
        exact absurd (hav.trans hbv.symm) hab
  · intro u
    rw [mem_isect, mem_isect]
    constructor
    · intro hu
      have huv : nb v u = true := by rcases hu with hu | hu <;> exact hu.2
      have hne : u ≠ v := by intro e; subst e; rw [irrefl] at huv; exact absurd huv (by simp)
      have hc := (h.common u).mp (by rcases hu with hu | hu; exact Or.inl hu.1; exact Or.inr hu.1)
      refine ⟨hc.1, ?_, ?_⟩
      · intro hm
        rcases List.mem_append.mp hm with hm | hm
        · exact hc.2.1 hm
        · exact hne (by simpa using hm)
      · intro r hr
        rcases List.mem_append.mp hr with hr | hr
        · exact hc.2.2 r hr
        · simp only [List.mem_singleton] at hr; subst hr; rw [symm]; exact huv
    · intro ⟨hU, hnR, hall⟩
      have hvu : nb v u = true := by rw [symm]; exact hall v (by simp)
      have := (h.common u).mpr ⟨hU, fun hm => hnR (List.mem_append_left _ hm),
        fun r hr => hall r (List.mem_append_left _ hr)⟩
      rcases this with hp | hx
      · exact Or.inl ⟨hp, hvu⟩
      · exact Or.inr ⟨hx, hvu⟩

/-- The precondition of the rest of the loop: `v` moves from `P` to `X`. -/
theorem pre_next {R P' X : List V} {v : V} (h : BKPre nb U R (v :: P') X) :
    BKPre nb U R P' (X ++ [v]) := by
  have hnd := List.nodup_cons.mp h.ndP
  refine { ndR := h.ndR, ndP := hnd.2, ndX := ?_, dRP := ?_, dRX := ?_, dPX := ?_,
           subU := h.subU, clique := h.clique, common := ?_ }
  · rw [List.nodup_append]
    refine ⟨h.ndX, by simp, ?_⟩
    intro a ha b hb
    simp only [List.mem_singleton] at hb
    subst hb; intro e; subst e; exact h.dPX a (by simp) ha
  · intro x hx hm; exact h.dRP x hx (List.mem_cons_of_mem _ hm)
  · intro x hx hm
    rcases List.mem_append.mp hm with hm | hm
    · exact h.dRX x hx hm
    · simp only [List.mem_singleton] at hm; subst hm; exact h.dRP x hx (by simp)
  · intro x hx hm
    rcases List.mem_append.mp hm with hm | hm
    · exact h.dPX x (List.mem_cons_of_mem _ hx) hm
    · simp only [List.mem_singleton] at hm; subst hm; exact hnd.1 hx
  · intro u
    rw [← h.common u]
    simp only [List.mem_append, List.mem_cons, List.not_mem_nil, or_false]
    constructor
    · rintro (h1 | h1 | h1)
      · exact Or.inl (Or.inr h1)
      · exact Or.inr h1
      · exact Or.inl (Or.inl h1)
    · rintro ((h1 | h1) | h1)
      · exact Or.inr (Or.inr h1)
      · exact Or.inl h1
      · exact Or.inr (Or.inl h1)

include irrefl symm in
/-- The `for _, v := range P` loop. -/
theorem bkLoop_spec (rec : List V → List V → List V → Option (List (List V))) (n : Nat)
    (hrec : RecSpec nb U rec n) (R : List V) :
    ∀ (P' X : List V), P'.length ≤ n → BKPre nb U R P' X → (X ≠ [] ∨ P' ≠ []) →
      ∃ out, bkLoop nb rec R P' X = some out ∧ BKPost nb U R P' out := by
  intro P'
  induction P' with
  | nil =>
    intro X _ hpre hne
    refine ⟨[], rfl, { snd := by simp, cmp := ?_, once := List.Pairwise.nil }⟩
    intro C hC hRC hCR
    exfalso
    rcases hne with hne | hne
    · obtain ⟨x, hx⟩ := List.exists_mem_of_ne_nil X hne
      have hc := (hpre.common x).mp (Or.inr hx)
      have hxC : x ∉ C := by
        intro hm
        rcases hCR x hm with h | h
        · exact hc.2.1 h
        · simp at h
      obtain ⟨c, hcC, hf⟩ := hC.2.2 x hc.1 hxC
      rcases hCR c hcC with h | h
      · rw [hc.2.2 c h] at hf; exact absurd hf (by simp)
      · simp at h
    · exact hne rfl
  | cons v P'' ih =>
    intro X hlen hpre _
    have hvP : v ∈ v :: P'' := by simp
    have hv := (hpre.common v).mp (Or.inl hvP)
    have hndP := List.nodup_cons.mp hpre.ndP
    have hpr := pre_rec nb U irrefl symm hpre
    have hli := length_isect_cons_lt nb irrefl v P''
    simp only [List.length_cons] at hlen
    obtain ⟨outA, hA, postA⟩ := hrec (R ++ [v]) _ _ (by omega) hpr
    obtain ⟨outB, hB, postB⟩ := ih (X ++ [v]) (by omega) (pre_next nb U hpre) (Or.inl (by simp))
    refine ⟨outA ++ outB, by simp only [bkLoop, hA, hB], ?_⟩
    have hA_has : ∀ o ∈ outA, v ∈ o := by
      intro o ho
      obtain ⟨Q, rfl, _⟩ := postA.snd o ho
      simp
    have hB_not : ∀ o ∈ outB, v ∉ o := by
      intro o ho
      obtain ⟨Q, rfl, _, hQ, _⟩ := postB.snd o ho
      intro hm
      rcases List.mem_append.mp hm with hm | hm
      · exact hv.2.1 hm
      · exact hndP.1 (hQ v hm)
    refine { snd := ?_, cmp := ?_, once := ?_ }
    · intro o ho
      rcases List.mem_append.mp ho with ho | ho
      · obtain ⟨Q, rfl, hQn, hQ, hmax⟩ := postA.snd o ho
        refine ⟨v :: Q, by simp, ?_, ?_, hmax⟩
        · rw [List.nodup_cons]
          refine ⟨?_, hQn⟩
          intro hm
          have := (mem_isect nb).mp (hQ v hm)
          rw [irrefl] at this; exact absurd this.2 (by simp)
        · intro q hq
          rcases List.mem_cons.mp hq with rfl | hq
          · exact hvP
          · exact ((mem_isect nb).mp (hQ q hq)).1
      · obtain ⟨Q, rfl, hQn, hQ, hmax⟩ := postB.snd o ho
        exact ⟨Q, rfl, hQn, fun q hq => List.mem_cons_of_mem _ (hQ q hq), hmax⟩
    · intro C hC hRC hCR
      by_cases hvC : v ∈ C
      · obtain ⟨o, ho, hs⟩ := postA.cmp C hC
          (by
            intro r hr
            rcases List.mem_append.mp hr with hr | hr
            · exact hRC r hr
            · simp only [List.mem_singleton] at hr; subst hr; exact hvC)
          (by
            intro c hc
            by_cases hcv : c = v
            · left; subst hcv; simp
            · rcases hCR c hc with h | h
              · left; exact List.mem_append_left _ h
              · right
                exact (mem_isect nb).mpr ⟨h, hC.2.1 v hvC c hc (Ne.symm hcv)⟩)
        exact ⟨o, List.mem_append_left _ ho, hs⟩
      · obtain ⟨o, ho, hs⟩ := postB.cmp C hC hRC
          (by
            intro c hc
            rcases hCR c hc with h | h
            · exact Or.inl h
            · rcases List.mem_cons.mp h with rfl | h
              · exact absurd hc hvC
              · exact Or.inr h)
        exact ⟨o, List.mem_append_right _ ho, hs⟩
    · rw [List.pairwise_append]
      refine ⟨postA.once, postB.once, ?_⟩
      intro a ha b hb hs
      exact hB_not b hb ((hs v).mp (hA_has a ha))

include irrefl symm in
/-- `bk fuel` meets its specification for every call with `|P| < fuel`. -/
theorem bk_spec : ∀ fuel, RecSpec nb U (bk nb fuel) fuel := by
  intro fuel
  induction fuel with
  | zero => intro R P X h; omega
  | succ fuel ih =>
    intro R P X hlen hpre
    simp only [bk]
    by_cases he : (P.isEmpty && X.isEmpty) = true
    · rw [if_pos he]
      simp only [Bool.and_eq_true, List.isEmpty_iff] at he
      obtain ⟨rfl, rfl⟩ := he
      refine ⟨[R], rfl, { snd := ?_, cmp := ?_, once := by simp }⟩
      · intro o ho
        simp only [List.mem_singleton] at ho; subst ho
        refine ⟨[], by simp, by simp, by simp, hpre.subU, hpre.clique, ?_⟩
        intro u hu hnR
        apply Classical.byContradiction
        intro hcon
        have hall : ∀ r ∈ o, nb u r = true := by
          intro r hr
          cases hb : nb u r with
          | true => rfl
          | false => exact absurd ⟨r, hr, hb⟩ hcon
        have := (hpre.common u).mpr ⟨hu, hnR, hall⟩
        simp at this
      · intro C hC hRC hCR
        refine ⟨R, by simp, ?_⟩
        intro x
        constructor
        · exact hRC x
        · intro hx
          rcases hCR x hx with h | h
          · exact h
          · simp at h
    · rw [if_neg he]
      have hne : X ≠ [] ∨ P ≠ [] := by
        cases P <;> cases X <;> simp_all
      exact bkLoop_spec nb U irrefl symm (bk nb fuel) fuel ih R P X (by omega) hpre hne

end
end Golib.C18
