/-
`Insert` of the pointer-level model (`Golib/Model/C05Ptr.lean`) refines `Trie.insert` of the
label trie: no panic, the ids of old nodes are stable, new nodes get the new labels
(`pinsert_rep`).
-/
import Golib.Proof.C05PtrRep
import Golib.Proof.C05Aho

set_option linter.unusedSimpArgs false
set_option linter.unusedVariables false

namespace Golib.C05
open Golib

/-! ### the label trie after one more pattern -/

theorem childrenLoop_append (n : Label) : ∀ (ps qs : List (List Step)) (cs : List Int),
    childrenLoop n (ps ++ qs) cs = (childrenLoop n ps cs).bind (childrenLoop n qs) := by
  intro ps
  induction ps with
  | nil => intro qs cs; simp [childrenLoop]
  | cons p ps ih =>
    intro qs cs
    simp only [List.cons_append, childrenLoop]
    cases nextRune? n (lab p) with
    | none => exact ih qs cs
    | some r =>
      simp only []
      cases insertChild cs r with
      | none => simp
      | some cs' => exact ih qs cs'

theorem childrenOf_snoc_none {ps : List (List Step)} {q : List Step} {n : Label}
    (h : nextRune? n (lab q) = none) : childrenOf (ps ++ [q]) n = childrenOf ps n := by
  unfold childrenOf
  rw [childrenLoop_append]
  cases childrenLoop n ps [] with
  | none => rfl
  | some cs => simp [childrenLoop, h]

theorem childrenOf_snoc_some {ps : List (List Step)} {q : List Step} {n : Label} {r : Int}
    {cs : List Int} (h : nextRune? n (lab q) = some r) (hc : childrenOf ps n = some cs) :
    childrenOf (ps ++ [q]) n = insertChild cs r := by
  unfold childrenOf at *
  rw [childrenLoop_append, hc]
  simp only [Option.bind_some, childrenLoop, h]
  cases insertChild cs r <;> rfl

theorem isEnd_snoc (ps : List (List Step)) (q : List Step) (n : Label) :
    isEnd (ps ++ [q]) n = (isEnd ps n || lab q == n) := by
  simp [isEnd, List.any_append]

theorem isNode_snoc (ps : List (List Step)) (q : List Step) (n : Label) :
    IsNode (ps ++ [q]) n ↔ IsNode ps n ∨ n <+: lab q := by
  rw [isNode_iff, isNode_iff]
  constructor
  · rintro (h | ⟨p, hp, hpre⟩)
    · exact Or.inl (Or.inl h)
    · rcases List.mem_append.1 hp with hp | hp
      · exact Or.inl (Or.inr ⟨p, hp, hpre⟩)
      · rw [List.mem_singleton] at hp; subst hp; exact Or.inr hpre
  · rintro ((h | ⟨p, hp, hpre⟩) | h)
    · exact Or.inl h
    · exact Or.inr ⟨p, List.mem_append_left _ hp, hpre⟩
    · exact Or.inr ⟨q, by simp, h⟩

theorem sizeOf_snoc_old {ps : List (List Step)} (q : List Step) {n : Label}
    (h : ∃ p ∈ ps, n <+: lab p) : sizeOf (ps ++ [q]) n = sizeOf ps n := by
  obtain ⟨p, hp, hpre⟩ := h
  unfold sizeOf
  rw [List.find?_append]
  cases hf : ps.find? (fun p => n.isPrefixOf (lab p)) with
  | none =>
    have := List.find?_eq_none.1 hf p hp
    exact absurd (List.isPrefixOf_iff_prefix.2 hpre) (by simpa using this)
  | some p' => rfl

theorem sizeOf_snoc_new {ps : List (List Step)} {q : List Step} {n : Label}
    (h : ∀ p ∈ ps, ¬ n <+: lab p) (hq : n <+: lab q) :
    sizeOf (ps ++ [q]) n = ((q.take n.length).map (·.2)).sum := by
  unfold sizeOf
  rw [List.find?_append]
  have hf : ps.find? (fun p => n.isPrefixOf (lab p)) = none := by
    apply List.find?_eq_none.2
    intro p hp hpre
    exact h p hp (List.isPrefixOf_iff_prefix.1 hpre)
  rw [hf]
  simp [List.find?, List.isPrefixOf_iff_prefix.2 hq]

theorem sizeOf_none {ps : List (List Step)} {n : Label} (h : ∀ p ∈ ps, ¬ n <+: lab p) :
    sizeOf ps n = 0 := by
  unfold sizeOf
  have hf : ps.find? (fun p => n.isPrefixOf (lab p)) = none := by
    apply List.find?_eq_none.2
    intro p hp hpre
    exact h p hp (List.isPrefixOf_iff_prefix.1 hpre)
  rw [hf]

theorem lab_append (a b : List Step) : lab (a ++ b) = lab a ++ lab b := by simp [lab]
theorem lab_length (a : List Step) : (lab a).length = a.length := by simp [lab]

/-- `sizeOf` of a node already present does not change when the last pattern grows. -/
theorem sizeOf_snoc_grow {ps : List (List Step)} {q : List Step} (st : Step) {n : Label}
    (h : IsNode (ps ++ [q]) n) : sizeOf (ps ++ [q ++ [st]]) n = sizeOf (ps ++ [q]) n := by
  by_cases hex : ∃ p ∈ ps, n <+: lab p
  · rw [sizeOf_snoc_old _ hex, sizeOf_snoc_old _ hex]
  · have hno : ∀ p ∈ ps, ¬ n <+: lab p := fun p hp hpre => hex ⟨p, hp, hpre⟩
    have hq : n <+: lab q := by
      rcases (isNode_snoc ps q n).1 h with h | h
      · rcases (isNode_iff ps n).1 h with h | ⟨p, hp, hpre⟩
        · subst h; exact List.nil_prefix
        · exact absurd hpre (hno p hp)
      · exact h
    have hq' : n <+: lab (q ++ [st]) := by
      rw [lab_append]; exact hq.trans (List.prefix_append _ _)
    rw [sizeOf_snoc_new hno hq, sizeOf_snoc_new hno hq']
    have : n.length ≤ q.length := by rw [← lab_length q]; exact hq.length_le
    rw [List.take_append_of_le_length this]

/-! ### `nextRune?` and the child array when the last pattern grows by one step -/

theorem nextRune?_self (m : Label) : nextRune? m m = none := by
  cases h : nextRune? m m with
  | none => rfl
  | some x =>
    have := ((nextRune?_eq_some m m x).1 h).length_le
    simp only [List.length_append, List.length_cons, List.length_nil] at this
    omega

theorem nextRune?_snoc_self (m : Label) (r : Int) : nextRune? m (m ++ [r]) = some r :=
  (nextRune?_eq_some m _ r).2 (List.prefix_refl _)

theorem nextRune?_snoc_ne {l m : Label} (r : Int) (h : l ≠ m) :
    nextRune? l (m ++ [r]) = nextRune? l m := by
  apply Option.ext
  intro x
  rw [nextRune?_eq_some, nextRune?_eq_some, List.prefix_concat_iff]
  constructor
  · rintro (h' | h')
    · exact absurd (List.append_inj_left' h' rfl) h
    · exact h'
  · exact Or.inr

theorem childrenOf_grow_ne {ps : List (List Step)} {q : List Step} (st : Step) {l : Label}
    (h : l ≠ lab q) : childrenOf (ps ++ [q ++ [st]]) l = childrenOf (ps ++ [q]) l := by
  have hnr : nextRune? l (lab (q ++ [st])) = nextRune? l (lab q) := by
    rw [lab_append]; exact nextRune?_snoc_ne _ h
  cases ho : nextRune? l (lab q) with
  | none => rw [childrenOf_snoc_none ho, childrenOf_snoc_none (hnr.trans ho)]
  | some x =>
    obtain ⟨cs, hcs⟩ := children_exists ps l
    rw [childrenOf_snoc_some ho hcs, childrenOf_snoc_some (hnr.trans ho) hcs]

theorem childrenOf_grow_self {ps : List (List Step)} {q : List Step} (st : Step) {cs : List Int}
    (h : childrenOf (ps ++ [q]) (lab q) = some cs) :
    childrenOf (ps ++ [q ++ [st]]) (lab q) = insertChild cs st.1 := by
  rw [childrenOf_snoc_none (nextRune?_self _)] at h
  have : nextRune? (lab q) (lab (q ++ [st])) = some st.1 := by
    rw [lab_append]; exact nextRune?_snoc_self _ _
  exact childrenOf_snoc_some this h

/-- What `findChildIndex` + the `idx >= len || children[idx].val != r` test decide, and what
the label trie's `insertChild` does in either case. -/
theorem insert_step_cases (cs : List Int) (r : Int) (hs : StrictSorted cs) :
    ∃ idx, findChildIndex cs r = some idx ∧
      ((r ∉ cs ∧ (idx ≥ cs.length ∨ ∃ v, cs[idx]? = some v ∧ v ≠ r) ∧
          insertChild cs r = some (cs.take idx ++ r :: cs.drop idx)) ∨
       (idx < cs.length ∧ cs[idx]? = some r ∧ insertChild cs r = some cs)) := by
  obtain ⟨k, hk, hkl, hlo, hhi⟩ := findChildIndex_spec cs r hs
  refine ⟨k, hk, ?_⟩
  simp only [insertChild, hk]
  by_cases hge : k ≥ cs.length
  · left
    refine ⟨fun hmem => ?_, Or.inl hge, by simp only [hge, if_true]⟩
    obtain ⟨j, hj, hv⟩ := List.mem_iff_getElem.1 hmem
    have hjv : cs[j]? = some r := by rw [List.getElem?_eq_getElem hj, hv]
    have := hlo j r (by omega) hjv; omega
  · have hklt : k < cs.length := by omega
    obtain ⟨v, hv⟩ : ∃ v, cs[k]? = some v := ⟨cs[k], by simp [hklt]⟩
    simp only [hge, if_false, hv]
    by_cases hvr : v = r
    · right
      subst hvr
      exact ⟨hklt, rfl, by simp⟩
    · left
      refine ⟨fun hmem => ?_, Or.inr ⟨v, rfl, hvr⟩, by simp [hvr]⟩
      obtain ⟨j, hj, hjr⟩ := List.mem_iff_getElem.1 hmem
      have hjv : cs[j]? = some r := by rw [List.getElem?_eq_getElem hj, hjr]
      have hrv : r ≤ v := hhi k v (Nat.le_refl _) hv
      rcases Nat.lt_trichotomy j k with h | h | h
      · have := hlo j r h hjv; omega
      · subst h; rw [hv] at hjv; cases hjv; exact hvr rfl
      · have := StrictSorted.lt_of_lt hs hv hjv h; omega

/-! ### the loop invariant of `Insert` -/

/-- `pt` represents the label trie of `t.pats ++ [q]` (`q` = the part of the pattern consumed so
far), except that `isEnd` is still that of `t.pats` (the loop does not set it). -/
structure InsInv (pt : PTrie) (t : Trie) (lbl : List Label) (q : List Step) : Prop where
  len : lbl.length = pt.nodes.length
  root : lbl[0]? = some []
  nodup : lbl.Nodup
  nodes : ∀ n, IsNode (t.pats ++ [q]) n ↔ n ∈ lbl
  kids : ∀ (id : Nat) (nd : PNode) (l : Label), pt.nodes[id]? = some nd → lbl[id]? = some l →
    childrenOf (t.pats ++ [q]) l = some nd.vals ∧
    (∀ r c, (r, c) ∈ nd.children → lbl[c]? = some (l ++ [r])) ∧
    nd.isEnd = isEnd t.pats l ∧ nd.size = sizeOf (t.pats ++ [q]) l
  fail : ∀ (id : Nat) (nd : PNode) (l : Label), pt.nodes[id]? = some nd → lbl[id]? = some l →
    (nd.fail = none ∧ t.failOf l = none) ∨
    (∃ f lf, nd.fail = some f ∧ lbl[f]? = some lf ∧ t.failOf l = some lf)
  table : ∀ n, t.failOf n ≠ none → n ∈ lbl

theorem inv_of_rep {pt : PTrie} {t : Trie} {lbl : List Label} (h : Rep pt t lbl) :
    InsInv pt t lbl [] := by
  have hn : ∀ n, IsNode (t.pats ++ [[]]) n ↔ IsNode t.pats n := by
    intro n
    rw [isNode_snoc]
    constructor
    · rintro (h | h)
      · exact h
      · have : n = [] := List.prefix_nil.1 h
        subst this; exact isNode_nil _
    · exact Or.inl
  refine ⟨h.len, h.root, h.nodup, fun n => (hn n).trans (h.nodes n), ?_, h.fail, h.table⟩
  intro id nd l h1 h2
  obtain ⟨k1, k2, k3, k4⟩ := h.kids id nd l h1 h2
  have hnr : nextRune? l (lab []) = none := by
    cases hx : nextRune? l (lab []) with
    | none => rfl
    | some x =>
      have := ((nextRune?_eq_some _ _ _).1 hx).length_le
      simp only [lab, List.map_nil, List.length_append, List.length_cons, List.length_nil] at this
      omega
  refine ⟨by rw [childrenOf_snoc_none hnr]; exact k1, k2, k3, ?_⟩
  rw [k4]
  by_cases hex : ∃ p ∈ t.pats, l <+: lab p
  · rw [sizeOf_snoc_old _ hex]
  · have hno : ∀ p ∈ t.pats, ¬ l <+: lab p := fun p hp hpre => hex ⟨p, hp, hpre⟩
    have hl : l = [] := by
      have : IsNode t.pats l := (h.nodes l).2 (List.mem_of_getElem? h2)
      rcases (isNode_iff _ _).1 this with h | ⟨p, hp, hpre⟩
      · exact h
      · exact absurd hpre (hno p hp)
    subst hl
    rw [sizeOf_none hno, sizeOf_snoc_new hno List.nil_prefix]
    simp

theorem getElem?_append_of_some {α} {l : List α} {i : Nat} {a : α} (m : List α)
    (h : l[i]? = some a) : (l ++ m)[i]? = some a := by
  rw [List.getElem?_append_left (List.getElem?_eq_some_iff.1 h).1]; exact h

theorem not_prefix_snoc (m : Label) (r : Int) : ¬ m ++ [r] <+: m := by
  intro h
  have := h.length_le
  simp only [List.length_append, List.length_cons, List.length_nil] at this
  omega

/-- The `else { node = node.children[idx].node }` branch: nothing changes. -/
theorem inv_step_found {pt : PTrie} {t : Trie} {lbl : List Label} {q : List Step}
    (h : InsInv pt t lbl q) {node : Nat} {nd : PNode} (hl : lbl[node]? = some (lab q))
    (hnd : pt.nodes[node]? = some nd) {r : Int} {c : Nat} (sz : Nat) (hc : (r, c) ∈ nd.children) :
    InsInv pt t lbl (q ++ [(r, sz)]) ∧ lbl[c]? = some (lab (q ++ [(r, sz)])) := by
  obtain ⟨k1, k2, k3, k4⟩ := h.kids node nd _ hnd hl
  have hcl : lbl[c]? = some (lab q ++ [r]) := k2 r c hc
  have hrmem : r ∈ nd.vals := List.mem_map.2 ⟨(r, c), hc, rfl⟩
  have hN : IsNode (t.pats ++ [q]) (lab q ++ [r]) := (h.nodes _).2 (List.mem_of_getElem? hcl)
  have hnodes : ∀ n, IsNode (t.pats ++ [q ++ [(r, sz)]]) n ↔ IsNode (t.pats ++ [q]) n := by
    intro n
    rw [isNode_snoc, isNode_snoc, lab_append]
    simp only [lab, List.map_cons, List.map_nil]
    rw [List.prefix_concat_iff]
    constructor
    · rintro (h' | h' | h')
      · exact Or.inl h'
      · subst h'; exact (isNode_snoc _ _ _).1 hN
      · exact Or.inr h'
    · rintro (h' | h')
      · exact Or.inl h'
      · exact Or.inr (Or.inr h')
  have hkids : ∀ l, childrenOf (t.pats ++ [q ++ [(r, sz)]]) l = childrenOf (t.pats ++ [q]) l := by
    intro l
    by_cases hlq : l = lab q
    · subst hlq
      rw [childrenOf_grow_self _ k1, k1]
      obtain ⟨idx, _, hcase | hcase⟩ := insert_step_cases nd.vals r (children_sorted k1)
      · exact absurd hrmem hcase.1
      · exact hcase.2.2
    · exact childrenOf_grow_ne _ hlq
  refine ⟨⟨h.len, h.root, h.nodup, fun n => (hnodes n).trans (h.nodes n), ?_, h.fail, h.table⟩, ?_⟩
  · intro id nd' l h1 h2
    obtain ⟨j1, j2, j3, j4⟩ := h.kids id nd' l h1 h2
    refine ⟨by rw [hkids]; exact j1, j2, j3, ?_⟩
    rw [j4, sizeOf_snoc_grow _ ((h.nodes l).2 (List.mem_of_getElem? h2))]
  · rw [hcl, lab_append]; rfl

theorem getElem?_set_snoc_cases {α} (l : List α) (i : Nat) (a b x : α) (j : Nat) (hi : i < l.length)
    (h : (l.set i a ++ [b])[j]? = some x) :
    (j = i ∧ x = a) ∨ (j ≠ i ∧ j < l.length ∧ l[j]? = some x) ∨ (j = l.length ∧ x = b) := by
  simp only [List.getElem?_append, List.length_set, List.getElem?_set] at h
  grind

theorem getElem?_snoc_cases {α} (l : List α) (b x : α) (j : Nat) (h : (l ++ [b])[j]? = some x) :
    (j < l.length ∧ l[j]? = some x) ∨ (j = l.length ∧ x = b) := by
  simp only [List.getElem?_append] at h
  grind

/-- The `if idx >= len(children) || children[idx].val != r { … }` branch: a new node with id
`len(nodes)` and label `lab q ++ [r]`, stored at slot `idx` of the current node's child array. -/
theorem inv_step_create {pt : PTrie} {t : Trie} {lbl : List Label} {q : List Step}
    (h : InsInv pt t lbl q) {node : Nat} {nd : PNode} (hl : lbl[node]? = some (lab q))
    (hnd : pt.nodes[node]? = some nd) {r : Int} (sz idx : Nat) (hr : r ∉ nd.vals)
    (hins : insertChild nd.vals r = some (nd.vals.take idx ++ r :: nd.vals.drop idx)) :
    InsInv ⟨pt.nodes.set node { nd with children := nd.children.take idx ++ (r, pt.nodes.length) :: nd.children.drop idx } ++
          [⟨[], none, (q.map (·.2)).sum + sz, false⟩]⟩
      t (lbl ++ [lab (q ++ [(r, sz)])]) (q ++ [(r, sz)]) := by
  have hlab : lab (q ++ [(r, sz)]) = lab q ++ [r] := by rw [lab_append]; rfl
  obtain ⟨k1, k2, k3, k4⟩ := h.kids node nd _ hnd hl
  have hnodelt : node < pt.nodes.length := (List.getElem?_eq_some_iff.1 hnd).1
  have hnotN : ¬ IsNode (t.pats ++ [q]) (lab q ++ [r]) := fun hn => hr ((mem_children_iff k1 r).2 hn)
  have hnotps : ¬ IsNode t.pats (lab q ++ [r]) := fun hn => hnotN ((isNode_snoc _ _ _).2 (Or.inl hn))
  have hnotin : lab q ++ [r] ∉ lbl := fun hm => hnotN ((h.nodes _).2 hm)
  have hnoprefix : ∀ p ∈ t.pats, ¬ lab q ++ [r] <+: lab p := fun p hp hpre =>
    hnotps ((isNode_iff _ _).2 (Or.inr ⟨p, hp, hpre⟩))
  have hnewlbl : (lbl ++ [lab q ++ [r]])[pt.nodes.length]? = some (lab q ++ [r]) := by
    rw [← h.len, List.getElem?_append_right (Nat.le_refl _)]; simp
  rw [hlab]
  refine ⟨?_, getElem?_append_of_some _ h.root, ?_, ?_, ?_, ?_, ?_⟩
  · simp only [List.length_append, List.length_set, List.length_cons, List.length_nil, h.len]
  · rw [List.nodup_append]
    refine ⟨h.nodup, by simp, ?_⟩
    intro a ha b hb
    rw [List.mem_singleton] at hb; subst hb
    intro hab; subst hab; exact hnotin ha
  · intro n
    rw [isNode_snoc, hlab, List.prefix_concat_iff, List.mem_append, List.mem_singleton,
      ← h.nodes, isNode_snoc]
    constructor
    · rintro (h' | h' | h')
      · exact Or.inl (Or.inl h')
      · exact Or.inr h'
      · exact Or.inl (Or.inr h')
    · rintro ((h' | h') | h')
      · exact Or.inl h'
      · exact Or.inr (Or.inr h')
      · exact Or.inr (Or.inl h')
  · intro id ndx l h1 h2
    simp only [] at h1
    rcases getElem?_set_snoc_cases _ _ _ _ _ _ hnodelt h1 with ⟨hid, hx⟩ | ⟨hid, hlt, hx⟩ | ⟨hid, hx⟩
    · -- the current node
      subst hid; subst hx
      have h2' : l = lab q := by
        rw [getElem?_append_of_some _ hl] at h2; cases h2; rfl
      subst h2'
      refine ⟨?_, ?_, k3, ?_⟩
      · rw [childrenOf_grow_self (r, sz) k1, hins]
        simp [PNode.vals, List.map_take, List.map_drop]
      · intro r' c' hm
        simp only [List.mem_append, List.mem_cons] at hm
        rcases hm with hm | hm | hm
        · exact getElem?_append_of_some _ (k2 r' c' (List.mem_of_mem_take hm))
        · cases hm; exact hnewlbl
        · exact getElem?_append_of_some _ (k2 r' c' (List.mem_of_mem_drop hm))
      · simp only []
        rw [k4, sizeOf_snoc_grow _ ((h.nodes _).2 (List.mem_of_getElem? hl))]
    · -- an untouched node
      rcases getElem?_snoc_cases _ _ _ _ h2 with ⟨_, h2'⟩ | ⟨hid', _⟩
      · obtain ⟨j1, j2, j3, j4⟩ := h.kids id ndx l hx h2'
        have hne : l ≠ lab q := by
          intro hl'; subst hl'
          exact hid ((List.getElem?_inj (by rw [h.len]; exact hlt) h.nodup).1 (h2'.trans hl.symm))
        refine ⟨by rw [childrenOf_grow_ne _ hne]; exact j1,
          fun r' c' hm => getElem?_append_of_some _ (j2 r' c' hm), j3, ?_⟩
        rw [j4, sizeOf_snoc_grow _ ((h.nodes _).2 (List.mem_of_getElem? h2'))]
      · rw [h.len] at hid'; omega
    · -- the new node
      subst hx
      have h2' : l = lab q ++ [r] := by
        rw [hid, hnewlbl] at h2; cases h2; rfl
      subst h2'
      refine ⟨?_, by simp, ?_, ?_⟩
      · obtain ⟨cs, hcs⟩ := children_exists (t.pats ++ [q ++ [(r, sz)]]) (lab q ++ [r])
        have : cs = [] := by
          apply List.eq_nil_iff_forall_not_mem.2
          intro x hx
          have hn := (mem_children_iff hcs x).1 hx
          rcases (isNode_snoc _ _ _).1 hn with hn | hn
          · exact hnotps hn.prefix
          · rw [hlab] at hn; exact not_prefix_snoc _ _ hn
        subst this
        rw [hcs]; rfl
      · simp only []
        cases he : isEnd t.pats (lab q ++ [r]) with
        | false => rfl
        | true => exact absurd (isEnd_isNode he) hnotps
      · simp only []
        rw [sizeOf_snoc_new hnoprefix (by rw [hlab]; exact List.prefix_refl _)]
        have : (lab q ++ [r]).length = (q ++ [(r, sz)]).length := by simp [lab]
        rw [this, List.take_length]
        simp
  · intro id ndx l h1 h2
    simp only [] at h1
    rcases getElem?_set_snoc_cases _ _ _ _ _ _ hnodelt h1 with ⟨hid, hx⟩ | ⟨hid, hlt, hx⟩ | ⟨hid, hx⟩
    · subst hid; subst hx
      have h2' : l = lab q := by
        rw [getElem?_append_of_some _ hl] at h2; cases h2; rfl
      subst h2'
      rcases h.fail id nd _ hnd hl with ⟨a, b⟩ | ⟨f, lf, a, b, c⟩
      · exact Or.inl ⟨a, b⟩
      · exact Or.inr ⟨f, lf, a, getElem?_append_of_some _ b, c⟩
    · rcases getElem?_snoc_cases _ _ _ _ h2 with ⟨_, h2'⟩ | ⟨hid', _⟩
      · rcases h.fail id ndx l hx h2' with ⟨a, b⟩ | ⟨f, lf, a, b, c⟩
        · exact Or.inl ⟨a, b⟩
        · exact Or.inr ⟨f, lf, a, getElem?_append_of_some _ b, c⟩
      · rw [h.len] at hid'; omega
    · subst hx
      have h2' : l = lab q ++ [r] := by
        rw [hid, hnewlbl] at h2; cases h2; rfl
      subst h2'
      refine Or.inl ⟨rfl, ?_⟩
      cases hf : t.failOf (lab q ++ [r]) with
      | none => rfl
      | some x => exact absurd (h.table _ (by rw [hf]; simp)) hnotin
  · intro n hn
    exact List.mem_append_left _ (h.table n hn)

theorem vals_getElem? (nd : PNode) (idx : Nat) : nd.vals[idx]? = (nd.children[idx]?).map (·.1) := by
  simp [PNode.vals]

theorem vals_length (nd : PNode) : nd.vals.length = nd.children.length := by simp [PNode.vals]

/-- The `for` loop of `Insert`: no panic, and the invariant holds for the whole pattern. -/
theorem pInsertLoop_inv (t : Trie) : ∀ (rest : List Step) (pt : PTrie) (lbl : List Label)
    (q : List Step) (node i : Nat),
    InsInv pt t lbl q → lbl[node]? = some (lab q) → i = (q.map (·.2)).sum →
    ∃ pt' node' ext, pInsertLoop pt rest node i = some (pt', node') ∧
      InsInv pt' t (lbl ++ ext) (q ++ rest) ∧ (lbl ++ ext)[node']? = some (lab (q ++ rest)) := by
  intro rest
  induction rest with
  | nil =>
    intro pt lbl q node i h hl _
    exact ⟨pt, node, [], rfl, by simpa using h, by simpa using hl⟩
  | cons st rest ih =>
    intro pt lbl q node i h hl hi
    obtain ⟨r, sz⟩ := st
    subst hi
    have hnodelt : node < pt.nodes.length := by
      rw [← h.len]; exact (List.getElem?_eq_some_iff.1 hl).1
    obtain ⟨nd, hnd⟩ : ∃ nd, pt.nodes[node]? = some nd := ⟨pt.nodes[node], by simp [hnodelt]⟩
    obtain ⟨k1, k2, k3, k4⟩ := h.kids node nd _ hnd hl
    obtain ⟨idx, hfi, hcase⟩ := insert_step_cases nd.vals r (children_sorted k1)
    rw [pInsertLoop]
    simp only [hnd, hfi]
    have happ : q ++ (r, sz) :: rest = q ++ [(r, sz)] ++ rest := by simp
    rw [happ]
    rcases hcase with ⟨hr, hwhy, hins⟩ | ⟨hlt, hv, _⟩
    · -- create a node
      have hcreate := ih _ (lbl ++ [lab (q ++ [(r, sz)])]) (q ++ [(r, sz)]) pt.nodes.length
        ((q.map (·.2)).sum + sz) (inv_step_create h hl hnd sz idx hr hins)
        (by rw [← h.len, List.getElem?_append_right (Nat.le_refl _)]; simp) (by simp)
      obtain ⟨pt', node', ext, e1, e2, e3⟩ := hcreate
      rw [List.append_assoc] at e2 e3
      by_cases hge : idx ≥ nd.children.length
      · simp only [hge, if_true]
        exact ⟨pt', node', _, e1, e2, e3⟩
      · simp only [hge, if_false]
        rcases hwhy with hwhy | ⟨v, hv, hvr⟩
        · rw [vals_length] at hwhy; exact absurd hwhy hge
        · rw [vals_getElem?] at hv
          cases hch : nd.children[idx]? with
          | none => rw [hch] at hv; cases hv
          | some vc =>
            obtain ⟨v', c⟩ := vc
            rw [hch] at hv
            simp only [Option.map_some, Option.some.injEq] at hv
            subst hv
            simp only [ne_eq, hvr, not_false_eq_true, if_true]
            exact ⟨pt', node', _, e1, e2, e3⟩
    · -- follow the existing child
      rw [vals_length] at hlt
      have hge : ¬ idx ≥ nd.children.length := by omega
      simp only [hge, if_false]
      rw [vals_getElem?] at hv
      cases hch : nd.children[idx]? with
      | none => rw [hch] at hv; cases hv
      | some vc =>
        obtain ⟨v', c⟩ := vc
        rw [hch] at hv
        simp only [Option.map_some, Option.some.injEq] at hv
        subst hv
        simp only [ne_eq, not_true_eq_false, if_false]
        obtain ⟨hinv, hcl⟩ := inv_step_found h hl hnd sz (List.mem_of_getElem? hch)
        obtain ⟨pt', node', ext, e1, e2, e3⟩ := ih pt lbl (q ++ [(v', sz)]) c
          ((q.map (·.2)).sum + sz) hinv hcl (by simp)
        exact ⟨pt', node', ext, e1, e2, e3⟩

/-- The final `node.isEnd = true` turns the loop invariant into `Rep` for `t.pats ++ [p]`. -/
theorem rep_of_inv_setEnd {pt : PTrie} {t : Trie} {lbl : List Label} {p : List Step}
    (h : InsInv pt t lbl p) {node : Nat} {nd : PNode} (hl : lbl[node]? = some (lab p))
    (hnd : pt.nodes[node]? = some nd) :
    Rep ⟨pt.nodes.set node { nd with isEnd := true }⟩ { t with pats := t.pats ++ [p] } lbl := by
  have hnodelt : node < pt.nodes.length := (List.getElem?_eq_some_iff.1 hnd).1
  have hget : ∀ id ndx, (pt.nodes.set node { nd with isEnd := true })[id]? = some ndx →
      (id = node ∧ ndx = { nd with isEnd := true }) ∨ (id ≠ node ∧ pt.nodes[id]? = some ndx) := by
    intro id ndx hx
    simp only [List.getElem?_set] at hx
    grind
  have hne : ∀ id l, id ≠ node → lbl[id]? = some l → l ≠ lab p := by
    intro id l hid h2 hl'
    subst hl'
    exact hid ((List.getElem?_inj (List.getElem?_eq_some_iff.1 h2).1 h.nodup).1 (h2.trans hl.symm))
  refine ⟨by simp only [List.length_set]; exact h.len, h.root, h.nodup, h.nodes, ?_, ?_, h.table⟩
  · intro id ndx l h1 h2
    simp only [Trie.children]
    rcases hget id ndx h1 with ⟨hid, hx⟩ | ⟨hid, hx⟩
    · subst hid; subst hx
      have : l = lab p := by rw [hl] at h2; cases h2; rfl
      subst this
      obtain ⟨j1, j2, j3, j4⟩ := h.kids id nd _ hnd hl
      refine ⟨j1, j2, ?_, j4⟩
      simp [isEnd_snoc]
    · obtain ⟨j1, j2, j3, j4⟩ := h.kids id ndx l hx h2
      refine ⟨j1, j2, ?_, j4⟩
      rw [j3, isEnd_snoc]
      have := hne id l hid h2
      have : (lab p == l) = false := by simpa using fun e => this e.symm
      rw [this, Bool.or_false]
  · intro id ndx l h1 h2
    show (ndx.fail = none ∧ t.failOf l = none) ∨
      (∃ f lf, ndx.fail = some f ∧ lbl[f]? = some lf ∧ t.failOf l = some lf)
    rcases hget id ndx h1 with ⟨hid, hx⟩ | ⟨hid, hx⟩
    · subst hid; subst hx
      exact h.fail id nd l hnd h2
    · exact h.fail id ndx l hx h2

/-- `Insert` on the pointer-level model refines `Trie.insert` on the label trie: it does not
panic, the ids of the old nodes keep their labels, the new nodes get the new labels. -/
theorem pinsert_rep (pt : PTrie) (t : Trie) (lbl : List Label) (p : List Step) (h : Rep pt t lbl) :
    ∃ pt' lbl', pt.insert p = some pt' ∧ Rep pt' (t.insert p) (lbl ++ lbl') := by
  by_cases hp : p.isEmpty = true
  · refine ⟨pt, [], by simp [PTrie.insert, hp], ?_⟩
    simpa [Trie.insert, hp] using h
  · obtain ⟨pt1, node, ext, e1, e2, e3⟩ :=
      pInsertLoop_inv t p pt lbl [] 0 0 (inv_of_rep h) h.root rfl
    rw [List.nil_append] at e2 e3
    have hnodelt : node < pt1.nodes.length := by
      rw [← e2.len]; exact (List.getElem?_eq_some_iff.1 e3).1
    obtain ⟨nd, hnd⟩ : ∃ nd, pt1.nodes[node]? = some nd := ⟨pt1.nodes[node], by simp [hnodelt]⟩
    refine ⟨⟨pt1.nodes.set node { nd with isEnd := true }⟩, ext, ?_, ?_⟩
    · simp [PTrie.insert, hp, e1, hnd]
    · have hT : t.insert p = { t with pats := t.pats ++ [p] } := by
        simp [Trie.insert, hp]
      rw [hT]
      exact rep_of_inv_setEnd e2 e3 hnd

end Golib.C05
