/-
C01 — false returns as a statement about the call's INTERVAL.
If, from the instant a `Push` (`Pop`) is invoked until it returns, no other thread has a call
in flight (every other thread is idle or in front of the first access of its next call in
every state of the interval), then the call runs on unchanged counters and slots: with a
free slot (a stored element) at the instant of invocation its check passes, its CAS
succeeds and it returns true.  Contrapositive: a false return ⇒ the ring was full (empty) at
the instant of invocation — an instant during the call — OR another operation overlapped
the call.
-/
import Golib.Proof.C01Progress

namespace Golib.C01
open Golib.C01.Util

/-- the first access of every call is a load: a thread with no call in flight does not
change shared memory when it steps -/
theorem step_atStart_shared (c : Cfg) {s : State} {j : Nat} {th : Thread}
    (hth : s.threads[j]? = some th) (h : atStart th.pc = true) :
    (step c s j).1.head = s.head ∧ (step c s j).1.tail = s.tail ∧ (step c s j).1.slots = s.slots := by
  unfold step
  rw [hth]
  simp only []
  cases hpc : th.pc <;> rw [hpc] at h <;> simp only [atStart] at h <;>
    first | exact ⟨rfl, rfl, rfl⟩ | exact absurd h (by decide)

/-- in every state of the run over every prefix of `σ`, no thread other than `i` has a call
in flight -/
def NoOverlap (c : Cfg) (s : State) (i : Nat) (σ : List Nat) : Prop :=
  ∀ σ1 σ2, σ = σ1 ++ σ2 → ∀ j th, j ≠ i → (run c s σ1).1.threads[j]? = some th → atStart th.pc = true

theorem NoOverlap.tail {c : Cfg} {s : State} {i j : Nat} {σ : List Nat} (h : NoOverlap c s i (j :: σ)) :
    NoOverlap c (step c s j).1 i σ := by
  intro σ1 σ2 e k th hk hth
  exact h (j :: σ1) σ2 (by rw [e]; rfl) k th hk (by simpa [run] using hth)

theorem NoOverlap.here {c : Cfg} {s : State} {i : Nat} {σ : List Nat} (h : NoOverlap c s i σ) :
    ∀ j th, j ≠ i → s.threads[j]? = some th → atStart th.pc = true :=
  fun j th hj hth => h [] σ rfl j th hj hth

/-! ### Push -/

def PushAlone (c : Cfg) (i T : Nat) (s : State) : Prop :=
  PreP c (· = i) T s ∨ ∃ th p, s.threads[i]? = some th ∧ pushAt p th.pc = true

theorem preP_other {c : Cfg} {i T : Nat} {s : State} (h : PreP c (· = i) T s) {j : Nat} (hj : j ≠ i)
    (hat : ∀ th, s.threads[j]? = some th → atStart th.pc = true) :
    PreP c (· = i) T (step c s j).1 := by
  cases hth : s.threads[j]? with
  | none =>
    have : (step c s j).1 = s := by simp [step, hth]
    rw [this]; exact h
  | some th =>
    obtain ⟨e1, e2, e3⟩ := step_atStart_shared c hth (hat th hth)
    refine ⟨by rw [e2]; exact h.tail, by rw [e3]; exact h.slot, ?_⟩
    intro k b hk hb
    subst hk
    rw [step_threads_other c s (fun e => hj e.symm)] at hb
    exact h.pcs k b rfl hb

theorem pushAlone_run {c : Cfg} (g : Ghost c) {i T : Nat} {s : State} (hI : Inv c s)
    (hJ : PushAlone c i T s) (σ : List Nat) (hno : NoOverlap c s i σ)
    (hret : ∀ e ∈ (run c s σ).2, e.tid = i → e.ret = none) :
    PushAlone c i T (run c s σ).1 := by
  induction σ generalizing s with
  | nil => exact hJ
  | cons j σ ih =>
    simp only [run] at hret ⊢
    refine ih (inv_step g hI j) ?_ hno.tail (fun e he => hret e (by simp [he]))
    by_cases hj : j = i
    · subst hj
      rcases hJ with hP | ⟨th, p, hth, hat⟩
      · rcases prePush_step g hP (i := j) rfl with ⟨th, v, seq, _, _, _, hnext⟩ | ⟨h1, _, _⟩
        · exact Or.inr ⟨_, T, hnext, by simp [pushAt]⟩
        · exact Or.inl h1
      · right
        have hilt := getElem?_lt hth
        cases hpc : th.pc with
        | pushWrite v pos seq =>
          obtain ⟨sl, hsl⟩ := slot_exists g hI pos
          refine ⟨{ th with pc := .pushStore pos seq }, pos, ?_, by simp [pushAt]⟩
          simp only [step, hth, hpc, hsl, State.setPc]
          exact List.getElem?_set_self hilt
        | pushStore pos seq =>
          exfalso
          have h1 := push_returns_true g hI hth hpc
          have h2 := hret (step c s j).2 (by simp) (by
            obtain ⟨sl, hsl⟩ := slot_exists g hI pos
            simp only [step, hth, hpc, hsl])
          rw [h1] at h2
          simp at h2
        | _ => simp [hpc, pushAt] at hat
    · rcases hJ with hP | ⟨th, p, hth, hat⟩
      · exact Or.inl (preP_other hP hj (fun th hth => hno.here j th hj hth))
      · exact Or.inr ⟨th, p, by rw [step_threads_other c s (fun e => hj e.symm)]; exact hth, hat⟩

/-- alone in its interval and with a free slot at the invocation, a `Push` does not return
false -/
theorem push_alone_not_false {c : Cfg} (g : Ghost c) {i T : Nat} {s : State} (hI : Inv c s)
    (hJ : PushAlone c i T s) (σ1 σ2 : List Nat) (hno : NoOverlap c s i (σ1 ++ i :: σ2))
    (hret : ∀ e ∈ (run c s σ1).2, e.tid = i → e.ret = none) :
    (step c (run c s σ1).1 i).2.ret ≠ some (.push false) := by
  have hno1 : NoOverlap c s i σ1 := by
    intro a b e j th hj hth
    exact hno a (b ++ i :: σ2) (by rw [e, List.append_assoc]) j th hj hth
  have hJ1 := pushAlone_run g hI hJ σ1 hno1 hret
  have hI1 := inv_run g hI σ1
  rcases hJ1 with hP | ⟨th, p, hth, hat⟩
  · rcases prePush_step g hP (i := i) rfl with ⟨_, _, _, _, _, hev, _⟩ | ⟨_, hr, _⟩
    · rw [hev]; simp
    · rw [hr]; simp
  · cases hpc : th.pc with
    | pushWrite v pos seq =>
      obtain ⟨sl, hsl⟩ := slot_exists g hI1 pos
      simp only [step, hth, hpc, hsl]
      simp
    | pushStore pos seq =>
      rw [push_returns_true g hI1 hth hpc]; simp
    | _ => simp [hpc, pushAt] at hat

/-! ### Pop -/

def PopAlone (c : Cfg) (i H : Nat) (s : State) : Prop :=
  PreQ c (· = i) H s ∨ ∃ th p, s.threads[i]? = some th ∧ popAt p th.pc = true

theorem preQ_other {c : Cfg} {i H : Nat} {s : State} (h : PreQ c (· = i) H s) {j : Nat} (hj : j ≠ i)
    (hat : ∀ th, s.threads[j]? = some th → atStart th.pc = true) :
    PreQ c (· = i) H (step c s j).1 := by
  cases hth : s.threads[j]? with
  | none =>
    have : (step c s j).1 = s := by simp [step, hth]
    rw [this]; exact h
  | some th =>
    obtain ⟨e1, e2, e3⟩ := step_atStart_shared c hth (hat th hth)
    refine ⟨by rw [e1]; exact h.head, by rw [e3]; exact h.slot, ?_⟩
    intro k b hk hb
    subst hk
    rw [step_threads_other c s (fun e => hj e.symm)] at hb
    exact h.pcs k b rfl hb

/-- every step of a thread between its head-CAS and its release store -/
theorem pop_owner_step {c : Cfg} (g : Ghost c) {s : State} (hI : Inv c s) {i : Nat} {th : Thread}
    (hth : s.threads[i]? = some th) {p : Nat} (hat : popAt p th.pc = true) :
    ((step c s i).2.ret = none ∧ ∃ th' p', (step c s i).1.threads[i]? = some th' ∧ popAt p' th'.pc = true) ∨
    (∃ v, (step c s i).2.ret = some (.pop v true)) := by
  have hilt := getElem?_lt hth
  cases hpc : th.pc with
  | popRead pos seq =>
    obtain ⟨sl, hsl⟩ := slot_exists g hI pos
    left
    refine ⟨by simp only [step, hth, hpc, hsl], { th with pc := .popClear pos seq sl.val }, pos, ?_, by simp [popAt]⟩
    simp only [step, hth, hpc, hsl, State.setPc]
    exact List.getElem?_set_self hilt
  | popClear pos seq v =>
    obtain ⟨sl, hsl⟩ := slot_exists g hI pos
    left
    refine ⟨by simp only [step, hth, hpc, hsl], { th with pc := .popStore pos seq v }, pos, ?_, by simp [popAt]⟩
    simp only [step, hth, hpc, hsl, State.setPc]
    exact List.getElem?_set_self hilt
  | popStore pos seq v =>
    obtain ⟨sl, hsl⟩ := slot_exists g hI pos
    right
    exact ⟨v, by simp only [step, hth, hpc, hsl]⟩
  | _ => simp [hpc, popAt] at hat

theorem step_tid (c : Cfg) (s : State) (i : Nat) : (step c s i).2.tid = i := by
  unfold step
  cases s.threads[i]? with
  | none => rfl
  | some th =>
    simp only []
    cases th.pc <;> dsimp only <;> (repeat' split) <;> rfl

theorem popAlone_run {c : Cfg} (g : Ghost c) {i H : Nat} {s : State} (hI : Inv c s)
    (hJ : PopAlone c i H s) (σ : List Nat) (hno : NoOverlap c s i σ)
    (hret : ∀ e ∈ (run c s σ).2, e.tid = i → e.ret = none) :
    PopAlone c i H (run c s σ).1 := by
  induction σ generalizing s with
  | nil => exact hJ
  | cons j σ ih =>
    simp only [run] at hret ⊢
    refine ih (inv_step g hI j) ?_ hno.tail (fun e he => hret e (by simp [he]))
    by_cases hj : j = i
    · subst hj
      rcases hJ with hP | ⟨th, p, hth, hat⟩
      · rcases prePop_step g hP (i := j) rfl with ⟨th, seq, _, _, _, hnext⟩ | ⟨h1, _, _⟩
        · exact Or.inr ⟨_, H, hnext, by simp [popAt]⟩
        · exact Or.inl h1
      · right
        rcases pop_owner_step g hI hth hat with ⟨_, th', p', h1, h2⟩ | ⟨v, hv⟩
        · exact ⟨th', p', h1, h2⟩
        · exfalso
          have h2 := hret (step c s j).2 (by simp) (step_tid c s j)
          rw [hv] at h2
          simp at h2
    · rcases hJ with hP | ⟨th, p, hth, hat⟩
      · exact Or.inl (preQ_other hP hj (fun th hth => hno.here j th hj hth))
      · exact Or.inr ⟨th, p, by rw [step_threads_other c s (fun e => hj e.symm)]; exact hth, hat⟩

theorem pop_alone_not_false {c : Cfg} (g : Ghost c) {i H : Nat} {s : State} (hI : Inv c s)
    (hJ : PopAlone c i H s) (σ1 σ2 : List Nat) (hno : NoOverlap c s i (σ1 ++ i :: σ2))
    (hret : ∀ e ∈ (run c s σ1).2, e.tid = i → e.ret = none) (w : Int) :
    (step c (run c s σ1).1 i).2.ret ≠ some (.pop w false) := by
  have hno1 : NoOverlap c s i σ1 := by
    intro a b e j th hj hth
    exact hno a (b ++ i :: σ2) (by rw [e, List.append_assoc]) j th hj hth
  have hJ1 := popAlone_run g hI hJ σ1 hno1 hret
  have hI1 := inv_run g hI σ1
  rcases hJ1 with hP | ⟨th, p, hth, hat⟩
  · rcases prePop_step g hP (i := i) rfl with ⟨_, _, _, _, hev, _⟩ | ⟨_, hr, _⟩
    · rw [hev]; simp
    · rw [hr]; simp
  · rcases pop_owner_step g hI1 hth hat with ⟨h0, _⟩ | ⟨v, hv⟩
    · rw [h0]; simp
    · rw [hv]; simp

end Golib.C01
