/-
C07: `parseUint` (uint64 arithmetic with cutoff / wrap-around tests, as coded) computes the
unbounded specification `specLoop`; declarative consequences.
-/
import Golib.Model.C07Enc

namespace Golib.C07
open Golib

/-- `c` is a digit of `base`. -/
def isDigit (base c : Nat) : Bool :=
  match digitVal c with
  | some d => decide (d < base)
  | none => false

/-- Value of a digit string continuing from `n` (non-digits count as 0). -/
def accVal (base : Nat) : Bytes → Nat → Nat
  | [], n => n
  | c :: rest, n => accVal base rest (n * base + (digitVal c).getD 0)

/-- Value of a digit string. -/
def valOf (base : Nat) (s : Bytes) : Nat := accVal base s 0

/-- `parseUint` over unbounded naturals: no cutoff, no wrap-around. -/
def specLoop (base maxVal : Nat) : Bytes → Nat → Nat → Nat × Nat × Bool
  | [], i, n => (n, i, true)
  | c :: rest, i, n =>
    match digitVal c with
    | none => (0, i, false)
    | some d =>
      if d ≥ base then (0, i, false)
      else if n * base + d > maxVal then (maxVal, i, false)
      else specLoop base maxVal rest (i + 1) (n * base + d)

theorem digitVal_lt {c d : Nat} (h : digitVal c = some d) (hc : c < 256) : d < 36 := by
  unfold digitVal at h
  split at h
  · simp only [Option.some.injEq] at h; omega
  · split at h
    · simp only [Option.some.injEq] at h; omega
    · simp at h

/-- The `uint64` code equals the unbounded specification for every input. -/
theorem parseUintLoop_eq_spec {base maxVal : Nat} (hb1 : 2 ≤ base) (hb2 : base ≤ 36)
    (hm : maxVal < 2 ^ 64) :
    ∀ (s : Bytes) (i n : Nat), n ≤ maxVal →
      parseUintLoop base ((2 ^ 64 - 1) / base + 1) maxVal s i n = specLoop base maxVal s i n
  | [], i, n, _ => by simp [parseUintLoop, specLoop]
  | c :: rest, i, n, hn => by
    unfold parseUintLoop specLoop
    cases hd : digitVal c with
    | none => rfl
    | some d =>
      simp only []
      have hbm : base % 256 = base := Nat.mod_eq_of_lt (by omega)
      rw [hbm]
      by_cases hdb : d ≥ base
      · simp [hdb]
      · simp only [hdb, if_false]
        by_cases hcut : n ≥ (2 ^ 64 - 1) / base + 1
        · simp only [hcut, if_true]
          have : (2 ^ 64 - 1) / base < n := by omega
          have h2 : 2 ^ 64 - 1 < n * base := by
            have := (Nat.div_lt_iff_lt_mul (by omega : 0 < base)).mp this
            exact this
          have : n * base + d > maxVal := by omega
          simp [this]
        · simp only [hcut, if_false]
          have hle : n ≤ (2 ^ 64 - 1) / base := by omega
          have h2 : n * base ≤ 2 ^ 64 - 1 := (Nat.le_div_iff_mul_le (by omega : 0 < base)).mp hle
          have hnb : n * base % 2 ^ 64 = n * base := Nat.mod_eq_of_lt (by omega)
          rw [hnb]
          by_cases hov : n * base + d < 2 ^ 64
          · have h3 : (n * base + d) % 2 ^ 64 = n * base + d := Nat.mod_eq_of_lt hov
            rw [h3]
            by_cases hgt : n * base + d > maxVal
            · simp [hgt]
            · have : ¬ (n * base + d < n * base ∨ n * base + d > maxVal) := by omega
              rw [if_neg this, if_neg hgt]
              exact parseUintLoop_eq_spec hb1 hb2 hm rest (i + 1) (n * base + d) (by omega)
          · have h3 : (n * base + d) % 2 ^ 64 = n * base + d - 2 ^ 64 := by
              rw [Nat.mod_eq_sub_mod (by omega), Nat.mod_eq_of_lt (by omega)]
            rw [h3]
            have hgt : n * base + d > maxVal := by omega
            have : n * base + d - 2 ^ 64 < n * base ∨ n * base + d - 2 ^ 64 > maxVal := by
              left; omega
            simp [this, hgt]

theorem maxVal_eq {bits : Nat} (h : bits ≤ 64) :
    (2 ^ bits % 2 ^ 64 + 2 ^ 64 - 1) % 2 ^ 64 = 2 ^ bits - 1 := by
  have hpos : 0 < 2 ^ bits := Nat.pow_pos (by omega)
  by_cases h64 : bits = 64
  · subst h64; decide
  · have : 2 ^ bits < 2 ^ 64 := Nat.pow_lt_pow_right (by omega) (by omega)
    rw [Nat.mod_eq_of_lt this]
    have : 2 ^ bits + 2 ^ 64 - 1 = (2 ^ bits - 1) + 2 ^ 64 := by omega
    rw [this, Nat.add_mod_right, Nat.mod_eq_of_lt (by omega)]

theorem parseUint_eq_spec {s : Bytes} {base bits : Nat} (hb1 : 2 ≤ base) (hb2 : base ≤ 36)
    (hbits : bits ≤ 64) : parseUint s base bits = specLoop base (2 ^ bits - 1) s 0 0 := by
  unfold parseUint
  simp only [maxVal_eq hbits]
  have hpos : 0 < 2 ^ bits := Nat.pow_pos (by omega)
  have : 2 ^ bits ≤ 2 ^ 64 := Nat.pow_le_pow_right (by omega) hbits
  exact parseUintLoop_eq_spec hb1 hb2 (by omega) s 0 0 (Nat.zero_le _)

theorem accVal_ge (base : Nat) (hb : 1 ≤ base) : ∀ (s : Bytes) (n : Nat), n ≤ accVal base s n
  | [], n => Nat.le_refl _
  | c :: rest, n => by
    unfold accVal
    have := accVal_ge base hb rest (n * base + (digitVal c).getD 0)
    have : n ≤ n * base := Nat.le_mul_of_pos_right n hb
    omega

/-- All characters are digits of the base and the value fits: success with the value. -/
theorem specLoop_ok {base maxVal : Nat} (hb : 1 ≤ base) :
    ∀ (s : Bytes) (i n : Nat), (∀ c ∈ s, isDigit base c = true) → accVal base s n ≤ maxVal →
      specLoop base maxVal s i n = (accVal base s n, i + s.length, true)
  | [], i, n, _, _ => by simp [specLoop, accVal]
  | c :: rest, i, n, hd, hv => by
    have hc := hd c (by simp)
    unfold isDigit at hc
    unfold specLoop accVal
    cases hdv : digitVal c with
    | none => rw [hdv] at hc; simp at hc
    | some d =>
      rw [hdv] at hc
      simp only [decide_eq_true_eq] at hc
      simp only [Option.getD_some]
      unfold accVal at hv
      simp only [hdv, Option.getD_some] at hv
      have hge := accVal_ge base hb rest (n * base + d)
      have h1 : ¬ d ≥ base := by omega
      have h2 : ¬ n * base + d > maxVal := by omega
      simp only [h1, h2, if_false]
      rw [specLoop_ok hb rest (i + 1) (n * base + d) (fun c' hc' => hd c' (by simp [hc'])) hv]
      simp only [List.length_cons]
      congr 2; omega

/-- Success means: every character is a digit, the value fits, the index is `len(s)`. -/
theorem specLoop_true {base maxVal : Nat} :
    ∀ (s : Bytes) (i n v j : Nat), n ≤ maxVal → specLoop base maxVal s i n = (v, j, true) →
      j = i + s.length ∧ v = accVal base s n ∧ (∀ c ∈ s, isDigit base c = true) ∧ v ≤ maxVal
  | [], i, n, v, j, hn, h => by
    simp only [specLoop, Prod.mk.injEq, and_true] at h
    obtain ⟨rfl, rfl⟩ := h
    simp [accVal, hn]
  | c :: rest, i, n, v, j, hn, h => by
    unfold specLoop at h
    cases hdv : digitVal c with
    | none => rw [hdv] at h; simp at h
    | some d =>
      rw [hdv] at h
      simp only [] at h
      split at h
      · simp at h
      · split at h
        · simp at h
        · rename_i h1 h2
          obtain ⟨a, b, c', d'⟩ := specLoop_true rest (i + 1) (n * base + d) v j (by omega) h
          refine ⟨by simp only [List.length_cons]; omega, by simp [accVal, hdv, b], ?_, d'⟩
          intro x hx
          rcases List.mem_cons.mp hx with rfl | hx
          · simp only [isDigit, hdv, decide_eq_true_eq]; omega
          · exact c' x hx

/-- Failure reports the index of the first bad digit: either not a digit of the base
(value 0) or the digit that makes the value exceed `maxVal` (value `maxVal`). -/
theorem specLoop_false {base maxVal : Nat} :
    ∀ (s : Bytes) (i n v j : Nat), n ≤ maxVal → specLoop base maxVal s i n = (v, j, false) →
      ∃ k c, j = i + k ∧ s[k]? = some c ∧ (∀ c' ∈ s.take k, isDigit base c' = true) ∧
        accVal base (s.take k) n ≤ maxVal ∧
        ((isDigit base c = false ∧ v = 0) ∨
         (isDigit base c = true ∧ accVal base (s.take (k + 1)) n > maxVal ∧ v = maxVal))
  | [], i, n, v, j, hn, h => by simp [specLoop] at h
  | c :: rest, i, n, v, j, hn, h => by
    unfold specLoop at h
    cases hdv : digitVal c with
    | none =>
      rw [hdv] at h
      simp only [Prod.mk.injEq, and_true] at h
      exact ⟨0, c, by omega, by simp, by simp, by simpa [accVal] using hn,
        Or.inl ⟨by simp [isDigit, hdv], h.1.symm⟩⟩
    | some d =>
      rw [hdv] at h
      simp only [] at h
      split at h
      · rename_i h1
        simp only [Prod.mk.injEq, and_true] at h
        exact ⟨0, c, by omega, by simp, by simp, by simpa [accVal] using hn,
          Or.inl ⟨by simp only [isDigit, hdv, decide_eq_false_iff_not]; omega, h.1.symm⟩⟩
      · rename_i h1
        split at h
        · rename_i h2
          simp only [Prod.mk.injEq, and_true] at h
          exact ⟨0, c, by omega, by simp, by simp, by simpa [accVal] using hn,
            Or.inr ⟨by simp only [isDigit, hdv, decide_eq_true_eq]; omega,
              by simpa [accVal, hdv] using h2, h.1.symm⟩⟩
        · rename_i h2
          obtain ⟨k, c2, hj, hg, hall, hacc, hor⟩ :=
            specLoop_false rest (i + 1) (n * base + d) v j (by omega) h
          refine ⟨k + 1, c2, by omega, by simpa using hg, ?_, by simpa [accVal, hdv] using hacc, ?_⟩
          · intro x hx
            simp only [List.take_succ_cons, List.mem_cons] at hx
            rcases hx with rfl | hx
            · simp only [isDigit, hdv, decide_eq_true_eq]; omega
            · exact hall x hx
          · simpa [accVal, hdv] using hor

end Golib.C07
