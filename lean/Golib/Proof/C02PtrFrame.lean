/-
C02 pointer model, part 2: pointer writes.  `Frame S p p'`: `p'` differs from `p` only in
`next` slots `j` with `S j` (keys, values, tower sizes, heap size, `level/len/rand` are the
same).  `c.next[i] = x` is a `Frame (· = i)`.  One level of the link loop of `set`
(`node.next[i] = update[i].next[i]; update[i].next[i] = node`) is `spliceAt` on the key list,
one level of the unlink loop of `Remove` (`update[i].next[i] = cur.next[i]`) is `unspliceAt`.
-/
import Golib.Proof.C02PtrAbs

set_option linter.unusedSectionVars false
set_option linter.unusedSimpArgs false
set_option linter.unusedVariables false

namespace Golib.C02

variable {K V : Type} [DecidableEq K]

/-- `p'` differs from `p` only in `next` slots `j` with `S j`. -/
structure Frame (S : Nat → Prop) (p p' : PSL K V) : Prop where
  level : p'.level = p.level
  len : p'.len = p.len
  rand : p'.hasRand = p.hasRand
  size : p'.nodes.size = p.nodes.size
  headNone : p.head = none → p'.head = none
  head : ∀ h : Array (Option Nat), p.head = some h →
    ∃ h' : Array (Option Nat), p'.head = some h' ∧ h'.size = h.size ∧ ∀ j, ¬ S j → h'[j]? = h[j]?
  node : ∀ (id : Nat) (nd : PNode K V), p.nodes[id]? = some nd →
    ∃ nd' : PNode K V, p'.nodes[id]? = some nd' ∧ nd'.key = nd.key ∧
    nd'.val = nd.val ∧ nd'.next.size = nd.next.size ∧ ∀ j, ¬ S j → nd'.next[j]? = nd.next[j]?

theorem Frame.refl (S : Nat → Prop) (p : PSL K V) : Frame S p p :=
  ⟨rfl, rfl, rfl, rfl, id, fun h hh => ⟨h, hh, rfl, fun _ _ => rfl⟩,
   fun id nd h => ⟨nd, h, rfl, rfl, rfl, fun _ _ => rfl⟩⟩

theorem Frame.trans {S : Nat → Prop} {p p' p'' : PSL K V} (h1 : Frame S p p') (h2 : Frame S p' p'') :
    Frame S p p'' := by
  refine ⟨h2.level.trans h1.level, h2.len.trans h1.len, h2.rand.trans h1.rand, h2.size.trans h1.size,
    fun h => h2.headNone (h1.headNone h), ?_, ?_⟩
  · intro h hh
    obtain ⟨h', a1, a2, a3⟩ := h1.head h hh
    obtain ⟨h'', b1, b2, b3⟩ := h2.head h' a1
    exact ⟨h'', b1, b2.trans a2, fun j hj => (b3 j hj).trans (a3 j hj)⟩
  · intro id nd hn
    obtain ⟨nd', a1, a2, a3, a4, a5⟩ := h1.node id nd hn
    obtain ⟨nd'', b1, b2, b3, b4, b5⟩ := h2.node id nd' a1
    exact ⟨nd'', b1, b2.trans a2, b3.trans a3, b4.trans a4, fun j hj => (b5 j hj).trans (a5 j hj)⟩

theorem Frame.weaken {S S' : Nat → Prop} {p p' : PSL K V} (h : Frame S p p') (hs : ∀ j, S j → S' j) :
    Frame S' p p' := by
  refine ⟨h.level, h.len, h.rand, h.size, h.headNone, ?_, ?_⟩
  · intro hd hh
    obtain ⟨h', a1, a2, a3⟩ := h.head hd hh
    exact ⟨h', a1, a2, fun j hj => a3 j (fun c => hj (hs j c))⟩
  · intro id nd hn
    obtain ⟨nd', a1, a2, a3, a4, a5⟩ := h.node id nd hn
    exact ⟨nd', a1, a2, a3, a4, fun j hj => a5 j (fun c => hj (hs j c))⟩

theorem Frame.nextOf {S : Nat → Prop} {p p' : PSL K V} (h : Frame S p p') {j : Nat} (hj : ¬ S j)
    {c : Ptr} {x : Option Nat} (hx : p.nextOf c j = some x) : p'.nextOf c j = some x := by
  cases c with
  | none =>
    simp only [PSL.nextOf] at hx ⊢
    cases hh : p.head with
    | none => rw [hh] at hx; cases hx
    | some hd =>
      rw [hh] at hx
      obtain ⟨h', a1, _, a3⟩ := h.head hd hh
      rw [a1]; simp only []; rw [a3 j hj]; exact hx
  | some id =>
    simp only [PSL.nextOf] at hx ⊢
    cases hn : p.nodes[id]? with
    | none => rw [hn] at hx; cases hx
    | some nd =>
      rw [hn] at hx
      obtain ⟨nd', a1, _, _, _, a5⟩ := h.node id nd hn
      rw [a1]; simp only []; rw [a5 j hj]; exact hx

theorem Frame.chain {S : Nat → Prop} {p p' : PSL K V} (h : Frame S p p') {j : Nat} (hj : ¬ S j)
    {f : K → Nat} {st : Option Nat} {ks : List K} (hc : ChainK p f j st ks) : ChainK p' f j st ks := by
  refine hc.mono (fun _ _ => rfl) ?_
  intro k _ nd hn
  obtain ⟨nd', a1, a2, _, _, a5⟩ := h.node (f k) nd hn
  exact ⟨nd', a1, a2, a5 j hj⟩

/-! ### `c.next[i] = x` -/

theorem setNext_head {p p' : PSL K V} {i : Nat} {x : Option Nat} (h : p.setNext none i x = some p') :
    ∃ hd, p.head = some hd ∧ i < hd.size ∧ p' = { p with head := some (hd.setIfInBounds i x) } := by
  simp only [PSL.setNext] at h
  cases hh : p.head with
  | none => rw [hh] at h; cases h
  | some hd =>
    rw [hh] at h; simp only [] at h
    split at h
    · cases h; exact ⟨hd, rfl, by assumption, rfl⟩
    · cases h

theorem setNext_node {p p' : PSL K V} {a i : Nat} {x : Option Nat} (h : p.setNext (some a) i x = some p') :
    ∃ nd, p.nodes[a]? = some nd ∧ i < nd.next.size ∧
      p' = { p with nodes := p.nodes.setIfInBounds a { nd with next := nd.next.setIfInBounds i x } } := by
  simp only [PSL.setNext] at h
  cases hn : p.nodes[a]? with
  | none => rw [hn] at h; cases h
  | some nd =>
    rw [hn] at h; simp only [] at h
    split at h
    · cases h; exact ⟨nd, rfl, by assumption, rfl⟩
    · cases h

theorem setNext_head_ok {p : PSL K V} {i : Nat} {hd : Array (Option Nat)} (hh : p.head = some hd)
    (hi : i < hd.size) (x : Option Nat) :
    p.setNext none i x = some { p with head := some (hd.setIfInBounds i x) } := by
  simp [PSL.setNext, hh, hi]

theorem setNext_node_ok {p : PSL K V} {a i : Nat} {nd : PNode K V} (hn : p.nodes[a]? = some nd)
    (hi : i < nd.next.size) (x : Option Nat) :
    p.setNext (some a) i x =
      some { p with nodes := p.nodes.setIfInBounds a { nd with next := nd.next.setIfInBounds i x } } := by
  simp [PSL.setNext, hn, hi]

theorem setNext_frame {p p' : PSL K V} {c : Ptr} {i : Nat} {x : Option Nat} (h : p.setNext c i x = some p') :
    Frame (· = i) p p' := by
  cases c with
  | none =>
    obtain ⟨hd, hh, hi, rfl⟩ := setNext_head h
    refine ⟨rfl, rfl, rfl, rfl, fun e => (by rw [hh] at e; cases e), ?_,
      fun id nd hn => ⟨nd, hn, rfl, rfl, rfl, fun _ _ => rfl⟩⟩
    intro h0 hh0
    rw [hh] at hh0; cases hh0
    refine ⟨_, rfl, by simp, ?_⟩
    intro j hj
    rw [Array.getElem?_setIfInBounds, if_neg (fun e => hj e.symm)]
  | some a =>
    obtain ⟨nd, hn, hi, rfl⟩ := setNext_node h
    have ha := (Array.getElem?_eq_some_iff.mp hn).1
    refine ⟨rfl, rfl, rfl, by simp, id, fun h0 hh0 => ⟨h0, hh0, rfl, fun _ _ => rfl⟩, ?_⟩
    intro id nd0 hn0
    simp only []
    rw [Array.getElem?_setIfInBounds]
    by_cases e : a = id
    · subst e
      rw [hn] at hn0; cases hn0
      refine ⟨{ nd with next := nd.next.setIfInBounds i x }, by simp [ha], rfl, rfl, by simp, ?_⟩
      intro j hj
      simp only []
      rw [Array.getElem?_setIfInBounds, if_neg (fun e => hj e.symm)]
    · rw [if_neg e]
      exact ⟨nd0, hn0, rfl, rfl, rfl, fun _ _ => rfl⟩

/-- Reading back the slot just written. -/
theorem nextOf_setNext_same {p p' : PSL K V} {c : Ptr} {i : Nat} {x : Option Nat}
    (h : p.setNext c i x = some p') : p'.nextOf c i = some x := by
  cases c with
  | none =>
    obtain ⟨hd, hh, hi, rfl⟩ := setNext_head h
    simp [PSL.nextOf, Array.getElem?_setIfInBounds, hi]
  | some a =>
    obtain ⟨nd, hn, hi, rfl⟩ := setNext_node h
    have ha := (Array.getElem?_eq_some_iff.mp hn).1
    simp [PSL.nextOf, Array.getElem?_setIfInBounds, ha, hi]

/-- A write through one pointer does not change what another pointer reads. -/
theorem nextOf_setNext_other {p p' : PSL K V} {c c' : Ptr} {i j : Nat} {x : Option Nat}
    (h : p.setNext c i x = some p') (hne : c' ≠ c) : p'.nextOf c' j = p.nextOf c' j := by
  cases c with
  | none =>
    obtain ⟨hd, hh, hi, rfl⟩ := setNext_head h
    cases c' with
    | none => exact absurd rfl hne
    | some b => rfl
  | some a =>
    obtain ⟨nd, hn, hi, rfl⟩ := setNext_node h
    cases c' with
    | none => rfl
    | some b =>
      have : a ≠ b := fun e => hne (by rw [e])
      simp only [PSL.nextOf]
      rw [Array.getElem?_setIfInBounds, if_neg this]

/-- The key of a node is not changed by a pointer write. -/
theorem node_setNext {p p' : PSL K V} {c : Ptr} {i : Nat} {x : Option Nat}
    (h : p.setNext c i x = some p') {b : Nat} {nd : PNode K V} (hn : p.nodes[b]? = some nd) :
    ∃ nd', p'.nodes[b]? = some nd' ∧ nd'.key = nd.key ∧ nd'.val = nd.val ∧ nd'.next.size = nd.next.size :=
  let ⟨nd', a1, a2, a3, a4, _⟩ := (setNext_frame h).node b nd hn
  ⟨nd', a1, a2, a3, a4⟩

/-- A chain that does not pass through the written node is unchanged (even at level `i`). -/
theorem ChainK.setNext_off {p p' : PSL K V} {f : K → Nat} {c : Ptr} {i j : Nat} {x : Option Nat}
    (h : p.setNext c i x = some p') {st : Option Nat} {ks : List K} (hc : ChainK p f j st ks)
    (hoff : ∀ k ∈ ks, some (f k) ≠ c) : ChainK p' f j st ks := by
  refine hc.mono (fun _ _ => rfl) ?_
  intro k hk nd hn
  have h1 := nextOf_setNext_other (j := j) h (hoff k hk)
  obtain ⟨nd', a1, a2, _, _⟩ := node_setNext h hn
  refine ⟨nd', a1, a2, ?_⟩
  simpa [PSL.nextOf, a1, hn] using h1

/-! ### one level of the link loop -/

theorem uptoNode_some {c : K} : ∀ {l pre : List K}, uptoNode c l = some pre → c ∈ l := by
  intro l
  induction l with
  | nil => intro pre h; simp [uptoNode] at h
  | cons x xs ih =>
    intro pre h
    unfold uptoNode at h
    by_cases hx : x = c
    · simp [hx]
    · rw [if_neg hx] at h
      cases hu : uptoNode c xs with
      | none => rw [hu] at h; cases h
      | some pre' => exact List.mem_cons_of_mem _ (ih hu)

/-- The two writes of one iteration of the link loop, at a node cursor. -/
theorem link_chain_node {p p1 p2 : PSL K V} {f : K → Nat} {i : Nat} {c key : K} {id : Nat} {x0 : Option Nat}
    (hx0 : p.nextOf (some (f c)) i = some x0)
    (h1 : p.setNext (some id) i x0 = some p1) (h2 : p1.setNext (some (f c)) i (some id) = some p2)
    (hfk : f key = id) (hidc : f c ≠ id) (hkey : ∃ nd, p.nodes[id]? = some nd ∧ nd.key = key) :
    ∀ {l pre post : List K} {st : Option Nat}, ChainK p f i st l → l.Nodup →
      uptoNode c l = some pre → afterNode c l = some post → (∀ k ∈ l, f k ≠ id) →
      ChainK p2 f i st (pre ++ key :: post) := by
  subst hfk
  intro l
  induction l with
  | nil => intro pre post st _ _ hu; simp [uptoNode] at hu
  | cons x xs ih =>
    intro pre post st hc hnd hu haf hid
    obtain ⟨h0, nd, nx, g1, g2, g3, g4⟩ := chainK_cons.mp hc
    obtain ⟨hxn, hnd'⟩ := List.nodup_cons.mp hnd
    unfold uptoNode at hu
    unfold Golib.C02.afterNode at haf
    by_cases hx : x = c
    · subst hx
      rw [if_pos rfl] at hu haf
      cases hu; cases haf
      -- x0 is what `c.next[i]` held
      have e0 : x0 = nx := by
        simp only [PSL.nextOf, g1, g3, Option.some.injEq] at hx0; exact hx0.symm
      subst e0
      -- node `c` in the final state
      obtain ⟨ndc1, c1, c2, _, _⟩ := node_setNext h1 g1
      obtain ⟨ndc2, d1, d2, _, _⟩ := node_setNext h2 c1
      have d3 : ndc2.next[i]? = some (some (f key)) := by
        have := nextOf_setNext_same h2
        simpa [PSL.nextOf, d1] using this
      -- the new node in the final state
      obtain ⟨ndk, k1, k2⟩ := hkey
      obtain ⟨ndk1, e1, e2, _, _⟩ := node_setNext h1 k1
      have e3 : ndk1.next[i]? = some x0 := by
        have := nextOf_setNext_same h1
        simpa [PSL.nextOf, e1] using this
      have hne : (some (f key) : Ptr) ≠ some (f x) := fun e => hidc (Option.some.inj e).symm
      obtain ⟨ndk2, f1, f2, _, _⟩ := node_setNext h2 e1
      have f3 : ndk2.next[i]? = some x0 := by
        have := nextOf_setNext_other (j := i) h2 hne
        simp only [PSL.nextOf, f1, e1] at this
        rw [this, e3]
      -- the rest of the chain is untouched
      have hrest : ChainK p2 f i x0 xs := by
        have r1 : ChainK p1 f i x0 xs := g4.setNext_off h1 (fun k hk e => hid k (by simp [hk]) (Option.some.inj e))
        refine r1.setNext_off h2 (fun k hk e => ?_)
        have : k = x := hc.inj hc (by simp [hk]) (by simp) (Option.some.inj e)
        exact hxn (this ▸ hk)
      simp only [List.cons_append, List.nil_append]
      rw [chainK_cons]
      refine ⟨h0, ndc2, some (f key), d1, by rw [d2, c2, g2], d3, ?_⟩
      rw [chainK_cons]
      refine ⟨rfl, ndk2, x0, f1, by rw [f2, e2, k2], f3, hrest⟩
    · rw [if_neg hx] at hu haf
      cases hu' : uptoNode c xs with
      | none => rw [hu'] at hu; cases hu
      | some pre' =>
        rw [hu'] at hu; simp only [Option.map_some, Option.some.injEq] at hu; subst hu
        have hcx : c ∈ xs := uptoNode_some hu'
        have hfx : f x ≠ f c := by
          intro e
          exact hx (hc.inj hc (by simp) (by simp [hcx]) e)
        have hxid : f x ≠ (f key) := hid x (by simp)
        -- node `x` is untouched by both writes
        obtain ⟨nd1, a1, a2, _, _⟩ := node_setNext h1 g1
        have a3 : nd1.next[i]? = some nx := by
          have := nextOf_setNext_other (j := i) h1 (c' := some (f x)) (fun e => hxid (Option.some.inj e))
          simp only [PSL.nextOf, a1, g1] at this; rw [this, g3]
        obtain ⟨nd2, b1, b2, _, _⟩ := node_setNext h2 a1
        have b3 : nd2.next[i]? = some nx := by
          have := nextOf_setNext_other (j := i) h2 (c' := some (f x)) (fun e => hfx (Option.some.inj e))
          simp only [PSL.nextOf, b1, a1] at this; rw [this, a3]
        simp only [List.cons_append]
        rw [chainK_cons]
        refine ⟨h0, nd2, nx, b1, by rw [b2, a2, g2], b3, ?_⟩
        exact ih g4 hnd' hu' haf (fun k hk => hid k (by simp [hk]))

/-- One iteration of the link loop of `set` at level `i`:
`node.next[i] = update[i].next[i]; update[i].next[i] = node` is `spliceAt update[i] key` on the
key list of the level. -/
theorem link_level {p : PSL K V} {f : K → Nat} {i : Nat} {key : K} {id : Nat} {u : Option K}
    {l pre post : List K} {st : Option Nat}
    (hst : p.nextOf none i = some st) (hc : ChainK p f i st l) (hnd : l.Nodup)
    (hu : upto u l = some pre) (haf : after u l = some post)
    (hfk : f key = id) (hid : ∀ k ∈ l, f k ≠ id)
    (hkey : ∃ nd, p.nodes[id]? = some nd ∧ nd.key = key ∧ i < nd.next.size) :
    ∃ x p1 p2, p.nextOf (u.map f) i = some x ∧ p.setNext (some id) i x = some p1 ∧
      p1.setNext (u.map f) i (some id) = some p2 ∧
      ∃ st2, p2.nextOf none i = some st2 ∧ ChainK p2 f i st2 (pre ++ key :: post) := by
  subst hfk
  obtain ⟨ndk, k1, k2, k3⟩ := hkey
  cases u with
  | none =>
    simp only [upto, Option.some.injEq] at hu; subst hu
    simp only [Golib.C02.after, Option.some.injEq] at haf; subst haf
    -- the head slot exists
    obtain ⟨hd, hh, hi⟩ : ∃ hd, p.head = some hd ∧ i < hd.size := by
      simp only [PSL.nextOf] at hst
      cases hh : p.head with
      | none => rw [hh] at hst; cases hst
      | some hd =>
        rw [hh] at hst
        exact ⟨hd, rfl, (Array.getElem?_eq_some_iff.mp hst).1⟩
    obtain ⟨p1, h1⟩ : ∃ p1, p.setNext (some (f key)) i st = some p1 := ⟨_, setNext_node_ok k1 k3 st⟩
    obtain ⟨ndk1, e1, e2, _, _⟩ := node_setNext h1 k1
    have e3 : ndk1.next[i]? = some st := by
      have := nextOf_setNext_same h1
      simpa [PSL.nextOf, e1] using this
    obtain ⟨hd1, hh1, hs1, _⟩ := (setNext_frame h1).head hd hh
    obtain ⟨p2, h2⟩ : ∃ p2, p1.setNext none i (some (f key)) = some p2 :=
      ⟨_, setNext_head_ok hh1 (by omega) _⟩
    refine ⟨st, p1, p2, hst, h1, h2, some (f key), nextOf_setNext_same h2, ?_⟩
    simp only [List.nil_append]
    rw [chainK_cons]
    obtain ⟨ndk2, f1, f2, _, _⟩ := node_setNext h2 e1
    have f3 : ndk2.next[i]? = some st := by
      have := nextOf_setNext_other (j := i) h2 (c' := some (f key)) (by simp)
      simp only [PSL.nextOf, f1, e1] at this; rw [this, e3]
    refine ⟨rfl, ndk2, st, f1, by rw [f2, e2, k2], f3, ?_⟩
    have r1 : ChainK p1 f i st l := hc.setNext_off h1 (fun k hk e => hid k hk (Option.some.inj e))
    exact r1.setNext_off h2 (fun k hk e => by cases e)
  | some c =>
    simp only [upto] at hu
    simp only [Golib.C02.after] at haf
    have hcl : c ∈ l := uptoNode_some hu
    obtain ⟨x0, hx0, _⟩ := hc.afterNode haf
    have hidc : f c ≠ f key := hid c hcl
    obtain ⟨p1, h1⟩ : ∃ p1, p.setNext (some (f key)) i x0 = some p1 := ⟨_, setNext_node_ok k1 k3 x0⟩
    -- node `c` after the first write
    obtain ⟨ndc, c1, c3⟩ := hc.slot_lt hcl
    obtain ⟨ndc1, d1, _, _, d4⟩ := node_setNext h1 c1
    obtain ⟨p2, h2⟩ : ∃ p2, p1.setNext (some (f c)) i (some (f key)) = some p2 :=
      ⟨_, setNext_node_ok d1 (by rw [d4]; exact c3) _⟩
    refine ⟨x0, p1, p2, hx0, h1, h2, st, ?_, ?_⟩
    · have a := nextOf_setNext_other (j := i) h1 (c' := none) (by simp)
      have b := nextOf_setNext_other (j := i) h2 (c' := none) (by simp)
      rw [b, a, hst]
    · exact link_chain_node hx0 h1 h2 rfl hidc ⟨ndk, k1, k2⟩ hc hnd hu haf hid

/-! ### one level of the unlink loop -/

/-- The write of one iteration of the unlink loop, at a node cursor. -/
theorem unlink_chain_node {p p1 : PSL K V} {f : K → Nat} {i : Nat} {c n : K} {x0 : Option Nat}
    (hx0 : p.nextOf (some (f n)) i = some x0) (h1 : p.setNext (some (f c)) i x0 = some p1) :
    ∀ {l pre post : List K} {st : Option Nat}, ChainK p f i st l → l.Nodup →
      uptoNode c l = some pre → afterNode c l = some (n :: post) →
      ChainK p1 f i st (pre ++ post) := by
  intro l
  induction l with
  | nil => intro pre post st _ _ hu; simp [uptoNode] at hu
  | cons x xs ih =>
    intro pre post st hc hnd hu haf
    obtain ⟨h0, nd, nx, g1, g2, g3, g4⟩ := chainK_cons.mp hc
    obtain ⟨hxn, hnd'⟩ := List.nodup_cons.mp hnd
    unfold uptoNode at hu
    unfold Golib.C02.afterNode at haf
    by_cases hx : x = c
    · subst hx
      rw [if_pos rfl] at hu haf
      cases hu; cases haf
      -- the chain after `c` is `n :: post`
      obtain ⟨hn0, ndn, nxn, n1, n2, n3, n4⟩ := chainK_cons.mp g4
      have e0 : x0 = nxn := by
        simp only [PSL.nextOf, n1, n3, Option.some.injEq] at hx0; exact hx0.symm
      subst e0
      obtain ⟨ndc1, c1, c2, _, _⟩ := node_setNext h1 g1
      have c3 : ndc1.next[i]? = some x0 := by
        have := nextOf_setNext_same h1
        simpa [PSL.nextOf, c1] using this
      simp only [List.cons_append, List.nil_append]
      rw [chainK_cons]
      refine ⟨h0, ndc1, x0, c1, by rw [c2, g2], c3, ?_⟩
      refine n4.setNext_off h1 (fun k hk e => ?_)
      have : k = x := hc.inj hc (by simp [hk]) (by simp) (Option.some.inj e)
      exact hxn (this ▸ (by simp [hk]))
    · rw [if_neg hx] at hu haf
      cases hu' : uptoNode c xs with
      | none => rw [hu'] at hu; cases hu
      | some pre' =>
        rw [hu'] at hu; simp only [Option.map_some, Option.some.injEq] at hu; subst hu
        have hcx : c ∈ xs := uptoNode_some hu'
        have hfx : f x ≠ f c := by
          intro e
          exact hx (hc.inj hc (by simp) (by simp [hcx]) e)
        obtain ⟨nd1, a1, a2, _, _⟩ := node_setNext h1 g1
        have a3 : nd1.next[i]? = some nx := by
          have := nextOf_setNext_other (j := i) h1 (c' := some (f x)) (fun e => hfx (Option.some.inj e))
          simp only [PSL.nextOf, a1, g1] at this; rw [this, g3]
        simp only [List.cons_append]
        rw [chainK_cons]
        exact ⟨h0, nd1, nx, a1, by rw [a2, g2], a3, ih g4 hnd' hu' haf⟩

/-- One iteration of the unlink loop of `Remove` at level `i`:
`update[i].next[i] = cur.next[i]`, where `cur` (key `n`) is the node right after `update[i]`. -/
theorem unlink_level {p : PSL K V} {f : K → Nat} {i : Nat} {n : K} {u : Option K}
    {l pre post : List K} {st : Option Nat}
    (hst : p.nextOf none i = some st) (hc : ChainK p f i st l) (hnd : l.Nodup)
    (hu : upto u l = some pre) (haf : after u l = some (n :: post)) :
    ∃ x p1, p.nextOf (some (f n)) i = some x ∧ p.setNext (u.map f) i x = some p1 ∧
      ∃ st1, p1.nextOf none i = some st1 ∧ ChainK p1 f i st1 (pre ++ post) := by
  cases u with
  | none =>
    simp only [upto, Option.some.injEq] at hu; subst hu
    simp only [Golib.C02.after, Option.some.injEq] at haf; subst haf
    obtain ⟨hd, hh, hi⟩ : ∃ hd, p.head = some hd ∧ i < hd.size := by
      simp only [PSL.nextOf] at hst
      cases hh : p.head with
      | none => rw [hh] at hst; cases hst
      | some hd =>
        rw [hh] at hst
        exact ⟨hd, rfl, (Array.getElem?_eq_some_iff.mp hst).1⟩
    obtain ⟨h0, ndn, nxn, n1, n2, n3, n4⟩ := chainK_cons.mp hc
    have hx : p.nextOf (some (f n)) i = some nxn := by simp [PSL.nextOf, n1, n3]
    obtain ⟨p1, h1⟩ : ∃ p1, p.setNext none i nxn = some p1 := ⟨_, setNext_head_ok hh hi nxn⟩
    refine ⟨nxn, p1, hx, h1, nxn, nextOf_setNext_same h1, ?_⟩
    simp only [List.nil_append]
    exact n4.setNext_off h1 (fun k hk e => by cases e)
  | some c =>
    simp only [upto] at hu
    simp only [Golib.C02.after] at haf
    have hcl : c ∈ l := uptoNode_some hu
    obtain ⟨st', hx', hc'⟩ := hc.afterNode haf
    obtain ⟨_, ndn, nxn, n1, n2, n3, n4⟩ := chainK_cons.mp hc'
    have hx : p.nextOf (some (f n)) i = some nxn := by simp [PSL.nextOf, n1, n3]
    obtain ⟨ndc, c1, c3⟩ := hc.slot_lt hcl
    obtain ⟨p1, h1⟩ : ∃ p1, p.setNext (some (f c)) i nxn = some p1 := ⟨_, setNext_node_ok c1 c3 nxn⟩
    refine ⟨nxn, p1, hx, h1, st, ?_, unlink_chain_node hx h1 hc hnd hu haf⟩
    have a := nextOf_setNext_other (j := i) h1 (c' := none) (by simp)
    rw [a, hst]

end Golib.C02
