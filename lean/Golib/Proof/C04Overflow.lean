/-
C04 helper lemmas, part 15: Go's 64-bit index arithmetic in `down` (`2*i + 1`).
-/
import Golib.Proof.C04Sim

set_option linter.unusedSimpArgs false
set_option linter.unusedVariables false

namespace Golib.C04

theorem wrap64_id {x : Int} (h1 : -9223372036854775808 ≤ x) (h2 : x < 9223372036854775808) :
    wrap64 x = x := by
  unfold wrap64; omega

theorem wrap64_neg {i : Int} (h1 : 4611686018427387904 ≤ i) (h2 : i < 9223372036854775808) :
    wrap64 (2 * i + 1) < 0 := by
  unfold wrap64; omega

/-- Below `2^62` elements (every heap that fits in memory with a non-zero-size element type) the
64-bit loop IS the ideal-integer loop all theorems are about. -/
theorem down64_eq_down {σ : Type} (o : Ops σ) : ∀ (f : Nat) (s : σ) (i n : Int),
    -4611686018427387904 ≤ i → i < 4611686018427387904 → n ≤ 4611686018427387904 →
    down64 o f s i n = down o f s i n := by
  intro f
  induction f with
  | zero => intro s i n _ _ _; rfl
  | succ f ih =>
    intro s i n h1 h2 h3
    have hw : wrap64 (2 * i + 1) = 2 * i + 1 := wrap64_id (by omega) (by omega)
    rw [down64, down]
    simp only [hw]
    by_cases hstop : 2 * i + 1 ≥ n ∨ 2 * i + 1 < 0
    · simp only [hstop, if_true]
    · simp only [hstop, if_false]
      cases hl : (if 2 * i + 1 + 1 < n then o.less s (2 * i + 1 + 1) (2 * i + 1) else some (s, false)) with
      | none => rfl
      | some p =>
        obtain ⟨s1, b⟩ := p
        simp only []
        cases hl2 : o.less s1 (if b = true then 2 * i + 1 + 1 else 2 * i + 1) i with
        | none => rfl
        | some q =>
          obtain ⟨s2, b2⟩ := q
          cases b2 with
          | false => rfl
          | true =>
            simp only []
            cases hsw : o.swap s2 i (if b = true then 2 * i + 1 + 1 else 2 * i + 1) with
            | none => rfl
            | some s3 =>
              simp only []
              have hj2 : b = true → 2 * i + 1 + 1 < n := by
                intro hb
                by_cases hc : 2 * i + 1 + 1 < n
                · exact hc
                · exfalso
                  simp only [hc, if_false, Option.some.injEq, Prod.mk.injEq] at hl
                  rw [hb] at hl; exact absurd hl.2 (by decide)
              apply ih
              · split <;> omega
              · split
                · next hb => have := hj2 hb; omega
                · omega
              · exact h3

/-- With the guard: when `2*i + 1` wraps around (`2^62 ≤ i`), the loop ends at once — nothing is
compared or swapped, whatever `n` is. -/
theorem down64_guard {σ : Type} (o : Ops σ) (f : Nat) (s : σ) (i n : Int)
    (h1 : 4611686018427387904 ≤ i) (h2 : i < 9223372036854775808) :
    down64 o (f + 1) s i n = some (s, i) := by
  have := wrap64_neg h1 h2
  rw [down64]
  simp only [this, or_true, if_true]

/-- Without the guard (finding C04-G): for `2^62 ≤ i < n` the wrapped `j1` is negative, passes
`j1 < n`, and the slice is indexed with it — a panic. -/
theorem down64NoGuard_panics (cmp : Int → Int → Bool) (f : Nat) (s : List Int) (i n : Int)
    (h1 : 4611686018427387904 ≤ i) (h2 : i < n) (h3 : n < 9223372036854775808) :
    down64NoGuard (sliceOps cmp) (f + 1) s i n = none := by
  have hneg := wrap64_neg h1 (by omega)
  rw [down64NoGuard]
  have c1 : ¬ (wrap64 (2 * i + 1) ≥ n) := by omega
  have c2 : wrap64 (2 * i + 1) + 1 < n := by omega
  simp only [c1, if_false, c2, if_true]
  have : nth s (wrap64 (2 * i + 1)) = none := by
    unfold nth; simp; omega
  simp [sliceOps, this]

end Golib.C04
