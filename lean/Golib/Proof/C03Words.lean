/-
C03 helper lemmas, part 3: the `Bitmap` word-slice operations in terms of `wordsBit`,
and two counting lemmas on duplicate-free lists.  Core-only.
-/
import Golib.Proof.C03Spec
namespace Golib.C03

theorem wordsBit_set (w : Array Word) (idx : Nat) (v' : Word) (n : Nat) (h : idx < w.size) :
    wordsBit (w.setIfInBounds idx v') n
      = if n / 64 = idx then bitSet v' (n % 64) else wordsBit w n := by
  unfold wordsBit
  rw [Array.getElem?_setIfInBounds]
  by_cases hn : n / 64 = idx
  · simp [hn, h]
  · have : ¬ idx = n / 64 := fun e => hn e.symm
    simp [hn, this]

theorem divmod64 {n m : Nat} (h : n / 64 = m / 64) : (n % 64 = m % 64) ↔ n = m := by omega

theorem bitmapContains_eq (w : Array Word) (num : Nat) : bitmapContains w num = wordsBit w num := by
  simp only [bitmapContains, wordsBit, shr6, and63]
  cases w[num / 64]? <;> rfl

theorem bitmapAddRaw_spec (w : Array Word) (num : Nat) (h : num / 64 < w.size) :
    ∃ w', bitmapAddRaw w num = some w' ∧ w'.size = w.size ∧
      ∀ n, wordsBit w' n = (decide (n = num) || wordsBit w n) := by
  simp only [bitmapAddRaw, shr6, and63]
  have hg : w[num / 64]? = some w[num / 64] := Array.getElem?_eq_getElem h
  rw [hg]
  refine ⟨_, rfl, by simp, ?_⟩
  intro n
  rw [wordsBit_set _ _ _ _ h]
  by_cases hn : n / 64 = num / 64
  · simp only [hn, if_true]
    rw [bitSet_or _ _ _ (Nat.mod_lt _ (by decide)) (Nat.mod_lt _ (by decide))]
    have : wordsBit w n = bitSet w[num / 64] (n % 64) := by
      unfold wordsBit; rw [hn, hg]
    rw [this]
    congr 1
    exact decide_eq_decide.mpr (divmod64 hn)
  · have : n ≠ num := fun e => hn (by rw [e])
    simp [hn, this]

theorem bitmapAdd_spec (w : Array Word) (num : Nat) (h : num / 64 < w.size) :
    ∃ w', bitmapAdd w num = some (w', !wordsBit w num) ∧ w'.size = w.size ∧
      ∀ n, wordsBit w' n = (decide (n = num) || wordsBit w n) := by
  obtain ⟨w', hraw, hsz, hbits⟩ := bitmapAddRaw_spec w num h
  simp only [bitmapAddRaw, shr6, and63] at hraw
  simp only [bitmapAdd, shr6, and63]
  have hg : w[num / 64]? = some w[num / 64] := Array.getElem?_eq_getElem h
  have hnot : ¬ (num / 64 ≥ w.size) := by omega
  rw [hg] at hraw
  simp only [Option.some.injEq] at hraw
  have hwb : wordsBit w num = bitSet w[num / 64] (num % 64) := by
    unfold wordsBit; rw [hg]
  simp only [hnot, if_false, hg, hraw, ← hwb]
  cases hb : wordsBit w num
  · exact ⟨w', by simp, hsz, hbits⟩
  · refine ⟨w, by simp, rfl, ?_⟩
    intro n
    by_cases hn : n = num
    · subst hn; simp [hb]
    · simp [hn]

theorem bitmapRemove_spec (w : Array Word) (num : Nat) :
    ∃ w', bitmapRemove w num = (w', wordsBit w num) ∧ w'.size = w.size ∧
      ∀ n, wordsBit w' n = (!decide (n = num) && wordsBit w n) := by
  simp only [bitmapRemove, shr6, and63]
  cases hg : w[num / 64]? with
  | none =>
    have hwb : wordsBit w num = false := by unfold wordsBit; rw [hg]
    refine ⟨w, by simp [hwb], rfl, ?_⟩
    intro n
    by_cases hn : n = num
    · subst hn; simp [hwb]
    · simp [hn]
  | some v =>
    have h : num / 64 < w.size := (Array.getElem?_eq_some_iff.mp hg).1
    have hwb : wordsBit w num = bitSet v (num % 64) := by unfold wordsBit; rw [hg]
    simp only [← hwb]
    cases hb : wordsBit w num
    · refine ⟨w, by simp, rfl, ?_⟩
      intro n
      by_cases hn : n = num
      · subst hn; simp [hb]
      · simp [hn]
    · refine ⟨w.setIfInBounds (num / 64) (v &&& ~~~(1#64 <<< (num % 64))), by simp, by simp, ?_⟩
      intro n
      rw [wordsBit_set _ _ _ _ h]
      by_cases hn : n / 64 = num / 64
      · simp only [hn, if_true]
        rw [bitSet_andNot _ _ _ (Nat.mod_lt _ (by decide)) (Nat.mod_lt _ (by decide))]
        have : wordsBit w n = bitSet v (n % 64) := by
          unfold wordsBit; rw [hn, hg]
        rw [this]
        congr 2
        exact decide_eq_decide.mpr (divmod64 hn)
      · have : n ≠ num := fun e => hn (by rw [e])
        simp [hn, this]

/-! ### counting through permutations -/

theorem nodup_of_lt {l : List Nat} (h : l.Pairwise (· < ·)) : l.Nodup :=
  h.imp (fun hab => Nat.ne_of_lt hab)

theorem length_insert {l l' : List Nat} {x : Nat} (hl : l.Nodup) (hl' : l'.Nodup) (hx : x ∉ l)
    (hm : ∀ y, y ∈ l' ↔ (y = x ∨ y ∈ l)) : l'.length = l.length + 1 := by
  have hn : (x :: l).Nodup := List.nodup_cons.mpr ⟨hx, hl⟩
  have hp : l'.Perm (x :: l) := (List.perm_ext_iff_of_nodup hl' hn).mpr (by
    intro a; rw [hm a, List.mem_cons])
  simpa using hp.length_eq

theorem length_erase {l l' : List Nat} {x : Nat} (hl : l.Nodup) (hl' : l'.Nodup) (hx : x ∈ l)
    (hm : ∀ y, y ∈ l' ↔ (y ≠ x ∧ y ∈ l)) : l'.length + 1 = l.length := by
  have hx' : x ∉ l' := fun h => ((hm x).mp h).1 rfl
  have := length_insert (l := l') (l' := l) (x := x) hl' hl hx' (by
    intro y; rw [hm y]
    by_cases hy : y = x
    · subst hy; simp [hx]
    · simp [hy])
  omega

theorem length_same {l l' : List Nat} (hl : l.Nodup) (hl' : l'.Nodup)
    (hm : ∀ y, y ∈ l' ↔ y ∈ l) : l'.length = l.length :=
  ((List.perm_ext_iff_of_nodup hl' hl).mpr hm).length_eq

end Golib.C03
