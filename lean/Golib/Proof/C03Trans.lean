/-
C03 — tie between the definitions `go2lean` regenerates from `setz/roaring_bitmap.go` on every
run (`Golib/Gen/TransC03.lean`: `search`, `arrayContainer.Contains`) and the hand-written model
(`Golib/Model/C03Roaring.lean`: `search`, `arrContains`).

Representation: the code has `[]uint16` (generated: `List (BitVec 16)`), the model an
`Array Nat`; the abstraction function is `absVals` (element-wise `toNat`), `x ↦ x.toNat`, and an
index `p : Nat` of the model is the Go `int` `(p : Int)`.

Well-formedness: `values.length < 2^63` (the length of a Go slice is an `int`).  It is what makes
`int(uint(low+high) >> 1)` the midpoint: `low + high < 2^64` does not wrap in `uint`, and the
shifted value is below `2^63`, so `int(·)` is the identity.

The scripts use only the loop invariant `0 ≤ low ≤ high ≤ len`, `simp` with explicit lemma lists
and `omega`, so that harmless rewrites of the Go function keep them passing.
-/
import Golib.Gen.TransC03
import Golib.Model.C03Roaring
import Golib.Proof.C03Array

set_option linter.unusedSimpArgs false

namespace Golib.C03
open Golib.GoSem

/-- The abstraction function: a `[]uint16` of the code as the `Array Nat` of the model. -/
def absVals (vals : List (BitVec 16)) : Array Nat := (vals.map BitVec.toNat).toArray

@[simp] theorem absVals_size (vals : List (BitVec 16)) : (absVals vals).size = vals.length := by
  simp [absVals]

theorem absVals_getElem? (vals : List (BitVec 16)) (i : Nat) :
    (absVals vals)[i]? = (vals[i]?).map BitVec.toNat := by
  simp [absVals]

theorem absVals_getElem?_lt (vals : List (BitVec 16)) (i : Nat) (h : i < vals.length) :
    (absVals vals)[i]? = some (vals[i].toNat) := by
  simp [absVals, h]

theorem mem_absVals (vals : List (BitVec 16)) (y : BitVec 16) :
    y.toNat ∈ (absVals vals).toList ↔ y ∈ vals := by
  simp only [absVals, List.mem_map]
  constructor
  · rintro ⟨z, hz, hzy⟩; exact (BitVec.eq_of_toNat_eq hzy) ▸ hz
  · intro h; exact ⟨y, h, rfl⟩

/-- A result of the model (`none` = Go panic) as a result of the generated code. -/
def optRes {α β : Type} (f : α → β) : Option α → Res β
  | some a => .ok (f a)
  | none => .panic

@[simp] theorem optRes_some {α β : Type} (f : α → β) (a : α) : optRes f (some a) = .ok (f a) := rfl
@[simp] theorem optRes_none {α β : Type} (f : α → β) : optRes f (none : Option α) = .panic := rfl

/-! ### GoSem lemmas used below (kept here: `GoSem.lean` is shared) -/

/-- `s[i]` for an index that is a natural number in range. -/
theorem idx_natCast_lt {α : Type} (s : List α) (i : Nat) (h : i < s.length) :
    idx s (i : Int) = .ok s[i] := idx_ofNat s i h

/-- `int(uint(n) >> 1)` is `n / 2` for `0 ≤ n < 2^64`. -/
theorem toInt_ofInt_shr1 (n : Nat) (h : n < 2 ^ 64) :
    ((BitVec.ofInt 64 (n : Int)) >>> (1 : Nat)).toInt = ((n / 2 : Nat) : Int) := by
  have h1 : BitVec.ofInt 64 (n : Int) = BitVec.ofNat 64 n := by
    apply BitVec.eq_of_toNat_eq; simp
  rw [h1, BitVec.toInt_eq_toNat_of_lt]
  · simp only [BitVec.toNat_ushiftRight, BitVec.toNat_ofNat, Nat.shiftRight_eq_div_pow, Nat.pow_one]
    rw [Nat.mod_eq_of_lt (by omega)]
  · simp only [BitVec.toNat_ushiftRight, BitVec.toNat_ofNat, Nat.shiftRight_eq_div_pow, Nat.pow_one]
    rw [Nat.mod_eq_of_lt (by omega)]
    omega

/-! The ways to write the midpoint of `l ≤ h` (naturals, as `int`s): `int(uint(low+high) >> 1)`
(the code), `(low+high)/2`, `low + (high-low)/2`, `(low+high) >> 1`. -/

theorem mid_uint_shr (l h : Nat) (hb : l + h < 2 ^ 64) :
    ((BitVec.ofInt 64 ((l : Int) + (h : Int))) >>> (1 : Nat)).toInt = (((l + h) / 2 : Nat) : Int) := by
  rw [← Int.natCast_add]; exact toInt_ofInt_shr1 (l + h) hb

theorem mid_uint_shr' (l h : Nat) (hb : l + h < 2 ^ 64) :
    ((BitVec.ofInt 64 ((h : Int) + (l : Int))) >>> (1 : Nat)).toInt = (((l + h) / 2 : Nat) : Int) := by
  rw [Int.add_comm]; exact mid_uint_shr l h hb

theorem mid_tdiv (l h : Nat) : Int.tdiv ((l : Int) + (h : Int)) 2 = (((l + h) / 2 : Nat) : Int) := by
  rw [Int.tdiv_eq_ediv_of_nonneg (by omega)]; omega

theorem mid_tdiv' (l h : Nat) : Int.tdiv ((h : Int) + (l : Int)) 2 = (((l + h) / 2 : Nat) : Int) := by
  rw [Int.add_comm]; exact mid_tdiv l h

theorem mid_sub_tdiv (l h : Nat) (hlh : l ≤ h) :
    (l : Int) + Int.tdiv ((h : Int) - (l : Int)) 2 = (((l + h) / 2 : Nat) : Int) := by
  rw [Int.tdiv_eq_ediv_of_nonneg (by omega)]; omega

theorem mid_sub_tdiv' (l h : Nat) (hlh : l ≤ h) :
    Int.tdiv ((h : Int) - (l : Int)) 2 + (l : Int) = (((l + h) / 2 : Nat) : Int) := by
  rw [Int.add_comm]; exact mid_sub_tdiv l h hlh

theorem mid_sub_tdiv'' (l h : Nat) (hlh : l ≤ h) :
    (h : Int) - Int.tdiv ((h : Int) - (l : Int) + 1) 2 = (((l + h) / 2 : Nat) : Int) := by
  rw [Int.tdiv_eq_ediv_of_nonneg (by omega)]; omega

theorem mid_intShr (l h : Nat) : intShr ((l : Int) + (h : Int)) 1 = (((l + h) / 2 : Nat) : Int) := by
  unfold intShr; rw [Int.shiftRight_eq_div_pow]; omega

theorem mid_intShr' (l h : Nat) : intShr ((h : Int) + (l : Int)) 1 = (((l + h) / 2 : Nat) : Int) := by
  rw [Int.add_comm]; exact mid_intShr l h

theorem bv16_lt_iff (a b : BitVec 16) : (a < b) ↔ a.toNat < b.toNat := BitVec.lt_def

/-! ### the model alone: `search` never panics (sorted or not) -/

theorem searchLoop_total (a : Array Nat) (x : Nat) :
    ∀ fuel low high, low ≤ high → high ≤ a.size → high - low < fuel →
      ∃ p, searchLoop a x fuel low high = some p ∧ low ≤ p ∧ p ≤ high := by
  intro fuel
  induction fuel with
  | zero => intro low high _ _ h; omega
  | succ fuel ih =>
    intro low high hlh hhs hf
    unfold searchLoop
    by_cases hlt : low < high
    · simp only [hlt, if_true]
      have hmid : (low + high) >>> 1 = (low + high) / 2 := by simp [Nat.shiftRight_eq_div_pow]
      rw [hmid]
      have hmsz : (low + high) / 2 < a.size := by omega
      rw [Array.getElem?_eq_getElem hmsz]
      simp only []
      by_cases hv : a[(low + high) / 2] < x
      · simp only [hv, if_true]
        obtain ⟨p, hp, h1, h2⟩ := ih ((low + high) / 2 + 1) high (by omega) hhs (by omega)
        exact ⟨p, hp, by omega, h2⟩
      · simp only [hv, if_false]
        obtain ⟨p, hp, h1, h2⟩ := ih low ((low + high) / 2) (by omega) (by omega) (by omega)
        exact ⟨p, hp, h1, by omega⟩
    · simp only [hlt, if_false]
      exact ⟨low, rfl, Nat.le_refl _, hlh⟩

theorem search_total (a : Array Nat) (x : Nat) : ∃ p, search a x = some p ∧ p ≤ a.size := by
  obtain ⟨p, hp, _, h2⟩ := searchLoop_total a x (a.size + 1) 0 a.size (Nat.zero_le _) (Nat.le_refl _) (by omega)
  exact ⟨p, hp, h2⟩

/-! ### the regenerated loop -/

/-- Outcome of the model's loop as an outcome of the generated loop (whose state is the pair
`(low, high)`, equal at the exit): the model's `none` can only be "out of fuel" here. -/
def loopRes : Option Nat → Res (Int × Int)
  | some p => .ok ((p : Int), (p : Int))
  | none => .fuel

/-- Loop invariant `low ≤ high ≤ len`: the generated loop and the model's loop agree for every
amount of fuel (both run out of it at the same time; neither indexes out of range). -/
theorem trans_search_loop (vals : List (BitVec 16)) (x : BitVec 16) (hlen : vals.length < 2 ^ 63) :
    ∀ fuel (l h : Nat), l ≤ h → h ≤ vals.length →
      Golib.Gen.Trans.C03.search_loop1 fuel vals x (l : Int) (h : Int)
        = loopRes (searchLoop (absVals vals) x.toNat fuel l h) := by
  intro fuel
  induction fuel with
  | zero => intro l h _ _; unfold Golib.Gen.Trans.C03.search_loop1 searchLoop; rfl
  | succ fuel ih =>
    intro l h hlh hh
    unfold Golib.Gen.Trans.C03.search_loop1 searchLoop
    by_cases hlt : l < h
    · -- one iteration: the midpoint is in range on both sides
      have hmid : (l + h) >>> 1 = (l + h) / 2 := by simp [Nat.shiftRight_eq_div_pow]
      have hm : (l + h) / 2 < vals.length := by omega
      have hb : l + h < 2 ^ 64 := by omega
      have hcond : ((l : Int) < (h : Int)) := by omega
      have hcond' : ((h : Int) > (l : Int)) := by omega
      have hncond : ¬ ((h : Int) ≤ (l : Int)) := by omega
      have hncond' : ¬ ((l : Int) ≥ (h : Int)) := by omega
      have hne : ((l : Int) ≠ (h : Int)) := by omega
      have hne' : ((h : Int) ≠ (l : Int)) := by omega
      have ihlo := ih ((l + h) / 2 + 1) h (by omega) hh
      have ihhi := ih l ((l + h) / 2) (by omega) (by omega)
      rw [Int.natCast_add, Int.natCast_one] at ihlo
      have ihlo' : Golib.Gen.Trans.C03.search_loop1 fuel vals x (1 + (((l + h) / 2 : Nat) : Int)) h = _ :=
        (Int.add_comm _ _) ▸ ihlo
      simp only [hlt, hmid, if_true, absVals_getElem?_lt vals _ hm]
      -- the truth value of every comparison the code may make, either way round
      have hvd := Nat.lt_or_ge vals[(l + h) / 2].toNat x.toNat
      have hlt_iff : (vals[(l + h) / 2] < x) = (vals[(l + h) / 2].toNat < x.toNat) := propext BitVec.lt_def
      have hgt_iff : (x > vals[(l + h) / 2]) = (vals[(l + h) / 2].toNat < x.toNat) := propext BitVec.lt_def
      have hle_iff : (x ≤ vals[(l + h) / 2]) = ¬ (vals[(l + h) / 2].toNat < x.toNat) := by
        apply propext; rw [BitVec.le_def]; omega
      have hge_iff : (vals[(l + h) / 2] ≥ x) = ¬ (vals[(l + h) / 2].toNat < x.toNat) := hle_iff
      simp only [hcond, hcond', hncond, hncond', hne, hne', ne_eq, not_true_eq_false, not_false_eq_true,
        decide_true, decide_false, Bool.not_true, Bool.not_false, Bool.false_eq_true, if_true, if_false,
        ↓reduceIte,
        mid_uint_shr l h hb, mid_uint_shr' l h hb, mid_tdiv, mid_tdiv', mid_sub_tdiv l h hlh,
        mid_sub_tdiv' l h hlh, mid_sub_tdiv'' l h hlh, mid_intShr, mid_intShr', shiftCount_ofNat,
        idx_natCast_lt vals _ hm, bind, pure, Res.bind_ok', Res.pure_eq,
        hlt_iff, hgt_iff, hle_iff, hge_iff]
      rcases hvd with hv | hv
      · have hv' : ¬ (x.toNat ≤ vals[(l + h) / 2].toNat) := by omega
        simp only [hv, hv', not_true_eq_false, not_false_eq_true, decide_true, decide_false,
          Bool.not_true, Bool.not_false, Bool.false_eq_true, if_true, if_false, ↓reduceIte,
          Res.bind_ok', Res.pure_eq, bind, pure, ihlo, ihlo']
      · have hv' : ¬ (vals[(l + h) / 2].toNat < x.toNat) := by omega
        simp only [hv, hv', not_true_eq_false, not_false_eq_true, decide_true, decide_false,
          Bool.not_true, Bool.not_false, Bool.false_eq_true, if_true, if_false, ↓reduceIte,
          Res.bind_ok', Res.pure_eq, bind, pure, ihhi]
    · -- exit: `low = high`
      have heq : l = h := by omega
      subst heq
      simp [loopRes, bind, pure]

/-- The regenerated `search` IS the model's `search` (through `absVals`), for every slice —
sorted or not — whose length is an `int`: it neither panics nor runs out of fuel. -/
theorem trans_search_eq (vals : List (BitVec 16)) (x : BitVec 16) (hlen : vals.length < 2 ^ 63) :
    Golib.Gen.Trans.C03.search vals x
      = optRes (fun p : Nat => (p : Int)) (search (absVals vals) x.toNat) := by
  obtain ⟨p, hp, _⟩ := search_total (absVals vals) x.toNat
  have hl := trans_search_loop vals x hlen (vals.length + 1) 0 vals.length (Nat.zero_le _) (Nat.le_refl _)
  unfold search at hp
  rw [absVals_size] at hp
  rw [hp] at hl
  unfold Golib.Gen.Trans.C03.search
  unfold search
  rw [absVals_size, hp]
  simp only [Int.ofNat_eq_natCast, Int.natCast_zero] at hl ⊢
  simp [hl, loopRes, bind, pure]

/-- The regenerated `(*arrayContainer).Contains` IS `arrContains`. -/
theorem trans_contains_eq (vals : List (BitVec 16)) (x : BitVec 16) (hlen : vals.length < 2 ^ 63) :
    Golib.Gen.Trans.C03.arrayContainer_Contains { values := vals } x
      = optRes id (arrContains (absVals vals) x.toNat) := by
  obtain ⟨p, hp, hple⟩ := search_total (absVals vals) x.toNat
  have hs := trans_search_eq vals x hlen
  rw [hp] at hs
  unfold Golib.Gen.Trans.C03.arrayContainer_Contains arrContains
  rw [absVals_size] at hple
  simp only [hs, hp, optRes_some, bind, pure, Res.bind_ok', absVals_size, id]
  by_cases hlt : p < vals.length
  · have hc1 : ((p : Int) < (vals.length : Int)) := by omega
    have hc2 : ((vals.length : Int) > (p : Int)) := by omega
    have hc3 : ¬ ((p : Int) ≥ (vals.length : Int)) := by omega
    have hc4 : ¬ ((vals.length : Int) ≤ (p : Int)) := by omega
    have hc5 : ((p : Int) ≠ (vals.length : Int)) := by omega
    have hc6 : ((vals.length : Int) ≠ (p : Int)) := by omega
    have hbeq : (vals[p] == x) = (vals[p].toNat == x.toNat) := by
      rw [Bool.eq_iff_iff, beq_iff_eq, beq_iff_eq]
      exact ⟨fun h => h ▸ rfl, fun h => BitVec.eq_of_toNat_eq h⟩
    have hbeq' : (x == vals[p]) = (vals[p].toNat == x.toNat) := by rw [← hbeq, Bool.beq_comm]
    have hbne : (vals[p] != x) = !(vals[p].toNat == x.toNat) := by rw [bne, hbeq]
    have hbne' : (x != vals[p]) = !(vals[p].toNat == x.toNat) := by rw [bne, hbeq']
    simp only [Int.ofNat_eq_natCast, hc1, hc2, hc3, hc4, hc5, hc6, hlt, ne_eq, bne_iff_ne, beq_iff_eq, not_true_eq_false,
      not_false_eq_true, decide_true, decide_false, Bool.not_true, Bool.not_false, Bool.false_eq_true,
      Bool.true_and, Bool.and_true, Bool.false_or, Bool.or_false, Bool.not_not, if_true, if_false,
      ↓reduceIte, idx_natCast_lt vals p hlt, absVals_getElem?_lt vals p hlt, hbeq, hbeq', hbne, hbne',
      bind, pure, Res.bind_ok', Res.pure_eq]
    try simp
  · have hc1 : ¬ ((p : Int) < (vals.length : Int)) := by omega
    have hc2 : ¬ ((vals.length : Int) > (p : Int)) := by omega
    have hc3 : ((p : Int) ≥ (vals.length : Int)) := by omega
    have hc4 : ((vals.length : Int) ≤ (p : Int)) := by omega
    have hc5 : ((p : Int) = (vals.length : Int)) = True := eq_true (by omega)
    have hc6 : ((vals.length : Int) = (p : Int)) = True := eq_true (by omega)
    simp only [Int.ofNat_eq_natCast, hc1, hc2, hc3, hc4, hc5, hc6, hlt, ne_eq, bne_iff_ne, beq_iff_eq, not_true_eq_false,
      not_false_eq_true, decide_true, decide_false, Bool.not_true, Bool.not_false, Bool.false_eq_true,
      Bool.false_and, Bool.and_false, Bool.true_or, Bool.or_true, if_true, if_false, ↓reduceIte,
      bind, pure, Res.bind_ok', Res.pure_eq]
    try simp

/-! ### `(*arrayContainer).Remove` -/

theorem absVals_take_drop (vals : List (BitVec 16)) (p : Nat) :
    absVals (vals.take p ++ vals.drop (p + 1))
      = (absVals vals).extract 0 p ++ (absVals vals).extract (p + 1) (absVals vals).size := by
  apply Array.ext'
  simp [absVals, List.map_take, List.map_drop]
  rw [List.take_of_length_le]
  simp

/-- The regenerated `(*arrayContainer).Remove` IS `arrRemove`: same answer, and the receiver
after the call is (through `absVals`) the array of the model. -/
theorem trans_remove_eq (vals : List (BitVec 16)) (x : BitVec 16) (hlen : vals.length < 2 ^ 63) :
    ∃ (ok : Bool) (vals' : List (BitVec 16)),
      Golib.Gen.Trans.C03.arrayContainer_Remove { values := vals } x = .ok (ok, { values := vals' }) ∧
      arrRemove (absVals vals) x.toNat = some (absVals vals', ok) := by
  obtain ⟨p, hp, hple⟩ := search_total (absVals vals) x.toNat
  have hs := trans_search_eq vals x hlen
  rw [hp] at hs
  unfold Golib.Gen.Trans.C03.arrayContainer_Remove arrRemove
  rw [absVals_size] at hple
  simp only [hs, hp, optRes_some, bind, pure, Res.bind_ok', absVals_size]
  by_cases hlt : p < vals.length
  · have hc1 : ((p : Int) < (vals.length : Int)) := by omega
    have hc2 : ((vals.length : Int) > (p : Int)) := by omega
    have hc3 : ¬ ((p : Int) ≥ (vals.length : Int)) := by omega
    have hc4 : ¬ ((vals.length : Int) ≤ (p : Int)) := by omega
    have hc5 : ((p : Int) ≠ (vals.length : Int)) := by omega
    have hc6 : ((vals.length : Int) ≠ (p : Int)) := by omega
    have hbeq : (vals[p] == x) = (vals[p].toNat == x.toNat) := by
      rw [Bool.eq_iff_iff, beq_iff_eq, beq_iff_eq]
      exact ⟨fun h => h ▸ rfl, fun h => BitVec.eq_of_toNat_eq h⟩
    have hbeq' : (x == vals[p]) = (vals[p].toNat == x.toNat) := by rw [← hbeq, Bool.beq_comm]
    have hbne : (vals[p] != x) = !(vals[p].toNat == x.toNat) := by rw [bne, hbeq]
    have hbne' : (x != vals[p]) = !(vals[p].toNat == x.toNat) := by rw [bne, hbeq']
    have hsome : ((absVals vals)[p]? == some x.toNat) = (vals[p].toNat == x.toNat) := by
      rw [absVals_getElem?_lt vals p hlt]; simp
    -- the two slice expressions are in bounds
    have hsl1 : GoSem.slice vals 0 (p : Int) = .ok (vals.take p) := by
      unfold GoSem.slice
      rw [if_neg (by omega)]; simp
    have hsl2 : GoSem.slice vals ((p : Int) + 1) (vals.length : Int) = .ok (vals.drop (p + 1)) := by
      unfold GoSem.slice
      rw [if_neg (by omega)]
      have : ((p : Int) + 1).toNat = p + 1 := by omega
      simp [this]
    have hsl2' : GoSem.slice vals (1 + (p : Int)) (vals.length : Int) = .ok (vals.drop (p + 1)) := by
      rw [Int.add_comm]; exact hsl2
    simp only [Int.ofNat_eq_natCast, hc1, hc2, hc3, hc4, hc5, hc6, hlt, ne_eq, bne_iff_ne, beq_iff_eq,
      not_true_eq_false, not_false_eq_true, decide_true, decide_false, Bool.not_true, Bool.not_false,
      Bool.false_eq_true, Bool.true_and, Bool.and_true, Bool.false_or, Bool.or_false, Bool.not_not,
      if_true, if_false, ↓reduceIte, idx_natCast_lt vals p hlt, hsome, hbeq, hbeq', hbne, hbne',
      bind, pure, Res.bind_ok', Res.pure_eq]
    by_cases he : vals[p].toNat = x.toNat
    · refine ⟨true, vals.take p ++ vals.drop (p + 1), ?_, ?_⟩
      · simp [he, hsl1, hsl2, hsl2', bind, pure]
      · simp only [he, beq_self_eq_true, if_true, ↓reduceIte, absVals_take_drop, absVals_size]
    · refine ⟨false, vals, ?_, ?_⟩
      · simp [he, bind, pure]
      · simp [he]
  · have hc1 : ¬ ((p : Int) < (vals.length : Int)) := by omega
    have hc2 : ¬ ((vals.length : Int) > (p : Int)) := by omega
    have hc3 : ((p : Int) ≥ (vals.length : Int)) := by omega
    have hc4 : ((vals.length : Int) ≤ (p : Int)) := by omega
    have hc5 : ((p : Int) = (vals.length : Int)) = True := eq_true (by omega)
    have hc6 : ((vals.length : Int) = (p : Int)) = True := eq_true (by omega)
    refine ⟨false, vals, ?_, ?_⟩
    · simp only [Int.ofNat_eq_natCast, hc1, hc2, hc3, hc4, hc5, hc6, hlt, ne_eq, bne_iff_ne, beq_iff_eq,
        not_true_eq_false, not_false_eq_true, decide_true, decide_false, Bool.not_true, Bool.not_false,
        Bool.false_eq_true, Bool.false_and, Bool.and_false, Bool.true_or, Bool.or_true, if_true, if_false,
        ↓reduceIte, bind, pure, Res.bind_ok', Res.pure_eq]
      try simp
    · simp [hlt]

theorem absVals_inj : ∀ (a b : List (BitVec 16)), absVals a = absVals b → a = b := by
  intro a b h
  have h' : a.map BitVec.toNat = b.map BitVec.toNat := by
    have := congrArg Array.toList h
    simpa [absVals] using this
  clear h
  induction a generalizing b with
  | nil => cases b with
    | nil => rfl
    | cons y ys => simp at h'
  | cons x xs ih => cases b with
    | nil => simp at h'
    | cons y ys =>
      simp only [List.map_cons, List.cons.injEq] at h'
      rw [BitVec.eq_of_toNat_eq h'.1, ih ys h'.2]

/-- The property clause on the generated `Remove` (strictly ascending receiver): the answer is
membership, the receiver afterwards is strictly ascending and holds exactly the other members. -/
theorem trans_remove_set (vals : List (BitVec 16)) (x : BitVec 16)
    (hlen : vals.length < 2 ^ 63) (hs : Sorted (absVals vals)) :
    ∃ vals' : List (BitVec 16),
      Golib.Gen.Trans.C03.arrayContainer_Remove { values := vals } x
        = .ok (decide (x ∈ vals), { values := vals' }) ∧
      Sorted (absVals vals') ∧ ∀ y, y ∈ vals' ↔ (y ≠ x ∧ y ∈ vals) := by
  obtain ⟨ok, vals', hgen, hmod⟩ := trans_remove_eq vals x hlen
  by_cases hx : x ∈ vals
  · obtain ⟨v', hv', hsv', _, hmem'⟩ :=
      arrRemove_hit (absVals vals) x.toNat hs ((mem_absVals vals x).2 hx)
    rw [hv'] at hmod
    injection hmod with hmod
    injection hmod with h1 h2
    subst h2
    refine ⟨vals', by simpa [hx] using hgen, h1 ▸ hsv', ?_⟩
    intro y
    have := hmem' y.toNat
    rw [h1, mem_absVals, mem_absVals] at this
    rw [this]
    constructor
    · rintro ⟨hne, hy⟩; exact ⟨fun c => hne (c ▸ rfl), hy⟩
    · rintro ⟨hne, hy⟩; exact ⟨fun c => hne (BitVec.eq_of_toNat_eq c), hy⟩
  · have hmiss := arrRemove_miss (absVals vals) x.toNat hs (fun c => hx ((mem_absVals vals x).1 c))
    rw [hmiss] at hmod
    injection hmod with hmod
    injection hmod with h1 h2
    subst h2
    have hvv : vals' = vals := absVals_inj _ _ h1.symm
    subst hvv
    refine ⟨vals', by simpa [hx] using hgen, hs, ?_⟩
    intro y
    constructor
    · intro hy; exact ⟨fun c => hx (c ▸ hy), hy⟩
    · exact fun h => h.2

end Golib.C03
