/-
Specification of `underscoreOK` (`strz/std_strconv.go`): "underscore must appear only
between digits or between a base prefix and a digit", as a statement about positions.
Core only.
-/
import Golib.Model.C15Parse

namespace Golib.C15

/-- What `underscoreOK` counts as a digit: `0-9`, plus `a-f`/`A-F` after a hex prefix. -/
def isUsDigit (hex : Bool) (c : Nat) : Bool :=
  (48 ≤ c && c ≤ 57) || (hex && 97 ≤ lower c && lower c ≤ 102)

/-- Every underscore is immediately preceded by a digit — at position 0: by something that
counts as one (`prev`, the base prefix) — and immediately followed by a digit. -/
def UnderscoresSeparateDigits (hex prev : Bool) (body : List Nat) : Prop :=
  ∀ i, body[i]? = some 95 →
    (if i = 0 then prev = true else ∃ c, body[i - 1]? = some c ∧ isUsDigit hex c = true) ∧
    (∃ d, body[i + 1]? = some d ∧ isUsDigit hex d = true)

theorem isUsDigit_95 (hex : Bool) : isUsDigit hex 95 = false := by
  cases hex <;> decide

theorem usSpec_cons (hex prev : Bool) (c : Nat) (rest : List Nat) :
    UnderscoresSeparateDigits hex prev (c :: rest) ↔
      (c = 95 → prev = true ∧ ∃ d, rest[0]? = some d ∧ isUsDigit hex d = true) ∧
      UnderscoresSeparateDigits hex (isUsDigit hex c) rest := by
  constructor
  · intro h
    constructor
    · intro hc
      have := h 0 (by simp [hc])
      simpa using this
    · intro j hj
      have := h (j + 1) (by simpa using hj)
      obtain ⟨h1, h2⟩ := this
      refine ⟨?_, by simpa using h2⟩
      by_cases hj0 : j = 0
      · subst hj0
        simpa using h1
      · simp only [hj0, if_false]
        simp only [Nat.add_one_ne_zero, if_false, Nat.add_sub_cancel] at h1
        obtain ⟨c', hc', hd⟩ := h1
        obtain ⟨k, rfl⟩ : ∃ k, j = k + 1 := ⟨j - 1, by omega⟩
        exact ⟨c', by simpa using hc', hd⟩
  · intro ⟨h0, hr⟩ i hi
    cases i with
    | zero =>
      have hc : c = 95 := by simpa using hi
      simpa using h0 hc
    | succ j =>
      have := hr j (by simpa using hi)
      obtain ⟨h1, h2⟩ := this
      refine ⟨?_, by simpa using h2⟩
      simp only [Nat.add_one_ne_zero, if_false, Nat.add_sub_cancel]
      by_cases hj0 : j = 0
      · subst hj0
        simp only [if_true] at h1
        exact ⟨c, by simp, h1⟩
      · simp only [hj0, if_false] at h1
        obtain ⟨c', hc', hd⟩ := h1
        obtain ⟨k, rfl⟩ : ∃ k, j = k + 1 := ⟨j - 1, by omega⟩
        exact ⟨c', by simpa using hc', hd⟩

/-- The scanning loop accepts exactly the position-wise specification; `saw = '_'` on entry
additionally demands a digit first. -/
theorem usLoop_spec (hex : Bool) : ∀ (body : List Nat) (saw : Saw),
    usLoop hex body saw = true ↔
      (saw = .under → ∃ d, body[0]? = some d ∧ isUsDigit hex d = true) ∧
      UnderscoresSeparateDigits hex (saw == .digit) body := by
  intro body
  induction body with
  | nil =>
    intro saw
    simp only [usLoop, UnderscoresSeparateDigits]
    cases saw <;> simp
  | cons c rest ih =>
    intro saw
    have e1 : (Saw.under == Saw.digit) = false := rfl
    have e2 : (Saw.other == Saw.digit) = false := rfl
    have e4 : (Saw.start == Saw.digit) = false := rfl
    rw [usSpec_cons]
    by_cases hd : isUsDigit hex c = true
    · have hc : c ≠ 95 := by
        intro e; subst e; rw [isUsDigit_95] at hd; cases hd
      have hd' : (48 ≤ c ∧ c ≤ 57) ∨ (hex = true ∧ 97 ≤ lower c ∧ lower c ≤ 102) := by
        simpa [isUsDigit, and_assoc] using hd
      simp only [usLoop, hd', if_true, ih, hd]
      simp [hc, hd]
    · have hd0 : isUsDigit hex c = false := by simpa using hd
      have hd' : ¬ ((48 ≤ c ∧ c ≤ 57) ∨ (hex = true ∧ 97 ≤ lower c ∧ lower c ≤ 102)) := by
        intro h; apply hd; simpa [isUsDigit, and_assoc] using h
      by_cases hc : c = 95
      · subst hc
        simp only [usLoop, hd', if_false, if_true]
        cases saw <;> simp [ih, hd0, e1, e2, e4]
      · simp only [usLoop, hd', if_false, hc]
        cases saw <;> simp [ih, hd0, e1, e2, e4]

/-- The sign / prefix handling of `underscoreOK`: `(hex, hasPrefix, body)`. -/
def usParts (s : List Nat) : Bool × Bool × List Nat :=
  let s := match s with
    | c :: rest => if c = 45 ∨ c = 43 then rest else s
    | [] => s
  match s with
  | 48 :: c1 :: rest => if isPrefixLetter c1 then (lower c1 = 120, true, rest) else (false, false, s)
  | _ => (false, false, s)

theorem underscoreOK_spec (s : List Nat) :
    underscoreOK s = true ↔
      UnderscoresSeparateDigits (usParts s).1 (usParts s).2.1 (usParts s).2.2 := by
  have key : ∀ t : List Nat,
      (match t with
        | 48 :: c1 :: rest =>
          if isPrefixLetter c1 then usLoop (lower c1 = 120) rest .digit else usLoop false t .start
        | _ => usLoop false t .start) = true ↔
      UnderscoresSeparateDigits
        (match t with
          | 48 :: c1 :: rest => if isPrefixLetter c1 then (decide (lower c1 = 120), true, rest) else (false, false, t)
          | _ => (false, false, t)).1
        (match t with
          | 48 :: c1 :: rest => if isPrefixLetter c1 then (decide (lower c1 = 120), true, rest) else (false, false, t)
          | _ => (false, false, t)).2.1
        (match t with
          | 48 :: c1 :: rest => if isPrefixLetter c1 then (decide (lower c1 = 120), true, rest) else (false, false, t)
          | _ => (false, false, t)).2.2 := by
    intro t
    have e4 : (Saw.start == Saw.digit) = false := rfl
    split
    · split <;> simp [usLoop_spec, e4]
    · simp [usLoop_spec, e4]
  unfold underscoreOK usParts
  exact key _

end Golib.C15
