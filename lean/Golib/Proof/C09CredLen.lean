/-
C09: `fillCred` for a destination `cred` of ANY length (the code calls it with 48 only; the
function itself takes a slice): when it panics, and what it leaves otherwise.
-/
import Golib.Proof.C09Cred

namespace Golib.C09
open Golib.C08

/-- one round with a destination of any length: it panics exactly when `i*16 > len(cred)`
(`cred[i*16:]`), otherwise it stores as much of the digest as fits at `cred[16i:]` -/
theorem fillCredRound_specG (md5 : Bytes → Bytes) (hmd : Md5Len md5) (secret salt : Bytes) (i : Nat)
    (st : CredSt) (hi : i ≤ 2)
    (hback : st.backing.length = 16 + secret.length + salt.length)
    (hprev : st.prevSum.length = 16) :
    (st.cred.length < i * 16 → fillCredRound md5 secret salt i st = none) ∧
    (i * 16 ≤ st.cred.length →
      ∃ st', fillCredRound md5 secret salt i st = some st' ∧
        st'.backing.length = 16 + secret.length + salt.length ∧
        st'.prevSum.length = 16 ∧ st'.cred.length = st.cred.length ∧
        st'.prevSum = md5 (roundInput i st.prevSum secret salt) ∧
        st'.cred = st.cred.take (i * 16) ++
          copyInto (st.cred.drop (i * 16)) (md5 (roundInput i st.prevSum secret salt))) := by
  unfold fillCredRound
  simp only []
  generalize hn : (if i > 0 then 16 else 0 : Nat) = n
  have hn16 : n ≤ 16 := by rw [← hn]; split <;> omega
  have hlen0 : n + secret.length + salt.length ≤ st.backing.length := by omega
  rw [sliceTo_nat _ _ hlen0]
  simp only []
  have hb0 : (st.backing.take (n + secret.length + salt.length)).length
      = n + secret.length + salt.length := by simp; omega
  have hl1 : (copyInto (st.backing.take (n + secret.length + salt.length)) st.prevSum).length
      = n + secret.length + salt.length := by rw [copyInto_length, hb0]
  rw [sliceFrom_nat _ n (by omega)]
  simp only []
  have hl2 : ((copyInto (st.backing.take (n + secret.length + salt.length)) st.prevSum).take n ++
      copyInto ((copyInto (st.backing.take (n + secret.length + salt.length)) st.prevSum).drop n) secret).length
      = n + secret.length + salt.length := by
    simp only [List.length_append, List.length_take, copyInto_length, List.length_drop, hl1]; omega
  rw [sliceFrom_nat _ (n + secret.length) (by omega)]
  simp only []
  have hbuf := round_buf i (st.backing.take (n + secret.length + salt.length)) st.prevSum secret salt
    hprev (by rw [hb0, hn])
  simp only [hn] at hbuf
  rw [hbuf]
  constructor
  · intro hlt
    have : sliceFrom st.cred ((i * 16 : Nat) : Int) = none := by
      unfold sliceFrom
      have : ¬ ((0 : Int) ≤ ((i * 16 : Nat) : Int) ∧ ((i * 16 : Nat) : Int) ≤ (st.cred.length : Int)) := by omega
      rw [if_neg this]
    rw [this]
  · intro hle
    rw [sliceFrom_nat _ (i * 16) hle]
    simp only []
    have hsum : (md5 (roundInput i st.prevSum secret salt)).length = 16 := hmd _
    refine ⟨_, rfl, ?_, hsum, ?_, rfl, rfl⟩
    · simp only [List.length_append, List.length_drop]
      have : (roundInput i st.prevSum secret salt).length ≤ 16 + secret.length + salt.length := by
        unfold roundInput; split <;> simp <;> omega
      omega
    · simp only [List.length_append, List.length_take, copyInto_length, List.length_drop]; omega

/-- `fillCred(cred, salt, secret)` for a `cred` of ANY length: it panics exactly when
`len(cred) < 32` (the third round slices `cred[32:]`; the second `cred[16:]`); otherwise it keeps
the length of `cred`, its first 32 bytes are `D1‖D2`, and from 48 bytes on its first 48 bytes are
the full EVP key material `D1‖D2‖D3` (for 32 ≤ len < 48 the third digest is truncated by `copy`). -/
theorem fillCred_any_length (md5 : Bytes → Bytes) (hmd : Md5Len md5) (cred salt secret : Bytes) :
    (cred.length < 32 → fillCred md5 cred salt secret = none) ∧
    (32 ≤ cred.length → ∃ c, fillCred md5 cred salt secret = some c ∧ c.length = cred.length ∧
      c.take 32 = evpD1 md5 secret salt ++ evpD2 md5 secret salt ∧
      (48 ≤ cred.length → c.take 48 = evp md5 secret salt ∧ c.drop 48 = cred.drop 48)) := by
  have hst0 : True := trivial
  obtain ⟨_, r0⟩ := fillCredRound_specG md5 hmd secret salt 0
    ⟨List.replicate (16 + secret.length + salt.length) 0, List.replicate 16 0, cred⟩
    (by omega) (by simp) (by simp)
  obtain ⟨st1, h1, hb1, hpl1, hl1, hp1, hc1⟩ := r0 (by simp)
  simp only [] at hl1 hc1 hp1
  have ri0 : roundInput 0 (List.replicate 16 0) secret salt = secret ++ salt := by simp [roundInput]
  rw [ri0] at hp1 hc1
  have e1 : st1.prevSum = evpD1 md5 secret salt := hp1
  have d1l : (evpD1 md5 secret salt).length = 16 := hmd _
  have d2l : (evpD2 md5 secret salt).length = 16 := hmd _
  have d3l : (evpD3 md5 secret salt).length = 16 := hmd _
  obtain ⟨p1, q1⟩ := fillCredRound_specG md5 hmd secret salt 1 st1 (by omega) hb1 hpl1
  constructor
  · intro hlt
    unfold fillCred
    simp only []
    rw [h1]; simp only []
    by_cases h16 : cred.length < 16
    · rw [p1 (by rw [hl1]; omega)]
    · obtain ⟨st2, h2, hb2, hpl2, hl2, _, _⟩ := q1 (by rw [hl1]; omega)
      rw [h2]; simp only []
      rw [(fillCredRound_specG md5 hmd secret salt 2 st2 (by omega) hb2 hpl2).1 (by rw [hl2, hl1]; omega)]
  · intro hge
    obtain ⟨st2, h2, hb2, hpl2, hl2, hp2, hc2⟩ := q1 (by rw [hl1]; omega)
    have ri1 : roundInput 1 st1.prevSum secret salt = evpD1 md5 secret salt ++ secret ++ salt := by
      simp [roundInput, e1]
    rw [ri1] at hp2 hc2
    have e2 : st2.prevSum = evpD2 md5 secret salt := hp2
    obtain ⟨st3, h3, _, _, hl3, _, hc3⟩ :=
      (fillCredRound_specG md5 hmd secret salt 2 st2 (by omega) hb2 hpl2).2 (by rw [hl2, hl1]; omega)
    have ri2 : roundInput 2 st2.prevSum secret salt = evpD2 md5 secret salt ++ secret ++ salt := by
      simp [roundInput, e2]
    rw [ri2] at hc3
    refine ⟨st3.cred, ?_, by rw [hl3, hl2, hl1], ?_, ?_⟩
    · unfold fillCred; simp only []; rw [h1]; simp only []; rw [h2]; simp only []; rw [h3]
    all_goals
      -- the three stores, in closed form
      have c1 : st1.cred = evpD1 md5 secret salt ++ cred.drop 16 := by
        rw [hc1]; simp only [Nat.zero_mul, List.take_zero, List.nil_append, List.drop_zero]
        have := copyInto_fits cred (md5 (secret ++ salt)) (by rw [hmd]; omega)
        rw [this, hmd]; rfl
      have c2 : st2.cred = evpD1 md5 secret salt ++ (evpD2 md5 secret salt ++ cred.drop 32) := by
        rw [hc2, c1]
        have t1 : (evpD1 md5 secret salt ++ cred.drop 16).take (1 * 16) = evpD1 md5 secret salt :=
          List.take_left' (by omega)
        have t2 : (evpD1 md5 secret salt ++ cred.drop 16).drop (1 * 16) = cred.drop 16 :=
          List.drop_left' (by omega)
        have := copyInto_fits (cred.drop 16) (md5 (evpD1 md5 secret salt ++ secret ++ salt))
          (by rw [hmd]; simp; omega)
        rw [t1, t2, this, hmd, List.drop_drop]; rfl
      have c3 : st3.cred = evpD1 md5 secret salt ++ evpD2 md5 secret salt ++
          copyInto (cred.drop 32) (evpD3 md5 secret salt) := by
        rw [hc3, c2, ← List.append_assoc]
        have t1 : (evpD1 md5 secret salt ++ evpD2 md5 secret salt ++ cred.drop 32).take (2 * 16)
            = evpD1 md5 secret salt ++ evpD2 md5 secret salt := List.take_left' (by simp; omega)
        have t2 : (evpD1 md5 secret salt ++ evpD2 md5 secret salt ++ cred.drop 32).drop (2 * 16)
            = cred.drop 32 := List.drop_left' (by simp; omega)
        rw [t1, t2]; rfl
    · rw [c3]; exact List.take_left' (by simp; omega)
    · intro h48
      rw [c3, copyInto_fits _ _ (by rw [d3l]; simp; omega), d3l, List.drop_drop]
      constructor
      · rw [← List.append_assoc]
        exact List.take_left' (by simp [evp]; omega)
      · rw [← List.append_assoc]
        have : (evpD1 md5 secret salt ++ evpD2 md5 secret salt ++ evpD3 md5 secret salt).length = 48 := by
          simp; omega
        rw [List.drop_left' this]

end Golib.C09
