/-
C16 helper lemmas, part 1: the abstraction (`wordAt`, `mem`, `members`), bit-level facts,
element operations (Add / Remove / Contains / Grow) and the word-wise bulk operations.
-/
import Golib.Model.C16Bits

namespace Golib.C16

/-! ### abstraction -/

/-- Word `k` of the array; `0` beyond its end. -/
def wordAt (ws : List W) (k : Nat) : W := ws[k]?.getD 0#64

/-- Membership as the property states it: bit `n % 64` of word `n / 64`. -/
def mem (ws : List W) (n : Nat) : Bool := (wordAt ws (n / 64)).getLsbD (n % 64)

/-- Members contributed by word `w` at index `i`, ascending. -/
def bitsOf (w : W) (i : Nat) : List Nat :=
  ((List.range 64).filter fun j => w.getLsbD j).map fun j => 64 * i + j

def membersFrom : List W → Nat → List Nat
  | [], _ => []
  | w :: ws, i => bitsOf w i ++ membersFrom ws (i + 1)

/-- The ascending list of members = the mathematical set represented by the words. -/
def members (ws : List W) : List Nat := membersFrom ws 0

/-- Cardinality. -/
def card (ws : List W) : Nat := (members ws).length

/-! ### arithmetic of `num >> 6`, `num & 63`, `i << 6` -/

theorem shr6 (n : Nat) : n >>> 6 = n / 64 := by simp [Nat.shiftRight_eq_div_pow]
theorem and63 (n : Nat) : n &&& 63 = n % 64 := by
  have := Nat.and_two_pow_sub_one_eq_mod n 6
  simpa using this
theorem shl6 (n : Nat) : n <<< 6 = 64 * n := by simp [Nat.shiftLeft_eq]; omega

/-! ### bit-level facts -/

theorem bitMask_eq (b : Nat) : bitMask b = BitVec.twoPow 64 b := by
  simp [bitMask, BitVec.twoPow_eq]

theorem twoPow_ne_zero (j : Nat) (h : j < 64) : BitVec.twoPow 64 j ≠ 0#64 := by
  intro h2
  have := congrArg (fun x => x.getLsbD j) h2
  simp [h] at this

theorem and_mask_eq_zero (w : W) (j : Nat) (h : j < 64) :
    ((w &&& bitMask j) == 0#64) = !w.getLsbD j := by
  rw [bitMask_eq, BitVec.and_twoPow]
  cases hb : w.getLsbD j <;> simp [twoPow_ne_zero j h]

theorem and_mask_ne_zero (w : W) (j : Nat) (h : j < 64) :
    ((w &&& bitMask j) != 0#64) = w.getLsbD j := by
  have := and_mask_eq_zero w j h
  simp only [bne, this, Bool.not_not]

theorem testBit_eq (w : W) (j : Nat) (h : j < 64) : testBit w j = w.getLsbD j :=
  and_mask_ne_zero w j h

theorem getLsbD_or_mask (w : W) (b k : Nat) (hb : b < 64) :
    (w ||| bitMask b).getLsbD k = (w.getLsbD k || decide (b = k)) := by
  simp [bitMask_eq, BitVec.getLsbD_or, BitVec.getLsbD_twoPow, hb]

theorem getLsbD_andnot_mask (w : W) (b k : Nat) (hb : b < 64) :
    (w &&& ~~~ bitMask b).getLsbD k = (w.getLsbD k && !decide (b = k)) := by
  simp only [bitMask_eq, BitVec.getLsbD_and, BitVec.getLsbD_not, BitVec.getLsbD_twoPow, hb,
    decide_true, Bool.true_and]
  by_cases hk : k < 64
  · simp [hk]
  · have : w.getLsbD k = false := BitVec.getLsbD_of_ge _ _ (by omega)
    simp [this]

theorem getLsbD_lt (w : W) (k : Nat) (h : w.getLsbD k = true) : k < 64 := by
  by_cases hk : k < 64
  · exact hk
  · have : w.getLsbD k = false := BitVec.getLsbD_of_ge _ _ (by omega)
    simp [this] at h

/-! ### wordAt -/

theorem wordAt_of_lt (ws : List W) (k : Nat) (h : k < ws.length) : ws[k]? = some (wordAt ws k) := by
  simp [wordAt, List.getElem?_eq_getElem h]

theorem wordAt_of_ge (ws : List W) (k : Nat) (h : ws.length ≤ k) : wordAt ws k = 0#64 := by
  simp [wordAt, List.getElem?_eq_none h]

theorem wordAt_append_zeros (ws : List W) (g k : Nat) :
    wordAt (ws ++ List.replicate g 0#64) k = wordAt ws k := by
  unfold wordAt
  by_cases h : k < ws.length
  · rw [List.getElem?_append_left h]
  · rw [List.getElem?_append_right (by omega), List.getElem?_eq_none (l := ws) (by omega)]
    simp only [List.getElem?_replicate, Option.getD_none]
    split <;> rfl

theorem wordAt_set (ws : List W) (i k : Nat) (v : W) (h : i < ws.length) :
    wordAt (ws.set i v) k = if i = k then v else wordAt ws k := by
  unfold wordAt
  rw [List.getElem?_set]
  by_cases hik : i = k
  · subst hik; simp [h]
  · simp [hik]

/-- Two word arrays with the same `wordAt` have the same members relation. -/
theorem mem_congr {a b : List W} (h : ∀ k, wordAt a k = wordAt b k) (n : Nat) : mem a n = mem b n := by
  simp [mem, h]

/-! ### element operations -/

theorem div_mod_eq {n m : Nat} : (n / 64 = m / 64 ∧ n % 64 = m % 64) ↔ n = m := by omega

/-- `Contains` never panics and reports membership. -/
theorem contains_spec (b : Bitmap) (n : Nat) : b.contains n = some (mem b.set n) := by
  simp only [Bitmap.contains, shr6, and63, mem]
  split
  · rename_i h
    rw [wordAt_of_lt _ _ h]
    simp only [and_mask_ne_zero _ _ (Nat.mod_lt n (by decide : 0 < 64))]
  · rename_i h
    rw [wordAt_of_ge _ _ (by omega)]
    simp

/-- `Add` never panics, reports whether membership changed, and adds exactly `n`. -/
theorem add_spec (b : Bitmap) (n : Nat) :
    ∃ b', b.add n = some (b', !mem b.set n) ∧
      (∀ m, mem b'.set m = (decide (n = m) || mem b.set m)) ∧
      b'.set.length = max b.set.length (n / 64 + 1) := by
  have hbit : n % 64 < 64 := Nat.mod_lt n (by decide)
  simp only [Bitmap.add, shr6, and63]
  split
  · rename_i hge
    -- growth path
    have hlen : n / 64 < (b.set ++ List.replicate (n / 64 + 1 - b.set.length) 0#64).length := by
      simp only [List.length_append, List.length_replicate]; omega
    rw [wordAt_of_lt _ _ hlen]
    simp only [setIdx, hlen, if_true]
    have hm0 : mem b.set n = false := by
      simp [mem, wordAt_of_ge b.set (n / 64) (by omega)]
    simp only [hm0, Bool.not_false]
    refine ⟨_, rfl, ?_, ?_⟩
    · intro m
      simp only [mem, wordAt_set _ _ _ _ hlen, wordAt_append_zeros]
      by_cases hk : n / 64 = m / 64
      · simp only [hk, if_true, getLsbD_or_mask _ _ _ hbit]
        rw [← hk]
        by_cases hm : n % 64 = m % 64
        · have : n = m := div_mod_eq.mp ⟨hk, hm⟩
          simp [this]
        · have : n ≠ m := fun e => hm (by rw [e])
          simp [hm, this, Bool.or_comm]
      · have : n ≠ m := fun e => hk (by rw [e])
        simp [hk, this]
    · simp only [List.length_set, List.length_append, List.length_replicate]; omega
  · rename_i hlt
    have hlen : n / 64 < b.set.length := by omega
    rw [wordAt_of_lt _ _ hlen]
    simp only [and_mask_eq_zero _ _ hbit]
    have hmem : mem b.set n = (wordAt b.set (n / 64)).getLsbD (n % 64) := rfl
    cases hb : (wordAt b.set (n / 64)).getLsbD (n % 64)
    · simp only [Bool.not_false, if_true, setIdx, hlen, hmem, hb]
      refine ⟨_, rfl, ?_, ?_⟩
      · intro m
        simp only [mem, wordAt_set _ _ _ _ hlen]
        by_cases hk : n / 64 = m / 64
        · simp only [hk, if_true, getLsbD_or_mask _ _ _ hbit]
          rw [← hk]
          by_cases hm : n % 64 = m % 64
          · have : n = m := div_mod_eq.mp ⟨hk, hm⟩
            simp [this]
          · have : n ≠ m := fun e => hm (by rw [e])
            simp [hm, this, Bool.or_comm]
        · have : n ≠ m := fun e => hk (by rw [e])
          simp [hk, this]
      · simp only [List.length_set]; omega
    · simp only [Bool.not_true, Bool.false_eq_true, if_false, hmem, hb]
      refine ⟨b, rfl, ?_, by omega⟩
      intro m
      by_cases hnm : n = m
      · subst hnm; simp [hmem, hb]
      · simp [hnm]

/-- `Remove` never panics, reports whether membership changed, and removes exactly `n`;
the word count is unchanged. -/
theorem remove_spec (b : Bitmap) (n : Nat) :
    ∃ b', b.remove n = some (b', mem b.set n) ∧
      (∀ m, mem b'.set m = (!decide (n = m) && mem b.set m)) ∧
      b'.set.length = b.set.length := by
  have hbit : n % 64 < 64 := Nat.mod_lt n (by decide)
  simp only [Bitmap.remove, shr6, and63]
  have hmem : mem b.set n = (wordAt b.set (n / 64)).getLsbD (n % 64) := rfl
  split
  · rename_i hlen
    rw [wordAt_of_lt _ _ hlen]
    simp only [and_mask_ne_zero _ _ hbit]
    cases hb : (wordAt b.set (n / 64)).getLsbD (n % 64)
    · simp only [Bool.false_eq_true, if_false, hmem, hb]
      refine ⟨b, rfl, ?_, rfl⟩
      intro m
      by_cases hnm : n = m
      · subst hnm; simp [hmem, hb]
      · simp [hnm]
    · simp only [if_true, setIdx, hlen, hmem, hb]
      refine ⟨_, rfl, ?_, by simp⟩
      intro m
      simp only [mem, wordAt_set _ _ _ _ hlen]
      by_cases hk : n / 64 = m / 64
      · simp only [hk, if_true, getLsbD_andnot_mask _ _ _ hbit]
        rw [← hk]
        by_cases hm : n % 64 = m % 64
        · have : n = m := div_mod_eq.mp ⟨hk, hm⟩
          simp [this]
        · have : n ≠ m := fun e => hm (by rw [e])
          simp [hm, this, Bool.and_comm]
      · have : n ≠ m := fun e => hk (by rw [e])
        simp [hk, this]
  · rename_i hge
    have : mem b.set n = false := by
      simp [mem, wordAt_of_ge b.set (n / 64) (by omega)]
    simp only [this]
    refine ⟨b, rfl, ?_, rfl⟩
    intro m
    by_cases hnm : n = m
    · subst hnm; simp [this]
    · simp [hnm]

/-- `Grow` never changes membership; afterwards `Cap() > n`. -/
theorem grow_spec (b : Bitmap) (n : Nat) :
    (∀ m, mem (b.grow n).set m = mem b.set m) ∧
    (b.grow n).set.length = max b.set.length (n / 64 + 1) := by
  simp only [Bitmap.grow, shr6]
  split
  · refine ⟨fun m => ?_, ?_⟩
    · simp only [mem, wordAt_append_zeros]
    · simp only [List.length_append, List.length_replicate]; omega
  · exact ⟨fun _ => rfl, by omega⟩

/-! ### bulk operations, word by word -/

theorem wordAt_nil (k : Nat) : wordAt [] k = 0#64 := by simp [wordAt]
theorem wordAt_cons_zero (a : W) (as : List W) : wordAt (a :: as) 0 = a := by simp [wordAt]
theorem wordAt_cons_succ (a : W) (as : List W) (k : Nat) : wordAt (a :: as) (k + 1) = wordAt as k := by
  simp [wordAt]

theorem wordAt_diff (a b : List W) (k : Nat) :
    wordAt (diffWords a b) k = wordAt a k &&& ~~~ wordAt b k := by
  fun_induction diffWords a b generalizing k with
  | case1 => simp [wordAt_nil]
  | case2 a as =>
    simp only [wordAt_nil, BitVec.not_zero, BitVec.and_allOnes]
  | case3 a as o os ih =>
    cases k with
    | zero => simp [wordAt_cons_zero]
    | succ k => simp [wordAt_cons_succ, ih]

theorem wordAt_intersect (a b : List W) (k : Nat) :
    wordAt (intersectWords a b) k = wordAt a k &&& wordAt b k := by
  fun_induction intersectWords a b generalizing k with
  | case1 => simp [wordAt_nil]
  | case2 a as ih =>
    cases k with
    | zero => simp [wordAt_cons_zero, wordAt_nil]
    | succ k => simp [wordAt_cons_succ, ih, wordAt_nil]
  | case3 a as o os ih =>
    cases k with
    | zero => simp [wordAt_cons_zero]
    | succ k => simp [wordAt_cons_succ, ih]

theorem wordAt_merge (a b : List W) (k : Nat) :
    wordAt (mergeWords a b) k = wordAt a k ||| wordAt b k := by
  fun_induction mergeWords a b generalizing k with
  | case1 as => simp [wordAt_nil]
  | case2 o os ih =>
    cases k with
    | zero => simp [wordAt_cons_zero, wordAt_nil]
    | succ k => simp [wordAt_cons_succ, ih, wordAt_nil]
  | case3 a as o os ih =>
    cases k with
    | zero => simp [wordAt_cons_zero]
    | succ k => simp [wordAt_cons_succ, ih]

theorem length_diff (a b : List W) : (diffWords a b).length = a.length := by
  fun_induction diffWords a b <;> simp_all
theorem length_intersect (a b : List W) : (intersectWords a b).length = a.length := by
  fun_induction intersectWords a b <;> simp_all
theorem length_merge (a b : List W) : (mergeWords a b).length = max a.length b.length := by
  fun_induction mergeWords a b <;> simp_all <;> omega

theorem mem_diff (a b : List W) (n : Nat) : mem (diffWords a b) n = (mem a n && !mem b n) := by
  simp only [mem, wordAt_diff, BitVec.getLsbD_and, BitVec.getLsbD_not]
  simp [Nat.mod_lt n (by decide : 0 < 64)]

theorem mem_intersect (a b : List W) (n : Nat) : mem (intersectWords a b) n = (mem a n && mem b n) := by
  simp only [mem, wordAt_intersect, BitVec.getLsbD_and]

theorem mem_merge (a b : List W) (n : Nat) : mem (mergeWords a b) n = (mem a n || mem b n) := by
  simp only [mem, wordAt_merge, BitVec.getLsbD_or]

end Golib.C16
